"""C04 -- Windows, slices and indices mean what they mean on the full array.

Proof: Props/C04.v (window_correct for the repaired reader loop, window_refuted for
today's loop, slice_plan_correct on the translated _read_slice, index_correct).
Tie: Gen/PySlice_gen.v is regenerated from nptdms/tdms.py on every run; the hand-written
Model/LazyRead.v is evaluated inside Coq on the abstract description of every generated
file and compared with what nptdms returns (read_data windows, slices, integer indices,
lazy and eager).  Direct oracle: NumPy indexing on the eagerly read array.
"""
import io
import json
import logging
import os
import random
import sys

sys.path.insert(0, os.path.dirname(os.path.abspath(__file__)))
import common as H

H.ensure_env()

import numpy as np  # noqa: E402
import lazygen as G  # noqa: E402
from nptdms import TdmsFile  # noqa: E402
import nptdms.log  # noqa: E402

nptdms.log.log_manager.set_level(logging.ERROR)

IMPORTS = ("From NpTdms Require Import Base.Res Base.PySlice Model.LazyRead Model.LazyReadZ.\n"
           "Open Scope Z_scope.\n")
cz, copt, clist, cbool = H.cz, H.copt, H.clist, H.cbool


def c_vals(vs):
    return clist([cz(v) for v in vs])


def c_chan(cd):
    rk = "RList" if cd["dtype"] == "str" else "RNumpy"
    segs = clist(["mk %s %s %s %s %s" % (cz(sv["chunk"]), cz(sv["nchunks"]), copt(sv["final"], cz),
                                         cbool(sv["interleaved"]), clist([c_vals(c) for c in sv["vals"]]))
                  for sv in cd["segs"]])
    return "(%s, %s)" % (rk, segs)


def c_obs(o):
    return "None" if o == "V" else "(Some %s)" % c_vals(o)


def classify(segs, off, end):
    """canonical key of a wrong window [off, end) from the shape of the file"""
    rng = G.seg_ranges(segs)
    data = [i for i, (s, e) in enumerate(rng) if e > s]
    if not data:
        return "window-mismatch"
    st = next((i for i in data if rng[i][1] > off), None)
    en = next((i for i in data if rng[i][1] >= end), data[-1])
    if st is None:
        return "window-mismatch"
    if any(segs[i]["chunk"] == 0 for i in range(st, en + 1)):
        return "d3-segment-index"
    if segs[en]["final"] == 0:
        return "d13-final-chunk-zero"
    return "window-mismatch"


class Ctx:
    """accumulates Coq cases and violations for one run"""

    def __init__(self, run):
        self.run = run
        self.chan_defs = []
        self.cases = {"window": [], "eager": [], "slice": [], "index": []}
        self.meta = {"window": [], "eager": [], "slice": [], "index": []}
        self.keycount = {}
        self.flagged = set()

    def add_chan(self, cd):
        name = "ch_%d" % len(self.chan_defs)
        self.chan_defs.append("Definition %s : chan := %s." % (name, c_chan(cd)))
        return name

    def violation(self, key, what, case, expected, actual, tag):
        self.flagged.add(tag)
        self.keycount[key] = self.keycount.get(key, 0) + 1
        if self.keycount[key] <= 2:
            self.run.violation(key, what, case, expected=expected, actual=actual)


def observe(fn):
    try:
        return fn()
    except ValueError:
        return "V"
    except IndexError:
        return "I"
    except Exception as e:       # anything else is itself a finding
        return "X:%s:%s" % (type(e).__name__, str(e)[:80])


def window_lists(n, rng, exhaustive_n, samples):
    if n <= exhaustive_n:
        return [(o, l) for o in range(0, n + 3) for l in list(range(0, n + 3)) + [None]]
    res = set()
    for o in (0, 1, n - 1, n, n + 1):
        for l in (0, 1, n - o, n, None):
            if l is None or l >= 0:
                res.add((o, l))
    while len(res) < samples:
        o = rng.randint(0, n + 2)
        res.add((o, rng.choice([None, rng.randint(0, n + 2), rng.randint(0, 8)])))
    return sorted(res, key=lambda t: (t[0], -1 if t[1] is None else t[1]))


def slice_lists(n, rng, exhaustive_n, samples):
    idx = [None] + list(range(-n - 2, n + 3))
    steps = [None, 1, 2, 3, -1, -2, -3]
    if n <= exhaustive_n:
        return [(a, b, k) for a in idx for b in idx for k in steps] + [(None, None, 0), (1, 2, 0)]
    res = [(None, None, 0)]
    for _ in range(samples):
        res.append((rng.choice(idx), rng.choice(idx), rng.choice(steps)))
    return res


def nontrivial_window(segs, off, end):
    """the window is non-empty and does not consist of whole chunks of one segment only"""
    if end <= off:
        return False
    cr = [(i, c, s, e) for (i, c, s, e) in G.chunk_ranges(segs) if s < end and e > off and e > s]
    if not cr:
        return False
    return len(cr) >= 2 or cr[0][2] != off or cr[0][3] != end


def run_file(ctx, spec, rng, label, vol):
    run = ctx.run
    data, desc = G.build(spec)
    hexfile = data.hex()
    run.count(label)
    try:
        eager = TdmsFile.read(io.BytesIO(data))
        lazy = TdmsFile.open(io.BytesIO(data))
    except Exception as e:
        run.violation("open-raises", "generated file cannot be opened: %r" % (e,),
                      {"op": "open", "spec": spec, "file_hex": hexfile}, actual=repr(e))
        return
    feats = set()
    for sg in spec["segments"]:
        feats.add(sg["kind"])
        if sg.get("interleaved"):
            feats.add("interleaved")
        if sg.get("be"):
            feats.add("big_endian")
        if sg["nchunks"] == 0:
            feats.add("zero_length_segment")
        if sg["nchunks"] > 1:
            feats.add("multi_chunk")
    if spec.get("cut"):
        feats.add("truncated")
    for f in feats:
        run.count("files_with_" + f)
    with lazy:
        for c, cd in desc["channels"].items():
            if c == "z":
                continue
            segs, dt = cd["segs"], cd["dtype"]
            full = G.chan_full(segs)
            n = len(full)
            if "g" not in eager or c not in eager["g"]:
                if n:
                    run.violation("generator", "channel %s missing from the file" % c,
                                  {"op": "open", "spec": spec, "file_hex": hexfile}, kind="correspondence-broken",
                                  no_input=True)
                continue
            run.count("channels_" + dt)
            run.count("channels_n_le_12" if n <= 12 else "channels_n_gt_12")
            if any(sv["chunk"] == 0 for sv in segs[1:-1]) and n:
                run.count("channels_with_absent_segment")
            if any(sv["final"] is not None for sv in segs):
                run.count("channels_with_truncated_chunk")
            ech, lch = eager["g"][c], lazy["g"][c]
            got = observe(lambda: G.decode(dt, ech[:]))
            base = {"spec": spec, "file_hex": hexfile, "channel": c}
            if got != full or len(lch) != n or len(ech) != n:
                run.violation("generator", "abstract description of channel %s disagrees with the eager read" % c,
                              dict(base, op="full"), kind="correspondence-broken", expected=full, actual=got,
                              no_input=True)
                continue
            arr = np.array(full, dtype=np.int64)
            cname = ctx.add_chan(cd)
            # ---- windows
            for (o, l) in window_lists(n, rng, 12, vol["win_samples"]):
                exp = [int(x) for x in arr[o:(None if l is None else o + l)]]
                end = n if l is None else min(n, o + l)
                for mode, ch in (("lazy", lch), ("eager", ech)):
                    r = observe(lambda: G.decode(dt, ch.read_data(o, l)))
                    run.cov["evaluations"] += 1
                    tag = (cname, mode, o, l)
                    if r != exp:
                        key = classify(segs, o, end) if mode == "lazy" else "eager-window"
                        ctx.violation(key, "%s read_data(%r, %r) on channel %s (%s, %d values): got %r, full[%r:%r] is %r"
                                      % (mode, o, l, c, dt, n, r, o, None if l is None else o + l, exp),
                                      dict(base, op="window", mode=mode, offs=o, len=l), exp, r, tag)
                    if isinstance(r, list) or r == "V":
                        kind = "window" if mode == "lazy" else "eager"
                        ctx.cases[kind].append("(%s, %s, %s, %s)" % (cname, cz(o), copt(l, cz), c_obs(r)))
                        ctx.meta[kind].append((tag, base, o, l, r, exp))
                if nontrivial_window(segs, o, end):
                    run.cov["distinct_nontrivial"] += 1
                if (o + (l or 0)) % 3 == 0:
                    r = observe(lambda: G.decode(dt, lch.read_data(o, l, scaled=False)))
                    run.cov["evaluations"] += 1
                    if r != exp:
                        ctx.violation(classify(segs, o, end), "lazy read_data(%r, %r, scaled=False) on channel %s: got %r, "
                                      "expected %r" % (o, l, c, r, exp),
                                      dict(base, op="window", mode="lazy", offs=o, len=l, scaled=False), exp, r,
                                      (cname, "raw", o, l))
            # negative arguments are rejected on lazily opened files
            for (o, l) in ((-1, 2), (0, -1), (-2, None)):
                r = observe(lambda: G.decode(dt, lch.read_data(o, l)))
                run.cov["evaluations"] += 1
                if r != "V":
                    ctx.violation("negative-args", "lazy read_data(%r, %r) did not raise ValueError: %r" % (o, l, r),
                                  dict(base, op="window", mode="lazy", offs=o, len=l), "ValueError", r,
                                  (cname, "lazy", o, l))
                ctx.cases["window"].append("(%s, %s, %s, %s)" % (cname, cz(o), copt(l, cz), c_obs(r) if r == "V" or
                                                                 isinstance(r, list) else "None"))
                ctx.meta["window"].append(((cname, "lazy", o, l), base, o, l, r, "V"))
            # ---- slices
            first_of_n = n not in ctx.seen_n and n <= vol["slice_exh"]
            ctx.seen_n.add(n)
            sl = slice_lists(n, rng, vol["slice_exh"], vol["slice_samples"])
            to_coq = set(range(len(sl))) if first_of_n else set(rng.sample(range(len(sl)), min(len(sl), 40)))
            for j, (a, b, k) in enumerate(sl):
                try:
                    exp = [int(x) for x in arr[a:b:k]]
                except ValueError:
                    exp = "V"
                for mode, ch in (("lazy", lch), ("eager", ech)):
                    r = observe(lambda: G.decode(dt, ch[a:b:k]))
                    run.cov["evaluations"] += 1
                    tag = (cname, mode, "slice", a, b, k)
                    if r != exp:
                        key = "slice-mismatch"
                        if mode == "lazy" and n == 0:
                            key = "d14-empty-channel-slice"
                        elif mode == "lazy" and k != 0:
                            st, sp, kk = slice(a, b, k).indices(n)
                            lo, hi = (st, sp) if kk > 0 else (sp + 1, st + 1)
                            key = classify(segs, max(lo, 0), max(lo, hi, 0))
                            key = "slice-mismatch" if key == "window-mismatch" else key
                        ctx.violation(key, "%s channel[%r:%r:%r] on channel %s (%s, %d values): got %r, NumPy gives %r"
                                      % (mode, a, b, k, c, dt, n, r, exp),
                                      dict(base, op="slice", mode=mode, start=a, stop=b, step=k), exp, r, tag)
                    if mode == "lazy" and j in to_coq and (isinstance(r, list) or r == "V"):
                        ctx.cases["slice"].append("(%s, %s, %s, %s, %s)" % (cname, copt(a, cz), copt(b, cz), copt(k, cz),
                                                                           c_obs(r)))
                        ctx.meta["slice"].append((tag, base, (a, b, k), None, r, exp))
                if exp != "V" and len(exp) > 0 and (k not in (None, 1) or a is None or a < 0 or (b is not None and b < 0)):
                    run.cov["distinct_nontrivial"] += 1
            # ---- integer indices (one pass over all indices on the same channel object: the cache persists)
            steps = []
            order = list(range(-n - 2, n + 2))
            if n > 12:
                order = sorted(set(rng.sample(order, min(len(order), 40)) + [-n - 1, -n, -1, 0, n - 1, n]))
            rng.shuffle(order)
            for i in order:
                try:
                    exp = int(arr[i])
                except IndexError:
                    exp = "I"
                for mode, ch in (("lazy", lch), ("eager", ech)):
                    r = observe(lambda: G.decode_scalar(dt, ch[i]))
                    run.cov["evaluations"] += 1
                    if r != exp:
                        ctx.violation("index-mismatch", "%s channel[%r] on channel %s (%s, %d values): got %r, NumPy gives %r"
                                      % (mode, i, c, dt, n, r, exp), dict(base, op="index", mode=mode, index=i), exp, r,
                                      (cname, mode, "index", i))
                    if mode == "lazy" and (isinstance(r, int) or r == "I"):
                        steps.append("(%s, %s)" % (cz(i), "None" if r == "I" else "(Some %s)" % cz(r)))
                if exp != "I":
                    run.cov["distinct_nontrivial"] += 1
            ctx.cases["index"].append("(%s, %s)" % (cname, clist(steps)))
            ctx.meta["index"].append(((cname, "lazy", "indexseq"), base, order, None, None, None))
            if len(run.cov["samples"]) < 4 and n and any(sv["chunk"] == 0 for sv in segs[1:-1]):
                run.sample({"channel": c, "dtype": dt, "segments": [{k: sv[k] for k in ("chunk", "nchunks", "final",
                                                                                       "interleaved")} for sv in segs],
                            "values": n, "file_bytes": len(data)})


def correspondence(ctx):
    run = ctx.run
    extra = "\n".join(ctx.chan_defs) + "\n"
    plan = [("window", "chan * Z * option Z * option (list Z)", "check_window"),
            ("eager", "chan * Z * option Z * option (list Z)", "check_eager"),
            ("slice", "chan * option Z * option Z * option Z * option (list Z)", "check_slice"),
            ("index", "chan * list (Z * option Z)", "check_index_seq")]
    for kind, ty, fn in plan:
        cases = ctx.cases[kind]
        if not cases:
            continue
        run.count("coq_cases_" + kind, len(cases))
        bad, errors = H.run_sharded(run.pid, IMPORTS, ty, fn, cases, shard=1500 if kind != "index" else 40,
                                    extra_defs=extra, tag=kind)
        run.corr_errors(errors)
        run.cov["traces_validated_against_impl"] += len(cases) - len(bad)
        shown = 0
        for i in bad:
            tag, base, a, b, r, exp = ctx.meta[kind][i]
            if tag in ctx.flagged or (kind == "index" and any(t[0] == tag[0] and len(t) > 2 and t[2] == "index"
                                                              for t in ctx.flagged)):
                continue          # the implementation output already violates the oracle: reported with its input
            shown += 1
            if shown > 2:
                break
            run.violation("corr-" + kind, "model (%s) and nptdms disagree on %s %r of channel %s although nptdms agrees "
                          "with NumPy: observed %r" % (fn, kind, (a, b), base["channel"], r),
                          dict(base, op="corr-" + kind, args=[a, b]), kind="correspondence-broken",
                          theorem="Model.LazyRead vs nptdms (%s)" % fn, actual=r, expected=exp, no_input=True)


def replay(run, case):
    ctx = Ctx(run)
    ctx.seen_n = set()
    spec = case.get("spec")
    if spec is None:
        print("replay: nothing to re-run")
        return
    data, desc = G.build(spec)
    if "file_hex" in case and data.hex() != case["file_hex"]:
        print("replay: warning, rebuilt file differs from the recorded bytes; using the recorded bytes")
        data = bytes.fromhex(case["file_hex"])
    op = case.get("op")
    c = case.get("channel")
    if op in ("window", "slice", "index") and c:
        cd = desc["channels"][c]
        full = G.chan_full(cd["segs"])
        arr = np.array(full, dtype=np.int64)
        f = TdmsFile.open(io.BytesIO(data)) if case.get("mode") == "lazy" else TdmsFile.read(io.BytesIO(data))
        ch = f["g"][c]
        cname = ctx.add_chan(cd)
        if op == "window":
            o, l = case["offs"], case["len"]
            kw = {"scaled": False} if case.get("scaled") is False else {}
            r = observe(lambda: G.decode(cd["dtype"], ch.read_data(o, l, **kw)))
            exp = "V" if (o < 0 or (l is not None and l < 0)) else [int(x) for x in arr[o:(None if l is None else o + l)]]
            term = "lz_read Z 0 (fst %s) (snd %s) %s %s" % (cname, cname, cz(o), copt(l, cz))
        elif op == "slice":
            a, b, k = case["start"], case["stop"], case["step"]
            r = observe(lambda: G.decode(cd["dtype"], ch[a:b:k]))
            try:
                exp = [int(x) for x in arr[a:b:k]]
            except ValueError:
                exp = "V"
            term = "slice_model %s %s %s %s" % (cname, copt(a, cz), copt(b, cz), copt(k, cz))
        else:
            i = case["index"]
            r = observe(lambda: G.decode_scalar(cd["dtype"], ch[i]))
            try:
                exp = int(arr[i])
            except IndexError:
                exp = "I"
            term = "read_at_index Z (snd %s) None %s" % (cname, cz(i))
        rc, out = H.coq_print_terms(run.pid, IMPORTS, [term], extra_defs="\n".join(ctx.chan_defs))
        print("nptdms (%s): %r\nexpected: %r\nmodel: %s" % (H.REPO, r, exp, out.strip()[-600:]))
        if r != exp:
            key = case.get("key_hint") or (classify(cd["segs"], case.get("offs", 0),
                                                    len(full) if case.get("len") is None else
                                                    min(len(full), case.get("offs", 0) + case["len"]))
                                           if op == "window" else op + "-mismatch")
            run.violation(key, "replayed %s on channel %s: got %r, expected %r" % (op, c, r, exp), case,
                          expected=exp, actual=r)
    else:
        run_file(ctx, spec, random.Random(run.seed), "replayed_files",
                 dict(win_samples=80, slice_exh=12, slice_samples=400))
        correspondence(ctx)


def rawflag_file():
    """two segments, int32 channel /'g'/'a' with 10 values in each; the FIRST lead-in's ToC lacks kTocRawData although
    the segment holds raw data (the eager reader reads it all the same)"""
    import struct
    out = b""
    for j in range(2):
        vals = struct.pack("<10i", *range(10 * j, 10 * j + 10))
        pth = b"/'g'/'a'"
        md = (struct.pack("<L", 1) + struct.pack("<L", len(pth)) + pth + struct.pack("<L", 20)
              + struct.pack("<LLQ", 3, 1, 10) + struct.pack("<L", 0))
        toc = (1 << 1) | (1 << 2) | ((1 << 3) if j == 1 else 0)
        out += b"TDSm" + struct.pack("<llQQ", toc, 4713, len(md) + len(vals), len(md)) + md + vals
    return out


def rawflag_witness(run):
    """the recorded finding (KNOWN_FINDINGS.txt key rawdata-flag-cleared-with-data)"""
    run.count("rawflag_witness")
    data = rawflag_file()
    try:
        eager = [int(x) for x in TdmsFile.read(io.BytesIO(data))["g"]["a"][:]]
    except Exception:     # noqa: BLE001  (a tree that rejects such files has nothing to compare)
        run.count("rawflag_witness_rejected")
        return
    bad = []
    with TdmsFile.open(io.BytesIO(data)) as f:
        ch = f["g"]["a"]
        for off in range(0, len(eager) + 1):
            for ln in [None] + list(range(0, len(eager) + 1)):
                exp = eager[off:] if ln is None else eager[off:off + ln]
                run.cov["evaluations"] += 1
                try:
                    got = [int(x) for x in ch.read_data(offset=off, length=ln)]
                    if got != exp:
                        bad.append(("read_data", off, ln, "wrong values %r" % got))
                except Exception as ex:     # noqa: BLE001
                    bad.append(("read_data", off, ln, type(ex).__name__))
        for i in range(len(eager)):
            try:
                if int(ch[i]) != eager[i]:
                    bad.append(("index", i, None, "wrong value"))
            except Exception as ex:     # noqa: BLE001
                bad.append(("index", i, None, type(ex).__name__))
    if bad:
        kinds = {}
        for b in bad:
            kinds[b[3] if not b[3].startswith("wrong") else "wrong"] = kinds.get(
                b[3] if not b[3].startswith("wrong") else "wrong", 0) + 1
        run.violation("rawdata-flag-cleared-with-data",
                      "a segment that holds raw data but whose ToC lacks kTocRawData: TdmsFile.read returns all %d values, "
                      "TdmsFile.open fails on %d of the windows / indices (%s), first %r (the segment generator yields a "
                      "placeholder empty chunk and then the data, and the reader trims the placeholder)"
                      % (len(eager), len(bad), ", ".join("%s x%d" % kv for kv in sorted(kinds.items())), bad[0]),
                      {"op": "rawflag", "file_hex": data.hex()}, expected="full[offset:offset+length]", actual=bad[:5])


def main():
    run = H.Run("C04")
    run.prove()
    if run.replay:
        case = json.load(open(run.replay))["case"]
        if case.get("op") == "rawflag":
            rawflag_witness(run)
        else:
            replay(run, case)
        run.finish()
    rawflag_witness(run)
    rng = random.Random(run.seed)
    ctx = Ctx(run)
    ctx.seen_n = set()
    vol = dict(win_samples=run.pick(70, 160), slice_exh=run.pick(9, 12), slice_samples=run.pick(250, 1200))
    # fixed witnesses first (section 9 D3, and the zero-length final chunk)
    d3 = dict(channels={"a": "i32", "b": "i32"}, strw=3, segments=[
        dict(kind="new", be=False, objs=[["a", 4]], interleaved=False, nchunks=1),
        dict(kind="new", be=False, objs=[["b", 2]], interleaved=False, nchunks=1),
        dict(kind="new", be=False, objs=[["a", 4]], interleaved=False, nchunks=3)])
    d3s = json.loads(json.dumps(d3))
    d3s["channels"]["a"] = "str"
    d13 = dict(channels={"b": "i32", "a": "i32"}, strw=3, cut=24, segments=[
        dict(kind="new", be=False, objs=[["b", 4], ["a", 4]], interleaved=False, nchunks=3)])
    for spec in (d3, d3s, d13):
        run_file(ctx, spec, rng, "witness_files", vol)
    # files of more than 100 segments whose channels' segment structures diverge only after the first 100
    for it in range(run.pick(2, 12)):
        run_file(ctx, G.gen_many_spec(rng), rng, "many_segment_files", vol)
    nfiles = run.pick(100, 1500)
    for it in range(nfiles):
        spec = G.gen_spec(rng, big=False, small=(it % 3 != 2))
        run_file(ctx, spec, rng, "generated_files", vol)
        if it % 200 == 199 and run.thorough:        # keep the Coq case files bounded
            correspondence(ctx)
            keep = ctx.keycount, ctx.flagged, ctx.seen_n
            ctx = Ctx(run)
            ctx.keycount, ctx.flagged, ctx.seen_n = keep
    correspondence(ctx)
    for k, v in sorted(ctx.keycount.items()):
        run.count("violations_" + k, v)
    run.cov["exhaustive"] = True
    run.cov["rule"] = ("per generated file and channel with n <= 12 values: every (offset, length) with 0 <= offset <= n+2, "
                       "length in 0..n+2 or None (lazy, eager, scaled=False on a third); every slice with start/stop in "
                       "[-n-2, n+2] or None and step in {None, +-1, +-2, +-3} (+ step 0) for n <= %d, sampled above; every "
                       "integer index in [-n-2, n+1] in random order on one channel object; longer channels sampled. "
                       "Non-trivial = a non-empty window that does not consist of exactly one whole chunk, a non-empty "
                       "slice with a step, a None or a negative bound, an in-range index. Coq correspondence: all lazy and "
                       "eager windows, all index sequences, the exhaustive slice grid for the first channel of every "
                       "length plus 40 sampled slices per other channel." % vol["slice_exh"])
    run.assumptions = ["values are identified by integer codes (k-th value of a channel = k+1); the byte-level decoding "
                       "of the six data types is C01's subject",
                       "the abstract description (chunk sizes, number of chunks, final chunk lengths, values per chunk) is "
                       "computed by the generator and checked against the eager read of every file",
                       "NumPy receivers are modelled as preallocated arrays with slice assignment; the string receiver as a list",
                       "lz_read models the REPAIRED read_raw_data_for_channel (dev/patches/D3.patch, D13.patch); on the "
                       "unrepaired tree the disagreeing inputs are reported as violations"]
    run.finish()


if __name__ == "__main__":
    main()
