"""Shared machinery for the npTDMS verification checks.

Every check (harness/cXX.py) uses this module to:
  * force the interpreter / environment (/venv/bin/python, PYTHONPATH=/repo),
  * gate the Coq development (no Admitted / Axiom / ...),
  * regenerate coq/theories/Gen/*.v from /repo's working tree,
  * build the property's cone with a full .vo build and re-run its Props file
    to capture `Print Assumptions`,
  * evaluate generated case files inside Coq (vm_compute) in parallel,
  * decide the verdict (known findings, VIOLATION lines, replay files),
  * write evidence/<id>.json.
"""
import concurrent.futures
import fcntl
import hashlib
import json
import os
import re
import shutil
import subprocess
import sys
import time
from pathlib import Path

VERIF = Path(__file__).resolve().parent.parent
REPO = Path(os.environ.get("NPTDMS_REPO", "/repo"))
COQ = VERIF / "coq"
THEORIES = COQ / "theories"
BUILD = VERIF / "_build"
WORK_ROOT = VERIF / "_work"
# evidence/ only ever describes runs against /repo itself; development runs against a scratch
# copy (NPTDMS_REPO=...) write elsewhere
EVIDENCE = VERIF / "evidence" if str(REPO) == "/repo" else VERIF / "_work" / "evidence_dev"
REPLAYS = VERIF / "replays"
KNOWN = VERIF / "KNOWN_FINDINGS.txt"
PYTHON = "/venv/bin/python"
NCPU = min(16, os.cpu_count() or 4)

GATE_RE = re.compile(
    r"\b(Admitted|admit|Axiom|Axioms|Parameter|Parameters|Conjecture|Conjectures|"
    r"Admit Obligations|bypass_check)\b|Unset Guard|Unset Positivity|Unset Universe|"
    r"-type-in-type|-impredicative-set|Guard Checking|Positivity Checking|Universe Checking")


def ensure_env():
    """Re-exec under /venv/bin/python with the environment every check needs."""
    want = {"PYTHONPATH": str(REPO), "PYTHONHASHSEED": "0", "NPTDMS_VERIF": "1",
            "PYTHONDONTWRITEBYTECODE": "1"}
    ok = (os.path.realpath(sys.executable) == os.path.realpath(PYTHON)
          and all(os.environ.get(k) == v for k, v in want.items()))
    if not ok:
        env = dict(os.environ)
        env.update(want)
        os.execve(PYTHON, [PYTHON] + sys.argv, env)
    # make sure the code under test is the working tree we were pointed at
    import nptdms
    here = Path(nptdms.__file__).resolve().parent.parent
    if here != REPO.resolve():
        raise SystemExit(f"nptdms imported from {here}, expected {REPO}")


# ---------------------------------------------------------------------------
# Coq term printers

def cz(n):
    return "(%d)%%Z" % n


def cn(n):
    assert n >= 0
    return "%d%%N" % n


def cnat(n):
    assert 0 <= n < 5000
    return "%d%%nat" % n


def cbool(b):
    return "true" if b else "false"


def clist(items):
    return "[" + "; ".join(items) + "]"


def copt(x, f=lambda v: v):
    return "None" if x is None else "(Some %s)" % f(x)


def chex(b):
    """bytes -> Coq term of type list byte, via Base.Bytes.hex (string literal)."""
    return '(hex "%s")' % bytes(b).hex()


def cstr_codes(s):
    """python str -> list N of code points"""
    return clist([cn(ord(ch)) for ch in s])


# ---------------------------------------------------------------------------
# Build

class BuildError(Exception):
    def __init__(self, what, log):
        super().__init__(what)
        self.what = what
        self.log = log


def sh(cmd, timeout, cwd=None, env=None):
    p = subprocess.run(cmd, cwd=cwd, env=env, stdout=subprocess.PIPE, stderr=subprocess.STDOUT,
                       text=True, timeout=timeout)
    return p.returncode, p.stdout


class Lock:
    def __init__(self, name="build"):
        BUILD.mkdir(exist_ok=True)
        self.path = BUILD / (".%s.lock" % name)

    def __enter__(self):
        self.f = open(self.path, "w")
        fcntl.flock(self.f, fcntl.LOCK_EX)
        return self

    def __exit__(self, *a):
        fcntl.flock(self.f, fcntl.LOCK_UN)
        self.f.close()


def gate():
    """Refuse to run if the development contains an escape hatch."""
    hits = []
    for p in sorted(THEORIES.rglob("*.v")):
        txt = p.read_text()
        # strip comments (non-nested is enough for our sources; nested handled by loop)
        prev = None
        while prev != txt:
            prev = txt
            txt = re.sub(r"\(\*(?:(?!\(\*|\*\)).)*\*\)", " ", txt, flags=re.S)
        for i, line in enumerate(txt.split("\n"), 1):
            if GATE_RE.search(line):
                hits.append("%s:%d: %s" % (p.relative_to(VERIF), i, line.strip()))
    proj = (COQ / "_CoqProject")
    if proj.exists() and re.search(r"type-in-type|impredicative-set|-vos|-vok", proj.read_text()):
        hits.append("_CoqProject has a forbidden flag")
    return hits


def cone_files(pid):
    """Theory files (relative to theories/) in the import cone of Props/<pid>.v."""
    seen, todo = set(), ["Props/%s.v" % pid] + [
        "Props/" + p.name for p in (THEORIES / "Props").glob("%s_*.v" % pid)]
    while todo:
        f = todo.pop()
        if f in seen or not (THEORIES / f).exists():
            continue
        seen.add(f)
        for m in re.finditer(r"From\s+NpTdms\s+Require\s+(?:Import\s+|Export\s+)?(.*?)\.(?=\s|$)",
                             (THEORIES / f).read_text(), flags=re.S):
            for mod in m.group(1).split():
                todo.append(mod.replace(".", "/") + ".v")
    return seen


def regen(pid=None):
    """Regenerate Gen/*.v from the repository working tree (fail-closed).
    With a property id, only the translators whose outputs (the Gen/<X>.v names their
    source mentions) lie in that property's import cone are run."""
    gen_dir = VERIF / "harness" / "gen"
    logs = []
    if not gen_dir.exists():
        return logs
    env = dict(os.environ)
    cone = cone_files(pid) if pid else None
    for script in sorted(gen_dir.glob("gen_*.py")):
        stems = set(re.findall(r"Gen/(\w+)", script.read_text()))
        if cone is not None:
            gen_in_cone = [c[4:-2] for c in cone if c.startswith("Gen/")]
            used = any(g == s or (s.endswith("_") and g.startswith(s)) for g in gen_in_cone for s in stems)
            if not used:
                continue
        rc, out = sh([PYTHON, str(script)], timeout=600, cwd=str(VERIF), env=env)
        logs.append((script.name, rc, out))
        if rc != 0:
            raise BuildError("translator %s failed (fail-closed)" % script.name, out)
    return logs


def project_sync():
    files = sorted(str(p.relative_to(COQ)) for p in THEORIES.rglob("*.v"))
    text = "-Q theories NpTdms\n-arg -w -arg -notation-overridden,-deprecated-hint-without-locality," \
           "-deprecated-instance-without-locality,-ambiguous-paths\n" + "\n".join(files) + "\n"
    proj = COQ / "_CoqProject"
    if not proj.exists() or proj.read_text() != text or not (COQ / "Makefile").exists():
        proj.write_text(text)
        rc, out = sh(["coq_makefile", "-f", "_CoqProject", "-o", "Makefile"], 120, cwd=str(COQ))
        if rc != 0:
            raise BuildError("coq_makefile failed", out)


def make(targets, timeout=1500):
    """Full .vo build of the given targets (paths relative to coq/)."""
    with Lock():
        project_sync()
        rc, out = sh(["make", "-j%d" % NCPU, "COQC=timeout 1200 coqc"] + list(targets), timeout, cwd=str(COQ))
    if rc != 0:
        raise BuildError("make failed for %s" % " ".join(targets), out)
    return out


COQ_FLAGS = ["-Q", str(THEORIES), "NpTdms", "-w",
             "-notation-overridden,-deprecated-hint-without-locality,"
             "-deprecated-instance-without-locality,-ambiguous-paths"]


def props_check(pid, extra_files=()):
    """Build the cone of Props/<pid>.v, then re-run coqc on it (output to scratch)
    to capture Print Assumptions.  Returns dict(theorems, assumptions, cmd, log)."""
    rel = "theories/Props/%s.v" % pid
    src = COQ / rel
    # companion statement files Props/<pid>_*.v belong to the property as well
    extra_files = list(extra_files) + sorted(
        "theories/Props/" + p.name for p in (THEORIES / "Props").glob("%s_*.v" % pid))
    targets = [rel + "o"] + [f + "o" for f in extra_files]
    make(targets)
    work = workdir(pid)
    (work / "recheck").mkdir(exist_ok=True)
    # re-run coqc on the property file and on every companion statement file (output to scratch) to capture
    # Print Assumptions; the files are independent of each other, so they are re-checked concurrently
    todo = [rel] + [f for f in extra_files if "/Props/" in f]

    def recheck(f):
        c = ["coqc"] + COQ_FLAGS + ["-o", str(work / "recheck" / (Path(f).stem + ".vo")), str(COQ / f)]
        return f, sh(c, 900)
    with concurrent.futures.ThreadPoolExecutor(max_workers=NCPU) as ex:
        results = list(ex.map(recheck, todo))
    out = ""
    for f, (rc_f, out_f) in results:
        if rc_f != 0:
            raise BuildError("coqc failed on %s" % f, out_f)
        out += ("\n" if out else "") + out_f
    cmd = ["coqc"] + COQ_FLAGS + ["-o", str(work / "recheck" / ("%s.vo" % pid)), str(src)]
    txt = src.read_text()
    theorems = re.findall(r"^\s*(?:Theorem|Corollary|Lemma|Example)\s+(\w+)", txt, flags=re.M)
    for f in extra_files:
        theorems += re.findall(r"^\s*(?:Theorem|Corollary|Lemma|Example)\s+(\w+)",
                               (COQ / f).read_text(), flags=re.M)
    axioms = parse_assumptions(out)
    return {"theorems": theorems, "assumptions": axioms,
            "cmd": "make -C coq %s && coqc -Q coq/theories NpTdms coq/%s" % (" ".join(targets), rel),
            "log": out}


def parse_assumptions(out):
    """Collect axiom names reported by Print Assumptions."""
    axioms = []
    closed = 0
    blocks = re.split(r"\n(?=Closed under the global context|Axioms:|Fetching opaque)", "\n" + out)
    for b in blocks:
        if b.strip().startswith("Closed under"):
            closed += 1
        if b.strip().startswith("Axioms:"):
            for m in re.finditer(r"^([A-Za-z_][\w.']*)\s*:", b, flags=re.M):
                name = m.group(1)
                if name != "Axioms" and name not in axioms:
                    axioms.append(name)
    return {"closed": closed, "axioms": axioms}


_workdirs = {}


def workdir(pid):
    if pid not in _workdirs:
        d = WORK_ROOT / ("%s.%d" % (pid, os.getpid()))
        if d.exists():
            shutil.rmtree(d)
        d.mkdir(parents=True)
        _workdirs[pid] = d
    return _workdirs[pid]


def cleanup():
    for d in _workdirs.values():
        shutil.rmtree(d, ignore_errors=True)
    _workdirs.clear()


# ---------------------------------------------------------------------------
# Evaluating case files inside Coq

def coq_run_file(path, timeout=600):
    cmd = ["coqc"] + COQ_FLAGS + ["-o", str(path) + "o", str(path)]
    try:
        # address-space cap: a case file that blows up (seen once under a seeded bug: 57 GB) must fail, not take
        # the machine down; ordinary shards need well under 2 GB
        rc, out = sh(["bash", "-c", "ulimit -s unlimited 2>/dev/null; ulimit -v 16000000 2>/dev/null; exec \"$@\"", "x"]
                     + cmd, timeout)
    except subprocess.TimeoutExpired:
        return 124, "timeout after %ds" % timeout
    return rc, out


def coq_eval_files(pid, files, timeout=600):
    """files: list of (name, text). Runs them in parallel; returns list of (name, rc, out)."""
    work = workdir(pid)
    paths = []
    for name, text in files:
        name = re.sub(r"\W", "_", name)
        p = work / (name + ".v")
        p.write_text(text)
        paths.append((name, p))
    res = []
    with concurrent.futures.ThreadPoolExecutor(max_workers=NCPU) as ex:
        futs = {ex.submit(coq_run_file, p, timeout): name for name, p in paths}
        for fut in concurrent.futures.as_completed(futs):
            rc, out = fut.result()
            res.append((futs[fut], rc, out))
    res.sort()
    return res


def parse_eval_list(out):
    """Parse the outputs of `Eval vm_compute in <list of N/Z/nat>` commands: returns list of int lists."""
    res = []
    for m in re.finditer(r"=\s*(\[[^\]]*\]|nil)\s*:\s*list", out.replace("\n", " ")):
        body = m.group(1)
        if body == "nil":
            res.append([])
            continue
        body = body.strip("[]").strip()
        res.append([int(re.sub(r"%\w+|[()]", "", x).strip()) for x in body.split(";")] if body else [])
    return res


CASE_HEADER = """From Coq Require Import List NArith ZArith String Bool.
Import ListNotations.
Set Printing Width 1000000.
Set Printing Depth 1000000.
"""


def bad_indices_file(imports, case_type, check_fn, cases, extra_defs=""):
    """A Coq file evaluating `check_fn case` (bool) on each case and printing the indices
    (as N) of those that are false."""
    lines = [CASE_HEADER, imports, extra_defs,
             "Definition cases : list (%s) := [" % case_type,
             ";\n".join(cases),
             "].",
             "Fixpoint bad_from (i : N) (l : list (%s)) : list N :=" % case_type,
             "  match l with [] => [] | c :: r =>",
             "    if (%s) c then bad_from (N.succ i) r else i :: bad_from (N.succ i) r end." % check_fn,
             "Eval vm_compute in bad_from 0%N cases."]
    return "\n".join(lines) + "\n"


def run_sharded(pid, imports, case_type, check_fn, cases, shard=400, extra_defs="", timeout=900,
                tag="cases"):
    """Evaluate boolean agreement of every case inside Coq. Returns (bad global indices, errors)."""
    files = []
    offs = []
    for k in range(0, len(cases), shard):
        files.append(("%s_%04d" % (tag, k // shard),
                      bad_indices_file(imports, case_type, check_fn, cases[k:k + shard], extra_defs)))
        offs.append(k)
    results = coq_eval_files(pid, files, timeout)
    bad, errors = [], []
    for (name, rc, out), off in zip(results, offs):
        if rc != 0:
            errors.append((name, out[-3000:]))
            continue
        lists = parse_eval_list(out)
        if len(lists) != 1:
            errors.append((name, "unparsable output: " + out[-2000:]))
            continue
        bad.extend(off + i for i in lists[0])
    return bad, errors


def coq_print_terms(pid, imports, terms, extra_defs="", timeout=600, tag="show"):
    """Evaluate each term with vm_compute and return Coq's printed text (for replay files)."""
    text = CASE_HEADER + imports + "\n" + extra_defs + "\n" + \
        "\n".join("Eval vm_compute in (%s)." % t for t in terms) + "\n"
    (name, rc, out), = coq_eval_files(pid, [(tag, text)], timeout)
    return rc, out


# ---------------------------------------------------------------------------
# Verdicts, known findings, evidence

class Violation:
    def __init__(self, key, what, case, kind="property-violation", expected=None, actual=None,
                 model=None, theorem=None, no_input=False):
        self.key = key            # canonical key matched against KNOWN_FINDINGS
        self.what = what          # one-line description
        self.case = case          # JSON-able replay payload
        self.kind = kind
        self.expected = expected
        self.actual = actual
        self.model = model
        self.theorem = theorem
        self.no_input = no_input  # True: no failing input found (theorem / correspondence broken)


def load_known(pid):
    known = []
    if KNOWN.exists():
        for line in KNOWN.read_text().split("\n"):
            m = re.match(r"known:\s+property=(\S+)\s+key=(\S+)\s+(.*)$", line.strip())
            if m and m.group(1) == pid:
                known.append((m.group(2), m.group(3)))
    return known


def jsonable(x):
    if isinstance(x, bytes):
        return {"hex": x.hex()}
    if isinstance(x, (list, tuple)):
        return [jsonable(v) for v in x]
    if isinstance(x, dict):
        return {str(k): jsonable(v) for k, v in x.items()}
    if isinstance(x, (str, int, float, bool)) or x is None:
        return x
    return repr(x)


class Run:
    """One execution of one check."""

    def __init__(self, pid, argv=None):
        import argparse
        ap = argparse.ArgumentParser()
        ap.add_argument("--tier", default=os.environ.get("VERIF_TIER", "quick"))
        ap.add_argument("--replay", default=None)
        ap.add_argument("--seed", type=int, default=None)
        a = ap.parse_args(argv)
        self.pid = pid
        self.tier = a.tier if a.tier in ("quick", "thorough") else "quick"
        self.replay = a.replay
        seed = a.seed if a.seed is not None else os.environ.get("VERIF_SEED", "0")
        try:
            self.seed = int(seed)
        except ValueError:
            self.seed = int(hashlib.sha256(str(seed).encode()).hexdigest()[:8], 16)
        self.t0 = time.time()
        self.violations = []
        self.cov = {"evaluations": 0, "distinct_nontrivial": 0, "rule": "", "samples": [],
                    "traces_validated_against_impl": 0, "obligations": 0, "discharged": 0,
                    "checker_cmd": "", "trusted_base": [], "distribution": {}}
        self.assumptions = []
        self.notes = []
        self.theorem_state = None

    @property
    def thorough(self):
        return self.tier == "thorough"

    def pick(self, quick, thorough):
        return thorough if self.thorough else quick

    # -- proof side --------------------------------------------------------
    def prove(self, extra_files=(), extra_obligations=0):
        """Gate, regenerate, build, capture assumptions. On failure records a
        theorem-broken violation (the caller still runs the search)."""
        hits = gate()
        if hits:
            self.violations.append(Violation(
                "gate", "development contains a forbidden construct: " + "; ".join(hits[:3]),
                {"hits": hits}, kind="theorem-broken", theorem="gate", no_input=True))
            return False
        try:
            regen(self.pid)
            info = props_check(self.pid, extra_files)
        except BuildError as e:
            m = re.search(r'File "([^"]+)", line (\d+)', e.log or "")
            where = "%s:%s" % (m.group(1), m.group(2)) if m else "?"
            self.broken_build = (e.what, where, (e.log or "")[-4000:])
            self.cov["obligations"] = max(self.cov["obligations"], 1)
            self.violations.append(Violation(
                "build", "proof obligation no longer checks: %s at %s" % (e.what, where),
                {"error": (e.log or "")[-4000:]}, kind="theorem-broken", theorem=where, no_input=True))
            return False
        if self.thorough and os.environ.get("VERIF_NO_COQCHK") != "1":
            self.coqchk()
        n = len(info["theorems"]) + extra_obligations
        self.cov["obligations"] = n
        self.cov["discharged"] = n
        self.cov["checker_cmd"] = info["cmd"]
        self.cov["theorems"] = info["theorems"]
        ax = info["assumptions"]
        tb = ["Coq 8.16.1 kernel + vm_compute (no native_compute)",
              "Print Assumptions: %d statements closed under the global context; axioms: %s"
              % (ax["closed"], ", ".join(ax["axioms"]) if ax["axioms"] else "none")]
        self.cov["trusted_base"] = tb
        self.cov["axioms"] = ax["axioms"]
        return True

    def coqchk(self):
        """thorough tier: re-check the property's compiled files (and everything they depend on) with the
        independent checker and record the axioms it reports"""
        mods = ["NpTdms.Props.%s" % self.pid] + sorted(
            "NpTdms.Props." + p.stem for p in (THEORIES / "Props").glob("%s_*.v" % self.pid))
        try:
            rc, out = sh(["coqchk", "-o", "-silent", "-Q", str(THEORIES), "NpTdms"] + mods, 2400, cwd=str(COQ))
        except subprocess.TimeoutExpired:
            self.cov["coqchk"] = {"status": "timeout"}
            return
        m = re.search(r"\* Axioms:(.*?)\n\s*\n\* Constants/Inductives relying on type-in-type:(.*?)\n\s*\n", out, flags=re.S)
        axioms = [a.strip() for a in (m.group(1).split("\n") if m else []) if a.strip() and a.strip() != "<none>"]
        self.cov["coqchk"] = {"status": "ok" if rc == 0 else "failed", "modules": mods, "axioms": axioms,
                              "type_in_type": (m.group(2).strip() if m else "?")}
        if rc != 0:
            self.violations.append(Violation(
                "coqchk", "coqchk rejects the compiled development for %s" % self.pid, {"log": out[-3000:]},
                kind="theorem-broken", theorem="coqchk", no_input=True))

    # -- bookkeeping -------------------------------------------------------
    def count(self, key, n=1):
        d = self.cov["distribution"]
        d[key] = d.get(key, 0) + n

    def sample(self, s, limit=6):
        if len(self.cov["samples"]) < limit:
            self.cov["samples"].append(jsonable(s))

    def violation(self, *a, **k):
        self.violations.append(Violation(*a, **k))

    def corr_errors(self, errors, tag="correspondence"):
        for name, out in errors:
            self.violations.append(Violation(
                "corr-error", "%s file %s failed to evaluate" % (tag, name), {"log": out},
                kind="correspondence-broken", theorem=tag + ":" + name, no_input=True))

    # -- finish ------------------------------------------------------------
    def finish(self):
        known = load_known(self.pid)
        real = []
        known_hit = {}
        for v in self.violations:
            hit = [k for k in known if k[0] == v.key]
            if hit and not v.no_input:
                known_hit[hit[0][0]] = hit[0][1]
            else:
                real.append(v)
        # if an actual failing input was found, drop the "no input found" companions
        with_input = [v for v in real if not v.no_input]
        report = with_input if with_input else real
        for k, what in known_hit.items():
            print("KNOWN-FINDING: property=%s %s" % (self.pid, what))
        lines = []
        seen = set()
        for v in report:
            if v.key in seen and len(lines) >= 1:
                continue
            seen.add(v.key)
            if len(lines) >= 5:
                break
            REPLAYS.joinpath(self.pid).mkdir(parents=True, exist_ok=True)
            payload = {"property": self.pid, "seed": self.seed, "tier": self.tier, "kind": v.kind,
                       "key": v.key, "what": v.what, "theorem": v.theorem, "case": jsonable(v.case),
                       "expected": jsonable(v.expected), "actual": jsonable(v.actual),
                       "model": jsonable(v.model)}
            h = hashlib.sha256(json.dumps(payload, sort_keys=True).encode()).hexdigest()[:12]
            path = REPLAYS / self.pid / (h + ".json")
            path.write_text(json.dumps(payload, indent=1))
            tail = " no-failing-input-found" if v.no_input else ""
            lines.append("VIOLATION property=%s replay=%s%s" % (self.pid, path, tail))
            print("  # " + v.what[:300])
        self.write_evidence(len(report), known_hit)
        for line in lines:
            print(line)
        cleanup()
        if self.replay and not lines:
            print("replay: property holds on this case")
        sys.exit(1 if lines else 0)

    def write_evidence(self, nviol, known_hit):
        EVIDENCE.mkdir(parents=True, exist_ok=True)
        cov = dict(self.cov)
        if not cov["samples"]:
            cov["samples"] = ["(no cases generated)"]
        if cov["discharged"] == 0 or cov["obligations"] == 0:
            # proof side failed: fall back to the generic keys so the file stays schema-valid
            cov["obligations_failed"] = max(cov["obligations"], 1)
            del cov["obligations"], cov["discharged"]
            cov["evaluations"] = max(cov["evaluations"], 1)
            cov["distinct_nontrivial"] = max(cov["distinct_nontrivial"], 2)
        cov["known_findings_hit"] = known_hit
        cov["notes"] = self.notes
        ev = {"property_id": self.pid, "tier": self.tier, "seed": self.seed, "level": "proof",
              "coverage": cov, "assumptions": self.assumptions,
              "wall_s": round(time.time() - self.t0, 2), "violations": nviol}
        (EVIDENCE / (self.pid + ".json")).write_text(json.dumps(ev, indent=1, default=repr) + "\n")
