(* C05 on bytes, layer 1: ONE segment.

   For a segment record [g] of the metadata pass whose raw data block encodes the
   chunks [cs] (ReadCorrect.seg_encodes, the hypothesis of read_correct) and
   which is regular (IoBytes.io_regular_seg), [ioseg_of] on the file bytes
   succeeds and the abstract segment it computes is tied to [g] and [cs]
   ([seg_tie]): positions and flags, the data objects with their channel numbers,
   num_chunks chunks each of the declared shape, and -- through the numbering of
   paths -- per channel the labelled eager values, the chunk sequence of the
   channel-level iterator and the chunk sequence of the file-level iterator.

     lab_inj              the labelling of values is injective
     path_index_*         the numbering of paths
     ioseg_of_encoded     the theorem above *)
From Coq Require Import List ZArith Bool Lia ZifyBool.
From Coq Require Import Init.Byte.
Import ListNotations.
From NpTdms Require Import Base.Bytes Base.Res Base.PySlice Model.Tokens Model.TokensWf Model.SegState
     Model.Layout Model.Reader Model.FileSyn Model.LazyBytes Model.IoBytes
     Proofs.SegStateProofs Proofs.LayoutProofs Proofs.FileSynProofs Proofs.ReadCorrect
     Proofs.LazyEagerIndex Proofs.LazyEagerView.
From NpTdms Require Model.IoPlan Proofs.IoPlanProofs Proofs.IoBytesIndex.
Local Open Scope Z_scope.

(* ---- labels ---------------------------------------------------------------------- *)

Lemma lab_pos v : 1 <= lab v.
Proof. induction v as [|b r IH]; cbn [lab]; [lia|]. pose proof (b2z_range b). lia. Qed.

Lemma b2z_inj x y : b2z x = b2z y -> x = y.
Proof. intros H. rewrite <- (z2b_b2z x), <- (z2b_b2z y), H. reflexivity. Qed.

Theorem lab_inj : forall a b, lab a = lab b -> a = b.
Proof.
  induction a as [|x a IH]; intros [|y b] H; cbn [lab] in H.
  - reflexivity.
  - pose proof (lab_pos b). pose proof (b2z_range y). lia.
  - pose proof (lab_pos a). pose proof (b2z_range x). lia.
  - pose proof (b2z_range x). pose proof (b2z_range y).
    assert (Hl : lab a = lab b) by lia.
    assert (Hb : b2z x = b2z y) by lia.
    rewrite (IH b Hl), (b2z_inj x y Hb). reflexivity.
Qed.

Lemma map_lab_inj : forall a b, map lab a = map lab b -> a = b.
Proof.
  induction a as [|x a IH]; intros [|y b] H; cbn [map] in H; try discriminate; [reflexivity|].
  injection H as Hx Hr. rewrite (lab_inj x y Hx), (IH b Hr). reflexivity.
Qed.

(* ---- the numbering of paths ---------------------------------------------------- *)

Lemma path_index_range p : forall paths i,
    path_index p paths = Some i -> 0 <= i < Z.of_nat (length paths).
Proof.
  induction paths as [|q r IH]; intros i H; [discriminate|].
  cbn [path_index] in H. destruct (bytes_eqb p q).
  - injection H as <-. cbn [length]. lia.
  - destruct (path_index p r) as [j|]; [|discriminate]. injection H as <-.
    specialize (IH j eq_refl). cbn [length]. lia.
Qed.

Lemma path_index_nth p : forall paths i,
    path_index p paths = Some i -> nth_error paths (Z.to_nat i) = Some p.
Proof.
  induction paths as [|q r IH]; intros i H; [discriminate|].
  cbn [path_index] in H. destruct (bytes_eqb p q) eqn:E.
  - injection H as <-. apply bytes_eqb_eq in E. subst q. reflexivity.
  - destruct (path_index p r) as [j|] eqn:Ej; [|discriminate]. injection H as <-.
    pose proof (path_index_range p r j Ej).
    replace (Z.to_nat (Z.succ j)) with (S (Z.to_nat j)) by lia. cbn [nth_error]. apply IH. reflexivity.
Qed.

Lemma path_index_inj p q paths i :
  path_index p paths = Some i -> path_index q paths = Some i -> p = q.
Proof.
  intros Hp Hq. apply path_index_nth in Hp. apply path_index_nth in Hq. congruence.
Qed.

Lemma path_index_in p : forall paths, In p paths -> exists i, path_index p paths = Some i.
Proof.
  induction paths as [|q r IH]; intros H; [contradiction|].
  cbn [path_index]. destruct (bytes_eqb p q) eqn:E; [exists 0; reflexivity|].
  destruct H as [H|H]; [subst q; rewrite bytes_eqb_refl in E; discriminate|].
  destruct (IH H) as [i Hi]. rewrite Hi. exists (Z.succ i). reflexivity.
Qed.

Lemma path_index_of_nth : forall paths, NoDup paths -> forall n p,
    nth_error paths n = Some p -> path_index p paths = Some (Z.of_nat n).
Proof.
  induction paths as [|q r IH]; intros Hnd n p H; [destruct n; discriminate|].
  inversion Hnd as [|x y Hnin Hnd']; subst x y.
  destruct n as [|n]; cbn [nth_error] in H.
  - injection H as ->. cbn [path_index]. rewrite bytes_eqb_refl. reflexivity.
  - cbn [path_index]. destruct (bytes_eqb p q) eqn:E.
    + apply bytes_eqb_eq in E. subst q. exfalso. apply Hnin. eapply nth_error_In. exact H.
    + rewrite (IH Hnd' n p H). cbn [option_map]. f_equal. lia.
Qed.

(* ---- data objects ------------------------------------------------------------------ *)

Definition obj_rel (paths : list bytes) (o : sobj) (io : IoPlan.obj) : Prop :=
  path_index (so_path o) paths = Some (IoPlan.o_chan io) /\
  IoPlan.o_nvals io = so_nvals o /\ IoPlan.o_size io = so_dsize o.

Lemma ioobjs_ok paths : forall dobjs,
    (forall o, In o dobjs -> In (so_path o) paths) ->
    exists objs, mapM (ioobj_of paths) dobjs = Ok objs /\ Forall2 (obj_rel paths) dobjs objs.
Proof.
  induction dobjs as [|o dobjs IH]; intros H.
  - exists []. split; [reflexivity|constructor].
  - destruct (path_index_in _ _ (H o (or_introl eq_refl))) as [i Hi].
    destruct (IH (fun o' Ho' => H o' (or_intror Ho'))) as (objs & Hm & Hr).
    exists (IoPlan.mkObj i (so_nvals o) (so_dsize o) :: objs). split.
    + cbn [mapM]. unfold ioobj_of at 1. rewrite Hi. cbn [bind]. rewrite Hm. reflexivity.
    + constructor; [|exact Hr]. repeat split. exact Hi.
Qed.

Lemma obj_rel_sizes paths dobjs objs :
  Forall2 (obj_rel paths) dobjs objs ->
  fold_right (fun o a => IoPlan.o_size o + a) 0 objs = zsum (map so_dsize dobjs).
Proof.
  induction 1 as [|o io dobjs objs (_ & _ & Hs) _ IH]; [reflexivity|].
  cbn [fold_right map zsum]. rewrite IH, Hs. reflexivity.
Qed.

Lemma Forall2_length' {A B} (R : A -> B -> Prop) a b : Forall2 R a b -> length a = length b.
Proof. induction 1; cbn [length]; congruence. Qed.

(* looking a channel number up among the abstract objects = looking its path up
   among the data objects *)
Lemma find_obj_rel paths p i : path_index p paths = Some i -> forall dobjs objs,
    Forall2 (obj_rel paths) dobjs objs ->
    match obj_for p dobjs, find (fun io => IoPlan.o_chan io =? i) objs with
    | Some o, Some io => obj_rel paths o io
    | None, None => True
    | _, _ => False
    end.
Proof.
  intros Hp. induction 1 as [|o io dobjs objs Hr _ IH]; [exact I|].
  unfold obj_for in *. cbn [find]. destruct Hr as (Hi & Hn & Hs).
  destruct (bytes_eqb p (so_path o)) eqn:E.
  - apply bytes_eqb_eq in E. subst p. rewrite Hi in Hp. injection Hp as <-.
    rewrite Z.eqb_refl. repeat split; assumption.
  - destruct (IoPlan.o_chan io =? i) eqn:E'; [|exact IH].
    apply Z.eqb_eq in E'. subst i. rewrite (path_index_inj _ _ _ _ Hp Hi), bytes_eqb_refl in E. discriminate.
Qed.

Lemma find_combine_rel paths p i (F : sobj -> list Z) : path_index p paths = Some i -> forall dobjs objs,
    Forall2 (obj_rel paths) dobjs objs ->
    option_map snd (find (fun ov : IoPlan.obj * list Z => IoPlan.o_chan (fst ov) =? i)
                         (combine objs (map F dobjs)))
    = option_map F (obj_for p dobjs).
Proof.
  intros Hp. induction 1 as [|o io dobjs objs Hr _ IH]; [reflexivity|].
  unfold obj_for in *. cbn [map combine find fst]. destruct Hr as (Hi & Hn & Hs).
  destruct (bytes_eqb p (so_path o)) eqn:E.
  - apply bytes_eqb_eq in E. subst p. rewrite Hi in Hp. injection Hp as <-.
    rewrite Z.eqb_refl. reflexivity.
  - destruct (IoPlan.o_chan io =? i) eqn:E'; [|exact IH].
    apply Z.eqb_eq in E'. subst i. rewrite (path_index_inj _ _ _ _ Hp Hi), bytes_eqb_refl in E. discriminate.
Qed.

Lemma chunk_chan_vals_rel paths p i (F : sobj -> list Z) dobjs objs :
  path_index p paths = Some i -> Forall2 (obj_rel paths) dobjs objs ->
  IoPlan.chunk_chan_vals objs (map F dobjs) i
  = match obj_for p dobjs with Some o => F o | None => [] end.
Proof.
  intros Hp Hr. pose proof (find_combine_rel paths p i F Hp dobjs objs Hr) as H.
  unfold IoPlan.chunk_chan_vals.
  destruct (find _ (combine objs (map F dobjs))) as [[io vs]|]; destruct (obj_for p dobjs) as [o|];
    cbn [option_map snd] in H; try discriminate; [|reflexivity].
  injection H as ->. reflexivity.
Qed.

Lemma obj_for_in_nodup p o dobjs :
  NoDup (map so_path dobjs) -> In o dobjs -> so_path o = p -> obj_for p dobjs = Some o.
Proof.
  intros Hnd Hin <-. induction dobjs as [|o' dobjs IH]; [contradiction|].
  cbn [map] in Hnd. inversion Hnd as [|x y Hnin Hnd']; subst x y.
  unfold obj_for in *. cbn [find]. destruct Hin as [->|Hin]; [rewrite bytes_eqb_refl; reflexivity|].
  destruct (bytes_eqb (so_path o) (so_path o')) eqn:E; [|exact (IH Hnd' Hin)].
  apply bytes_eqb_eq in E. exfalso. apply Hnin. rewrite <- E. apply in_map. exact Hin.
Qed.

(* ---- cutting a column into chunks ---------------------------------------------------- *)

Lemma cut_0 n vs : cut 0 n vs = firstn (Z.to_nat n) vs.
Proof. reflexivity. Qed.

Lemma cut_S k n (vs : list bytes) : cut (S k) n vs = cut k n (skipn (Z.to_nat n) vs).
Proof.
  unfold cut. f_equal. rewrite IoPlanProofs.skipn_skipn. f_equal. lia.
Qed.

Lemma cut_concat n : forall m (vs : list bytes),
    length vs = (Z.to_nat n * m)%nat -> concat (map (fun k => cut k n vs) (seq 0 m)) = vs.
Proof.
  induction m as [|m IH]; intros vs H.
  - rewrite Nat.mul_0_r in H. destruct vs; [reflexivity|discriminate].
  - cbn [seq map concat]. rewrite <- seq_shift, map_map.
    rewrite (map_ext _ (fun k => cut k n (skipn (Z.to_nat n) vs)) (fun k => cut_S k n vs)).
    rewrite IH by (rewrite skipn_length; nia). rewrite cut_0. apply firstn_skipn.
Qed.

Lemma cut_length n : forall k (vs : list bytes),
    (S k * Z.to_nat n <= length vs)%nat -> length (cut k n vs) = Z.to_nat n.
Proof.
  induction k as [|k IH]; intros vs H.
  - rewrite cut_0, firstn_length. lia.
  - rewrite cut_S. apply IH. rewrite skipn_length. nia.
Qed.

Lemma concat_const_length {A} (k : Z) (l : list (list A)) :
  Forall (fun c => zlen c = k) l -> zlen (concat l) = k * zlen l.
Proof.
  induction 1 as [|c l Hc _ IH]; [unfold zlen; cbn; lia|].
  cbn [concat]. rewrite zlen_app, zlen_cons, IH, Hc. lia.
Qed.

Lemma flat_map_map_lab {A} (g : A -> list bytes) (l : list A) :
  flat_map (fun x => map lab (g x)) l = map lab (flat_map g l).
Proof.
  induction l as [|x l IH]; [reflexivity|]. cbn [flat_map]. rewrite map_app, IH. reflexivity.
Qed.

(* ---- what "the raw data block encodes cs" gives, in the form the tie needs -------- *)

Definition lay_of (il : bool) : layout := if il then LInterleaved else LContig.

Definition sizes_pos (g : segment) : Prop :=
  Forall (fun o => 0 < so_nvals o /\ 0 < so_dsize o) (data_objs (sg_objs g)).

Lemma io_regular_seg_parts g :
  io_regular_seg g = true ->
  sizes_pos g /\
  (if toc_has (sg_toc g) TOC_RAW then data_objs (sg_objs g) <> [] /\ 0 < sg_nchunks g
   else data_objs (sg_objs g) = []).
Proof.
  unfold io_regular_seg, sizes_pos. intros H. apply andb_prop in H. destruct H as [H1 H2]. split.
  - apply Forall_forall. intros o Ho. rewrite forallb_forall in H1. specialize (H1 o Ho). lia.
  - destruct (toc_has (sg_toc g) TOC_RAW).
    + apply andb_prop in H2. destruct H2 as [H2 H3]. split; [|lia].
      destruct (data_objs (sg_objs g)); [discriminate|discriminate].
    + destruct (data_objs (sg_objs g)); [reflexivity|discriminate].
Qed.

Lemma seg_encodes_norm g data cs :
  seg_encodes g data cs ->
  calculate_chunks (sg_toc g) (sg_incomplete g) (sg_objs g) (blen data) = Ok (sg_nchunks g, sg_final g) ->
  exists il,
    seg_layout g = Ok (lay_of il) /\
    0 <= sg_nchunks g /\
    blen data = sg_nchunks g * zsum (map so_dsize (data_objs (sg_objs g))) /\
    NoDup (map so_path (data_objs (sg_objs g))) /\
    Forall (fun c : chunk => map fst c = map so_path (data_objs (sg_objs g)) /\ only_cdata c) cs /\
    (if il then (data_objs (sg_objs g) = [] /\ cs = [] /\ sg_nchunks g = 0) \/
                (data_objs (sg_objs g) <> [] /\ exists c, cs = [c])
     else Z.of_nat (length cs) = sg_nchunks g).
Proof.
  intros Henc Hcc.
  destruct Henc as [Hd Hdata | css Hlay Hpos Hnd Hok Hds Hdata
                    | nv m rows Hlay Hne Hnv0 Hm Hobjs Hsz Hnd Hrows Hlen Hdata].
  - subst data. unfold calculate_chunks, chunk_size, have_daqmx in Hcc. rewrite Hd in Hcc.
    cbn in Hcc. injection Hcc as Hn _.
    exists (toc_has (sg_toc g) TOC_INTERLEAVED).
    split.
    { unfold seg_layout, have_daqmx. rewrite Hd. cbn [filter length Nat.eqb bind].
      unfold have_interleaved.
      destruct (toc_has (sg_toc g) TOC_INTERLEAVED); cbn [negb bind filter length Nat.eqb lay_of]; reflexivity. }
    rewrite Hd, <- Hn. split; [lia|]. split; [reflexivity|]. split; [constructor|]. split; [constructor|].
    destruct (toc_has (sg_toc g) TOC_INTERLEAVED); [left; auto|reflexivity].
  - subst data. exists false.
    pose proof (seg_layout_contig_chunk_size g Hlay) as Hcs.
    rewrite (enc_chunks_blen _ _ css Hds) in Hcc.
    rewrite (calculate_chunks_exact _ _ _ _ _ Hcs Hpos) in Hcc by lia.
    injection Hcc as Hn Hf.
    split; [exact Hlay|]. split; [lia|]. split; [rewrite (enc_chunks_blen _ _ css Hds), Hn; reflexivity|].
    split; [exact Hnd|]. split.
    + apply Forall_map. eapply Forall_impl; [|exact Hok]. intros vss Hvss. cbn beta.
      apply Forall2_combine in Hvss. destruct Hvss as [_ Hl]. split; [|apply chunk_of_only_cdata].
      unfold chunk_of. rewrite map_map. cbn [fst].
      rewrite <- (map_map fst so_path), (map_fst_combine _ _ Hl). reflexivity.
    + rewrite map_length. exact Hn.
  - subst data. exists true.
    pose proof (seg_layout_interleaved_chunk_size g Hlay) as Hcs.
    pose proof (width_pos _ Hne Hsz) as Hw.
    pose proof (interleaved_chunk_bytes nv _ Hobjs) as Hcb.
    assert (Hb : blen (enc_rows (toc_endian (sg_toc g)) (data_objs (sg_objs g)) rows)
                 = m * zsum (map so_dsize (data_objs (sg_objs g)))).
    { rewrite (enc_rows_blen _ _ rows Hrows), Hlen. nia. }
    rewrite Hb in Hcc.
    rewrite (calculate_chunks_exact _ _ _ _ _ Hcs) in Hcc by nia.
    injection Hcc as Hn Hf.
    split; [exact Hlay|]. split; [lia|]. split; [rewrite Hb, Hn; reflexivity|].
    split; [exact Hnd|]. split.
    + constructor; [|constructor]. split; [apply cols_of_key_list|apply cols_of_only_cdata].
    + right. split; [exact Hne|]. eexists. reflexivity.
Qed.

(* per data object: the number of values each chunk (contiguous) / the column
   (interleaved) holds *)
Lemma seg_encodes_obj_lengths g data cs il o :
  seg_encodes g data cs ->
  calculate_chunks (sg_toc g) (sg_incomplete g) (sg_objs g) (blen data) = Ok (sg_nchunks g, sg_final g) ->
  Forall nvals_ok (sg_objs g) ->
  seg_layout g = Ok (lay_of il) ->
  NoDup (map so_path (data_objs (sg_objs g))) ->
  In o (data_objs (sg_objs g)) -> 0 < so_nvals o ->
  if il then zlen (flat_map (chunk_vals (so_path o)) cs) = so_nvals o * sg_nchunks g
  else Forall (fun c => zlen (chunk_vals (so_path o) c) = so_nvals o) cs.
Proof.
  intros Henc Hcc Hnv Hlay Hnd Hin Hpos.
  pose proof (seg_encodes_nodup_keys g data cs Henc) as Hkeys.
  destruct (seg_encodes_chunks g data cs (so_path o) Henc Hcc Hnv) as (_ & Hn0 & _ & _ & Hk).
  rewrite (path_count_nodup _ so_nvals _ Hnd), (obj_for_in_nodup _ o _ Hnd Hin eq_refl) in Hk.
  destruct (Hk ltac:(lia)) as (lay & Hlay' & Hlen & Hall & Hcat).
  rewrite Hlay in Hlay'. injection Hlay' as <-.
  destruct il; cbn [lay_of il_of] in *; unfold per_chunk_of in *.
  - rewrite (flat_map_chunk_vals_values _ cs Hkeys), <- Hcat.
    rewrite (concat_const_length _ _ Hall). unfold zlen. rewrite Hlen. lia.
  - rewrite Forall_map in Hall. exact Hall.
Qed.

(* ---- the tie of one segment -------------------------------------------------------- *)

Definition has_data_obj (p : bytes) (g : segment) : bool :=
  match obj_for p (data_objs (sg_objs g)) with Some _ => true | None => false end.

(* a decoded chunk with its paths numbered and its values labelled *)
Definition chunk_rel (paths : list bytes) (c : chunk) (l : list (Z * list Z)) : Prop :=
  Forall2 (fun (kv : bytes * cdata) (il : Z * list Z) =>
             path_index (fst kv) paths = Some (fst il) /\
             exists vs, snd kv = CData vs /\ snd il = map lab vs) c l.

Definition seg_tie (paths : list bytes) (g : segment) (cs : list chunk) (sg : IoPlan.seg) : Prop :=
  IoPlan.s_pos sg = sg_pos g /\
  IoPlan.s_data_pos sg = sg_data g /\
  IoPlan.s_raw sg = toc_has (sg_toc g) TOC_RAW /\
  Forall2 (obj_rel paths) (data_objs (sg_objs g)) (IoPlan.s_objs sg) /\
  Z.of_nat (length (IoPlan.s_chunks sg)) = sg_nchunks g /\
  forallb (IoPlan.chunk_ok (IoPlan.s_objs sg)) (IoPlan.s_chunks sg) = true /\
  (forall p i, path_index p paths = Some i ->
     IoPlan.seg_chan_values sg i = map lab (chan_values p cs) /\
     IoPlan.seg_chan_chunks sg i
     = if has_data_obj p g then map (fun c => map lab (chunk_values p c)) cs else []) /\
  exists ls, Forall2 (chunk_rel paths) cs ls /\
             IoPlan.seg_file_chunks sg = if toc_has (sg_toc g) TOC_RAW then ls else [[]].

Lemma flat_map_map {A B C} (f : B -> list C) (g : A -> B) (l : list A) :
  flat_map f (map g l) = flat_map (fun x => f (g x)) l.
Proof. induction l as [|x l IH]; [reflexivity|]. cbn [map flat_map]. rewrite IH. reflexivity. Qed.

Lemma flat_map_nil_fun {A B} (l : list A) : flat_map (fun _ : A => @nil B) l = [].
Proof. induction l; [reflexivity|assumption]. Qed.

Lemma chan_values_absent p (K : list bytes) (cs : list chunk) :
  Forall (fun c : chunk => map fst c = K) cs -> ~ In p K -> chan_values p cs = [].
Proof.
  intros H Hn. induction H as [|c cs Hc _ IH]; [reflexivity|].
  rewrite chan_values_cons, IH, chunk_values_not_in; [reflexivity|]. rewrite Hc. exact Hn.
Qed.

Lemma chunk_ok_rel paths (F : sobj -> list Z) dobjs objs :
  Forall2 (obj_rel paths) dobjs objs ->
  (forall o, In o dobjs -> Z.of_nat (length (F o)) = so_nvals o) ->
  IoPlan.chunk_ok objs (map F dobjs) = true.
Proof.
  intros Hr HF. unfold IoPlan.chunk_ok. apply andb_true_intro. split.
  - rewrite map_length, (Forall2_length' _ _ _ Hr). apply Nat.eqb_refl.
  - induction Hr as [|o io dobjs objs (_ & Hn & _) _ IH]; [reflexivity|].
    cbn [map combine forallb fst snd]. apply andb_true_intro. split.
    + rewrite Hn, (HF o (or_introl eq_refl)). apply Z.eqb_refl.
    + apply IH. intros o' Ho'. apply HF. right. exact Ho'.
Qed.

Lemma chunk_rel_of paths (c0 : chunk) : NoDup (map fst c0) -> forall dobjs objs (c : chunk),
    Forall2 (obj_rel paths) dobjs objs -> map fst c = map so_path dobjs -> only_cdata c ->
    (forall kv, In kv c -> In kv c0) ->
    chunk_rel paths c (combine (map IoPlan.o_chan objs)
                               (map (fun o => map lab (chunk_vals (so_path o) c0)) dobjs)).
Proof.
  intros Hnd dobjs objs c Hr. revert c.
  induction Hr as [|o io dobjs objs (Hi & _ & _) _ IH]; intros c Hk Hcd Hin.
  - destruct c; [constructor|discriminate].
  - destruct c as [|[k d] c]; [discriminate|]. cbn [map fst] in Hk. injection Hk as Hk1 Hk2.
    inversion Hcd as [|x y [vs Hvs] Hcd']; subst x y. cbn [snd] in Hvs. subst d k.
    cbn [map combine]. constructor.
    + cbn [fst snd]. split; [exact Hi|]. exists vs. split; [reflexivity|].
      unfold chunk_vals. rewrite (alookup_in_nodup _ _ _ Hnd (Hin _ (or_introl eq_refl))). reflexivity.
    + apply IH; [exact Hk2|exact Hcd'|]. intros kv Hkv. apply Hin. right. exact Hkv.
Qed.

Lemma keys_nodup (c : chunk) dobjs :
  map fst c = map so_path dobjs -> NoDup (map so_path dobjs) -> NoDup (map fst c).
Proof. intros -> H. exact H. Qed.

(* contiguous *)
Lemma seg_tie_contig paths g cs objs :
  let dobjs := data_objs (sg_objs g) in
  Forall2 (obj_rel paths) dobjs objs ->
  NoDup (map so_path dobjs) ->
  Forall (fun c : chunk => map fst c = map so_path dobjs /\ only_cdata c) cs ->
  Z.of_nat (length cs) = sg_nchunks g ->
  sizes_pos g ->
  (forall o, In o dobjs -> Forall (fun c => zlen (chunk_vals (so_path o) c) = so_nvals o) cs) ->
  seg_tie paths g cs
          (IoPlan.mkSeg (sg_pos g) (sg_data g) (toc_has (sg_toc g) TOC_RAW) false objs
                        (iochunks false (sg_nchunks g) dobjs cs)).
Proof.
  intros dobjs Hr Hnd Hkeys Hlen Hpos Hlens.
  assert (Hknd : Forall (fun c : chunk => NoDup (map fst c)) cs).
  { eapply Forall_impl; [|exact Hkeys]. intros c [Hk _]. exact (keys_nodup c dobjs Hk Hnd). }
  unfold seg_tie, iochunks.
  cbn [IoPlan.s_pos IoPlan.s_data_pos IoPlan.s_raw IoPlan.s_objs IoPlan.s_chunks].
  split; [reflexivity|]. split; [reflexivity|]. split; [reflexivity|]. split; [exact Hr|].
  split; [rewrite map_length; exact Hlen|]. split; [|split].
  - apply forallb_forall. intros c' Hc'. apply in_map_iff in Hc'. destruct Hc' as (c & <- & Hc).
    apply (chunk_ok_rel paths _ dobjs objs Hr). intros o Ho.
    rewrite map_length. pose proof (Hlens o Ho) as Hl. rewrite Forall_forall in Hl. exact (Hl c Hc).
  - intros p i Hp.
    pose proof (find_obj_rel paths p i Hp dobjs objs Hr) as Hfind. split.
    + unfold IoPlan.seg_chan_values. cbn [IoPlan.s_objs IoPlan.s_chunks]. rewrite flat_map_map.
      rewrite (flat_map_ext _ (fun c => match obj_for p dobjs with
                                        | Some o => map lab (chunk_vals (so_path o) c) | None => [] end)).
      2:{ intros c. apply (chunk_chan_vals_rel paths p i _ dobjs objs Hp Hr). }
      destruct (obj_for p dobjs) as [o|] eqn:Eo.
      * destruct (obj_for_some _ _ _ Eo) as [_ Hpo]. rewrite Hpo.
        rewrite flat_map_map_lab, (flat_map_chunk_vals_values p cs Hknd). reflexivity.
      * rewrite flat_map_nil_fun. apply obj_for_none in Eo.
        rewrite (chan_values_absent p (map so_path dobjs) cs); [reflexivity| |exact Eo].
        eapply Forall_impl; [|exact Hkeys]. intros c [Hk _]. exact Hk.
    + unfold IoPlan.seg_chan_chunks, IoPlan.seg_obj, has_data_obj.
      cbn [IoPlan.s_objs IoPlan.s_chunks IoPlan.s_il]. fold dobjs.
      destruct (obj_for p dobjs) as [o|] eqn:Eo;
        destruct (find (fun io => IoPlan.o_chan io =? i) objs) as [io|]; try contradiction; [|reflexivity].
      destruct Hfind as (_ & Hn & _). destruct (obj_for_some _ _ _ Eo) as [Hin Hpo].
      unfold sizes_pos in Hpos. rewrite Forall_forall in Hpos. destruct (Hpos o Hin) as [Hnv _].
      replace (IoPlan.o_nvals io =? 0) with false by lia.
      rewrite map_map. apply map_ext_in. intros c Hc.
      rewrite (chunk_chan_vals_rel paths p i _ dobjs objs Hp Hr), Eo, Hpo.
      rewrite Forall_forall in Hknd. rewrite (chunk_vals_values p c (Hknd c Hc)). reflexivity.
  - exists (map (fun c => combine (map IoPlan.o_chan objs)
                                  (map (fun o => map lab (chunk_vals (so_path o) c)) dobjs)) cs).
    split.
    + clear Hlen Hlens. induction cs as [|c cs IH]; [constructor|].
      inversion Hkeys as [|x y [Hk Hcd] Hkeys']; subst x y.
      inversion Hknd as [|x y Hn1 Hknd']; subst x y.
      cbn [map]. constructor; [|exact (IH Hkeys' Hknd')].
      apply (chunk_rel_of paths c Hn1 dobjs objs c Hr Hk Hcd). intros kv H. exact H.
    + unfold IoPlan.seg_file_chunks. cbn [IoPlan.s_raw IoPlan.s_il IoPlan.s_objs IoPlan.s_chunks].
      destruct (toc_has (sg_toc g) TOC_RAW); cbn [negb]; [|reflexivity].
      rewrite map_map. reflexivity.
Qed.

(* interleaved: columns of per-chunk pieces *)
Lemma zip_app_map {A} (G F : A -> list Z) (l : list A) :
  IoPlan.zip_app (map G l) (map F l) = map (fun o => G o ++ F o) l.
Proof. induction l as [|x l IH]; [reflexivity|]. cbn [map IoPlan.zip_app]. rewrite IH. reflexivity. Qed.

Lemma fold_zip_app_map {A K} (F : K -> A -> list Z) (l : list A) : forall (ks : list K) (G : A -> list Z),
    fold_left IoPlan.zip_app (map (fun k => map (F k) l) ks) (map G l)
    = map (fun o => G o ++ flat_map (fun k => F k o) ks) l.
Proof.
  induction ks as [|k ks IH]; intros G.
  - cbn [map fold_left flat_map]. apply map_ext. intros o. rewrite app_nil_r. reflexivity.
  - cbn [map fold_left flat_map]. rewrite zip_app_map, IH. apply map_ext. intros o.
    rewrite <- app_assoc. reflexivity.
Qed.

Lemma map_const_length {A B C} (x : C) (a : list A) (b : list B) :
  length a = length b -> map (fun _ => x) a = map (fun _ => x) b.
Proof.
  revert b. induction a as [|y a IH]; intros [|z b] H; try discriminate; [reflexivity|].
  cbn [map]. f_equal. apply IH. cbn [length] in H. lia.
Qed.

Lemma il_cols_fun {K} paths (F : K -> sobj -> list Z) dobjs objs (ks : list K) :
  Forall2 (obj_rel paths) dobjs objs ->
  IoPlan.il_cols objs (map (fun k => map (F k) dobjs) ks)
  = map (fun o => flat_map (fun k => F k o) ks) dobjs.
Proof.
  intros Hr. unfold IoPlan.il_cols.
  rewrite (map_const_length [] objs dobjs) by (symmetry; exact (Forall2_length' _ _ _ Hr)).
  rewrite (fold_zip_app_map F dobjs ks (fun _ => [])). reflexivity.
Qed.

Lemma assoc_combine_rel paths p i (H : sobj -> list Z) : path_index p paths = Some i -> forall dobjs objs,
    Forall2 (obj_rel paths) dobjs objs ->
    IoPlan.assoc Z.eqb i (combine (map IoPlan.o_chan objs) (map H dobjs))
    = option_map H (obj_for p dobjs).
Proof.
  intros Hp. induction 1 as [|o io dobjs objs Hr _ IH]; [reflexivity|].
  unfold obj_for in *. cbn [map combine IoPlan.assoc find]. destruct Hr as (Hi & Hn & Hs).
  destruct (bytes_eqb p (so_path o)) eqn:E.
  - apply bytes_eqb_eq in E. subst p. rewrite Hi in Hp. injection Hp as <-.
    rewrite Z.eqb_refl. reflexivity.
  - destruct (i =? IoPlan.o_chan io) eqn:E'; [|exact IH].
    apply Z.eqb_eq in E'. subst i. rewrite (path_index_inj _ _ _ _ Hp Hi), bytes_eqb_refl in E. discriminate.
Qed.

Lemma seg_tie_il paths g cs objs :
  let dobjs := data_objs (sg_objs g) in
  Forall2 (obj_rel paths) dobjs objs ->
  NoDup (map so_path dobjs) ->
  Forall (fun c : chunk => map fst c = map so_path dobjs /\ only_cdata c) cs ->
  0 <= sg_nchunks g ->
  (dobjs = [] /\ cs = [] /\ sg_nchunks g = 0) \/ (dobjs <> [] /\ exists c, cs = [c]) ->
  sizes_pos g ->
  (if toc_has (sg_toc g) TOC_RAW then dobjs <> [] else dobjs = []) ->
  (forall o, In o dobjs -> zlen (flat_map (chunk_vals (so_path o)) cs) = so_nvals o * sg_nchunks g) ->
  seg_tie paths g cs
          (IoPlan.mkSeg (sg_pos g) (sg_data g) (toc_has (sg_toc g) TOC_RAW) true objs
                        (iochunks true (sg_nchunks g) dobjs cs)).
Proof.
  intros dobjs Hr Hnd Hkeys Hn0 Hshape Hpos Hraw Hlens.
  assert (Hknd : Forall (fun c : chunk => NoDup (map fst c)) cs).
  { eapply Forall_impl; [|exact Hkeys]. intros c [Hk _]. exact (keys_nodup c dobjs Hk Hnd). }
  set (n := Z.to_nat (sg_nchunks g)).
  set (F := fun (k : nat) (o : sobj) => map lab (cut k (so_nvals o) (flat_map (chunk_vals (so_path o)) cs))).
  assert (Hch : iochunks true (sg_nchunks g) dobjs cs = map (fun k => map (F k) dobjs) (seq 0 n)) by reflexivity.
  assert (Hcol : forall o, In o dobjs ->
                           flat_map (fun k => F k o) (seq 0 n) = map lab (flat_map (chunk_vals (so_path o)) cs)).
  { intros o Ho. unfold F. rewrite flat_map_map_lab, flat_map_concat_map, cut_concat; [reflexivity|].
    pose proof (Hlens o Ho) as Hl. unfold zlen in Hl. unfold sizes_pos in Hpos. rewrite Forall_forall in Hpos.
    destruct (Hpos o Ho) as [Hnv _]. unfold n. nia. }
  unfold seg_tie. rewrite Hch.
  cbn [IoPlan.s_pos IoPlan.s_data_pos IoPlan.s_raw IoPlan.s_objs IoPlan.s_chunks].
  split; [reflexivity|]. split; [reflexivity|]. split; [reflexivity|]. split; [exact Hr|].
  split; [rewrite map_length, seq_length; unfold n; lia|]. split; [|split].
  - apply forallb_forall. intros c' Hc'. apply in_map_iff in Hc'. destruct Hc' as (k & <- & Hk).
    apply in_seq in Hk.
    apply (chunk_ok_rel paths _ dobjs objs Hr). intros o Ho. unfold F.
    rewrite map_length, cut_length.
    + unfold sizes_pos in Hpos. rewrite Forall_forall in Hpos. destruct (Hpos o Ho). lia.
    + pose proof (Hlens o Ho) as Hl. unfold zlen in Hl. unfold sizes_pos in Hpos. rewrite Forall_forall in Hpos.
      destruct (Hpos o Ho) as [Hnv _]. unfold n in Hk. nia.
  - intros p i Hp.
    pose proof (find_obj_rel paths p i Hp dobjs objs Hr) as Hfind. split.
    + unfold IoPlan.seg_chan_values. cbn [IoPlan.s_objs IoPlan.s_chunks]. rewrite flat_map_map.
      rewrite (flat_map_ext _ (fun k => match obj_for p dobjs with Some o => F k o | None => [] end)).
      2:{ intros k. apply (chunk_chan_vals_rel paths p i _ dobjs objs Hp Hr). }
      destruct (obj_for p dobjs) as [o|] eqn:Eo.
      * destruct (obj_for_some _ _ _ Eo) as [Hin Hpo]. rewrite (Hcol o Hin), Hpo.
        rewrite (flat_map_chunk_vals_values p cs Hknd). reflexivity.
      * rewrite flat_map_nil_fun. apply obj_for_none in Eo.
        rewrite (chan_values_absent p (map so_path dobjs) cs); [reflexivity| |exact Eo].
        eapply Forall_impl; [|exact Hkeys]. intros c [Hk _]. exact Hk.
    + unfold IoPlan.seg_chan_chunks, IoPlan.seg_obj, has_data_obj.
      cbn [IoPlan.s_objs IoPlan.s_chunks IoPlan.s_il]. fold dobjs.
      destruct (obj_for p dobjs) as [o|] eqn:Eo;
        destruct (find (fun io => IoPlan.o_chan io =? i) objs) as [io|]; try contradiction; [|reflexivity].
      destruct Hfind as (_ & Hnio & _). destruct (obj_for_some _ _ _ Eo) as [Hin Hpo].
      unfold sizes_pos in Hpos. rewrite Forall_forall in Hpos. destruct (Hpos o Hin) as [Hnv _].
      replace (IoPlan.o_nvals io =? 0) with false by lia.
      rewrite (il_cols_fun paths F dobjs objs (seq 0 n) Hr).
      rewrite (assoc_combine_rel paths p i _ Hp dobjs objs Hr), Eo. cbn [option_map IoPlan.ovals].
      rewrite (Hcol o Hin), Hpo.
      destruct Hshape as [(Hd & _)|(_ & c & ->)]; [fold dobjs in Hd; rewrite Hd in Hin; contradiction|].
      cbn [map flat_map]. rewrite app_nil_r. inversion Hknd as [|x y Hc _]; subst x y.
      rewrite (chunk_vals_values p c Hc). reflexivity.
  - unfold IoPlan.seg_file_chunks. cbn [IoPlan.s_raw IoPlan.s_il IoPlan.s_objs IoPlan.s_chunks].
    destruct Hshape as [(Hd & -> & _)|(Hne & c & ->)].
    + exists []. split; [constructor|]. fold dobjs in Hd.
      destruct (toc_has (sg_toc g) TOC_RAW); cbn [negb]; [contradiction|reflexivity].
    + inversion Hkeys as [|x y [Hk Hcd] _]; subst x y. inversion Hknd as [|x y Hc _]; subst x y.
      exists [combine (map IoPlan.o_chan objs) (map (fun o => map lab (chunk_vals (so_path o) c)) dobjs)].
      split.
      * constructor; [|constructor].
        apply (chunk_rel_of paths c Hc dobjs objs c Hr Hk Hcd). intros kv H. exact H.
      * destruct (toc_has (sg_toc g) TOC_RAW); cbn [negb]; [|reflexivity].
        destruct objs as [|io objs'] eqn:Eobjs.
        { inversion Hr as [Hd|]; subst. fold dobjs in Hne. congruence. }
        rewrite <- Eobjs in *. rewrite (il_cols_fun paths F dobjs objs (seq 0 n) Hr).
        do 2 f_equal. apply map_ext_in. intros o Ho. rewrite (Hcol o Ho).
        cbn [flat_map]. rewrite app_nil_r. reflexivity.
Qed.

(* ---- the theorem: ioseg_of on the bytes of a serialised file ------------------------ *)

Lemma distinct_paths_complete : forall l, NoDup l -> distinct_paths l = true.
Proof.
  induction 1 as [|p l Hp _ IH]; [reflexivity|]. cbn [distinct_paths]. rewrite IH, andb_true_r.
  apply negb_true_iff. destruct (existsb (bytes_eqb p) l) eqn:E; [|reflexivity].
  apply existsb_exists in E. destruct E as (q & Hq & Epq). apply bytes_eqb_eq in Epq. subst q. contradiction.
Qed.

Theorem ioseg_of_encoded paths pre s rest g cs :
  wf_fseg s = true ->
  seg_at (blen pre) s g ->
  seg_encodes g (fs_data s) cs ->
  NoDup (map so_path (sg_objs g)) ->
  Forall nvals_ok (sg_objs g) ->
  io_regular_seg g = true ->
  (forall o, In o (data_objs (sg_objs g)) -> In (so_path o) paths) ->
  exists sg, ioseg_of paths (pre ++ ser_seg TAG_DATA true s ++ rest) g = Ok sg /\
             seg_tie paths g cs sg /\
             IoPlan.seg_end sg = sg_next g /\ sg_pos g + 28 <= sg_data g.
Proof.
  intros Hwf Hat Henc Hdistinct Hnv Hreg Hpaths.
  pose proof Hat as (Hp & Htoc & Hdata & Hnext & _ & Hcc).
  destruct (io_regular_seg_parts g Hreg) as [Hpos Hraw].
  destruct (seg_encodes_norm g (fs_data s) cs Henc Hcc) as (il & Hlay & Hn0 & Hblen & Hnd & Hkeys & Hshape).
  destruct (ioobjs_ok paths (data_objs (sg_objs g)) Hpaths) as (objs & Hm & Hr).
  assert (Hlens : forall o, In o (data_objs (sg_objs g)) ->
                    if il then zlen (flat_map (chunk_vals (so_path o)) cs) = so_nvals o * sg_nchunks g
                    else Forall (fun c => zlen (chunk_vals (so_path o) c) = so_nvals o) cs).
  { intros o Ho. apply (seg_encodes_obj_lengths g (fs_data s) cs il o Henc Hcc Hnv Hlay Hnd Ho).
    unfold sizes_pos in Hpos. rewrite Forall_forall in Hpos. apply (Hpos o Ho). }
  assert (Hend : forall chunks, Z.of_nat (length chunks) = sg_nchunks g ->
                   IoPlan.seg_end (IoPlan.mkSeg (sg_pos g) (sg_data g) (toc_has (sg_toc g) TOC_RAW) il objs chunks)
                   = sg_next g).
  { intros chunks Hl. unfold IoPlan.seg_end, IoPlan.chunk_pos, IoPlan.num_chunks, IoPlan.chunk_size.
    cbn [IoPlan.s_data_pos IoPlan.s_chunks IoPlan.s_objs].
    rewrite (obj_rel_sizes paths _ _ Hr), Hl, Hnext, Hdata, Hblen. lia. }
  assert (Hlead : sg_pos g + 28 <= sg_data g).
  { rewrite Hp, Hdata. pose proof (blen_nonneg (fs_meta_bytes s)). lia. }
  unfold ioseg_of. rewrite (distinct_paths_complete _ Hdistinct). cbn [negb]. rewrite Hlay. cbn [bind].
  rewrite (read_segment_encoded pre s rest g cs Hwf Hat Henc).
  destruct il; cbn [lay_of]; rewrite Hm; cbn [bind]; eexists; (split; [reflexivity|]).
  - assert (Ht : seg_tie paths g cs
                   (IoPlan.mkSeg (sg_pos g) (sg_data g) (toc_has (sg_toc g) TOC_RAW) true objs
                                 (iochunks true (sg_nchunks g) (data_objs (sg_objs g)) cs))).
    { apply seg_tie_il; try assumption.
      destruct (toc_has (sg_toc g) TOC_RAW); [exact (proj1 Hraw)|exact Hraw]. }
    split; [exact Ht|]. split; [|exact Hlead]. apply Hend.
    destruct Ht as (_ & _ & _ & _ & Hl & _). exact Hl.
  - assert (Ht : seg_tie paths g cs
                   (IoPlan.mkSeg (sg_pos g) (sg_data g) (toc_has (sg_toc g) TOC_RAW) false objs
                                 (iochunks false (sg_nchunks g) (data_objs (sg_objs g)) cs))).
    { apply seg_tie_contig; assumption. }
    split; [exact Ht|]. split; [|exact Hlead]. apply Hend.
    destruct Ht as (_ & _ & _ & _ & Hl & _). exact Hl.
Qed.
