(* C14 composed with the whole-file read theorems: channel.dtype and len(channel) as
   functions of the FILE BYTES, and the dtype / length of what the scaled reads of
   Proofs/ScaleFile.v return.

   Model/ScaleDtype.v is the dtype calculus over ABSTRACT raw kinds and graphs
   (declared = TdmsChannel.dtype, actual = what the arithmetic yields); Proofs/ScaleFile.v
   reads scaled data from file bytes (reader models + bridge + Model/ScaleGraph.v).  This
   file joins them.

   THE BRIDGE
     dtype_of_type ty        tds_data_types[ty].nptype as one of the 13 numeric NumPy dtypes
                             (1..8 ints, 9 / 0x19 float32, 10 / 0x1A float64, 0x21 bool,
                             0x08000c complex64, 0x10000d complex128), None for the types
                             whose nptype is None (Void, ExtendedFloat(WithUnit), String,
                             TimeStamp, DaqMxRawData) and for unknown codes.  Agrees with
                             ScaleFile.decode_values on every type that has a value model
                             ([decode_values_dtype]) and, row by row, with the table
                             reflected from nptdms.types ([dtype_of_type_table]).
     rawkind_of_type odt     the channel's TDMS type as ScaleDtype.rawkind: None -> RUntyped,
                             String -> RString, TimeStamp -> RTimestamp, DaqMxRawData ->
                             RDaqmx, a type with nptype -> RNum; a type WITHOUT nptype that
                             is none of these (Void, ExtendedFloat) -> RUntyped: for the
                             declared dtype both give np.dtype('V8') (_raw_data_dtype).
     scaler_dtypes_file sts  obj.scaler_data_types (scale id -> TDMS type) as scale id ->
                             NumPy dtype; None when a scaler type has no nptype (the DAQmx
                             type code 0xFFFFFFFF = TimeStamp): Python would hand None to
                             np.result_type, which ScaleDtype's [cscalers] cannot express;
                             the declared dtype is then [Err EUnmodelled].
     chan_of_file om c ts    the ScaleDtype.chan of a channel of the hierarchy: kind from
                             ch_dtype, scaling = ScaleGraph.get_scaling on the SAME three
                             dictionaries ScaleFile.scale_with uses (channel properties,
                             properties stored under the canonical group path else {}, root
                             properties else {}), scalers from ch_scalers.
     declared_dtype_file data path raw_ts
                             TdmsFile.read(data, raw_timestamps=raw_ts)[group][channel].dtype:
                             metadata pass, hierarchy, find the channel, chan_dtype true.
                             Outer Base.Res: the reader raised; inner ScaleGraph.res: what
                             .dtype returned / raised (Err EUnmodelled: outside the model).
     declared_dtype_file_open the same through TdmsFile.open (metadata pass with segment
                             indexes); equal on every serialised file.
     raw_dtype_file          channel._raw_data_dtype()
     unscaled_read_*         read_data(..., scaled=False): the decoded raw values

   THEOREMS (statements in Props/C14_file.v)
     eager_dtype_content / reads_dtype_plain / reads_dtype_daqmx
     unscaled_dtype_plain, full_read_length_*, window lengths, empty windows
     plain_file_no_scalers    (a file without DAQmx segments has no scaler types: the
                              om_scalers origin invariant of the metadata pass)
     channel_scalers_typed    (an object whose type is not DaqMxRawData only ever gets scaler
                              types equal to its own type: obj_ty / om_ty through sm_loop) *)
From Coq Require Import String Ascii.
From Coq Require Import List ZArith Bool Lia ZifyBool PrimFloat.
From Coq Require Import Init.Byte.
Import ListNotations.
From NpTdms Require Import Base.Bytes Base.Res Base.PySlice Model.Tokens Model.TokensWf Model.SegState
     Model.Layout Model.Reader Model.FileSyn Model.LazyRead Model.LazyBytes
     Proofs.SegStateProofs Proofs.SegStateInherit Proofs.LayoutProofs Proofs.FileSynProofs Proofs.ReadCorrect
     Proofs.ReadCorrectDaqmx Proofs.LazyEagerIndex Proofs.LazyEagerView Proofs.LazyEagerTop
     Proofs.ScaleFile.
From NpTdms Require Gen.NumpyPromote Gen.TypeTable Model.ScaleGraph Proofs.ScaleProofs.
From NpTdms Require Import Model.ScaleDtype Proofs.DtypeProofs.
Module SG := ScaleGraph.
Module NP := NumpyPromote.
Local Open Scope Z_scope.

(* ================================================================================= *)
(* 1. TDMS types -> NumPy dtypes                                                      *)

Definition dtype_of_vkind (k : vkind) : NP.dtype :=
  match k with
  | KB => NP.Bool
  | KI ik => SG.dtype_of_ikind ik
  | KS => NP.Float32
  | KD => NP.Float64
  end.

(* tds_data_types[ty].nptype *)
Definition dtype_of_type (ty : Z) : option NP.dtype :=
  match kind_of_type ty with
  | Some k => Some (dtype_of_vkind k)
  | None => if ty =? T_C64 then Some NP.Complex64
            else if ty =? T_C128 then Some NP.Complex128
            else None
  end.

(* obj.data_type -> what TdmsChannel._raw_data_dtype distinguishes *)
Definition rawkind_of_type (ty : option Z) : rawkind :=
  match ty with
  | None => RUntyped
  | Some t =>
      if t =? T_STRING then RString
      else if t =? T_TIME then RTimestamp
      else if t =? T_DAQMX then RDaqmx
      else match dtype_of_type t with
           | Some d => RNum d
           | None => RUntyped          (* data_type.nptype is None: np.dtype('V8') *)
           end
  end.

(* obj.scaler_data_types: scale id -> TDMS type, as scale id -> nptype *)
Fixpoint scaler_dtypes_file (sts : list (Z * Z)) : option (list (nat * NP.dtype)) :=
  match sts with
  | [] => Some []
  | (id, ty) :: r =>
      match dtype_of_type ty, scaler_dtypes_file r with
      | Some d, Some l => Some ((Z.to_nat id, d) :: l)
      | _, _ => None
      end
  end.

Definition file_scalers (c : channel) : option (list (nat * NP.dtype)) :=
  match ch_scalers c with
  | None => Some []
  | Some sts => scaler_dtypes_file sts
  end.

(* the NumPy spelling of a numeric dtype without the byte-order character *)
Definition np_code (d : NP.dtype) : string :=
  match d with
  | NP.Bool => "b1" | NP.Int8 => "i1" | NP.Int16 => "i2" | NP.Int32 => "i4" | NP.Int64 => "i8"
  | NP.UInt8 => "u1" | NP.UInt16 => "u2" | NP.UInt32 => "u4" | NP.UInt64 => "u8"
  | NP.Float32 => "f4" | NP.Float64 => "f8" | NP.Complex64 => "c8" | NP.Complex128 => "c16"
  end%string.

Definition drop_order (s : string) : string :=
  match s with String _ r => r | EmptyString => EmptyString end.

Definition ostring_eqb (a b : option string) : bool :=
  match a, b with
  | None, None => true
  | Some x, Some y => String.eqb x y
  | _, _ => false
  end.

(* dtype_of_type is the nptype column of the table REFLECTED from nptdms.types on every
   run (Gen/TypeTable.v: enum value, class name, size, dtype string, struct code) *)
Lemma dtype_of_type_table :
  forallb (fun row : Z * string * option Z * option string * option string =>
             let '(ty, _, _, np, _) := row in
             ostring_eqb (option_map np_code (dtype_of_type ty)) (option_map drop_order np))
          TypeTable.type_table = true.
Proof. vm_compute. reflexivity. Qed.

Lemma decode_kind_dtype k vs : SG.dtype_of (decode_kind k vs) = dtype_of_vkind k.
Proof. destruct k; reflexivity. Qed.

(* the array ScaleFile's bridge decodes for a type has the type's NumPy dtype *)
Lemma decode_values_dtype ty vs v :
  decode_values ty vs = Some v -> dtype_of_type ty = Some (SG.dtype_of v).
Proof.
  unfold decode_values, dtype_of_type. destruct (kind_of_type ty) as [k|]; cbn [option_map]; [|discriminate].
  intros H. injection H as <-. rewrite decode_kind_dtype. reflexivity.
Qed.

Lemma kind_of_type_not_special ty k :
  kind_of_type ty = Some k ->
  (ty =? T_STRING) = false /\ (ty =? T_TIME) = false /\ (ty =? T_DAQMX) = false.
Proof.
  intros H. unfold kind_of_type in H.
  repeat match type of H with
         | context [?a =? ?b] =>
             destruct (Z.eqb_spec a b) as [->|?]; cbn [orb] in H;
             [clear H; repeat split; reflexivity|]
         end.
  discriminate.
Qed.

Lemma rawkind_of_decodable dt vs v :
  decode_values dt vs = Some v -> rawkind_of_type (Some dt) = RNum (SG.dtype_of v).
Proof.
  intros H. pose proof (decode_values_dtype dt vs v H) as Hd.
  unfold decode_values in H. destruct (kind_of_type dt) as [k|] eqn:Ek; [|discriminate].
  destruct (kind_of_type_not_special dt k Ek) as (E1 & E2 & E3).
  unfold rawkind_of_type. rewrite E1, E2, E3, Hd. reflexivity.
Qed.

Lemma rawkind_of_daqmx : rawkind_of_type (Some T_DAQMX) = RDaqmx.
Proof. reflexivity. Qed.

(* ================================================================================= *)
(* 2. channel.dtype on what the file says                                             *)

Definition chan_of_file (om : alist ometa) (c : channel) (raw_ts : bool) : SG.res chan :=
  match props_of_props (ch_props c), props_of_props (group_props_of om (ch_group c)),
        props_of_props (root_props_of om), file_scalers c with
  | Some cp, Some gp, Some fp, Some scs =>
      SG.bind (SG.get_scaling cp gp fp)
              (fun sc => SG.Ok {| ckind := rawkind_of_type (ch_dtype c); craw_ts := raw_ts;
                                  cscaling := sc; cscalers := scs |})
  | _, _, _, _ => SG.Err SG.EUnmodelled
  end.

(* TdmsChannel.dtype *)
Definition declared_with (om : alist ometa) (c : channel) (raw_ts : bool) : SG.res xdt :=
  SG.bind (chan_of_file om c raw_ts) (chan_dtype true).

(* TdmsFile.read(data, raw_timestamps=raw_ts)[group][channel].dtype *)
Definition declared_dtype_file (data path : bytes) (raw_ts : bool) : res (SG.res xdt) :=
  do st <- rd_metadata data false (Some (blen data)) false;
  do h <- build_hierarchy (rs_om st);
  do c <- find_channel h path;
  Ok (declared_with (rs_om st) c raw_ts).

(* TdmsFile.open(data, raw_timestamps=raw_ts)[group][channel].dtype *)
Definition declared_dtype_file_open (data path : bytes) (raw_ts : bool) : res (SG.res xdt) :=
  do st <- rd_metadata data false (Some (blen data)) true;
  do h <- build_hierarchy (rs_om st);
  do c <- find_channel h path;
  Ok (declared_with (rs_om st) c raw_ts).

(* channel._raw_data_dtype() *)
Definition raw_dtype_file (data path : bytes) (raw_ts : bool) : res xdt :=
  do st <- rd_metadata data false (Some (blen data)) false;
  do h <- build_hierarchy (rs_om st);
  do c <- find_channel h path;
  Ok (raw_data_dtype true (rawkind_of_type (ch_dtype c)) raw_ts).

(* len(channel) *)
Definition len_file (data path : bytes) : res Z :=
  do st <- rd_metadata data false (Some (blen data)) false;
  do h <- build_hierarchy (rs_om st);
  do c <- find_channel h path;
  Ok (ch_len c).

(* read_data(scaled=False): what the receiver holds, decoded (raw_data.data, or the
   scale id -> array dictionary of a DAQmx channel); None: no value model for the type *)
Definition unscaled_read_eager (data path : bytes) : res (option SG.rawdata) :=
  do st <- rd_metadata data false (Some (blen data)) false;
  do h <- build_hierarchy (rs_om st);
  do recv <- rd_eager st h data;
  do c <- find_channel h path;
  let d := match alookup (ch_path c) recv with Some d => d | None => None end in
  Ok (raw_of_cdata c d).

Definition unscaled_window_eager (data path : bytes) (o l : nat) : res (option SG.rawdata) :=
  do st <- rd_metadata data false (Some (blen data)) false;
  do h <- build_hierarchy (rs_om st);
  do recv <- rd_eager st h data;
  do c <- find_channel h path;
  let d := match alookup (ch_path c) recv with Some d => d | None => None end in
  Ok (option_map (SG.window_raw o l) (raw_of_cdata c d)).

Definition unscaled_read_lazy (data path : bytes) (offs : Z) (len : option Z) : res (option SG.rawdata) :=
  do st <- rd_metadata data false (Some (blen data)) true;
  do h <- build_hierarchy (rs_om st);
  do c <- find_channel h path;
  do vs <- lz_read_bytes data (ch_path c) offs len;
  Ok (raw_of_cdata c (cdata_of_values c vs)).

(* ---- agreement with observations of the implementation (harness/c14.py file tie) ---- *)

(* case: file bytes, canonical channel path, raw_timestamps, observed channel.dtype (None =
   raised), observed dtype of channel.read_data() on TdmsFile.read (None = raised).
   0 = agree, 1 = disagree, 2 = outside the model *)
Definition file_dtype_code (c : bytes * bytes * bool * option string * option string) : nat :=
  let '(data, path, ts, odecl, oact) := c in
  match declared_dtype_file data path ts with
  | Err _ => match odecl with None => 0%nat | Some _ => 1%nat end
  | Ok r =>
      match agree_dtype r odecl with
      | 1%nat => 1%nat
      | a =>
          (* and the array the file-level scaled read returns has that name *)
          match scaled_read_eager data path with
          | Ok (SG.Ok v) =>
              if ostring_eqb (Some (xdt_name (XNum (SG.dtype_of v)))) oact then a else 1%nat
          | _ => a
          end
      end
  end.

Definition file_dtype_ok c : bool := negb (Nat.eqb (file_dtype_code c) 1).
Definition file_dtype_covered c : bool := Nat.eqb (file_dtype_code c) 0.

(* ================================================================================= *)
(* 3. the dtype of what scale_with returns is the declared one                        *)

(* the raw_channel_data handed to scaling has the kind and the scaler dtypes the file's
   metadata declares *)
Definition raw_agrees (c : channel) (raw : SG.rawdata) : Prop :=
  kind_of_raw raw = rawkind_of_type (ch_dtype c) /\
  exists scs, file_scalers c = Some scs /\
              forall id d, SG.assoc_nat id (scaler_dtypes raw) = Some d -> SG.assoc_nat id scs = Some d.

(* [actual] only grows with the scaler dictionary *)
Lemma actual_src_scalers_incl fixed g k ts sc1 sc2 :
  (forall id d, SG.assoc_nat id sc1 = Some d -> SG.assoc_nat id sc2 = Some d) ->
  forall fuel s d, actual_src fixed fuel g k ts sc1 s = SG.Ok d ->
                   actual_src fixed fuel g k ts sc2 s = SG.Ok d.
Proof.
  intros Hi. induction fuel as [|fuel IH]; intros s d H.
  - destruct s; cbn [actual_src] in *; [exact H|discriminate].
  - destruct s as [|z]; cbn [actual_src] in *; [exact H|].
    destruct (SG.py_index g z) as [sc|]; [|discriminate].
    destruct sc as [a b s'|cs s'|xs ys s'|l r|l r|s'|id|sk s'].
    + destruct (actual_src fixed fuel g k ts sc1 s') as [x|] eqn:E; cbn [SG.bind] in H; [|discriminate].
      rewrite (IH _ _ E). exact H.
    + destruct (actual_src fixed fuel g k ts sc1 s') as [x|] eqn:E; cbn [SG.bind] in H; [|discriminate].
      rewrite (IH _ _ E). exact H.
    + destruct (actual_src fixed fuel g k ts sc1 s') as [x|] eqn:E; cbn [SG.bind] in H; [|discriminate].
      rewrite (IH _ _ E). exact H.
    + destruct (actual_src fixed fuel g k ts sc1 l) as [x|] eqn:El; cbn [SG.bind] in H; [|discriminate].
      destruct (actual_src fixed fuel g k ts sc1 r) as [y|] eqn:Er; cbn [SG.bind] in H; [|discriminate].
      rewrite (IH _ _ El), (IH _ _ Er). exact H.
    + destruct (actual_src fixed fuel g k ts sc1 l) as [x|] eqn:El; cbn [SG.bind] in H; [|discriminate].
      destruct (actual_src fixed fuel g k ts sc1 r) as [y|] eqn:Er; cbn [SG.bind] in H; [|discriminate].
      rewrite (IH _ _ El), (IH _ _ Er). exact H.
    + exact (IH _ _ H).
    + destruct (SG.assoc_nat id sc1) as [d0|] eqn:E; [|discriminate]. rewrite (Hi _ _ E). exact H.
    + destruct (actual_src fixed fuel g k ts sc1 s') as [x|] eqn:E; cbn [SG.bind] in H; [|discriminate].
      rewrite (IH _ _ E). exact H.
Qed.

Lemma scale_with_none om c : scale_with om c None = SG.Err SG.EUnmodelled.
Proof. reflexivity. Qed.

(* a DAQmx channel without any scaler has nothing to scale: every evaluation fails *)
Lemma eval_src_no_inputs g : forall fuel s v, SG.eval_src fuel g (scaler_raw []) s = SG.Ok v -> False.
Proof.
  induction fuel as [|fuel IH]; intros s v H.
  - destruct s; cbn in H; discriminate.
  - destruct s as [|z]; cbn [SG.eval_src scaler_raw SG.rdata SG.rscalers] in H; [discriminate|].
    destruct (SG.py_index g z) as [sc|]; [|discriminate].
    destruct sc as [a b s'|cs s'|xs ys s'|l r|l r|s'|id|sk s'].
    + destruct (SG.eval_src fuel g (scaler_raw []) s') as [x|] eqn:E; [exact (IH _ _ E)|discriminate].
    + destruct (SG.eval_src fuel g (scaler_raw []) s') as [x|] eqn:E; [exact (IH _ _ E)|discriminate].
    + destruct (SG.eval_src fuel g (scaler_raw []) s') as [x|] eqn:E; [exact (IH _ _ E)|discriminate].
    + destruct (SG.eval_src fuel g (scaler_raw []) l) as [x|] eqn:E; [exact (IH _ _ E)|discriminate].
    + destruct (SG.eval_src fuel g (scaler_raw []) l) as [x|] eqn:E; [exact (IH _ _ E)|discriminate].
    + exact (IH _ _ H).
    + discriminate.
    + destruct (SG.eval_src fuel g (scaler_raw []) s') as [x|] eqn:E; [exact (IH _ _ E)|discriminate].
Qed.

Lemma scale_with_no_inputs om c v : scale_with om c (Some (scaler_raw [])) = SG.Ok v -> False.
Proof.
  unfold scale_with.
  destruct (props_of_props (ch_props c)) as [cp|]; [|discriminate].
  destruct (props_of_props (group_props_of om (ch_group c))) as [gp|]; [|discriminate].
  destruct (props_of_props (root_props_of om)) as [fp|]; [|discriminate].
  unfold SG.channel_data. destruct (SG.get_scaling cp gp fp) as [[g|]|e]; cbn [SG.bind SG.scale_data]; [| |discriminate].
  - unfold SG.eval. apply eval_src_no_inputs.
  - cbn. discriminate.
Qed.

Theorem scale_with_dtype om c raw raw_ts v :
  raw_agrees c raw ->
  scale_with om c (Some raw) = SG.Ok v ->
  declared_with om c raw_ts = SG.Ok (XNum (SG.dtype_of v)).
Proof.
  intros [Hk (scs & Hscs & Hincl)] H.
  unfold scale_with in H. unfold declared_with, chan_of_file.
  destruct (props_of_props (ch_props c)) as [cp|]; [|discriminate].
  destruct (props_of_props (group_props_of om (ch_group c))) as [gp|]; [|discriminate].
  destruct (props_of_props (root_props_of om)) as [fp|]; [|discriminate].
  rewrite Hscs. unfold SG.channel_data in H.
  destruct (SG.get_scaling cp gp fp) as [[g|]|e]; cbn [SG.bind SG.scale_data] in *; [| |discriminate].
  - unfold chan_dtype. cbn [cscaling ckind craw_ts cscalers]. rewrite <- Hk.
    apply dtype_agrees_proof; [|discriminate].
    pose proof (eval_dtype_proof g raw raw_ts v H) as Ha. unfold actual in *.
    exact (actual_src_scalers_incl true g (kind_of_raw raw) raw_ts _ scs Hincl _ _ _ Ha).
  - destruct (SG.rscalers raw); [|discriminate].
    destruct (SG.rdata raw) as [w|] eqn:Er; [|discriminate]. injection H as <-.
    unfold chan_dtype. cbn [cscaling ckind craw_ts]. rewrite <- Hk. unfold kind_of_raw. rewrite Er. reflexivity.
Qed.

(* the unscaled data has the raw dtype *)
Lemma raw_agrees_rdata c raw raw_ts v :
  raw_agrees c raw -> SG.rdata raw = Some v ->
  raw_data_dtype true (rawkind_of_type (ch_dtype c)) raw_ts = XNum (SG.dtype_of v).
Proof.
  intros [Hk _] Hr. rewrite <- Hk. unfold kind_of_raw. rewrite Hr. reflexivity.
Qed.

Lemma raw_agrees_scaler c raw id v :
  raw_agrees c raw -> SG.assoc_nat id (SG.rscalers raw) = Some v ->
  exists scs, file_scalers c = Some scs /\ SG.assoc_nat id scs = Some (SG.dtype_of v).
Proof.
  intros [_ (scs & Hscs & Hincl)] Ha. exists scs. split; [exact Hscs|]. apply Hincl.
  unfold scaler_dtypes. rewrite ScaleProofs.assoc_nat_map, Ha. reflexivity.
Qed.

Lemma kind_of_raw_window o l raw : kind_of_raw (SG.window_raw o l raw) = kind_of_raw raw.
Proof.
  unfold kind_of_raw, SG.window_raw. cbn [SG.rdata]. destruct (SG.rdata raw) as [v|]; cbn [option_map]; [|reflexivity].
  rewrite ScaleProofs.dtype_of_window. reflexivity.
Qed.

Lemma scaler_dtypes_window o l raw : scaler_dtypes (SG.window_raw o l raw) = scaler_dtypes raw.
Proof.
  unfold scaler_dtypes, SG.window_raw. cbn [SG.rscalers]. rewrite map_map. apply map_ext.
  intros [id v]. cbn [fst snd]. rewrite ScaleProofs.dtype_of_window. reflexivity.
Qed.

Lemma raw_agrees_window c raw o l : raw_agrees c raw -> raw_agrees c (SG.window_raw o l raw).
Proof.
  intros [Hk Hs]. split; [rewrite kind_of_raw_window; exact Hk|].
  rewrite scaler_dtypes_window. exact Hs.
Qed.

(* ---- what the bridge builds from the file's values agrees with the file's metadata --- *)

Lemma raw_of_cdata_plain_agrees c vs raw :
  (exists scs, file_scalers c = Some scs) ->
  raw_of_cdata c (Some (CData vs)) = Some raw -> raw_agrees c raw.
Proof.
  intros (scs & Hscs) H. unfold raw_of_cdata in H.
  destruct (ch_dtype c) as [dt|] eqn:Edt; [|discriminate].
  destruct (decode_values dt vs) as [v|] eqn:Ev; [|discriminate].
  cbn [option_map] in H. injection H as <-. split.
  - unfold kind_of_raw, plain_raw. cbn [SG.rdata]. rewrite Edt. symmetry. exact (rawkind_of_decodable dt vs v Ev).
  - exists scs. split; [exact Hscs|]. intros id d Hd. discriminate.
Qed.

Lemma decode_scalers_dtypes sts (f : Z -> list bytes) :
  NoDup (map fst sts) ->
  forall sub l, incl sub sts ->
    decode_scalers sts (map (fun kv : Z * Z => (fst kv, f (fst kv))) sub) = Some l ->
    scaler_dtypes_file sub = Some (scaler_dtypes (scaler_raw l)).
Proof.
  intros Hnd. induction sub as [|[id ty] sub IH]; intros l Hincl Hd.
  - injection Hd as <-. reflexivity.
  - cbn [map fst snd decode_scalers] in Hd.
    rewrite (assocZ_in_nodup sts id ty Hnd (Hincl _ (or_introl eq_refl))) in Hd.
    destruct (decode_values ty (f id)) as [v0|] eqn:Ev0; [|discriminate].
    destruct (decode_scalers sts (map (fun kv : Z * Z => (fst kv, f (fst kv))) sub)) as [l'|] eqn:El; [|discriminate].
    injection Hd as <-. cbn [scaler_dtypes_file].
    rewrite (decode_values_dtype ty (f id) v0 Ev0).
    rewrite (IH l' (fun x Hx => Hincl x (or_intror Hx)) eq_refl). reflexivity.
Qed.

Lemma raw_of_cdata_daqmx_agrees c sts (f : Z -> list bytes) raw :
  ch_dtype c = Some T_DAQMX -> ch_scalers c = Some sts -> NoDup (map fst sts) ->
  raw_of_cdata c (Some (CScalers (map (fun kv : Z * Z => (fst kv, f (fst kv))) sts))) = Some raw ->
  raw_agrees c raw.
Proof.
  intros Hdt Hsts Hnd H. unfold raw_of_cdata in H. rewrite Hdt, Hsts in H.
  destruct (decode_scalers sts (map (fun kv : Z * Z => (fst kv, f (fst kv))) sts)) as [l|] eqn:El; [|discriminate].
  cbn [option_map] in H. injection H as <-. split.
  - rewrite Hdt. reflexivity.
  - exists (scaler_dtypes (scaler_raw l)). split; [|intros id d Hd; exact Hd].
    unfold file_scalers. rewrite Hsts.
    exact (decode_scalers_dtypes sts f Hnd sts l (fun x Hx => Hx) El).
Qed.

(* ================================================================================= *)
(* 4. a file without DAQmx segments has no scaler types                               *)

Lemma update_object_metadata_scalers_origin : forall objs n f prev om prev' om',
    update_object_metadata objs n f prev om = Ok (prev', om') ->
    forall p m, alookup p om' = Some m -> om_scalers m <> None ->
                (exists m0, alookup p om = Some m0 /\ om_scalers m0 <> None) \/
                (exists o, In o objs /\ so_daqmx o <> None).
Proof.
  induction objs as [|o objs IH]; intros n f prev om prev' om' H p m Hm Hs.
  - cbn [update_object_metadata] in H. injection H as _ <-. left. exists m. split; assumption.
  - cbn [update_object_metadata] in H.
    destruct (update_ometa (get_ometa (so_path o) om) o n f) as [m1|e] eqn:Em; cbn [bind] in H; [|discriminate].
    pose proof (update_ometa_scalers _ _ _ _ _ Em) as Hsc.
    destruct (IH _ _ _ _ _ _ H p m Hm Hs) as [(m0 & Hm0 & Hs0)|(o' & Ho' & Hq')].
    + rewrite alookup_aset in Hm0. destruct (bytes_eqb p (so_path o)) eqn:E.
      * injection Hm0 as <-. destruct (so_daqmx o) as [q|] eqn:Eq.
        -- right. exists o. split; [left; reflexivity|]. rewrite Eq. discriminate.
        -- left. rewrite Hsc in Hs0. unfold get_ometa in Hs0. apply bytes_eqb_eq in E. subst p.
           destruct (alookup (so_path o) om) as [m2|].
           ++ exists m2. split; [reflexivity|exact Hs0].
           ++ cbn [ometa0 om_scalers] in Hs0. contradiction.
      * left. exists m0. split; assumption.
    + right. exists o'. split; [right; exact Ho'|exact Hq'].
Qed.

Lemma update_object_properties_scalers_origin props : forall om p m,
    alookup p (update_object_properties props om) = Some m -> om_scalers m <> None ->
    exists m0, alookup p om = Some m0 /\ om_scalers m0 <> None.
Proof.
  unfold update_object_properties.
  induction props as [|[k ps] props IH]; intros om p m Hm Hs.
  - exists m. split; assumption.
  - cbn [fold_left fst snd] in Hm. destruct (IH _ p m Hm Hs) as (m0 & Hm0 & Hs0).
    rewrite alookup_aset in Hm0. destruct (bytes_eqb p k) eqn:E.
    + apply bytes_eqb_eq in E. subst k. injection Hm0 as <-.
      cbn [set_props om_scalers] in Hs0. unfold get_ometa in Hs0.
      destruct (alookup p om) as [m1|].
      * exists m1. split; [reflexivity|exact Hs0].
      * cbn [ometa0 om_scalers] in Hs0. contradiction.
    + exists m0. split; assumption.
Qed.

Definition om_scalers_have_origin (st : rstate) : Prop :=
  forall p m, alookup p (rs_om st) = Some m -> om_scalers m <> None ->
              exists g o, In g (rs_segments st) /\ In o (sg_objs g) /\ so_daqmx o <> None.

Lemma sm_loop_om_scalers_origin : forall segs w pos ps pi st stf,
    sm_loop segs w pos ps pi st = Ok stf -> om_scalers_have_origin st -> om_scalers_have_origin stf.
Proof.
  induction segs as [|s r IH]; intros w pos ps pi st stf H Hinv.
  - rewrite sm_loop_nil in H. injection H as <-. exact Hinv.
  - apply sm_loop_cons_inv in H.
    destruct H as (objs & props & idx & cache & nch & fin & po & om & Hro & Hcc & Hum & Hloop).
    apply (IH _ _ _ _ _ _ Hloop). intros p m Hm Hs. cbn [rs_om rs_segments] in *.
    destruct (update_object_properties_scalers_origin props om p m Hm Hs) as (m1 & Hm1 & Hs1).
    destruct (update_object_metadata_scalers_origin _ _ _ _ _ _ _ Hum p m1 Hm1 Hs1)
      as [(m0 & Hm0 & Hs0)|(o & Ho & Hq)].
    + destruct (Hinv p m0 Hm0 Hs0) as (g & o & Hg & Ho & Hq).
      exists g, o. split; [apply in_or_app; left; exact Hg|]. split; assumption.
    + eexists. exists o. split; [apply in_or_app; right; left; reflexivity|].
      cbn [sg_objs]. split; assumption.
Qed.

Theorem sm_run_om_scalers_origin segs w st : sm_run segs w = Ok st -> om_scalers_have_origin st.
Proof.
  unfold sm_run. intros H. apply (sm_loop_om_scalers_origin _ _ _ _ _ _ _ H). intros p m Hm. discriminate.
Qed.

(* under read_correct's hypotheses no channel has scaler_data_types *)
Theorem plain_file_no_scalers segs w st h chunkss :
  sm_run segs w = Ok st ->
  build_hierarchy (rs_om st) = Ok h ->
  segs_encode (rs_segments st) segs chunkss ->
  om_paths_canonical (rs_om st) ->
  forall c, In c (all_channels h) -> ch_scalers c = None.
Proof.
  intros Hrun Hh Henc Hcanon c Hc.
  destruct (chan_from_om_canonical2 _ c Hcanon (build_hierarchy_channels _ _ Hh c Hc))
    as (m & Hin & _ & _ & Hs).
  destruct (sm_run_trace segs w st Hrun) as (_ & _ & Hnd & _).
  pose proof (alookup_in_nodup _ m (rs_om st) Hnd Hin) as Hlk.
  rewrite Hs. destruct (om_scalers m) as [sts|] eqn:Es; [|reflexivity]. exfalso.
  destruct (sm_run_om_scalers_origin segs w st Hrun _ m Hlk) as (g & o & Hg & Ho & Hq);
    [rewrite Es; discriminate|].
  destruct (sm_run_dq segs w st Hrun g o Hg Ho) as [_ H2].
  exact (segs_encode_no_daqmx _ _ _ Henc (H2 Hq)).
Qed.

(* ---- the scaler types the metadata pass records are consistent with the data type ------ *)

(* a DAQmx index either declares DaqMxRawData or carries exactly one scaler, of the declared
   type (tdms_segment / daqmx.py; SegState.new_object) - and that is all the metadata pass
   ever stores: every scaler type of an object whose type is not DaqMxRawData IS its type *)
Definition obj_ty (o : sobj) : Prop :=
  forall q, so_daqmx o = Some q ->
            so_dtype o = Some T_DAQMX \/
            exists dt, so_dtype o = Some dt /\ forall id ty, In (id, ty) (scaler_types q) -> ty = dt.

Definition om_ty (m : ometa) : Prop :=
  forall sts, om_scalers m = Some sts ->
              om_dtype m = Some T_DAQMX \/
              exists dt, om_dtype m = Some dt /\ forall id ty, In (id, ty) sts -> ty = dt.

Lemma new_object_obj_ty p i o : new_object p i = Ok o -> obj_ty o.
Proof.
  unfold new_object, obj_ty. intros H q Hq.
  destruct i as [| |lf dt dim n total|kind dt dim n scalers widths].
  - injection H as <-. cbn in Hq. discriminate.
  - injection H as <-. cbn in Hq. discriminate.
  - destruct (tds_size dt) as [sz|]; [|discriminate].
    destruct (_ && _); [discriminate|]. destruct (negb (dim =? 1)); [discriminate|].
    injection H as <-. cbn in Hq. discriminate.
  - destruct (tds_size dt) as [sz|]; [|discriminate].
    destruct (negb (dim =? 1)); [discriminate|].
    destruct (negb (forallb _ scalers)); [discriminate|].
    destruct (negb (dt =? T_DAQMX) && _) eqn:E; [discriminate|].
    injection H as <-. cbn [so_daqmx so_dtype] in *. injection Hq as <-.
    destruct (dt =? T_DAQMX) eqn:Ed; [left; f_equal; lia|]. right. exists dt. split; [reflexivity|].
    cbn [negb andb] in E. apply negb_false_iff in E.
    destruct scalers as [|s [|s2 r]]; try discriminate.
    destruct (daqmx_type (sc_type s)) as [t|] eqn:Et; [|discriminate]. apply Z.eqb_eq in E. subst t.
    unfold scaler_types. cbn [dq_scalers fold_left zassoc_set]. rewrite Et.
    intros id ty [Hin|[]]. injection Hin as _ <-. reflexivity.
Qed.

Lemma obj_ty_set_has_data o b : obj_ty o -> obj_ty (set_has_data o b).
Proof. intros H q Hq. exact (H q Hq). Qed.

Lemma update_ometa_om_ty m o n f m' : update_ometa m o n f = Ok m' -> om_ty m -> obj_ty o -> om_ty m'.
Proof.
  intros H Hm Ho sts Hs.
  destruct (update_ometa_dtype _ _ _ _ _ H) as [Hd1 Hd2].
  pose proof (update_ometa_scalers _ _ _ _ _ H) as Hsc.
  destruct (so_daqmx o) as [q|] eqn:Eq.
  - destruct Hsc as [Hsc _]. rewrite Hsc in Hs. injection Hs as <-. rewrite Hd1. exact (Ho q Eq).
  - rewrite Hsc in Hs. destruct (Hm sts Hs) as [Hx|(dt & Hx & Hall)].
    + left. rewrite Hd2; [exact Hx|rewrite Hx; discriminate].
    + right. exists dt. split; [rewrite Hd2; [exact Hx|rewrite Hx; discriminate]|exact Hall].
Qed.

Lemma om_ty_ometa0 : om_ty ometa0.
Proof. intros sts H. discriminate. Qed.

Lemma update_object_metadata_om_ty : forall objs n f prev om prev' om',
    update_object_metadata objs n f prev om = Ok (prev', om') ->
    Forall obj_ty objs ->
    (forall p m, alookup p om = Some m -> om_ty m) ->
    forall p m, alookup p om' = Some m -> om_ty m.
Proof.
  induction objs as [|o objs IH]; intros n f prev om prev' om' H HF Hom; cbn [update_object_metadata] in H.
  - injection H as _ <-. exact Hom.
  - destruct (update_ometa (get_ometa (so_path o) om) o n f) as [m1|e] eqn:Em; cbn [bind] in H; [|discriminate].
    apply Forall_cons_iff in HF. destruct HF as [Ho HF].
    apply (IH _ _ _ _ _ _ H HF). intros p m Ha. rewrite alookup_aset in Ha.
    destruct (bytes_eqb p (so_path o)); [|exact (Hom p m Ha)].
    injection Ha as <-. apply (update_ometa_om_ty _ _ _ _ _ Em); [|exact Ho].
    unfold get_ometa. destruct (alookup (so_path o) om) as [m0|] eqn:E0; [exact (Hom _ _ E0)|exact om_ty_ometa0].
Qed.

Lemma update_object_properties_om_ty props : forall om,
    (forall p m, alookup p om = Some m -> om_ty m) ->
    forall p m, alookup p (update_object_properties props om) = Some m -> om_ty m.
Proof.
  unfold update_object_properties.
  induction props as [|[k ps] props IH]; intros om Hom; [exact Hom|].
  cbn [fold_left fst snd]. apply IH. intros p m Ha. rewrite alookup_aset in Ha.
  destruct (bytes_eqb p k); [|exact (Hom p m Ha)].
  injection Ha as <-. intros sts Hs. cbn [set_props om_scalers om_dtype] in *.
  unfold get_ometa in *. destruct (alookup k om) as [m0|] eqn:E0; [exact (Hom _ _ E0 sts Hs)|exact (om_ty_ometa0 sts Hs)].
Qed.

Lemma sm_loop_om_ty : forall segs w pos ps pi st stf,
    sm_loop segs w pos ps pi st = Ok stf ->
    (forall p po, alookup p (rs_prev_objs st) = Some po -> obj_ty po) ->
    (forall l, ps = Some l -> Forall obj_ty l) ->
    (forall p m, alookup p (rs_om st) = Some m -> om_ty m) ->
    forall p m, alookup p (rs_om stf) = Some m -> om_ty m.
Proof.
  induction segs as [|s r IH]; intros w pos ps pi st stf H Hprev Hps Hom.
  - rewrite sm_loop_nil in H. injection H as <-. exact Hom.
  - apply sm_loop_cons_inv in H.
    destruct H as (objs & props & idx & cache & nch & fin & po & om & Hro & Hcc & Hum & Hloop).
    assert (Hobjs : Forall obj_ty objs).
    { apply (read_segment_objects_inv obj_ty obj_ty _ _ _ _ _ _) with (6 := Hro).
      - intros o Ho. exact Ho.
      - intros o b Ho. exact (obj_ty_set_has_data o b Ho).
      - intros p i o. apply new_object_obj_ty.
      - exact Hps.
      - exact Hprev. }
    apply (IH _ _ _ _ _ _ Hloop); cbn [rs_prev_objs rs_om].
    + exact (update_object_metadata_values obj_ty _ _ _ _ _ _ _ Hum Hprev Hobjs).
    + intros l Hl. injection Hl as <-. exact Hobjs.
    + apply update_object_properties_om_ty.
      exact (update_object_metadata_om_ty _ _ _ _ _ _ _ Hum Hobjs Hom).
Qed.

Theorem sm_run_om_ty segs w st : sm_run segs w = Ok st -> forall p m, alookup p (rs_om st) = Some m -> om_ty m.
Proof.
  unfold sm_run. intros H. apply (sm_loop_om_ty _ _ _ _ _ _ _ H).
  - intros p po Hp. discriminate.
  - intros l Hl. discriminate.
  - intros p m Hm. discriminate.
Qed.

Lemma scaler_dtypes_file_same dt d :
  dtype_of_type dt = Some d ->
  forall sts, (forall id ty, In (id, ty) sts -> ty = dt) -> exists scs, scaler_dtypes_file sts = Some scs.
Proof.
  intros Hd. induction sts as [|[id ty] sts IH]; intros Hall; [exists []; reflexivity|].
  destruct IH as [scs Hscs]; [intros id' ty' Hin; apply (Hall id' ty'); right; exact Hin|].
  rewrite (Hall id ty (or_introl eq_refl)). cbn [scaler_dtypes_file]. rewrite Hd, Hscs. eauto.
Qed.

(* DERIVED: a channel whose type has a NumPy dtype has scaler dtypes - none, or its own *)
Theorem channel_scalers_typed segs w st h c dt d :
  sm_run segs w = Ok st ->
  build_hierarchy (rs_om st) = Ok h ->
  om_paths_canonical (rs_om st) ->
  In c (all_channels h) ->
  ch_dtype c = Some dt -> dtype_of_type dt = Some d ->
  exists scs, file_scalers c = Some scs.
Proof.
  intros Hrun Hh Hcanon Hc Hdt Hd.
  destruct (chan_from_om_canonical2 _ c Hcanon (build_hierarchy_channels _ _ Hh c Hc))
    as (m & Hin & Hmd & _ & Hs).
  destruct (sm_run_trace segs w st Hrun) as (_ & _ & Hnd & _).
  pose proof (alookup_in_nodup _ m (rs_om st) Hnd Hin) as Hlk.
  unfold file_scalers. rewrite Hs. destruct (om_scalers m) as [sts|] eqn:Es; [|exists []; reflexivity].
  destruct (sm_run_om_ty segs w st Hrun _ m Hlk sts Es) as [Hx|(dt' & Hx & Hall)].
  - rewrite <- Hmd, Hdt in Hx. injection Hx as ->. vm_compute in Hd. discriminate.
  - rewrite <- Hmd, Hdt in Hx. injection Hx as <-. exact (scaler_dtypes_file_same dt d Hd sts Hall).
Qed.

(* ================================================================================= *)
(* 5. composition with the whole-file reads                                           *)

Lemma rmap_ok_inv {A B} (f : A -> B) (r : SG.res A) w :
  SG.rmap f r = SG.Ok w -> exists v, r = SG.Ok v /\ w = f v.
Proof. destruct r as [v|e]; cbn [SG.rmap]; [|discriminate]. intros H. injection H as <-. eauto. Qed.

Lemma dtype_of_zwindow offs len v : SG.dtype_of (zwindow offs len v) = SG.dtype_of v.
Proof. unfold zwindow. apply ScaleProofs.dtype_of_window. Qed.

Lemma vlen_zwindow offs len v :
  SG.vlen (zwindow offs len v) =
  Nat.min (match len with Some l => Z.to_nat l | None => SG.vlen v end) (SG.vlen v - Z.to_nat offs).
Proof. unfold zwindow. apply ScaleProofs.vlen_window. Qed.

Section Meta.
  Variables (segs : list fseg) (st : rstate) (h : hierarchy).
  Hypothesis Hwf : wf_file segs.
  Hypothesis Hrun : sm_run segs false = Ok st.
  Hypothesis Hh : build_hierarchy (rs_om st) = Ok h.
  Hypothesis Hcanon : om_paths_canonical (rs_om st).

  (* channel.dtype of a serialised file: a function of the metadata pass's result *)
  Theorem declared_dtype_file_ser c raw_ts :
    In c (all_channels h) ->
    declared_dtype_file (ser_file segs) (ch_path c) raw_ts = Ok (declared_with (rs_om st) c raw_ts).
  Proof.
    intros Hc. unfold declared_dtype_file.
    rewrite (rd_metadata_ser segs false Hwf), Hrun. cbn [bind]. rewrite Hh. cbn [bind].
    rewrite (find_channel_in h c (channel_paths_distinct_ser _ h Hh Hcanon) Hc). reflexivity.
  Qed.

  (* ... the same whether the file was read or opened *)
  Theorem declared_dtype_file_open_eq c raw_ts :
    In c (all_channels h) ->
    declared_dtype_file_open (ser_file segs) (ch_path c) raw_ts =
    declared_dtype_file (ser_file segs) (ch_path c) raw_ts.
  Proof.
    intros Hc. rewrite (declared_dtype_file_ser c raw_ts Hc). unfold declared_dtype_file_open.
    destruct (rd_metadata_with_index segs st Hwf Hrun) as (st' & Hm & _ & Hom).
    rewrite Hm. cbn [bind]. rewrite Hom, Hh. cbn [bind].
    rewrite (find_channel_in h c (channel_paths_distinct_ser _ h Hh Hcanon) Hc). reflexivity.
  Qed.

  Theorem raw_dtype_file_ser c raw_ts :
    In c (all_channels h) ->
    raw_dtype_file (ser_file segs) (ch_path c) raw_ts =
    Ok (raw_data_dtype true (rawkind_of_type (ch_dtype c)) raw_ts).
  Proof.
    intros Hc. unfold raw_dtype_file.
    rewrite (rd_metadata_ser segs false Hwf), Hrun. cbn [bind]. rewrite Hh. cbn [bind].
    rewrite (find_channel_in h c (channel_paths_distinct_ser _ h Hh Hcanon) Hc). reflexivity.
  Qed.

  Theorem len_file_ser c :
    In c (all_channels h) -> len_file (ser_file segs) (ch_path c) = Ok (ch_len c).
  Proof.
    intros Hc. unfold len_file.
    rewrite (rd_metadata_ser segs false Hwf), Hrun. cbn [bind]. rewrite Hh. cbn [bind].
    rewrite (find_channel_in h c (channel_paths_distinct_ser _ h Hh Hcanon) Hc). reflexivity.
  Qed.

  (* dtype level only (no value model needed): every read operation of ScaleDtype's
     read_dtype - data, read_data with any window, every branch of _read_slice, chunks with
     and without data - carries the dtype channel.dtype reports for the file *)
  Theorem dtype_level_reads_file c raw_ts ch op d :
    In c (all_channels h) ->
    chan_of_file (rs_om st) c raw_ts = SG.Ok ch ->
    read_dtype true ch op = SG.Ok d -> d <> XTimedelta64 ->
    declared_dtype_file (ser_file segs) (ch_path c) raw_ts = Ok (SG.Ok d).
  Proof.
    intros Hc Hch Hr Hd. rewrite (declared_dtype_file_ser c raw_ts Hc). f_equal.
    unfold declared_with. rewrite Hch. cbn [SG.bind].
    exact (reads_have_channel_dtype_proof ch op d Hr Hd).
  Qed.

  (* no scaling in scope: the channel's kind and dictionaries *)
  Lemma chan_of_file_unscaled c raw_ts cp gp fp scs :
    props_of_props (ch_props c) = Some cp ->
    props_of_props (group_props_of (rs_om st) (ch_group c)) = Some gp ->
    props_of_props (root_props_of (rs_om st)) = Some fp ->
    file_scalers c = Some scs ->
    SG.get_scaling cp gp fp = SG.Ok None ->
    chan_of_file (rs_om st) c raw_ts =
    SG.Ok {| ckind := rawkind_of_type (ch_dtype c); craw_ts := raw_ts; cscaling := None; cscalers := scs |}.
  Proof.
    intros Hcp Hgp Hfp Hscs Hsc. unfold chan_of_file. rewrite Hcp, Hgp, Hfp, Hscs, Hsc. reflexivity.
  Qed.

  (* strings: object; timestamps: datetime64[us], or the TimestampArray struct when raw
     timestamps were requested; no data type at all: V8 - when no scaling is in scope.
     DTYPE LEVEL: ScaleGraph has no value model for these types, so the statement is about
     ScaleDtype.read_dtype (every read operation), not about decoded arrays. *)
  Theorem nonnumeric_dtype_file c raw_ts cp gp fp scs op :
    In c (all_channels h) ->
    props_of_props (ch_props c) = Some cp ->
    props_of_props (group_props_of (rs_om st) (ch_group c)) = Some gp ->
    props_of_props (root_props_of (rs_om st)) = Some fp ->
    file_scalers c = Some scs ->
    SG.get_scaling cp gp fp = SG.Ok None ->
    let ch := {| ckind := rawkind_of_type (ch_dtype c); craw_ts := raw_ts; cscaling := None; cscalers := scs |} in
    (ch_dtype c = Some T_STRING ->
       declared_dtype_file (ser_file segs) (ch_path c) raw_ts = Ok (SG.Ok XObject) /\
       read_dtype true ch op = SG.Ok XObject) /\
    (ch_dtype c = Some T_TIME ->
       declared_dtype_file (ser_file segs) (ch_path c) raw_ts =
         Ok (SG.Ok (if raw_ts then XTimestampStruct else XDatetime64)) /\
       read_dtype true ch op = SG.Ok (if raw_ts then XTimestampStruct else XDatetime64)) /\
    (ch_dtype c = None ->
       declared_dtype_file (ser_file segs) (ch_path c) raw_ts = Ok (SG.Ok XVoid8) /\
       (op <> OpChunk true -> read_dtype true ch op = SG.Ok XVoid8)).
  Proof.
    intros Hc Hcp Hgp Hfp Hscs Hsc ch.
    rewrite (declared_dtype_file_ser c raw_ts Hc). unfold declared_with.
    rewrite (chan_of_file_unscaled c raw_ts cp gp fp scs Hcp Hgp Hfp Hscs Hsc). cbn [SG.bind]. fold ch.
    split; [|split]; intros Hdt; subst ch; rewrite Hdt.
    - destruct op as [| | | |[]]; split; reflexivity.
    - destruct raw_ts, op as [| | | |[]]; split; reflexivity.
    - split; [reflexivity|]. intros Hop. destruct op as [| | | |[]]; try reflexivity. congruence.
  Qed.
End Meta.

(* ---- eager reads: plain AND DAQmx channels (read_correct_daqmx's hypotheses) ---------- *)

Section Content.
  Variables (segs : list fseg) (st : rstate) (h : hierarchy) (chunkss : list (list chunk)).
  Hypothesis Hwf : wf_file segs.
  Hypothesis Hrun : sm_run segs false = Ok st.
  Hypothesis Hh : build_hierarchy (rs_om st) = Ok h.
  Hypothesis Hcon : segs_content (rs_segments st) segs chunkss.
  Hypothesis Hcanon : om_paths_canonical (rs_om st).
  Hypothesis Hshape : typed_objects_are_channels (rs_om st).

  Lemma file_raw_agrees c raw :
    In c (all_channels h) ->
    raw_of_cdata c (expected_data_dq (concat chunkss) c) = Some raw -> raw_agrees c raw.
  Proof.
    intros Hc Hraw. unfold expected_data_dq in Hraw.
    destruct (ch_dtype c) as [dt|] eqn:Edt; [|discriminate].
    destruct (dt =? T_DAQMX) eqn:Edq.
    - apply Z.eqb_eq in Edq. subst dt.
      destruct (daqmx_channel_scalers segs st h Hrun Hh Hcanon c Hc Edt) as (sts & Hsts & Hnd).
      rewrite Hsts in Hraw.
      exact (raw_of_cdata_daqmx_agrees c sts (fun id => chan_scaler_values (ch_path c) id (concat chunkss))
               raw Edt Hsts Hnd Hraw).
    - apply (raw_of_cdata_plain_agrees c (chan_values (ch_path c) (concat chunkss)) raw); [|exact Hraw].
      unfold raw_of_cdata in Hraw. rewrite Edt in Hraw.
      destruct (decode_values dt (chan_values (ch_path c) (concat chunkss))) as [v0|] eqn:Ev; [|discriminate].
      exact (channel_scalers_typed segs false st h c dt _ Hrun Hh Hcanon Hc Edt (decode_values_dtype _ _ _ Ev)).
  Qed.

  Theorem eager_dtype_content c raw_ts v :
    In c (all_channels h) ->
    scaled_read_eager (ser_file segs) (ch_path c) = Ok (SG.Ok v) ->
    declared_dtype_file (ser_file segs) (ch_path c) raw_ts = Ok (SG.Ok (XNum (SG.dtype_of v))).
  Proof.
    intros Hc H.
    rewrite (scaled_read_eager_content segs st h chunkss Hwf Hrun Hh Hcon Hcanon Hshape c Hc) in H.
    injection H as H.
    rewrite (declared_dtype_file_ser segs st h Hwf Hrun Hh Hcanon c raw_ts Hc). f_equal.
    destruct (raw_of_cdata c (expected_data_dq (concat chunkss) c)) as [raw|] eqn:Eraw;
      [|rewrite scale_with_none in H; discriminate].
    exact (scale_with_dtype (rs_om st) c raw raw_ts v (file_raw_agrees c raw Hc Eraw) H).
  Qed.

  Theorem eager_window_dtype_content c raw_ts o l v :
    In c (all_channels h) ->
    scaled_window_eager (ser_file segs) (ch_path c) o l = Ok (SG.Ok v) ->
    declared_dtype_file (ser_file segs) (ch_path c) raw_ts = Ok (SG.Ok (XNum (SG.dtype_of v))).
  Proof.
    intros Hc H.
    destruct (scaled_window_eager_is_window segs st h chunkss Hwf Hrun Hh Hcon Hcanon Hshape c o l Hc)
      as (r & He & Hw).
    rewrite Hw in H. injection H as H. destruct (rmap_ok_inv _ _ _ H) as (v0 & -> & ->).
    rewrite ScaleProofs.dtype_of_window. exact (eager_dtype_content c raw_ts v0 Hc He).
  Qed.

  (* the full scaled read has len(channel) elements; a window [o, o+l) has
     min(l, len(channel) - o) of them: none when o is past the end or l = 0 *)
  Theorem eager_length_content c v :
    In c (all_channels h) ->
    scaled_read_eager (ser_file segs) (ch_path c) = Ok (SG.Ok v) ->
    Z.of_nat (SG.vlen v) = ch_len c.
  Proof.
    intros Hc H.
    rewrite (scaled_read_eager_content segs st h chunkss Hwf Hrun Hh Hcon Hcanon Hshape c Hc) in H.
    injection H as H.
    destruct (raw_of_cdata c (expected_data_dq (concat chunkss) c)) as [raw|] eqn:Eraw;
      [|rewrite scale_with_none in H; discriminate].
    pose proof (file_raw_uniform segs st h chunkss Hrun Hh Hcon Hcanon c raw Hc Eraw) as Hu.
    assert (Hn : SG.vlen v = Z.to_nat (ch_len c)).
    { unfold scale_with in H.
      destruct (props_of_props (ch_props c)) as [cp|]; [|discriminate].
      destruct (props_of_props (group_props_of (rs_om st) (ch_group c))) as [gp|]; [|discriminate].
      destruct (props_of_props (root_props_of (rs_om st))) as [fp|]; [|discriminate].
      exact (PropsExt.channel_data_vlen cp gp fp raw _ v Hu H). }
    pose proof (lengths_consistent_content segs false st h chunkss Hrun Hh Hcon Hcanon c Hc) as Hlen.
    assert (Hpos : 0 <= ch_len c).
    { unfold raw_of_cdata in Eraw.
      destruct (expected_data_dq (concat chunkss) c) as [[vs|sc]|]; [| |discriminate];
        cbn [cdata_consistent] in Hlen.
      - lia.
      - destruct (ch_dtype c); [|discriminate]. destruct (ch_scalers c) as [sts|]; [|discriminate].
        destruct sc as [|kv sc].
        + cbn [decode_scalers option_map] in Eraw. injection Eraw as <-. exfalso.
          exact (scale_with_no_inputs _ _ _ H).
        + cbn [forallb] in Hlen. lia. }
    lia.
  Qed.

  Theorem eager_window_length_content c o l v :
    In c (all_channels h) ->
    scaled_window_eager (ser_file segs) (ch_path c) o l = Ok (SG.Ok v) ->
    SG.vlen v = Nat.min l (Z.to_nat (ch_len c) - o).
  Proof.
    intros Hc H.
    destruct (scaled_window_eager_is_window segs st h chunkss Hwf Hrun Hh Hcon Hcanon Hshape c o l Hc)
      as (r & He & Hw).
    rewrite Hw in H. injection H as H. destruct (rmap_ok_inv _ _ _ H) as (v0 & -> & ->).
    rewrite ScaleProofs.vlen_window. pose proof (eager_length_content c v0 Hc He). lia.
  Qed.

  (* a successful full read makes every window succeed, with the same dtype: empty
     results are not a separate code path with a dtype of its own *)
  Theorem eager_windows_of_full c v o l :
    In c (all_channels h) ->
    scaled_read_eager (ser_file segs) (ch_path c) = Ok (SG.Ok v) ->
    scaled_window_eager (ser_file segs) (ch_path c) o l = Ok (SG.Ok (SG.window o l v)).
  Proof.
    intros Hc He.
    destruct (scaled_window_eager_is_window segs st h chunkss Hwf Hrun Hh Hcon Hcanon Hshape c o l Hc)
      as (r & He' & Hw).
    rewrite He in He'. injection He' as <-. exact Hw.
  Qed.

  (* read_data(scaled=False) *)
  Theorem unscaled_read_eager_content c :
    In c (all_channels h) ->
    unscaled_read_eager (ser_file segs) (ch_path c) = Ok (raw_of_cdata c (expected_data_dq (concat chunkss) c)).
  Proof.
    intros Hc. unfold unscaled_read_eager.
    rewrite (rd_metadata_ser segs false Hwf), Hrun. cbn [bind]. rewrite Hh. cbn [bind].
    destruct (rd_eager_content segs st h chunkss Hwf Hrun Hh Hcon Hcanon Hshape) as (recv & He & Hlk).
    rewrite He. cbn [bind].
    rewrite (find_channel_in h c (channel_paths_distinct_ser _ h Hh Hcanon) Hc). cbn [bind].
    rewrite (Hlk c Hc). reflexivity.
  Qed.

  Theorem unscaled_window_eager_content c o l :
    In c (all_channels h) ->
    unscaled_window_eager (ser_file segs) (ch_path c) o l =
    Ok (option_map (SG.window_raw o l) (raw_of_cdata c (expected_data_dq (concat chunkss) c))).
  Proof.
    intros Hc. unfold unscaled_window_eager.
    rewrite (rd_metadata_ser segs false Hwf), Hrun. cbn [bind]. rewrite Hh. cbn [bind].
    destruct (rd_eager_content segs st h chunkss Hwf Hrun Hh Hcon Hcanon Hshape) as (recv & He & Hlk).
    rewrite He. cbn [bind].
    rewrite (find_channel_in h c (channel_paths_distinct_ser _ h Hh Hcanon) Hc). cbn [bind].
    rewrite (Hlk c Hc). reflexivity.
  Qed.

  Theorem unscaled_eager_agrees c raw :
    In c (all_channels h) ->
    (unscaled_read_eager (ser_file segs) (ch_path c) = Ok (Some raw) \/
     exists o l, unscaled_window_eager (ser_file segs) (ch_path c) o l = Ok (Some raw)) ->
    raw_agrees c raw.
  Proof.
    intros Hc [H|(o & l & H)].
    - rewrite (unscaled_read_eager_content c Hc) in H. injection H as H.
      exact (file_raw_agrees c raw Hc H).
    - rewrite (unscaled_window_eager_content c o l Hc) in H. injection H as H.
      destruct (raw_of_cdata c (expected_data_dq (concat chunkss) c)) as [raw0|] eqn:E; [|discriminate].
      cbn [option_map] in H. injection H as <-.
      apply raw_agrees_window. exact (file_raw_agrees c raw0 Hc E).
  Qed.
End Content.

(* ---- read_correct's hypotheses + distinct paths per object list: eager AND lazy ------- *)

Section Plain.
  Variables (segs : list fseg) (st : rstate) (h : hierarchy) (chunkss : list (list chunk)).
  Hypothesis Hwf : wf_file segs.
  Hypothesis Hrun : sm_run segs false = Ok st.
  Hypothesis Hh : build_hierarchy (rs_om st) = Ok h.
  Hypothesis Henc : segs_encode (rs_segments st) segs chunkss.
  Hypothesis Hcanon : om_paths_canonical (rs_om st).
  Hypothesis Hshape : typed_objects_are_channels (rs_om st).
  Hypothesis Hdist : seg_paths_distinct st.

  Local Notation eager c := (chan_values (ch_path c) (concat chunkss)).
  Local Notation Hcon := (segs_encode_content _ _ _ Henc).

  Lemma plain_file_scalers c : In c (all_channels h) -> file_scalers c = Some [].
  Proof.
    intros Hc. unfold file_scalers.
    rewrite (plain_file_no_scalers segs false st h chunkss Hrun Hh Henc Hcanon c Hc). reflexivity.
  Qed.

  (* THE PROPERTY (dtype): every successful scaled read - full, any eager window, any lazy
     window; empty or not - returns an array of the dtype channel.dtype reports *)
  Theorem reads_dtype_plain c raw_ts :
    In c (all_channels h) ->
    (forall v, scaled_read_eager (ser_file segs) (ch_path c) = Ok (SG.Ok v) ->
               declared_dtype_file (ser_file segs) (ch_path c) raw_ts = Ok (SG.Ok (XNum (SG.dtype_of v)))) /\
    (forall o l v, scaled_window_eager (ser_file segs) (ch_path c) o l = Ok (SG.Ok v) ->
               declared_dtype_file (ser_file segs) (ch_path c) raw_ts = Ok (SG.Ok (XNum (SG.dtype_of v)))) /\
    (forall offs len v, 0 <= offs -> len_nonneg len ->
               scaled_read_lazy (ser_file segs) (ch_path c) offs len = Ok (SG.Ok v) ->
               declared_dtype_file (ser_file segs) (ch_path c) raw_ts = Ok (SG.Ok (XNum (SG.dtype_of v)))).
  Proof.
    intros Hc. split; [|split].
    - intros v H.
      exact (eager_dtype_content segs st h chunkss Hwf Hrun Hh Hcon Hcanon Hshape c raw_ts v Hc H).
    - intros o l v H.
      exact (eager_window_dtype_content segs st h chunkss Hwf Hrun Hh Hcon Hcanon Hshape c raw_ts o l v Hc H).
    - intros offs len v Ho Hl H.
      destruct (scaled_lazy_is_window_of_scaled_eager segs st h chunkss Hwf Hrun Hh Henc Hcanon Hshape Hdist
                  c offs len Hc Ho Hl) as (r & He & Hlz).
      rewrite Hlz in H. injection H as H. destruct (rmap_ok_inv _ _ _ H) as (v0 & -> & ->).
      rewrite dtype_of_zwindow.
      exact (eager_dtype_content segs st h chunkss Hwf Hrun Hh Hcon Hcanon Hshape c raw_ts v0 Hc He).
  Qed.

  (* THE PROPERTY (length): the full scaled read, eager and lazy, has len(channel) elements *)
  Theorem full_read_length_plain c :
    In c (all_channels h) ->
    (forall v, scaled_read_eager (ser_file segs) (ch_path c) = Ok (SG.Ok v) -> Z.of_nat (SG.vlen v) = ch_len c) /\
    (forall v, scaled_read_lazy (ser_file segs) (ch_path c) 0 None = Ok (SG.Ok v) -> Z.of_nat (SG.vlen v) = ch_len c).
  Proof.
    intros Hc. split; intros v H.
    - exact (eager_length_content segs st h chunkss Hwf Hrun Hh Hcon Hcanon Hshape c v Hc H).
    - rewrite (scaled_lazy_full_eq_eager segs st h chunkss Hwf Hrun Hh Henc Hcanon Hshape Hdist c Hc) in H.
      exact (eager_length_content segs st h chunkss Hwf Hrun Hh Hcon Hcanon Hshape c v Hc H).
  Qed.

  (* a lazy window [offs, offs+len) has min(len, len(channel) - offs) elements *)
  Theorem lazy_window_length_plain c offs len v :
    In c (all_channels h) -> 0 <= offs -> len_nonneg len ->
    scaled_read_lazy (ser_file segs) (ch_path c) offs len = Ok (SG.Ok v) ->
    SG.vlen v = Nat.min (match len with Some l => Z.to_nat l | None => Z.to_nat (ch_len c) end)
                        (Z.to_nat (ch_len c) - Z.to_nat offs).
  Proof.
    intros Hc Ho Hl H.
    destruct (scaled_lazy_is_window_of_scaled_eager segs st h chunkss Hwf Hrun Hh Henc Hcanon Hshape Hdist
                c offs len Hc Ho Hl) as (r & He & Hlz).
    rewrite Hlz in H. injection H as H. destruct (rmap_ok_inv _ _ _ H) as (v0 & -> & ->).
    rewrite vlen_zwindow.
    pose proof (eager_length_content segs st h chunkss Hwf Hrun Hh Hcon Hcanon Hshape c v0 Hc He) as Hn.
    replace (Z.to_nat (ch_len c)) with (SG.vlen v0) by lia. reflexivity.
  Qed.

  (* a successful full read makes every lazy window succeed *)
  Theorem lazy_windows_of_full c v offs len :
    In c (all_channels h) -> 0 <= offs -> len_nonneg len ->
    scaled_read_eager (ser_file segs) (ch_path c) = Ok (SG.Ok v) ->
    scaled_read_lazy (ser_file segs) (ch_path c) offs len = Ok (SG.Ok (zwindow offs len v)).
  Proof.
    intros Hc Ho Hl He.
    destruct (scaled_lazy_is_window_of_scaled_eager segs st h chunkss Hwf Hrun Hh Henc Hcanon Hshape Hdist
                c offs len Hc Ho Hl) as (r & He' & Hlz).
    rewrite He in He'. injection He' as <-. exact Hlz.
  Qed.

  (* EMPTY results: when the channel reads at all, every empty window (length 0, or offset
     at / past the end) is returned - no error - with no elements and the dtype of the full
     read, eagerly and lazily *)
  Theorem empty_same_dtype_plain c v :
    In c (all_channels h) ->
    scaled_read_eager (ser_file segs) (ch_path c) = Ok (SG.Ok v) ->
    (forall o l, l = 0%nat \/ (Z.to_nat (ch_len c) <= o)%nat ->
       exists w, scaled_window_eager (ser_file segs) (ch_path c) o l = Ok (SG.Ok w) /\
                 SG.vlen w = 0%nat /\ SG.dtype_of w = SG.dtype_of v) /\
    (forall offs len, 0 <= offs -> len_nonneg len -> len = Some 0 \/ ch_len c <= offs ->
       exists w, scaled_read_lazy (ser_file segs) (ch_path c) offs len = Ok (SG.Ok w) /\
                 SG.vlen w = 0%nat /\ SG.dtype_of w = SG.dtype_of v).
  Proof.
    intros Hc He.
    pose proof (eager_length_content segs st h chunkss Hwf Hrun Hh Hcon Hcanon Hshape c v Hc He) as Hn.
    split.
    - intros o l Hol. exists (SG.window o l v).
      split; [exact (eager_windows_of_full segs st h chunkss Hwf Hrun Hh Hcon Hcanon Hshape c v o l Hc He)|].
      split; [|apply ScaleProofs.dtype_of_window].
      rewrite ScaleProofs.vlen_window. lia.
    - intros offs len Ho Hl Hol. exists (zwindow offs len v).
      split; [exact (lazy_windows_of_full c v offs len Hc Ho Hl He)|].
      split; [|apply dtype_of_zwindow].
      rewrite vlen_zwindow. destruct Hol as [->|Hge]; [reflexivity|]. lia.
  Qed.

  (* any two successful reads of one channel have the same dtype *)
  Theorem reads_same_dtype_plain c v w :
    In c (all_channels h) ->
    scaled_read_eager (ser_file segs) (ch_path c) = Ok (SG.Ok v) ->
    ((exists o l, scaled_window_eager (ser_file segs) (ch_path c) o l = Ok (SG.Ok w)) \/
     (exists offs len, 0 <= offs /\ len_nonneg len /\
                       scaled_read_lazy (ser_file segs) (ch_path c) offs len = Ok (SG.Ok w))) ->
    SG.dtype_of w = SG.dtype_of v.
  Proof.
    intros Hc He Hw. destruct (reads_dtype_plain c false Hc) as (H1 & H2 & H3).
    pose proof (H1 v He) as Dv.
    assert (Dw : declared_dtype_file (ser_file segs) (ch_path c) false = Ok (SG.Ok (XNum (SG.dtype_of w)))).
    { destruct Hw as [(o & l & Hw)|(offs & len & Ho & Hl & Hw)]; [exact (H2 o l w Hw)|exact (H3 offs len w Ho Hl Hw)]. }
    rewrite Dv in Dw. injection Dw as Dw. symmetry. exact Dw.
  Qed.

  (* read_data(scaled=False), lazily *)
  Theorem unscaled_read_lazy_plain c offs len :
    In c (all_channels h) -> 0 <= offs -> len_nonneg len ->
    unscaled_read_lazy (ser_file segs) (ch_path c) offs len =
    Ok (raw_of_cdata c (cdata_of_values c (window_of offs len (eager c)))).
  Proof.
    intros Hc Ho Hl. unfold unscaled_read_lazy.
    destruct (rd_metadata_with_index segs st Hwf Hrun) as (st' & Hm & _ & Hom).
    rewrite Hm. cbn [bind]. rewrite Hom, Hh. cbn [bind].
    rewrite (find_channel_in h c (channel_paths_distinct_ser _ h Hh Hcanon) Hc). cbn [bind].
    rewrite (lazy_is_window_of_eager segs st h chunkss Hwf Hrun Hh Henc Hcanon Hdist c offs len Hc Ho Hl).
    reflexivity.
  Qed.

  (* the unscaled reads return the decoded raw values, whose dtype is _raw_data_dtype() *)
  Theorem unscaled_dtype_plain c raw_ts raw :
    In c (all_channels h) ->
    (unscaled_read_eager (ser_file segs) (ch_path c) = Ok (Some raw) \/
     (exists o l, unscaled_window_eager (ser_file segs) (ch_path c) o l = Ok (Some raw)) \/
     (exists offs len, 0 <= offs /\ len_nonneg len /\
                       unscaled_read_lazy (ser_file segs) (ch_path c) offs len = Ok (Some raw))) ->
    exists v, SG.rdata raw = Some v /\ SG.rscalers raw = [] /\
              raw_dtype_file (ser_file segs) (ch_path c) raw_ts = Ok (XNum (SG.dtype_of v)).
  Proof.
    intros Hc H. pose proof (plain_file_scalers c Hc) as Hty.
    assert (Hag : raw_agrees c raw /\ exists v, raw = plain_raw v).
    { assert (Hpl : forall vs r, raw_of_cdata c (cdata_of_values c vs) = Some r ->
                                 raw_agrees c r /\ exists v, r = plain_raw v).
      { intros vs r Hr. unfold cdata_of_values in Hr.
        destruct (ch_dtype c) as [dt|] eqn:Edt; [|discriminate]. split.
        - exact (raw_of_cdata_plain_agrees c vs r (ex_intro _ [] Hty) Hr).
        - unfold raw_of_cdata in Hr. rewrite Edt in Hr.
          destruct (decode_values dt vs) as [v|]; [|discriminate]. injection Hr as <-. eauto. }
      pose proof (expected_data_dq_plain (concat chunkss) c
                    (no_daqmx_channels_ser segs false st h chunkss Hrun Hh Henc c Hc)) as Hexp.
      destruct H as [H|[(o & l & H)|(offs & len & Ho & Hl & H)]].
      - rewrite (unscaled_read_eager_content segs st h chunkss Hwf Hrun Hh Hcon Hcanon Hshape c Hc), Hexp in H.
        injection H as H. exact (Hpl _ _ H).
      - rewrite (unscaled_window_eager_content segs st h chunkss Hwf Hrun Hh Hcon Hcanon Hshape c o l Hc), Hexp in H.
        injection H as H.
        destruct (raw_of_cdata c (expected_data (concat chunkss) c)) as [r0|] eqn:E; [|discriminate].
        cbn [option_map] in H. injection H as <-.
        destruct (Hpl _ _ E) as [Ha (v0 & ->)]. split; [exact (raw_agrees_window c _ o l Ha)|].
        exists (SG.window o l v0). reflexivity.
      - rewrite (unscaled_read_lazy_plain c offs len Hc Ho Hl) in H. injection H as H. exact (Hpl _ _ H). }
    destruct Hag as [Ha (v & ->)]. exists v. split; [reflexivity|]. split; [reflexivity|].
    rewrite (raw_dtype_file_ser segs st h Hwf Hrun Hh Hcanon c raw_ts Hc). f_equal.
    exact (raw_agrees_rdata c (plain_raw v) raw_ts v Ha eq_refl).
  Qed.
End Plain.

(* ================================================================================= *)
(* 6. concrete files                                                                  *)

(* sx_file / dqs_file of Proofs/ScaleFile.v, by evaluation on the file's bytes:
     a   int16 under Linear then Polynomial (own properties)         -> float64
     b   int16, no own scaling, the GROUP's Linear                    -> float64
     c   int16, NI_Scaling_Status = 'scaled', nothing else in scope   -> int16 (raw dtype)
     dq  DAQmx scalers int16 + uint8 under Add then Linear            -> float64
   each with len(channel) *)
Example sx_declared :
  declared_dtype_file (ser_file sx_file) sx_path_a false = Ok (SG.Ok (XNum NP.Float64)) /\
  declared_dtype_file (ser_file sx_file) sx_path_b false = Ok (SG.Ok (XNum NP.Float64)) /\
  declared_dtype_file (ser_file sx_file) sx_path_c false = Ok (SG.Ok (XNum NP.Int16)) /\
  raw_dtype_file (ser_file sx_file) sx_path_a false = Ok (XNum NP.Int16) /\
  len_file (ser_file sx_file) sx_path_a = Ok 9 /\
  declared_dtype_file_open (ser_file sx_file) sx_path_b false = Ok (SG.Ok (XNum NP.Float64)).
Proof. repeat split; vm_compute; reflexivity. Qed.

Example dqs_declared :
  declared_dtype_file (ser_file dqs_file) dqs_path false = Ok (SG.Ok (XNum NP.Float64)) /\
  file_scalers dqs_chan = Some [(0%nat, NP.Int16); (1%nat, NP.UInt8)] /\
  len_file (ser_file dqs_file) dqs_path = Ok 6.
Proof. repeat split; vm_compute; reflexivity. Qed.

(* empty windows, evaluated: offset at the end, length 0, offset far past the end (lazy),
   length 0 (lazy), offset at the end without length (lazy) - all succeed, no elements,
   float64 for the scaled channel a and int16 for the unscaled channel c *)
Example sx_empty_windows :
  scaled_window_eager (ser_file sx_file) sx_path_a 9 3 = Ok (SG.Ok (SG.VD [])) /\
  scaled_window_eager (ser_file sx_file) sx_path_a 2 0 = Ok (SG.Ok (SG.VD [])) /\
  scaled_read_lazy (ser_file sx_file) sx_path_a 20 (Some 3) = Ok (SG.Ok (SG.VD [])) /\
  scaled_read_lazy (ser_file sx_file) sx_path_c 2 (Some 0) = Ok (SG.Ok (SG.VI SG.I16 [])) /\
  scaled_read_lazy (ser_file sx_file) sx_path_c 9 None = Ok (SG.Ok (SG.VI SG.I16 [])).
Proof. repeat split; vm_compute; reflexivity. Qed.

(* read_data(scaled=False): the int16 values, eagerly and as a lazy window *)
Example sx_unscaled :
  unscaled_read_eager (ser_file sx_file) sx_path_b =
    Ok (Some (plain_raw (SG.VI SG.I16 [10; 20; 30; 40; 50; 60; 70; 80; 90]))) /\
  unscaled_read_lazy (ser_file sx_file) sx_path_b 2 (Some 5) =
    Ok (Some (plain_raw (SG.VI SG.I16 [30; 40; 50; 60; 70]))) /\
  unscaled_window_eager (ser_file sx_file) sx_path_b 9 1 = Ok (Some (plain_raw (SG.VI SG.I16 []))).
Proof. repeat split; vm_compute; reflexivity. Qed.

(* nn_file: channels WITHOUT a value model in ScaleGraph (dev/c14_file_replay.py rebuilds
   these bytes and prints what npTDMS reports):
     /'g'/'s'   string, ["ab"; "c"]                                   -> object
     /'g'/'t'   timestamp, one value          -> datetime64[us] / the TimestampArray struct
     /'g'/'u'   no data type at all (never indexed)                   -> V8, len 0
     /'g'/'z'   complex64 under Linear(0.5, 10.0) (after D8)          -> complex128 *)
Definition nn_file : list fseg :=
  [mkFseg 14 4713
     (Some [mkEntry (hex "2f276727") INoData [];
            mkEntry (hex "2f2767272f277327") (IFull 28 32 1 2 (Some 11)) [];
            mkEntry (hex "2f2767272f277427") (IFull 20 68 1 1 None) [];
            mkEntry (hex "2f2767272f277527") INoData [];
            mkEntry (hex "2f2767272f277a27") (IFull 20 524300 1 1 None)
              [mkProp (hex "4e495f4e756d6265725f4f665f5363616c6573") 7 (hex "01000000");
               mkProp (hex "4e495f5363616c655b305d5f5363616c655f54797065") 32 (hex "4c696e656172");
               mkProp (hex "4e495f5363616c655b305d5f4c696e6561725f536c6f7065") 10 (hex "000000000000e03f");
               mkProp (hex "4e495f5363616c655b305d5f4c696e6561725f595f496e74657263657074") 10
                      (hex "0000000000002440")]])
     (hex "0200000003000000616263000000000000000000e1f505000000000000803f00000040")].

Definition nn_path_s : bytes := hex "2f2767272f277327".
Definition nn_path_t : bytes := hex "2f2767272f277427".
Definition nn_path_u : bytes := hex "2f2767272f277527".
Definition nn_path_z : bytes := hex "2f2767272f277a27".

Definition nn_st : rstate := match sm_run nn_file false with Ok st => st | Err _ => rstate0 end.
Definition nn_h : hierarchy :=
  match build_hierarchy (rs_om nn_st) with Ok h => h | Err _ => mkHier [] [] end.
Definition nn_chan (p : bytes) : channel :=
  match find_channel nn_h p with Ok c => c | Err _ => mkChan [] [] [] None None 0 [] end.

Example nn_hyps :
  wf_file nn_file /\ sm_run nn_file false = Ok nn_st /\ build_hierarchy (rs_om nn_st) = Ok nn_h /\
  om_paths_canonical (rs_om nn_st) /\
  In (nn_chan nn_path_s) (all_channels nn_h) /\ ch_path (nn_chan nn_path_s) = nn_path_s /\
  ch_dtype (nn_chan nn_path_s) = Some T_STRING /\
  In (nn_chan nn_path_t) (all_channels nn_h) /\ ch_path (nn_chan nn_path_t) = nn_path_t /\
  ch_dtype (nn_chan nn_path_t) = Some T_TIME /\
  In (nn_chan nn_path_u) (all_channels nn_h) /\ ch_path (nn_chan nn_path_u) = nn_path_u /\
  ch_dtype (nn_chan nn_path_u) = None.
Proof.
  split; [unfold wf_file; vm_compute; reflexivity|].
  split; [vm_compute; reflexivity|]. split; [vm_compute; reflexivity|].
  split; [apply om_paths_canonical_b_sound; vm_compute; reflexivity|].
  assert (E : all_channels nn_h = [nn_chan nn_path_s; nn_chan nn_path_t; nn_chan nn_path_u; nn_chan nn_path_z])
    by (vm_compute; reflexivity).
  rewrite E. cbn [In]. repeat split; auto; vm_compute; reflexivity.
Qed.

Example nn_declared :
  declared_dtype_file (ser_file nn_file) nn_path_s false = Ok (SG.Ok XObject) /\
  declared_dtype_file (ser_file nn_file) nn_path_t false = Ok (SG.Ok XDatetime64) /\
  declared_dtype_file (ser_file nn_file) nn_path_t true = Ok (SG.Ok XTimestampStruct) /\
  declared_dtype_file (ser_file nn_file) nn_path_u false = Ok (SG.Ok XVoid8) /\
  len_file (ser_file nn_file) nn_path_u = Ok 0 /\
  declared_dtype_file (ser_file nn_file) nn_path_z false = Ok (SG.Ok (XNum NP.Complex128)) /\
  raw_dtype_file (ser_file nn_file) nn_path_z false = Ok (XNum NP.Complex64) /\
  (* no value model: the file-level scaled reads say so *)
  scaled_read_eager (ser_file nn_file) nn_path_s = Ok (SG.Err SG.EUnmodelled) /\
  scaled_read_eager (ser_file nn_file) nn_path_z = Ok (SG.Err SG.EUnmodelled).
Proof. repeat split; vm_compute; reflexivity. Qed.
