(* What a successful strict parse means, clause by clause (the wording of
   property C08), derived from the boolean checks of Model/StrictParse.v. *)

From Coq Require Import List ZArith Bool Lia ZifyBool.
From Coq Require Import Init.Byte.
Import ListNotations.
From NpTdms Require Import Base.Bytes Base.Res Model.Tokens Model.TokensWf Model.ByteStr
  Model.StrictParse Proofs.TokensRoundtrip Proofs.ByteStrProofs Proofs.StrictParseProofs.
Local Open Scope Z_scope.

Definition seg_paths (s : segsyn) : list bytes := map e_path (sg_entries s).

(* lead-in: tag, version, and the two offsets equal the byte lengths written *)
Definition leadin_consistent (s : segsyn) : Prop :=
  let l := sg_leadin s in
  let e := toc_endian (l_toc l) in
  l_tag l = TAG_DATA /\ (l_version l = 4712 \/ l_version l = 4713) /\
  l_raw l = blen (ser_metadata e (sg_entries s)) /\
  l_next l = blen (ser_metadata e (sg_entries s)) + blen (ser_raw e (sg_entries s) (sg_values s)).

(* one raw data index against the values that were parsed for it *)
Definition index_consistent (i : idx) (vals : list bytes) : Prop :=
  match i with
  | INoData => vals = []
  | IFull lf dt dim n total =>
    dim = 1 /\ n = Z.of_nat (length vals) /\
    (dt = T_STRING -> lf = 28 /\ total = Some (string_total vals)) /\
    (dt <> T_STRING -> lf = 20 /\ total = None /\
       exists k, sized_type dt = Some k /\ Forall (fun v => blen v = k) vals)
  | _ => False
  end.

Definition indexes_consistent (s : segsyn) : Prop :=
  Forall2 (fun x v => index_consistent (e_idx x) v) (sg_entries s) (sg_values s).

(* raw data length = what the declared types and counts imply *)
Definition raw_len_equals_declared (s : segsyn) : Prop :=
  let e := toc_endian (l_toc (sg_leadin s)) in
  blen (ser_raw e (sg_entries s) (sg_values s)) = raw_size (sg_entries s).

Definition first_segment_declares_root (segs : list segsyn) : Prop :=
  match segs with
  | [] => True
  | s :: _ => In ROOT_PATH (seg_paths s)
  end.

(* wherever a channel entry occurs, its group's path occurs in an earlier
   segment or earlier in the same segment *)
Definition groups_declared_before_channels (segs : list segsyn) : Prop :=
  forall pre s post a x b g c,
    segs = pre ++ s :: post -> sg_entries s = a ++ x :: b -> e_path x = chan_path g c ->
    In (group_path g) (flat_map seg_paths pre ++ map e_path a).

Definition no_duplicate_paths (s : segsyn) : Prop := has_dup (seg_paths s) = false.

(* ---- unpacking seg_ok --------------------------------------------------------------------- *)

Lemma seg_ok_parts first D s :
  seg_ok first D s = true ->
  let l := sg_leadin s in
  let e := toc_endian (l_toc l) in
  bytes_eqb (l_tag l) TAG_DATA = true /\ version_ok (l_version l) = true /\
  toc_ok (l_toc l) = true /\
  l_raw l = blen (ser_metadata e (sg_entries s)) /\
  l_next l = l_raw l + raw_size (sg_entries s) /\
  idxs_ok (sg_entries s) (sg_values s) = true /\
  has_dup (map e_path (sg_entries s)) = false /\
  order_ok D (sg_entries s) = true /\
  (first = true -> bmem ROOT_PATH (map e_path (sg_entries s)) = true).
Proof.
  unfold seg_ok. cbv zeta. intros H.
  apply andb_prop in H. destruct H as [H H9].
  apply andb_prop in H. destruct H as [H H8].
  apply andb_prop in H. destruct H as [H H7].
  apply andb_prop in H. destruct H as [H H6].
  apply andb_prop in H. destruct H as [H _].
  apply andb_prop in H. destruct H as [H H5].
  apply andb_prop in H. destruct H as [H H4].
  apply andb_prop in H. destruct H as [H H3].
  apply andb_prop in H. destruct H as [H1 H2].
  apply negb_true_iff in H7.
  repeat split; try assumption; try lia.
Qed.

Lemma idx_ok_consistent i vals : idx_ok i vals = true -> index_consistent i vals.
Proof.
  destruct i as [| |lf dt dim n total|]; cbn [idx_ok index_consistent]; try discriminate.
  - destruct vals; [reflexivity|discriminate].
  - intros H. apply andb_prop in H. destruct H as [H Hty].
    apply andb_prop in H. destruct H as [Hdim Hn].
    split; [lia|]. split; [lia|].
    destruct (dt =? T_STRING) eqn:Es.
    + split; [|intros Hne; exfalso; lia]. intros _.
      apply andb_prop in Hty. destruct Hty as [Hlf Ht].
      destruct total as [t|]; [|discriminate]. split; [lia|]. f_equal. lia.
    + split; [intros He; exfalso; lia|]. intros _.
      apply andb_prop in Hty. destruct Hty as [Hty Hsz].
      apply andb_prop in Hty. destruct Hty as [Hlf Ht].
      destruct total; [discriminate|]. split; [lia|]. split; [reflexivity|].
      destruct (sized_type dt) as [k|]; [|discriminate]. exists k. split; [reflexivity|].
      apply Forall_forall. intros v Hv. rewrite forallb_forall in Hsz. specialize (Hsz v Hv). lia.
Qed.

Lemma idxs_ok_consistent es : forall vs,
  idxs_ok es vs = true -> Forall2 (fun x v => index_consistent (e_idx x) v) es vs.
Proof.
  induction es as [|x r IH]; intros vs H; destruct vs as [|v vr]; cbn [idxs_ok] in H;
    try discriminate; constructor.
  - apply andb_prop in H. destruct H as [H _]. apply idx_ok_consistent. exact H.
  - apply andb_prop in H. destruct H as [_ H]. apply IH. exact H.
Qed.

Lemma seg_ok_leadin first D s :
  seg_wf s = true -> seg_ok first D s = true ->
  leadin_consistent s /\ indexes_consistent s /\ raw_len_equals_declared s /\ no_duplicate_paths s.
Proof.
  intros Hwf Hok. pose proof (seg_ok_parts first D s Hok) as P. cbv zeta in P.
  destruct P as [P1 [P2 [_ [P4 [P5 [P6 [P7 _]]]]]]].
  assert (He : toc_endian (l_toc (sg_leadin s)) = LE).
  { unfold seg_wf in Hwf. apply andb_prop in Hwf. destruct Hwf as [_ H].
    apply negb_true_iff in H. apply toc_endian_le. exact H. }
  pose proof (raw_size_ser _ _ P6) as Hrs.
  unfold leadin_consistent, indexes_consistent, raw_len_equals_declared, no_duplicate_paths.
  cbv zeta. rewrite He in *. repeat split.
  - apply bytes_eqb_eq. exact P1.
  - unfold version_ok in P2. lia.
  - exact P4.
  - lia.
  - apply idxs_ok_consistent. exact P6.
  - symmetry. exact Hrs.
  - exact P7.
Qed.

(* ---- hierarchy clauses ----------------------------------------------------------------------- *)

Definition declared_after' (D : list bytes) (segs : list segsyn) : list bytes :=
  fold_left (fun D s => rev (map e_path (sg_entries s)) ++ D) segs D.

Lemma in_declared_after p : forall pre D,
  In p (declared_after' D pre) <-> In p D \/ In p (flat_map seg_paths pre).
Proof.
  induction pre as [|s r IH]; intros D; cbn [declared_after' fold_left flat_map].
  - cbn [In]. intuition.
  - fold (declared_after' (rev (map e_path (sg_entries s)) ++ D) r). rewrite IH.
    rewrite !in_app_iff, <- in_rev. unfold seg_paths. intuition.
Qed.

Lemma segs_ok_split : forall pre first D s post,
  segs_ok first D (pre ++ s :: post) = true ->
  exists first', seg_ok first' (declared_after' D pre) s = true.
Proof.
  induction pre as [|p r IH]; intros first D s post H; cbn [app segs_ok] in H.
  - apply andb_prop in H. destruct H as [H _]. exists first. exact H.
  - apply andb_prop in H. destruct H as [_ H]. apply IH in H. exact H.
Qed.

Lemma order_ok_chan D a x b g c :
  order_ok D (a ++ x :: b) = true -> e_path x = chan_path g c ->
  In (group_path g) (map e_path a ++ D).
Proof.
  revert D. induction a as [|y a IH]; intros D H Hp; cbn [app order_ok] in H.
  - rewrite Hp, classify_chan in H. apply andb_prop in H. destruct H as [H _].
    apply bmem_In in H. exact H.
  - apply andb_prop in H. destruct H as [_ H]. specialize (IH _ H Hp).
    cbn [map app]. apply in_app_or in IH. destruct IH as [IH|[IH|IH]].
    + right. apply in_or_app. left. exact IH.
    + left. exact IH.
    + right. apply in_or_app. right. exact IH.
Qed.

Lemma segs_ok_groups segs :
  segs_ok true [] segs = true -> groups_declared_before_channels segs.
Proof.
  intros H pre s post a x b g c -> Hes Hp.
  destruct (segs_ok_split pre true [] s post H) as [first' Hs].
  pose proof (seg_ok_parts _ _ _ Hs) as P. cbv zeta in P.
  destruct P as [_ [_ [_ [_ [_ [_ [_ [Hord _]]]]]]]].
  rewrite Hes in Hord. pose proof (order_ok_chan _ _ _ _ _ _ Hord Hp) as Hin.
  apply in_app_or in Hin. apply in_or_app. destruct Hin as [Hin|Hin]; [right; exact Hin|].
  apply in_declared_after in Hin. destruct Hin as [[]|Hin]. left. exact Hin.
Qed.

Lemma segs_ok_root segs :
  segs_ok true [] segs = true -> first_segment_declares_root segs.
Proof.
  destruct segs as [|s r]; intros H; [exact I|].
  cbn [segs_ok] in H. apply andb_prop in H. destruct H as [H _].
  pose proof (seg_ok_parts _ _ _ H) as P. cbv zeta in P.
  destruct P as [_ [_ [_ [_ [_ [_ [_ [_ Hroot]]]]]]]].
  cbn [first_segment_declares_root]. apply bmem_In. apply Hroot. reflexivity.
Qed.

Lemma segs_ok_forall : forall segs first D,
  forallb seg_wf segs = true -> segs_ok first D segs = true ->
  Forall (fun s => leadin_consistent s /\ indexes_consistent s /\ raw_len_equals_declared s /\
                   no_duplicate_paths s) segs.
Proof.
  induction segs as [|s r IH]; intros first D Hwf Hok; constructor.
  - cbn [forallb] in Hwf. apply andb_prop in Hwf. destruct Hwf as [Hs _].
    cbn [segs_ok] in Hok. apply andb_prop in Hok. destruct Hok as [Ho _].
    apply (seg_ok_leadin first D s Hs Ho).
  - cbn [forallb] in Hwf. apply andb_prop in Hwf. destruct Hwf as [_ Hr].
    cbn [segs_ok] in Hok. apply andb_prop in Hok. destruct Hok as [_ Ho].
    apply (IH false _ Hr Ho).
Qed.
