(* C09 composed with the whole-file read theorems (C01, C03, C06) and with the
   WRITER's index file (C07, C08).

   Three groups of results; statements are collected in Props/C09_read.v.

   (A) Serialised files (Model/FileSyn.v).  [ser_index segs] is the index file
       matching [ser_file segs].  FileSynProofs.index_transparent_ser says the
       metadata pass over it (data file's size known) is the pass over the data
       file; here this is pushed through everything that is built on the
       metadata pass:
         rd_all_idx_ser            eager read through the index = eager read
         index_read_correct        ... = read_correct's observation
         index_read_refines_spec   ... = the specification's tokens
         index_only_meta_ser       the index ALONE (no file size): same reader state
         index_only_metadata       ... same metadata observation, lengths = number
                                   of values in the data file
         index_only_refuses_data   data reads on a lone index raise (model of the
                                   guard in tdms.py, defined HERE: [lz_read_index_only])
         channel_view_idx_ser      TdmsFile.open with an index beside the file
                                   ([channel_view_idx], defined HERE): the per-channel
                                   view, every window, every fetch plan agree
   (B) The bridge to Proofs/IndexProofs.v (files as lead-in / metadata bytes /
       raw bytes, where the LAST segment may be shorter than declared):
         data file cut inside the last segment's raw data + COMPLETE index:
         index_transparent_truncated (metadata, eager, lazy) and its composition
         with C06's truncation_values_prefix.
   (C) The writer (Model/Writer.v): for wr_file sessions = Ok (data, index),
         writer_index_is_ser_index  index = ser_index (fsegs_of sl) for the same
                                    syntax sl with data = ser_file (fsegs_of sl)
         writer_index_transparent   rd_all_idx data index = rd_all data
                                    = Ok (content_tokens_of_calls sessions, true). *)
From Coq Require Import List ZArith Bool Lia ZifyBool.
From Coq Require Import Init.Byte.
Import ListNotations.
From NpTdms Require Import Base.Bytes Base.Res Base.PySlice Model.Tokens Model.TokensWf Model.SegState
     Model.Layout Model.Reader Model.FileSyn Model.LazyRead Model.LazyBytes Model.Spec
     Proofs.TokensRoundtrip Proofs.LayoutProofs Proofs.FileSynProofs Proofs.ReadCorrect
     Proofs.LazyEagerIndex Proofs.LazyEagerView Proofs.LazyEagerTop
     Proofs.SpecRefine Proofs.TruncValuesLayout Proofs.TruncValuesFile.
From NpTdms Require Proofs.IndexProofs.
Local Open Scope Z_scope.

Module IP := NpTdms.Proofs.IndexProofs.

(* ================================================================================ *)
(* Models of the two entry points Model/LazyBytes.v and Model/Reader.v do not have   *)
(* ================================================================================ *)

(* TdmsFile.open(path) with path + "_index" beside it.  reader.py:
     read_metadata:   file = self._index_file (reading_index_file = True), with
                      require_segment_indexes = True; _read_lead_in clamps against
                      self._data_file_size = size of the DATA file
     read_raw_data_for_channel: self._verify_segment_start(segment) and
                      segment.read_raw_data_for_channel(self._file, ...) : the DATA file
   So: reader state from the index bytes, everything else as LazyBytes.channel_view. *)
Definition channel_view_idx (data index : bytes) (path : bytes) : res (list (segv bytes) * option Z) :=
  do st <- rd_metadata index true (Some (blen data)) true;
  do svs <- mapM (segv_of data path) (rs_segments st);
  Ok (svs, match alookup path (rs_om st) with Some m => om_dtype m | None => None end).

Definition lz_read_bytes_idx (data index path : bytes) (offs : Z) (len : option Z) : res (list bytes) :=
  do '(svs, dt) <- channel_view_idx data index path;
  match dt with
  | None => Ok []
  | Some _ => lz_read bytes zero_value (recv_of dt) svs offs len
  end.

Definition lz_plan_bytes_idx (data index path : bytes) (offs : Z) (len : option Z) : res (list (Z * Z)) :=
  do '(svs, _) <- channel_view_idx data index path;
  lz_plan bytes svs offs len.

(* TdmsFile.open(index file alone) then channel.read_data(offs, len).  tdms.py:
     def _read_channel_data(self, offset=0, length=None):
         if offset < 0: raise ValueError(...)
         if length is not None and length < 0: raise ValueError(...)
         if self.data_type is None: return None           # nothing to read
         if self._reader.is_index_file_only():
             raise RuntimeError("Data cannot be read from index file only")
   (the metadata pass has no file size: self._data_file_size is None) *)
Definition lz_read_index_only (index path : bytes) (offs : Z) (len : option Z) : res (list bytes) :=
  do st <- rd_metadata index true None true;
  if offs <? 0 then Err EValue
  else if match len with Some l => l <? 0 | None => false end then Err EValue
  else match alookup path (rs_om st) with
       | Some m => match om_dtype m with
                   | None => Ok []
                   | Some _ => Err ERuntime
                   end
       | None => Ok []
       end.

(* the metadata-only observation (Model/Reader.v rd_meta_obs) of a state and a hierarchy *)
Definition meta_tokens (st : rstate) (h : hierarchy) : list tok :=
  TZ (match rs_version st with Some v => v | None => 0 end) ::
  obs_hierarchy h (fun _ => []) ++ obs_status st.

(* ================================================================================ *)
(* Everything downstream of the metadata pass                                         *)
(* ================================================================================ *)

Lemma rd_all_idx_of_meta data index :
  rd_metadata index true (Some (blen data)) false = rd_metadata data false (Some (blen data)) false ->
  rd_all_idx data index = rd_all data.
Proof. intros H. unfold rd_all_idx, rd_all, rd_all_from. rewrite H. reflexivity. Qed.

Lemma channel_view_idx_of_meta data index p :
  rd_metadata index true (Some (blen data)) true = rd_metadata data false (Some (blen data)) true ->
  channel_view_idx data index p = channel_view data p.
Proof. intros H. unfold channel_view_idx, channel_view. rewrite H. reflexivity. Qed.

Lemma lz_read_idx_of_view data index p :
  channel_view_idx data index p = channel_view data p ->
  forall offs len, lz_read_bytes_idx data index p offs len = lz_read_bytes data p offs len.
Proof. intros H offs len. unfold lz_read_bytes_idx, lz_read_bytes. rewrite H. reflexivity. Qed.

Lemma lz_plan_idx_of_view data index p :
  channel_view_idx data index p = channel_view data p ->
  forall offs len, lz_plan_bytes_idx data index p offs len = lz_plan_bytes data p offs len.
Proof. intros H offs len. unfold lz_plan_bytes_idx, lz_plan_bytes. rewrite H. reflexivity. Qed.

Lemma rd_meta_obs_of_meta src1 ii1 fs1 src2 ii2 fs2 w :
  rd_metadata src1 ii1 fs1 w = rd_metadata src2 ii2 fs2 w ->
  rd_meta_obs src1 ii1 fs1 w = rd_meta_obs src2 ii2 fs2 w.
Proof. intros H. unfold rd_meta_obs. rewrite H. reflexivity. Qed.

(* ================================================================================ *)
(* (A) serialised files                                                               *)
(* ================================================================================ *)

Theorem rd_all_idx_ser segs :
  wf_file segs -> rd_all_idx (ser_file segs) (ser_index segs) = rd_all (ser_file segs).
Proof. intros Hwf. apply rd_all_idx_of_meta. apply index_transparent_ser. exact Hwf. Qed.

Theorem index_read_correct segs st h chunkss :
  wf_file segs ->
  sm_run segs false = Ok st ->
  build_hierarchy (rs_om st) = Ok h ->
  segs_encode (rs_segments st) segs chunkss ->
  om_paths_canonical (rs_om st) ->
  typed_objects_are_channels (rs_om st) ->
  rd_all_idx (ser_file segs) (ser_index segs) = Ok (expected_tokens st h (concat chunkss), true).
Proof.
  intros Hwf Hrun Hh Henc Hc Ht. rewrite (rd_all_idx_ser segs Hwf).
  exact (read_correct segs st h chunkss Hwf Hrun Hh Henc Hc Ht).
Qed.

Theorem index_read_refines_spec segs c :
  wf_file segs -> spec_ok segs -> spec_meaning segs = SOk c ->
  rd_all_idx (ser_file segs) (ser_index segs) = Ok (spec_tokens c, true).
Proof.
  intros Hwf Hok Hm. rewrite (rd_all_idx_ser segs Hwf).
  exact (reader_refines_spec segs c Hwf Hok Hm).
Qed.

Theorem index_read_rejects_forbidden segs e :
  wf_file segs -> spec_ok segs -> spec_meaning segs = SErr e -> forbidden e ->
  exists e', rd_all_idx (ser_file segs) (ser_index segs) = Err e'.
Proof.
  intros Hwf Hok Hm Hf. rewrite (rd_all_idx_ser segs Hwf).
  exact (reader_rejects_forbidden segs e Hwf Hok Hm Hf).
Qed.

(* ---- lazy reads with an index beside the file ----------------------------------- *)

Theorem channel_view_idx_ser segs p :
  wf_file segs ->
  channel_view_idx (ser_file segs) (ser_index segs) p = channel_view (ser_file segs) p.
Proof. intros Hwf. apply channel_view_idx_of_meta. apply index_transparent_ser. exact Hwf. Qed.

Theorem lazy_idx_eq_ser segs p offs len :
  wf_file segs ->
  lz_read_bytes_idx (ser_file segs) (ser_index segs) p offs len = lz_read_bytes (ser_file segs) p offs len /\
  lz_plan_bytes_idx (ser_file segs) (ser_index segs) p offs len = lz_plan_bytes (ser_file segs) p offs len.
Proof.
  intros Hwf. split.
  - apply lz_read_idx_of_view. apply channel_view_idx_ser. exact Hwf.
  - apply lz_plan_idx_of_view. apply channel_view_idx_ser. exact Hwf.
Qed.

Theorem lazy_idx_is_window_of_eager segs st h chunkss c offs len :
  wf_file segs ->
  sm_run segs false = Ok st ->
  build_hierarchy (rs_om st) = Ok h ->
  segs_encode (rs_segments st) segs chunkss ->
  om_paths_canonical (rs_om st) ->
  seg_paths_distinct st ->
  In c (all_channels h) -> 0 <= offs -> len_nonneg len ->
  lz_read_bytes_idx (ser_file segs) (ser_index segs) (ch_path c) offs len =
  Ok (window_of offs len (chan_values (ch_path c) (concat chunkss))).
Proof.
  intros Hwf Hrun Hh Henc Hc Hd Hin Ho Hl.
  rewrite (proj1 (lazy_idx_eq_ser segs (ch_path c) offs len Hwf)).
  exact (lazy_is_window_of_eager segs st h chunkss Hwf Hrun Hh Henc Hc Hd c offs len Hin Ho Hl).
Qed.

(* ================================================================================ *)
(* (B) the bridge to IndexProofs: a file syntax as lead-in / metadata / raw bytes     *)
(* ================================================================================ *)

(* segment s with only the first j bytes of its raw data present; the lead-in
   still declares the full length *)
Definition iseg_cut (raw : bytes) (s : fseg) : IP.fseg :=
  IP.mkFseg (seg_leadin TAG_DATA s) (fs_meta_bytes s) raw.

Definition iseg (s : fseg) : IP.fseg := iseg_cut (fs_data s) s.

Lemma data_seg_iseg s : IP.data_seg (iseg s) = ser_seg TAG_DATA true s.
Proof. reflexivity. Qed.

Lemma index_seg_iseg raw s : IP.index_seg (iseg_cut raw s) = ser_seg TAG_INDEX false s.
Proof.
  unfold IP.index_seg, iseg_cut. cbn [IP.fs_lead IP.fs_meta]. rewrite ser_seg_eq, app_nil_r. reflexivity.
Qed.

Lemma data_image_iseg segs : IP.data_image (map iseg segs) = ser_file segs.
Proof.
  induction segs as [|s r IH]; [reflexivity|].
  cbn [map]. rewrite IP.data_image_cons, IH, data_seg_iseg. reflexivity.
Qed.

Lemma index_image_iseg segs : IP.index_image (map iseg segs) = ser_index segs.
Proof.
  induction segs as [|s r IH]; [reflexivity|].
  cbn [map]. rewrite IP.index_image_cons, IH. unfold iseg. rewrite index_seg_iseg. reflexivity.
Qed.

Lemma ser_file_app a b : ser_file (a ++ b) = ser_file a ++ ser_file b.
Proof. apply flat_map_app. Qed.

Lemma ser_index_app a b : ser_index (a ++ b) = ser_index a ++ ser_index b.
Proof. apply flat_map_app. Qed.

Lemma wf_file_app a b : wf_file (a ++ b) <-> wf_file a /\ wf_file b.
Proof. unfold wf_file. rewrite forallb_app. split; [apply andb_prop|intros [-> ->]; reflexivity]. Qed.

Lemma wf_file_single s : wf_file [s] <-> wf_fseg s = true.
Proof. unfold wf_file. cbn [forallb]. rewrite andb_true_r. reflexivity. Qed.

Lemma lead_ok_iseg raw s : wf_fseg s = true -> IP.lead_ok (iseg_cut raw s).
Proof.
  intros Hwf. unfold IP.lead_ok, iseg_cut. cbn [IP.fs_lead IP.fs_meta].
  split; [exact (wf_seg_leadin false s Hwf)|]. split; [reflexivity|].
  unfold seg_leadin. cbn [l_toc]. intros Hm.
  apply wf_fseg_spec in Hwf. destruct Hwf as (_ & _ & _ & Hmeta).
  unfold fs_meta_bytes. destruct (fs_meta s) as [es|].
  - destruct Hmeta as [_ Hes]. exists es. split; [exact Hes|reflexivity].
  - rewrite Hmeta in Hm. discriminate.
Qed.

Lemma seg_exact_iseg s : wf_fseg s = true -> IP.seg_exact (iseg s).
Proof.
  intros Hwf. apply wf_fseg_spec in Hwf. destruct Hwf as (_ & _ & Hlen & _).
  unfold IP.seg_exact, iseg, iseg_cut, seg_leadin. cbn [IP.fs_lead IP.fs_meta IP.fs_raw l_next].
  split; [reflexivity|lia].
Qed.

Lemma segs_ok_iseg segs : wf_file segs -> IP.segs_ok (map iseg segs) /\ Forall IP.seg_exact (map iseg segs).
Proof.
  induction segs as [|s r IH]; intros Hwf; [split; [exact I|constructor]|].
  change (s :: r) with ([s] ++ r) in Hwf. apply wf_file_app in Hwf. destruct Hwf as [Hs Hr].
  apply wf_file_single in Hs. destruct (IH Hr) as [Hok Hex].
  cbn [map IP.segs_ok]. split.
  - split; [exact (lead_ok_iseg _ s Hs)|]. split; [left; exact (seg_exact_iseg s Hs)|exact Hok].
  - constructor; [exact (seg_exact_iseg s Hs)|exact Hex].
Qed.

(* the index ALONE, no file size: the same state machine run *)
Theorem index_only_meta_ser segs w :
  wf_file segs -> rd_metadata (ser_index segs) true None w = sm_run segs w.
Proof.
  intros Hwf. destruct (segs_ok_iseg segs Hwf) as [Hok Hex].
  pose proof (IP.index_only_transparent (map iseg segs) w Hok Hex) as H.
  rewrite index_image_iseg, data_image_iseg in H. rewrite H.
  apply rd_metadata_ser. exact Hwf.
Qed.

(* ---- data file cut inside the LAST segment's raw data, index complete ------------ *)

Lemma segs_ok_cut init s raw :
  wf_file (init ++ [s]) -> blen raw <= blen (fs_data s) ->
  IP.segs_ok (map iseg init ++ [iseg_cut raw s]).
Proof.
  intros Hwf Hraw. apply wf_file_app in Hwf. destruct Hwf as [Hi Hs]. apply wf_file_single in Hs.
  induction init as [|a r IH].
  - cbn [map app IP.segs_ok]. split; [exact (lead_ok_iseg raw s Hs)|]. split; [|exact I].
    right. split; [reflexivity|]. right.
    unfold iseg_cut, seg_leadin. cbn [IP.fs_lead IP.fs_meta IP.fs_raw l_next]. lia.
  - change (a :: r) with ([a] ++ r) in Hi. apply wf_file_app in Hi. destruct Hi as [Ha Hr].
    apply wf_file_single in Ha.
    cbn [map app IP.segs_ok]. split; [exact (lead_ok_iseg _ a Ha)|].
    split; [left; exact (seg_exact_iseg a Ha)|exact (IH Hr)].
Qed.

Lemma index_image_cut init s raw :
  IP.index_image (map iseg init ++ [iseg_cut raw s]) = ser_index (init ++ [s]).
Proof.
  rewrite IP.index_image_app, index_image_iseg, ser_index_app. f_equal.
  unfold IP.index_image, ser_index. cbn [flat_map]. rewrite index_seg_iseg. reflexivity.
Qed.

Lemma blen_ser_file_single s : wf_fseg s = true ->
  blen (ser_file [s]) = 28 + blen (fs_meta_bytes s) + blen (fs_data s).
Proof. intros Hs. rewrite (blen_ser_file_cons s [] Hs). change (blen (ser_file [])) with 0. lia. Qed.

Lemma data_image_cut init s k :
  wf_fseg s = true ->
  blen (ser_file (init ++ [s])) - blen (fs_data s) <= k <= blen (ser_file (init ++ [s])) ->
  IP.data_image (map iseg init ++
                 [iseg_cut (take (k - (blen (ser_file init) + 28 + blen (fs_meta_bytes s))) (fs_data s)) s])
  = take k (ser_file (init ++ [s])).
Proof.
  intros Hs Hk.
  rewrite ser_file_app, blen_app, (blen_ser_file_single s Hs) in Hk.
  pose proof (blen_nonneg (ser_file init)) as H0.
  pose proof (blen_nonneg (fs_meta_bytes s)) as H1.
  pose proof (blen_nonneg (fs_data s)) as H2.
  rewrite IP.data_image_app, data_image_iseg, ser_file_app.
  rewrite IP.take_app_ge by lia. f_equal.
  remember (blen (ser_file init)) as B eqn:HB. clear HB.
  unfold IP.data_image, ser_file. cbn [flat_map]. rewrite !app_nil_r.
  unfold IP.data_seg, iseg_cut. cbn [IP.fs_lead IP.fs_meta IP.fs_raw].
  rewrite ser_seg_eq.
  pose proof (ser_leadin_length _ (wf_seg_leadin false s Hs)) as HL.
  change (tag_of false) with TAG_DATA in HL.
  change (IP.retag TAG_DATA (seg_leadin TAG_DATA s)) with (seg_leadin TAG_DATA s).
  rewrite IP.take_app_ge by lia. f_equal.
  rewrite IP.take_app_ge by lia. f_equal.
  f_equal. lia.
Qed.

Section Truncated.
  Variables (init : list fseg) (s : fseg) (k : Z).
  Let segs := init ++ [s].
  Hypothesis Hwf : wf_file segs.
  Hypothesis Hk : blen (ser_file segs) - blen (fs_data s) <= k <= blen (ser_file segs).

  Let j := k - (blen (ser_file init) + 28 + blen (fs_meta_bytes s)).
  Let isegs := map iseg init ++ [iseg_cut (take j (fs_data s)) s].

  Lemma trunc_s_wf : wf_fseg s = true.
  Proof. apply wf_file_app in Hwf. apply wf_file_single. apply Hwf. Qed.

  Lemma trunc_j_range : 0 <= j <= blen (fs_data s).
  Proof.
    subst j. unfold segs in Hk. rewrite ser_file_app, blen_app, (blen_ser_file_single s trunc_s_wf) in Hk. lia.
  Qed.

  Lemma trunc_ok : IP.segs_ok isegs.
  Proof.
    apply segs_ok_cut; [exact Hwf|]. rewrite (IP.blen_take _ _ trunc_j_range). apply trunc_j_range.
  Qed.

  Lemma trunc_data : IP.data_image isegs = take k (ser_file segs).
  Proof. exact (data_image_cut init s k trunc_s_wf Hk). Qed.

  Lemma trunc_index : IP.index_image isegs = ser_index segs.
  Proof. apply index_image_cut. Qed.

  Lemma trunc_blen : blen (take k (ser_file segs)) = k.
  Proof.
    apply IP.blen_take. split; [|apply Hk].
    pose proof trunc_j_range as Hj. subst j.
    pose proof (blen_nonneg (ser_file init)). pose proof (blen_nonneg (fs_meta_bytes s)). lia.
  Qed.

  (* the metadata pass: same state or same error, with and without segment indexes *)
  Theorem index_transparent_truncated_meta w :
    rd_metadata (ser_index segs) true (Some k) w = rd_metadata (take k (ser_file segs)) false (Some k) w.
  Proof.
    pose proof (IP.index_transparent isegs w trunc_ok) as H.
    rewrite trunc_index, trunc_data, trunc_blen in H. exact H.
  Qed.

  Theorem index_transparent_truncated :
    rd_all_idx (take k (ser_file segs)) (ser_index segs) = rd_all (take k (ser_file segs)).
  Proof.
    apply rd_all_idx_of_meta. rewrite trunc_blen. apply index_transparent_truncated_meta.
  Qed.

  Theorem index_transparent_truncated_lazy p offs len :
    channel_view_idx (take k (ser_file segs)) (ser_index segs) p = channel_view (take k (ser_file segs)) p /\
    lz_read_bytes_idx (take k (ser_file segs)) (ser_index segs) p offs len
    = lz_read_bytes (take k (ser_file segs)) p offs len.
  Proof.
    assert (Hv : channel_view_idx (take k (ser_file segs)) (ser_index segs) p
                 = channel_view (take k (ser_file segs)) p).
    { apply channel_view_idx_of_meta. rewrite trunc_blen. apply index_transparent_truncated_meta. }
    split; [exact Hv|]. apply lz_read_idx_of_view. exact Hv.
  Qed.
End Truncated.

(* ================================================================================ *)
(* (A, continued) the index alone: metadata observation and the refusal              *)
(* ================================================================================ *)

Lemma obs_status_with_index st st' :
  rs_segments st' = map with_index (rs_segments st) -> obs_status st' = obs_status st.
Proof.
  intros H. unfold obs_status. rewrite H, <- map_rev.
  destruct (rev (rs_segments st)) as [|g r]; reflexivity.
Qed.

Lemma meta_tokens_with_index st st' h :
  same_but_index st st' -> meta_tokens st' h = meta_tokens st h.
Proof.
  intros (Hs & _ & _ & Hv). unfold meta_tokens. rewrite Hv, (obs_status_with_index st st' Hs). reflexivity.
Qed.

Lemma rd_meta_obs_run src ii fs w st h :
  rd_metadata src ii fs w = Ok st -> build_hierarchy (rs_om st) = Ok h ->
  rd_meta_obs src ii fs w = Ok (meta_tokens st h).
Proof. intros H1 H2. unfold rd_meta_obs. rewrite H1. cbn [bind]. rewrite H2. reflexivity. Qed.

(* whatever happens (errors included), the lone index, the index with the data
   file's size, and the data file give the same metadata observation *)
Theorem index_only_meta_obs_eq segs w :
  wf_file segs ->
  rd_meta_obs (ser_index segs) true None w
  = rd_meta_obs (ser_file segs) false (Some (blen (ser_file segs))) w /\
  rd_meta_obs (ser_index segs) true (Some (blen (ser_file segs))) w
  = rd_meta_obs (ser_file segs) false (Some (blen (ser_file segs))) w.
Proof.
  intros Hwf. split; apply rd_meta_obs_of_meta.
  - rewrite (index_only_meta_ser segs w Hwf), (rd_metadata_ser segs w Hwf). reflexivity.
  - apply index_transparent_ser. exact Hwf.
Qed.

(* under read_correct's hypotheses: the observation of the lone index is the
   metadata part of read_correct's observation - the SAME st and h as in
   expected_tokens st h (concat chunkss) - for TdmsFile.read_metadata / read
   (w = false) and TdmsFile.open (w = true), and the lengths it shows are the
   numbers of values the data file holds *)
Theorem index_only_metadata segs st h chunkss w :
  wf_file segs ->
  sm_run segs false = Ok st ->
  build_hierarchy (rs_om st) = Ok h ->
  segs_encode (rs_segments st) segs chunkss ->
  om_paths_canonical (rs_om st) ->
  rd_meta_obs (ser_index segs) true None w = Ok (meta_tokens st h) /\
  rd_meta_obs (ser_file segs) false (Some (blen (ser_file segs))) w = Ok (meta_tokens st h) /\
  lengths_consistent h (concat chunkss).
Proof.
  intros Hwf Hrun Hh Henc Hc.
  assert (Hobs : rd_meta_obs (ser_index segs) true None w = Ok (meta_tokens st h)).
  { destruct w.
    - destruct (sm_run_with_index segs st Hrun) as (st' & Hrun' & Hsame).
      rewrite <- (meta_tokens_with_index st st' h Hsame).
      apply rd_meta_obs_run.
      + rewrite (index_only_meta_ser segs true Hwf). exact Hrun'.
      + destruct Hsame as (_ & _ & -> & _). exact Hh.
    - apply rd_meta_obs_run; [|exact Hh].
      rewrite (index_only_meta_ser segs false Hwf). exact Hrun. }
  split; [exact Hobs|]. split.
  - rewrite <- (proj1 (index_only_meta_obs_eq segs w Hwf)). exact Hobs.
  - exact (lengths_consistent_ser segs false st h chunkss Hrun Hh Henc Hc).
Qed.

(* the refusal: on a lone index every data read of a channel that HAS a data type
   raises (RuntimeError; ValueError for a negative offset / length, which is
   checked first); a channel without data type has nothing to read, as on the
   data file *)
Theorem index_only_refuses_data segs st h c offs len :
  wf_file segs ->
  sm_run segs false = Ok st ->
  build_hierarchy (rs_om st) = Ok h ->
  om_paths_canonical (rs_om st) ->
  In c (all_channels h) ->
  lz_read_index_only (ser_index segs) (ch_path c) offs len =
  if offs <? 0 then Err EValue
  else if match len with Some l => l <? 0 | None => false end then Err EValue
  else match ch_dtype c with None => Ok [] | Some _ => Err ERuntime end.
Proof.
  intros Hwf Hrun Hh Hc Hin.
  destruct (sm_run_with_index segs st Hrun) as (st' & Hrun' & (_ & _ & Hom & _)).
  destruct (channel_lookup segs false st h c Hrun Hh Hc Hin) as (m & Hm & Hdt & _).
  unfold lz_read_index_only. rewrite (index_only_meta_ser segs true Hwf), Hrun'. cbn [bind].
  rewrite Hom, Hm, <- Hdt. reflexivity.
Qed.

Corollary index_only_never_returns_data segs st h c offs len :
  wf_file segs ->
  sm_run segs false = Ok st ->
  build_hierarchy (rs_om st) = Ok h ->
  om_paths_canonical (rs_om st) ->
  In c (all_channels h) -> ch_dtype c <> None ->
  exists e, lz_read_index_only (ser_index segs) (ch_path c) offs len = Err e.
Proof.
  intros Hwf Hrun Hh Hc Hin Hty.
  rewrite (index_only_refuses_data segs st h c offs len Hwf Hrun Hh Hc Hin).
  destruct (offs <? 0); [eexists; reflexivity|].
  destruct (match len with Some l => l <? 0 | None => false end); [eexists; reflexivity|].
  destruct (ch_dtype c); [eexists; reflexivity|contradiction].
Qed.

(* ================================================================================ *)
(* (B, continued) truncated data file + complete index, composed with C06           *)
(* ================================================================================ *)

Lemma blen_ser_file_cons' a r : wf_fseg a = true -> blen (ser_file (a :: r)) = fseg_len a + blen (ser_file r).
Proof. intros Ha. rewrite (blen_ser_file_cons a r Ha). unfold fseg_len. reflexivity. Qed.

Lemma wf_file_cons a r : wf_file (a :: r) <-> wf_fseg a = true /\ wf_file r.
Proof.
  change (a :: r) with ([a] ++ r). rewrite wf_file_app, wf_file_single. reflexivity.
Qed.

(* every metadata block lies before a cut in the last segment's raw data *)
Lemma meta_count_last s : forall init pos k,
  wf_file init ->
  pos + blen (ser_file init) + 28 + blen (fs_meta_bytes s) <= k ->
  meta_count pos (init ++ [s]) k = length (init ++ [s]).
Proof.
  induction init as [|a r IH]; intros pos k Hwf Hk.
  - change (blen (ser_file [])) with 0 in Hk. cbn [app meta_count length]. cbv zeta.
    replace (k <? pos + 28 + blen (fs_meta_bytes s)) with false by lia.
    destruct (k <? pos + 28 + blen (fs_meta_bytes s) + blen (fs_data s)); reflexivity.
  - apply wf_file_cons in Hwf. destruct Hwf as [Ha Hr].
    rewrite (blen_ser_file_cons' a r Ha) in Hk. unfold fseg_len in Hk.
    pose proof (blen_nonneg (ser_file r)). pose proof (blen_nonneg (fs_meta_bytes s)).
    pose proof (blen_nonneg (fs_data a)).
    cbn [app meta_count length]. cbv zeta.
    replace (k <? pos + 28 + blen (fs_meta_bytes a)) with false by lia.
    replace (k <? pos + 28 + blen (fs_meta_bytes a) + blen (fs_data a)) with false by lia.
    rewrite IH by (try exact Hr; lia). reflexivity.
Qed.

(* ... every segment but the last lies wholly before it *)
Lemma whole_count_ge_init s : forall init pos k,
  wf_file init -> pos + blen (ser_file init) <= k ->
  (length init <= whole_count pos (init ++ [s]) k)%nat.
Proof.
  induction init as [|a r IH]; intros pos k Hwf Hk; [cbn [length]; lia|].
  apply wf_file_cons in Hwf. destruct Hwf as [Ha Hr].
  rewrite (blen_ser_file_cons' a r Ha) in Hk. pose proof (blen_nonneg (ser_file r)).
  cbn [app whole_count length].
  replace (k <? pos + fseg_len a) with false by lia.
  specialize (IH (pos + fseg_len a) k Hr ltac:(lia)). lia.
Qed.

(* ... and the cut lies in raw data iff something is missing *)
Lemma cut_in_data_last s : forall init pos k,
  wf_file init ->
  pos + blen (ser_file init) + 28 + blen (fs_meta_bytes s) <= k ->
  cut_in_data pos (init ++ [s]) k = (k <? pos + blen (ser_file init) + fseg_len s).
Proof.
  induction init as [|a r IH]; intros pos k Hwf Hk.
  - change (blen (ser_file [])) with 0 in *. cbn [app cut_in_data]. rewrite orb_false_r.
    replace (pos + 28 + blen (fs_meta_bytes s) <=? k) with true by lia. cbn [andb]. f_equal. lia.
  - apply wf_file_cons in Hwf. destruct Hwf as [Ha Hr].
    rewrite (blen_ser_file_cons' a r Ha) in *. pose proof (blen_nonneg (ser_file r)).
    pose proof (blen_nonneg (fs_meta_bytes s)).
    cbn [app cut_in_data].
    replace (k <? pos + fseg_len a) with false by lia. rewrite andb_false_r. cbn [orb].
    rewrite IH by (try exact Hr; lia). f_equal. lia.
Qed.

Lemma concat_firstn_prefix {A} (l : list (list A)) n m :
  (n <= m)%nat -> is_prefix (concat (firstn n l)) (concat (firstn m l)).
Proof.
  intros Hnm. exists (concat (skipn n (firstn m l))).
  rewrite <- concat_app. f_equal.
  rewrite <- (firstn_skipn n (firstn m l)) at 1. f_equal.
  rewrite firstn_firstn. f_equal. lia.
Qed.

Lemma chan_values_prefix p (a b : list chunk) : is_prefix a b -> is_prefix (chan_values p a) (chan_values p b).
Proof. intros [t ->]. exists (chan_values p t). unfold chan_values. apply flat_map_app. Qed.

(* C06's theorem read THROUGH the complete index: the data file lost part of the
   last segment's raw data, the index file beside it is whole.  Same hypotheses
   as read_correct for the complete file. *)
Theorem index_truncated_values_prefix init s st h chunkss k :
  wf_file (init ++ [s]) ->
  sm_run (init ++ [s]) false = Ok st ->
  build_hierarchy (rs_om st) = Ok h ->
  segs_encode (rs_segments st) (init ++ [s]) chunkss ->
  om_paths_canonical (rs_om st) ->
  typed_objects_are_channels (rs_om st) ->
  blen (ser_file (init ++ [s])) - blen (fs_data s) <= k <= blen (ser_file (init ++ [s])) ->
  exists stc hc chunks_c,
    rd_all_idx (take k (ser_file (init ++ [s]))) (ser_index (init ++ [s]))
    = Ok (expected_tokens stc hc chunks_c, true) /\
    rd_all (take k (ser_file (init ++ [s]))) = Ok (expected_tokens stc hc chunks_c, true) /\
    hier_sim hc h /\
    (forall p, is_prefix (chan_values p chunks_c) (chan_values p (concat chunkss)) /\
               is_prefix (chan_values p (concat (firstn (length init) chunkss))) (chan_values p chunks_c)) /\
    (forall c, In c (all_channels hc) ->
               ch_len c = Z.of_nat (length (chan_values (ch_path c) chunks_c))) /\
    exists rest, obs_status stc = TZ (if k <? blen (ser_file (init ++ [s])) then 1 else 0) :: rest.
Proof.
  intros Hwf Hrun Hh Henc Hc Ht Hk.
  pose proof Hwf as Hwf'. apply wf_file_app in Hwf'. destruct Hwf' as [Hi Hs]. apply wf_file_single in Hs.
  assert (Htot : blen (ser_file (init ++ [s])) = blen (ser_file init) + fseg_len s).
  { rewrite ser_file_app, blen_app, (blen_ser_file_single s Hs). unfold fseg_len. reflexivity. }
  pose proof (blen_nonneg (ser_file init)) as B0. pose proof (blen_nonneg (fs_meta_bytes s)) as B1.
  assert (Hk4 : 4 <= k <= blen (ser_file (init ++ [s]))) by (unfold fseg_len in Htot; lia).
  destruct (truncation_values_prefix (init ++ [s]) st h chunkss k Hwf Hrun Hh Henc Hc Ht Hk4)
    as (stc & hc & cc & stp & hp & Hread & Hstp & Hhp & Hsim & Hpre & Hlen & Hstat).
  assert (Hmc : meta_count 0 (init ++ [s]) k = length (init ++ [s])).
  { apply meta_count_last; [exact Hi|]. unfold fseg_len in Htot. lia. }
  rewrite Hmc, firstn_all, Hrun in Hstp. injection Hstp as <-.
  rewrite Hh in Hhp. injection Hhp as <-.
  exists stc, hc, cc.
  split; [rewrite (index_transparent_truncated init s k Hwf Hk); exact Hread|].
  split; [exact Hread|]. split; [exact Hsim|]. split; [|split; [exact Hlen|]].
  - intros p. destruct (Hpre p) as [H1 H2]. split; [exact H1|].
    refine (is_prefix_trans _ _ _ _ H2). apply chan_values_prefix. apply concat_firstn_prefix.
    apply whole_count_ge_init; [exact Hi|]. unfold fseg_len in Htot. lia.
  - rewrite (cut_in_data_last s init 0 k Hi) in Hstat by (unfold fseg_len in Htot; lia).
    rewrite Htot. exact Hstat.
Qed.

(* ================================================================================ *)
(* (C) the WRITER's index file                                                        *)
(* ================================================================================ *)

From NpTdms Require Model.ByteStr Model.StrictParse Model.Writer Proofs.WriterProofs
     Proofs.WriteReadSpec Proofs.WriteReadBytes Proofs.WriteRead.

Module W := NpTdms.Model.Writer.
Module SP := NpTdms.Model.StrictParse.
Module WP := NpTdms.Proofs.WriterProofs.
Module WB := NpTdms.Proofs.WriteReadBytes.
Module WS := NpTdms.Proofs.WriteReadSpec.
Module WR := NpTdms.Proofs.WriteRead.

(* one call: the index bytes the writer emits (lead-in retagged TDSh + metadata,
   C08's ser_index_segment) are the index serialisation of the call's file syntax *)
Lemma index_segment_is_ser_seg v sorted s :
  forallb W.wf_obj sorted = true ->
  W.syntax_of_objs v sorted = Ok s ->
  SP.ser_index_segment s = ser_seg TAG_INDEX false (WB.fseg_of (v, sorted)).
Proof.
  intros Hwf Hs. unfold W.syntax_of_objs in Hs. rewrite WP.mapM_wr_entry in Hs. cbn [bind] in Hs.
  destruct (W.data_size sorted) as [dsize|e] eqn:Ed; cbn [bind] in Hs; [|discriminate].
  injection Hs as <-.
  unfold SP.ser_index_segment, SP.retag, ser_seg, WB.fseg_of, fs_meta_bytes.
  cbn [SP.sg_leadin SP.sg_entries l_toc l_version l_next l_raw fs_toc fs_version fs_meta fs_data fst snd].
  rewrite WP.toc_writer_le, (WB.blen_obj_raw sorted dsize Hwf Ed), app_nil_r. reflexivity.
Qed.

Lemma index_segments_are_ser_index : forall sl segs,
  Forall2 (fun vs s => W.syntax_of_objs (fst vs) (snd vs) = Ok s) sl segs ->
  Forall (fun vs => forallb W.wf_obj (snd vs) = true /\ W.valid_version (fst vs) = true) sl ->
  flat_map SP.ser_index_segment segs = ser_index (WB.fsegs_of sl).
Proof.
  induction sl as [|[v sorted] sl IH]; intros segs HF2 HF.
  - inversion HF2; subst. reflexivity.
  - inversion HF2 as [|x s l segs' Hs HF2']; subst.
    inversion HF as [|x l [Hw _] HF']; subst. cbn [fst snd] in Hs, Hw.
    unfold ser_index, WB.fsegs_of in *. cbn [flat_map map].
    rewrite (index_segment_is_ser_seg v sorted s Hw Hs), (IH segs' HF2' HF'). reflexivity.
Qed.

(* data AND index are the two serialisations of one well-formed file syntax *)
Theorem writer_index_is_ser_index sessions data index :
  W.wf_file sessions = true ->
  WB.sizes_below_marker sessions = true ->
  W.wr_file sessions = Ok (data, index) ->
  exists sl,
    WB.sorted_file sessions = Ok sl /\
    wf_file (WB.fsegs_of sl) /\
    data = ser_file (WB.fsegs_of sl) /\
    index = ser_index (WB.fsegs_of sl).
Proof.
  intros Hwf Hnm Hwr.
  pose proof Hwf as Hwf0. unfold W.wf_file in Hwf0. apply andb_prop in Hwf0. destruct Hwf0 as [Hobjs Hsizes].
  destruct (WB.file_sorted sessions data index Hobjs Hwr) as (sl & segs & Hsl & Hsegs & HF2 & HFw & Hd).
  destruct (WP.file_syntax sessions data index Hwr) as (segs' & Hsegs' & _ & Hi).
  rewrite Hsegs in Hsegs'. injection Hsegs' as <-.
  unfold WB.sizes_below_marker in Hnm. rewrite Hsegs in Hsizes, Hnm.
  exists sl. split; [exact Hsl|]. split; [exact (WB.wf_fsegs sl segs HF2 HFw Hsizes Hnm)|].
  split; [exact Hd|]. rewrite Hi. exact (index_segments_are_ser_index sl segs HF2 HFw).
Qed.

(* the index file TdmsWriter produces is transparent: same result, errors
   included (no hypothesis on the data types) ... *)
Theorem writer_index_transparent_eq sessions data index :
  W.wf_file sessions = true ->
  WB.sizes_below_marker sessions = true ->
  W.wr_file sessions = Ok (data, index) ->
  rd_all_idx data index = rd_all data /\
  (forall w, rd_metadata index true (Some (blen data)) w = rd_metadata data false (Some (blen data)) w) /\
  (forall w, rd_metadata index true None w = rd_metadata data false (Some (blen data)) w) /\
  (forall w, rd_meta_obs index true None w = rd_meta_obs data false (Some (blen data)) w) /\
  (forall p, channel_view_idx data index p = channel_view data p) /\
  (forall p offs len, lz_read_bytes_idx data index p offs len = lz_read_bytes data p offs len) /\
  (forall p offs len, lz_plan_bytes_idx data index p offs len = lz_plan_bytes data p offs len).
Proof.
  intros Hwf Hnm Hwr.
  destruct (writer_index_is_ser_index sessions data index Hwf Hnm Hwr) as (sl & _ & Hwfs & -> & ->).
  split; [exact (rd_all_idx_ser _ Hwfs)|].
  split; [intros w; exact (index_transparent_ser _ w Hwfs)|].
  split; [intros w; rewrite (index_only_meta_ser _ w Hwfs), (rd_metadata_ser _ w Hwfs); reflexivity|].
  split; [intros w; exact (proj1 (index_only_meta_obs_eq _ w Hwfs))|].
  split; [intros p; exact (channel_view_idx_ser _ p Hwfs)|].
  split; intros p offs len; apply (lazy_idx_eq_ser _ p offs len Hwfs).
Qed.

(* ... and under write_read's hypotheses that result is the content of the calls *)
Theorem writer_index_transparent sessions data index :
  W.wf_file sessions = true ->
  WB.sizes_below_marker sessions = true ->
  WS.dtypes_consistent sessions = true ->
  W.wr_file sessions = Ok (data, index) ->
  rd_all_idx data index = rd_all data /\
  rd_all_idx data index = Ok (WS.content_tokens_of_calls sessions, true).
Proof.
  intros Hwf Hnm Hdt Hwr.
  pose proof (proj1 (writer_index_transparent_eq sessions data index Hwf Hnm Hwr)) as Heq.
  split; [exact Heq|]. rewrite Heq.
  exact (WR.write_read_lemma sessions data index Hwf Hnm Hdt Hwr).
Qed.

(* ================================================================================ *)
(* Instances: rc_file (Proofs/ReadCorrect.v): group "g" with a string property,      *)
(* int32 channel "a" (one property) and string channel "b"; segment 1 (offset 0,     *)
(* data at 169, end 207) has two chunks, segment 2 (offset 207, no metadata block,   *)
(* data at 235, end 254) one.  The data file has 254 bytes, its index 197.           *)
(* ================================================================================ *)

Section Instances.
Import String.
Local Open Scope string_scope.

Definition rc_full_tokens : list tok :=
  [TZ 4713; TZ 0; TZ 1; TB (hex "67"); TZ 1; TB (hex "6e"); TZ 3; TB (hex "6869"); TZ 2;
   TB (hex "61"); TB (hex "67"); TB rc_path_a; TZ 3; TZ 6; TZ 1; TB (hex "70"); TZ 0; TZ 7;
   TZ 0; TZ 6; TB (hex "01000000"); TB (hex "02000000"); TB (hex "03000000");
   TB (hex "04000000"); TB (hex "05000000"); TB (hex "06000000");
   TB (hex "62"); TB (hex "67"); TB rc_path_b; TZ 32; TZ 6; TZ 0;
   TZ 0; TZ 6; TB (hex "6162"); TB (hex "63"); TB []; TB (hex "78797a"); TB (hex "71"); TB (hex "7273");
   TZ 0; TZ 0].

(* the same without the data: what TdmsFile.read_metadata shows *)
Definition rc_meta_only_tokens : list tok :=
  [TZ 4713; TZ 0; TZ 1; TB (hex "67"); TZ 1; TB (hex "6e"); TZ 3; TB (hex "6869"); TZ 2;
   TB (hex "61"); TB (hex "67"); TB rc_path_a; TZ 3; TZ 6; TZ 1; TB (hex "70"); TZ 0; TZ 7;
   TB (hex "62"); TB (hex "67"); TB rc_path_b; TZ 32; TZ 6; TZ 0;
   TZ 0; TZ 0].

(* data file cut at 250 (4 bytes short, inside segment 2's raw data), complete
   index: segment 2 holds a string channel, so its partial chunk gives no value:
   a = 1..4, b = "ab","c","","xyz", incomplete, chunk status a: 2 / 0, b: 2 / 0 *)
Definition rc_cut250_tokens : list tok :=
  [TZ 4713; TZ 0; TZ 1; TB (hex "67"); TZ 1; TB (hex "6e"); TZ 3; TB (hex "6869"); TZ 2;
   TB (hex "61"); TB (hex "67"); TB rc_path_a; TZ 3; TZ 4; TZ 1; TB (hex "70"); TZ 0; TZ 7;
   TZ 0; TZ 4; TB (hex "01000000"); TB (hex "02000000"); TB (hex "03000000"); TB (hex "04000000");
   TB (hex "62"); TB (hex "67"); TB rc_path_b; TZ 32; TZ 4; TZ 0;
   TZ 0; TZ 4; TB (hex "6162"); TB (hex "63"); TB []; TB (hex "78797a");
   TZ 1; TZ 1; TZ 2; TB rc_path_a; TZ 2; TZ 0; TB rc_path_b; TZ 2; TZ 0].

Example rc_index_sizes :
  blen (ser_file rc_file) = 254 /\ blen (ser_index rc_file) = 197 /\
  read_at 0 4 (ser_index rc_file) = TAG_INDEX /\ read_at 169 4 (ser_index rc_file) = TAG_INDEX.
Proof. vm_compute. repeat split; reflexivity. Qed.

(* by the theorem ... *)
Example rc_index_read_correct :
  rd_all_idx (ser_file rc_file) (ser_index rc_file) = Ok (expected_tokens rc_st rc_h (List.concat rc_chunks), true).
Proof.
  exact (index_read_correct rc_file rc_st rc_h rc_chunks rc_wf rc_run rc_hier rc_encodes
                            rc_canonical rc_typed_channels).
Qed.

(* ... and by evaluating the byte-level model on the two byte strings *)
Example rc_index_read_eval :
  rd_all_idx (ser_file rc_file) (ser_index rc_file) = Ok (rc_full_tokens, true) /\
  expected_tokens rc_st rc_h (List.concat rc_chunks) = rc_full_tokens.
Proof. vm_compute. split; reflexivity. Qed.

Example rc_index_only_meta_eval :
  rd_meta_obs (ser_index rc_file) true None false = Ok rc_meta_only_tokens /\
  rd_meta_obs (ser_index rc_file) true None true = Ok rc_meta_only_tokens /\
  rd_meta_obs (ser_file rc_file) false (Some (blen (ser_file rc_file))) false = Ok rc_meta_only_tokens /\
  meta_tokens rc_st rc_h = rc_meta_only_tokens.
Proof. vm_compute. repeat split; reflexivity. Qed.

Example rc_index_only_refuses_eval :
  lz_read_index_only (ser_index rc_file) rc_path_a 0 None = Err ERuntime /\
  lz_read_index_only (ser_index rc_file) rc_path_b 2 (Some 1) = Err ERuntime /\
  lz_read_index_only (ser_index rc_file) rc_path_a (-1) None = Err EValue /\
  lz_read_index_only (ser_index rc_file) rc_path_a 0 (Some (-1)) = Err EValue.
Proof. vm_compute. repeat split; reflexivity. Qed.

Example rc_lazy_idx_eval :
  lz_read_bytes_idx (ser_file rc_file) (ser_index rc_file) rc_path_a 1 (Some 4) =
  Ok [hex "02000000"; hex "03000000"; hex "04000000"; hex "05000000"] /\
  lz_read_bytes_idx (ser_file rc_file) (ser_index rc_file) rc_path_b 3 None =
  Ok [hex "78797a"; hex "71"; hex "7273"] /\
  lz_plan_bytes_idx (ser_file rc_file) (ser_index rc_file) rc_path_a 1 (Some 4) =
  lz_plan_bytes (ser_file rc_file) rc_path_a 1 (Some 4).
Proof. vm_compute. repeat split; reflexivity. Qed.

Example rc_cut250_idx_eval :
  rd_all_idx (take 250 (ser_file rc_file)) (ser_index rc_file) = Ok (rc_cut250_tokens, true) /\
  rd_all (take 250 (ser_file rc_file)) = Ok (rc_cut250_tokens, true) /\
  lz_read_bytes_idx (take 250 (ser_file rc_file)) (ser_index rc_file) rc_path_a 0 None =
  Ok [hex "01000000"; hex "02000000"; hex "03000000"; hex "04000000"] /\
  lz_read_bytes_idx (take 250 (ser_file rc_file)) (ser_index rc_file) rc_path_b 1 (Some 2) =
  Ok [hex "63"; []].
Proof. vm_compute. repeat split; reflexivity. Qed.

End Instances.

Definition rc_seg1 : fseg := match rc_file with a :: _ => a | [] => mkFseg 0 0 None [] end.
Definition rc_seg2 : fseg := match rc_file with _ :: b :: _ => b | _ => mkFseg 0 0 None [] end.

Lemma rc_split : rc_file = [rc_seg1] ++ [rc_seg2].
Proof. reflexivity. Qed.

(* every cut inside segment 2's raw data (offsets 235 .. 254), complete index:
   the theorem applies *)
Example rc_truncated_applies : forall k, 235 <= k <= 254 ->
  exists stc hc chunks_c,
    rd_all_idx (take k (ser_file rc_file)) (ser_index rc_file) = Ok (expected_tokens stc hc chunks_c, true) /\
    rd_all (take k (ser_file rc_file)) = Ok (expected_tokens stc hc chunks_c, true) /\
    hier_sim hc rc_h /\
    (forall p, is_prefix (chan_values p chunks_c) (chan_values p (concat rc_chunks)) /\
               is_prefix (chan_values p (concat (firstn 1 rc_chunks))) (chan_values p chunks_c)) /\
    (forall c, In c (all_channels hc) ->
               ch_len c = Z.of_nat (length (chan_values (ch_path c) chunks_c))) /\
    exists rest, obs_status stc = TZ (if k <? 254 then 1 else 0) :: rest.
Proof.
  intros k Hk.
  assert (E1 : blen (ser_file ([rc_seg1] ++ [rc_seg2])) = 254) by (vm_compute; reflexivity).
  assert (E2 : blen (fs_data rc_seg2) = 19) by (vm_compute; reflexivity).
  pose proof (index_truncated_values_prefix [rc_seg1] rc_seg2 rc_st rc_h rc_chunks k
                rc_wf rc_run rc_hier rc_encodes rc_canonical rc_typed_channels) as H.
  rewrite E1, E2 in H. apply H. lia.
Qed.
