(* The translated per-chunk lazy loop (Gen/PyFuncsLazySeg.v, Proofs/GenLazySegEquiv.v) against the hand model's VIEW:
   the positional [chunk_view] at data_position + chunk_size * ci is the ci-th entry of sv_vals (segv_of data path s), hence
   TdmsSegment.read_raw_data_for_channel on a contiguous segment returns what Model/LazyRead.v seg_fetch returns; the
   semantic hypotheses discharged on serialised segments; (b) interleaved segments at any chunk offset; (c) the DAQmx loop. *)
From Coq Require Import String Ascii.
From Coq Require Import ZArith List Bool Lia ZifyBool.
From Coq Require Import Init.Byte.
Import ListNotations.
From NpTdms Require Import Base.Bytes Base.Res Base.PySlice Model.Tokens Model.SegState Model.Layout Model.Reader Model.FileSyn
     Model.LazyRead Model.LazyBytes
     Gen.TypeTable Gen.PyFuncsReader Gen.PyFuncsDecode Gen.PyFuncsDaqmxRead Gen.PyFuncsDaqmxLoop Gen.PyFuncsEagerLoop
     Gen.PyFuncsLazySeg
     Proofs.SegStateProofs Proofs.LayoutProofs Proofs.TokensRoundtrip Proofs.FileSynProofs Proofs.ReadCorrect Proofs.GenReaderEquiv Proofs.GenDecodeEquiv Proofs.GenDecodeRecv
     Proofs.GenDecodeTransport Proofs.DaqmxProofs Proofs.GenDaqmxEquiv Proofs.GenDaqmxLoopEquiv Proofs.GenEagerEquiv Proofs.GenLazySegEquiv.
Local Open Scope Z_scope.
Ltac Zify.zify_post_hook ::= Z.to_euclidean_division_equations.

(* ---- the sequential decoder reaches chunk k at D + cs * k ------------------------------------------------------------------ *)

(* every chunk BEFORE the last one of the request occupies exactly chunk_size bytes: decoding it sequentially at
   D + cs * j ends at D + cs * (j + 1) *)
Definition chunks_aligned (e : endian) (objs : list sobj) (nc : Z) (fin : option (alist Z)) (data : bytes) (D cs stop : Z) : Prop :=
  forall j, 0 <= j -> j + 1 < stop ->
            exists c, read_contig_chunk e objs j nc fin (drop (D + cs * j) data) [] = Ok (c, drop (D + cs * (j + 1)) data).

Lemma chunks_loop_nth (rd : Z -> bytes -> res (chunk * bytes)) data D cs n : forall fuel ci cur l rest k,
    read_chunks_loop fuel rd ci n cur = Ok (l, rest) ->
    cur = drop (D + cs * ci) data ->
    ci <= k < n ->
    (forall j, ci <= j < k -> exists c, rd j (drop (D + cs * j) data) = Ok (c, drop (D + cs * (j + 1)) data)) ->
    exists c r, rd k (drop (D + cs * k) data) = Ok (c, r) /\ nth_error l (Z.to_nat (k - ci)) = Some c.
Proof.
  induction fuel as [|f IH]; intros ci cur l rest k H Hcur Hk Hal; cbn [read_chunks_loop] in H;
    (destruct (n <=? ci) eqn:E; [lia|]); [discriminate|].
  destruct (rd ci cur) as [[c cur1]|] eqn:Erd; cbn [bind] in H; [|discriminate].
  destruct (read_chunks_loop f rd (ci + 1) n cur1) as [[cs' cur2]|] eqn:Erec; cbn [bind] in H; [|discriminate].
  injection H as <- _.
  destruct (Z.eq_dec k ci) as [->|Hne].
  - exists c, cur1. subst cur. split; [exact Erd|]. replace (ci - ci) with 0 by lia. reflexivity.
  - destruct (Hal ci ltac:(lia)) as [c' Hc']. subst cur. rewrite Hc' in Erd. injection Erd as -> <-.
    destruct (IH (ci + 1) _ cs' cur2 k Erec eq_refl ltac:(lia) ltac:(intros j Hj; apply Hal; lia)) as [c2 [r2 [H1 H2]]].
    exists c2, r2. split; [exact H1|].
    replace (Z.to_nat (k - ci)) with (S (Z.to_nat (k - (ci + 1)))) by lia. exact H2.
Qed.

Lemma fit_chunks_nth : forall n l i, (i < n)%nat ->
    nth_error (fit_chunks n l) i = Some (match nth_error l i with Some x => x | None => [] end).
Proof.
  induction n as [|n IH]; intros l i Hi; [lia|].
  destruct l as [|x r]; destruct i as [|i]; cbn [fit_chunks nth_error]; try reflexivity.
  - rewrite IH by lia. destruct i; reflexivity.
  - apply IH. lia.
Qed.

(* ---- the sequential walk to the channel and the decoded chunk's entry (path present or not; listed once) ----------------------- *)

Lemma seq_channel_chunk_entry e ci nc fin path : forall objs cur acc c rest,
    read_contig_chunk e objs ci nc fin cur acc = Ok (c, rest) ->
    NoDup (map so_path objs) ->
    exists o cur1, seq_channel_chunk e objs ci nc fin path cur = Ok (o, cur1)
                   /\ match o with Some vs => alookup path c = Some (CData vs) | None => alookup path c = alookup path acc end.
Proof.
  induction objs as [|o objs IH]; intros cur acc c rest H Hnd.
  - cbn in H. injection H as <- <-. exists None, cur. split; reflexivity.
  - cbn [read_contig_chunk seq_channel_chunk] in *. cbn [map] in Hnd. inversion Hnd as [|? ? Hnin Hnd']; subst.
    destruct (read_values e o (chunk_nvals o ci nc fin) cur) as [[vs cur1]|]; cbn [bind] in *; [|discriminate].
    destruct (bytes_eqb (so_path o) path) eqn:E.
    + apply bytes_eqb_eq in E. subst path. exists (Some vs), cur1. split; [reflexivity|].
      rewrite (read_contig_chunk_keeps e ci nc fin (so_path o) _ _ _ _ _ H Hnin).
      rewrite alookup_aset, bytes_eqb_refl. reflexivity.
    + destruct (IH _ _ _ _ H Hnd') as [o' [cur2 [H1 H2]]]. exists o', cur2. split; [exact H1|].
      destruct o' as [vs'|]; [exact H2|]. rewrite H2, alookup_aset.
      destruct (bytes_eqb path (so_path o)) eqn:E2; [|reflexivity].
      apply bytes_eqb_eq in E2. subst path. rewrite bytes_eqb_refl in E. discriminate.
Qed.

Lemma chunk_view_entry e objs nc fin path data pos ci c r :
  read_contig_chunk e objs ci nc fin (drop pos data) [] = Ok (c, r) ->
  NoDup (map so_path objs) ->
  chunk_view e objs nc fin path data pos ci = Ok (chunk_vals path c).
Proof.
  intros H Hnd. destruct (seq_channel_chunk_entry e ci nc fin path _ _ _ _ _ H Hnd) as [o [cur1 [H1 H2]]].
  unfold chunk_view, chunk_vals. rewrite H1. cbn [bind]. destruct o as [vs|]; rewrite H2; reflexivity.
Qed.

(* ---- segv_of on a contiguous segment in which the channel has values ----------------------------------------------------------- *)

Lemma mapM_ext_in {A B} (f g : A -> res B) l : (forall x, In x l -> f x = g x) -> mapM f l = mapM g l.
Proof.
  induction l as [|a r IH]; intros H; [reflexivity|]. cbn [mapM]. rewrite (H a (or_introl eq_refl)).
  rewrite IH by (intros x Hx; apply H; right; exact Hx). reflexivity.
Qed.

Lemma py_range_in a b x : In x (py_range a b) -> a <= x < b.
Proof. unfold py_range. intros H. apply in_map_iff in H. destruct H as [k [<- Hk]]. apply in_seq in Hk. lia. Qed.

Lemma segv_of_contig data path s sv :
  segv_of data path s = Ok sv -> sv_chunk sv <> 0 -> seg_layout s = Ok LContig ->
  exists cs rest,
    read_chunks_loop (S (S (length (drop (sg_data s) data))))
                     (fun ci c => read_contig_chunk (toc_endian (sg_toc s)) (data_objs (sg_objs s)) ci (sg_nchunks s) (sg_final s) c [])
                     0 (sg_nchunks s) (drop (sg_data s) data) = Ok (cs, rest)
    /\ sv_interleaved sv = false /\ sv_nchunks sv = sg_nchunks s
    /\ sv_vals sv = fit_chunks (Z.to_nat (sg_nchunks s)) (map (chunk_vals path) cs).
Proof.
  intros H Hne Hlay. unfold segv_of in H.
  match type of H with (if ?b then _ else _) = _ => destruct b end.
  - injection H as <-. cbn [sv_chunk] in Hne. lia.
  - rewrite Hlay in H. cbn [bind] in H. unfold read_segment in H.
    destruct (negb (bytes_eqb (read_at (sg_pos s) 4 data) TAG_DATA)); [discriminate|].
    unfold read_segment_chunks in H. rewrite Hlay in H. cbn [bind] in H.
    match type of H with context [read_chunks_loop ?f ?rd ?a ?b ?c] => destruct (read_chunks_loop f rd a b c) as [[cs rest]|] eqn:E end;
      cbn [bind] in H; [|discriminate].
    injection H as <-. exists cs, rest. cbn [sv_interleaved sv_nchunks sv_vals]. repeat split; reflexivity.
Qed.

(* (a): the positional view IS the ci-th entry of the model's view *)
Theorem chunk_view_is_view_entry s data path sv cs stop ci :
  segv_of data path s = Ok sv -> sv_chunk sv <> 0 -> seg_layout s = Ok LContig ->
  NoDup (map so_path (data_objs (sg_objs s))) ->
  chunks_aligned (toc_endian (sg_toc s)) (data_objs (sg_objs s)) (sg_nchunks s) (sg_final s) data (sg_data s) cs stop ->
  0 <= ci < stop -> stop <= sg_nchunks s ->
  chunk_view (toc_endian (sg_toc s)) (data_objs (sg_objs s)) (sg_nchunks s) (sg_final s) path data (sg_data s + cs * ci) ci
  = chunk_at bytes sv ci.
Proof.
  intros Hsv Hne Hlay Hnd Hal Hci Hstop.
  destruct (segv_of_contig data path s sv Hsv Hne Hlay) as [l [rest [Hloop [Hil [Hn Hvals]]]]].
  destruct (chunks_loop_nth _ data (sg_data s) cs (sg_nchunks s) _ 0 _ l rest ci Hloop
                            ltac:(f_equal; lia) ltac:(lia) ltac:(intros j Hj; apply Hal; lia)) as [c [r [Hrd Hnth]]].
  cbv beta in Hrd. rewrite (chunk_view_entry _ _ _ _ path data _ ci c r Hrd Hnd).
  unfold chunk_at. rewrite Hn. assert (E : (0 <=? ci) && (ci <? sg_nchunks s) = true) by lia. rewrite E.
  rewrite Hvals, fit_chunks_nth by lia. replace (ci - 0) with ci in Hnth by lia.
  rewrite (map_nth_error (chunk_vals path) _ _ Hnth). reflexivity.
Qed.

(* TdmsSegment.read_raw_data_for_channel on a contiguous segment = seg_fetch on the model's view *)
Theorem contig_read_raw_data_for_channel_view sg data p0 path co nc cs sv :
  seg_layout sg = Ok LContig -> get_chunk_size_gen sg = Ok cs ->
  0 <= sg_data sg -> 0 <= cs -> 0 <= co ->
  Forall obj_ok (data_objs (sg_objs sg)) ->
  let e := toc_endian (sg_toc sg) in
  let objs := data_objs (sg_objs sg) in
  let stop := match nc with None => sg_nchunks sg | Some n => n + co end in
  (forall ci, co <= ci < stop ->
              Forall (fun o => 0 <= chunk_nvals o ci (sg_nchunks sg) (sg_final sg)) objs /\
              sizes_real e objs ci (sg_nchunks sg) (sg_final sg) path (drop (sg_data sg + cs * ci) data)) ->
  segv_of data path sg = Ok sv -> sv_chunk sv <> 0 ->
  NoDup (map so_path objs) ->
  chunks_aligned e objs (sg_nchunks sg) (sg_final sg) data (sg_data sg) cs stop ->
  stop <= sg_nchunks sg ->
  mapr (fun p => (chunks_values (fst p), pf_data (snd p), pf_pos (snd p)))
       (segment_read_raw_data_for_channel_gen sg (mkPf data p0) path co nc)
  = mapr (fun vss => (Some ((if toc_has (sg_toc sg) TOC_RAW then [] else [[]]) ++ vss), data,
                      if stop <=? co then sg_data sg + cs * co else sg_data sg + cs * stop))
         (seg_fetch bytes sv co (match nc with None => sg_nchunks sg - co | Some n => n end)).
Proof.
  intros Hlay Hcs Hd Hcs0 Hco Hok e objs stop Hreal Hsv Hne Hnd Hal Hstop.
  rewrite (contig_read_raw_data_for_channel_eq sg data p0 path co nc cs Hlay Hcs Hd Hcs0 Hco Hok Hreal).
  fold e objs stop. f_equal.
  destruct (segv_of_contig data path sg sv Hsv Hne Hlay) as [l [rest [_ [Hil _]]]].
  unfold seg_fetch. rewrite Hil.
  replace ((match nc with None => sg_nchunks sg - co | Some n => n end) + co) with stop by (unfold stop; destruct nc; lia).
  change (zrange co stop) with (py_range co stop).
  apply mapM_ext_in. intros ci Hin. apply py_range_in in Hin.
  exact (chunk_view_is_view_entry sg data path sv cs stop ci Hsv Hne Hlay Hnd Hal ltac:(lia) Hstop).
Qed.

(* ---- [chunks_aligned] holds on SERIALISED contiguous segments (Proofs/ReadCorrect.v seg_encodes, se_contig): any lead-in,
   the encoded chunks of values of the declared sizes, anything after them; no final-chunk override ---------------------------- *)
Lemma enc_chunks_app e objs l1 l2 : enc_chunks e objs (l1 ++ l2) = (enc_chunks e objs l1 ++ enc_chunks e objs l2)%list.
Proof. unfold enc_chunks. apply flat_map_app. Qed.

Theorem chunks_aligned_encoded e objs nc pre css rest stop :
  NoDup (map so_path objs) ->
  Forall (fun vss => Forall2 (fun o vs => vals_ok (so_nvals o) o vs) objs vss) css ->
  Forall (Forall2 (dsize_ok e) objs) css ->
  stop <= Z.of_nat (length css) + 1 ->
  chunks_aligned e objs nc None (pre ++ enc_chunks e objs css ++ rest) (blen pre) (zsum (map so_dsize objs)) stop.
Proof.
  intros Hnd Hok Hds Hstop j Hj0 Hj.
  destruct (nth_error css (Z.to_nat j)) as [vss|] eqn:En; [|apply nth_error_None in En; exfalso; lia].
  apply nth_error_split in En. destruct En as [l1 [l2 [-> Hl1]]].
  apply Forall_app in Hok. destruct Hok as [_ Hok2]. inversion Hok2 as [|? ? Hvss _]; subst.
  apply Forall_app in Hds. destruct Hds as [Hds1 Hds2]. inversion Hds2 as [|? ? Hdv _]; subst.
  set (cs := zsum (map so_dsize objs)).
  set (C := enc_chunk e (combine objs vss)). set (E1 := enc_chunks e objs l1). set (E2 := enc_chunks e objs l2).
  assert (Hdata : (pre ++ enc_chunks e objs (l1 ++ vss :: l2) ++ rest = (pre ++ E1) ++ C ++ (E2 ++ rest))%list).
  { rewrite enc_chunks_app. change (enc_chunks e objs (vss :: l2)) with (C ++ E2)%list. rewrite <- !app_assoc. reflexivity. }
  rewrite Hdata.
  assert (B1 : blen (pre ++ E1) = blen pre + cs * j).
  { rewrite blen_app. unfold E1. rewrite enc_chunks_blen by exact Hds1. rewrite Hl1. fold cs. rewrite Z2Nat.id by lia. ring. }
  assert (B2 : blen ((pre ++ E1) ++ C) = blen pre + cs * (j + 1)).
  { rewrite blen_app, B1. unfold C. rewrite enc_chunk_blen by exact Hdv. fold cs. ring. }
  exists (chunk_of (combine objs vss)).
  rewrite <- B1, drop_app_exact. rewrite <- B2. rewrite (app_assoc (pre ++ E1) C (E2 ++ rest)), drop_app_exact.
  destruct (Forall2_combine _ _ _ Hvss) as [Hall Hlen].
  pose proof (read_contig_chunk_roundtrip e j nc (combine objs vss) (E2 ++ rest) Hall) as R.
  rewrite (map_fst_combine objs vss Hlen) in R. apply R.
  rewrite <- (map_map fst so_path), map_fst_combine by exact Hlen. exact Hnd.
Qed.

(* ---- ... and so does [sizes_real]; hence the theorem on serialised contiguous segments -------------------------------------------- *)
Lemma sizes_real_encoded e ci nc path : forall (ovs : list (sobj * list bytes)) rest,
    Forall (fun ov => vals_ok (so_nvals (fst ov)) (fst ov) (snd ov)) ovs ->
    Forall (fun ov => dsize_ok e (fst ov) (snd ov)) ovs ->
    Forall (fun ov => decode_neutral (fst ov) (snd ov)) ovs ->
    sizes_real e (map fst ovs) ci nc None path (enc_chunk e ovs ++ rest).
Proof.
  induction ovs as [|[o vs] ovs IH]; intros rest H1 H2 H3; cbn [map fst sizes_real]; [exact I|].
  inversion H1 as [|? ? Hv H1']; subst. inversion H2 as [|? ? Hd H2']; subst. inversion H3 as [|? ? Hn H3']; subst.
  cbn [fst snd] in Hv, Hd, Hn. unfold chunk_nvals.
  change (enc_chunk e ((o, vs) :: ovs)) with (enc_obj e o vs ++ enc_chunk e ovs)%list. rewrite <- app_assoc.
  rewrite (read_values_roundtrip e o (so_nvals o) vs _ Hv).
  destruct (bytes_eqb (so_path o) path); [exact Hn|].
  exists (so_dsize o). unfold skip_bytes. rewrite Z.eqb_refl. split; [reflexivity|].
  unfold dsize_ok in Hd. rewrite Hd. split; [rewrite blen_app; pose proof (blen_nonneg (enc_obj e o vs)); pose proof (blen_nonneg (enc_chunk e ovs ++ rest)); lia|].
  split; [rewrite drop_app_exact; reflexivity|]. apply IH; assumption.
Qed.

Lemma encoded_chunk_at e objs pre css rest (j : nat) vss :
  nth_error css j = Some vss -> Forall (Forall2 (dsize_ok e) objs) css ->
  exists tail, drop (blen pre + zsum (map so_dsize objs) * Z.of_nat j) (pre ++ enc_chunks e objs css ++ rest)
               = (enc_chunk e (combine objs vss) ++ tail)%list.
Proof.
  intros En Hds. apply nth_error_split in En. destruct En as [l1 [l2 [-> Hl1]]].
  apply Forall_app in Hds. destruct Hds as [Hds1 _].
  exists (enc_chunks e objs l2 ++ rest)%list.
  assert (Hdata : (pre ++ enc_chunks e objs (l1 ++ vss :: l2) ++ rest
                   = (pre ++ enc_chunks e objs l1) ++ enc_chunk e (combine objs vss) ++ (enc_chunks e objs l2 ++ rest))%list).
  { rewrite enc_chunks_app. change (enc_chunks e objs (vss :: l2)) with (enc_chunk e (combine objs vss) ++ enc_chunks e objs l2)%list.
    rewrite <- !app_assoc. reflexivity. }
  rewrite Hdata.
  assert (B1 : blen (pre ++ enc_chunks e objs l1) = blen pre + zsum (map so_dsize objs) * Z.of_nat j).
  { rewrite blen_app. rewrite enc_chunks_blen by exact Hds1. rewrite Hl1. ring. }
  rewrite <- B1, drop_app_exact. reflexivity.
Qed.

Lemma vals_ok_nonneg objs vss :
  Forall2 (fun o vs => vals_ok (so_nvals o) o vs) objs vss -> Forall (fun o => 0 <= so_nvals o) objs.
Proof. induction 1 as [|o vs l l' [Ho _] _ IH]; constructor; [lia|exact IH]. Qed.

Theorem contig_read_raw_data_for_channel_serialised sg pre css rest p0 path co nc sv :
  let e := toc_endian (sg_toc sg) in
  let objs := data_objs (sg_objs sg) in
  let cs := zsum (map so_dsize objs) in
  let data := (pre ++ enc_chunks e objs css ++ rest)%list in
  let stop := match nc with None => sg_nchunks sg | Some n => n + co end in
  seg_layout sg = Ok LContig -> get_chunk_size_gen sg = Ok cs -> 0 <= cs ->
  sg_data sg = blen pre -> sg_nchunks sg = Z.of_nat (length css) -> sg_final sg = None ->
  0 <= co -> Forall obj_ok objs -> NoDup (map so_path objs) ->
  Forall (fun vss => Forall2 (fun o vs => vals_ok (so_nvals o) o vs) objs vss) css ->
  Forall (Forall2 (dsize_ok e) objs) css ->
  Forall (Forall2 decode_neutral objs) css ->
  segv_of data path sg = Ok sv -> sv_chunk sv <> 0 -> stop <= sg_nchunks sg ->
  mapr (fun p => (chunks_values (fst p), pf_data (snd p), pf_pos (snd p)))
       (segment_read_raw_data_for_channel_gen sg (mkPf data p0) path co nc)
  = mapr (fun vss => (Some ((if toc_has (sg_toc sg) TOC_RAW then [] else [[]]) ++ vss), data,
                      if stop <=? co then sg_data sg + cs * co else sg_data sg + cs * stop))
         (seg_fetch bytes sv co (match nc with None => sg_nchunks sg - co | Some n => n end)).
Proof.
  intros e objs cs data stop Hlay Hcs Hcs0 HD Hn Hfin Hco Hok Hnd Hvals Hds Hdn Hsv Hne Hstop.
  apply (contig_read_raw_data_for_channel_view sg data p0 path co nc cs sv Hlay Hcs ltac:(rewrite HD; apply blen_nonneg) Hcs0 Hco Hok);
    try assumption.
  - intros ci Hci. fold stop in Hci. rewrite Hfin, HD.
    destruct (nth_error css (Z.to_nat ci)) as [vss|] eqn:En; [|apply nth_error_None in En; exfalso; lia].
    pose proof (proj1 (Forall_forall _ _) Hvals vss (nth_error_In _ _ En)) as Hv.
    pose proof (proj1 (Forall_forall _ _) Hds vss (nth_error_In _ _ En)) as Hd.
    pose proof (proj1 (Forall_forall _ _) Hdn vss (nth_error_In _ _ En)) as Hu.
    destruct (Forall2_combine _ _ _ Hv) as [Hv' Hlen]. destruct (Forall2_combine _ _ _ Hd) as [Hd' _].
    destruct (Forall2_combine _ _ _ Hu) as [Hu' _].
    split.
    + unfold chunk_nvals. exact (vals_ok_nonneg _ _ Hv).
    + destruct (encoded_chunk_at e objs pre css rest (Z.to_nat ci) vss En Hds) as [tail Ht].
      rewrite Z2Nat.id in Ht by lia. fold cs in Ht. fold data in Ht. rewrite Ht.
      pose proof (sizes_real_encoded e ci (sg_nchunks sg) path (combine objs vss) tail Hv' Hd' Hu') as R.
      rewrite (map_fst_combine objs vss Hlen) in R. exact R.
  - rewrite Hfin, HD. apply chunks_aligned_encoded; try assumption. fold stop. lia.
Qed.

(* ---- the same for the k-th segment of a serialised FILE, in the vocabulary of Proofs/ReadCorrect.v: the segment record g is
   what the metadata pass builds for the syntactic segment s at offset |pre0| (seg_at), and s's raw data are encoded chunks ------ *)
Theorem contig_read_raw_data_for_channel_seg_at g s pre0 css rest p0 path co nc sv :
  let e := toc_endian (sg_toc g) in
  let objs := data_objs (sg_objs g) in
  let cs := zsum (map so_dsize objs) in
  let data := (pre0 ++ ser_seg TAG_DATA true s ++ rest)%list in
  let stop := match nc with None => sg_nchunks g | Some n => n + co end in
  FileSynProofs.wf_fseg s = true -> seg_at (blen pre0) s g ->
  seg_layout g = Ok LContig -> get_chunk_size_gen g = Ok cs -> 0 < cs ->
  fs_data s = enc_chunks e objs css ->
  0 <= co -> Forall obj_ok objs -> NoDup (map so_path objs) ->
  Forall (fun vss => Forall2 (fun o vs => vals_ok (so_nvals o) o vs) objs vss) css ->
  Forall (Forall2 (dsize_ok e) objs) css ->
  Forall (Forall2 decode_neutral objs) css ->
  segv_of data path g = Ok sv -> sv_chunk sv <> 0 -> stop <= sg_nchunks g ->
  mapr (fun p => (chunks_values (fst p), pf_data (snd p), pf_pos (snd p)))
       (segment_read_raw_data_for_channel_gen g (mkPf data p0) path co nc)
  = mapr (fun vss => (Some ((if toc_has (sg_toc g) TOC_RAW then [] else [[]]) ++ vss), data,
                      if stop <=? co then sg_data g + cs * co else sg_data g + cs * stop))
         (seg_fetch bytes sv co (match nc with None => sg_nchunks g - co | Some n => n end)).
Proof.
  intros e objs cs data stop Hwf Hat Hlay Hcs Hcs0 Hfs Hco Hok Hnd Hvals Hds Hdn Hsv Hne Hstop.
  destruct Hat as (_ & _ & HD & _ & _ & Hcc).
  assert (Hlen : blen (fs_data s) = Z.of_nat (length css) * cs).
  { rewrite Hfs. apply enc_chunks_blen. exact Hds. }
  rewrite Hlen in Hcc.
  rewrite (calculate_chunks_exact _ _ _ cs (Z.of_nat (length css)) (seg_layout_contig_chunk_size g Hlay) Hcs0 ltac:(lia)) in Hcc.
  injection Hcc as Hn Hfin.
  set (pre := (pre0 ++ ser_leadin (seg_leadin TAG_DATA s) ++ fs_meta_bytes s)%list).
  assert (Hdata : data = (pre ++ enc_chunks e objs css ++ rest)%list).
  { unfold data, pre. rewrite FileSynProofs.ser_seg_eq, Hfs. rewrite <- !app_assoc. reflexivity. }
  assert (Hpre : sg_data g = blen pre).
  { unfold pre. rewrite !blen_app. pose proof (ser_leadin_length _ (FileSynProofs.wf_seg_leadin false s Hwf)) as HL.
    change (FileSynProofs.tag_of false) with TAG_DATA in HL. rewrite HL. lia. }
  clearbody data. subst data.
  exact (contig_read_raw_data_for_channel_serialised g pre css rest p0 path co nc sv Hlay Hcs (Z.lt_le_incl _ _ Hcs0) Hpre (eq_sym Hn) (eq_sym Hfin)
           Hco Hok Hnd Hvals Hds Hdn Hsv Hne Hstop).
Qed.

(* ==== (b) INTERLEAVED segments: a request [co, stop) against split_chunks of the whole column ================================== *)

(* rows: the window of whole rows *)
Lemma items_drop w : 0 < w -> forall (j : nat) buf, w * Z.of_nat j <= blen buf ->
    items w (drop (w * Z.of_nat j) buf) = skipn j (items w buf).
Proof.
  intros Hw. induction j as [|j IH]; intros buf Hj.
  - rewrite drop_neg by lia. reflexivity.
  - rewrite (items_step w buf) by lia. cbn [skipn].
    rewrite <- IH by (rewrite DaqmxProofs.blen_drop by lia; lia).
    rewrite DaqmxProofs.drop_drop by lia. f_equal. f_equal. lia.
Qed.

Lemma items_take w : 0 < w -> forall (k : nat) buf, w * Z.of_nat k <= blen buf ->
    items w (take (w * Z.of_nat k) buf) = firstn k (items w buf).
Proof.
  intros Hw. induction k as [|k IH]; intros buf Hk.
  - rewrite take_neg by lia. rewrite items_small by (unfold blen; cbn [length]; lia). reflexivity.
  - rewrite (items_step w buf) by lia. cbn [firstn].
    rewrite (items_step w (take (w * Z.of_nat (S k)) buf)) by (try rewrite DaqmxProofs.blen_take by lia; lia).
    rewrite DaqmxProofs.take_take, DaqmxProofs.drop_take by lia.
    replace (Z.min w (w * Z.of_nat (S k))) with w by lia.
    replace (w * Z.of_nat (S k) - w) with (w * Z.of_nat k) by lia.
    rewrite IH by (rewrite DaqmxProofs.blen_drop by lia; lia). reflexivity.
Qed.

Lemma rows_window w (N j k : nat) buf : 0 < w -> (j + k <= N)%nat -> w * Z.of_nat (j + k) <= blen buf ->
  items w (take (w * Z.of_nat k) (drop (w * Z.of_nat j) buf))
  = firstn k (skipn j (items w (take (w * Z.of_nat N) buf))).
Proof.
  intros Hw HN Hb.
  assert (H1 : w * Z.of_nat (j + k) <= w * Z.of_nat N) by nia.
  assert (H2 : w * Z.of_nat (j + k) = w * Z.of_nat j + w * Z.of_nat k) by nia.
  assert (H3 : 0 <= w * Z.of_nat j) by nia. assert (H4 : 0 <= w * Z.of_nat k) by nia.
  rewrite <- items_drop by (try rewrite DaqmxProofs.blen_take by lia; lia).
  rewrite <- items_take by (try (rewrite DaqmxProofs.blen_drop by lia; rewrite DaqmxProofs.blen_take by lia); lia).
  rewrite DaqmxProofs.drop_take by lia. rewrite DaqmxProofs.take_take. do 2 f_equal. lia.
Qed.

(* columns: a map over the rows, so the window of the rows gives the window of every column *)
Definition win {A} (a b : nat) (l : list A) : list A := firstn a (skipn b l).

Lemma column_values_win e dt rows off sz a b :
  column_values e dt (win a b rows) off sz = win a b (column_values e dt rows off sz).
Proof. unfold column_values, win. rewrite skipn_map, firstn_map. reflexivity. Qed.

Lemma chunk_vals_aset p k v (acc : chunk) :
  chunk_vals p (aset k (CData v) acc) = if bytes_eqb p k then v else chunk_vals p acc.
Proof. unfold chunk_vals. rewrite alookup_aset. destruct (bytes_eqb p k); reflexivity. Qed.

Lemma interleaved_columns_window e a b : forall objs rows pos acc acc' c,
    interleaved_columns e objs rows pos acc = Ok c ->
    (forall p, chunk_vals p acc' = win a b (chunk_vals p acc)) ->
    exists c', interleaved_columns e objs (win a b rows) pos acc' = Ok c'
               /\ forall p, chunk_vals p c' = win a b (chunk_vals p c).
Proof.
  induction objs as [|o objs IH]; intros rows pos acc acc' c H Hacc; cbn [interleaved_columns] in *.
  - injection H as <-. exists acc'. split; [reflexivity|exact Hacc].
  - destruct (so_dtype o) as [dt|]; [|discriminate]. destruct (sized o) as [sz|]; [|discriminate].
    apply (IH _ _ _ _ _ H). intros p. rewrite !chunk_vals_aset, column_values_win.
    destruct (bytes_eqb p (so_path o)); [reflexivity|apply Hacc].
Qed.

(* reading m chunks' worth of rows at chunk j = the window of reading all n chunks' worth at chunk 0 *)
Lemma read_interleaved_window e objs o0 n m j (buf : bytes) c rest :
  hd_error objs = Some o0 -> Forall (fun o => sized o <> None) objs ->
  0 <= so_nvals o0 -> 0 <= j -> 0 <= m -> j + m <= n ->
  zsum (map size_or0 objs) * so_nvals o0 * (j + m) <= blen buf ->
  read_interleaved e objs n buf = Ok ([c], rest) ->
  exists c' rest', read_interleaved e objs m (drop (zsum (map size_or0 objs) * so_nvals o0 * j) buf) = Ok ([c'], rest')
                   /\ forall p, chunk_vals p c' = win (Z.to_nat (so_nvals o0 * m)) (Z.to_nat (so_nvals o0 * j)) (chunk_vals p c).
Proof.
  intros Hhd Hsz Hnv Hj Hm Hjm Hlen H.
  destruct objs as [|o objs']; [discriminate|]. cbn [hd_error] in Hhd. injection Hhd as ->.
  assert (Hw : 0 < zsum (map size_or0 (o0 :: objs'))) by (apply width_pos; [discriminate|exact Hsz]).
  unfold read_interleaved in *.
  destruct (negb (forallb (fun o => so_nvals o =? so_nvals o0) (o0 :: objs'))); [discriminate|].
  change (zsum (map (fun o => match sized o with Some s => s | None => 0 end) (o0 :: objs')))
    with (zsum (map size_or0 (o0 :: objs'))) in *.
  set (w := zsum (map size_or0 (o0 :: objs'))) in *. set (nv := so_nvals o0) in *.
  unfold read_rows, get_raw in *.
  destruct (interleaved_columns e (o0 :: objs') (items w (take (w * (nv * n)) buf)) 0 []) as [c0|] eqn:Ec; cbn [bind] in H; [|discriminate].
  injection H as -> _.
  assert (Hrows : items w (take (w * (nv * m)) (drop (w * nv * j) buf))
                  = win (Z.to_nat (nv * m)) (Z.to_nat (nv * j)) (items w (take (w * (nv * n)) buf))).
  { unfold win. pose proof (rows_window w (Z.to_nat (nv * n)) (Z.to_nat (nv * j)) (Z.to_nat (nv * m)) buf Hw ltac:(nia) ltac:(nia)) as R.
    rewrite !Z2Nat.id in R by nia. replace (w * nv * j) with (w * (nv * j)) by ring. exact R. }
  rewrite Hrows.
  destruct (interleaved_columns_window e (Z.to_nat (nv * m)) (Z.to_nat (nv * j)) _ _ _ _ [] _ Ec) as [c' [H1 H2]].
  { intros p. unfold win, chunk_vals. cbn [alookup]. rewrite skipn_nil, firstn_nil. reflexivity. }
  rewrite H1. cbn [bind]. eexists. eexists. split; [reflexivity|exact H2].
Qed.

(* split_chunks: entry k is the k-th window of K values; consecutive entries concatenate to one window *)
Lemma split_chunks_entry (K : nat) : (0 < K)%nat -> forall (k : nat) fuel (col : list bytes),
    (length col < fuel)%nat ->
    match nth_error (split_chunks fuel (Z.of_nat K) col) k with Some x => x | None => [] end = firstn K (skipn (K * k) col).
Proof.
  intros HK. induction k as [|k IH]; intros fuel col Hf; (destruct fuel as [|f]; [lia|]);
    (destruct col as [|v col'] eqn:Ecol;
     [cbn [split_chunks]; rewrite skipn_nil, firstn_nil; reflexivity|]); rewrite <- Ecol in *;
    assert (Hs : split_chunks (S f) (Z.of_nat K) col
                 = firstn K col :: split_chunks f (Z.of_nat K) (skipn K col))
      by (rewrite Ecol; cbn [split_chunks]; rewrite Nat2Z.id; reflexivity);
    rewrite Hs; cbn [nth_error].
  - rewrite Nat.mul_0_r. reflexivity.
  - rewrite IH by (rewrite skipn_length; rewrite Ecol in *; cbn [length] in *; lia). rewrite skipn_skipn'. do 2 f_equal. nia.
Qed.

Lemma firstn_add {A} (a b : nat) : forall l : list A, firstn (a + b) l = firstn a l ++ firstn b (skipn a l).
Proof. induction a as [|a IH]; intros l; [reflexivity|]. destruct l as [|x l]; cbn [Nat.add firstn skipn app]; [rewrite firstn_nil; reflexivity|]. rewrite IH. reflexivity. Qed.

Lemma concat_windows (K J : nat) (col : list bytes) : forall M s,
    concat (map (fun k : nat => firstn K (skipn (K * (J + k)) col)) (seq s M)) = firstn (K * M) (skipn (K * (J + s)) col).
Proof.
  induction M as [|M IH]; intros s; cbn [seq map concat]; [rewrite Nat.mul_0_r; reflexivity|].
  rewrite IH. replace (K * S M)%nat with (K + K * M)%nat by lia. rewrite firstn_add, skipn_skipn'. do 3 f_equal. lia.
Qed.

Lemma segv_of_interleaved data path s sv :
  segv_of data path s = Ok sv -> sv_chunk sv <> 0 -> seg_layout s = Ok LInterleaved ->
  exists o cs0 rest,
    LazyBytes.segment_object s path = Some o /\ so_has_data o = true /\ sv_chunk sv = so_nvals o /\
    read_interleaved (toc_endian (sg_toc s)) (data_objs (sg_objs s)) (sg_nchunks s) (drop (sg_data s) data) = Ok (cs0, rest) /\
    sv_interleaved sv = true /\ sv_nchunks sv = sg_nchunks s /\
    sv_vals sv = fit_chunks (Z.to_nat (sg_nchunks s))
                   (split_chunks (S (length (flat_map (chunk_vals path) cs0))) (so_nvals o) (flat_map (chunk_vals path) cs0)).
Proof.
  intros H Hne Hlay. unfold segv_of in H. cbv zeta in H.
  destruct (LazyBytes.segment_object s path) as [o|] eqn:Eo; [|cbn [Z.eqb] in H; injection H as <-; cbn [sv_chunk] in Hne; lia].
  destruct (so_has_data o) eqn:Ed; [|cbn [Z.eqb] in H; injection H as <-; cbn [sv_chunk] in Hne; lia].
  destruct (so_nvals o =? 0) eqn:En; [injection H as <-; cbn [sv_chunk] in Hne; lia|].
  rewrite Hlay in H. cbn [bind] in H. unfold read_segment in H.
  destruct (negb (bytes_eqb (read_at (sg_pos s) 4 data) TAG_DATA)); [discriminate|].
  unfold read_segment_chunks in H. rewrite Hlay in H. cbn [bind] in H.
  destruct (read_interleaved (toc_endian (sg_toc s)) (data_objs (sg_objs s)) (sg_nchunks s) (drop (sg_data s) data)) as [[cs0 rest]|] eqn:E;
    cbn [bind] in H; [|discriminate].
  injection H as <-. exists o, cs0, rest. cbn [sv_interleaved sv_nchunks sv_vals sv_chunk]. repeat split; first [reflexivity|exact Ed].
Qed.

Lemma segment_object_in s path o : LazyBytes.segment_object s path = Some o -> so_has_data o = true -> In o (data_objs (sg_objs s)).
Proof.
  unfold LazyBytes.segment_object, data_objs. intros H Hd. destruct (alookup path (sg_index s)) as [i|]; [|discriminate].
  apply filter_In. split; [exact (nth_error_In _ _ H)|exact Hd].
Qed.

Lemma read_interleaved_shape e objs o0 n buf cs0 rest :
  read_interleaved e objs n buf = Ok (cs0, rest) -> hd_error objs = Some o0 ->
  (exists c, cs0 = [c]) /\ forall o, In o objs -> so_nvals o = so_nvals o0.
Proof.
  intros H Hhd. destruct objs as [|o1 objs']; [discriminate|]. cbn [hd_error] in Hhd. injection Hhd as ->.
  unfold read_interleaved in H.
  destruct (forallb (fun o => so_nvals o =? so_nvals o0) (o0 :: objs')) eqn:Ef; cbn [negb] in H; [|discriminate].
  destruct (read_rows _ _ buf) as [rows rest1]. destruct (interleaved_columns e _ rows 0 []) as [c|]; cbn [bind] in H; [|discriminate].
  injection H as <- _. split; [exists c; reflexivity|]. intros o Ho. rewrite forallb_forall in Ef. specialize (Ef o Ho). lia.
Qed.

Lemma mapM_ok_in {A B} (f : A -> res B) (g : A -> B) l : (forall x, In x l -> f x = Ok (g x)) -> mapM f l = Ok (map g l).
Proof. intros H. rewrite (mapM_ext_in f (fun x => Ok (g x)) l H). apply mapM_total. intros a. reflexivity. Qed.

(* (b): TdmsSegment.read_raw_data_for_channel on an INTERLEAVED segment, any chunk offset = seg_fetch on the model's view *)
Theorem interleaved_read_raw_data_for_channel_view sg data p0 path co nc cs sv :
  seg_layout sg = Ok LInterleaved -> get_chunk_size_gen sg = Ok cs ->
  0 <= sg_data sg -> 0 <= co ->
  let e := toc_endian (sg_toc sg) in
  let objs := data_objs (sg_objs sg) in
  let stop := match nc with None => sg_nchunks sg | Some n => n + co end in
  Forall (fun o => sized o <> None) objs ->
  segv_of data path sg = Ok sv -> 0 < sv_chunk sv ->
  cs = zsum (map size_or0 objs) * sv_chunk sv ->
  co <= stop -> stop <= sg_nchunks sg ->
  sg_data sg + cs * stop <= blen data ->
  mapr (fun p => (chunks_values (fst p), pf_data (snd p), pf_pos (snd p)))
       (segment_read_raw_data_for_channel_gen sg (mkPf data p0) path co nc)
  = mapr (fun vss => (Some ((if toc_has (sg_toc sg) TOC_RAW then [] else [[]]) ++ vss), data, sg_data sg + cs * co + cs))
         (seg_fetch bytes sv co (match nc with None => sg_nchunks sg - co | Some n => n end)).
Proof.
  intros Hlay Hcs Hd Hco e objs stop Hsz Hsv Hpos Hcseq Hcs1 Hcs2 Hlen.
  destruct (segv_of_interleaved data path sg sv Hsv ltac:(lia) Hlay) as [o [cs0 [rest0 [Ho [Hod [Hnv [Hri [Hil [Hn Hvals]]]]]]]]].
  pose proof (segment_object_in sg path o Ho Hod) as Hin. fold objs in Hin, Hri. fold e in Hri.
  assert (Hhd : exists o0, hd_error objs = Some o0).
  { unfold objs in *. destruct (data_objs (sg_objs sg)); [destruct Hin|eexists; reflexivity]. }
  destruct Hhd as [o0 Hhd].
  destruct (read_interleaved_shape e objs o0 _ _ cs0 rest0 Hri Hhd) as [[c ->] Hall].
  assert (Hnv0 : so_nvals o0 = sv_chunk sv) by (rewrite Hnv; symmetry; apply Hall; exact Hin).
  assert (Hw : 0 < zsum (map size_or0 objs)).
  { apply width_pos; [intros E; rewrite E in Hhd; discriminate|exact Hsz]. }
  set (w := zsum (map size_or0 objs)) in *.
  assert (Hcs0 : 0 <= cs) by nia.
  assert (Hcsst : 0 <= cs * stop) by nia. assert (Hcsco : 0 <= cs * co) by nia.
  destruct (read_interleaved_window e objs o0 (sg_nchunks sg) (stop - co) co (drop (sg_data sg) data) c rest0 Hhd Hsz
                                    ltac:(lia) Hco ltac:(lia) ltac:(lia)) as [c' [rest' [Hreq Hwin]]]; [|exact Hri|].
  { fold w. rewrite Hnv0, <- Hcseq. replace (co + (stop - co)) with stop by lia. rewrite DaqmxProofs.blen_drop by lia. lia. }
  fold w in Hreq. rewrite Hnv0, <- Hcseq in Hreq. rewrite DaqmxProofs.drop_drop in Hreq by lia.
  (* the translated side *)
  rewrite segment_read_raw_data_for_channel_eq by exact Hd. rewrite Hcs. cbn [bind pf_data]. cbv zeta.
  assert (Hp : (if co >? 0 then sg_data sg + cs * co else sg_data sg) = sg_data sg + cs * co).
  { destruct (co >? 0) eqn:E; [reflexivity|]. assert (co = 0) by lia. subst co. lia. }
  rewrite Hp. assert (E : (sg_data sg + cs * co <? 0) = false) by lia. rewrite E.
  pose proof (interleaved_read_channel_data_chunks_segment_eq sg objs path data (sg_data sg + cs * co) co stop cs Hlay ltac:(lia) Hcs0 Hsz
                ltac:(intros o1 H1; rewrite Hhd in H1; injection H1 as <-; nia)) as H.
  fold e in H. rewrite Hreq in H. cbn [mapr fst snd map] in H.
  fold objs stop.
  destruct (segment_read_channel_data_chunks_gen sg (mkPf data (sg_data sg + cs * co)) objs path co stop cs) as [[l f']|er];
    cbn [mapr bind fst snd] in *; [|discriminate].
  injection H as Hl Hdt Hp'. rewrite Hdt, Hp'.
  (* the model side *)
  unfold seg_fetch. rewrite Hil.
  replace ((match nc with None => sg_nchunks sg - co | Some n => n end) + co) with stop by (unfold stop; destruct nc; lia).
  assert (E2 : (sv_chunk sv * (stop - co) <? 0) = false) by nia. rewrite E2.
  remember (Z.to_nat (sv_chunk sv)) as K eqn:EK. assert (HK : sv_chunk sv = Z.of_nat K) by lia.
  assert (Hm : mapM (chunk_at bytes sv) (zrange co stop)
               = Ok (map (fun ci => firstn K (skipn (K * Z.to_nat ci) (chunk_vals path c))) (zrange co stop))).
  { apply mapM_ok_in. intros ci Hci. change (zrange co stop) with (py_range co stop) in Hci. apply py_range_in in Hci.
    unfold chunk_at. rewrite Hn. assert (E3 : (0 <=? ci) && (ci <? sg_nchunks sg) = true) by lia. rewrite E3.
    rewrite Hvals, fit_chunks_nth by lia. cbn [flat_map]. rewrite app_nil_r. rewrite <- Hnv, HK.
    rewrite split_chunks_entry by lia. reflexivity. }
  rewrite Hm. cbn [bind mapr].
  assert (Hv : chunks_values (empty_channel_chunks (sg_toc sg) ++ l)
               = Some ((if toc_has (sg_toc sg) TOC_RAW then [] else [[]]) ++ [chunk_vals path c'])).
  { unfold empty_channel_chunks. destruct (toc_has (sg_toc sg) TOC_RAW); cbn [app]; [exact Hl|].
    unfold chunks_values in *. cbn [map opt_all]. rewrite Hl. reflexivity. }
  rewrite Hv. f_equal. f_equal; [|destruct cs; reflexivity].
  assert (HAB : chunk_vals path c'
                = concat (map (fun ci => firstn K (skipn (K * Z.to_nat ci) (chunk_vals path c))) (zrange co stop))).
  { rewrite Hwin. unfold win, zrange. rewrite map_map.
    rewrite (map_ext _ (fun k : nat => firstn K (skipn (K * (Z.to_nat co + k)) (chunk_vals path c))))
      by (intros k; do 3 f_equal; lia).
    rewrite concat_windows, Nat.add_0_r, Hnv0, HK.
    rewrite !Z2Nat.inj_mul, !Nat2Z.id by lia. reflexivity. }
  rewrite HAB. reflexivity.
Qed.

(* ==== (c) DAQmx segments: the loop with its re-seeks, every chunk read whole at its arithmetic position ====================== *)

(* the channel's entry of a chunk: Some None = no entry (RawChannelDataChunk.empty()), Some (Some x) = data / scaler dictionary *)
Definition chan_entry (r : rcdc) : option (option cdata) :=
  match rc_data r, rc_scaler_data r with
  | None, None => Some None
  | _, _ => match rcdc_cdata_dq r with Some x => Some (Some x) | None => None end
  end.
Definition chunks_entries (l : list rcdc) : option (list (option cdata)) := opt_all (map chan_entry l).

Lemma channel_of_chunk_entry rc c path :
  rawchunk_chunk_dq rc = Some c -> chan_entry (channel_of_chunk rc path) = Some (alookup path c).
Proof.
  unfold rawchunk_chunk_dq, channel_of_chunk. generalize (rdc_channel_data rc). intros l. revert c.
  induction l as [|[p v] r IH]; intros c H; cbn [entries_chunk_dq alookup] in *.
  - injection H as <-. reflexivity.
  - destruct (rcdc_cdata_dq v) as [x|] eqn:Ex; [|discriminate]. destruct (entries_chunk_dq r) as [c'|]; [|discriminate].
    injection H as <-. cbn [alookup]. destruct (bytes_eqb path p); [|exact (IH c' eq_refl)].
    unfold chan_entry. rewrite Ex. unfold rcdc_cdata_dq in Ex.
    destruct (rc_data v), (rc_scaler_data v); try reflexivity; discriminate.
Qed.

Lemma chunks_entries_snoc l x vs v :
  chunks_entries l = Some vs -> chan_entry x = Some v -> chunks_entries (l ++ [x]) = Some (vs ++ [v]).
Proof.
  unfold chunks_entries. revert vs. induction l as [|y l IH]; intros vs Hl Hx; cbn [app map opt_all] in *.
  - injection Hl as <-. rewrite Hx. reflexivity.
  - destruct (chan_entry y); [|discriminate]. destruct (opt_all (map chan_entry l)) as [r|]; [|discriminate].
    injection Hl as <-. rewrite (IH r eq_refl Hx). reflexivity.
Qed.

(* the model's entry for the channel when the chunk is decoded (whole) at [pos] *)
Definition dq_chunk_view (e : endian) (objs : list sobj) (path data : bytes) (pos : Z) : res (option cdata) :=
  do '(c, _) <- read_daqmx_chunk e objs (drop pos data); Ok (alookup path c).

Fixpoint dq_pos_chunks (e : endian) (objs : list sobj) (path data : bytes) (init cs : Z) (cis : list Z) (i : Z)
  : res (list (option cdata)) :=
  match cis with
  | [] => Ok []
  | ci :: r =>
    do v <- dq_chunk_view e objs path data (init + i * cs);
    do rest <- dq_pos_chunks e objs path data init cs r (i + 1);
    Ok (v :: rest)
  end.

Lemma daqmx_lazy_loop_eq sg objs path data init cs : forall cis i ys ysa pos,
    0 <= init -> 0 <= cs -> 0 <= i -> daqmx_objs_ok objs ->
    chunks_entries ys = Some ysa -> pos = init + i * cs ->
    mapr (fun p => (chunks_entries (fst p), pf_data (snd p), pf_pos (snd p)))
         (segment_read_channel_data_chunks_lazy_gen_loop1 objs path (reader_of sg LDaqmx) init cs cis i ys (mkPf data pos))
    = mapr (fun vs => (Some (ysa ++ vs), data, match cis with [] => pos | _ => init + (i + zlen cis) * cs end))
           (dq_pos_chunks (toc_endian (sg_toc sg)) objs path data init cs cis i).
Proof.
  induction cis as [|ci cis IH]; intros i ys ysa pos Hi Hcs Hi0 Hok Hys ->;
    cbn [segment_read_channel_data_chunks_lazy_gen_loop1 dq_pos_chunks].
  - cbn [mapr fst snd pf_data pf_pos]. rewrite Hys, app_nil_r. reflexivity.
  - rewrite reader_chunk_daqmx. unfold pf_run. cbn [pf_data pf_pos]. rewrite daqmx_read_channel_data_chunk_eq.
    pose proof (daqmx_read_data_chunk_eq (toc_endian (sg_toc sg)) objs (drop (init + i * cs) data) ci Hok) as Hs.
    unfold dq_chunk_view.
    destruct (daqmx_read_data_chunk_gen (toc_endian (sg_toc sg)) (drop (init + i * cs) data) objs ci) as [[rc cur']|er];
      destruct (read_daqmx_chunk (toc_endian (sg_toc sg)) objs (drop (init + i * cs) data)) as [[c cur1]|er'];
      cbn [mapr fst snd bind] in *; try discriminate.
    + injection Hs as Hrc _.
      unfold pf_seek. assert (E : (init + (i + 1) * cs <? 0) = false) by nia. rewrite E. cbn [bind pf_data].
      assert (Hsn : chunks_entries (ys ++ [channel_of_chunk rc path]) = Some (ysa ++ [alookup path c])).
      { apply chunks_entries_snoc; [assumption|apply channel_of_chunk_entry; exact Hrc]. }
      rewrite (IH (i + 1) (ys ++ [channel_of_chunk rc path]) (ysa ++ [alookup path c]) (init + (i + 1) * cs) Hi Hcs ltac:(lia) Hok Hsn eq_refl).
      destruct (dq_pos_chunks (toc_endian (sg_toc sg)) objs path data init cs cis (i + 1)) as [rest|er2];
        cbn [mapr bind]; [|reflexivity].
      rewrite <- app_assoc. cbn [app]. f_equal. f_equal.
      destruct cis as [|c2 cis']; unfold zlen; cbn [length]; [lia|]. f_equal. lia.
    + injection Hs as ->. reflexivity.
Qed.

Lemma dq_pos_chunks_range e objs path data D cs co : forall (n : nat) i stop,
    Z.to_nat (stop - (co + i)) = n -> 0 <= i ->
    dq_pos_chunks e objs path data (D + cs * co) cs (py_range (co + i) stop) i
    = mapM (fun ci => dq_chunk_view e objs path data (D + cs * ci)) (py_range (co + i) stop).
Proof.
  induction n as [|n IH]; intros i stop Hn Hi.
  - rewrite py_range_nil by lia. reflexivity.
  - rewrite py_range_cons by lia. cbn [dq_pos_chunks mapM].
    replace (D + cs * co + i * cs) with (D + cs * (co + i)) by ring.
    destruct (dq_chunk_view e objs path data (D + cs * (co + i))) as [vs|er]; cbn [bind]; [|reflexivity].
    replace (co + i + 1) with (co + (i + 1)) by lia. rewrite (IH (i + 1) stop) by lia. reflexivity.
Qed.

Theorem daqmx_read_channel_data_chunks_eq sg objs path data pos co stop cs :
  seg_layout sg = Ok LDaqmx -> 0 <= pos -> 0 <= cs -> daqmx_objs_ok objs ->
  mapr (fun p => (chunks_entries (fst p), pf_data (snd p), pf_pos (snd p)))
       (segment_read_channel_data_chunks_gen sg (mkPf data pos) objs path co stop cs)
  = mapr (fun vs => (Some vs, data, match py_range co stop with [] => pos | _ => pos + zlen (py_range co stop) * cs end))
         (dq_pos_chunks (toc_endian (sg_toc sg)) objs path data pos cs (py_range co stop) 0).
Proof.
  intros Hlay Hp Hcs Hok. rewrite segment_read_channel_data_chunks_dispatch, Hlay. cbn [bind].
  unfold segment_read_channel_data_chunks_lazy_gen. rewrite get_data_reader_eq, Hlay. cbn [mapr bind]. unfold pf_tell. cbn [pf_pos].
  pose proof (daqmx_lazy_loop_eq sg objs path data pos cs (py_range co stop) 0 [] [] pos Hp Hcs ltac:(lia) Hok eq_refl ltac:(lia)) as H.
  destruct (segment_read_channel_data_chunks_lazy_gen_loop1 objs path (reader_of sg LDaqmx) pos cs (py_range co stop) 0 [] (mkPf data pos))
    as [[ys f]|er]; cbn [bind mapr fst snd] in *; exact H.
Qed.

(* (c): TdmsSegment.read_raw_data_for_channel on a DAQmx segment: chunk ci of the request is the channel's entry of the chunk
   Model/Layout.v read_daqmx_chunk decodes at data_position + chunk_size * ci *)
Theorem daqmx_read_raw_data_for_channel_eq sg data p0 path co nc cs :
  seg_layout sg = Ok LDaqmx -> get_chunk_size_gen sg = Ok cs ->
  0 <= sg_data sg -> 0 <= cs -> 0 <= co ->
  daqmx_objs_ok (data_objs (sg_objs sg)) ->
  let e := toc_endian (sg_toc sg) in
  let objs := data_objs (sg_objs sg) in
  let stop := match nc with None => sg_nchunks sg | Some n => n + co end in
  mapr (fun p => (chunks_entries (fst p), pf_data (snd p), pf_pos (snd p)))
       (segment_read_raw_data_for_channel_gen sg (mkPf data p0) path co nc)
  = mapr (fun vs => (Some ((if toc_has (sg_toc sg) TOC_RAW then [] else [None]) ++ vs), data,
                     if stop <=? co then sg_data sg + cs * co else sg_data sg + cs * stop))
         (mapM (fun ci => dq_chunk_view e objs path data (sg_data sg + cs * ci)) (py_range co stop)).
Proof.
  intros Hlay Hcs Hd Hcs0 Hco Hok e objs stop.
  rewrite segment_read_raw_data_for_channel_eq by exact Hd. rewrite Hcs. cbn [bind pf_data]. cbv zeta.
  assert (Hpos : (if co >? 0 then sg_data sg + cs * co else sg_data sg) = sg_data sg + cs * co).
  { destruct (co >? 0) eqn:E; [reflexivity|]. assert (co = 0) by lia. subst co. lia. }
  rewrite Hpos. assert (E : (sg_data sg + cs * co <? 0) = false) by nia. rewrite E.
  pose proof (daqmx_read_channel_data_chunks_eq sg objs path data (sg_data sg + cs * co) co stop cs Hlay ltac:(nia) Hcs0 Hok) as H.
  pose proof (dq_pos_chunks_range e objs path data (sg_data sg) cs co (Z.to_nat (stop - (co + 0))) 0 stop eq_refl ltac:(lia)) as Hr.
  rewrite Z.add_0_r in Hr. fold e in H. rewrite Hr in H. fold objs. fold stop.
  destruct (segment_read_channel_data_chunks_gen sg (mkPf data (sg_data sg + cs * co)) objs path co stop cs) as [[l f']|er];
    destruct (mapM (fun ci => dq_chunk_view e objs path data (sg_data sg + cs * ci)) (py_range co stop))
    as [vss|er']; cbn [mapr bind fst snd] in *; try discriminate.
  - injection H as Hl Hdt Hp. rewrite Hdt, Hp.
    assert (Hv : chunks_entries (empty_channel_chunks (sg_toc sg) ++ l)
                 = Some ((if toc_has (sg_toc sg) TOC_RAW then [] else [None]) ++ vss)).
    { unfold empty_channel_chunks. destruct (toc_has (sg_toc sg) TOC_RAW); cbn [app]; [exact Hl|].
      unfold chunks_entries in *. cbn [map opt_all chan_entry rc_data rc_scaler_data]. rewrite Hl. reflexivity. }
    rewrite Hv. f_equal. f_equal.
    destruct (stop <=? co) eqn:Es.
    + rewrite py_range_nil by lia. reflexivity.
    + rewrite py_range_cons by lia. unfold zlen. rewrite <- py_range_cons by lia.
      assert (Hlen : Z.of_nat (length (py_range co stop)) = stop - co).
      { unfold py_range. rewrite map_length, seq_length. lia. }
      rewrite Hlen. ring.
  - injection H as ->. reflexivity.
Qed.

(* ... and chunk ci of the request is the channel's entry of the ci-th chunk the EAGER read_segment decodes, when the chunks
   before the last one of the request occupy chunk_size bytes each *)
Definition dq_chunks_aligned (e : endian) (objs : list sobj) (data : bytes) (D cs stop : Z) : Prop :=
  forall j, 0 <= j -> j + 1 < stop ->
            exists c, read_daqmx_chunk e objs (drop (D + cs * j) data) = Ok (c, drop (D + cs * (j + 1)) data).

Theorem dq_chunk_view_is_segment_entry s data path chunks cs stop ci :
  read_segment data s = Ok chunks -> seg_layout s = Ok LDaqmx ->
  dq_chunks_aligned (toc_endian (sg_toc s)) (data_objs (sg_objs s)) data (sg_data s) cs stop ->
  0 <= ci < stop -> stop <= sg_nchunks s ->
  exists c, nth_error chunks (Z.to_nat ci) = Some c /\
            dq_chunk_view (toc_endian (sg_toc s)) (data_objs (sg_objs s)) path data (sg_data s + cs * ci) = Ok (alookup path c).
Proof.
  intros H Hlay Hal Hci Hstop. unfold read_segment in H.
  destruct (negb (bytes_eqb (read_at (sg_pos s) 4 data) TAG_DATA)); [discriminate|].
  unfold read_segment_chunks in H. rewrite Hlay in H. cbn [bind] in H.
  match type of H with context [read_chunks_loop ?f ?rd ?a ?b ?c] => destruct (read_chunks_loop f rd a b c) as [[l rest]|] eqn:E end;
    cbn [bind] in H; [|discriminate].
  injection H as <-.
  destruct (chunks_loop_nth _ data (sg_data s) cs (sg_nchunks s) _ 0 _ l rest ci E
                            ltac:(f_equal; lia) ltac:(lia) ltac:(intros j Hj; apply Hal; lia)) as [c [r [Hrd Hnth]]].
  cbv beta in Hrd. exists c. replace (ci - 0) with ci in Hnth by lia. split; [exact Hnth|].
  unfold dq_chunk_view. rewrite Hrd. reflexivity.
Qed.

(* ---- example: the real file of Proofs/GenEagerEquiv.v opened WITH the object index (TdmsFile.open), string channel b,
   request [1, 2) of the contiguous segment --------------------------------------------------------------------------------------- *)
Section ExampleView.
Import String.
Local Open Scope string_scope.
Definition ex_st_ix := match rd_metadata ex_file false (Some (blen ex_file)) true with Ok st => st | Err _ => rstate0 end.
Definition ex_segx : segment := nth 0 (rs_segments ex_st_ix) (mkSeg 0 0 0 0 false [] [] 0 None).
Definition ex_path_b : bytes := hex "2f2767272f276227".
Definition ex_view_b : segv bytes :=
  match segv_of ex_file ex_path_b ex_segx with Ok sv => sv | Err _ => mk_segv 0 0 None false [] end.
Ltac vmc t := let v := eval vm_compute in t in change t with v.
Ltac sr_step := cbn [sizes_real];
  match goal with |- context [read_values ?e ?o ?n ?c] => vmc (read_values e o n c) end; cbv iota beta;
  match goal with |- context [bytes_eqb ?a ?b] => vmc (bytes_eqb a b) end; cbv iota.

Lemma ex_view_base_hyps :
  seg_layout ex_segx = Ok LContig /\ get_chunk_size_gen ex_segx = Ok 14 /\ Forall obj_ok (data_objs (sg_objs ex_segx)) /\
  (forall ci, 1 <= ci < sg_nchunks ex_segx ->
              Forall (fun o => 0 <= chunk_nvals o ci (sg_nchunks ex_segx) (sg_final ex_segx)) (data_objs (sg_objs ex_segx)) /\
              sizes_real (toc_endian (sg_toc ex_segx)) (data_objs (sg_objs ex_segx)) ci (sg_nchunks ex_segx) (sg_final ex_segx)
                         ex_path_b (drop (sg_data ex_segx + 14 * ci) ex_file)).
Proof.
  split; [vm_compute; reflexivity|]. split; [vm_compute; reflexivity|]. split.
  { vmc (data_objs (sg_objs ex_segx)). repeat (apply Forall_cons; [eexists; (split; [reflexivity|vm_compute; try exact I; reflexivity])|]). apply Forall_nil. }
  intros ci Hc. assert (En : sg_nchunks ex_segx = 2) by (vm_compute; reflexivity). rewrite En in Hc. assert (ci = 1) by lia. subst ci. split.
  { vmc (data_objs (sg_objs ex_segx)). repeat (apply Forall_cons; [vm_compute; discriminate|]). apply Forall_nil. }
  vmc (data_objs (sg_objs ex_segx)). vmc (toc_endian (sg_toc ex_segx)). vmc (sg_nchunks ex_segx). vmc (sg_final ex_segx).
  vmc (drop (sg_data ex_segx + 14 * 1) ex_file). unfold ex_path_b.
  sr_step. exists 8. split; [vm_compute; reflexivity|]. split; [vm_compute; split; discriminate|]. split; [vm_compute; reflexivity|].
  sr_step. intros _. apply Forall_cons; [vm_compute; reflexivity|apply Forall_nil].
Qed.

Lemma ex_view_hyps :
  segv_of ex_file ex_path_b ex_segx = Ok ex_view_b /\ sv_chunk ex_view_b <> 0 /\
  sv_vals ex_view_b = [[hex "6869"]; [hex "796f"]] /\
  NoDup (map so_path (data_objs (sg_objs ex_segx))) /\
  chunks_aligned (toc_endian (sg_toc ex_segx)) (data_objs (sg_objs ex_segx)) (sg_nchunks ex_segx) (sg_final ex_segx)
                 ex_file (sg_data ex_segx) 14 (sg_nchunks ex_segx) /\
  seg_fetch bytes ex_view_b 1 (sg_nchunks ex_segx - 1) = Ok [[hex "796f"]].
Proof.
  split; [vm_compute; reflexivity|]. split; [vm_compute; intros H; discriminate H|]. split; [vm_compute; reflexivity|]. split.
  { vm_compute. repeat constructor; cbn [In]; intuition discriminate. }
  split; [|vm_compute; reflexivity].
  intros j Hj0 Hj. assert (En : sg_nchunks ex_segx = 2) by (vm_compute; reflexivity). rewrite En in Hj.
  assert (j = 0) by lia. subst j. eexists. vm_compute. reflexivity.
Qed.

(* the theorem applied: the translated generator returns the model's seg_fetch (chunk "yo") and stops at 112 + 14 * 2 *)
Lemma ex_view_gen :
  mapr (fun p => (chunks_values (fst p), pf_data (snd p), pf_pos (snd p)))
       (segment_read_raw_data_for_channel_gen ex_segx (mkPf ex_file 7) ex_path_b 1 None)
  = Ok (Some [[hex "796f"]], ex_file, 140).
Proof.
  destruct ex_view_base_hyps as [H1 [H2 [H3 H4]]]. destruct ex_view_hyps as [G1 [G2 [_ [G4 [G5 G6]]]]].
  rewrite (contig_read_raw_data_for_channel_view ex_segx ex_file 7 ex_path_b 1 None 14 ex_view_b H1 H2
             ltac:(vm_compute; discriminate) ltac:(lia) ltac:(lia) H3 H4 G1 G2 G4 G5 (Z.le_refl _)).
  rewrite G6. vm_compute. reflexivity.
Qed.
End ExampleView.

(* ---- example (b): an interleaved segment of 3 chunks, 2 rows per chunk, two int32 channels a (1..6) and b (0x11..0x16);
   the request [1, 2) for b (chunk offset 1, one chunk) ---------------------------------------------------------------------------- *)
Section ExampleInterleaved.
Import String.
Local Open Scope string_scope.
Definition ex_il_pa : bytes := hex "2f2767272f276127".
Definition ex_il_pb : bytes := hex "2f2767272f276227".
Definition ex_il_data : bytes :=
  hex "5444536d010000001100000002000000120000000300000013000000040000001400000005000000150000000600000016000000".
Definition ex_il_seg : segment :=
  mkSeg 0 46 52 4 false [mkSobj ex_il_pa true 2 8 (Some 3) None; mkSobj ex_il_pb true 2 8 (Some 3) None]
        [(ex_il_pa, 0%nat); (ex_il_pb, 1%nat)] 3 None.
Definition ex_il_view : segv bytes :=
  match segv_of ex_il_data ex_il_pb ex_il_seg with Ok sv => sv | Err _ => mk_segv 0 0 None false [] end.

Lemma ex_il_hyps :
  seg_layout ex_il_seg = Ok LInterleaved /\ get_chunk_size_gen ex_il_seg = Ok 16 /\
  Forall (fun o => sized o <> None) (data_objs (sg_objs ex_il_seg)) /\
  segv_of ex_il_data ex_il_pb ex_il_seg = Ok ex_il_view /\ 0 < sv_chunk ex_il_view /\
  16 = zsum (map size_or0 (data_objs (sg_objs ex_il_seg))) * sv_chunk ex_il_view /\
  sg_data ex_il_seg + 16 * (1 + 1) <= blen ex_il_data /\
  sv_vals ex_il_view = [[hex "11000000"; hex "12000000"]; [hex "13000000"; hex "14000000"]; [hex "15000000"; hex "16000000"]] /\
  seg_fetch bytes ex_il_view 1 1 = Ok [[hex "13000000"; hex "14000000"]].
Proof.
  split; [vm_compute; reflexivity|]. split; [vm_compute; reflexivity|]. split.
  { repeat constructor; vm_compute; intros H; discriminate H. }
  split; [vm_compute; reflexivity|]. split; [vm_compute; reflexivity|]. split; [vm_compute; reflexivity|].
  split; [vm_compute; discriminate|]. split; vm_compute; reflexivity.
Qed.

Lemma ex_il_gen :
  mapr (fun p => (chunks_values (fst p), pf_data (snd p), pf_pos (snd p)))
       (segment_read_raw_data_for_channel_gen ex_il_seg (mkPf ex_il_data 0) ex_il_pb 1 (Some 1))
  = Ok (Some [[hex "13000000"; hex "14000000"]], ex_il_data, 36).
Proof.
  destruct ex_il_hyps as [H1 [H2 [H3 [H4 [H5 [H6 [H7 [_ H9]]]]]]]].
  rewrite (interleaved_read_raw_data_for_channel_view ex_il_seg ex_il_data 0 ex_il_pb 1 (Some 1) 16 ex_il_view H1 H2
             ltac:(vm_compute; discriminate) ltac:(lia) H3 H4 H5 H6 ltac:(lia) ltac:(vm_compute; discriminate) H7).
  rewrite H9. vm_compute. reflexivity.
Qed.
End ExampleInterleaved.

(* ---- example (c): the big-endian DAQmx segment of Props/C11.v (two chunks of 17 bytes) behind a lead-in tag; channel /b,
   request [1, 2) ---------------------------------------------------------------------------------------------------------------- *)
Section ExampleDaqmx.
Import String.
Local Open Scope string_scope.
Definition ex_dq_data : bytes := (hex "5444536d" ++ DaqmxProofs.ex_data)%list.
Definition ex_dq_seg : segment := mkSeg 0 (2 + 4 + 8 + 64 + 128) 38 4 false [ex_oa; ex_ob; ex_oc] [] 2 None.

Lemma ex_dq_hyps :
  seg_layout ex_dq_seg = Ok LDaqmx /\ get_chunk_size_gen ex_dq_seg = Ok 17 /\
  daqmx_objs_ok (data_objs (sg_objs ex_dq_seg)) /\
  dq_chunks_aligned (toc_endian (sg_toc ex_dq_seg)) (data_objs (sg_objs ex_dq_seg)) ex_dq_data (sg_data ex_dq_seg) 17 2 /\
  (exists chunks, read_segment ex_dq_data ex_dq_seg = Ok chunks /\
                  option_map (alookup (hex "2f2762")) (nth_error chunks 1) = Some (Some (CScalers [(0, [hex "04"; hex "ff"; hex "01"])]))).
Proof.
  split; [vm_compute; reflexivity|]. split; [vm_compute; reflexivity|]. split; [exact ex_objs_ok|]. split.
  - intros j Hj0 Hj. assert (j = 0) by lia. subst j. eexists. vm_compute. reflexivity.
  - eexists. split; vm_compute; reflexivity.
Qed.

Lemma ex_dq_gen :
  mapr (fun p => (chunks_entries (fst p), pf_data (snd p), pf_pos (snd p)))
       (segment_read_raw_data_for_channel_gen ex_dq_seg (mkPf ex_dq_data 0) (hex "2f2762") 1 None)
  = Ok (Some [Some (CScalers [(0, [hex "04"; hex "ff"; hex "01"])])], ex_dq_data, 38).
Proof.
  destruct ex_dq_hyps as [H1 [H2 [H3 _]]].
  rewrite (daqmx_read_raw_data_for_channel_eq ex_dq_seg ex_dq_data 0 (hex "2f2762") 1 None 17 H1 H2
             ltac:(vm_compute; discriminate) ltac:(lia) ltac:(lia) H3).
  vm_compute. reflexivity.
Qed.
End ExampleDaqmx.

(* ---- example: the hypotheses of [chunks_aligned_encoded] on two chunks of an int32 channel (2 values) and a string channel ----- *)
Section ExampleEncoded.
Import String.
Local Open Scope string_scope.
Definition ex_en_objs : list sobj :=
  [mkSobj (hex "2f2761") true 2 8 (Some 3) None; mkSobj (hex "2f2762") true 1 6 (Some T_STRING) None].
Definition ex_en_css : list (list (list bytes)) :=
  [[[hex "01000000"; hex "02000000"]; [hex "6869"]]; [[hex "03000000"; hex "04000000"]; [hex "796f"]]].
Lemma ex_en_hyps :
  NoDup (map so_path ex_en_objs) /\
  Forall (fun vss => Forall2 (fun o vs => vals_ok (so_nvals o) o vs) ex_en_objs vss) ex_en_css /\
  Forall (Forall2 (dsize_ok LE) ex_en_objs) ex_en_css /\
  zsum (map so_dsize ex_en_objs) = 14 /\
  enc_chunks LE ex_en_objs ex_en_css = hex "0100000002000000020000006869030000000400000002000000796f".
Proof.
  split. { vm_compute. repeat constructor; cbn [In]; intuition discriminate. }
  split. { repeat constructor; vm_compute; try reflexivity; try lia. }
  split. { repeat constructor; vm_compute; reflexivity. }
  split; vm_compute; reflexivity.
Qed.

(* ... and the serialised theorem on the segment made of them behind a lead-in tag: string channel b, request [1, 2) *)
Definition ex_en_seg : segment :=
  mkSeg 0 14 32 4 false ex_en_objs [(hex "2f2761", 0%nat); (hex "2f2762", 1%nat)] 2 None.
Definition ex_en_data : bytes :=
  (hex "5444536d" ++ enc_chunks (toc_endian (sg_toc ex_en_seg)) (data_objs (sg_objs ex_en_seg)) ex_en_css ++ [])%list.
Definition ex_en_view : segv bytes :=
  match segv_of ex_en_data (hex "2f2762") ex_en_seg with Ok sv => sv | Err _ => mk_segv 0 0 None false [] end.

Lemma ex_en_seg_hyps :
  seg_layout ex_en_seg = Ok LContig /\
  get_chunk_size_gen ex_en_seg = Ok (zsum (map so_dsize (data_objs (sg_objs ex_en_seg)))) /\
  Forall obj_ok (data_objs (sg_objs ex_en_seg)) /\
  Forall (Forall2 decode_neutral (data_objs (sg_objs ex_en_seg))) ex_en_css /\
  segv_of ex_en_data (hex "2f2762") ex_en_seg = Ok ex_en_view /\ sv_chunk ex_en_view <> 0 /\
  sv_vals ex_en_view = [[hex "6869"]; [hex "796f"]].
Proof.
  split; [vm_compute; reflexivity|]. split; [vm_compute; reflexivity|]. split.
  { change (data_objs (sg_objs ex_en_seg)) with ex_en_objs. unfold ex_en_objs.
    repeat (apply Forall_cons; [eexists; (split; [reflexivity|vm_compute; try exact I; reflexivity])|]). apply Forall_nil. }
  split.
  { change (data_objs (sg_objs ex_en_seg)) with ex_en_objs.
    repeat constructor; unfold decode_neutral; cbn [so_dtype]; intros H; try discriminate H; repeat constructor; vm_compute; reflexivity. }
  split; [vm_compute; reflexivity|]. split; [vm_compute; intros H; discriminate H|vm_compute; reflexivity].
Qed.

Lemma ex_en_gen :
  mapr (fun p => (chunks_values (fst p), pf_data (snd p), pf_pos (snd p)))
       (segment_read_raw_data_for_channel_gen ex_en_seg (mkPf ex_en_data 0) (hex "2f2762") 1 None)
  = Ok (Some [[hex "796f"]], ex_en_data, 32).
Proof.
  destruct ex_en_seg_hyps as [H1 [H2 [H3 [H4 [H5 [H6 _]]]]]]. destruct ex_en_hyps as [G1 [G2 [G3 _]]].
  etransitivity.
  { apply (contig_read_raw_data_for_channel_serialised ex_en_seg (hex "5444536d") ex_en_css [] 0 (hex "2f2762") 1 None ex_en_view
             H1 H2 ltac:(vm_compute; discriminate) eq_refl eq_refl eq_refl ltac:(lia) H3 G1 G2 G3 H4 H5 H6 (Z.le_refl _)). }
  vm_compute. reflexivity.
Qed.

(* ... and the seg_at form: a syntactic segment without its own metadata block (objects inherited), at offset 0 of the file *)
Definition ex_at_s : fseg := mkFseg 12 4713 None (enc_chunks LE ex_en_objs ex_en_css).
Definition ex_at_g : segment :=
  mkSeg 0 12 56 28 false ex_en_objs [(hex "2f2761", 0%nat); (hex "2f2762", 1%nat)] 2 None.
Definition ex_at_data : bytes := ([] ++ ser_seg TAG_DATA true ex_at_s ++ [])%list.
Definition ex_at_view : segv bytes :=
  match segv_of ex_at_data (hex "2f2762") ex_at_g with Ok sv => sv | Err _ => mk_segv 0 0 None false [] end.

Lemma ex_at_hyps :
  FileSynProofs.wf_fseg ex_at_s = true /\ seg_at (blen []) ex_at_s ex_at_g /\
  seg_layout ex_at_g = Ok LContig /\
  get_chunk_size_gen ex_at_g = Ok (zsum (map so_dsize (data_objs (sg_objs ex_at_g)))) /\
  fs_data ex_at_s = enc_chunks (toc_endian (sg_toc ex_at_g)) (data_objs (sg_objs ex_at_g)) ex_en_css /\
  segv_of ex_at_data (hex "2f2762") ex_at_g = Ok ex_at_view /\ sv_chunk ex_at_view <> 0 /\
  sv_vals ex_at_view = [[hex "6869"]; [hex "796f"]].
Proof.
  split; [vm_compute; reflexivity|]. split; [repeat split; vm_compute; reflexivity|].
  split; [vm_compute; reflexivity|]. split; [vm_compute; reflexivity|]. split; [vm_compute; reflexivity|].
  split; [vm_compute; reflexivity|]. split; [vm_compute; intros H; discriminate H|vm_compute; reflexivity].
Qed.

Lemma ex_at_gen :
  mapr (fun p => (chunks_values (fst p), pf_data (snd p), pf_pos (snd p)))
       (segment_read_raw_data_for_channel_gen ex_at_g (mkPf ex_at_data 0) (hex "2f2762") 1 None)
  = Ok (Some [[hex "796f"]], ex_at_data, 56).
Proof.
  destruct ex_at_hyps as [A1 [A2 [A3 [A4 [A5 [A6 [A7 _]]]]]]].
  destruct ex_en_seg_hyps as [_ [_ [H3 [H4 _]]]]. destruct ex_en_hyps as [G1 [G2 [G3 _]]].
  etransitivity.
  { apply (contig_read_raw_data_for_channel_seg_at ex_at_g ex_at_s [] ex_en_css [] 0 (hex "2f2762") 1 None ex_at_view
             A1 A2 A3 A4 ltac:(vm_compute; reflexivity) A5 ltac:(lia) H3 G1 G2 G3 H4 A6 A7 (Z.le_refl _)). }
  vm_compute. reflexivity.
Qed.
End ExampleEncoded.
