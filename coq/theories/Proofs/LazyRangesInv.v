(* C19, byte level: the structural invariant ranges_inv holds BY PROOF on serialised files.

   Proofs/LazyRangesSer.v proves the positional half of ranges_inv for [ser_file segs] (the tag
   at every recorded segment position, chunk counts >= 0) and leaves the object-level half
   [objects_inv] as a hypothesis.  Here it is derived:

     Part A  [obj_shape]: what EVERY object the metadata pass records for a well-formed
             syntax looks like (sm_run_shape): number_values >= 0 and either it is a DAQmx
             object, or it never got a data type (0 values, 0 bytes), or it carries a full
             raw data index: data_size = number_values * size for a sized type, a
             non-negative declared total for a string.
     Part B  [layout_inv_encoded]: a segment whose raw data block encodes chunk values
             (ReadCorrect.seg_encodes: no data objects / contiguous / interleaved) satisfies
             layout_inv, and has no final-chunk override.  One case is NOT forced by
             seg_encodes: a contiguous segment with data objects and an EMPTY raw data block
             (zero chunks: `css = []` says nothing about the objects).  There the shape of
             Part A gives everything except that a data object has a data type at all; that
             is the hypothesis [empty_segments_typed] (see ranges_inv_needs_typed for a
             witness that it cannot be dropped).
             [layout_inv_daqmx]: a readable DAQmx segment (ReadCorrectDaqmx.daqmx_seg_ok)
             satisfies layout_inv.
     Part C  [ranges_inv_content]: for every well-formed syntax whose segments are encoded
             or readable DAQmx segments (ReadCorrectDaqmx.segs_content), the state of the
             metadata pass -- with or without segment indexes -- satisfies ranges_inv on the
             bytes of the file for EVERY path.  No distinct-paths hypothesis is needed for
             the invariant (layout_inv does not depend on the path, and chan_chunk is the
             number_values of SOME recorded object).
     Part D  the composed statements of Props/C19_file.v: on a serialised file under
             read_correct's hypotheses the reads of every lazy window / slice / index lie in
             the requested channel's bytes of the chunks overlapping the request, and the
             values decoded from exactly those chunks are the window of the eager data.
             For channel[i] the run on the metadata view (which lists the reads) and the run on
             the decoded view (which returns the values) are shown to stay in step
             ([read_at_index_sim]: same fetched chunk, caches with the same bounds).
   Files cut short: Proofs/LazyRangesInvCut.v.  Instances: Proofs/LazyRangesInvEx.v. *)
From Coq Require Import List ZArith Bool Lia ZifyBool.
From Coq Require Import Init.Byte.
Import ListNotations.
From NpTdms Require Import Base.Bytes Base.Res Base.PySlice Gen.PySlice_gen Model.Tokens Model.TokensWf
     Model.SegState Model.Layout Model.Reader Model.FileSyn Model.LazyRead Model.LazyBytes Model.LazyRanges
     Proofs.TokensRoundtrip Proofs.SegStateProofs Proofs.SegStateInherit Proofs.LayoutProofs
     Proofs.FileSynProofs Proofs.DaqmxProofs Proofs.ReadCorrect Proofs.ReadCorrectDaqmx
     Proofs.LazyReadLemmas Proofs.LazyIndexProofs Proofs.LazyReadProofs Proofs.LazyWindowProofs
     Proofs.LazyTopProofs Proofs.SliceProofs
     Proofs.LazyEagerIndex Proofs.LazyEagerView Proofs.LazyEagerTop
     Proofs.LazyRangesSeg Proofs.LazyRangesTop Proofs.LazyRangesSer Proofs.LazyRangesLink.
Local Open Scope Z_scope.
Ltac Zify.zify_post_hook ::= Z.to_euclidean_division_equations.

(* ======================================================================== *)
(* Part A: the shape of every recorded object                               *)
(* ======================================================================== *)

Definition obj_shape (o : sobj) : Prop :=
  0 <= so_nvals o /\
  match so_daqmx o with
  | Some _ => True
  | None =>
    match so_dtype o with
    | None => so_nvals o = 0 /\ so_dsize o = 0
    | Some dt =>
      match tds_size dt with
      | Some (Some sz) => so_dsize o = so_nvals o * sz
      | Some None => dt = T_STRING /\ 0 <= so_dsize o
      | None => False
      end
    end
  end.

Lemma obj_shape_set_has_data o b : obj_shape o -> obj_shape (set_has_data o b).
Proof. unfold obj_shape, set_has_data. cbn [so_nvals so_daqmx so_dtype so_dsize]. tauto. Qed.

Lemma wf_idx_full lf dt dim n total :
  wf_idx (IFull lf dt dim n total) = true ->
  0 <= n /\ match total with Some t => dt = T_STRING /\ 0 <= t | None => dt <> T_STRING end.
Proof.
  cbn [wf_idx]. unfold is_u64, is_u32. intros H.
  repeat (apply andb_prop in H; destruct H as [H ?]).
  split; [lia|]. destruct total as [t|]; [|lia].
  match goal with Ht : (dt =? T_STRING) && _ = true |- _ => apply andb_prop in Ht; destruct Ht as [Ht1 Ht2] end.
  split; lia.
Qed.

Lemma wf_idx_daqmx kind dt dim n scalers widths :
  wf_idx (IDaqmx kind dt dim n scalers widths) = true -> 0 <= n.
Proof.
  cbn [wf_idx]. unfold is_u64. intros H.
  repeat (apply andb_prop in H; destruct H as [H ?]). lia.
Qed.

Lemma new_object_shape p i o : wf_idx i = true -> new_object p i = Ok o -> obj_shape o.
Proof.
  unfold new_object, obj_shape. intros Hwf H.
  destruct i as [| |lf dt dim n total|kind dt dim n scalers widths].
  - injection H as <-. cbn [so_nvals so_daqmx so_dtype so_dsize]. lia.
  - injection H as <-. cbn [so_nvals so_daqmx so_dtype so_dsize]. lia.
  - destruct (wf_idx_full _ _ _ _ _ Hwf) as [Hn Htot].
    destruct (tds_size dt) as [sz|] eqn:Esz; [|discriminate].
    destruct ((match sz with None => true | Some _ => false end) && negb (dt =? T_STRING)) eqn:Eand;
      [discriminate|].
    destruct (negb (dim =? 1)); [discriminate|].
    injection H as <-. cbn [so_nvals so_daqmx so_dtype so_dsize]. split; [exact Hn|].
    rewrite Esz. destruct sz as [s|]; [reflexivity|].
    cbn [andb] in Eand. assert (Hdt : dt = T_STRING) by lia. split; [exact Hdt|].
    destruct total as [t|]; [lia|]. contradiction.
  - pose proof (wf_idx_daqmx _ _ _ _ _ _ Hwf) as Hn.
    destruct (tds_size dt) as [sz|]; [|discriminate].
    destruct (negb (dim =? 1)); [discriminate|].
    destruct (negb (forallb _ scalers)); [discriminate|].
    destruct (_ && _); [discriminate|].
    injection H as <-. cbn [so_nvals so_daqmx]. split; [exact Hn|exact I].
Qed.

Lemma update_existing_shape o i o' :
  wf_idx i = true -> obj_shape o -> update_existing o i = Ok o' -> obj_shape o'.
Proof.
  intros Hwf Ho H. unfold update_existing in H.
  destruct i as [| |lf dt dim n total|kind dt dim n scalers widths].
  - injection H as <-. destruct (so_has_data o); [apply obj_shape_set_has_data|]; exact Ho.
  - injection H as <-. destruct (so_has_data o); [|apply obj_shape_set_has_data]; exact Ho.
  - exact (new_object_shape _ _ _ Hwf H).
  - exact (new_object_shape _ _ _ Hwf H).
Qed.

Lemma step_entry_shape base prev ordered x ordered' :
  wf_idx (e_idx x) = true ->
  (forall b, base = Some b -> Forall obj_shape b) ->
  (forall p po, alookup p prev = Some po -> obj_shape po) ->
  step_entry base prev ordered x = Ok ordered' ->
  Forall obj_shape ordered -> Forall obj_shape ordered'.
Proof.
  intros Hwf Hbase Hprev H HF. unfold step_entry in H.
  destruct (match base with Some b => existing_lookup (e_path x) 0 b None | None => None end)
    as [[i o]|] eqn:E.
  - destruct base as [b|]; [|discriminate].
    apply existing_lookup_some in E. destruct E as (_ & Hnth & _).
    apply nth_error_In in Hnth.
    pose proof (Hbase b eq_refl) as Hb. rewrite Forall_forall in Hb.
    destruct (update_existing o (e_idx x)) as [o'|e] eqn:Eu; cbn [bind] in H; [|discriminate].
    injection H as <-. apply Forall_replace_nth; [exact HF|].
    exact (update_existing_shape o _ o' Hwf (Hb o Hnth) Eu).
  - destruct (alookup (e_path x) prev) as [po|] eqn:Ep.
    + destruct (reuse_previous po (e_idx x)) as [o'|e] eqn:Eu; cbn [bind] in H; [|discriminate].
      injection H as <-. apply Forall_app. split; [exact HF|]. constructor; [|constructor].
      exact (update_existing_shape po _ o' Hwf (Hprev _ _ Ep) Eu).
    + destruct (e_idx x) as [| |lf dt dim n total|kind dt dim n scalers widths] eqn:Ei.
      * destruct (new_object (e_path x) INoData) as [o'|e] eqn:En; cbn [bind] in H; [|discriminate].
        injection H as <-. apply Forall_app. split; [exact HF|]. constructor; [|constructor].
        exact (new_object_shape _ _ _ Hwf En).
      * discriminate.
      * destruct (new_object (e_path x) (IFull lf dt dim n total)) as [o'|e] eqn:En;
          cbn [bind] in H; [|discriminate].
        injection H as <-. apply Forall_app. split; [exact HF|]. constructor; [|constructor].
        exact (new_object_shape _ _ _ Hwf En).
      * destruct (new_object (e_path x) (IDaqmx kind dt dim n scalers widths)) as [o'|e] eqn:En;
          cbn [bind] in H; [|discriminate].
        injection H as <-. apply Forall_app. split; [exact HF|]. constructor; [|constructor].
        exact (new_object_shape _ _ _ Hwf En).
Qed.

Lemma fold_entries_shape base prev :
  (forall b, base = Some b -> Forall obj_shape b) ->
  (forall p po, alookup p prev = Some po -> obj_shape po) ->
  forall es ordered r,
    forallb wf_entry es = true ->
    fold_entries base prev ordered es = Ok r -> Forall obj_shape ordered -> Forall obj_shape r.
Proof.
  intros Hbase Hprev. induction es as [|x es IH]; intros ordered r Hwf H HF.
  - cbn [fold_entries] in H. injection H as <-. exact HF.
  - cbn [fold_entries] in H. cbn [forallb] in Hwf. apply andb_prop in Hwf. destruct Hwf as [Hx Hes].
    destruct (step_entry base prev ordered x) as [o'|e] eqn:Es; cbn [bind] in H; [|discriminate].
    apply (IH o' r Hes H).
    refine (step_entry_shape base prev ordered x o' _ Hbase Hprev Es HF).
    unfold wf_entry in Hx. repeat (apply andb_prop in Hx; destruct Hx as [Hx ?]). assumption.
Qed.

Lemma read_segment_objects_shape toc md prev ps objs props :
  (match md with Some es => wf_metadata es = true | None => True end) ->
  (forall l, ps = Some l -> Forall obj_shape l) ->
  (forall p po, alookup p prev = Some po -> obj_shape po) ->
  read_segment_objects toc md prev ps = Ok (objs, props) ->
  Forall obj_shape objs.
Proof.
  intros Hwf Hps Hprev H. unfold read_segment_objects in H.
  destruct md as [es|].
  - cbv zeta in H.
    destruct (fold_entries _ prev _ es) as [ordered|e] eqn:Ef; cbn [bind] in H; [|discriminate].
    injection H as <- _.
    unfold wf_metadata in Hwf. apply andb_prop in Hwf. destruct Hwf as [_ Hes].
    refine (fold_entries_shape _ prev _ Hprev es _ ordered Hes Ef _).
    + intros b Hb. destruct (toc_has toc TOC_NEWLIST); [discriminate|]. exact (Hps b Hb).
    + destruct (toc_has toc TOC_NEWLIST); [constructor|].
      destruct ps as [l|]; [|constructor]. exact (Hps l eq_refl).
  - destruct ps as [l|]; [|discriminate]. injection H as <- _. exact (Hps l eq_refl).
Qed.

Lemma sm_loop_shape : forall segs w pos ps pi st stf,
    wf_file segs ->
    sm_loop segs w pos ps pi st = Ok stf ->
    (forall p po, alookup p (rs_prev_objs st) = Some po -> obj_shape po) ->
    (forall l, ps = Some l -> Forall obj_shape l) ->
    (forall g, In g (rs_segments st) -> Forall obj_shape (sg_objs g)) ->
    forall g, In g (rs_segments stf) -> Forall obj_shape (sg_objs g).
Proof.
  induction segs as [|s r IH]; intros w pos ps pi st stf Hwf H Hprev Hps Hsegs.
  - rewrite sm_loop_nil in H. injection H as <-. exact Hsegs.
  - apply sm_loop_cons_inv in H.
    destruct H as (objs & props & idx & cache & nch & fin & po & om & Hro & Hcc & Hum & Hloop).
    unfold wf_file in Hwf. cbn [forallb] in Hwf. apply andb_prop in Hwf. destruct Hwf as [Hs Hr].
    assert (Hobjs : Forall obj_shape objs).
    { apply (read_segment_objects_shape _ _ _ _ _ _) with (4 := Hro); [|exact Hps|exact Hprev].
      apply wf_fseg_spec in Hs. destruct Hs as (_ & _ & _ & Hm).
      destruct (fs_meta s) as [es|]; [tauto|exact I]. }
    apply (IH _ _ _ _ _ _ Hr Hloop); cbn [rs_prev_objs rs_segments].
    + exact (update_object_metadata_values obj_shape _ _ _ _ _ _ _ Hum Hprev Hobjs).
    + intros l Hl. injection Hl as <-. exact Hobjs.
    + intros g Hg. apply in_app_or in Hg. destruct Hg as [Hg|[<-|[]]]; [exact (Hsegs g Hg)|exact Hobjs].
Qed.

(* every object the metadata pass records for a well-formed syntax *)
Theorem sm_run_shape segs w st :
  wf_file segs -> sm_run segs w = Ok st ->
  forall g, In g (rs_segments st) -> Forall obj_shape (sg_objs g).
Proof.
  unfold sm_run. intros Hwf H.
  apply (sm_loop_shape segs w 0 None [] rstate0 st Hwf H); cbn [rstate0 rs_prev_objs rs_segments alookup].
  - intros p po Hp. discriminate.
  - intros l Hl. discriminate.
  - intros g [].
Qed.

(* ======================================================================== *)
(* Part B: layout_inv of one segment                                        *)
(* ======================================================================== *)

(* every data object of the segment has a data type *)
Definition typed_data_objs (g : segment) : Prop :=
  Forall (fun o => so_dtype o <> None) (data_objs (sg_objs g)).

Lemma obj_inv_of_shape o :
  obj_shape o -> so_daqmx o = None -> so_dtype o <> None -> obj_inv None o = true.
Proof.
  unfold obj_shape, obj_inv, final_value. intros [Hn Hs] Hq Hty. rewrite Hq in Hs.
  destruct (so_dtype o) as [dt|]; [|contradiction].
  destruct (tds_size dt) as [[sz|]|] eqn:Esz; [| |contradiction].
  - pose proof (tds_size_pos dt sz Esz) as Hsz. rewrite Hs.
    replace (so_nvals o * sz =? so_nvals o * sz) with true by lia.
    assert (0 <= so_nvals o * sz) by nia. lia.
  - destruct Hs as [-> Hd]. change (T_STRING =? T_STRING) with true. lia.
Qed.

Lemma data_objs_In objs o : In o (data_objs objs) -> In o objs /\ so_has_data o = true.
Proof. unfold data_objs. intros H. apply filter_In in H. exact H. Qed.

Lemma layout_inv_empty g : data_objs (sg_objs g) = [] -> layout_inv g = true.
Proof.
  intros Hd. unfold layout_inv, chunk_size, seg_layout, have_daqmx, have_interleaved. rewrite Hd.
  cbn [filter length Nat.eqb bind map zsum fold_right].
  destruct (negb (toc_has (sg_toc g) TOC_INTERLEAVED)); cbn [bind Nat.eqb forallb andb]; reflexivity.
Qed.

Lemma layout_inv_contig g :
  seg_layout g = Ok LContig -> sg_final g = None -> Forall obj_shape (sg_objs g) -> typed_data_objs g ->
  layout_inv g = true.
Proof.
  intros Hlay Hfin Hsh Hty. unfold layout_inv. rewrite (seg_layout_contig_chunk_size g Hlay), Hlay, Hfin.
  apply forallb_forall. intros o Ho. rewrite Forall_forall in Hsh. unfold typed_data_objs in Hty.
  rewrite Forall_forall in Hty.
  apply obj_inv_of_shape.
  - apply Hsh. exact (proj1 (data_objs_In _ _ Ho)).
  - apply (seg_layout_not_daqmx g LContig Hlay); [discriminate|exact Ho].
  - exact (Hty o Ho).
Qed.

Lemma layout_inv_interleaved g nv :
  seg_layout g = Ok LInterleaved -> Forall obj_shape (sg_objs g) ->
  Forall (fun o => so_nvals o = nv) (data_objs (sg_objs g)) ->
  Forall (fun o => sized o <> None) (data_objs (sg_objs g)) ->
  layout_inv g = true.
Proof.
  intros Hlay Hsh Hnv Hsz. unfold layout_inv. rewrite (seg_layout_interleaved_chunk_size g Hlay), Hlay.
  rewrite Forall_forall in Hsh, Hnv, Hsz. apply andb_true_intro. split.
  - apply forallb_forall. intros o Ho. apply andb_true_intro. split.
    + apply obj_inv_of_shape.
      * apply Hsh. exact (proj1 (data_objs_In _ _ Ho)).
      * apply (seg_layout_not_daqmx g LInterleaved Hlay); [discriminate|exact Ho].
      * apply sized_dtype. exact (Hsz o Ho).
    + unfold is_sized. specialize (Hsz o Ho). destruct (sized o); [reflexivity|contradiction].
  - destruct (data_objs (sg_objs g)) as [|o0 r] eqn:Ed; [reflexivity|].
    apply forallb_forall. intros o Ho. rewrite (Hnv o Ho), (Hnv o0 (or_introl eq_refl)). lia.
Qed.

Lemma Forall2_left {A B} (R : A -> B -> Prop) (P : A -> Prop) l l' :
  (forall a b, R a b -> P a) -> Forall2 R l l' -> Forall P l.
Proof. intros HRP H. induction H as [|a b l l' Hab _ IH]; constructor; [exact (HRP a b Hab)|exact IH]. Qed.

(* a segment whose raw data block encodes chunk values *)
Theorem layout_inv_encoded g data cs :
  seg_encodes g data cs ->
  calculate_chunks (sg_toc g) (sg_incomplete g) (sg_objs g) (blen data) = Ok (sg_nchunks g, sg_final g) ->
  Forall obj_shape (sg_objs g) ->
  (sg_nchunks g = 0 -> typed_data_objs g) ->
  layout_inv g = true /\ sg_final g = None.
Proof.
  intros Henc Hcc Hsh Hty.
  assert (Hnvok : Forall nvals_ok (sg_objs g)).
  { eapply Forall_impl; [|exact Hsh]. intros o [Hn _]. exact Hn. }
  destruct (seg_encodes_chunks g data cs [] Henc Hcc Hnvok) as (Hfin & _).
  split; [|exact Hfin].
  destruct Henc as [Hd Hdata | css Hlay Hpos Hnd Hok Hds Hdata
                    | nv m rows Hlay Hne Hnv0 Hm Hobjs Hsz Hnd Hrows Hlen Hdata].
  - exact (layout_inv_empty g Hd).
  - apply (layout_inv_contig g Hlay Hfin Hsh).
    destruct css as [|vss css'].
    + (* no chunk at all: the raw data block is empty, the chunk count is 0 *)
      apply Hty. subst data. cbn [enc_chunks flat_map] in Hcc. change (blen []) with 0 in Hcc.
      pose proof (seg_layout_contig_chunk_size g Hlay) as Hcs.
      pose proof (calculate_chunks_exact (sg_toc g) (sg_incomplete g) (sg_objs g) _ 0 Hcs Hpos ltac:(lia)) as Hex.
      rewrite Z.mul_0_l in Hex. rewrite Hex in Hcc. injection Hcc as <- _. reflexivity.
    + inversion Hok as [|x y Hvss _]; subst x y. unfold typed_data_objs.
      apply (Forall2_left _ _ _ _ (fun o vs H => vals_ok_dtype (so_nvals o) o vs H) Hvss).
  - apply (layout_inv_interleaved g nv Hlay Hsh).
    + eapply Forall_impl; [|exact Hobjs]. intros o [Ho _]. exact Ho.
    + exact Hsz.
Qed.

(* a readable DAQmx segment *)
Theorem layout_inv_daqmx g data :
  daqmx_seg_ok g data ->
  calculate_chunks (sg_toc g) (sg_incomplete g) (sg_objs g) (blen data) = Ok (sg_nchunks g, sg_final g) ->
  layout_inv g = true /\ sg_final g = None.
Proof.
  intros Hok Hcc. split; [|exact (proj1 (daqmx_seg_ok_nchunks g data Hok Hcc))].
  unfold layout_inv.
  rewrite (ReadCorrectDaqmx.chunk_size_daqmx (sg_objs g) (proj1 Hok) (daqmx_seg_ok_consistent g data Hok)).
  rewrite (daqmx_seg_ok_layout g data Hok).
  destruct (daqmx_seg_ok_dims g data Hok) as [Hbd Hnn]. rewrite Hbd.
  apply forallb_forall. intros d Hd. rewrite Forall_forall in Hnn. destruct (Hnn d Hd) as [H1 H2].
  assert (0 <= snd d * fst d) by nia. lia.
Qed.

(* from the layout to the object-level half of seg_inv, for every path *)
Lemma objects_inv_of_layout path g :
  layout_inv g = true -> sg_final g = None -> Forall obj_shape (sg_objs g) ->
  objects_inv path g = true.
Proof.
  intros Hlay Hfin Hsh. unfold objects_inv.
  assert (Hc : 0 <= chan_chunk path g).
  { unfold chan_chunk, segment_object. destruct (alookup path (sg_index g)) as [i|]; [|lia].
    destruct (nth_error (sg_objs g) i) as [o|] eqn:En; [|lia].
    destruct (so_has_data o); [|lia]. apply nth_error_In in En.
    rewrite Forall_forall in Hsh. exact (proj1 (Hsh o En)). }
  apply andb_true_intro. split; [lia|].
  destruct (chan_chunk path g =? 0); [reflexivity|].
  apply andb_true_intro. split; [|exact Hlay].
  unfold final_inv, chan_final. rewrite Hfin. reflexivity.
Qed.

(* ======================================================================== *)
(* Part C: the whole file                                                   *)
(* ======================================================================== *)

(* a segment WITHOUT raw data (zero chunks) lists only typed objects as data objects: no
   object that never had a data type was switched on by a "matches previous" index there.
   (In a segment WITH chunks this follows from seg_encodes / daqmx_seg_ok.) *)
Definition empty_segments_typed (gs : list segment) : Prop :=
  forall g, In g gs -> sg_nchunks g = 0 -> typed_data_objs g.

Definition empty_segments_typed_b (gs : list segment) : bool :=
  forallb (fun g => negb (sg_nchunks g =? 0) ||
                    forallb (fun o => match so_dtype o with Some _ => true | None => false end)
                            (data_objs (sg_objs g))) gs.

Lemma empty_segments_typed_b_sound gs : empty_segments_typed_b gs = true -> empty_segments_typed gs.
Proof.
  unfold empty_segments_typed_b, empty_segments_typed, typed_data_objs. intros H g Hg Hn.
  rewrite forallb_forall in H. specialize (H g Hg). rewrite Hn in H. cbn [Z.eqb negb orb] in H.
  rewrite forallb_forall in H. apply Forall_forall. intros o Ho. specialize (H o Ho).
  destruct (so_dtype o); [discriminate|discriminate H].
Qed.

Lemma content_layout_inv : forall segs gs chunkss pos,
    segs_at pos segs gs -> segs_content gs segs chunkss ->
    (forall g, In g gs -> Forall obj_shape (sg_objs g)) ->
    empty_segments_typed gs ->
    forall g, In g gs -> layout_inv g = true /\ sg_final g = None.
Proof.
  induction segs as [|s r IH]; intros gs chunkss pos Hat Hcon Hsh Hty g Hg.
  - inversion Hat; subst. destruct Hg.
  - inversion Hat as [|pos' s' r' g0 gs' Hg0 Hat']; subst.
    inversion Hcon as [|g1 gs1 s1 r1 cs css Hcs Hcon']; subst.
    destruct Hg as [<-|Hg].
    + destruct Hg0 as (_ & _ & _ & _ & _ & Hcc).
      destruct Hcs as [cs0 Henc|Hdq].
      * apply (layout_inv_encoded g0 (fs_data s) cs0 Henc Hcc).
        -- apply Hsh. left. reflexivity.
        -- apply Hty. left. reflexivity.
      * exact (layout_inv_daqmx g0 (fs_data s) Hdq Hcc).
    + apply (IH gs' css _ Hat' Hcon'); [| |exact Hg].
      * intros g' Hg'. apply Hsh. right. exact Hg'.
      * intros g' Hg'. apply Hty. right. exact Hg'.
Qed.


(* under segs_content the hypothesis says: EVERY data object of EVERY segment has a data type
   (for a segment with chunks this is forced by seg_encodes / daqmx_seg_ok) *)
Lemma content_data_objs_typed : forall segs gs chunkss pos,
    segs_at pos segs gs -> segs_content gs segs chunkss ->
    empty_segments_typed gs ->
    forall g, In g gs -> typed_data_objs g.
Proof.
  induction segs as [|s r IH]; intros gs chunkss pos Hat Hcon Hty g Hg.
  - inversion Hat; subst. destruct Hg.
  - inversion Hat as [|pos' s' r' g0 gs' Hg0 Hat']; subst.
    inversion Hcon as [|g1 gs1 s1 r1 cs css Hcs Hcon']; subst.
    destruct Hg as [<-|Hg].
    + destruct Hg0 as (_ & _ & _ & _ & _ & Hcc).
      destruct Hcs as [cs0 Henc|Hdq].
      * destruct Henc as [Hd Hdata | css0 Hlay Hpos Hnd Hok Hds Hdata
                          | nv m rows Hlay Hne Hnv0 Hm Hobjs Hsz Hnd Hrows Hlen Hdata].
        -- unfold typed_data_objs. rewrite Hd. constructor.
        -- destruct css0 as [|vss css'].
           ++ apply Hty; [left; reflexivity|]. rewrite Hdata in Hcc. cbn [enc_chunks flat_map] in Hcc.
              change (blen []) with 0 in Hcc.
              pose proof (seg_layout_contig_chunk_size g0 Hlay) as Hcs.
              pose proof (calculate_chunks_exact (sg_toc g0) (sg_incomplete g0) (sg_objs g0) _ 0 Hcs Hpos ltac:(lia)) as Hex.
              rewrite Z.mul_0_l in Hex. rewrite Hex in Hcc. injection Hcc as <- _. reflexivity.
           ++ inversion Hok as [|x y Hvss _]; subst x y. unfold typed_data_objs.
              apply (Forall2_left _ _ _ _ (fun o vs H => vals_ok_dtype (so_nvals o) o vs H) Hvss).
        -- unfold typed_data_objs. eapply Forall_impl; [|exact Hsz]. intros o Ho. apply sized_dtype. exact Ho.
      * destruct Hdq as (_ & _ & _ & Hobjs & _). unfold typed_data_objs.
        eapply Forall_impl; [|exact Hobjs]. intros o (q & _ & _ & _ & Hk & _).
        destruct Hk as [Hk|(sc & dt & _ & Hk & _)]; rewrite Hk; discriminate.
    + apply (IH gs' css _ Hat' Hcon'); [|exact Hg].
      intros g' Hg'. apply Hty. right. exact Hg'.
Qed.

Theorem data_objs_typed_content segs w st chunkss :
  sm_run segs w = Ok st ->
  segs_content (rs_segments st) segs chunkss ->
  (empty_segments_typed (rs_segments st) <-> forall g, In g (rs_segments st) -> typed_data_objs g).
Proof.
  intros Hrun Hcon. split.
  - intros Hty. exact (content_data_objs_typed segs _ chunkss 0 (sm_segment_positions segs w st Hrun) Hcon Hty).
  - intros H g Hg _. exact (H g Hg).
Qed.

(* the object-level half, for the state of either metadata pass *)
Theorem objects_inv_content segs w st chunkss :
  wf_file segs -> sm_run segs w = Ok st ->
  segs_content (rs_segments st) segs chunkss ->
  empty_segments_typed (rs_segments st) ->
  forall path, forallb (objects_inv path) (rs_segments st) = true.
Proof.
  intros Hwf Hrun Hcon Hty path. apply forallb_forall. intros g Hg.
  pose proof (sm_run_shape segs w st Hwf Hrun) as Hsh.
  pose proof (sm_segment_positions segs w st Hrun) as Hat.
  destruct (content_layout_inv segs (rs_segments st) chunkss 0 Hat Hcon Hsh Hty g Hg) as [Hlay Hfin].
  exact (objects_inv_of_layout path g Hlay Hfin (Hsh g Hg)).
Qed.

Theorem ranges_inv_content_w segs w st chunkss :
  wf_file segs -> sm_run segs w = Ok st ->
  segs_content (rs_segments st) segs chunkss ->
  empty_segments_typed (rs_segments st) ->
  forall path, ranges_inv st (ser_file segs) path = true.
Proof.
  intros Hwf Hrun Hcon Hty path.
  apply (ranges_inv_ser segs w st path Hwf Hrun).
  exact (objects_inv_content segs w st chunkss Hwf Hrun Hcon Hty path).
Qed.

(* ---- from the state without indexes (read_correct's) to the state TdmsFile.open builds ---- *)

Lemma seg_content_with_index g s cs : seg_content g s cs -> seg_content (with_index g) s cs.
Proof.
  intros [cs0 Henc|Hdq].
  - apply sct_plain. apply seg_encodes_with_index. exact Henc.
  - exact (sct_daqmx (with_index g) s Hdq).
Qed.

Lemma segs_content_with_index gs segs chunkss :
  segs_content gs segs chunkss -> segs_content (map with_index gs) segs chunkss.
Proof.
  induction 1 as [|g gs s r cs css Hcs _ IH]; cbn [map]; constructor.
  - apply seg_content_with_index. exact Hcs.
  - exact IH.
Qed.

Lemma empty_segments_typed_with_index gs :
  empty_segments_typed gs -> empty_segments_typed (map with_index gs).
Proof.
  intros H g' Hg' Hn. apply in_map_iff in Hg'. destruct Hg' as (g & <- & Hg). exact (H g Hg Hn).
Qed.

Lemma segs_encode_content gs segs chunkss : segs_encode gs segs chunkss -> segs_content gs segs chunkss.
Proof.
  induction 1 as [|g gs s r cs css Hcs _ IH]; constructor; [apply sct_plain; exact Hcs|exact IH].
Qed.

(* THE invariant: the reader state TdmsFile.open builds from the bytes of a serialised file
   whose segments are encoded or readable DAQmx segments satisfies ranges_inv for every path *)
Theorem ranges_inv_content segs st chunkss :
  wf_file segs -> sm_run segs false = Ok st ->
  segs_content (rs_segments st) segs chunkss ->
  empty_segments_typed (rs_segments st) ->
  exists st', open_state (ser_file segs) = Ok st' /\
              rs_segments st' = map with_index (rs_segments st) /\
              rs_om st' = rs_om st /\
              forall path, ranges_inv st' (ser_file segs) path = true.
Proof.
  intros Hwf Hrun Hcon Hty.
  destruct (sm_run_with_index segs st Hrun) as (st' & Hrun' & Hsegs & _ & Hom & _).
  exists st'. split; [rewrite (open_state_ser segs Hwf); exact Hrun'|].
  split; [exact Hsegs|]. split; [exact Hom|].
  apply (ranges_inv_content_w segs true st' chunkss Hwf Hrun').
  - rewrite Hsegs. apply segs_content_with_index. exact Hcon.
  - rewrite Hsegs. apply empty_segments_typed_with_index. exact Hty.
Qed.

Corollary ranges_inv_serialised segs st chunkss :
  wf_file segs -> sm_run segs false = Ok st ->
  segs_encode (rs_segments st) segs chunkss ->
  empty_segments_typed (rs_segments st) ->
  exists st', open_state (ser_file segs) = Ok st' /\
              rs_segments st' = map with_index (rs_segments st) /\
              rs_om st' = rs_om st /\
              forall path, ranges_inv st' (ser_file segs) path = true.
Proof.
  intros Hwf Hrun Henc Hty.
  exact (ranges_inv_content segs st chunkss Hwf Hrun (segs_encode_content _ _ _ Henc) Hty).
Qed.

(* ======================================================================== *)
(* Part D: what is fetched and what is returned, on one file                *)
(* ======================================================================== *)

(* the decoded view (LazyBytes.channel_view) and the metadata view (LazyRanges.meta_views)
   of the same state have the same shape *)
Lemma view_shapes data path st svs dt views :
  open_state data = Ok st -> ranges_inv st data path = true ->
  channel_view data path = Ok (svs, dt) -> meta_views st path = Ok views ->
  Forall2 (same_shape bytes unit) svs views.
Proof.
  intros Hst Hinv Hcv Hv.
  unfold channel_view in Hcv. unfold open_state in Hst. rewrite Hst in Hcv. cbn [bind] in Hcv.
  destruct (mapM (segv_of data path) (rs_segments st)) as [svs'|] eqn:Esv; cbn [bind] in Hcv; [|discriminate].
  injection Hcv as <- <-.
  apply (mapM_Forall2 _ _ _ _ _ _ Esv Hv). intros g sv sv' Hg Hs Hs'.
  apply (segv_of_shape data path g sv sv'); [|exact Hs|exact Hs'].
  unfold ranges_inv in Hinv. rewrite forallb_forall in Hinv. apply Hinv. exact Hg.
Qed.

(* the translated _read_slice never asks for a negative offset or length *)
Lemma read_slice_gen_nonneg n start stop step a b k :
  0 <= n -> read_slice_gen n start stop step = Ok (PRead a b k) -> 0 <= a /\ 0 <= b.
Proof.
  intros Hn H.
  assert (Hpos : forall q, 0 < q -> read_slice_gen n start stop (Some q) = Ok (PRead a b k) -> 0 <= a /\ 0 <= b).
  { intros q Hq Hr. destruct (gen_pos n start stop q Hn Hq) as (p & Hp & [[-> _]|[-> Hab]]).
    - rewrite Hr in Hp. discriminate.
    - rewrite Hr in Hp. injection Hp as -> -> _.
      pose proof (adjust_start_range_pos n start q Hn Hq). lia. }
  destruct step as [q|]; [|rewrite gen_none in H; exact (Hpos 1 ltac:(lia) H)].
  destruct (Z.lt_trichotomy q 0) as [Hq|[->|Hq]].
  - destruct (gen_neg n start stop q Hn Hq) as (p & Hp & [[-> _]|[-> Hab]]).
    + rewrite H in Hp. discriminate.
    + rewrite H in Hp. injection Hp as -> -> _.
      pose proof (adjust_stop_range_neg n stop q Hn Hq). lia.
  - rewrite gen_zero in H. discriminate.
  - exact (Hpos q Hq H).
Qed.

(* ---- channel[i]: the run on the metadata view (which lists the reads) and the run on the
        decoded view (which returns the values) stay in step ------------------------------- *)

(* two chunk lists with the same chunk lengths *)
Definition same_lens (a : segv bytes) (b : segv unit) : Prop :=
  same_shape bytes unit a b /\ (sv_chunk a <> 0 -> map (@zlen bytes) (sv_vals a) = map (@zlen unit) (sv_vals b)).

Lemma chunks_ok_lens {V W} cs fl : forall (l : list (list V)) (l' : list (list W)),
  chunks_ok V cs fl l = true -> chunks_ok W cs fl l' = true -> length l = length l' ->
  map (@zlen V) l = map (@zlen W) l'.
Proof.
  induction l as [|c l IH]; intros l' H H' Hlen; destruct l' as [|c' l']; try discriminate; [reflexivity|].
  cbn [map]. destruct l as [|d l]; destruct l' as [|d' l']; try discriminate.
  - cbn [chunks_ok] in H, H'. cbn [map]. f_equal. lia.
  - change (chunks_ok V cs fl (c :: d :: l)) with ((zlen c =? cs) && chunks_ok V cs fl (d :: l)) in H.
    change (chunks_ok W cs fl (c' :: d' :: l')) with ((zlen c' =? cs) && chunks_ok W cs fl (d' :: l')) in H'.
    apply andb_prop in H. apply andb_prop in H'. destruct H as [H1 H2]. destruct H' as [H1' H2'].
    f_equal; [lia|]. apply IH; [exact H2|exact H2'|]. cbn [length] in Hlen. cbn [length]. lia.
Qed.

Lemma same_lens_of_wf a b :
  same_shape bytes unit a b -> wf_seg bytes a = true -> wf_seg unit b = true -> same_lens a b.
Proof.
  intros Hs Ha Hb. split; [exact Hs|]. intros Hne.
  destruct Hs as (Hc & Hn & _ & Hf & Hl). specialize (Hf Hne).
  unfold wf_seg in Ha, Hb. rewrite <- Hc, <- Hn, <- Hf in Hb.
  apply andb_prop in Ha. destruct Ha as [_ Ha]. apply andb_prop in Hb. destruct Hb as [_ Hb].
  destruct (sv_final a) as [f|].
  - apply andb_prop in Ha. destruct Ha as [_ Ha]. apply andb_prop in Hb. destruct Hb as [_ Hb].
    exact (chunks_ok_lens _ _ _ _ Ha Hb Hl).
  - exact (chunks_ok_lens _ _ _ _ Ha Hb Hl).
Qed.

Lemma Forall2_same_lens A B :
  Forall2 (same_shape bytes unit) A B -> wf bytes A = true -> wf unit B = true -> Forall2 same_lens A B.
Proof.
  induction 1 as [|a b A B Hab _ IH]; intros Ha Hb; [constructor|].
  unfold wf in Ha, Hb. cbn [forallb] in Ha, Hb. apply andb_prop in Ha. apply andb_prop in Hb.
  destruct Ha as [Ha1 Ha2]. destruct Hb as [Hb1 Hb2].
  constructor; [exact (same_lens_of_wf a b Hab Ha1 Hb1)|exact (IH Ha2 Hb2)].
Qed.

Lemma Forall2_same_lens_shape A B : Forall2 same_lens A B -> Forall2 (same_shape bytes unit) A B.
Proof. induction 1 as [|a b A B [Hab _] _ IH]; constructor; assumption. Qed.

(* same success with results of the same length / same error *)
Definition len_rel {X Y} (r1 : res (list X)) (r2 : res (list Y)) : Prop :=
  match r1, r2 with
  | Ok x, Ok y => zlen x = zlen y
  | Err e1, Err e2 => e1 = e2
  | _, _ => False
  end.

Lemma nth_error_map_zlen {X Y} (l : list (list X)) (l' : list (list Y)) k :
  map (@zlen X) l = map (@zlen Y) l' ->
  match nth_error l k, nth_error l' k with
  | Some c, Some c' => zlen c = zlen c'
  | None, None => True
  | _, _ => False
  end.
Proof.
  revert l' k. induction l as [|c l IH]; intros l' k H; destruct l' as [|c' l']; try discriminate.
  - destruct k; exact I.
  - cbn [map] in H. injection H as H1 H2. destruct k as [|k]; [exact H1|]. cbn [nth_error]. apply IH. exact H2.
Qed.

Lemma chunk_at_lens a b c : same_lens a b -> sv_chunk a <> 0 ->
  len_rel (chunk_at bytes a c) (chunk_at unit b c).
Proof.
  intros [(_ & Hn & _) Hl] Hne. specialize (Hl Hne). unfold chunk_at. rewrite <- Hn.
  destruct ((0 <=? c) && (c <? sv_nchunks a)); [|reflexivity].
  pose proof (nth_error_map_zlen (sv_vals a) (sv_vals b) (Z.to_nat c) Hl) as H.
  destruct (nth_error (sv_vals a) (Z.to_nat c)); destruct (nth_error (sv_vals b) (Z.to_nat c));
    cbn; try contradiction; [exact H|reflexivity].
Qed.

Lemma mapM_chunk_at_lens a b : same_lens a b -> sv_chunk a <> 0 -> forall l,
  match mapM (chunk_at bytes a) l, mapM (chunk_at unit b) l with
  | Ok x, Ok y => map (@zlen bytes) x = map (@zlen unit) y
  | Err e1, Err e2 => e1 = e2
  | _, _ => False
  end.
Proof.
  intros H Hne. induction l as [|c l IH]; [reflexivity|]. cbn [mapM].
  pose proof (chunk_at_lens a b c H Hne) as Hc. unfold len_rel in Hc.
  destruct (chunk_at bytes a c) as [x|e1]; destruct (chunk_at unit b c) as [y|e2]; cbn [bind]; try contradiction;
    [|exact Hc].
  destruct (mapM (chunk_at bytes a) l) as [xs|e1]; destruct (mapM (chunk_at unit b) l) as [ys|e2];
    cbn [bind]; try contradiction; [|exact IH].
  cbn [map]. rewrite Hc, IH. reflexivity.
Qed.

Lemma zlen_concat_lens {X Y} : forall (l : list (list X)) (l' : list (list Y)),
  map (@zlen X) l = map (@zlen Y) l' -> zlen (concat l) = zlen (concat l').
Proof.
  induction l as [|c l IH]; intros l' H; destruct l' as [|c' l']; try discriminate; [reflexivity|].
  cbn [map] in H. injection H as H1 H2. cbn [concat]. rewrite !zlen_app, H1, (IH l' H2). reflexivity.
Qed.

Lemma seg_fetch_lens a b co nc : same_lens a b -> sv_chunk a <> 0 ->
  match seg_fetch bytes a co nc, seg_fetch unit b co nc with
  | Ok x, Ok y => map (@zlen bytes) x = map (@zlen unit) y
  | Err e1, Err e2 => e1 = e2
  | _, _ => False
  end.
Proof.
  intros H Hne. pose proof H as [(Hc & _ & Hi & _) _]. unfold seg_fetch. rewrite <- Hi, <- Hc.
  pose proof (mapM_chunk_at_lens a b H Hne (zrange co (nc + co))) as Hm.
  destruct (sv_interleaved a); [|exact Hm].
  destruct (sv_chunk a * (nc + co - co) <? 0); [reflexivity|].
  destruct (mapM (chunk_at bytes a) (zrange co (nc + co))) as [xs|e1];
    destruct (mapM (chunk_at unit b) (zrange co (nc + co))) as [ys|e2]; cbn [bind]; try contradiction;
    [|exact Hm].
  cbn [map]. rewrite (zlen_concat_lens xs ys Hm). reflexivity.
Qed.

Lemma py_index_Forall2 {X Y} (R : X -> Y -> Prop) (l : list X) (l' : list Y) i :
  Forall2 R l l' ->
  match py_index l i, py_index l' i with
  | Ok x, Ok y => R x y
  | Err e1, Err e2 => e1 = e2
  | _, _ => False
  end.
Proof.
  intros H. assert (Hlen : zlen l = zlen l').
  { unfold zlen. f_equal. induction H as [|x y l l' _ _ IH]; [reflexivity|]. cbn [length]. rewrite IH. reflexivity. }
  unfold py_index. rewrite <- Hlen. cbv zeta.
  destruct ((0 <=? (if i <? 0 then i + zlen l else i)) && ((if i <? 0 then i + zlen l else i) <? zlen l));
    [|reflexivity].
  generalize (Z.to_nat (if i <? 0 then i + zlen l else i)). intros k.
  clear Hlen. revert k. induction H as [|x y l l' Hxy _ IH]; intros k; [destruct k; reflexivity|].
  destruct k as [|k]; [exact Hxy|]. cbn [nth_error]. apply IH.
Qed.

Lemma py_index_lens {X Y} (l : list X) (l' : list Y) i :
  zlen l = zlen l' ->
  match py_index l i, py_index l' i with
  | Ok _, Ok _ => True
  | Err e1, Err e2 => e1 = e2
  | _, _ => False
  end.
Proof.
  intros Hlen. destruct (py_index_spec l i) as [H1 H2]. destruct (py_index_spec l' i) as [H1' H2'].
  cbv zeta in *. rewrite <- Hlen in H1', H2'.
  destruct (Z_le_gt_dec 0 (if i <? 0 then i + zlen l else i)) as [Ha|Ha];
    [destruct (Z_lt_le_dec (if i <? 0 then i + zlen l else i) (zlen l)) as [Hb|Hb]|].
  - destruct (H1 ltac:(lia)) as (x & -> & _). destruct (H1' ltac:(lia)) as (y & -> & _). exact I.
  - rewrite (H2 ltac:(lia)), (H2' ltac:(lia)). reflexivity.
  - rewrite (H2 ltac:(lia)), (H2' ltac:(lia)). reflexivity.
Qed.

Lemma read_chunk_for_index_sim A B index :
  Forall2 same_lens A B ->
  match read_chunk_for_index bytes A index, read_chunk_for_index unit B index with
  | Ok (ch, off, f), Ok (ch', off', f') => zlen ch = zlen ch' /\ off = off' /\ f = f'
  | Err e1, Err e2 => e1 = e2
  | _, _ => False
  end.
Proof.
  intros H. pose proof (Forall2_same_lens_shape A B H) as Hsh.
  unfold read_chunk_for_index. rewrite <- (build_index_shape bytes unit A B Hsh).
  rewrite <- (zlen_shape bytes unit A B Hsh).
  destruct (build_index bytes A) as [f offsets].
  pose proof (py_index_Forall2 same_lens A B (f + searchsorted_right offsets index) H) as Hp.
  destruct (py_index A (f + searchsorted_right offsets index)) as [a|e1];
    destruct (py_index B (f + searchsorted_right offsets index)) as [b|e2]; cbn [bind]; try contradiction;
    [|exact Hp].
  pose proof Hp as [(Hc & _) _]. rewrite <- Hc.
  destruct (if f + searchsorted_right offsets index =? f then Ok 0
            else py_index offsets (f + searchsorted_right offsets index - f - 1)) as [ssi|e]; cbn [bind];
    [|reflexivity].
  destruct (sv_chunk a =? 0) eqn:Ec; [reflexivity|].
  pose proof (seg_fetch_lens a b ((index - ssi) / sv_chunk a) 1 Hp ltac:(lia)) as Hf.
  destruct (seg_fetch bytes a ((index - ssi) / sv_chunk a) 1) as [xs|e1];
    destruct (seg_fetch unit b ((index - ssi) / sv_chunk a) 1) as [ys|e2]; cbn [bind]; try contradiction;
    [|exact Hf].
  destruct xs as [|x xs]; destruct ys as [|y ys]; try discriminate; [reflexivity|].
  cbn [map] in Hf. injection Hf as Hxy _. split; [exact Hxy|]. split; reflexivity.
Qed.

(* the two one-chunk caches hold chunks of the same length under the same bounds *)
Definition cache_rel (cb : cache bytes) (cu : cache unit) : Prop :=
  match cb, cu with
  | None, None => True
  | Some (ch, bd), Some (ch', bd') => bd = bd' /\ zlen ch = zlen ch'
  | _, _ => False
  end.

Theorem read_at_index_sim A B cb cu i :
  Forall2 same_lens A B -> cache_rel cb cu ->
  match read_at_index bytes A cb i, read_at_index unit B cu i with
  | Ok (_, cb', log), Ok (_, cu', log') => log = log' /\ cache_rel cb' cu'
  | Err e1, Err e2 => e1 = e2
  | _, _ => False
  end.
Proof.
  intros H Hc. pose proof (Forall2_same_lens_shape A B H) as Hsh.
  unfold read_at_index. rewrite <- (total_values_shape bytes unit A B Hsh).
  destruct (read_at_index_check (total_values bytes A) i) as [idx|e]; cbn [bind]; [|reflexivity].
  assert (Hmiss :
    match (do '(chunk, chunk_offset, fetched) <- read_chunk_for_index bytes A idx;
           do v <- py_index chunk (idx - chunk_offset);
           Ok (v, Some (chunk, (chunk_offset, chunk_offset + zlen chunk)), [fetched])),
          (do '(chunk, chunk_offset, fetched) <- read_chunk_for_index unit B idx;
           do v <- py_index chunk (idx - chunk_offset);
           Ok (v, Some (chunk, (chunk_offset, chunk_offset + zlen chunk)), [fetched])) with
    | Ok (_, cb', log), Ok (_, cu', log') => log = log' /\ cache_rel cb' cu'
    | Err e1, Err e2 => e1 = e2
    | _, _ => False
    end).
  { pose proof (read_chunk_for_index_sim A B idx H) as Hr.
    destruct (read_chunk_for_index bytes A idx) as [[[ch off] f]|e1];
      destruct (read_chunk_for_index unit B idx) as [[[ch' off'] f']|e2]; cbn [bind]; try contradiction;
      [|exact Hr].
    destruct Hr as (Hl & <- & <-).
    pose proof (py_index_lens ch ch' (idx - off) Hl) as Hp.
    destruct (py_index ch (idx - off)) as [v|e1]; destruct (py_index ch' (idx - off)) as [v'|e2];
      cbn [bind]; try contradiction; [|exact Hp].
    split; [reflexivity|]. cbn [cache_rel]. rewrite Hl. split; reflexivity. }
  destruct cb as [[ch [b0 b1]]|]; destruct cu as [[ch' [b0' b1']]|]; cbn [cache_rel] in Hc; try contradiction.
  - destruct Hc as [Hbd Hl]. injection Hbd as <- <-.
    destruct ((b0 <=? idx) && (idx <? b1)); [|exact Hmiss].
    pose proof (py_index_lens ch ch' (idx - b0) Hl) as Hp.
    destruct (py_index ch (idx - b0)) as [v|e1]; destruct (py_index ch' (idx - b0)) as [v'|e2];
      cbn [bind]; try contradiction; [|exact Hp].
    split; [reflexivity|]. cbn [cache_rel]. split; [reflexivity|exact Hl].
  - exact Hmiss.
Qed.

Section File.
  Variables (segs : list fseg) (st : rstate) (h : hierarchy) (chunkss : list (list chunk)).
  Hypothesis Hwf : wf_file segs.
  Hypothesis Hrun : sm_run segs false = Ok st.
  Hypothesis Hh : build_hierarchy (rs_om st) = Ok h.
  Hypothesis Henc : segs_encode (rs_segments st) segs chunkss.
  Hypothesis Hcanon : om_paths_canonical (rs_om st).
  Hypothesis Hdist : seg_paths_distinct st.
  Hypothesis Hty : empty_segments_typed (rs_segments st).

  Local Notation eager c := (chan_values (ch_path c) (concat chunkss)).
  Local Notation data := (ser_file segs).

  (* the state of TdmsFile.open, its invariant, and the two views of a channel *)
  Lemma file_views c :
    In c (all_channels h) ->
    exists st' views svs,
      open_state data = Ok st' /\
      (forall path, ranges_inv st' data path = true) /\
      chan_dtype st' (ch_path c) = ch_dtype c /\
      meta_views st' (ch_path c) = Ok views /\ wf unit views = true /\
      channel_view data (ch_path c) = Ok (svs, ch_dtype c) /\
      wf bytes svs = true /\ full bytes svs = eager c /\
      Forall2 (same_shape bytes unit) svs views /\
      total_values unit views = ch_len c.
  Proof.
    intros Hc.
    destruct (ranges_inv_serialised segs st chunkss Hwf Hrun Henc Hty) as (st' & Hopen & _ & Hom & Hinv).
    destruct (ranges_inv_views st' data (ch_path c) (Hinv (ch_path c))) as (views & Hv & Hwfv & _).
    destruct (channel_view_channel segs st h chunkss Hwf Hrun Hh Henc Hcanon Hdist c Hc)
      as (svs & Hview & Hwfs & Hfull & Htot).
    destruct (channel_lookup segs false st h c Hrun Hh Hcanon Hc) as (m & Hm & Hdt & _).
    pose proof (view_shapes data (ch_path c) st' svs (ch_dtype c) views Hopen (Hinv _) Hview Hv) as Hsh.
    exists st', views, svs. split; [exact Hopen|]. split; [exact Hinv|]. split.
    { unfold chan_dtype. rewrite Hom, Hm. symmetry. exact Hdt. }
    split; [exact Hv|]. split; [exact Hwfv|]. split; [exact Hview|]. split; [exact Hwfs|].
    split; [exact Hfull|]. split; [exact Hsh|].
    rewrite <- (total_values_shape bytes unit svs views Hsh). exact Htot.
  Qed.

  (* read_data(offs, len): the reads, the plan, the bound and the values *)
  Theorem fetch_and_values_file c offs len :
    In c (all_channels h) -> 0 <= offs -> len_nonneg len ->
    exists st' views svs plan rs s e,
      open_state data = Ok st' /\
      meta_views st' (ch_path c) = Ok views /\ wf unit views = true /\
      total_values unit views = ch_len c /\
      channel_view data (ch_path c) = Ok (svs, ch_dtype c) /\
      (* ONE plan: on the metadata, and on the view the values are decoded through *)
      lz_plan unit views offs len = Ok plan /\ lz_plan bytes svs offs len = Ok plan /\
      lz_plan_bytes data (ch_path c) offs len = Ok plan /\ NoDup plan /\
      (forall j cc, In (j, cc) plan <->
         exists sv, 0 <= j /\ nth_error views (Z.to_nat j) = Some sv /\
                    sv_chunk sv <> 0 /\ 0 <= cc < sv_nchunks sv /\
                    chunk_start unit (pre unit views j) sv cc < win_end (ch_len c) offs len /\
                    offs < chunk_end unit (pre unit views j) sv cc) /\
      (* what is fetched *)
      lz_ranges st' data (ch_path c) offs len = Ok rs /\
      lz_ranges_bytes data (ch_path c) offs len = Ok (match ch_dtype c with Some _ => rs | None => [] end) /\
      (forall pos n, In (pos, n) rs ->
         (exists j g, seg_visited views offs len j /\
                      nth_error (rs_segments st') (Z.to_nat j) = Some g /\ pos = sg_pos g /\ n = 4) \/
         (0 <= n /\ forall b, pos <= b < pos + n ->
                      exists jc, In jc plan /\ in_chunk_window st' (ch_path c) jc b)) /\
      (forall j, s <= j <= e -> seg_visited views offs len j) /\
      total_bytes rs <= 4 * Z.max 0 (e - s + 1) + SegState.zsum (map (chunk_cost st' (ch_path c)) plan) /\
      (* what is returned *)
      lz_read_bytes data (ch_path c) offs len = Ok (window_of offs len (eager c)).
  Proof.
    intros Hc Hoffs Hlen.
    destruct (file_views c Hc) as (st' & views & svs & Hopen & Hinv & Hcd & Hv & Hwfv & Hview & _ & _ & Hsh & Htot).
    destruct (ranges_top st' data (ch_path c) offs len (Hinv _) Hoffs Hlen)
      as (views' & plan & rs & Hv' & _ & Hplan & Hrs & Hin & (s & e & Hvis & Hbound)).
    rewrite Hv in Hv'. injection Hv' as <-.
    destruct (plan_exact unit views offs len Hwfv Hoffs Hlen) as (plan' & Hplan' & Hiff).
    rewrite Hplan in Hplan'. injection Hplan' as <-.
    pose proof (lz_plan_shape bytes unit svs views offs len Hsh) as Hpb. rewrite Hplan in Hpb.
    exists st', views, svs, plan, rs, s, e.
    split; [exact Hopen|]. split; [exact Hv|]. split; [exact Hwfv|]. split; [exact Htot|].
    split; [exact Hview|]. split; [exact Hplan|]. split; [exact Hpb|]. split.
    { unfold lz_plan_bytes. rewrite Hview. cbn [bind]. exact Hpb. }
    split; [exact (plan_nodup views offs len plan Hplan)|]. split.
    { intros j cc. rewrite <- Htot. exact (Hiff j cc). }
    split; [exact Hrs|]. split.
    { unfold lz_ranges_bytes. rewrite Hopen. cbn [bind]. rewrite Hcd.
      destruct (ch_dtype c) as [dt|]; [exact Hrs|].
      replace (offs <? 0) with false by lia.
      destruct len as [l|]; cbn in Hlen; [replace (l <? 0) with false by lia|]; reflexivity. }
    split; [exact Hin|]. split; [exact Hvis|]. split; [exact Hbound|].
    exact (lazy_is_window_of_eager segs st h chunkss Hwf Hrun Hh Henc Hcanon Hdist c offs len Hc Hoffs Hlen).
  Qed.

  (* the two statements of Props/C19_bytes.v without the invariant hypothesis, each with the
     values returned: projections of fetch_and_values_file *)
  Corollary ranges_within_request_file c offs len :
    In c (all_channels h) -> 0 <= offs -> len_nonneg len ->
    exists st' views rs,
      open_state data = Ok st' /\
      meta_views st' (ch_path c) = Ok views /\ wf unit views = true /\
      total_values unit views = ch_len c /\
      lz_ranges_bytes data (ch_path c) offs len = Ok rs /\
      (forall pos n, In (pos, n) rs ->
         (exists j g, seg_visited views offs len j /\
                      nth_error (rs_segments st') (Z.to_nat j) = Some g /\ pos = sg_pos g /\ n = 4) \/
         (0 <= n /\ forall b, pos <= b < pos + n ->
            exists j cc sv g lo hi,
              0 <= j /\ nth_error views (Z.to_nat j) = Some sv /\
              nth_error (rs_segments st') (Z.to_nat j) = Some g /\
              sv_chunk sv <> 0 /\ 0 <= cc < sv_nchunks sv /\
              chunk_start unit (pre unit views j) sv cc < win_end (ch_len c) offs len /\
              offs < chunk_end unit (pre unit views j) sv cc /\
              chunk_window (ch_path c) g cc = Some (lo, hi) /\ lo <= b < hi)) /\
      lz_read_bytes data (ch_path c) offs len = Ok (window_of offs len (eager c)).
  Proof.
    intros Hc Hoffs Hlen.
    destruct (fetch_and_values_file c offs len Hc Hoffs Hlen)
      as (st' & views & svs & plan & rs & s & e & A1 & A2 & A3 & A4 & _ & _ & _ & _ & _ & Aiff & _ & A12 & A13 & _ & _ & A16).
    exists st', views, (match ch_dtype c with Some _ => rs | None => [] end).
    split; [exact A1|]. split; [exact A2|]. split; [exact A3|]. split; [exact A4|]. split; [exact A12|].
    split; [|exact A16].
    intros pos n Hp.
    assert (Hp' : In (pos, n) rs) by (destruct (ch_dtype c); [exact Hp|destruct Hp]).
    destruct (A13 pos n Hp') as [Htag|[Hn Hb]]; [left; exact Htag|right].
    split; [exact Hn|]. intros b Hbb. destruct (Hb b Hbb) as ([j cc] & Hjc & (g & lo & hi & Hg & Hw & Hlh)).
    cbn [fst snd] in Hg, Hw. apply Aiff in Hjc. destruct Hjc as (sv & Hj & Hsv & Hcs & Hcc & Hst & Hen).
    exists j, cc, sv, g, lo, hi. repeat (split; [assumption|]). assumption.
  Qed.

  Corollary bytes_bounded_by_request_file c offs len :
    In c (all_channels h) -> 0 <= offs -> len_nonneg len ->
    exists st' views plan rs s e,
      open_state data = Ok st' /\
      meta_views st' (ch_path c) = Ok views /\ total_values unit views = ch_len c /\
      lz_plan unit views offs len = Ok plan /\ lz_plan_bytes data (ch_path c) offs len = Ok plan /\
      NoDup plan /\
      (forall j cc, In (j, cc) plan <->
         exists sv, 0 <= j /\ nth_error views (Z.to_nat j) = Some sv /\
                    sv_chunk sv <> 0 /\ 0 <= cc < sv_nchunks sv /\
                    chunk_start unit (pre unit views j) sv cc < win_end (ch_len c) offs len /\
                    offs < chunk_end unit (pre unit views j) sv cc) /\
      lz_ranges_bytes data (ch_path c) offs len = Ok rs /\
      (forall j, s <= j <= e -> seg_visited views offs len j) /\
      total_bytes rs <= 4 * Z.max 0 (e - s + 1) + SegState.zsum (map (chunk_cost st' (ch_path c)) plan) /\
      lz_read_bytes data (ch_path c) offs len = Ok (window_of offs len (eager c)).
  Proof.
    intros Hc Hoffs Hlen.
    destruct (fetch_and_values_file c offs len Hc Hoffs Hlen)
      as (st' & views & svs & plan & rs & s & e & A1 & A2 & _ & A4 & _ & A6 & _ & A8 & A9 & Aiff & _ & A12 & A13 & A14 & A15 & A16).
    exists st', views, plan, (match ch_dtype c with Some _ => rs | None => [] end), s, e.
    split; [exact A1|]. split; [exact A2|]. split; [exact A4|]. split; [exact A6|]. split; [exact A8|].
    split; [exact A9|]. split; [exact Aiff|]. split; [exact A12|]. split; [exact A14|]. split; [|exact A16].
    destruct (ch_dtype c); [exact A15|].
    change (total_bytes []) with 0.
    assert (Hnn : 0 <= total_bytes rs); [|lia].
    clear - A13. induction rs as [|[p n] rs IH]; [cbn; lia|].
    rewrite total_bytes_cons.
    assert (0 <= n).
    { destruct (A13 p n (or_introl eq_refl)) as [(_ & _ & _ & _ & _ & ->)|[Hn _]]; lia. }
    assert (0 <= total_bytes rs); [|lia].
    apply IH. intros pos k Hk. apply A13. right. exact Hk.
  Qed.

  (* channel[start:stop:step]: the translated _read_slice turns the request into at most one
     read_data(a, b) with a, b >= 0 -- whose reads fetch_and_values_file describes -- and the
     values are Python's slice of the eager data *)
  Theorem slice_fetch_and_values_file c start stop step :
    In c (all_channels h) ->
    exists st' views,
      open_state data = Ok st' /\
      meta_views st' (ch_path c) = Ok views /\ total_values unit views = ch_len c /\
      match read_slice_gen (ch_len c) start stop step with
      | Err e => lz_slice_ranges st' data (ch_path c) views start stop step = Err e
      | Ok PEmpty => lz_slice_ranges st' data (ch_path c) views start stop step = Ok []
      | Ok (PRead a b _) =>
        0 <= a /\ 0 <= b /\
        lz_slice_ranges st' data (ch_path c) views start stop step = lz_ranges st' data (ch_path c) a (Some b)
      end /\
      run_slice (fun a b => lz_read_bytes data (ch_path c) a (Some b)) (ch_len c) start stop step
      = py_slice3 (eager c) start stop step.
  Proof.
    intros Hc.
    destruct (file_views c Hc) as (st' & views & svs & Hopen & _ & _ & Hv & _ & _ & _ & _ & _ & Htot).
    exists st', views. split; [exact Hopen|]. split; [exact Hv|]. split; [exact Htot|]. split.
    - unfold lz_slice_ranges. rewrite Htot.
      destruct (read_slice_gen (ch_len c) start stop step) as [[|a b k]|e] eqn:Eg; cbn [bind]; try reflexivity.
      assert (Hn : 0 <= ch_len c).
      { rewrite <- (proj1 (full_read_length_ser segs st h chunkss Hwf Hrun Hh Henc Hcanon Hdist c Hc)). lia. }
      destruct (read_slice_gen_nonneg _ _ _ _ _ _ _ Hn Eg) as [Ha Hb].
      split; [exact Ha|]. split; [exact Hb|reflexivity].
    - exact (lazy_slice_correct segs st h chunkss Hwf Hrun Hh Henc Hcanon Hdist c start stop step Hc).
  Qed.

  (* channel[i] through the one-chunk cache.  [cb] is the cache of the run that returns VALUES
     (LazyRead.read_at_index on the view decoded from the bytes), [cu] the cache of the run that
     lists the READS (lz_index_ranges on the metadata view); they start empty and stay related:
     same bounds, same chunk length.  Every step returns NumPy's indexing of the eager data; a
     miss fetches the tag check of the one segment and bytes inside the window of the one chunk
     that holds the index; a hit fetches nothing. *)
  Theorem index_fetch_and_values_file c :
    In c (all_channels h) -> ch_dtype c <> None ->
    exists st' views svs dt,
      open_state data = Ok st' /\
      meta_views st' (ch_path c) = Ok views /\ total_values unit views = ch_len c /\
      channel_view data (ch_path c) = Ok (svs, Some dt) /\
      forall cb cu i, cache_inv bytes svs cb -> cache_inv unit views cu -> cache_rel cb cu ->
        match py_index (eager c) i with
        | Err _ => read_at_index bytes svs cb i = Err EIndex /\
                   lz_index_ranges st' data (ch_path c) views cu i = Err EIndex
        | Ok x =>
          exists cb' cu' log rs,
            read_at_index bytes svs cb i = Ok (x, cb', log) /\
            lz_index_ranges st' data (ch_path c) views cu i = Ok (rs, cu') /\
            cache_inv bytes svs cb' /\ cache_inv unit views cu' /\ cache_rel cb' cu' /\
            ((log = [] /\ rs = []) \/
             exists j cc sv g,
               log = [(j, cc)] /\ 0 <= j /\ nth_error views (Z.to_nat j) = Some sv /\
               nth_error (rs_segments st') (Z.to_nat j) = Some g /\
               sv_chunk sv <> 0 /\ 0 <= cc < sv_nchunks sv /\
               (let i' := if i <? 0 then i + ch_len c else i in
                chunk_start unit (pre unit views j) sv cc <= i' < chunk_end unit (pre unit views j) sv cc) /\
               (forall p n, In (p, n) rs ->
                  (p = sg_pos g /\ n = 4) \/
                  (0 <= n /\ forall b, p <= b < p + n -> in_chunk_window st' (ch_path c) (j, cc) b)) /\
               total_bytes rs <= 4 + chunk_cost st' (ch_path c) (j, cc))
        end.
  Proof.
    intros Hc Hty0.
    destruct (file_views c Hc) as (st' & views & svs & Hopen & Hinv & _ & Hv & Hwfv & Hview & Hwfs & Hfull & Hsh & Htot).
    destruct (ch_dtype c) as [dt|] eqn:Edt; [|contradiction].
    exists st', views, svs, dt. split; [exact Hopen|]. split; [exact Hv|]. split; [exact Htot|].
    split; [exact Hview|]. intros cb cu i Hcb Hcu Hrel.
    pose proof (Forall2_same_lens svs views Hsh Hwfs Hwfv) as Hlens.
    pose proof (read_at_index_sim svs views cb cu i Hlens Hrel) as Hsim.
    pose proof (LazyTopProofs.index_correct bytes svs cb i Hwfs Hcb) as Hb. rewrite Hfull in Hb.
    pose proof (LazyTopProofs.index_correct unit views cu i Hwfv Hcu) as Hu.
    destruct (py_index (eager c) i) as [x|err].
    - destruct Hb as (cb' & log & Hrb & Hcb' & _). rewrite Hrb in Hsim.
      destruct (read_at_index unit views cu i) as [[[u cu'] log']|e] eqn:Eru; [|contradiction].
      destruct Hsim as [<- Hrel'].
      assert (Hcu' : cache_inv unit views cu').
      { destruct (py_index (full unit views) i); [|discriminate].
        destruct Hu as (cu'' & log'' & Hu1 & Hu2 & _). injection Hu1 as _ <- _. exact Hu2. }
      destruct (index_ranges_top st' data (ch_path c) views cu i u cu' log (Hinv _) Hv Hcu Eru)
        as (rs & Hrs & Hcase).
      exists cb', cu', log, rs. split; [exact Hrb|]. split; [exact Hrs|]. split; [exact Hcb'|].
      split; [exact Hcu'|]. split; [exact Hrel'|]. rewrite <- Htot. exact Hcase.
    - rewrite Hb in Hsim. split; [exact Hb|].
      destruct (read_at_index unit views cu i) as [[[u cu'] log']|e] eqn:Eru; [contradiction|].
      subst e. unfold lz_index_ranges. rewrite Eru. reflexivity.
  Qed.

  (* indexing again into the chunk just read fetches nothing (and still returns the value) *)
  Theorem index_hit_reads_nothing_file c :
    In c (all_channels h) -> ch_dtype c <> None ->
    exists st' views svs dt,
      open_state data = Ok st' /\
      meta_views st' (ch_path c) = Ok views /\ total_values unit views = ch_len c /\
      channel_view data (ch_path c) = Ok (svs, Some dt) /\
      forall chb chu b0 b1 i,
        let cb := Some (chb, (b0, b1)) in
        let cu := Some (chu, (b0, b1)) in
        cache_inv bytes svs cb -> cache_inv unit views cu -> cache_rel cb cu ->
        (let i' := if i <? 0 then ch_len c + i else i in b0 <= i' < b1) ->
        exists x, py_index (eager c) i = Ok x /\
                  read_at_index bytes svs cb i = Ok (x, cb, []) /\
                  lz_index_ranges st' data (ch_path c) views cu i = Ok ([], cu).
  Proof.
    intros Hc Hty0.
    destruct (index_fetch_and_values_file c Hc Hty0) as (st' & views & svs & dt & Hopen & Hv & Htot & Hview & Hstep).
    exists st', views, svs, dt. split; [exact Hopen|]. split; [exact Hv|]. split; [exact Htot|].
    split; [exact Hview|]. intros chb chu b0 b1 i cb cu Hcb Hcu Hrel Hi.
    destruct (file_views c Hc) as (st2 & views2 & svs2 & Hopen2 & _ & _ & Hv2 & _ & Hview2 & Hwfs & Hfull & Hsh & _).
    rewrite Hopen in Hopen2. injection Hopen2 as <-. rewrite Hv in Hv2. injection Hv2 as <-.
    rewrite Hview in Hview2. injection Hview2 as <- Hdt.
    assert (Htb : total_values bytes svs = ch_len c).
    { rewrite (total_values_shape bytes unit svs views Hsh). exact Htot. }
    specialize (Hstep cb cu i Hcb Hcu Hrel).
    assert (Hin : exists x, py_index (eager c) i = Ok x).
    { cbv zeta in Hi. cbn [cache_inv] in Hcb. destruct Hcb as (Hb0 & Hb1 & Hch).
      pose proof (zlen_full bytes svs Hwfs) as Hzl. rewrite Hfull, Htb in Hzl.
      assert (Hlen : zlen chb = Z.max 0 (Z.min b1 (ch_len c) - b0)).
      { rewrite Hch at 1. rewrite zlen_sl by lia. rewrite Hfull, Hzl. reflexivity. }
      destruct (py_index_spec (eager c) i) as [Hok _]. cbv zeta in Hok. rewrite Hzl in Hok.
      destruct Hok as (x & Hx & _); [|eauto].
      destruct (i <? 0); lia. }
    destruct Hin as [x Hx]. rewrite Hx in Hstep.
    destruct Hstep as (cb' & cu' & log & rs & Hrb & Hru & _).
    exists x. split; [exact Hx|].
    assert (Hib : let i' := if i <? 0 then total_values bytes svs + i else i in b0 <= i' < b1)
      by (rewrite Htb; exact Hi).
    destruct (cache_hit_reads_nothing bytes svs chb b0 b1 i (x, cb', log) Hib Hrb) as [Hlog Hcb'].
    cbn [fst snd] in Hlog, Hcb'. subst log cb'. split; [exact Hrb|].
    assert (Hiu : let i' := if i <? 0 then total_values unit views + i else i in b0 <= i' < b1)
      by (rewrite Htot; exact Hi).
    destruct (LazyRangesTop.index_hit_reads_nothing st' data (ch_path c) views chu b0 b1 i (rs, cu') Hiu Hru)
      as [Hrs Hcu'].
    cbn [fst snd] in Hrs, Hcu'. subst rs cu'. exact Hru.
  Qed.
End File.
