(* The EAGER READ PATH, TRANSLATED from the source on every run (Gen/PyFuncsEagerLoop.v;
   harness/gen/gen_pyfuncs_eagerloop.py: TdmsSegment._have_interleaved_data, _get_data_reader, _get_data_objects,
   _read_data_chunks, read_raw_data; TdmsReader._verify_segment_start, read_raw_data; TdmsFile._read_data), is EQUAL to
   Model/Layout.v seg_layout / read_segment_chunks and Model/Reader.v read_segment / rd_eager.

   Chunk abstraction: Proofs/GenDaqmxEquiv.v [rawchunk_chunk_dq] (arrays as their canonical value bytes; plain data
   and scaler dictionaries), lifted to lists ([chunks_abs_dq]); receiver abstraction: Proofs/GenDecodeRecv.v [recv_abs]
   (a preallocated array up to its insert position). *)
From Coq Require Import String Ascii.
From Coq Require Import ZArith List Bool Lia ZifyBool.
From Coq Require Import Init.Byte.
Import ListNotations.
From NpTdms Require Import Base.Bytes Base.Res Base.PySlice Model.Tokens Model.SegState Model.Layout Model.Reader
     Gen.TypeTable Gen.PyFuncsReader Gen.PyFuncsDecode Gen.PyFuncsDaqmxRead Gen.PyFuncsDaqmxLoop Gen.PyFuncsEagerLoop
     Proofs.SegStateProofs Proofs.LayoutProofs Proofs.DaqmxProofs Proofs.GenReaderEquiv Proofs.GenDecodeEquiv
     Proofs.GenDecodeRecv Proofs.GenDaqmxEquiv Proofs.GenDaqmxLoopEquiv Proofs.ReadCorrect.
Local Open Scope Z_scope.
Ltac Zify.zify_post_hook ::= Z.to_euclidean_division_equations.

(* ---- TdmsSegment._have_interleaved_data = have_interleaved ------------------------------------------------------- *)

Definition unsizedb (o : sobj) : bool := match sized o with None => true | Some _ => false end.

Lemma have_interleaved_loop_eq objs : forall a b,
  have_interleaved_data_gen_loop1 objs a b
  = Ok (a + Z.of_nat (length (data_objs objs)), b + Z.of_nat (length (filter unsizedb (data_objs objs)))).
Proof.
  induction objs as [|o r IH]; intros a b.
  - cbn. f_equal. f_equal; lia.
  - cbn [have_interleaved_data_gen_loop1 data_objs filter]. fold (data_objs r).
    destruct (so_has_data o); [|apply IH].
    cbn [filter length]. unfold unsizedb at 1. rewrite gsized_eq. unfold is_none.
    destruct (sized o); cbn [length]; rewrite IH; f_equal; f_equal; lia.
Qed.

Theorem have_interleaved_data_eq s :
  have_interleaved_data_gen s = have_interleaved (sg_toc s) (data_objs (sg_objs s)).
Proof.
  unfold have_interleaved_data_gen, have_interleaved, toc_has, TOC_INTERLEAVED.
  destruct (negb (negb (Z.land (sg_toc s) 32 =? 0))); [reflexivity|].
  rewrite have_interleaved_loop_eq. cbn [bind]. fold unsizedb.
  set (d := data_objs (sg_objs s)). set (u := length (filter unsizedb d)).
  destruct (Nat.eqb_spec u 0) as [E0|E0].
  - assert (E : (0 + Z.of_nat u =? 0) = true) by lia. rewrite E. reflexivity.
  - assert (E : (0 + Z.of_nat u =? 0) = false) by lia. rewrite E.
    destruct (Nat.eqb_spec u 1) as [E1|E1]; destruct (Nat.eqb_spec (length d) 1) as [E2|E2]; cbn [andb].
    + assert (E' : (0 + Z.of_nat u =? 1) && (0 + Z.of_nat (length d) =? 1) = true) by lia. rewrite E'. reflexivity.
    + assert (E' : (0 + Z.of_nat u =? 1) && (0 + Z.of_nat (length d) =? 1) = false) by lia. rewrite E'. reflexivity.
    + assert (E' : (0 + Z.of_nat u =? 1) && (0 + Z.of_nat (length d) =? 1) = false) by lia. rewrite E'. reflexivity.
    + assert (E' : (0 + Z.of_nat u =? 1) && (0 + Z.of_nat (length d) =? 1) = false) by lia. rewrite E'. reflexivity.
Qed.

(* ---- TdmsSegment._get_data_reader = seg_layout ---------------------------------------------------------------------- *)

Definition layout_code (l : layout) : Z := match l with LContig => 0 | LInterleaved => 1 | LDaqmx => 2 end.
Definition endian_flag (toc : Z) : Z := if toc_has toc TOC_BIGENDIAN then 1 else 0.

(* the reader object: its class is the segment's layout, its attributes are num_chunks, the final-chunk override and
   the byte order of the ToC *)
Definition reader_of (s : segment) (l : layout) : datareader :=
  (layout_code l, sg_nchunks s, sg_final s, endian_flag (sg_toc s)).

Theorem get_data_reader_eq s : get_data_reader_gen s = mapr (reader_of s) (seg_layout s).
Proof.
  unfold get_data_reader_gen, seg_layout, reader_of, endian_flag, toc_has, TOC_BIGENDIAN.
  rewrite have_daqmx_objects_eq.
  destruct (have_daqmx (sg_objs s)) as [[|]|e]; cbn [opt_view bind mapr]; [reflexivity| |reflexivity].
  rewrite have_interleaved_data_eq.
  destruct (have_interleaved (sg_toc s) (data_objs (sg_objs s))) as [[|]|e]; reflexivity.
Qed.

Lemma dr_endian_flag toc : dr_endian (endian_flag toc) = toc_endian toc.
Proof. unfold dr_endian, endian_flag, toc_endian. destruct (toc_has toc TOC_BIGENDIAN); reflexivity. Qed.

(* ---- TdmsSegment._get_data_objects / the comprehension in read_raw_data = data_objs ---------------------------------- *)

Lemma map_id_filter (l : list sobj) : List.map (fun o => o) (List.filter (fun o => so_has_data o) l) = data_objs l.
Proof. rewrite map_id. reflexivity. Qed.

Theorem get_data_objects_eq s : get_data_objects_gen s = Ok (data_objs (sg_objs s)).
Proof. unfold get_data_objects_gen. rewrite map_id_filter. reflexivity. Qed.

(* ---- `for chunk in <chunks>: yield chunk` ------------------------------------------------------------------------------ *)

Lemma yield_all_1 : forall xs ys, segment_read_data_chunks_gen_loop1 xs ys = Ok (ys ++ xs).
Proof.
  induction xs as [|x xs IH]; intros ys; cbn [segment_read_data_chunks_gen_loop1].
  - rewrite app_nil_r. reflexivity.
  - rewrite IH, <- app_assoc. reflexivity.
Qed.

Lemma yield_all_4 : forall xs ys, reader_read_raw_data_gen_loop4 xs ys = Ok (ys ++ xs).
Proof.
  induction xs as [|x xs IH]; intros ys; cbn [reader_read_raw_data_gen_loop4].
  - rewrite app_nil_r. reflexivity.
  - rewrite IH, <- app_assoc. reflexivity.
Qed.

(* ---- TdmsSegment._read_data_chunks = read_segment_chunks -------------------------------------------------------------- *)

Lemma chunks_abs_dq_extends l cs : chunks_abs l = Some cs -> chunks_abs_dq l = Some cs.
Proof.
  unfold chunks_abs, chunks_abs_dq. revert cs. induction l as [|y l IH]; intros cs H; [exact H|].
  cbn [map opt_all] in *. destruct (rawchunk_chunk y) as [yc|] eqn:Ey; [|discriminate].
  rewrite (rawchunk_chunk_dq_extends y yc Ey).
  destruct (opt_all (map rawchunk_chunk l)) as [lc|]; [|discriminate]. rewrite (IH lc eq_refl). exact H.
Qed.

Lemma mapr_abs_extends {B} (r : res (list rawchunk * B)) (m : res (list chunk * B)) :
  mapr (fun p => (chunks_abs (fst p), snd p)) r = mapr (fun p => (Some (fst p), snd p)) m ->
  mapr (fun p => (chunks_abs_dq (fst p), snd p)) r = mapr (fun p => (Some (fst p), snd p)) m.
Proof.
  destruct r as [[l b]|e]; destruct m as [[cs b']|e']; cbn [mapr fst snd]; intros H; try discriminate; [|exact H].
  injection H as H1 H2. rewrite (chunks_abs_dq_extends l cs H1), H2. reflexivity.
Qed.

(* the domain of the chunk readers' equalities (Proofs/GenDecodeEquiv.v, GenDaqmxEquiv.v), per layout; [cur] is the file
   from the segment's data position on.  First clause: the model's loop has the fuel 2 + length of the file. *)
Definition seg_data_ok (sg : segment) (cur : bytes) : Prop :=
  (Z.to_nat (sg_nchunks sg) <= S (S (length cur)))%nat /\
  let dobjs := data_objs (sg_objs sg) in
  match seg_layout sg with
  | Ok LDaqmx => daqmx_objs_ok dobjs
  | Ok LInterleaved =>
    Forall (fun o => sized o <> None) dobjs /\ (forall o0, hd_error dobjs = Some o0 -> 0 <= so_nvals o0 * sg_nchunks sg)
  | Ok LContig =>
    Forall obj_ok dobjs /\ (forall c, Forall (fun o => 0 <= chunk_nvals o c (sg_nchunks sg) (sg_final sg)) dobjs) /\
    chunks_strings_valid (toc_endian (sg_toc sg)) dobjs (sg_nchunks sg) (sg_final sg) (py_range 0 (sg_nchunks sg)) cur
  | Err _ => True
  end.

Theorem segment_read_data_chunks_eq sg cur :
  seg_data_ok sg cur ->
  mapr (fun p => (chunks_abs_dq (fst p), snd p))
       (segment_read_data_chunks_gen sg cur (data_objs (sg_objs sg)) (sg_nchunks sg))
  = mapr (fun p => (Some (fst p), snd p)) (read_segment_chunks sg cur).
Proof.
  intros [Hfuel Hdom]. unfold segment_read_data_chunks_gen, read_segment_chunks. rewrite get_data_reader_eq.
  cbv zeta in Hdom.
  destruct (seg_layout sg) as [lay|e]; cbn [mapr bind]; [|reflexivity].
  assert (Hy : forall (r : res (list rawchunk * bytes)),
             (do '(t2__, file) <- r; do yielded__ <- segment_read_data_chunks_gen_loop1 t2__ []; Ok (yielded__, file)) = r).
  { intros [[l b]|e]; cbn [bind]; [|reflexivity]. rewrite yield_all_1. reflexivity. }
  unfold reader_of, reader_read_data_chunks_gen. rewrite dr_endian_flag.
  destruct lay; cbn [layout_code Z.eqb]; rewrite Hy.
  - destruct Hdom as [Hok [Hnn Hval]]. apply mapr_abs_extends. apply contig_read_data_chunks_eq; assumption.
  - destruct Hdom as [Hall Hn]. apply mapr_abs_extends. apply interleaved_read_data_chunks_eq; assumption.
  - apply daqmx_read_data_chunks_eq; assumption.
Qed.

(* ---- reading never lengthens the file suffix ----------------------------------------------------------------------------- *)

Lemma blen_drop_le n (b : bytes) : blen (drop n b) <= blen b.
Proof. unfold drop, blen. rewrite skipn_length. lia. Qed.

Lemma repeat_parse_le {A} (p : bytes -> res (A * bytes)) :
  (forall bs x r, p bs = Ok (x, r) -> blen r <= blen bs) ->
  forall fuel n bs l r, repeat_parse p fuel n bs = Ok (l, r) -> blen r <= blen bs.
Proof.
  intros Hp. induction fuel as [|fuel IH]; intros n bs l r H; cbn [repeat_parse] in H.
  - destruct (n <=? 0); [injection H as _ <-; lia|discriminate].
  - destruct (n <=? 0); [injection H as _ <-; lia|].
    destruct (p bs) as [[x bs1]|] eqn:E1; cbn [bind] in H; [|discriminate].
    destruct (repeat_parse p fuel (n - 1) bs1) as [[xs bs2]|] eqn:E2; cbn [bind] in H; [|discriminate].
    injection H as _ <-. pose proof (Hp _ _ _ E1). pose proof (IH _ _ _ _ E2). lia.
Qed.

Lemma read_strings_le : forall offs prev cur ss r, read_strings offs prev cur = (ss, r) -> blen r <= blen cur.
Proof.
  induction offs as [|o offs IH]; intros prev cur ss r H; cbn [read_strings] in H.
  - injection H as _ <-. lia.
  - destruct (o - prev <? 0).
    + destruct (read_strings offs o []) as [ss' cur2] eqn:E. injection H as _ <-.
      pose proof (IH _ _ _ _ E). pose proof (blen_nonneg cur). unfold blen in *. cbn [length] in *. lia.
    + unfold get_raw in H. destruct (read_strings offs o (drop (o - prev) cur)) as [ss' cur2] eqn:E. injection H as _ <-.
      pose proof (IH _ _ _ _ E). pose proof (blen_drop_le (o - prev) cur). lia.
Qed.

Lemma read_values_le e o n cur vs r : read_values e o n cur = Ok (vs, r) -> blen r <= blen cur.
Proof.
  unfold read_values. destruct (so_dtype o) as [dt|]; [|discriminate].
  destruct (tds_size dt) as [[sz|]|].
  - unfold get_raw. destruct (has_nptype dt).
    + intros [= _ <-]. apply blen_drop_le.
    + destruct (negb (blen (take (n * sz) cur) mod sz =? 0)); [discriminate|]. intros [= _ <-]. apply blen_drop_le.
  - destruct (parse_n (get_u32 e) n cur) as [[offs cur1]|] eqn:E; cbn [bind]; [|discriminate].
    intros [= H]. pose proof (read_strings_le _ _ _ _ _ H).
    assert (blen cur1 <= blen cur).
    { eapply (repeat_parse_le (get_u32 e)); [|exact E]. intros bs x r0 Hg. pose proof (get_u32_shorter _ _ _ _ Hg). unfold blen. lia. }
    lia.
  - destruct (parse_n (get_u32 e) n cur) as [[offs cur1]|] eqn:E; cbn [bind]; [|discriminate].
    intros [= H]. pose proof (read_strings_le _ _ _ _ _ H).
    assert (blen cur1 <= blen cur).
    { eapply (repeat_parse_le (get_u32 e)); [|exact E]. intros bs x r0 Hg. pose proof (get_u32_shorter _ _ _ _ Hg). unfold blen. lia. }
    lia.
Qed.

Lemma read_contig_chunk_le e ci nc fin : forall objs cur acc c r,
    read_contig_chunk e objs ci nc fin cur acc = Ok (c, r) -> blen r <= blen cur.
Proof.
  induction objs as [|o objs IH]; intros cur acc c r H; cbn [read_contig_chunk] in H.
  - injection H as _ <-. lia.
  - destruct (read_values e o (chunk_nvals o ci nc fin) cur) as [[vs cur1]|] eqn:E; cbn [bind] in H; [|discriminate].
    pose proof (read_values_le _ _ _ _ _ _ E). pose proof (IH _ _ _ _ H). lia.
Qed.

Lemma read_chunks_loop_le (rd : Z -> bytes -> res (chunk * bytes)) :
  (forall ci cur c r, rd ci cur = Ok (c, r) -> blen r <= blen cur) ->
  forall fuel ci nc cur cs r, read_chunks_loop fuel rd ci nc cur = Ok (cs, r) -> blen r <= blen cur.
Proof.
  intros Hrd. induction fuel as [|fuel IH]; intros ci nc cur cs r H; cbn [read_chunks_loop] in H.
  - destruct (nc <=? ci); [injection H as _ <-; lia|discriminate].
  - destruct (nc <=? ci); [injection H as _ <-; lia|].
    destruct (rd ci cur) as [[c cur1]|] eqn:E1; cbn [bind] in H; [|discriminate].
    destruct (read_chunks_loop fuel rd (ci + 1) nc cur1) as [[cs' cur2]|] eqn:E2; cbn [bind] in H; [|discriminate].
    injection H as _ <-. pose proof (Hrd _ _ _ _ E1). pose proof (IH _ _ _ _ _ E2). lia.
Qed.

Lemma read_rows_le w n cur rows r : read_rows w n cur = (rows, r) -> blen r <= blen cur.
Proof. unfold read_rows, get_raw. intros [= _ <-]. apply blen_drop_le. Qed.

Lemma daqmx_buffers_le e objs : forall dims bi cur d s d' s' r,
    daqmx_buffers e objs dims bi cur d s = Ok (d', s', r) -> blen r <= blen cur.
Proof.
  induction dims as [|[n w] dims IH]; intros bi cur d s d' s' r H; cbn [daqmx_buffers] in H.
  - injection H as _ _ <-. lia.
  - destruct (read_rows w n cur) as [rows cur1] eqn:E.
    destruct (daqmx_buffer_objs e objs bi rows w d s) as [[d1 s1]|]; cbn [bind] in H; [|discriminate].
    pose proof (read_rows_le _ _ _ _ _ E). pose proof (IH _ _ _ _ _ _ _ H). lia.
Qed.

Lemma read_segment_chunks_le sg cur cs r : read_segment_chunks sg cur = Ok (cs, r) -> blen r <= blen cur.
Proof.
  unfold read_segment_chunks. destruct (seg_layout sg) as [[| |]|]; cbn [bind]; [| | |discriminate].
  - apply read_chunks_loop_le. intros ci c0 c r0. apply read_contig_chunk_le.
  - unfold read_interleaved. destruct (data_objs (sg_objs sg)) as [|o0 objs]; [intros [= _ <-]; lia|].
    destruct (negb (forallb _ _)); [discriminate|].
    destruct (read_rows _ _ cur) as [rows rest] eqn:E.
    destruct (interleaved_columns _ _ rows 0 []); cbn [bind]; [|discriminate].
    intros [= _ <-]. exact (read_rows_le _ _ _ _ _ E).
  - apply read_chunks_loop_le. intros ci c0 c r0. unfold read_daqmx_chunk.
    destruct (buffer_dims _) as [dims|]; cbn [bind]; [|discriminate].
    destruct (daqmx_buffers _ _ dims 0 c0 [] []) as [[[d s] cur1]|] eqn:E; cbn [bind]; [|discriminate].
    intros [= _ <-]. exact (daqmx_buffers_le _ _ _ _ _ _ _ _ _ _ E).
Qed.

(* ---- TdmsSegment.read_raw_data ------------------------------------------------------------------------------------------- *)

Lemma chunks_abs_dq_app a b :
  chunks_abs_dq (a ++ b) = match chunks_abs_dq a, chunks_abs_dq b with Some x, Some y => Some (x ++ y) | _, _ => None end.
Proof.
  unfold chunks_abs_dq. induction a as [|c a IH]; cbn [app map opt_all].
  - destruct (opt_all (map rawchunk_chunk_dq b)); reflexivity.
  - destruct (rawchunk_chunk_dq c) as [x|]; [|reflexivity]. rewrite IH.
    destruct (opt_all (map rawchunk_chunk_dq a)) as [xa|]; [|reflexivity].
    destruct (opt_all (map rawchunk_chunk_dq b)) as [xb|]; reflexivity.
Qed.

Lemma pf_eta f : mkPf (pf_data f) (pf_pos f) = f.
Proof. destruct f; reflexivity. Qed.

(* `p = f.tell(); yield chunk; f.seek(p)` over the list of chunks: the chunks are yielded, the file stays *)
Lemma yield_all_2 : forall xs ys f, 0 <= pf_pos f -> segment_read_raw_data_gen_loop2 xs ys f = Ok (ys ++ xs, f).
Proof.
  induction xs as [|x xs IH]; intros ys f Hp; cbn [segment_read_raw_data_gen_loop2].
  - rewrite app_nil_r. reflexivity.
  - unfold pf_seek, pf_tell. assert (E : (pf_pos f <? 0) = false) by lia. rewrite E. cbn [bind]. rewrite pf_eta.
    rewrite (IH _ f Hp), <- app_assoc. reflexivity.
Qed.

(* a segment without kTocRawData yields an empty chunk first (and goes on reading: there is no return) *)
Definition empty_chunks (toc : Z) : list chunk := if toc_has toc TOC_RAW then [] else [[]].

Theorem segment_read_raw_data_eq sg f :
  0 <= sg_data sg ->
  seg_data_ok sg (drop (sg_data sg) (pf_data f)) ->
  mapr (fun p => (chunks_abs_dq (fst p), snd p)) (segment_read_raw_data_gen sg f)
  = mapr (fun p => (Some (empty_chunks (sg_toc sg) ++ fst p),
                    mkPf (pf_data f) (sg_data sg + (blen (drop (sg_data sg) (pf_data f)) - blen (snd p)))))
         (read_segment_chunks sg (drop (sg_data sg) (pf_data f))).
Proof.
  intros Hd Hok. unfold segment_read_raw_data_gen.
  set (y0 := if negb (negb (Z.land (sg_toc sg) 8 =? 0)) then [] ++ [mkRdc []] else []).
  assert (Ey : (if negb (negb (Z.land (sg_toc sg) 8 =? 0)) then Ok ([] ++ [mkRdc []]) else Ok [])
               = Ok y0) by (unfold y0; destruct (negb (negb (Z.land (sg_toc sg) 8 =? 0))); reflexivity).
  rewrite Ey. cbn [bind]. unfold pf_seek. assert (E : (sg_data sg <? 0) = false) by lia. rewrite E. cbn [bind].
  rewrite map_id_filter. unfold pf_run. cbn [pf_data pf_pos].
  pose proof (segment_read_data_chunks_eq sg _ Hok) as H.
  destruct (segment_read_data_chunks_gen sg (drop (sg_data sg) (pf_data f)) (data_objs (sg_objs sg)) (sg_nchunks sg))
    as [[l cur']|e]; destruct (read_segment_chunks sg (drop (sg_data sg) (pf_data f))) as [[cs rest]|e'] eqn:Em;
    cbn [mapr fst snd bind] in *; try discriminate.
  - injection H as Hl ->. pose proof (read_segment_chunks_le sg _ cs rest Em) as Hle.
    pose proof (blen_nonneg rest).
    rewrite yield_all_2 by (cbn [pf_pos]; lia).
    cbn [bind mapr fst snd]. rewrite chunks_abs_dq_app, Hl.
    assert (E0 : chunks_abs_dq y0 = Some (empty_chunks (sg_toc sg))).
    { unfold y0, empty_chunks, toc_has, TOC_RAW. destruct (negb (Z.land (sg_toc sg) 8 =? 0)); reflexivity. }
    rewrite E0. reflexivity.
  - injection H as ->. reflexivity.
Qed.

(* ---- TdmsReader._verify_segment_start ------------------------------------------------------------------------------------ *)

Theorem verify_segment_start_eq f sg :
  0 <= sg_pos sg ->
  mapr pf_data (verify_segment_start_gen f sg)
  = if negb (bytes_eqb (read_at (sg_pos sg) 4 (pf_data f)) TAG_DATA) then Err EValue else Ok (pf_data f).
Proof.
  intros Hp. unfold verify_segment_start_gen, pf_seek. assert (E : (sg_pos sg <? 0) = false) by lia. rewrite E. cbn [bind].
  unfold pf_read, pf_run, py_read. cbn [pf_data pf_pos Z.ltb Z.compare bind]. unfold read_at.
  change (hex "5444536d") with TAG_DATA.
  destruct (negb (bytes_eqb (take 4 (drop (sg_pos sg) (pf_data f))) TAG_DATA)); reflexivity.
Qed.

(* ---- TdmsReader.read_raw_data: all chunks of all segments ------------------------------------------------------------------ *)

(* the chunks the reader yields: per segment the tag check, an empty chunk when the segment has no kTocRawData, the
   segment's chunks *)
Fixpoint all_chunks (data : bytes) (segs : list segment) : res (list chunk) :=
  match segs with
  | [] => Ok []
  | s :: r => do cs <- read_segment data s; do rest <- all_chunks data r; Ok (empty_chunks (sg_toc s) ++ cs ++ rest)
  end.

Definition segs_data_ok (data : bytes) (segs : list segment) : Prop :=
  Forall (fun s => 0 <= sg_pos s /\ 0 <= sg_data s /\ seg_data_ok s (drop (sg_data s) data)) segs.

Lemma reader_loop_eq data : forall segs f ys ysa,
    segs_data_ok data segs -> pf_data f = data -> chunks_abs_dq ys = Some ysa ->
    mapr (fun p => (chunks_abs_dq (snd p), pf_data (fst p))) (reader_read_raw_data_gen_loop3 segs f ys)
    = mapr (fun cs => (Some (ysa ++ cs), data)) (all_chunks data segs).
Proof.
  induction segs as [|s segs IH]; intros f ys ysa Hok Hf Hys; cbn [reader_read_raw_data_gen_loop3 all_chunks].
  - cbn [mapr fst snd]. rewrite Hys, Hf, app_nil_r. reflexivity.
  - inversion Hok as [|? ? [Hp [Hd Hs]] Hok']; subst.
    pose proof (verify_segment_start_eq f s Hp) as Hv. unfold read_segment.
    destruct (negb (bytes_eqb (read_at (sg_pos s) 4 (pf_data f)) TAG_DATA)).
    + destruct (verify_segment_start_gen f s); [discriminate|]. cbn [mapr] in Hv. injection Hv as ->. reflexivity.
    + destruct (verify_segment_start_gen f s) as [f1|]; cbn [mapr] in Hv; [|discriminate]. injection Hv as Hf1. cbn [bind].
      pose proof (segment_read_raw_data_eq s f1 Hd) as Hr. rewrite Hf1 in Hr. specialize (Hr Hs).
      destruct (segment_read_raw_data_gen s f1) as [[l f2]|e];
        destruct (read_segment_chunks s (drop (sg_data s) (pf_data f))) as [[cs rest]|e']; cbn [mapr fst snd bind] in *; try discriminate.
      * injection Hr as Hl Hf2. rewrite yield_all_4. cbn [bind].
        rewrite (IH f2 (ys ++ l) (ysa ++ empty_chunks (sg_toc s) ++ cs) Hok').
        -- destruct (all_chunks (pf_data f) segs) as [rest'|]; cbn [bind mapr]; [|reflexivity]. rewrite <- !app_assoc. reflexivity.
        -- rewrite Hf2. reflexivity.
        -- rewrite chunks_abs_dq_app, Hys, Hl. reflexivity.
      * injection Hr as ->. reflexivity.
Qed.

Theorem reader_read_raw_data_eq data segs p0 :
  segs_data_ok data segs ->
  mapr (fun p => (chunks_abs_dq (fst p), pf_data (snd p))) (reader_read_raw_data_gen (Some segs) (mkPf data p0))
  = mapr (fun cs => (Some cs, data)) (all_chunks data segs).
Proof.
  intros Hok. unfold reader_read_raw_data_gen.
  pose proof (reader_loop_eq data segs (mkPf data p0) [] [] Hok eq_refl eq_refl) as H.
  destruct (reader_read_raw_data_gen_loop3 segs (mkPf data p0) []) as [[f ys]|e]; cbn [bind mapr fst snd] in *; exact H.
Qed.

(* before read_metadata: RuntimeError *)
Theorem reader_read_raw_data_no_metadata f : reader_read_raw_data_gen None f = Err ERuntime.
Proof. reflexivity. Qed.

(* ---- rd_eager's loop over the segments is the fold of receive_chunk over all_chunks --------------------------------------- *)

(* same success, and then the same value; a failure is a failure (WHICH exception is raised first is not preserved by
   reading a generator to its end before its values are consumed) *)
Definition res_agree {A} (a b : res A) : Prop :=
  match a, b with Ok x, Ok y => x = y | Err _, Err _ => True | _, _ => False end.

Definition recv_step (b : res (alist (option cdata))) (c : chunk) : res (alist (option cdata)) :=
  do b0 <- b; receive_chunk b0 c.

Lemma recv_step_err e cs : fold_left recv_step cs (Err e) = Err e.
Proof. induction cs as [|c cs IH]; [reflexivity|]. cbn [fold_left recv_step bind]. exact IH. Qed.

Lemma recv_step_app a b r : fold_left recv_step (a ++ b) r = fold_left recv_step b (fold_left recv_step a r).
Proof. apply fold_left_app. Qed.

Lemma recv_empty_chunks toc r : fold_left recv_step (empty_chunks toc) (Ok r) = Ok r.
Proof. unfold empty_chunks. destruct (toc_has toc TOC_RAW); reflexivity. Qed.

Definition eager_seg_step (data : bytes) (a : res (alist (option cdata))) (s : segment) : res (alist (option cdata)) :=
  do a0 <- a; do cs <- read_segment data s; fold_left (fun b c => do b0 <- b; receive_chunk b0 c) cs (Ok a0).

Lemma eager_seg_step_err data e segs : fold_left (eager_seg_step data) segs (Err e) = Err e.
Proof. induction segs as [|s segs IH]; [reflexivity|]. cbn [fold_left eager_seg_step bind]. exact IH. Qed.

Lemma eager_fold_agree data : forall segs recv,
    res_agree (do cs <- all_chunks data segs; fold_left recv_step cs (Ok recv))
              (fold_left (eager_seg_step data) segs (Ok recv)).
Proof.
  induction segs as [|s segs IH]; intros recv; cbn [all_chunks fold_left bind].
  - reflexivity.
  - unfold eager_seg_step at 2. cbn [bind].
    destruct (read_segment data s) as [cs|e]; cbn [bind].
    + change (fun b c => do b0 <- b; receive_chunk b0 c) with recv_step.
      destruct (fold_left recv_step cs (Ok recv)) as [recv1|e1] eqn:E1.
      * specialize (IH recv1). destruct (all_chunks data segs) as [rest|e2]; cbn [bind] in *.
        -- rewrite !recv_step_app, recv_empty_chunks, E1. exact IH.
        -- exact IH.
      * rewrite eager_seg_step_err. destruct (all_chunks data segs) as [rest|e2]; cbn [bind]; [|exact I].
        rewrite !recv_step_app, recv_empty_chunks, E1, recv_step_err. exact I.
    + rewrite eager_seg_step_err. exact I.
Qed.

(* ======================================================================================================================== *)
(* TdmsFile._read_data                                                                                                      *)
(* ======================================================================================================================== *)

(* ---- dictionaries of receivers ----------------------------------------------------------------------------------------- *)

Fixpoint cd_abs (cd : alist (option receiver)) : option (alist (option cdata)) :=
  match cd with
  | [] => Some []
  | (p, r) :: rest =>
    match recv_opt_abs r, cd_abs rest with Some x, Some y => Some ((p, x) :: y) | _, _ => None end
  end.

Lemma cd_abs_aset p r x : recv_opt_abs r = Some x -> forall cd m,
    cd_abs cd = Some m -> cd_abs (aset p r cd) = Some (aset p x m).
Proof.
  intros Hr. induction cd as [|[k v] cd IH]; intros m Hm; cbn [cd_abs aset] in *.
  - injection Hm as <-. cbn [aset cd_abs]. rewrite Hr. reflexivity.
  - destruct (recv_opt_abs v) as [xv|] eqn:Ev; [|discriminate]. destruct (cd_abs cd) as [y|] eqn:Ey; [|discriminate].
    injection Hm as <-. cbn [aset]. destruct (bytes_eqb p k); cbn [cd_abs].
    + rewrite Hr, Ey. reflexivity.
    + rewrite Ev, (IH y eq_refl). reflexivity.
Qed.

Lemma cd_abs_lookup p : forall cd m, cd_abs cd = Some m ->
    match alookup p cd with
    | None => alookup p m = None
    | Some r => exists x, recv_opt_abs r = Some x /\ alookup p m = Some x
    end.
Proof.
  induction cd as [|[k v] cd IH]; intros m Hm; cbn [cd_abs alookup] in *.
  - injection Hm as <-. reflexivity.
  - destruct (recv_opt_abs v) as [xv|] eqn:Ev; [|discriminate]. destruct (cd_abs cd) as [y|] eqn:Ey; [|discriminate].
    injection Hm as <-. cbn [alookup]. destruct (bytes_eqb p k).
    + exists xv. split; [exact Ev|reflexivity].
    + exact (IH y eq_refl).
Qed.

Lemma aset_same' {V} (k : bytes) (v : V) (l : alist V) : alookup k l = Some v -> aset k v l = l.
Proof.
  induction l as [|[k' v'] r IH]; cbn [alookup aset]; [discriminate|].
  destruct (bytes_eqb k k') eqn:E.
  - intros H. injection H as ->. reflexivity.
  - intros H. rewrite (IH H). reflexivity.
Qed.

Lemma aset_aset {V} (k : bytes) (a b : V) (l : alist V) : aset k b (aset k a l) = aset k b l.
Proof.
  induction l as [|[k' v'] r IH]; cbn [aset].
  - rewrite bytes_eqb_refl. reflexivity.
  - destruct (bytes_eqb k k') eqn:E; cbn [aset]; rewrite E; [reflexivity|]. rewrite IH. reflexivity.
Qed.

(* ---- phase 1: one receiver per channel = the model's receiver0 fold ------------------------------------------------------ *)

Definition alloc_step (a : res (alist (option cdata))) (c : channel) : res (alist (option cdata)) :=
  do a0 <- a; do r <- receiver0 c; Ok (aset (ch_path c) r a0).

Lemma alloc_step_err e cs : fold_left alloc_step cs (Err e) = Err e.
Proof. induction cs as [|c cs IH]; [reflexivity|]. cbn [fold_left alloc_step bind]. exact IH. Qed.

Definition chan_ok (c : channel) : Prop := 0 <= ch_len c /\ scalers_ok c.

Lemma alloc_inner_eq raw mm : forall chans cd m,
    Forall chan_ok chans -> cd_abs cd = Some m ->
    mapr cd_abs (tdmsfile_read_data_gen_loop6 raw mm chans cd) = mapr Some (fold_left alloc_step chans (Ok m)).
Proof.
  induction chans as [|c chans IH]; intros cd m Hok Hm; cbn [tdmsfile_read_data_gen_loop6 fold_left].
  - cbn [mapr]. rewrite Hm. reflexivity.
  - inversion Hok as [|? ? [Hn Hsc] Hok']; subst.
    pose proof (get_data_receiver_eq c (ch_len c) raw mm Hn Hsc) as Hg. unfold alloc_step at 2. cbn [bind].
    destruct (get_data_receiver_gen c (ch_len c) raw mm) as [r|e]; destruct (receiver0 c) as [x|e']; cbn [mapr bind] in *;
      try discriminate.
    + injection Hg as Hg. apply IH; [exact Hok'|]. apply cd_abs_aset; [|exact Hm].
      destruct (recv_opt_abs r); [injection Hg as ->; reflexivity|discriminate].
    + injection Hg as ->. rewrite alloc_step_err. reflexivity.
Qed.

Lemma alloc_outer_eq raw mm : forall groups cd m,
    Forall (Forall chan_ok) groups -> cd_abs cd = Some m ->
    mapr cd_abs (tdmsfile_read_data_gen_loop5 raw mm groups cd)
    = mapr Some (fold_left alloc_step (concat groups) (Ok m)).
Proof.
  induction groups as [|g groups IH]; intros cd m Hok Hm; cbn [tdmsfile_read_data_gen_loop5 concat].
  - cbn [fold_left mapr]. rewrite Hm. reflexivity.
  - inversion Hok as [|? ? Hg Hok']; subst. rewrite fold_left_app.
    pose proof (alloc_inner_eq raw mm g cd m Hg Hm) as H.
    destruct (tdmsfile_read_data_gen_loop6 raw mm g cd) as [cd1|e]; destruct (fold_left alloc_step g (Ok m)) as [m1|e'];
      cbn [mapr bind] in *; try discriminate.
    + injection H as H. apply IH; assumption.
    + injection H as ->. rewrite alloc_step_err. reflexivity.
Qed.

(* ---- phase 3: the receivers are handed to the channels ---------------------------------------------------------------------- *)

(* channel._set_raw_data(self._channel_data[channel.path]) for every channel whose receiver is not None *)
Definition handover_step (cd : alist (option receiver)) (a : res (alist receiver)) (c : channel) : res (alist receiver) :=
  do a0 <- a;
  match alookup (ch_path c) cd with
  | None => Err EKey
  | Some None => Ok a0
  | Some (Some r) => Ok (aset (ch_path c) r a0)
  end.

Lemma handover_step_err cd e cs : fold_left (handover_step cd) cs (Err e) = Err e.
Proof. induction cs as [|c cs IH]; [reflexivity|]. cbn [fold_left handover_step bind]. exact IH. Qed.

Lemma handover_inner_eq cd : forall chans acc,
    tdmsfile_read_data_gen_loop11 cd chans acc = fold_left (handover_step cd) chans (Ok acc).
Proof.
  induction chans as [|c chans IH]; intros acc; cbn [tdmsfile_read_data_gen_loop11 fold_left]; [reflexivity|].
  unfold handover_step at 2. cbn [bind]. destruct (alookup (ch_path c) cd) as [[r|]|]; cbn [need bind].
  - apply IH.
  - apply IH.
  - rewrite handover_step_err. reflexivity.
Qed.

Theorem handover_eq cd : forall groups acc,
    tdmsfile_read_data_gen_loop10 cd groups acc = fold_left (handover_step cd) (concat groups) (Ok acc).
Proof.
  induction groups as [|g groups IH]; intros acc; cbn [tdmsfile_read_data_gen_loop10 concat]; [reflexivity|].
  rewrite fold_left_app, handover_inner_eq.
  destruct (fold_left (handover_step cd) g (Ok acc)) as [a1|e]; cbn [bind]; [apply IH|].
  rewrite handover_step_err. reflexivity.
Qed.

(* ---- phase 2: every chunk item goes to its receiver = the model's receive_chunk ---------------------------------------------- *)

Section ReadDataSteps.
Variable asdt : nparr -> res nparr.

(* what NumPy needs for the slice assignment of an append to succeed, stated on the receiver's state at that moment: same
   kind and width of items, room in the preallocated array *)
Definition data_fits (r : receiver) (v : pydata) : Prop :=
  match r, v with
  | RList _, DStrs _ => True
  | RNumpy (_, a, _, pos), DArr x =>
    same_items (a_dtype x) (a_dtype a) /\ blen (a_raw a) mod dt_itemsize (a_dtype a) = 0 /\ 0 <= pos /\ pos + np_len x <= np_len a
  | RTimestamp (_, raw, a, _, pos), DArr x =>
    raw = true /\ a_dtype a = ts_dtype LE /\ (exists e, a_dtype x = ts_dtype e) /\
    blen (a_raw a) mod 16 = 0 /\ blen (a_raw x) mod 16 = 0 /\ 0 <= pos /\ pos + np_len x <= np_len a
  | RDaqmx _, _ => True            (* AttributeError, Err EOther in the model *)
  | _, _ => False
  end.

Definition data_result (x : cdata) (vs : list bytes) : res cdata :=
  match x with CData acc => Ok (CData (acc ++ vs)) | CScalers _ => Err EOther end.

Lemma data_append_sim r v x vs :
  data_fits r v -> recv_abs r = Some x -> pydata_values v = Some vs ->
  mapr recv_abs (receiver_append_data_gen asdt r v) = mapr Some (data_result x vs).
Proof.
  intros Hfit Hx Hv. destruct r as [[[dt data] sd]|[[[path a] sd] pos]|[[path sd] sp]|[[[[path raw] a] sd] pos]];
    destruct v as [xa|l]; cbn [data_fits] in Hfit; try contradiction; cbn [receiver_append_data_gen].
  - cbn [recv_abs] in Hx. injection Hx as <-. cbn [pydata_values] in Hv. injection Hv as <-. reflexivity.
  - destruct Hfit as [Hs [Hm [Hp Hb]]].
    destruct (numpy_receiver_append_eq path a pos xa Hs Hm Hp Hb) as [a' [Hg [_ [_ [_ Hup]]]]]. rewrite Hg. cbn [bind mapr recv_abs].
    cbn [recv_abs] in Hx. destruct (arr_values_upto pos a) as [acc|] eqn:Ea; [|discriminate]. cbn [option_map] in Hx.
    injection Hx as <-. cbn [pydata_values] in Hv. rewrite (Hup acc vs eq_refl Hv). reflexivity.
  - cbn [recv_abs] in Hx. destruct (opt_all (map (scaler_abs sp) sd)); [|discriminate]. injection Hx as <-. reflexivity.
  - cbn [recv_abs] in Hx. destruct (opt_all (map (scaler_abs sp) sd)); [|discriminate]. injection Hx as <-. reflexivity.
  - destruct Hfit as [-> [Hd [[e He] [Hm [Hvm [Hp Hb]]]]]].
    destruct (timestamp_receiver_append_eq asdt path e a pos xa Hd He Hm Hvm Hp Hb) as [a' [Hg [_ [_ [_ Hup]]]]]. rewrite Hg.
    cbn [bind mapr recv_abs]. cbn [recv_abs] in Hx. destruct (arr_values_upto pos a) as [acc|] eqn:Ea; [|discriminate].
    cbn [option_map] in Hx. injection Hx as <-. cbn [pydata_values] in Hv. rewrite (Hup acc vs eq_refl Hv). reflexivity.
Qed.

(* the scaler appends of one item, on the receiver *)
Fixpoint scalers_run (r : receiver) (sds : list (Z * nparr)) : res receiver :=
  match sds with
  | [] => Ok r
  | (id, x) :: rest => do r' <- receiver_append_scaler_data_gen r id x; scalers_run r' rest
  end.

Lemma scaler_loop_run path : forall sds r cd,
    alookup path cd = Some (Some r) ->
    tdmsfile_read_data_gen_loop9 path sds (Some r) cd
    = do r' <- scalers_run r sds; Ok (Some r', aset path (Some r') cd).
Proof.
  induction sds as [|[id x] sds IH]; intros r cd Hl; cbn [tdmsfile_read_data_gen_loop9 scalers_run need bind].
  - rewrite (aset_same' _ _ _ Hl). reflexivity.
  - destruct (receiver_append_scaler_data_gen r id x) as [r1|e]; cbn [bind]; [|reflexivity].
    rewrite IH by (rewrite alookup_aset, bytes_eqb_refl; reflexivity).
    destruct (scalers_run r1 sds) as [r2|e]; cbn [bind]; [|reflexivity]. rewrite aset_aset. reflexivity.
Qed.

Fixpoint scalers_fit (r : receiver) (sds : list (Z * nparr)) : Prop :=
  match sds with
  | [] => match r with RDaqmx _ => True | _ => False end
  | (id, x) :: rest =>
    match r with
    | RDaqmx (path, sd, sp) =>
      NoDup (map fst sd) /\
      (exists data pos, zlookup id sd = Some data /\ zlookup id sp = Some pos /\
                        same_items (a_dtype x) (a_dtype data) /\ blen (a_raw data) mod dt_itemsize (a_dtype data) = 0 /\
                        0 <= pos /\ pos + np_len x <= np_len data) /\
      match rest with
      | [] => True
      | _ => forall r', receiver_append_scaler_data_gen r id x = Ok r' -> scalers_fit r' rest
      end
    | _ => True                  (* AttributeError, Err EOther in the model *)
    end
  end.

Definition scaler_model_step (a : res (list (Z * list bytes))) (kv : Z * list bytes) : res (list (Z * list bytes)) :=
  do a0 <- a; scaler_append (fst kv) (snd kv) a0.

Lemma scaler_model_err e sc : fold_left scaler_model_step sc (Err e) = Err e.
Proof. induction sc as [|kv sc IH]; [reflexivity|]. cbn [fold_left scaler_model_step bind]. exact IH. Qed.

Lemma scalers_run_sim : forall sds r sc acc,
    scalers_fit r sds -> scalers_abs sds = Some sc -> recv_abs r = Some (CScalers acc) ->
    mapr recv_abs (scalers_run r sds)
    = mapr (fun a => Some (CScalers a)) (fold_left scaler_model_step sc (Ok acc)).
Proof.
  induction sds as [|[id x] sds IH]; intros r sc acc Hfit Hsc Hr.
  - cbn in Hsc. injection Hsc as <-. cbn [scalers_run fold_left mapr]. rewrite Hr. reflexivity.
  - unfold scalers_abs in Hsc. cbn [map opt_all] in Hsc. unfold scaler_entry_abs at 1 in Hsc. cbn [fst snd] in Hsc.
    destruct (arr_values x) as [vs|] eqn:Evs; [|discriminate].
    destruct (opt_all (map scaler_entry_abs sds)) as [sc'|] eqn:Esc; [|discriminate]. injection Hsc as <-.
    cbn [scalers_run fold_left]. unfold scaler_model_step at 2. cbn [bind fst snd].
    destruct r as [[[dt data] sd]|[[[path a] sd] pos]|[[path sd] sp]|[[[[path raw] a] sd] pos]]; cbn [recv_abs] in Hr;
      try (destruct (arr_values_upto pos a); discriminate); try discriminate.
    cbn [scalers_fit] in Hfit. destruct Hfit as [Hnd [[data [pos [Hsd [Hsp [Hs [Hm [Hp Hb]]]]]]] Hrest]].
    destruct (daqmx_receiver_append_is_scaler_append path sd sp id data pos x vs acc Hnd Hsd Hsp Hs Hm Hp Hb Evs)
      as [sd' [sp' [acc' [Hg [Hsa Hr']]]]].
    { cbn [recv_abs]. exact Hr. }
    cbn [receiver_append_scaler_data_gen]. rewrite Hg, Hsa. cbn [bind].
    destruct sds as [|kv sds'].
    + cbn in Esc. injection Esc as <-. cbn [scalers_run fold_left mapr]. rewrite Hr'. reflexivity.
    + apply IH; [|exact Esc|exact Hr']. apply Hrest. cbn [receiver_append_scaler_data_gen]. rewrite Hg. reflexivity.
Qed.

(* one (path, data) item of a chunk *)
Definition item_fits (cd : alist (option receiver)) (it : bytes * rcdc) : Prop :=
  match alookup (fst it) cd with
  | None => True                                                    (* KeyError in both *)
  | Some None => match rc_scaler_data (snd it) with Some [] => False | _ => True end      (* AttributeError / EOther *)
  | Some (Some r) =>
    match rc_data (snd it), rc_scaler_data (snd it) with
    | Some v, None => data_fits r v
    | None, Some sds => scalers_fit r sds
    | _, _ => True
    end
  end.

Definition item_step (cd : alist (option receiver)) (it : bytes * rcdc) : res (alist (option receiver)) :=
  tdmsfile_read_data_gen_loop8 asdt [it] cd.

Lemma loop8_cons it items cd :
  tdmsfile_read_data_gen_loop8 asdt (it :: items) cd
  = do cd' <- item_step cd it; tdmsfile_read_data_gen_loop8 asdt items cd'.
Proof.
  unfold item_step. destruct it as [path data]. cbn [tdmsfile_read_data_gen_loop8].
  destruct (need EKey (alookup path cd)) as [cdr|e]; cbn [bind]; [|reflexivity].
  destruct (negb (is_none (rc_data data))).
  - destruct (need EOther cdr) as [r|e]; cbn [bind]; [|reflexivity].
    destruct (need EType (rc_data data)) as [v|e]; cbn [bind]; [|reflexivity].
    destruct (receiver_append_data_gen asdt r v); reflexivity.
  - destruct (negb (is_none (rc_scaler_data data))); [|reflexivity].
    destruct (need EOther (rc_scaler_data data)) as [sds|e]; cbn [bind]; [|reflexivity].
    destruct (tdmsfile_read_data_gen_loop9 path sds cdr cd) as [[c1 cd1]|e]; reflexivity.
Qed.

Definition model_item_step (a : res (alist (option cdata))) (kv : bytes * cdata) : res (alist (option cdata)) :=
  do a0 <- a;
  match alookup (fst kv) a0 with
  | None => Err EKey
  | Some rc => do rc' <- receive rc (snd kv); Ok (aset (fst kv) rc' a0)
  end.

Lemma model_item_err e c : fold_left model_item_step c (Err e) = Err e.
Proof. induction c as [|kv c IH]; [reflexivity|]. cbn [fold_left model_item_step bind]. exact IH. Qed.

Lemma item_step_sim cd m path rc d :
  cd_abs cd = Some m -> rcdc_cdata_dq rc = Some d -> item_fits cd (path, rc) ->
  mapr cd_abs (item_step cd (path, rc)) = mapr Some (model_item_step (Ok m) (path, d)).
Proof.
  intros Hm Hd Hfit. unfold item_step, model_item_step, item_fits in *. cbn [tdmsfile_read_data_gen_loop8 bind fst snd] in *.
  pose proof (cd_abs_lookup path cd m Hm) as Hl.
  destruct (alookup path cd) as [cdr|] eqn:Ecd; cbn [need bind].
  2:{ rewrite Hl. reflexivity. }
  destruct Hl as [xr [Hxr Hlm]]. rewrite Hlm.
  unfold rcdc_cdata_dq in Hd.
  destruct (rc_data rc) as [v|] eqn:Ev; destruct (rc_scaler_data rc) as [sds|] eqn:Es; try discriminate; cbn [is_none negb].
  - (* channel data *)
    destruct (pydata_values v) as [vs|] eqn:Evs; [|discriminate]. injection Hd as <-.
    destruct cdr as [r|]; cbn [need bind recv_opt_abs] in *.
    + destruct (recv_abs r) as [x|] eqn:Ex; [|discriminate]. cbn [option_map] in Hxr. injection Hxr as <-.
      pose proof (data_append_sim r v x vs Hfit Ex Evs) as Hs. unfold receive.
      destruct (receiver_append_data_gen asdt r v) as [r'|e]; destruct x as [acc|sc]; cbn [data_result mapr bind] in *; try discriminate.
      * injection Hs as Hs. rewrite (cd_abs_aset path (Some r') (Some (CData (acc ++ vs))) ltac:(cbn [recv_opt_abs]; rewrite Hs; reflexivity) cd m Hm).
        reflexivity.
      * injection Hs as ->. reflexivity.
    + injection Hxr as <-. reflexivity.
  - (* scaler data *)
    destruct (scalers_abs sds) as [sc|] eqn:Esc; [|discriminate]. injection Hd as <-. cbn [need bind].
    destruct cdr as [r|]; cbn [recv_opt_abs] in *.
    + destruct (recv_abs r) as [x|] eqn:Ex; [|discriminate]. cbn [option_map] in Hxr. injection Hxr as <-.
      rewrite (scaler_loop_run path sds r cd Ecd). unfold receive.
      destruct x as [acc|acc].
      * (* a data receiver given scaler data: AttributeError at the first append; no scalers at all is not covered *)
        destruct sds as [|[id x0] sds'].
        -- destruct r as [[[dt data] sd]|[[[p0 a] sd] pos]|[[p0 sd] sp]|[[[[p0 raw] a] sd] pos]]; cbn [scalers_fit] in Hfit;
             try contradiction. cbn [recv_abs] in Ex. destruct (opt_all (map (scaler_abs sp) sd)); discriminate.
        -- destruct r as [[[dt data] sd]|[[[p0 a] sd] pos]|[[p0 sd] sp]|[[[[p0 raw] a] sd] pos]];
             try (cbn [recv_abs] in Ex; destruct (opt_all (map (scaler_abs sp) sd)); discriminate); reflexivity.
      * pose proof (scalers_run_sim sds r sc acc Hfit Esc Ex) as Hs. fold scaler_model_step.
        destruct (scalers_run r sds) as [r'|e]; destruct (fold_left scaler_model_step sc (Ok acc)) as [acc'|e'];
          cbn [mapr bind] in *; try discriminate.
        -- injection Hs as Hs. rewrite (cd_abs_aset path (Some r') (Some (CScalers acc')) ltac:(cbn [recv_opt_abs]; rewrite Hs; reflexivity) cd m Hm).
           reflexivity.
        -- injection Hs as ->. reflexivity.
    + injection Hxr as <-. destruct sds as [|[id x0] sds']; [contradiction|]. reflexivity.
Qed.

(* every append of a chunk's items fits, on the receivers as they are when the item is reached *)
Fixpoint items_fit (items : list (bytes * rcdc)) (cd : alist (option receiver)) : Prop :=
  match items with
  | [] => True
  | it :: rest => item_fits cd it /\ forall cd', item_step cd it = Ok cd' -> items_fit rest cd'
  end.

Lemma chunk_items_sim : forall items cd m c,
    cd_abs cd = Some m -> entries_chunk_dq items = Some c -> items_fit items cd ->
    mapr cd_abs (tdmsfile_read_data_gen_loop8 asdt items cd) = mapr Some (fold_left model_item_step c (Ok m)).
Proof.
  induction items as [|[path rc] items IH]; intros cd m c Hm Hc Hfit.
  - cbn in Hc. injection Hc as <-. cbn [tdmsfile_read_data_gen_loop8 fold_left mapr]. rewrite Hm. reflexivity.
  - cbn [entries_chunk_dq] in Hc. destruct (rcdc_cdata_dq rc) as [d|] eqn:Ed; [|discriminate].
    destruct (entries_chunk_dq items) as [c'|] eqn:Ec; [|discriminate]. injection Hc as <-.
    cbn [items_fit] in Hfit. destruct Hfit as [Hit Hrest].
    rewrite loop8_cons. cbn [fold_left].
    pose proof (item_step_sim cd m path rc d Hm Ed Hit) as Hs.
    destruct (item_step cd (path, rc)) as [cd1|e]; destruct (model_item_step (Ok m) (path, d)) as [m1|e'];
      cbn [mapr bind] in *; try discriminate.
    + injection Hs as Hs. apply IH; [exact Hs|reflexivity|]. apply Hrest. reflexivity.
    + injection Hs as ->. rewrite model_item_err. reflexivity.
Qed.

Lemma receive_chunk_fold' recv c : receive_chunk recv c = fold_left model_item_step c (Ok recv).
Proof. reflexivity. Qed.

(* all chunks *)
Fixpoint chunks_fit (l : list rawchunk) (cd : alist (option receiver)) : Prop :=
  match l with
  | [] => True
  | rc :: rest => items_fit (rdc_channel_data rc) cd /\
                  forall cd', tdmsfile_read_data_gen_loop8 asdt (rdc_channel_data rc) cd = Ok cd' -> chunks_fit rest cd'
  end.

Lemma chunks_sim : forall l cd m cs,
    cd_abs cd = Some m -> chunks_abs_dq l = Some cs -> chunks_fit l cd ->
    mapr cd_abs (tdmsfile_read_data_gen_loop7 asdt l cd) = mapr Some (fold_left recv_step cs (Ok m)).
Proof.
  induction l as [|rc l IH]; intros cd m cs Hm Hcs Hfit.
  - cbn in Hcs. injection Hcs as <-. cbn [tdmsfile_read_data_gen_loop7 fold_left mapr]. rewrite Hm. reflexivity.
  - unfold chunks_abs_dq in Hcs. cbn [map opt_all] in Hcs. destruct (rawchunk_chunk_dq rc) as [c|] eqn:Ec; [|discriminate].
    destruct (opt_all (map rawchunk_chunk_dq l)) as [cs'|] eqn:Ecs; [|discriminate]. injection Hcs as <-.
    cbn [chunks_fit] in Hfit. destruct Hfit as [Hit Hrest].
    cbn [tdmsfile_read_data_gen_loop7 fold_left]. unfold recv_step at 2. cbn [bind]. rewrite receive_chunk_fold'.
    pose proof (chunk_items_sim (rdc_channel_data rc) cd m c Hm Ec Hit) as Hs.
    destruct (tdmsfile_read_data_gen_loop8 asdt (rdc_channel_data rc) cd) as [cd1|e];
      destruct (fold_left model_item_step c (Ok m)) as [m1|e']; cbn [mapr bind] in *; try discriminate.
    + injection Hs as Hs. apply IH; [exact Hs|exact Ecs|]. apply Hrest. reflexivity.
    + injection Hs as ->. rewrite recv_step_err. reflexivity.
Qed.

End ReadDataSteps.

(* ---- the keys of the receiver dictionary ----------------------------------------------------------------------------------- *)

Lemma alloc_keys : forall chans m0 m,
    fold_left alloc_step chans (Ok m0) = Ok m ->
    (forall p, alookup p m0 <> None -> alookup p m <> None) /\ (forall c, In c chans -> alookup (ch_path c) m <> None).
Proof.
  induction chans as [|c chans IH]; intros m0 m H; cbn [fold_left] in H.
  - injection H as <-. split; [auto|intros c []].
  - unfold alloc_step at 2 in H. cbn [bind] in H. destruct (receiver0 c) as [r|e]; cbn [bind] in H; [|rewrite alloc_step_err in H; discriminate].
    destruct (IH _ _ H) as [Hk Hin]. split.
    + intros p Hp. apply Hk. rewrite alookup_aset. destruct (bytes_eqb p (ch_path c)); [discriminate|exact Hp].
    + intros c' [<-|Hc']; [|apply Hin; exact Hc']. apply Hk. rewrite alookup_aset, bytes_eqb_refl. discriminate.
Qed.

Lemma model_items_keys : forall c m m', fold_left model_item_step c (Ok m) = Ok m' ->
    forall p, alookup p m <> None -> alookup p m' <> None.
Proof.
  induction c as [|kv c IH]; intros m m' H p Hp; cbn [fold_left] in H.
  - injection H as <-. exact Hp.
  - unfold model_item_step at 2 in H. cbn [bind] in H.
    destruct (alookup (fst kv) m) as [rc|]; [|rewrite model_item_err in H; discriminate].
    destruct (receive rc (snd kv)) as [rc'|e]; cbn [bind] in H; [|rewrite model_item_err in H; discriminate].
    apply (IH _ _ H). rewrite alookup_aset. destruct (bytes_eqb p (fst kv)); [discriminate|exact Hp].
Qed.

Lemma recv_fold_keys : forall cs m m', fold_left recv_step cs (Ok m) = Ok m' ->
    forall p, alookup p m <> None -> alookup p m' <> None.
Proof.
  induction cs as [|c cs IH]; intros m m' H p Hp; cbn [fold_left] in H.
  - injection H as <-. exact Hp.
  - unfold recv_step at 2 in H. cbn [bind] in H. rewrite receive_chunk_fold' in H.
    destruct (fold_left model_item_step c (Ok m)) as [m1|e] eqn:E1; [|rewrite recv_step_err in H; discriminate].
    apply (IH _ _ H). exact (model_items_keys _ _ _ E1 p Hp).
Qed.

Lemma handover_total cd : forall chans acc,
    (forall c, In c chans -> alookup (ch_path c) cd <> None) ->
    exists rawd, fold_left (handover_step cd) chans (Ok acc) = Ok rawd.
Proof.
  induction chans as [|c chans IH]; intros acc Hk; cbn [fold_left]; [eexists; reflexivity|].
  unfold handover_step at 2. cbn [bind]. pose proof (Hk c (or_introl eq_refl)) as Hc.
  destruct (alookup (ch_path c) cd) as [[r|]|]; [| |contradiction]; apply IH; intros c' Hc'; apply Hk; right; exact Hc'.
Qed.

(* ---- TdmsFile._read_data = rd_eager ------------------------------------------------------------------------------------------ *)

(* self.groups() / group.channels() of the file the hierarchy describes *)
Definition groups_of (h : hierarchy) : list (list channel) := map (fun g => map snd (g_chans (snd g))) (h_groups h).

Lemma all_channels_concat h : all_channels h = concat (groups_of h).
Proof. unfold all_channels, groups_of. apply flat_map_concat_map. Qed.

(* every append made during the run fits (dtype and room in the preallocated arrays) *)
Definition read_data_fits (asdt : nparr -> res nparr) (groups : list (list channel)) (raw mm : bool)
           (segs : list segment) (f0 : posfile) : Prop :=
  forall cd0 l f, tdmsfile_read_data_gen_loop5 raw mm groups [] = Ok cd0 ->
                  reader_read_raw_data_gen (Some segs) f0 = Ok (l, f) -> chunks_fit asdt l cd0.

Lemma rd_eager_unfold st h data :
  rd_eager st h data
  = do recv0 <- fold_left alloc_step (all_channels h) (Ok []); fold_left (eager_seg_step data) (rs_segments st) (Ok recv0).
Proof. reflexivity. Qed.

Theorem tdmsfile_read_data_eq asdt st h data raw mm p0 :
  Forall chan_ok (all_channels h) ->
  segs_data_ok data (rs_segments st) ->
  read_data_fits asdt (groups_of h) raw mm (rs_segments st) (mkPf data p0) ->
  res_agree (mapr (fun r => let '(cd, rawd, flag, f) := r in (cd_abs cd, flag, pf_data f))
                  (tdmsfile_read_data_gen asdt (groups_of h) [] raw mm (Some (rs_segments st)) (mkPf data p0) tt))
            (mapr (fun recv => (Some recv, true, data)) (rd_eager st h data)).
Proof.
  intros Hch Hsegs Hfit. rewrite rd_eager_unfold. unfold tdmsfile_read_data_gen.
  rewrite all_channels_concat in *.
  assert (Hg : Forall (Forall chan_ok) (groups_of h)).
  { clear - Hch. induction (groups_of h) as [|g gs IH]; [constructor|]. cbn [concat] in Hch. apply Forall_app in Hch.
    destruct Hch as [H1 H2]. constructor; [exact H1|apply IH; exact H2]. }
  pose proof (alloc_outer_eq raw mm (groups_of h) [] [] Hg eq_refl) as H1.
  match goal with
  | |- res_agree _ (mapr _ (bind ?A _)) =>
    change (mapr cd_abs (tdmsfile_read_data_gen_loop5 raw mm (groups_of h) []) = mapr Some A) in H1;
      destruct A as [m0|e'] eqn:Ea
  end;
    destruct (tdmsfile_read_data_gen_loop5 raw mm (groups_of h) []) as [cd0|e] eqn:E5; cbn [mapr bind] in *; try discriminate;
    [|exact I].
  injection H1 as H1.
  pose proof (reader_read_raw_data_eq data (rs_segments st) p0 Hsegs) as H2.
  pose proof (eager_fold_agree data (rs_segments st) m0) as Hag.
  destruct (reader_read_raw_data_gen (Some (rs_segments st)) (mkPf data p0)) as [[l f]|e] eqn:Er;
    destruct (all_chunks data (rs_segments st)) as [cs|e'] eqn:Eall; try rewrite Er in H2; try rewrite Eall in H2; try rewrite Eall in Hag;
    cbn [mapr bind fst snd] in *; try discriminate.
  2:{ destruct (fold_left (eager_seg_step data) (rs_segments st) (Ok m0)); [contradiction|exact I]. }
  injection H2 as Hl Hf.
  pose proof (chunks_sim asdt l cd0 m0 cs H1 Hl (Hfit cd0 l f E5 Er)) as H3.
  destruct (tdmsfile_read_data_gen_loop7 asdt l cd0) as [cd1|e] eqn:E7;
    destruct (fold_left recv_step cs (Ok m0)) as [m1|e'] eqn:Em; try rewrite E7 in H3; try rewrite Em in H3; try rewrite Em in Hag;
    cbn [mapr bind] in *; try discriminate.
  2:{ destruct (fold_left (eager_seg_step data) (rs_segments st) (Ok m0)); [contradiction|exact I]. }
  injection H3 as H3.
  destruct (fold_left (eager_seg_step data) (rs_segments st) (Ok m0)) as [m1'|]; [|contradiction]. cbn [res_agree] in Hag. subst m1'.
  rewrite handover_eq.
  destruct (handover_total cd1 (concat (groups_of h)) []) as [rawd Hr].
  { intros c Hc. destruct (alloc_keys _ _ _ Ea) as [_ Hin]. pose proof (recv_fold_keys _ _ _ Em _ (Hin c Hc)) as Hk.
    pose proof (cd_abs_lookup (ch_path c) cd1 m1 H3) as Hl1. destruct (alookup (ch_path c) cd1); [discriminate|contradiction]. }
  rewrite Hr. cbn [bind mapr res_agree]. rewrite H3, Hf. reflexivity.
Qed.

(* ... and the receivers are handed to the channels: channel c gets self._channel_data[c.path] unless that is None *)
Theorem tdmsfile_read_data_handover asdt groups cd0 raw mm segs f0 cd rawd flag f :
  tdmsfile_read_data_gen asdt groups cd0 raw mm segs f0 tt = Ok (cd, rawd, flag, f) ->
  fold_left (handover_step cd) (concat groups) (Ok []) = Ok rawd /\ flag = true.
Proof.
  unfold tdmsfile_read_data_gen. intros H.
  destruct (tdmsfile_read_data_gen_loop5 raw mm groups cd0) as [c1|]; cbn [bind] in H; [|discriminate].
  destruct (reader_read_raw_data_gen segs f0) as [[l f1]|]; cbn [bind] in H; [|discriminate].
  destruct (tdmsfile_read_data_gen_loop7 asdt l c1) as [c2|]; cbn [bind] in H; [|discriminate].
  rewrite handover_eq in H.
  match type of H with
  | bind ?A _ = _ => destruct A as [r|] eqn:Eh; cbn [bind] in H; [|discriminate]
  end.
  injection H as <- <- <- _. split; [exact Eh|reflexivity].
Qed.

(* ---- Props/C01_read.v R4 (receive_chunks_concat) ON THE TRANSLATED chunk loop of TdmsFile._read_data ---------------------------- *)

Theorem read_data_chunks_concat asdt l cd recv chunks :
  cd_abs cd = Some recv -> chunks_abs_dq l = Some chunks -> chunks_fit asdt l cd ->
  Forall only_cdata chunks ->
  (forall c kv, In c chunks -> In kv c -> is_data_receiver (alookup (fst kv) recv)) ->
  exists cd' recv',
    tdmsfile_read_data_gen_loop7 asdt l cd = Ok cd' /\ cd_abs cd' = Some recv' /\
    forall p, alookup p recv' = option_map (radd (chan_values p chunks)) (alookup p recv).
Proof.
  intros Hcd Hl Hfit Honly Hbound.
  destruct (receive_chunks_concat chunks recv Honly Hbound) as [recv' [Hf Hlk]].
  change rcs_step with recv_step in Hf.
  pose proof (chunks_sim asdt l cd recv chunks Hcd Hl Hfit) as H. rewrite Hf in H. cbn [mapr] in H.
  destruct (tdmsfile_read_data_gen_loop7 asdt l cd) as [cd'|e]; cbn [mapr] in H; [|discriminate].
  injection H as H. exists cd', recv'. split; [reflexivity|]. split; [exact H|exact Hlk].
Qed.

(* ---- example: a real file (written by harness/tdmsgen.py, read with the real TdmsFile.read: a = [1, -2, 3, 4, 5], b = ['hi', 'yo']):
   a contiguous little-endian segment with an int32 and a string channel in two chunks, a metadata-only segment WITHOUT
   kTocRawData (its empty chunk is yielded), a big-endian interleaved segment ------------------------------------------- *)
Section Example.
Import String.
Local Open Scope string_scope.
Definition ex_file : bytes := hex "5444536d0e000000691200007000000000000000540000000000000002000000080000002f2767272f276127140000000300000001000000020000000000000000000000080000002f2767272f2762271c0000002000000001000000010000000000000006000000000000000000000001000000feffffff020000006869030000000400000002000000796f5444536d06000000691200002100000000000000210000000000000001000000040000002f276727ffffffff01000000010000007003000000070000005444536d6e00000000001269000000000000002c000000000000002800000001000000082f2767272f27612700000014000000030000000100000000000000010000000000000005".
Definition ex_asdt (a : nparr) : res nparr := Err EFuel.
Definition ex_st := match rd_metadata ex_file false (Some (blen ex_file)) false with Ok st => st | Err _ => rstate0 end.
Definition ex_h := match build_hierarchy (rs_om ex_st) with Ok h => h | Err _ => mkHier [] [] end.

Ltac vmc t := let v := eval vm_compute in t in change t with v.
Ltac solve_small := repeat split; try reflexivity; try exact I; try (intro; discriminate); try lia.

Lemma ex_chans : Forall chan_ok (all_channels ex_h).
Proof.
  vmc (all_channels ex_h). repeat (apply Forall_cons; [split; [cbn [ch_len]; lia|intros st H; discriminate H]|]). apply Forall_nil.
Qed.

Ltac seg_front := apply Forall_cons; [split; [cbn [sg_pos]; lia|split; [cbn [sg_data]; lia|unfold seg_data_ok; cbv zeta; split; [vm_compute; lia|]]]|].
Ltac lay := match goal with |- context [seg_layout ?s] => vmc (seg_layout s) end; cbv iota.
Ltac vml := match goal with |- Forall _ ?l => vmc l end.

Lemma ex_segs_ok : segs_data_ok ex_file (rs_segments ex_st).
Proof.
  unfold segs_data_ok. vmc (rs_segments ex_st).
  seg_front.
  { lay. split; [|split].
    + vml. repeat (apply Forall_cons; [eexists; (split; [reflexivity|vm_compute; try exact I; reflexivity])|]). apply Forall_nil.
    + intros c. vml. repeat (apply Forall_cons; [cbn [chunk_nvals so_nvals sg_final]; lia|]). apply Forall_nil.
    + vm_compute. solve_small. all: repeat constructor. }
  seg_front.
  { lay. split; [|split].
    + vml. apply Forall_nil.
    + intros c. vml. apply Forall_nil.
    + vm_compute. exact I. }
  seg_front.
  { lay. split.
    + vml. repeat (apply Forall_cons; [vm_compute; discriminate|]). apply Forall_nil.
    + intros o0 H. vm_compute in H. injection H as <-. vm_compute. discriminate. }
  apply Forall_nil.
Qed.

Ltac leaf := first [reflexivity | lia | exact I | (vm_compute; repeat split; first [reflexivity | exact I | discriminate | (intro; discriminate)])].
Ltac item :=
  unfold item_fits; cbn [fst snd rc_data rc_scaler_data];
  match goal with |- context [alookup ?p ?cd] => vmc (alookup p cd) end; cbv iota beta;
  cbn [data_fits scalers_fit];
  repeat match goal with |- _ /\ _ => split | |- exists _, _ => eexists end; leaf.
Ltac fits :=
  repeat match goal with
         | |- True => exact I
         | |- _ /\ _ => split
         | |- forall cd', _ = Ok cd' -> _ =>
           let H := fresh "H" in intros ? H; vm_compute in H; injection H as <-; cbn [chunks_fit items_fit rdc_channel_data]
         | |- item_fits _ _ => item
         | |- items_fit _ _ => cbn [items_fit]
         | |- chunks_fit _ _ _ => cbn [chunks_fit items_fit rdc_channel_data]
         end.

Lemma ex_fits : read_data_fits ex_asdt (groups_of ex_h) true false (rs_segments ex_st) (mkPf ex_file 0).
Proof.
  intros cd0 l f H5 Hr. vm_compute in H5. injection H5 as <-. vm_compute in Hr. injection Hr as <- _.
  fits.
Qed.

Example ex_read_data_gen :
  rd_metadata ex_file false (Some (blen ex_file)) false = Ok ex_st /\ build_hierarchy (rs_om ex_st) = Ok ex_h /\
  Forall chan_ok (all_channels ex_h) /\ segs_data_ok ex_file (rs_segments ex_st) /\
  read_data_fits ex_asdt (groups_of ex_h) true false (rs_segments ex_st) (mkPf ex_file 0) /\
  mapr (fun p => (chunks_abs_dq (fst p), pf_pos (snd p))) (reader_read_raw_data_gen (Some (rs_segments ex_st)) (mkPf ex_file 0))
  = Ok (Some [ [(hex "2f2767272f276127", CData [hex "01000000"; hex "feffffff"]); (hex "2f2767272f276227", CData [hex "6869"])];
               [(hex "2f2767272f276127", CData [hex "03000000"; hex "04000000"]); (hex "2f2767272f276227", CData [hex "796f"])];
               [];
               [(hex "2f2767272f276127", CData [hex "05000000"])] ], 273) /\
  mapr (fun r => let '(cd, rawd, flag, f) := r in (cd_abs cd, map fst rawd, flag, pf_pos f))
       (tdmsfile_read_data_gen ex_asdt (groups_of ex_h) [] true false (Some (rs_segments ex_st)) (mkPf ex_file 0) tt)
  = Ok (Some [(hex "2f2767272f276127", Some (CData [hex "01000000"; hex "feffffff"; hex "03000000"; hex "04000000"; hex "05000000"]));
              (hex "2f2767272f276227", Some (CData [hex "6869"; hex "796f"]))],
        [hex "2f2767272f276127"; hex "2f2767272f276227"], true, 273) /\
  rd_eager ex_st ex_h ex_file
  = Ok [(hex "2f2767272f276127", Some (CData [hex "01000000"; hex "feffffff"; hex "03000000"; hex "04000000"; hex "05000000"]));
        (hex "2f2767272f276227", Some (CData [hex "6869"; hex "796f"]))].
Proof.
  split; [vm_compute; reflexivity|]. split; [vm_compute; reflexivity|]. split; [exact ex_chans|]. split; [exact ex_segs_ok|].
  split; [exact ex_fits|]. split; [vm_compute; reflexivity|]. split; vm_compute; reflexivity.
Qed.
End Example.
