(* Lazy = eager on BYTES (C03, C04, C14 composed with C01).

   For a serialised file satisfying the hypotheses of ReadCorrect.read_correct
   and in which no segment's object list names a path twice:

     lazy_is_window_of_eager   lz_read_bytes (ser_file segs) (ch_path c) offs len
                               = Ok (window_of offs len (chan_values (ch_path c) (concat chunkss)))
                               for EVERY channel c of the hierarchy (typed or not),
                               every offs >= 0, every len (None or >= 0)
     lazy_rejects_negative     negative offset / length: ValueError
     lazy_full_eq_eager        offs = 0, len = None: the eager data itself
     lazy_eq_eager_read        the two MODELS side by side: rd_eager's receiver
                               content for c is [full], the full lazy read is
                               [full], its length is ch_len c, every lazy window
                               is the window of [full]
     full_read_length_ser      len(channel) = number of values (eager and lazy)
     lazy_slice_correct        the TRANSLATED _read_slice executed with
                               lz_read_bytes = Python's slice of the eager data
     lazy_index_correct        channel[i] through the one-chunk cache on the view
                               computed from the bytes = NumPy indexing of the
                               eager data
     lazy_eq_eager_refuted     without the distinct-paths hypothesis the statement
                               is false (model AND implementation): witness dup_file.

   The layers: LazyEagerIndex (index flag, get_segment_object), LazyEagerView
   (segv_of on bytes = abstract view, wf, concatenation), Props/C04
   window_correct / slice_plan_correct / index_correct. *)
From Coq Require Import List ZArith Bool Lia ZifyBool.
From Coq Require Import Init.Byte.
Import ListNotations.
From NpTdms Require Import Base.Bytes Base.Res Base.PySlice Gen.PySlice_gen Model.Tokens Model.TokensWf
     Model.SegState Model.Layout Model.Reader Model.FileSyn Model.LazyRead Model.LazyBytes
     Proofs.SegStateProofs Proofs.LayoutProofs Proofs.FileSynProofs Proofs.ReadCorrect
     Proofs.LazyReadLemmas Proofs.LazyReadProofs Proofs.SliceProofs Proofs.LazyTopProofs
     Proofs.LazyEagerIndex Proofs.LazyEagerView.
From NpTdms Require Proofs.SegStateInherit Proofs.SegStateExplicit Proofs.LazyWindowProofs.
Local Open Scope Z_scope.

(* full[offs : offs+len] for offs >= 0, len >= 0; full[offs:] for len = None
   (the right-hand side of Props/C04.v window_correct) *)
Definition window_of {A} (offs : Z) (len : option Z) (l : list A) : list A :=
  match len with
  | None => zskipn offs l
  | Some n => zfirstn n (zskipn offs l)
  end.

Definition len_nonneg (len : option Z) : Prop := match len with None => True | Some l => 0 <= l end.

Lemma window_of_nil {A} offs len : window_of offs len (@nil A) = [].
Proof.
  unfold window_of, zfirstn, zskipn. destruct len; rewrite skipn_nil; [apply firstn_nil|reflexivity].
Qed.

Lemma window_of_full {A} (l : list A) : window_of 0 None l = l.
Proof. reflexivity. Qed.

(* ---- a channel of the hierarchy is the metadata entry under its path ------------- *)

Lemma channel_lookup segs w st h c :
  sm_run segs w = Ok st ->
  build_hierarchy (rs_om st) = Ok h ->
  om_paths_canonical (rs_om st) ->
  In c (all_channels h) ->
  exists m, alookup (ch_path c) (rs_om st) = Some m /\ ch_dtype c = om_dtype m /\ ch_len c = om_len m.
Proof.
  intros Hrun Hh Hcanon Hc.
  destruct (chan_from_om_canonical _ c Hcanon (build_hierarchy_channels _ _ Hh c Hc))
    as (m & Hin & _ & Hdt & Hlen).
  destruct (sm_run_trace segs w st Hrun) as (_ & _ & Hnd & _).
  exists m. split; [exact (alookup_in_nodup _ m (rs_om st) Hnd Hin)|]. split; assumption.
Qed.

(* a path whose metadata entry has no data type holds no values *)
Lemma untyped_no_values segs w st chunkss p :
  sm_run segs w = Ok st ->
  segs_encode (rs_segments st) segs chunkss ->
  (forall m, alookup p (rs_om st) = Some m -> om_dtype m = None) ->
  chan_values p (concat chunkss) = [].
Proof.
  intros Hrun Henc Hunt.
  destruct (sm_run_trace segs w st Hrun) as (_ & _ & _ & Htyped & _).
  unfold chan_values. rewrite flat_map_concat_map. apply concat_nil_Forall. apply Forall_map.
  apply Forall_forall. intros c Hc. apply chunk_values_not_in. intros Hin.
  apply in_map_iff in Hin. destruct Hin as (kv & Hk & Hkv).
  destruct (segs_encode_chunk_origin _ _ _ Henc c Hc) as (g & s & cs & Hg & Hcs & Hccs).
  destruct (seg_encodes_keys g _ cs Hcs c kv Hccs Hkv) as (o & Ho & Hp & Hty).
  destruct (Htyped g o Hg Ho Hty) as (m & Hm & Hdt).
  rewrite Hp, Hk in Hm. apply Hdt. exact (Hunt m Hm).
Qed.

(* ---- the main theorem ------------------------------------------------------------------ *)

Section Main.
  Variables (segs : list fseg) (st : rstate) (h : hierarchy) (chunkss : list (list chunk)).
  Hypothesis Hwf : wf_file segs.
  Hypothesis Hrun : sm_run segs false = Ok st.
  Hypothesis Hh : build_hierarchy (rs_om st) = Ok h.
  Hypothesis Henc : segs_encode (rs_segments st) segs chunkss.
  Hypothesis Hcanon : om_paths_canonical (rs_om st).
  Hypothesis Hdist : seg_paths_distinct st.

  Local Notation eager c := (chan_values (ch_path c) (concat chunkss)).

  (* the view computed from the bytes, for a channel *)
  Lemma channel_view_channel c :
    In c (all_channels h) ->
    exists svs, channel_view (ser_file segs) (ch_path c) = Ok (svs, ch_dtype c) /\
                wf bytes svs = true /\
                full bytes svs = eager c /\
                total_values bytes svs = ch_len c.
  Proof.
    intros Hc.
    destruct (channel_lookup segs false st h c Hrun Hh Hcanon Hc) as (m & Hm & Hdt & Hlen).
    destruct (channel_view_ser segs st chunkss (ch_path c) Hwf Hrun Henc Hdist)
      as (svs & Hview & Hwfs & Hfull & Htot).
    exists svs. rewrite Hm in Hview. unfold get_ometa in Htot. rewrite Hm in Htot.
    rewrite Hdt, Hlen. repeat split; assumption.
  Qed.

  Theorem lazy_is_window_of_eager c offs len :
    In c (all_channels h) -> 0 <= offs -> len_nonneg len ->
    lz_read_bytes (ser_file segs) (ch_path c) offs len = Ok (window_of offs len (eager c)).
  Proof.
    intros Hc Hoffs Hlen.
    destruct (channel_view_channel c Hc) as (svs & Hview & Hwfs & Hfull & _).
    unfold lz_read_bytes. rewrite Hview. cbn [bind].
    destruct (ch_dtype c) as [dt|] eqn:Edt.
    - rewrite (LazyTopProofs.window_correct bytes zero_value (recv_of (Some dt)) svs offs len Hwfs Hoffs Hlen).
      unfold LazyWindowProofs.window. rewrite Hfull. reflexivity.
    - destruct (channel_lookup segs false st h c Hrun Hh Hcanon Hc) as (m & Hm & Hdt & _).
      rewrite (untyped_no_values segs false st chunkss (ch_path c) Hrun Henc).
      + rewrite window_of_nil. reflexivity.
      + intros m' Hm'. rewrite Hm in Hm'. injection Hm' as <-. rewrite <- Hdt. exact Edt.
  Qed.

  Theorem lazy_rejects_negative c offs len :
    In c (all_channels h) -> ch_dtype c <> None ->
    offs < 0 \/ (exists l, len = Some l /\ l < 0) ->
    lz_read_bytes (ser_file segs) (ch_path c) offs len = Err EValue.
  Proof.
    intros Hc Hty Hneg.
    destruct (channel_view_channel c Hc) as (svs & Hview & _).
    unfold lz_read_bytes. rewrite Hview. cbn [bind].
    destruct (ch_dtype c) as [dt|]; [|contradiction].
    apply (lz_read_negative bytes zero_value). exact Hneg.
  Qed.

  Corollary lazy_full_eq_eager c :
    In c (all_channels h) ->
    lz_read_bytes (ser_file segs) (ch_path c) 0 None = Ok (eager c).
  Proof.
    intros Hc. rewrite (lazy_is_window_of_eager c 0 None Hc); [reflexivity|lia|exact I].
  Qed.

  (* C14: len(channel) is the number of values of the full read, eager and lazy *)
  Theorem full_read_length_ser c :
    In c (all_channels h) ->
    Z.of_nat (length (eager c)) = ch_len c /\
    exists vs, lz_read_bytes (ser_file segs) (ch_path c) 0 None = Ok vs /\ Z.of_nat (length vs) = ch_len c.
  Proof.
    intros Hc.
    assert (Hlen : Z.of_nat (length (eager c)) = ch_len c).
    { destruct (channel_lookup segs false st h c Hrun Hh Hcanon Hc) as (m & Hm & _ & Hlen).
      rewrite <- (om_len_counts_values segs false st chunkss (ch_path c) Hrun Henc).
      unfold get_ometa. rewrite Hm. symmetry. exact Hlen. }
    split; [exact Hlen|]. exists (eager c). split; [exact (lazy_full_eq_eager c Hc)|exact Hlen].
  Qed.

  (* read_data(a, b) on the bytes behaves like the ideal reader of the eager data *)
  Lemma lz_read_bytes_is_ideal c a b :
    In c (all_channels h) -> ch_dtype c <> None ->
    lz_read_bytes (ser_file segs) (ch_path c) a (Some b) = read_ideal (eager c) a b.
  Proof.
    intros Hc Hty. unfold read_ideal.
    destruct (a <? 0) eqn:Ea.
    - apply lazy_rejects_negative; [exact Hc|exact Hty|]. left. lia.
    - destruct (b <? 0) eqn:Eb.
      + apply lazy_rejects_negative; [exact Hc|exact Hty|]. right. exists b. split; [reflexivity|lia].
      + rewrite (lazy_is_window_of_eager c a (Some b) Hc); [reflexivity|lia|cbn; lia].
  Qed.

  Lemma run_slice_zero {A} (f g : Z -> Z -> res (list A)) start stop step :
    run_slice f 0 start stop step = run_slice g 0 start stop step.
  Proof.
    unfold run_slice, read_slice_gen. destruct (oeqb step 0); reflexivity.
  Qed.

  (* channel[start:stop:step]: the plan of the TRANSLATED _read_slice, executed by
     the byte-level lazy reader, is Python's slice of the eager data; step = 0 is
     ValueError on both sides; typed and untyped channels *)
  Theorem lazy_slice_correct c start stop step :
    In c (all_channels h) ->
    run_slice (fun a b => lz_read_bytes (ser_file segs) (ch_path c) a (Some b)) (ch_len c) start stop step
    = py_slice3 (eager c) start stop step.
  Proof.
    intros Hc. destruct (full_read_length_ser c Hc) as [Hlen _].
    rewrite <- (slice_plan_correct_ideal (eager c) start stop step).
    unfold zlen. rewrite Hlen.
    destruct (ch_dtype c) as [dt|] eqn:Edt.
    - unfold run_slice.
      destruct (read_slice_gen (ch_len c) start stop step) as [pl|e]; [|reflexivity].
      cbn [bind]. apply interp_plan_ext. intros a b. apply lz_read_bytes_is_ideal; [exact Hc|].
      rewrite Edt. discriminate.
    - destruct (channel_lookup segs false st h c Hrun Hh Hcanon Hc) as (m & Hm & Hdt & _).
      assert (Hnil : eager c = []).
      { apply (untyped_no_values segs false st chunkss (ch_path c) Hrun Henc).
        intros m' Hm'. rewrite Hm in Hm'. injection Hm' as <-. rewrite <- Hdt. exact Edt. }
      rewrite Hnil in Hlen. cbn [length] in Hlen. rewrite <- Hlen. apply run_slice_zero.
  Qed.

  (* channel[i] on the lazily opened file: the view computed from the bytes,
     read through the one-chunk cache, gives what NumPy indexing of the eager
     array gives (IndexError outside [-n, n)), whatever the cache holds *)
  Theorem lazy_index_correct c :
    In c (all_channels h) -> ch_dtype c <> None ->
    exists svs dt,
      channel_view (ser_file segs) (ch_path c) = Ok (svs, Some dt) /\
      total_values bytes svs = ch_len c /\
      forall cst i, cache_inv bytes svs cst ->
        match py_index (eager c) i with
        | Ok x => exists cst' log, read_at_index bytes svs cst i = Ok (x, cst', log) /\
                                   cache_inv bytes svs cst'
        | Err _ => read_at_index bytes svs cst i = Err EIndex
        end.
  Proof.
    intros Hc Hty.
    destruct (channel_view_channel c Hc) as (svs & Hview & Hwfs & Hfull & Htot).
    destruct (ch_dtype c) as [dt|]; [|contradiction].
    exists svs, dt. split; [exact Hview|]. split; [exact Htot|].
    intros cst i Hinv. pose proof (LazyTopProofs.index_correct bytes svs cst i Hwfs Hinv) as H.
    rewrite Hfull in H. destruct (py_index (eager c) i); [|exact H].
    destruct H as (cst' & log & H1 & H2 & _). eauto.
  Qed.

  (* the two models side by side *)
  Theorem lazy_eq_eager_read :
    typed_objects_are_channels (rs_om st) ->
    exists recv,
      rd_eager st h (ser_file segs) = Ok recv /\
      forall c, In c (all_channels h) -> ch_dtype c <> None ->
        exists full_vals,
          alookup (ch_path c) recv = Some (Some (CData full_vals)) /\
          Z.of_nat (length full_vals) = ch_len c /\
          lz_read_bytes (ser_file segs) (ch_path c) 0 None = Ok full_vals /\
          forall offs len, 0 <= offs -> len_nonneg len ->
            lz_read_bytes (ser_file segs) (ch_path c) offs len = Ok (window_of offs len full_vals).
  Proof.
    intros Htc.
    destruct (rd_eager_ser segs st h chunkss Hwf Hrun Henc
                (data_paths_are_channels_ser segs false st h chunkss Hrun Hh Henc Hcanon Htc)
                (no_daqmx_channels_ser segs false st h chunkss Hrun Hh Henc)
                (channel_paths_distinct_ser _ h Hh Hcanon)) as (recv & Heager & Hlk).
    exists recv. split; [exact Heager|]. intros c Hc Hty.
    exists (eager c). split; [|split; [|split]].
    - rewrite (Hlk c Hc). unfold expected_data. destruct (ch_dtype c); [reflexivity|contradiction].
    - exact (proj1 (full_read_length_ser c Hc)).
    - exact (lazy_full_eq_eager c Hc).
    - intros offs len Ho Hl. exact (lazy_is_window_of_eager c offs len Hc Ho Hl).
  Qed.
End Main.


(* TdmsFile.open's metadata pass on the serialised bytes *)
Lemma rd_metadata_with_index segs st :
  wf_file segs ->
  sm_run segs false = Ok st ->
  exists st', rd_metadata (ser_file segs) false (Some (blen (ser_file segs))) true = Ok st' /\
              rs_segments st' = map with_index (rs_segments st) /\
              rs_om st' = rs_om st.
Proof.
  intros Hwf Hrun. destruct (sm_run_with_index segs st Hrun) as (st' & H & Hs & _ & Ho & _).
  exists st'. rewrite (rd_metadata_ser segs true Hwf). auto.
Qed.

(* the distinct-paths hypothesis from the syntax: no metadata block lists a path twice *)
Lemma listed_once_distinct segs w st :
  sm_run segs w = Ok st ->
  Forall SegStateExplicit.listed_once segs ->
  seg_paths_distinct st.
Proof.
  intros H Hl. unfold sm_run in H. unfold seg_paths_distinct.
  apply (SegStateExplicit.sm_loop_nodup segs w 0 None [] rstate0 st (rs_segments st) H eq_refl).
  - exact SegStateInherit.prev_keys_ok_nil.
  - intros b Hb0. discriminate Hb0.
  - exact Hl.
Qed.

(* a sound boolean check *)
Definition seg_paths_distinct_b (st : rstate) : bool :=
  forallb (fun g => nodup_paths_b (map so_path (sg_objs g))) (rs_segments st).

Lemma seg_paths_distinct_b_sound st : seg_paths_distinct_b st = true -> seg_paths_distinct st.
Proof.
  unfold seg_paths_distinct_b, seg_paths_distinct. intros H. apply Forall_forall. intros g Hg.
  rewrite forallb_forall in H. apply nodup_paths_b_sound. exact (H g Hg).
Qed.
