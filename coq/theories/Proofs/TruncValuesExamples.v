(* C06, value level: concrete instances for Props/C06_values.v.

   tv_file: group "g", channel "a" (int32, 2 values per chunk) and channel "b"
   (int16, 2 values per chunk), contiguous 12-byte chunks; segment 1 has a
   metadata block and TWO chunks (raw data at 133..157), segment 2 has no
   metadata block and one chunk (lead-in at 157, raw data at 185..197).
   All hypotheses of truncation_values_prefix are discharged for it (and, in
   Proofs/ReadCorrect.v, for rc_file: int32 + string channels, and rc2_file:
   interleaved int16 + bool, then a metadata-only segment). *)
From Coq Require Import List ZArith Bool Lia.
From Coq Require Import Init.Byte.
Import ListNotations.
From NpTdms Require Import Base.Bytes Base.Res Model.Tokens Model.TokensWf Model.SegState
     Model.Layout Model.Reader Model.FileSyn Proofs.LayoutProofs Proofs.FileSynProofs
     Proofs.ReadCorrect Proofs.TruncValuesLayout Proofs.TruncValuesFile.
Local Open Scope Z_scope.

Section TvExample.
Import String.
Local Open Scope string_scope.

Definition tv_file : list fseg :=
  [ mkFseg 14 4713
      (Some [ mkEntry (hex "2f") INoData [];
              mkEntry (hex "2f276727") INoData [];
              mkEntry (hex "2f2767272f276127") (IFull 20 3 1 2 None) [];
              mkEntry (hex "2f2767272f276227") (IFull 20 2 1 2 None) [] ])
      (hex "01000000020000000a000b0003000000040000000c000d00");
    mkFseg 8 4713 None (hex "05000000060000000e000f00") ].

Definition tv_st : rstate := match sm_run tv_file false with Ok st => st | Err _ => rstate0 end.
Definition tv_h : hierarchy :=
  match build_hierarchy (rs_om tv_st) with Ok h => h | Err _ => mkHier [] [] end.

(* per segment, per chunk, per data object: the values *)
Definition tv_values : list (list (list (list bytes))) :=
  [ [ [ [hex "01000000"; hex "02000000"]; [hex "0a00"; hex "0b00"] ];
      [ [hex "03000000"; hex "04000000"]; [hex "0c00"; hex "0d00"] ] ];
    [ [ [hex "05000000"; hex "06000000"]; [hex "0e00"; hex "0f00"] ] ] ].

Definition tv_chunks : list (list chunk) :=
  map (map (fun vss => [(rc_path_a, CData (nth 0 vss [])); (rc_path_b, CData (nth 1 vss []))]))
      tv_values.

Definition tv_obj_a : sobj := mkSobj rc_path_a true 2 8 (Some 3) None.   (* int32 x 2 *)
Definition tv_obj_b : sobj := mkSobj rc_path_b true 2 4 (Some 2) None.   (* int16 x 2 *)

Example tv_wf : wf_file tv_file.
Proof. unfold wf_file. vm_compute. reflexivity. Qed.

Example tv_run : sm_run tv_file false = Ok tv_st.
Proof. vm_compute. reflexivity. Qed.

Example tv_hier : build_hierarchy (rs_om tv_st) = Ok tv_h.
Proof. vm_compute. reflexivity. Qed.

Example tv_encodes : segs_encode (rs_segments tv_st) tv_file tv_chunks.
Proof.
  assert (Hsegs : rs_segments tv_st = [nth 0 (rs_segments tv_st) (mkSeg 0 0 0 0 false [] [] 0 None);
                                        nth 1 (rs_segments tv_st) (mkSeg 0 0 0 0 false [] [] 0 None)])
    by (vm_compute; reflexivity).
  rewrite Hsegs. clear Hsegs.
  unfold tv_file, tv_chunks, tv_values. cbn [map].
  constructor; [|constructor; [|constructor]].
  - eapply (rc_seg_contig _ _ [tv_obj_a; tv_obj_b] (nth 0 tv_values [])).
    + vm_compute. reflexivity.
    + vm_compute. reflexivity.
    + vm_compute. reflexivity.
    + vm_compute. reflexivity.
    + unfold tv_values. cbn [nth]. repeat constructor.
    + unfold tv_values. cbn [nth]. repeat constructor.
    + vm_compute. reflexivity.
    + vm_compute. reflexivity.
  - eapply (rc_seg_contig _ _ [tv_obj_a; tv_obj_b] (nth 1 tv_values [])).
    + vm_compute. reflexivity.
    + vm_compute. reflexivity.
    + vm_compute. reflexivity.
    + vm_compute. reflexivity.
    + unfold tv_values. cbn [nth]. repeat constructor.
    + unfold tv_values. cbn [nth]. repeat constructor.
    + vm_compute. reflexivity.
    + vm_compute. reflexivity.
Qed.

Example tv_canonical : om_paths_canonical (rs_om tv_st).
Proof. apply om_paths_canonical_b_sound. vm_compute. reflexivity. Qed.

Example tv_typed_channels : typed_objects_are_channels (rs_om tv_st).
Proof. apply typed_objects_are_channels_b_sound. vm_compute. reflexivity. Qed.

(* where the segments lie, and how the cut offsets used below are classified *)
Example tv_geometry :
  map (fun g => (sg_pos g, sg_data g, sg_next g, sg_nchunks g)) (rs_segments tv_st)
  = [(0, 133, 157, 2); (157, 185, 197, 1)] /\
  map (fun k => (k, whole_count 0 tv_file k, meta_count 0 tv_file k, cut_in_data 0 tv_file k))
      [152; 157; 170; 190; 197]
  = [(152, 0%nat, 1%nat, true); (157, 1%nat, 1%nat, false); (170, 1%nat, 1%nat, false);
     (190, 1%nat, 2%nat, true); (197, 2%nat, 2%nat, false)].
Proof. vm_compute. split; reflexivity. Qed.

Example rc_geometry :
  map (fun g => (sg_pos g, sg_data g, sg_next g, sg_nchunks g)) (rs_segments rc_st)
  = [(0, 169, 207, 2); (207, 235, 254, 1)] /\
  map (fun k => (k, whole_count 0 rc_file k, meta_count 0 rc_file k, cut_in_data 0 rc_file k))
      [190; 207; 220; 250; 254]
  = [(190, 0%nat, 1%nat, true); (207, 1%nat, 1%nat, false); (220, 1%nat, 1%nat, false);
     (250, 1%nat, 2%nat, true); (254, 2%nat, 2%nat, false)].
Proof. vm_compute. split; reflexivity. Qed.

Example rc2_geometry :
  map (fun g => (sg_pos g, sg_data g, sg_next g, sg_nchunks g)) (rs_segments rc2_st)
  = [(0, 104, 113, 1); (113, 176, 176, 0)] /\
  map (fun k => (k, whole_count 0 rc2_file k, meta_count 0 rc2_file k, cut_in_data 0 rc2_file k))
      [108; 113; 150; 176]
  = [(108, 0%nat, 1%nat, true); (113, 1%nat, 1%nat, false); (150, 1%nat, 1%nat, false);
     (176, 2%nat, 2%nat, false)].
Proof. vm_compute. split; reflexivity. Qed.

(* ---- tv_file, three cuts --------------------------------------------------------- *)

(* the complete file, for comparison: a = 1..6, b = 10..15 *)
Example tv_read_complete :
  rd_all (ser_file tv_file) =
  Ok ([TZ 4713; TZ 0; TZ 1; TB (hex "67"); TZ 0; TZ 2;
       TB (hex "61"); TB (hex "67"); TB rc_path_a; TZ 3; TZ 6; TZ 0;
       TZ 0; TZ 6; TB (hex "01000000"); TB (hex "02000000"); TB (hex "03000000");
       TB (hex "04000000"); TB (hex "05000000"); TB (hex "06000000");
       TB (hex "62"); TB (hex "67"); TB rc_path_b; TZ 2; TZ 6; TZ 0;
       TZ 0; TZ 6; TB (hex "0a00"); TB (hex "0b00"); TB (hex "0c00"); TB (hex "0d00");
       TB (hex "0e00"); TB (hex "0f00");
       TZ 0; TZ 0], true).
Proof. vm_compute. reflexivity. Qed.

(* cut at 152: 19 bytes of segment 1's raw data survive = chunk 1 (12 bytes) and 7
   bytes of chunk 2: one int32 of "a" (03000000), then 3 bytes of its next value,
   which credit NOTHING to "b".  a = 1,2,3 (len 3); b = 10,11 (len 2);
   file_status: incomplete, chunk status a 2 expected / 1 read, b 2 / 0. *)
Example tv_cut_mid_value :
  rd_all (take 152 (ser_file tv_file)) =
  Ok ([TZ 4713; TZ 0; TZ 1; TB (hex "67"); TZ 0; TZ 2;
       TB (hex "61"); TB (hex "67"); TB rc_path_a; TZ 3; TZ 3; TZ 0;
       TZ 0; TZ 3; TB (hex "01000000"); TB (hex "02000000"); TB (hex "03000000");
       TB (hex "62"); TB (hex "67"); TB rc_path_b; TZ 2; TZ 2; TZ 0;
       TZ 0; TZ 2; TB (hex "0a00"); TB (hex "0b00");
       TZ 1; TZ 1; TZ 2; TB rc_path_a; TZ 2; TZ 1; TB rc_path_b; TZ 2; TZ 0], true).
Proof. vm_compute. reflexivity. Qed.

(* cut at 157 (the boundary between the two segments) and at 170 (inside the
   lead-in of segment 2): exactly the content of segment 1, complete status *)
Example tv_cut_boundary_and_leadin :
  rd_all (take 157 (ser_file tv_file)) = rd_all (take 170 (ser_file tv_file)) /\
  rd_all (take 157 (ser_file tv_file)) =
  Ok ([TZ 4713; TZ 0; TZ 1; TB (hex "67"); TZ 0; TZ 2;
       TB (hex "61"); TB (hex "67"); TB rc_path_a; TZ 3; TZ 4; TZ 0;
       TZ 0; TZ 4; TB (hex "01000000"); TB (hex "02000000"); TB (hex "03000000"); TB (hex "04000000");
       TB (hex "62"); TB (hex "67"); TB rc_path_b; TZ 2; TZ 4; TZ 0;
       TZ 0; TZ 4; TB (hex "0a00"); TB (hex "0b00"); TB (hex "0c00"); TB (hex "0d00");
       TZ 0; TZ 0], true).
Proof. vm_compute. split; reflexivity. Qed.

(* the prefix relations of the theorem, on the values just shown *)
Example tv_cut_prefixes :
  chan_values rc_path_a (List.concat tv_chunks)
  = [hex "01000000"; hex "02000000"; hex "03000000"; hex "04000000"; hex "05000000"; hex "06000000"] /\
  chan_values rc_path_b (List.concat tv_chunks)
  = [hex "0a00"; hex "0b00"; hex "0c00"; hex "0d00"; hex "0e00"; hex "0f00"] /\
  is_prefix [hex "01000000"; hex "02000000"; hex "03000000"] (chan_values rc_path_a (List.concat tv_chunks)) /\
  is_prefix [hex "0a00"; hex "0b00"] (chan_values rc_path_b (List.concat tv_chunks)) /\
  (* cut at 157 or 170: one segment wholly before the cut, all of its values are there *)
  chan_values rc_path_a (List.concat (firstn (whole_count 0 tv_file 170) tv_chunks))
  = [hex "01000000"; hex "02000000"; hex "03000000"; hex "04000000"].
Proof.
  split; [vm_compute; reflexivity|]. split; [vm_compute; reflexivity|].
  split; [eexists; vm_compute; reflexivity|]. split; [eexists; vm_compute; reflexivity|].
  vm_compute. reflexivity.
Qed.

(* ---- rc_file (int32 channel + string channel), three cuts ------------------------ *)

(* cut at 190: 21 bytes of segment 1's raw data = chunk 1 (19 bytes) and 2 bytes of
   chunk 2.  A string channel is among the data objects, so nothing of chunk 2 is
   credited to anyone: a = 1,2; b = "ab","c"; incomplete. *)
Example rc_cut_mid_value :
  rd_all (take 190 (ser_file rc_file)) =
  Ok ([TZ 4713; TZ 0; TZ 1; TB (hex "67"); TZ 1; TB (hex "6e"); TZ 3; TB (hex "6869"); TZ 2;
       TB (hex "61"); TB (hex "67"); TB rc_path_a; TZ 3; TZ 2; TZ 1; TB (hex "70"); TZ 0; TZ 7;
       TZ 0; TZ 2; TB (hex "01000000"); TB (hex "02000000");
       TB (hex "62"); TB (hex "67"); TB rc_path_b; TZ 32; TZ 2; TZ 0;
       TZ 0; TZ 2; TB (hex "6162"); TB (hex "63");
       TZ 1; TZ 1; TZ 2; TB rc_path_a; TZ 2; TZ 0; TB rc_path_b; TZ 2; TZ 0], true).
Proof. vm_compute. reflexivity. Qed.

(* cut at 207 (segment boundary) and at 220 (inside the lead-in of segment 2, which
   has no metadata block): the content of segment 1 *)
Example rc_cut_boundary_and_leadin :
  rd_all (take 207 (ser_file rc_file)) = rd_all (take 220 (ser_file rc_file)) /\
  rd_all (take 207 (ser_file rc_file)) =
  Ok ([TZ 4713; TZ 0; TZ 1; TB (hex "67"); TZ 1; TB (hex "6e"); TZ 3; TB (hex "6869"); TZ 2;
       TB (hex "61"); TB (hex "67"); TB rc_path_a; TZ 3; TZ 4; TZ 1; TB (hex "70"); TZ 0; TZ 7;
       TZ 0; TZ 4; TB (hex "01000000"); TB (hex "02000000"); TB (hex "03000000"); TB (hex "04000000");
       TB (hex "62"); TB (hex "67"); TB rc_path_b; TZ 32; TZ 4; TZ 0;
       TZ 0; TZ 4; TB (hex "6162"); TB (hex "63"); TB []; TB (hex "78797a");
       TZ 0; TZ 0], true).
Proof. vm_compute. split; reflexivity. Qed.

Example rc_cut_prefixes :
  chan_values rc_path_a (List.concat rc_chunks)
  = [hex "01000000"; hex "02000000"; hex "03000000"; hex "04000000"; hex "05000000"; hex "06000000"] /\
  chan_values rc_path_b (List.concat rc_chunks)
  = [hex "6162"; hex "63"; []; hex "78797a"; hex "71"; hex "7273"] /\
  is_prefix [hex "01000000"; hex "02000000"] (chan_values rc_path_a (List.concat rc_chunks)) /\
  is_prefix [hex "6162"; hex "63"] (chan_values rc_path_b (List.concat rc_chunks)) /\
  chan_values rc_path_b (List.concat (firstn (whole_count 0 rc_file 220) rc_chunks))
  = [hex "6162"; hex "63"; []; hex "78797a"].
Proof.
  split; [vm_compute; reflexivity|]. split; [vm_compute; reflexivity|].
  split; [eexists; vm_compute; reflexivity|]. split; [eexists; vm_compute; reflexivity|].
  vm_compute. reflexivity.
Qed.

(* ---- rc2_file (interleaved, then a metadata-only segment), two cuts ---------------- *)

(* cut at 108: 4 bytes of the interleaved raw data = one row of 3 bytes and one
   byte of the next: a = 0x0201, b = true; incomplete, 3 expected / 1 read.
   cut at 150: inside the METADATA of segment 2: its group property is not seen
   (group "g" has 0 properties; in the complete file it has 1), the values of
   segment 1 are all there. *)
Example rc2_cut_mid_row :
  rd_all (take 108 (ser_file rc2_file)) =
  Ok ([TZ 4713; TZ 0; TZ 1; TB (hex "67"); TZ 0; TZ 2;
       TB (hex "61"); TB (hex "67"); TB rc_path_a; TZ 2; TZ 1; TZ 0;
       TZ 0; TZ 1; TB (hex "0102");
       TB (hex "62"); TB (hex "67"); TB rc_path_b; TZ 33; TZ 1; TZ 0;
       TZ 0; TZ 1; TB (hex "01");
       TZ 1; TZ 1; TZ 2; TB rc_path_a; TZ 3; TZ 1; TB rc_path_b; TZ 3; TZ 1], true).
Proof. vm_compute. reflexivity. Qed.

Example rc2_cut_in_later_metadata :
  rd_all (take 150 (ser_file rc2_file)) = rd_all (take 113 (ser_file rc2_file)) /\
  rd_all (take 150 (ser_file rc2_file)) =
  Ok ([TZ 4713; TZ 0; TZ 1; TB (hex "67"); TZ 0; TZ 2;
       TB (hex "61"); TB (hex "67"); TB rc_path_a; TZ 2; TZ 3; TZ 0;
       TZ 0; TZ 3; TB (hex "0102"); TB (hex "0304"); TB (hex "0506");
       TB (hex "62"); TB (hex "67"); TB rc_path_b; TZ 33; TZ 3; TZ 0;
       TZ 0; TZ 3; TB (hex "01"); TB (hex "00"); TB (hex "01");
       TZ 0; TZ 0], true).
Proof. vm_compute. split; reflexivity. Qed.

End TvExample.

(* every cut offset of the three files: the reader model succeeds and every
   receiver holds exactly len(channel) values (what the theorem says, computed) *)
Definition all_cuts_ok (segs : list fseg) : bool :=
  let f := ser_file segs in
  forallb (fun k => match rd_all (take (Z.of_nat k) f) with Ok (_, true) => true | _ => false end)
          (seq 4 (length f - 3)).

Example all_cuts_of_the_examples :
  all_cuts_ok tv_file = true /\ all_cuts_ok rc_file = true /\ all_cuts_ok rc2_file = true.
Proof. vm_compute. repeat split. Qed.
