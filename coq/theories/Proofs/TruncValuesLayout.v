(* C06, value level, layer L1: the raw data decoders on a TRUNCATED raw data block.

   A segment record [g] whose raw data block [data] encodes [chunks]
   (ReadCorrect.seg_encodes: contiguous or interleaved layout), cut to its first
   [j] bytes (0 <= j < blen data).  The metadata pass on the cut file builds for
   it a record [gc] with the same ToC mask and object list, flagged incomplete,
   whose chunk count and final-chunk override are
     calculate_chunks (sg_toc g) true (sg_objs g) j.
   Proved here, for every such cut:

     cut_calculate_chunks_ok   that computation succeeds (for ANY object list on
                               which the complete computation succeeded, DAQmx
                               included);
     cut_segment_decodes       read_segment_chunks gc (take j data) succeeds, the
                               chunks it yields hold only plain data under paths
                               of typed data objects, for every path their values
                               are a PREFIX of the values of [chunks], and the
                               number of values equals what the metadata pass
                               credits (ReadCorrect.seg_total gc).

   What the decoders do with the partial chunk (mirrors Model/Layout.v, which
   mirrors tdms_segment.py):
     contiguous, a string channel among the data objects: the override is the
       empty dictionary, so NO object gets a value from the partial chunk
       (_compute_final_chunk_lengths returns {} when any data object is unsized);
     contiguous, sized types only: whole leading channels, then the complete
       values of the first channel that does not fit, later channels nothing;
     interleaved: the complete rows. *)
From Coq Require Import List ZArith Bool Lia ZifyBool.
From Coq Require Import Init.Byte.
Import ListNotations.
From NpTdms Require Import Base.Bytes Base.Res Model.Tokens Model.TokensWf Model.SegState
     Model.Layout Model.Reader Model.FileSyn Proofs.TokensRoundtrip Proofs.SegStateProofs
     Proofs.LayoutProofs Proofs.FileSynProofs Proofs.SegStateInherit Proofs.TruncProofs
     Proofs.ReadCorrect.
Local Open Scope Z_scope.
Ltac Zify.zify_post_hook ::= Z.to_euclidean_division_equations.

(* ---- prefixes ---------------------------------------------------------------- *)

Definition is_prefix {A} (a b : list A) : Prop := exists t, b = a ++ t.

Lemma is_prefix_refl {A} (a : list A) : is_prefix a a.
Proof. exists []. rewrite app_nil_r. reflexivity. Qed.

Lemma is_prefix_nil {A} (a : list A) : is_prefix [] a.
Proof. exists a. reflexivity. Qed.

Lemma is_prefix_app_l {A} (a x y : list A) : is_prefix x y -> is_prefix (a ++ x) (a ++ y).
Proof. intros [t ->]. exists t. rewrite app_assoc. reflexivity. Qed.

Lemma is_prefix_app_r {A} (a x t : list A) : is_prefix a x -> is_prefix a (x ++ t).
Proof. intros [u ->]. exists (u ++ t). rewrite app_assoc. reflexivity. Qed.

Lemma is_prefix_self_app {A} (a t : list A) : is_prefix a (a ++ t).
Proof. exists t. reflexivity. Qed.

Lemma is_prefix_firstn {A} n (l : list A) : is_prefix (firstn n l) l.
Proof. exists (skipn n l). symmetry. apply firstn_skipn. Qed.

Lemma is_prefix_trans {A} (a b c : list A) : is_prefix a b -> is_prefix b c -> is_prefix a c.
Proof. intros [t ->] [u ->]. exists (t ++ u). rewrite app_assoc. reflexivity. Qed.

Lemma is_prefix_length {A} (a b : list A) : is_prefix a b -> (length a <= length b)%nat.
Proof. intros [t ->]. rewrite app_length. lia. Qed.

(* ---- slicing ------------------------------------------------------------------- *)

Lemma take_nil n : take n [] = [].
Proof. rewrite take_firstn. apply firstn_nil. Qed.

Lemma take_0 (x : bytes) : take 0 x = [].
Proof. rewrite take_firstn. reflexivity. Qed.

Lemma take_app_le j (a b : bytes) : j <= blen a -> take j (a ++ b) = take j a.
Proof.
  intros H. rewrite !take_firstn, firstn_app.
  replace (Z.to_nat j - length a)%nat with 0%nat by (unfold blen in H; lia).
  cbn [firstn]. apply app_nil_r.
Qed.

Lemma take_app_ge j (a b : bytes) : blen a <= j -> take j (a ++ b) = a ++ take (j - blen a) b.
Proof.
  intros H. rewrite !take_firstn, firstn_app. unfold blen in *.
  rewrite firstn_all2 by lia. f_equal. f_equal. lia.
Qed.

Lemma blen_take j (x : bytes) : 0 <= j <= blen x -> blen (take j x) = j.
Proof. intros H. rewrite take_firstn. unfold blen in *. rewrite firstn_length. lia. Qed.

Lemma blen_take_le j (x : bytes) : 0 <= j -> blen (take j x) <= j.
Proof. intros H. rewrite take_firstn. unfold blen. rewrite firstn_length. lia. Qed.

Lemma take_all j (x : bytes) : blen x <= j -> take j x = x.
Proof. intros H. rewrite take_firstn. apply firstn_all2. unfold blen in H. lia. Qed.

Lemma drop_all j (x : bytes) : blen x <= j -> drop j x = [].
Proof. intros H. rewrite drop_skipn. apply skipn_all2. unfold blen in H. lia. Qed.

Lemma In_firstn {A} n (l : list A) x : In x (firstn n l) -> In x l.
Proof. intros H. rewrite <- (firstn_skipn n l). apply in_or_app. left. exact H. Qed.

Lemma Forall_firstn {A} (P : A -> Prop) n l : Forall P l -> Forall P (firstn n l).
Proof.
  intros H. apply Forall_forall. intros x Hx. rewrite Forall_forall in H. apply H.
  exact (In_firstn n l x Hx).
Qed.

(* A byte string made of blocks of [sz] bytes, cut after [j] bytes: the whole
   blocks before the cut, then the first [j mod sz] bytes of the next block. *)
Lemma take_blocks {X} (enc : X -> bytes) (sz : Z) : 0 < sz -> forall (xs : list X) (j : Z),
    Forall (fun x => blen (enc x) = sz) xs ->
    0 <= j <= Z.of_nat (length xs) * sz ->
    take j (flat_map enc xs) =
    flat_map enc (firstn (Z.to_nat (j / sz)) xs) ++
    take (j mod sz) (match nth_error xs (Z.to_nat (j / sz)) with Some x => enc x | None => [] end).
Proof.
  intros Hsz. induction xs as [|x xs IH]; intros j Hall Hj.
  - cbn [length] in Hj. assert (j = 0) by lia. subst j.
    rewrite Z.div_0_l, Z.mod_0_l by lia. change (Z.to_nat 0) with 0%nat.
    cbn [flat_map firstn nth_error app]. rewrite !take_nil. reflexivity.
  - inversion Hall as [|x' xs' Hx Hxs]; subst x' xs'. cbn [flat_map].
    destruct (Z_lt_le_dec j sz) as [Hlt|Hge].
    + rewrite Z.div_small, Z.mod_small by lia. cbn [Z.to_nat firstn flat_map nth_error app].
      apply take_app_le. lia.
    + rewrite take_app_ge by lia. rewrite Hx.
      assert (Hd : j / sz = (j - sz) / sz + 1).
      { replace j with ((j - sz) + 1 * sz) at 1 by lia. apply Z.div_add. lia. }
      assert (Hm : j mod sz = (j - sz) mod sz).
      { replace j with ((j - sz) + 1 * sz) at 1 by lia. apply Z.mod_add. lia. }
      assert (H0 : 0 <= (j - sz) / sz) by (apply Z.div_pos; lia).
      rewrite Hd, Hm. replace (Z.to_nat ((j - sz) / sz + 1)) with (S (Z.to_nat ((j - sz) / sz))) by lia.
      cbn [firstn flat_map nth_error]. rewrite <- app_assoc. f_equal.
      apply IH; [exact Hxs|]. cbn [length] in Hj. lia.
Qed.

(* ---- the chunk arithmetic of a cut segment never fails ------------------------- *)

(* Whatever the object list (DAQmx included): if _calculate_chunks accepted the
   complete raw data length, it accepts every shorter one. *)
Theorem cut_calculate_chunks_ok toc inc inc' objs total j x :
  calculate_chunks toc inc objs total = Ok x ->
  0 <= j <= total ->
  exists y, calculate_chunks toc inc' objs j = Ok y.
Proof.
  unfold calculate_chunks. intros H Hj.
  destruct (chunk_size objs) as [csize|e] eqn:Ecs; cbn [bind] in *; [|discriminate].
  destruct ((csize <? 0) || (total <? 0)) eqn:E1; [discriminate|].
  replace ((csize <? 0) || (j <? 0)) with false by lia.
  destruct (csize =? 0) eqn:E0.
  - destruct (negb (total =? 0)) eqn:Et; [discriminate|].
    replace (negb (j =? 0)) with false by lia. eexists. reflexivity.
  - destruct (j mod csize =? 0); [eexists; reflexivity|].
    assert (Hf : exists f, final_chunk_lengths toc inc' objs csize (j mod csize) = Ok f).
    { unfold final_chunk_lengths. unfold chunk_size in Ecs.
      destruct (have_daqmx objs) as [[|]|e]; cbn [bind] in *; try discriminate.
      - unfold daqmx_final. destruct (buffer_dims objs) as [dims|e]; cbn [bind] in *; [|discriminate].
        eexists. reflexivity.
      - destruct (existsb _ objs); [eexists; reflexivity|].
        destruct (toc_has toc TOC_INTERLEAVED || negb inc'); eexists; reflexivity. }
    destruct Hf as [f Hf]. rewrite Hf. cbn [bind]. eexists. reflexivity.
Qed.

(* ---- layout facts that depend on the ToC mask and the object list only -------- *)

Lemma seg_layout_ext a b :
  sg_toc a = sg_toc b -> sg_objs a = sg_objs b -> seg_layout a = seg_layout b.
Proof. intros Ht Ho. unfold seg_layout. rewrite Ht, Ho. reflexivity. Qed.

Lemma seg_layout_no_daqmx g lay :
  seg_layout g = Ok lay -> lay <> LDaqmx -> have_daqmx (sg_objs g) = Ok false.
Proof.
  unfold seg_layout. intros H Hl.
  destruct (have_daqmx (sg_objs g)) as [[|]|e]; cbn [bind] in H; try discriminate; [|reflexivity].
  injection H as <-. contradiction.
Qed.

Definition unsized_b (o : sobj) : bool := match sized o with None => true | Some _ => false end.

Lemma existsb_unsized_data objs :
  existsb (fun o => so_has_data o && unsized_b o) objs = existsb unsized_b (data_objs objs).
Proof.
  induction objs as [|o r IH]; [reflexivity|]. cbn [existsb]. rewrite data_objs_cons.
  destruct (so_has_data o); cbn [andb orb existsb]; rewrite IH; reflexivity.
Qed.

Lemma existsb_unsized_false dobjs :
  existsb unsized_b dobjs = false -> Forall (fun o => sized o <> None) dobjs.
Proof.
  intros H. apply Forall_forall. intros o Ho E.
  assert (Ht : existsb unsized_b dobjs = true).
  { apply existsb_exists. exists o. split; [exact Ho|]. unfold unsized_b. rewrite E. reflexivity. }
  congruence.
Qed.

Lemma all_sized_existsb dobjs :
  Forall (fun o => sized o <> None) dobjs -> existsb unsized_b dobjs = false.
Proof.
  induction 1 as [|o r Ho _ IH]; [reflexivity|]. cbn [existsb]. rewrite IH.
  unfold unsized_b. destruct (sized o); [reflexivity|contradiction].
Qed.

Lemma all_sized_filter dobjs :
  Forall (fun o => sized o <> None) dobjs ->
  filter (fun o => match sized o with None => true | Some _ => false end) dobjs = [].
Proof.
  induction 1 as [|o r Ho _ IH]; [reflexivity|]. cbn [filter]. rewrite IH.
  destruct (sized o); [reflexivity|contradiction].
Qed.

(* a contiguous layout with sized data objects only: the interleaved flag is not set *)
Lemma contig_sized_not_interleaved g :
  seg_layout g = Ok LContig ->
  Forall (fun o => sized o <> None) (data_objs (sg_objs g)) ->
  toc_has (sg_toc g) TOC_INTERLEAVED = false.
Proof.
  unfold seg_layout, have_interleaved. intros H Hsz.
  destruct (have_daqmx (sg_objs g)) as [[|]|e]; cbn [bind] in H; try discriminate.
  destruct (toc_has (sg_toc g) TOC_INTERLEAVED); [|reflexivity]. cbn [negb] in H.
  rewrite (all_sized_filter _ Hsz) in H. cbn in H. discriminate.
Qed.

Lemma interleaved_flag_set g :
  seg_layout g = Ok LInterleaved -> toc_has (sg_toc g) TOC_INTERLEAVED = true.
Proof.
  unfold seg_layout, have_interleaved. intros H.
  destruct (have_daqmx (sg_objs g)) as [[|]|e]; cbn [bind] in H; try discriminate.
  destruct (toc_has (sg_toc g) TOC_INTERLEAVED); [reflexivity|]. cbn [negb bind] in H. discriminate.
Qed.

(* what _compute_final_chunk_lengths returns for an incomplete segment without
   DAQmx data *)
Lemma final_chunk_lengths_cases toc objs csize rem :
  have_daqmx objs = Ok false ->
  final_chunk_lengths toc true objs csize rem =
  Ok (if existsb unsized_b (data_objs objs) then []
      else if toc_has toc TOC_INTERLEAVED then prop_final objs csize rem
           else contig_final objs rem []).
Proof.
  intros Hd. unfold final_chunk_lengths. rewrite Hd. cbn [bind].
  change (fun o => so_has_data o && match sized o with None => true | Some _ => false end)
    with (fun o => so_has_data o && unsized_b o).
  rewrite existsb_unsized_data.
  destruct (existsb unsized_b (data_objs objs)); [reflexivity|].
  cbn [negb]. rewrite orb_false_r.
  destruct (toc_has toc TOC_INTERLEAVED); reflexivity.
Qed.

(* ---- counting values ------------------------------------------------------------- *)

Lemma obj_total_final p n f : forall dobjs,
    Forall (fun o => so_has_data o = true) dobjs ->
    obj_total p dobjs n (Some f) =
    (n - 1) * path_count p so_nvals dobjs + path_count p (fun o => lookup0 (so_path o) f) dobjs.
Proof.
  unfold obj_total, path_count.
  induction 1 as [|o dobjs Ho _ IH]; cbn [map zsum fold_right]; [lia|].
  unfold zsum in IH. rewrite IH. unfold seg_values. rewrite Ho. cbn [negb]. unfold lookup0.
  destruct (bytes_eqb p (so_path o)); lia.
Qed.

(* one contiguous chunk in which object [o] holds [w o] values *)
Lemma chunk_of_count_w p (w : sobj -> Z) : forall dobjs vss,
    Forall2 (fun o vs => vals_ok (w o) o vs) dobjs vss ->
    Z.of_nat (length (chunk_values p (chunk_of (combine dobjs vss)))) = path_count p w dobjs.
Proof.
  induction 1 as [|o vs dobjs vss [Hn _] _ IH]; [reflexivity|].
  cbn [combine chunk_of map fst snd]. rewrite chunk_values_cons, app_length, Nat2Z.inj_add.
  fold (chunk_of (combine dobjs vss)). rewrite IH, path_count_cons.
  unfold entry_values. cbn [fst snd]. destruct (bytes_eqb p (so_path o)); [lia|reflexivity].
Qed.

Lemma chunk_of_keys_w (w : sobj -> Z) dobjs : forall vss kv,
    Forall2 (fun o vs => vals_ok (w o) o vs) dobjs vss ->
    In kv (chunk_of (combine dobjs vss)) ->
    exists o, In o dobjs /\ so_path o = fst kv /\ so_dtype o <> None.
Proof.
  intros vss kv Hok Hin. unfold chunk_of in Hin. apply in_map_iff in Hin.
  destruct Hin as ([o vs] & <- & Hin). cbn [fst snd].
  apply Forall2_combine in Hok. destruct Hok as [Hall _]. rewrite Forall_forall in Hall.
  specialize (Hall (o, vs) Hin). cbn [fst snd] in Hall.
  exists o. split; [exact (in_combine_l _ _ _ _ Hin)|]. split; [reflexivity|].
  exact (vals_ok_dtype _ _ _ Hall).
Qed.

Lemma chunk_of_key_list dobjs vss :
  length dobjs = length vss -> map fst (chunk_of (combine dobjs vss)) = map so_path dobjs.
Proof.
  intros Hlen. unfold chunk_of. rewrite map_map. cbn [fst].
  rewrite <- (map_map fst so_path), (map_fst_combine _ _ Hlen). reflexivity.
Qed.

Lemma Forall2_length {A B} (P : A -> B -> Prop) a b : Forall2 P a b -> length a = length b.
Proof. induction 1; cbn [length]; congruence. Qed.

(* with distinct paths, pointwise prefixes give a prefix per path *)
Lemma chunk_of_prefix p : forall dobjs vss' vss,
    NoDup (map so_path dobjs) ->
    length dobjs = length vss ->
    Forall2 (fun a b => is_prefix a b) vss' vss ->
    is_prefix (chunk_values p (chunk_of (combine dobjs vss')))
              (chunk_values p (chunk_of (combine dobjs vss))).
Proof.
  induction dobjs as [|o dobjs IH]; intros vss' vss Hnd Hlen Hpre; [apply is_prefix_refl|].
  destruct Hpre as [|v' v vss' vss Hv Hpre]; [apply is_prefix_refl|].
  cbn [map] in Hnd. inversion Hnd as [|x l Hnin Hnd']; subst x l.
  cbn [length] in Hlen.
  cbn [combine chunk_of map fst snd]. rewrite !chunk_values_cons.
  fold (chunk_of (combine dobjs vss')). fold (chunk_of (combine dobjs vss)).
  unfold entry_values. cbn [fst snd].
  destruct (bytes_eqb p (so_path o)) eqn:E.
  - apply bytes_eqb_eq in E. subst p.
    assert (Hlen' : length dobjs = length vss') by (apply Forall2_length in Hpre; lia).
    rewrite (chunk_values_not_in (so_path o) (chunk_of (combine dobjs vss')))
      by (rewrite chunk_of_key_list by exact Hlen'; exact Hnin).
    rewrite (chunk_values_not_in (so_path o) (chunk_of (combine dobjs vss)))
      by (rewrite chunk_of_key_list by lia; exact Hnin).
    rewrite !app_nil_r. exact Hv.
  - cbn [app]. apply IH; [exact Hnd'|lia|exact Hpre].
Qed.

Lemma chan_values_firstn_prefix p n (chunks : list chunk) :
  is_prefix (chan_values p (firstn n chunks)) (chan_values p chunks).
Proof.
  rewrite <- (firstn_skipn n chunks) at 2. rewrite chan_values_app. apply is_prefix_self_app.
Qed.

(* ======================================================================== *)
(* Contiguous layout                                                          *)
(* ======================================================================== *)

(* the values object [o] keeps of [vs] when the final-chunk override is [f] *)
Definition cut_vals (f : alist Z) (o : sobj) (vs : list bytes) : list bytes :=
  firstn (Z.to_nat (lookup0 (so_path o) f)) vs.

Definition cut_vss (f : alist Z) (objs : list sobj) (vss : list (list bytes)) : list (list bytes) :=
  map (fun ov => cut_vals f (fst ov) (snd ov)) (combine objs vss).

Lemma cut_vss_cons f o objs vs vss :
  cut_vss f (o :: objs) (vs :: vss) = cut_vals f o vs :: cut_vss f objs vss.
Proof. reflexivity. Qed.

Lemma zsum_blen_firstn (vs : list bytes) : forall n,
    zsum (map blen (firstn n vs)) <= zsum (map blen vs).
Proof.
  induction vs as [|v vs IH]; intros [|n]; cbn [firstn map]; try lia.
  - rewrite zsum_cons. pose proof (blen_nonneg v). pose proof (zsum_blen_nonneg vs).
    change (zsum []) with 0. lia.
  - rewrite !zsum_cons. specialize (IH n). lia.
Qed.

Lemma vals_ok_firstn n o vs m :
  vals_ok n o vs -> 0 <= m <= n -> vals_ok m o (firstn (Z.to_nat m) vs).
Proof.
  intros [Hn Hok] Hm. split.
  - rewrite firstn_length. lia.
  - destruct (so_dtype o) as [dt|]; [|exact Hok].
    destruct (tds_size dt) as [[sz|]|].
    + apply Forall_firstn. exact Hok.
    + destruct Hok as [Hdt Hs]. split; [exact Hdt|].
      pose proof (zsum_blen_firstn vs (Z.to_nat m)). lia.
    + destruct Hok as [Hdt Hs]. split; [exact Hdt|].
      pose proof (zsum_blen_firstn vs (Z.to_nat m)). lia.
Qed.

Lemma cut_vss_vals_ok f : forall objs vss,
    Forall2 (fun o vs => vals_ok (so_nvals o) o vs) objs vss ->
    (forall o, In o objs -> 0 <= lookup0 (so_path o) f <= so_nvals o) ->
    Forall2 (fun o vs => vals_ok (lookup0 (so_path o) f) o vs) objs (cut_vss f objs vss).
Proof.
  induction 1 as [|o vs objs vss Hov _ IH]; intros Hb; [constructor|].
  rewrite cut_vss_cons. constructor.
  - apply (vals_ok_firstn (so_nvals o)); [exact Hov|apply Hb; left; reflexivity].
  - apply IH. intros o' Ho'. apply Hb. right. exact Ho'.
Qed.

Lemma cut_vss_prefix f : forall objs vss,
    length objs = length vss -> Forall2 (fun a b => is_prefix a b) (cut_vss f objs vss) vss.
Proof.
  induction objs as [|o objs IH]; intros [|vs vss] H; cbn [length] in H; try discriminate.
  - constructor.
  - rewrite cut_vss_cons. constructor; [apply is_prefix_firstn|]. apply IH. lia.
Qed.

Lemma cut_vss_whole f : forall objs vss,
    Forall2 (fun o vs => vals_ok (so_nvals o) o vs) objs vss ->
    (forall o, In o objs -> lookup0 (so_path o) f = so_nvals o) ->
    cut_vss f objs vss = vss.
Proof.
  induction 1 as [|o vs objs vss [Hn _] _ IH]; intros Hf; [reflexivity|].
  rewrite cut_vss_cons. f_equal.
  - unfold cut_vals. rewrite (Hf o (or_introl eq_refl)), Hn, Nat2Z.id. apply firstn_all.
  - apply IH. intros o' Ho'. apply Hf. right. exact Ho'.
Qed.

Lemma cut_vss_none f : forall objs vss,
    (forall o, In o objs -> lookup0 (so_path o) f = 0) ->
    Forall (fun vs => vs = []) (cut_vss f objs vss).
Proof.
  induction objs as [|o objs IH]; intros vss Hf; [constructor|].
  destruct vss as [|vs vss]; [constructor|]. rewrite cut_vss_cons. constructor.
  - unfold cut_vals. rewrite (Hf o (or_introl eq_refl)). reflexivity.
  - apply IH. intros o' Ho'. apply Hf. right. exact Ho'.
Qed.

Lemma cut_vss_app f a1 a2 b1 b2 :
  length a1 = length b1 ->
  cut_vss f (a1 ++ a2) (b1 ++ b2) = cut_vss f a1 b1 ++ cut_vss f a2 b2.
Proof.
  revert b1. induction a1 as [|o a1 IH]; intros [|vs b1] H; cbn [length] in H; try discriminate.
  - reflexivity.
  - cbn [app]. rewrite !cut_vss_cons, IH by lia. reflexivity.
Qed.

Lemma cut_vss_length f : forall objs vss,
    length objs = length vss -> length (cut_vss f objs vss) = length vss.
Proof.
  intros objs vss H. unfold cut_vss. rewrite map_length, combine_length. lia.
Qed.

Lemma combine_app {A B} (a1 a2 : list A) (b1 b2 : list B) :
  length a1 = length b1 -> combine (a1 ++ a2) (b1 ++ b2) = combine a1 b1 ++ combine a2 b2.
Proof.
  revert b1. induction a1 as [|x a1 IH]; intros [|y b1] H; cbn [length] in H; try discriminate.
  - reflexivity.
  - cbn [app combine]. rewrite IH by lia. reflexivity.
Qed.

Lemma enc_obj_nil e o : enc_obj e o [] = [].
Proof.
  unfold enc_obj. destruct (so_dtype o) as [dt|]; [|reflexivity].
  destruct (tds_size dt) as [[sz|]|]; reflexivity.
Qed.

Lemma enc_chunk_cons e o vs ovs : enc_chunk e ((o, vs) :: ovs) = enc_obj e o vs ++ enc_chunk e ovs.
Proof. reflexivity. Qed.

Lemma enc_chunk_app e a b : enc_chunk e (a ++ b) = enc_chunk e a ++ enc_chunk e b.
Proof. apply flat_map_app. Qed.

Lemma enc_chunk_all_nil e : forall objs vss,
    Forall (fun vs => vs = []) vss -> enc_chunk e (combine objs vss) = [].
Proof.
  induction objs as [|o objs IH]; intros vss H; [reflexivity|].
  destruct H as [|vs vss Hv H]; [reflexivity|]. subst vs.
  cbn [combine]. rewrite enc_chunk_cons, enc_obj_nil. cbn [app]. apply IH. exact H.
Qed.

Lemma osz_sized o sz : sized o = Some sz -> osz o = sz.
Proof. intros H. unfold osz. rewrite H. reflexivity. Qed.

Lemma enc_obj_sized e o dt sz vs :
  so_dtype o = Some dt -> tds_size dt = Some (Some sz) -> enc_obj e o vs = enc_values e dt vs.
Proof. intros Hd Hs. unfold enc_obj. rewrite Hd, Hs. reflexivity. Qed.

Lemma enc_obj_sized_blen e o vs :
  vals_ok (so_nvals o) o vs -> sized o <> None -> blen (enc_obj e o vs) = obytes o.
Proof.
  intros Hok Hsz. rewrite (enc_obj_blen e _ o vs Hok). unfold obytes, osz.
  destruct (sized o); [reflexivity|contradiction].
Qed.

Lemma enc_chunk_sized_blen e : forall objs vss,
    Forall2 (fun o vs => vals_ok (so_nvals o) o vs) objs vss ->
    Forall (fun o => sized o <> None) objs ->
    blen (enc_chunk e (combine objs vss)) = zsum (map obytes objs).
Proof.
  induction 1 as [|o vs objs vss Hov _ IH]; intros Hsz; [reflexivity|].
  inversion Hsz as [|x l Ho Hsz']; subst x l.
  cbn [combine map]. rewrite enc_chunk_cons, blen_app, zsum_cons, IH by exact Hsz'.
  rewrite (enc_obj_sized_blen e o vs Hov Ho). reflexivity.
Qed.

Lemma Forall2_in_l {A B} (P : A -> B -> Prop) a b x :
  Forall2 P a b -> In x a -> exists y, In y b /\ P x y.
Proof.
  induction 1 as [|x0 y0 a b Hxy _ IH]; intros Hin; [contradiction|].
  destruct Hin as [<-|Hin].
  - exists y0. split; [left; reflexivity|exact Hxy].
  - destruct (IH Hin) as (y & Hy & Hp). exists y. split; [right; exact Hy|exact Hp].
Qed.

Lemma vals_ok_nvals_nonneg objs vss :
  Forall2 (fun o vs => vals_ok (so_nvals o) o vs) objs vss ->
  forall o, In o objs -> 0 <= so_nvals o.
Proof.
  intros H o Ho. destruct (Forall2_in_l _ _ _ _ H Ho) as (vs & _ & [Hn _]). lia.
Qed.

(* Sized types only: the first [rem] bytes of an encoded chunk are the encoding
   of the values [contig_final] credits, followed by the bytes of a value cut
   in the middle. *)
Lemma take_enc_chunk_sized e objs rem vss :
  NoDup (map so_path (data_objs objs)) ->
  Forall (fun o => sized o <> None) (data_objs objs) ->
  Forall2 (fun o vs => vals_ok (so_nvals o) o vs) (data_objs objs) vss ->
  0 <= rem ->
  exists leftover,
    take rem (enc_chunk e (combine (data_objs objs) vss)) =
    enc_chunk e (combine (data_objs objs) (cut_vss (contig_final objs rem []) (data_objs objs) vss))
    ++ leftover.
Proof.
  intros Hnd Hsz Hok Hrem.
  destruct (contig_final_structure objs rem Hnd (vals_ok_nvals_nonneg _ _ Hok) Hrem)
    as (pre & rest & Hsplit & Hge & _ & Hpre & Hrest).
  set (f := contig_final objs rem []) in *.
  rewrite Hsplit in Hok, Hsz |- *.
  apply Forall2_app_inv_l in Hok. destruct Hok as (vpre & vrest & Hokp & Hokr & ->).
  apply Forall_app in Hsz. destruct Hsz as [Hszp Hszr].
  pose proof (Forall2_length _ _ _ Hokp) as Hlp.
  rewrite (cut_vss_app f pre rest vpre vrest Hlp).
  rewrite (cut_vss_whole f pre vpre Hokp)
    by (intros o Ho; unfold lookup0; rewrite (Hpre o Ho); reflexivity).
  rewrite !combine_app by exact Hlp. rewrite !enc_chunk_app.
  pose proof (enc_chunk_sized_blen e pre vpre Hokp Hszp) as HA.
  rewrite take_app_ge by lia. rewrite HA.
  destruct Hokr as [|o vs post vpost Hov Hokpost].
  - exists []. cbn [combine]. change (enc_chunk e []) with (@nil byte).
    rewrite take_nil, !app_nil_r. reflexivity.
  - destruct Hrest as (Hle & Hx & Hpost).
    inversion Hszr as [|x l Ho Hszpost]; subst x l.
    destruct (sized o) as [sz|] eqn:Esz; [|contradiction].
    destruct (sized_inv o sz Esz) as (dt & Hdt & Hts).
    pose proof (tds_size_pos dt sz Hts) as Hszpos.
    rewrite cut_vss_cons. cbn [combine]. rewrite !enc_chunk_cons.
    rewrite (enc_chunk_all_nil e post (cut_vss f post vpost)).
    2:{ apply cut_vss_none. intros o' Ho'. unfold lookup0. rewrite (Hpost o' Ho'). reflexivity. }
    rewrite app_nil_r.
    set (r' := rem - zsum (map obytes pre)) in *.
    destruct Hov as [Hn Hvs]. rewrite Hdt, Hts in Hvs.
    assert (Hob : obytes o = Z.of_nat (length vs) * sz).
    { unfold obytes. rewrite (osz_sized o sz Esz), Hn. reflexivity. }
    rewrite take_app_le.
    2:{ rewrite (enc_obj_sized e o dt sz vs Hdt Hts), (enc_values_blen e dt sz vs Hvs). lia. }
    rewrite !(enc_obj_sized e o dt sz _ Hdt Hts). unfold enc_values.
    rewrite (take_blocks (store_value e dt) sz Hszpos vs r').
    + unfold cut_vals, lookup0. rewrite Hx, (osz_sized o sz Esz). eexists.
      rewrite <- app_assoc. reflexivity.
    + eapply Forall_impl; [|exact Hvs]. intros v Hv. cbn beta. rewrite store_value_blen. exact Hv.
    + lia.
Qed.

(* the loop of ContiguousDataReader over encoded chunks, as read_segment_chunks runs it *)
Lemma read_segment_chunks_contig_final gc css final leftover :
  seg_layout gc = Ok LContig ->
  sg_final gc = final ->
  sg_nchunks gc = Z.of_nat (length css) ->
  NoDup (map so_path (data_objs (sg_objs gc))) ->
  (forall k vss, nth_error css k = Some vss ->
                 chunk_vals_ok (data_objs (sg_objs gc)) (Z.of_nat (length css)) final k vss) ->
  (length css <= S (S (length (enc_chunks (toc_endian (sg_toc gc)) (data_objs (sg_objs gc)) css))))%nat ->
  read_segment_chunks gc (enc_chunks (toc_endian (sg_toc gc)) (data_objs (sg_objs gc)) css ++ leftover)
  = Ok (map (fun vss => chunk_of (combine (data_objs (sg_objs gc)) vss)) css, leftover).
Proof.
  intros Hlay Hfin Hn Hnd Hok Hfuel. unfold read_segment_chunks. rewrite Hlay. cbn [bind].
  rewrite Hfin, Hn. apply read_contig_chunks_roundtrip_final; [exact Hnd|exact Hok|].
  rewrite app_length. lia.
Qed.

Lemma enc_chunks_app e objs a b : enc_chunks e objs (a ++ b) = enc_chunks e objs a ++ enc_chunks e objs b.
Proof. apply flat_map_app. Qed.

Lemma enc_chunks_one e objs vss : enc_chunks e objs [vss] = enc_chunk e (combine objs vss).
Proof. unfold enc_chunks. cbn [flat_map]. apply app_nil_r. Qed.

Lemma firstn_length_lt {A} (l : list A) n : (n <= length l)%nat -> length (firstn n l) = n.
Proof. intros H. rewrite firstn_length. lia. Qed.

Lemma Forall2_imp {A B} (P Q : A -> B -> Prop) a b :
  (forall x y, P x y -> Q x y) -> Forall2 P a b -> Forall2 Q a b.
Proof. intros H. induction 1; constructor; auto. Qed.

Lemma firstn_app_exact {A} (l1 l2 : list A) : firstn (length l1) (l1 ++ l2) = l1.
Proof. rewrite firstn_app, Nat.sub_diag, firstn_all. cbn [firstn]. apply app_nil_r. Qed.

Lemma lookup0_nil p : lookup0 p [] = 0.
Proof. reflexivity. Qed.

Lemma chan_values_one p (c : chunk) : chan_values p [c] = chunk_values p c.
Proof. unfold chan_values. cbn [flat_map]. apply app_nil_r. Qed.

Lemma data_objs_sub objs o : In o (data_objs objs) -> In o objs.
Proof. unfold data_objs. intros H. apply filter_In in H. tauto. Qed.

(* L1, contiguous layout (strings included) *)
Theorem cut_contig_decodes g gc css j :
  seg_layout g = Ok LContig ->
  0 < zsum (map so_dsize (data_objs (sg_objs g))) ->
  NoDup (map so_path (data_objs (sg_objs g))) ->
  Forall (fun vss => Forall2 (fun o vs => vals_ok (so_nvals o) o vs) (data_objs (sg_objs g)) vss) css ->
  Forall (Forall2 (dsize_ok (toc_endian (sg_toc g))) (data_objs (sg_objs g))) css ->
  0 <= j < blen (enc_chunks (toc_endian (sg_toc g)) (data_objs (sg_objs g)) css) ->
  sg_toc gc = sg_toc g -> sg_objs gc = sg_objs g ->
  calculate_chunks (sg_toc g) true (sg_objs g) j = Ok (sg_nchunks gc, sg_final gc) ->
  exists chunks' leftover,
    read_segment_chunks gc (take j (enc_chunks (toc_endian (sg_toc g)) (data_objs (sg_objs g)) css))
    = Ok (chunks', leftover) /\
    Forall only_cdata chunks' /\
    (forall c kv, In c chunks' -> In kv c ->
                  exists o, In o (sg_objs g) /\ so_path o = fst kv /\ so_dtype o <> None) /\
    (forall p, is_prefix (chan_values p chunks')
                         (chan_values p (map (fun vss => chunk_of (combine (data_objs (sg_objs g)) vss)) css))) /\
    (forall p, Z.of_nat (length (chan_values p chunks')) = seg_total p gc).
Proof.
  intros Hlay Hpos Hnd Hok Hds Hj Htoc Hobjs Hcc.
  set (e := toc_endian (sg_toc g)) in *. set (dobjs := data_objs (sg_objs g)) in *.
  set (csize := zsum (map so_dsize dobjs)) in *.
  pose proof (seg_layout_contig_chunk_size g Hlay) as Hcs. fold dobjs csize in Hcs.
  pose proof (enc_chunks_blen e dobjs css Hds) as Hlen. fold csize in Hlen. rewrite Hlen in Hj.
  assert (Hblk : Forall (fun vss => blen (enc_chunk e (combine dobjs vss)) = csize) css).
  { eapply Forall_impl; [|exact Hds]. intros vss. apply enc_chunk_blen. }
  assert (Hj' : 0 <= j <= Z.of_nat (length css) * csize) by lia.
  pose proof (take_blocks (fun vss => enc_chunk e (combine dobjs vss)) csize Hpos css j Hblk Hj')
    as Htake.
  change (flat_map (fun vss => enc_chunk e (combine dobjs vss)) css)
    with (enc_chunks e dobjs css) in Htake.
  set (q := Z.to_nat (j / csize)) in *.
  assert (Hq0 : 0 <= j / csize) by (apply Z.div_pos; lia).
  assert (Hq : (q < length css)%nat).
  { assert (j / csize < Z.of_nat (length css)) by (apply Z.div_lt_upper_bound; lia). lia. }
  assert (Hqz : Z.of_nat q = j / csize) by lia.
  destruct (nth_error css q) as [vssq|] eqn:Enth; [|apply nth_error_None in Enth; lia].
  destruct (nth_error_split css q Enth) as (l1 & l2 & Hcss & Hl1).
  assert (Hfirst : firstn q css = l1) by (rewrite Hcss, <- Hl1; apply firstn_app_exact).
  rewrite Hfirst in Htake.
  change (flat_map (fun vss => enc_chunk e (combine dobjs vss)) l1) with (enc_chunks e dobjs l1) in Htake.
  assert (Hl1in : forall vss, In vss l1 -> In vss css).
  { intros vss H. rewrite Hcss. apply in_or_app. left. exact H. }
  assert (Hokq : Forall2 (fun o vs => vals_ok (so_nvals o) o vs) dobjs vssq).
  { rewrite Forall_forall in Hok. apply Hok. exact (nth_error_In _ _ Enth). }
  destruct (calculate_chunks_count _ _ _ _ _ _ _ Hcs Hpos (proj1 Hj) Hcc) as (Hn & Hnone & Hsome).
  assert (Hlayc : seg_layout gc = Ok LContig) by (rewrite (seg_layout_ext gc g Htoc Hobjs); exact Hlay).
  assert (Hne : (length l1 <= length (enc_chunks e dobjs l1))%nat).
  { apply enc_chunks_length_ge. apply Forall_forall. intros vss Hin Hnil.
    rewrite Forall_forall in Hblk. pose proof (Hblk vss (Hl1in vss Hin)) as Hb.
    rewrite Hnil in Hb. cbn in Hb. lia. }
  assert (Hokl1 : forall k vss, nth_error l1 k = Some vss ->
                                Forall2 (fun o vs => vals_ok (so_nvals o) o vs) dobjs vss).
  { intros k vss Hk. rewrite Forall_forall in Hok. apply Hok, Hl1in. exact (nth_error_In _ _ Hk). }
  assert (Hcountl1 : forall p, Z.of_nat (length (chan_values p (map (fun vss => chunk_of (combine dobjs vss)) l1)))
                               = Z.of_nat (length l1) * path_count p so_nvals dobjs).
  { intros p. rewrite (chan_values_length_const p (path_count p so_nvals dobjs)).
    - rewrite map_length. reflexivity.
    - apply Forall_map. apply Forall_forall. intros vss Hin. cbn beta. apply chunk_of_count.
      rewrite Forall_forall in Hok. apply Hok, Hl1in, Hin. }
  assert (Hkeysl1 : forall c kv, In c (map (fun vss => chunk_of (combine dobjs vss)) l1) -> In kv c ->
                                 exists o, In o (sg_objs g) /\ so_path o = fst kv /\ so_dtype o <> None).
  { intros c kv Hc Hkv. apply in_map_iff in Hc. destruct Hc as (vss & <- & Hvss).
    rewrite Forall_forall in Hok.
    destruct (chunk_of_keys _ vss kv (Hok vss (Hl1in vss Hvss)) Hkv) as (o & Ho & Hp & Hty).
    exists o. split; [exact (data_objs_sub _ o Ho)|]. split; assumption. }
  destruct (Z.eq_dec (j mod csize) 0) as [Hrem|Hrem].
  - (* the cut falls between two chunks: fewer chunks, no override *)
    rewrite Hrem, take_0, app_nil_r in Htake.
    specialize (Hnone Hrem).
    assert (Hnq : sg_nchunks gc = Z.of_nat (length l1)).
    { rewrite Hn. unfold nchunks_of. rewrite Hrem. cbn [Z.eqb]. lia. }
    exists (map (fun vss => chunk_of (combine dobjs vss)) l1), [].
    split; [|split; [|split; [|split]]].
    + rewrite Htake. rewrite <- (app_nil_r (enc_chunks e dobjs l1)).
      pose proof (read_segment_chunks_contig_final gc l1 None []) as R.
      rewrite Htoc, Hobjs in R. fold e dobjs in R. apply R; try assumption. lia.
    + apply Forall_map. apply Forall_forall. intros vss _. apply chunk_of_only_cdata.
    + exact Hkeysl1.
    + intros p. rewrite Hcss, map_app, chan_values_app. apply is_prefix_self_app.
    + intros p. unfold seg_total. rewrite Hobjs, obj_total_data_objs, Hnone.
      rewrite (obj_total_no_final p _ _ (data_objs_have_data _)). fold dobjs.
      rewrite Hcountl1, Hnq. reflexivity.
  - (* the cut falls inside chunk q *)
    destruct (Hsome Hrem) as (f & Hfin & Hf).
    pose proof (seg_layout_no_daqmx g LContig Hlay ltac:(discriminate)) as Hndq.
    pose proof (Z.mod_pos_bound j csize Hpos) as Hrb.
    assert (Hbound : forall o, In o dobjs -> 0 <= lookup0 (so_path o) f <= so_nvals o).
    { intros o Ho.
      apply (final_chunk_lengths_le (sg_toc g) true (sg_objs g) csize (j mod csize) f o); try assumption.
      exact (vals_ok_nvals_nonneg _ _ Hokq). }
    assert (Hbytes : exists lo, take (j mod csize) (enc_chunk e (combine dobjs vssq))
                                = enc_chunk e (combine dobjs (cut_vss f dobjs vssq)) ++ lo).
    { rewrite (final_chunk_lengths_cases _ _ _ _ Hndq) in Hf. injection Hf as Hf.
      fold dobjs in Hf. destruct (existsb unsized_b dobjs) eqn:Eu.
      - subst f. rewrite (enc_chunk_all_nil e dobjs (cut_vss [] dobjs vssq)).
        + eexists. reflexivity.
        + apply cut_vss_none. intros o _. apply lookup0_nil.
      - pose proof (existsb_unsized_false _ Eu) as Hsz.
        rewrite (contig_sized_not_interleaved g Hlay Hsz) in Hf. subst f.
        apply take_enc_chunk_sized; try assumption. lia. }
    destruct Hbytes as [lo Hbytes].
    set (vss' := cut_vss f dobjs vssq) in *.
    rewrite Hbytes in Htake.
    assert (Hcur : take j (enc_chunks e dobjs css) = enc_chunks e dobjs (l1 ++ [vss']) ++ lo).
    { rewrite Htake, enc_chunks_app, enc_chunks_one, <- app_assoc. reflexivity. }
    assert (Hnq : sg_nchunks gc = Z.of_nat (length (l1 ++ [vss']))).
    { rewrite app_length. cbn [length]. rewrite Hn. unfold nchunks_of.
      replace (j mod csize =? 0) with false by lia. lia. }
    assert (Hok' : Forall2 (fun o vs => vals_ok (lookup0 (so_path o) f) o vs) dobjs vss').
    { apply cut_vss_vals_ok; assumption. }
    exists (map (fun vss => chunk_of (combine dobjs vss)) (l1 ++ [vss'])), lo.
    split; [|split; [|split; [|split]]].
    + rewrite Hcur.
      pose proof (read_segment_chunks_contig_final gc (l1 ++ [vss']) (Some f) lo) as R.
      rewrite Htoc, Hobjs in R. fold e dobjs in R. apply R; try assumption.
      * intros k vss Hk. unfold chunk_vals_ok.
        rewrite app_length. cbn [length].
        destruct (lt_dec k (length l1)) as [Hlt|Hge].
        -- rewrite nth_error_app1 in Hk by exact Hlt.
           eapply Forall2_imp; [|exact (Hokl1 k vss Hk)]. intros o vs Hv. cbn beta.
           unfold chunk_nvals. replace (Z.of_nat k =? Z.of_nat (length l1 + 1) - 1) with false by lia.
           exact Hv.
        -- rewrite nth_error_app2 in Hk by lia.
           destruct (k - length l1)%nat as [|d] eqn:Ed; cbn [nth_error] in Hk.
           ++ injection Hk as <-. eapply Forall2_imp; [|exact Hok']. intros o vs Hv. cbn beta.
              unfold chunk_nvals. replace (Z.of_nat k =? Z.of_nat (length l1 + 1) - 1) with true by lia.
              exact Hv.
           ++ destruct d; discriminate Hk.
      * rewrite enc_chunks_app, !app_length. cbn [length]. lia.
    + apply Forall_map. apply Forall_forall. intros vss _. apply chunk_of_only_cdata.
    + intros c kv Hc Hkv. rewrite map_app in Hc. apply in_app_or in Hc. destruct Hc as [Hc|Hc].
      * exact (Hkeysl1 c kv Hc Hkv).
      * destruct Hc as [<-|[]].
        destruct (chunk_of_keys_w _ _ vss' kv Hok' Hkv) as (o & Ho & Hp & Hty).
        exists o. split; [exact (data_objs_sub _ o Ho)|]. split; assumption.
    + intros p. rewrite Hcss, !map_app, !chan_values_app. apply is_prefix_app_l.
      cbn [map]. rewrite chan_values_one, chan_values_cons. apply is_prefix_app_r.
      apply chunk_of_prefix; [exact Hnd|exact (Forall2_length _ _ _ Hokq)|].
      apply cut_vss_prefix. exact (Forall2_length _ _ _ Hokq).
    + intros p. unfold seg_total. rewrite Hobjs, obj_total_data_objs, Hfin.
      rewrite (obj_total_final p _ f _ (data_objs_have_data _)). fold dobjs.
      rewrite map_app, chan_values_app, app_length, Nat2Z.inj_add, Hcountl1.
      cbn [map]. rewrite chan_values_one, (chunk_of_count_w p (fun o => lookup0 (so_path o) f) _ _ Hok').
      rewrite Hnq, app_length. cbn [length]. lia.
Qed.

(* ======================================================================== *)
(* Interleaved layout                                                         *)
(* ======================================================================== *)

Lemma cols_of_prefix p : forall dobjs n rows,
    NoDup (map so_path dobjs) ->
    is_prefix (chunk_values p (cols_of dobjs (firstn n rows))) (chunk_values p (cols_of dobjs rows)).
Proof.
  induction dobjs as [|o dobjs IH]; intros n rows Hnd; [apply is_prefix_refl|].
  cbn [map] in Hnd. inversion Hnd as [|x l Hnin Hnd']; subst x l.
  cbn [cols_of]. rewrite !chunk_values_cons. unfold entry_values. cbn [fst snd].
  rewrite <- !firstn_map.
  destruct (bytes_eqb p (so_path o)) eqn:E.
  - apply bytes_eqb_eq in E. subst p.
    rewrite !(chunk_values_not_in (so_path o)) by (rewrite cols_of_key_list; exact Hnin).
    rewrite !app_nil_r. apply is_prefix_firstn.
  - cbn [app]. apply IH. exact Hnd'.
Qed.

(* InterleavedDataReader on a short file: it asks for [nv * nchunks] rows, gets
   the bytes that are there, and keeps the complete rows *)
Lemma read_interleaved_short e objs nchunks nv rows tail :
  objs <> [] ->
  Forall (fun o => so_nvals o = nv) objs ->
  Forall (fun o => sized o <> None) objs ->
  NoDup (map so_path objs) ->
  Forall (row_ok objs) rows ->
  blen tail < zsum (map size_or0 objs) ->
  blen (enc_rows e objs rows ++ tail) <= zsum (map size_or0 objs) * (nv * nchunks) ->
  read_interleaved e objs nchunks (enc_rows e objs rows ++ tail) = Ok ([cols_of objs rows], []).
Proof.
  intros Hne Hnv Hsz Hnd Hrows Htail Hshort.
  pose proof (width_pos objs Hne Hsz) as Hw.
  destruct objs as [|o0 objs']; [contradiction|].
  remember (o0 :: objs') as objs eqn:Eobjs.
  assert (Hfb : forallb (fun o => so_nvals o =? so_nvals o0) objs = true).
  { apply forallb_forall. intros o Hin. rewrite Forall_forall in Hnv.
    rewrite (Hnv o Hin). rewrite (Hnv o0) by (subst objs; left; reflexivity). lia. }
  assert (Hnv0 : so_nvals o0 = nv).
  { rewrite Forall_forall in Hnv. apply Hnv. subst objs. left. reflexivity. }
  unfold read_interleaved. rewrite Eobjs at 1. rewrite Hfb. cbn [negb].
  change (map (fun o => match sized o with Some s => s | None => 0 end) objs) with (map size_or0 objs).
  unfold read_rows, get_raw. rewrite Hnv0.
  rewrite take_all, drop_all by exact Hshort. cbv iota beta.
  assert (Hitems : items (zsum (map size_or0 objs)) (enc_rows e objs rows ++ tail)
                   = map (enc_row e objs) rows).
  { unfold enc_rows. rewrite flat_map_concat_map. apply items_roundtrip_tail; [exact Hw| |exact Htail].
    apply Forall_map. eapply Forall_impl; [|exact Hrows]. intros row. apply enc_row_blen. }
  rewrite Hitems.
  assert (Hcols : interleaved_columns e objs (map (enc_row e objs) rows) 0 [] = Ok (cols_of objs rows)).
  { replace (map (enc_row e objs) rows)
      with (map (fun pr : bytes * list bytes => fst pr ++ enc_row e objs (snd pr))
                (map (fun r : list bytes => (@nil byte, r)) rows))
      by (rewrite map_map; reflexivity).
    rewrite interleaved_columns_gen.
    - rewrite map_map. cbn [snd app]. rewrite map_id. reflexivity.
    - exact Hsz.
    - apply Forall_map. eapply Forall_impl; [|exact Hrows].
      intros row Hrow. cbn [fst snd]. split; [reflexivity|exact Hrow].
    - exact Hnd. }
  rewrite Hcols. reflexivity.
Qed.

Lemma obj_total_path_count p objs n f :
  obj_total p objs n f = path_count p (fun o => seg_values o n f) objs.
Proof. reflexivity. Qed.

(* L1, interleaved layout *)
Theorem cut_interleaved_decodes g gc nv m rows j :
  seg_layout g = Ok LInterleaved ->
  data_objs (sg_objs g) <> [] -> 0 < nv -> 0 <= m ->
  Forall (fun o => so_nvals o = nv /\ so_dsize o = so_nvals o * size_or0 o) (data_objs (sg_objs g)) ->
  Forall (fun o => sized o <> None) (data_objs (sg_objs g)) ->
  NoDup (map so_path (data_objs (sg_objs g))) ->
  Forall (row_ok (data_objs (sg_objs g))) rows ->
  Z.of_nat (length rows) = nv * m ->
  0 <= j < blen (enc_rows (toc_endian (sg_toc g)) (data_objs (sg_objs g)) rows) ->
  sg_toc gc = sg_toc g -> sg_objs gc = sg_objs g ->
  calculate_chunks (sg_toc g) true (sg_objs g) j = Ok (sg_nchunks gc, sg_final gc) ->
  exists chunks' leftover,
    read_segment_chunks gc (take j (enc_rows (toc_endian (sg_toc g)) (data_objs (sg_objs g)) rows))
    = Ok (chunks', leftover) /\
    Forall only_cdata chunks' /\
    (forall c kv, In c chunks' -> In kv c ->
                  exists o, In o (sg_objs g) /\ so_path o = fst kv /\ so_dtype o <> None) /\
    (forall p, is_prefix (chan_values p chunks')
                         (chan_values p [cols_of (data_objs (sg_objs g)) rows])) /\
    (forall p, Z.of_nat (length (chan_values p chunks')) = seg_total p gc).
Proof.
  intros Hlay Hne Hnv Hm Hobjsok Hsz Hnd Hrows Hlenr Hj Htoc Hobjs Hcc.
  set (e := toc_endian (sg_toc g)) in *. set (dobjs := data_objs (sg_objs g)) in *.
  set (width := zsum (map size_or0 dobjs)) in *.
  set (csize := zsum (map so_dsize dobjs)) in *.
  pose proof (width_pos dobjs Hne Hsz) as Hw. fold width in Hw.
  pose proof (interleaved_chunk_bytes nv dobjs Hobjsok) as Hcb. fold width csize in Hcb.
  assert (Hcpos : 0 < csize) by nia.
  pose proof (seg_layout_interleaved_chunk_size g Hlay) as Hcs. fold dobjs csize in Hcs.
  pose proof (enc_rows_blen e dobjs rows Hrows) as Hlen. fold width in Hlen. rewrite Hlen in Hj.
  assert (Hblk : Forall (fun row => blen (enc_row e dobjs row) = width) rows).
  { eapply Forall_impl; [|exact Hrows]. intros row. apply enc_row_blen. }
  assert (Hj' : 0 <= j <= Z.of_nat (length rows) * width) by lia.
  pose proof (take_blocks (enc_row e dobjs) width Hw rows j Hblk Hj') as Htake.
  change (flat_map (enc_row e dobjs) rows) with (enc_rows e dobjs rows) in Htake.
  set (R := Z.to_nat (j / width)) in *.
  set (tail := take (j mod width) (match nth_error rows R with Some x => enc_row e dobjs x | None => [] end)) in *.
  change (flat_map (enc_row e dobjs) (firstn R rows)) with (enc_rows e dobjs (firstn R rows)) in Htake.
  pose proof (Z.mod_pos_bound j width Hw) as Hmw.
  assert (Htail : blen tail < width).
  { pose proof (blen_take_le (j mod width)
                             (match nth_error rows R with Some x => enc_row e dobjs x | None => [] end)
                             (proj1 Hmw)). fold tail in H. lia. }
  assert (HR0 : 0 <= j / width) by (apply Z.div_pos; lia).
  assert (HRlt : (R < length rows)%nat).
  { assert (j / width < Z.of_nat (length rows)) by (apply Z.div_lt_upper_bound; lia). lia. }
  assert (HRz : Z.of_nat R = j / width) by lia.
  destruct (calculate_chunks_count _ _ _ _ _ _ _ Hcs Hcpos (proj1 Hj) Hcc) as (Hn & Hnone & Hsome).
  assert (Hlayc : seg_layout gc = Ok LInterleaved)
    by (rewrite (seg_layout_ext gc g Htoc Hobjs); exact Hlay).
  pose proof (Z.mod_pos_bound j csize Hcpos) as Hrb.
  pose proof (Z.div_mod j csize ltac:(lia)) as Hdm.
  assert (Hq0 : 0 <= j / csize) by (apply Z.div_pos; lia).
  (* the reader asks for at least the bytes that are there *)
  assert (Hshort : j <= width * (nv * sg_nchunks gc)).
  { rewrite Hn. unfold nchunks_of. destruct (j mod csize =? 0) eqn:E; nia. }
  (* every data object is credited with the number of complete rows *)
  assert (Hvals : Forall (fun o => seg_values o (sg_nchunks gc) (sg_final gc) = Z.of_nat R) dobjs).
  { apply Forall_forall. intros o Ho.
    pose proof (data_objs_have_data (sg_objs g)) as Hhd. fold dobjs in Hhd.
    rewrite Forall_forall in Hhd, Hobjsok. destruct (Hobjsok o Ho) as [Hno _].
    unfold seg_values. rewrite (Hhd o Ho). cbn [negb]. rewrite HRz.
    destruct (Z.eq_dec (j mod csize) 0) as [Hrem|Hrem].
    - rewrite (Hnone Hrem), Hn, Hno. unfold nchunks_of. rewrite Hrem. cbn [Z.eqb].
      replace j with ((nv * (j / csize)) * width) at 2 by nia.
      rewrite Z.div_mul by lia. reflexivity.
    - destruct (Hsome Hrem) as (f & Hfin & Hf). rewrite Hfin.
      rewrite (final_chunk_lengths_cases _ _ _ _
                 (seg_layout_no_daqmx g LInterleaved Hlay ltac:(discriminate))) in Hf.
      fold dobjs in Hf. rewrite (all_sized_existsb dobjs Hsz), (interleaved_flag_set g Hlay) in Hf.
      injection Hf as <-. rewrite (prop_final_lookup (sg_objs g) csize (j mod csize) o Hnd Ho).
      rewrite Hn, Hno. unfold nchunks_of. replace (j mod csize =? 0) with false by lia.
      pose proof (interleaved_whole_rows nv width (j mod csize) Hnv Hw) as Hiw.
      rewrite <- Hcb in Hiw. rewrite Hiw.
      replace j with (j mod csize + (nv * (j / csize)) * width) at 3 by nia.
      rewrite Z.div_add by lia. lia. }
  exists [cols_of dobjs (firstn R rows)], [].
  split; [|split; [|split; [|split]]].
  - rewrite Htake. unfold read_segment_chunks. rewrite Hlayc. cbn [bind].
    rewrite Htoc, Hobjs. fold e dobjs.
    apply (read_interleaved_short e dobjs (sg_nchunks gc) nv); try assumption.
    + eapply Forall_impl; [|exact Hobjsok]. intros o [H _]. exact H.
    + apply Forall_firstn. exact Hrows.
    + rewrite <- Htake, blen_take by lia. fold width. exact Hshort.
  - constructor; [apply cols_of_only_cdata|constructor].
  - intros c kv [<-|[]] Hkv. destruct (cols_of_keys _ _ _ Hkv) as (o & Ho & Hp).
    exists o. split; [exact (data_objs_sub _ o Ho)|]. split; [exact Hp|].
    rewrite Forall_forall in Hsz. exact (sized_dtype o (Hsz o Ho)).
  - intros p. rewrite !chan_values_one. apply cols_of_prefix. exact Hnd.
  - intros p. rewrite chan_values_one, cols_of_count, firstn_length_lt by lia.
    unfold seg_total. rewrite Hobjs, obj_total_data_objs, obj_total_path_count. fold dobjs.
    apply path_count_ext. eapply Forall_impl; [|exact Hvals]. intros o Ho. cbn beta. symmetry. exact Ho.
Qed.

(* ======================================================================== *)
(* L1: any encoded raw data block, any cut inside it                          *)
(* ======================================================================== *)

Theorem cut_segment_decodes g gc data chunks j :
  seg_encodes g data chunks ->
  0 <= j < blen data ->
  sg_toc gc = sg_toc g -> sg_objs gc = sg_objs g ->
  calculate_chunks (sg_toc g) true (sg_objs g) j = Ok (sg_nchunks gc, sg_final gc) ->
  exists chunks' leftover,
    read_segment_chunks gc (take j data) = Ok (chunks', leftover) /\
    Forall only_cdata chunks' /\
    (forall c kv, In c chunks' -> In kv c ->
                  exists o, In o (sg_objs g) /\ so_path o = fst kv /\ so_dtype o <> None) /\
    (forall p, is_prefix (chan_values p chunks') (chan_values p chunks)) /\
    (forall p, Z.of_nat (length (chan_values p chunks')) = seg_total p gc).
Proof.
  intros Henc Hj Htoc Hobjs Hcc.
  destruct Henc as [Hd Hdata | css Hlay Hpos Hnd Hok Hds Hdata
                    | nv m rows Hlay Hne Hnv Hm Hobjsok Hsz Hnd Hrows Hlen Hdata].
  - subst data. change (blen []) with 0 in Hj. lia.
  - subst data. apply cut_contig_decodes; assumption.
  - subst data. apply (cut_interleaved_decodes g gc nv m rows j); assumption.
Qed.

(* Two shapes of a truncated final chunk, computed:
   (a) sized contiguous: int32 x 2 then int16 x 2, chunk = 12 bytes, 2 chunks,
       cut after 19 bytes: chunk 1 whole, then 7 bytes: one int32 (4), then 3
       left-over bytes credit NOTHING to the int16 channel (contig_final stops
       at the first channel that does not fit);
   (b) the same with a string channel in front: nothing from the cut chunk. *)
Section ExL1.
Import String.
Local Open Scope string_scope.
Example cut_contig_example :
  let a := mkSobj (hex "2f2761") true 2 8 (Some 3) None in
  let b := mkSobj (hex "2f2762") true 2 4 (Some 2) None in
  let css := [ [ [hex "01000000"; hex "02000000"]; [hex "0a00"; hex "0b00"] ];
               [ [hex "03000000"; hex "04000000"]; [hex "0c00"; hex "0d00"] ] ] in
  calculate_chunks 14 true [a; b] 19 = Ok (2, Some [(hex "2f2761", 1)]) /\
  read_segment_chunks (mkSeg 0 14 0 0 true [a; b] [] 2 (Some [(hex "2f2761", 1)]))
                      (take 19 (enc_chunks LE [a; b] css))
  = Ok ([ [(hex "2f2761", CData [hex "01000000"; hex "02000000"]); (hex "2f2762", CData [hex "0a00"; hex "0b00"])];
          [(hex "2f2761", CData [hex "03000000"]); (hex "2f2762", CData [])] ], hex "040000").
Proof. vm_compute. split; reflexivity. Qed.

Example cut_string_example :
  let s := mkSobj (hex "2f2773") true 2 11 (Some T_STRING) None in
  let a := mkSobj (hex "2f2761") true 2 8 (Some 3) None in
  let css := [ [ [hex "6162"; hex "63"]; [hex "01000000"; hex "02000000"] ];
               [ [hex "78"; hex "797a"]; [hex "03000000"; hex "04000000"] ] ] in
  calculate_chunks 14 true [s; a] 35 = Ok (2, Some []) /\
  read_segment_chunks (mkSeg 0 14 0 0 true [s; a] [] 2 (Some [])) (take 35 (enc_chunks LE [s; a] css))
  = Ok ([ [(hex "2f2773", CData [hex "6162"; hex "63"]); (hex "2f2761", CData [hex "01000000"; hex "02000000"])];
          [(hex "2f2773", CData []); (hex "2f2761", CData [])] ],
        hex "010000000300000078797a0300000004").
Proof. vm_compute. split; reflexivity. Qed.
End ExL1.
