(* C11 / C06: a DAQmx segment whose raw data block is CUT at an arbitrary byte
   count -- the decoder yields only complete rows, and they are the directly
   addressed values of the complete block.

   For a readable DAQmx segment (ReadCorrectDaqmx.daqmx_seg_ok g data: the raw
   data block is a whole number of chunks, each chunk the raw buffers
   dims = [(rows_k, width_k)] one after another) cut to its first j bytes,
   0 <= j < |data|, with the chunk count the metadata pass computes for j bytes:

     buffer_lengths_nth      get_daqmx_final_chunk_lengths' per-buffer row counts
                             (SegState.daqmx_buffer_lengths dims rem) in closed form:
                             buffer k keeps min(rows_k, max(0, rem - base_k) / width_k)
                             rows -- whole leading buffers, floor(rest/width) rows of
                             the first buffer that does not fit, nothing after it
     direct_scaler_rows      the values of scaler s in chunk i, rows 0 .. r-1,
                             defined with read_at on the COMPLETE block only
     cut_direct_chunks       chunks 0 .. j/cb - 1 as in the complete segment
                             (ReadCorrectDaqmx.direct_chunk), then -- when j is not a
                             multiple of the chunk size cb -- one chunk in which every
                             scaler has the values of the complete rows of its buffer
     daqmx_truncation_complete_rows
                             read_segment_chunks on the cut block succeeds and its
                             chunks hold, under every path and every (path, scale
                             id), exactly the values of cut_direct_chunks
     cut_rows_prefix         per scaler, the values of the partial chunk are the first
                             r_k values of the complete chunk: what is returned is a
                             PREFIX of the complete segment's values
     daqmx_cut_prefix        ... per path / (path, scale id), over the whole segment
     daqmx_cut_credit        for an object whose scalers live in ONE buffer the number
                             of values per scaler is what the metadata pass credits
                             (len(channel)); objects spread over several buffers get
                             no entry in the override (the code's `len(set(...)) == 1`
                             test) and are credited 0 for the partial chunk. *)
From Coq Require Import List ZArith Bool Lia ZifyBool.
From Coq Require Import Init.Byte.
Import ListNotations.
From NpTdms Require Import Base.Bytes Base.Res Model.Tokens Model.TokensWf Model.SegState
     Model.Layout Model.Reader Model.FileSyn Proofs.TokensRoundtrip Proofs.SegStateProofs
     Proofs.LayoutProofs Proofs.FileSynProofs Proofs.SegStateInherit Proofs.DaqmxProofs
     Proofs.TruncProofs Proofs.ReadCorrect Proofs.ReadCorrectDaqmx Proofs.TruncValuesLayout.
Local Open Scope Z_scope.
Ltac Zify.zify_post_hook ::= Z.to_euclidean_division_equations.

(* ======================================================================== *)
(* Specification chunks with an arbitrary value function                      *)
(* ======================================================================== *)

(* [val kind s]: the values of scaler [s] of an object of scaler kind [kind] *)
Definition gen_obj_entries (val : Z -> scaler -> list bytes) (o : sobj) : chunk :=
  match so_daqmx o with
  | None => []
  | Some q =>
    if oz_eqb (so_dtype o) (Some T_DAQMX)
    then [(so_path o, CScalers (map (fun s => (sc_id s, val (dq_kind q) s)) (dq_scalers q)))]
    else map (fun s => (so_path o, CData (val (dq_kind q) s))) (dq_scalers q)
  end.

Definition gen_chunk (val : Z -> scaler -> list bytes) (dobjs : list sobj) : chunk :=
  flat_map (gen_obj_entries val) dobjs.

Lemma direct_chunk_gen e dobjs dims data j :
  direct_chunk e dobjs dims data j = gen_chunk (fun kind s => direct_scaler_chunk e kind dims data j s) dobjs.
Proof. reflexivity. Qed.

Lemma gen_entries_other val o p :
  so_path o <> p ->
  chunk_values p (gen_obj_entries val o) = [] /\
  forall id, chunk_scaler_values p id (gen_obj_entries val o) = [].
Proof.
  intros Hne. assert (E : bytes_eqb p (so_path o) = false).
  { apply bytes_eqb_neq. intros H. apply Hne. symmetry. exact H. }
  unfold gen_obj_entries. destruct (so_daqmx o) as [q|]; [|split; reflexivity].
  destruct (oz_eqb (so_dtype o) (Some T_DAQMX)).
  - split; [|intros id]; cbn [chunk_values chunk_scaler_values flat_map];
      unfold entry_values, entry_scaler_values; cbn [fst snd]; rewrite E; reflexivity.
  - split; [|intros id].
    + unfold chunk_values. rewrite flat_map_map. apply flat_map_all_nil. intros s _.
      unfold entry_values. cbn [fst snd]. rewrite E. reflexivity.
    + unfold chunk_scaler_values. rewrite flat_map_map. apply flat_map_all_nil. intros s _.
      unfold entry_scaler_values. cbn [fst snd]. rewrite E. reflexivity.
Qed.

Lemma gen_entries_raw val o q :
  so_daqmx o = Some q -> so_dtype o = Some T_DAQMX ->
  chunk_values (so_path o) (gen_obj_entries val o) = [] /\
  forall id, chunk_scaler_values (so_path o) id (gen_obj_entries val o) =
             flat_map (fun s => if sc_id s =? id then val (dq_kind q) s else []) (dq_scalers q).
Proof.
  intros Hq Hdt. unfold gen_obj_entries. rewrite Hq, Hdt.
  change (oz_eqb (Some T_DAQMX) (Some T_DAQMX)) with true. cbv iota.
  split; [|intros id]; cbn [chunk_values chunk_scaler_values flat_map];
    unfold entry_values, entry_scaler_values; cbn [fst snd]; rewrite bytes_eqb_refl.
  - reflexivity.
  - rewrite app_nil_r, flat_map_map. reflexivity.
Qed.

Lemma gen_entries_typed val o q s dt :
  so_daqmx o = Some q -> so_dtype o = Some dt -> dt <> T_DAQMX -> dq_scalers q = [s] ->
  chunk_values (so_path o) (gen_obj_entries val o) = val (dq_kind q) s /\
  forall id, chunk_scaler_values (so_path o) id (gen_obj_entries val o) = [].
Proof.
  intros Hq Hdt Hne Hs. unfold gen_obj_entries. rewrite Hq, Hdt, Hs. cbn [oz_eqb].
  replace (dt =? T_DAQMX) with false by lia. cbn [map].
  split; [|intros id]; cbn [chunk_values chunk_scaler_values flat_map];
    unfold entry_values, entry_scaler_values; cbn [fst snd]; rewrite bytes_eqb_refl.
  - apply app_nil_r.
  - reflexivity.
Qed.

Lemma chunk_values_gen_chunk val dobjs p :
  chunk_values p (gen_chunk val dobjs) = flat_map (fun o => chunk_values p (gen_obj_entries val o)) dobjs.
Proof. unfold gen_chunk, chunk_values. apply flat_map_flat_map. Qed.

Lemma chunk_scaler_values_gen_chunk val dobjs p id :
  chunk_scaler_values p id (gen_chunk val dobjs)
  = flat_map (fun o => chunk_scaler_values p id (gen_obj_entries val o)) dobjs.
Proof. unfold gen_chunk, chunk_scaler_values. apply flat_map_flat_map. Qed.

(* the values of the specification chunk under the path of object o *)
Lemma gen_chunk_at val dobjs o :
  NoDup (map so_path dobjs) -> In o dobjs ->
  chunk_values (so_path o) (gen_chunk val dobjs) = chunk_values (so_path o) (gen_obj_entries val o) /\
  forall id, chunk_scaler_values (so_path o) id (gen_chunk val dobjs)
             = chunk_scaler_values (so_path o) id (gen_obj_entries val o).
Proof.
  intros Hnd Ho. split; [|intros id].
  - rewrite chunk_values_gen_chunk.
    apply (flat_map_unique so_path (fun o0 => chunk_values (so_path o) (gen_obj_entries val o0)) dobjs o);
      [exact Hnd|exact Ho|].
    intros y _ Hne. exact (proj1 (gen_entries_other val y (so_path o) Hne)).
  - rewrite chunk_scaler_values_gen_chunk.
    apply (flat_map_unique so_path
             (fun o0 => chunk_scaler_values (so_path o) id (gen_obj_entries val o0)) dobjs o);
      [exact Hnd|exact Ho|].
    intros y _ Hne. exact (proj2 (gen_entries_other val y (so_path o) Hne) id).
Qed.

Lemma gen_chunk_absent val dobjs p :
  (forall o, In o dobjs -> so_path o <> p) ->
  chunk_values p (gen_chunk val dobjs) = [] /\
  forall id, chunk_scaler_values p id (gen_chunk val dobjs) = [].
Proof.
  intros Habs. split; [|intros id].
  - rewrite chunk_values_gen_chunk. apply flat_map_all_nil. intros y Hy.
    exact (proj1 (gen_entries_other val y p (Habs y Hy))).
  - rewrite chunk_scaler_values_gen_chunk. apply flat_map_all_nil. intros y Hy.
    exact (proj2 (gen_entries_other val y p (Habs y Hy)) id).
Qed.

(* ReadCorrectDaqmx.chunk_ext_direct for an arbitrary value function *)
Lemma chunk_ext_gen val dobjs c :
  NoDup (map so_path dobjs) ->
  Forall obj_kind_ok dobjs ->
  chunk_shape dobjs c ->
  (forall o q s, In o dobjs -> so_daqmx o = Some q -> so_dtype o = Some T_DAQMX ->
                 In s (dq_scalers q) -> holds (so_path o) (sc_id s) (val (dq_kind q) s) c) ->
  (forall o q s dt, In o dobjs -> so_daqmx o = Some q -> so_dtype o = Some dt -> dt <> T_DAQMX ->
                    dq_scalers q = [s] -> alookup (so_path o) c = Some (CData (val (dq_kind q) s))) ->
  chunk_ext c (gen_chunk val dobjs).
Proof.
  intros Hnd Hkinds [Hcnd Hcent] Hraw Htyped p.
  rewrite Forall_forall in Hcent.
  destruct (path_in_dec p dobjs) as [(o & Ho & Hp)|Habs].
  - subst p. rewrite Forall_forall in Hkinds. destruct (Hkinds o Ho) as (q & Hq & Hids & Hkind).
    destruct (gen_chunk_at val dobjs o Hnd Ho) as [Hspec_v Hspec_s].
    destruct Hkind as [Hdt | (s & dt & Hs & Hdt & Hne)].
    + (* DaqMxRawData channel *)
      destruct (gen_entries_raw val o q Hq Hdt) as [Hv Hsv].
      split.
      * rewrite Hspec_v, Hv, (chunk_values_lookup _ _ Hcnd).
        destruct (alookup (so_path o) c) as [[vs|l]|] eqn:El; try reflexivity.
        exfalso. apply alookup_In in El.
        destruct (Hcent _ El) as [(l0 & o0 & Hl0 & _)|(vs0 & o0 & _ & Ho0 & Hp0 & Hdt0)];
          cbn [fst snd] in *; [discriminate|].
        assert (o0 = o) by (eapply (NoDup_map_inj so_path); eassumption). subst o0. contradiction.
      * intros id. rewrite Hspec_s, Hsv, (chunk_scaler_values_lookup _ _ _ Hcnd).
        destruct (in_dec Z.eq_dec id (map sc_id (dq_scalers q))) as [Hin|Hnin].
        -- apply in_map_iff in Hin. destruct Hin as (s & Hsid & Hs).
           destruct (Hraw o q s Ho Hq Hdt Hs) as (l & Hl & Hf). rewrite Hl.
           assert (Hndl : NoDup (map fst l)).
           { apply alookup_In in Hl.
             destruct (Hcent _ Hl) as [(l0 & o0 & Hl0 & _ & _ & _ & Hnd0 & _)|(vs0 & o0 & Hv0 & _)];
               cbn [fst snd] in *; [|discriminate]. injection Hl0 as <-. exact Hnd0. }
           rewrite (sc_values_zfind _ _ Hndl). rewrite <- Hsid, Hf.
           symmetry. rewrite (flat_map_unique sc_id _ _ s Hids Hs).
           ++ rewrite Z.eqb_refl. reflexivity.
           ++ intros y _ Hy. replace (sc_id y =? sc_id s) with false by lia. reflexivity.
        -- rewrite (flat_map_all_nil _ (dq_scalers q)).
           2:{ intros s Hs. destruct (sc_id s =? id) eqn:E; [|reflexivity].
               exfalso. apply Hnin. replace id with (sc_id s) by lia. apply in_map. exact Hs. }
           destruct (alookup (so_path o) c) as [[vs|l]|] eqn:El; try reflexivity.
           apply alookup_In in El.
           destruct (Hcent _ El) as [(l0 & o0 & Hl0 & _ & _ & _ & Hnd0 & Hids0)|(vs0 & o0 & Hv0 & _)];
             cbn [fst snd] in *; [|discriminate]. injection Hl0 as <-.
           rewrite (sc_values_zfind _ _ Hnd0). destruct (zfind id l) as [vs|] eqn:Ez; [|reflexivity].
           exfalso. apply zfind_In in Ez. destruct (Hids0 _ Ez) as (o' & q' & s' & Ho' & Hp' & Hq' & Hs' & Hid').
           cbn [fst] in Hid'.
           assert (o' = o) by (eapply (NoDup_map_inj so_path); eassumption). subst o'.
           rewrite Hq in Hq'. injection Hq' as <-. apply Hnin. rewrite <- Hid'. apply in_map. exact Hs'.
    + (* channel typed by its single scaler *)
      destruct (gen_entries_typed val o q s dt Hq Hdt Hne Hs) as [Hv Hsv].
      pose proof (Htyped o q s dt Ho Hq Hdt Hne Hs) as Hl.
      split.
      * rewrite Hspec_v, Hv, (chunk_values_lookup _ _ Hcnd), Hl. reflexivity.
      * intros id. rewrite Hspec_s, Hsv, (chunk_scaler_values_lookup _ _ _ Hcnd), Hl. reflexivity.
  - (* no object under this path *)
    assert (Hnone : alookup p c = None).
    { destruct (alookup p c) as [d|] eqn:El; [|reflexivity]. exfalso. apply alookup_In in El.
      destruct (Hcent _ El) as [(l0 & o0 & _ & Ho0 & Hp0 & _)|(vs0 & o0 & _ & Ho0 & Hp0 & _)];
        cbn [fst snd] in *; exact (Habs o0 Ho0 Hp0). }
    destruct (gen_chunk_absent val dobjs p Habs) as [Hv Hs].
    split.
    + rewrite (chunk_values_lookup _ _ Hcnd), Hnone, Hv. reflexivity.
    + intros id. rewrite (chunk_scaler_values_lookup _ _ _ Hcnd), Hnone, Hs. reflexivity.
Qed.

(* ======================================================================== *)
(* get_daqmx_final_chunk_lengths in closed form                               *)
(* ======================================================================== *)

Lemma nth_zeros {A} (r : list A) k : nth k (map (fun _ => 0) r) 0 = 0.
Proof. revert k. induction r as [|x r IH]; intros [|k]; cbn [map nth]; auto. Qed.

(* rows of buffer (n, w) starting at [base] that lie completely within the first
   [avail] bytes *)
Definition rows_within (n w base avail : Z) : Z := Z.min (w * n) (Z.max 0 (avail - base)) / w.

Lemma buffer_lengths_nth : forall dims rem k n w,
    Forall (fun d => 0 <= fst d /\ 0 <= snd d) dims -> 0 <= rem ->
    nth_error dims k = Some (n, w) -> 0 < w ->
    nth k (daqmx_buffer_lengths dims rem) 0 = rows_within n w (buffer_base dims k) rem.
Proof.
  unfold rows_within.
  induction dims as [|[n0 w0] r IH]; intros rem k n w Hnn Hrem Hk Hw; [destruct k; discriminate|].
  inversion Hnn as [|x l [Hn0 Hw0] Hr]; subst x l. cbn [fst snd] in Hn0, Hw0.
  cbn [daqmx_buffer_lengths]. destruct k as [|k].
  - cbn [nth_error] in Hk. injection Hk as -> ->. change (buffer_base ((n, w) :: r) 0) with 0.
    destruct (n * w <? rem) eqn:E; cbn [nth].
    + replace (Z.min (w * n) (Z.max 0 (rem - 0))) with (n * w) by lia. symmetry. apply Z.div_mul. lia.
    + replace (Z.min (w * n) (Z.max 0 (rem - 0))) with rem by lia. reflexivity.
  - cbn [nth_error] in Hk. rewrite buffer_base_S.
    pose proof (buffer_base_nonneg r k Hr) as Hbb.
    destruct (n0 * w0 <? rem) eqn:E; cbn [nth].
    + rewrite (IH (rem - n0 * w0) k n w Hr ltac:(lia) Hk Hw). f_equal. f_equal. f_equal. lia.
    + rewrite nth_zeros.
      assert (Hn : 0 <= n).
      { rewrite Forall_forall in Hr. apply (Hr (n, w)). eapply nth_error_In. exact Hk. }
      replace (Z.min (w * n) (Z.max 0 (rem - (w0 * n0 + buffer_base r k)))) with 0 by nia.
      reflexivity.
Qed.

(* what survives of a buffer is at most the buffer *)
Lemma rows_within_le n w base avail : 0 < w -> 0 <= n -> 0 <= rows_within n w base avail <= n.
Proof.
  intros Hw Hn. unfold rows_within. split.
  - apply Z.div_pos; lia.
  - apply Z.div_le_upper_bound; lia.
Qed.

Lemma rows_within_full n w base avail :
  0 < w -> 0 <= n -> base + w * n <= avail -> rows_within n w base avail = n.
Proof.
  intros Hw Hn Hfit. unfold rows_within.
  replace (Z.min (w * n) (Z.max 0 (avail - base))) with (n * w) by lia. apply Z.div_mul. lia.
Qed.

(* the rows the reader gets from a file of [avail] bytes *)
Lemma rows_count_cut (w n base avail : Z) (data : bytes) :
  0 < w -> 0 <= n -> 0 <= base -> 0 <= avail <= blen data ->
  Z.of_nat (length (items w (read_at base (w * n) (take avail data)))) = rows_within n w base avail.
Proof.
  intros Hw Hn Hb Ha. rewrite items_length by exact Hw. unfold rows_within.
  unfold read_at. rewrite DaqmxProofs.blen_take by nia. rewrite blen_drop by exact Hb.
  rewrite DaqmxProofs.blen_take by lia. f_equal. lia.
Qed.

(* ======================================================================== *)
(* The specification of a cut DAQmx block                                     *)
(* ======================================================================== *)

(* values of scaler [s] in chunk [j], rows 0 .. lens[buffer of s] - 1, addressed
   in the complete block [data] *)
Definition direct_scaler_rows (e : endian) (kind : Z) (dims : list (Z * Z)) (lens : list Z)
           (data : bytes) (j : nat) (s : scaler) : list bytes :=
  match nth_error dims (Z.to_nat (sc_buf s)), daqmx_type (sc_type s) with
  | Some (n, w), Some dt =>
    match tds_size dt with
    | Some (Some sz) =>
      map (scaler_value_at e kind s dt sz
             (Z.of_nat j * chunk_bytes dims + buffer_base dims (Z.to_nat (sc_buf s))) w data)
          (seq 0 (Z.to_nat (nth (Z.to_nat (sc_buf s)) lens 0)))
    | _ => []
    end
  | _, _ => []
  end.

Definition direct_chunk_rows (e : endian) (dobjs : list sobj) (dims : list (Z * Z)) (lens : list Z)
           (data : bytes) (j : nat) : chunk :=
  gen_chunk (fun kind s => direct_scaler_rows e kind dims lens data j s) dobjs.

Lemma nth_map_fst (dims : list (Z * Z)) k n w :
  nth_error dims k = Some (n, w) -> nth k (map fst dims) 0 = n.
Proof.
  revert k. induction dims as [|d r IH]; intros [|k] H; try discriminate; cbn [nth_error] in H.
  - injection H as ->. reflexivity.
  - cbn [map nth]. exact (IH k H).
Qed.

(* all rows: the complete chunk *)
Lemma direct_scaler_rows_full e kind dims data j s :
  direct_scaler_rows e kind dims (map fst dims) data j s = direct_scaler_chunk e kind dims data j s.
Proof.
  unfold direct_scaler_rows, direct_scaler_chunk.
  destruct (nth_error dims (Z.to_nat (sc_buf s))) as [[n w]|] eqn:E; [|reflexivity].
  rewrite (nth_map_fst dims _ n w E). reflexivity.
Qed.

Lemma direct_chunk_rows_full e dobjs dims data j :
  direct_chunk_rows e dobjs dims (map fst dims) data j = direct_chunk e dobjs dims data j.
Proof.
  unfold direct_chunk_rows. rewrite direct_chunk_gen. unfold gen_chunk.
  apply flat_map_ext. intros o. unfold gen_obj_entries. destruct (so_daqmx o) as [q|]; [|reflexivity].
  destruct (oz_eqb _ _).
  - f_equal. f_equal. f_equal. apply map_ext. intros s. rewrite direct_scaler_rows_full. reflexivity.
  - apply map_ext. intros s. rewrite direct_scaler_rows_full. reflexivity.
Qed.

Lemma firstn_seq' : forall r n s, (r <= n)%nat -> firstn r (seq s n) = seq s r.
Proof.
  induction r as [|r IH]; intros n s H; [reflexivity|].
  destruct n as [|n]; [lia|]. cbn [seq firstn]. f_equal. apply IH. lia.
Qed.

Lemma firstn_map_seq {A} (f : nat -> A) r n : (r <= n)%nat -> firstn r (map f (seq 0 n)) = map f (seq 0 r).
Proof.
  intros H. rewrite firstn_map. f_equal. apply firstn_seq'. exact H.
Qed.

(* the rows kept are the first rows of the complete chunk *)
Lemma cut_rows_prefix e kind dims lens data j s :
  (forall n w, nth_error dims (Z.to_nat (sc_buf s)) = Some (n, w) -> nth (Z.to_nat (sc_buf s)) lens 0 <= n) ->
  direct_scaler_rows e kind dims lens data j s
  = firstn (Z.to_nat (nth (Z.to_nat (sc_buf s)) lens 0)) (direct_scaler_chunk e kind dims data j s).
Proof.
  intros Hle. unfold direct_scaler_rows, direct_scaler_chunk.
  destruct (nth_error dims (Z.to_nat (sc_buf s))) as [[n w]|] eqn:E; [|rewrite firstn_nil; reflexivity].
  destruct (daqmx_type (sc_type s)) as [dt|]; [|rewrite firstn_nil; reflexivity].
  destruct (tds_size dt) as [[sz|]|]; try (rewrite firstn_nil; reflexivity).
  symmetry. apply firstn_map_seq. specialize (Hle n w eq_refl). lia.
Qed.

(* the chunks a cut block of [j] bytes holds *)
Definition cut_direct_chunks (g : segment) (data : bytes) (j : Z) : list chunk :=
  let dobjs := data_objs (sg_objs g) in
  let dims := dims_spec dobjs in
  let cb := chunk_bytes dims in
  let e := toc_endian (sg_toc g) in
  map (direct_chunk e dobjs dims data) (seq 0 (Z.to_nat (j / cb))) ++
  (if j mod cb =? 0 then []
   else [direct_chunk_rows e dobjs dims (daqmx_buffer_lengths dims (j mod cb)) data (Z.to_nat (j / cb))]).

(* ======================================================================== *)
(* The decoder on the cut block                                               *)
(* ======================================================================== *)

Lemma take_drop_id (j : Z) (x : bytes) : take j x ++ drop j x = x.
Proof. rewrite take_firstn, drop_skipn. apply firstn_skipn. Qed.

(* the values the decoder files for scaler [s] in chunk [i] of the cut block:
   the rows that lie within the first j bytes, addressed in the complete block *)
Lemma daqmx_cut_chunk_values g gc data j cs cur' i c :
  daqmx_seg_ok g data ->
  0 <= j <= blen data ->
  sg_toc gc = sg_toc g -> sg_objs gc = sg_objs g ->
  read_segment_chunks gc (take j data) = Ok (cs, cur') ->
  nth_error cs i = Some c ->
  let e := toc_endian (sg_toc g) in
  let dobjs := data_objs (sg_objs g) in
  let dims := dims_spec dobjs in
  forall lens,
    (forall k n w, nth_error dims k = Some (n, w) -> 0 < w ->
                   nth k lens 0 = rows_within n w (Z.of_nat i * chunk_bytes dims + buffer_base dims k) j) ->
    (forall o q s, In o dobjs -> so_daqmx o = Some q -> so_dtype o = Some T_DAQMX ->
                   In s (dq_scalers q) ->
                   holds (so_path o) (sc_id s) (direct_scaler_rows e (dq_kind q) dims lens data i s) c) /\
    (forall o q s dt, In o dobjs -> so_daqmx o = Some q -> so_dtype o = Some dt -> dt <> T_DAQMX ->
                      dq_scalers q = [s] ->
                      alookup (so_path o) c
                      = Some (CData (direct_scaler_rows e (dq_kind q) dims lens data i s))).
Proof.
  intros Hok Hj Htoc Hobjs Hread Hi e dobjs dims lens Hlens.
  pose proof (daqmx_seg_ok_layout g data Hok) as Hlay.
  assert (Hlayc : seg_layout gc = Ok LDaqmx) by (rewrite (seg_layout_ext gc g Htoc Hobjs); exact Hlay).
  destruct (daqmx_seg_ok_dims g data Hok) as [Hbd Hnn]. fold dobjs dims in Hbd, Hnn.
  pose proof Hok as (_ & Hnd & _). fold dobjs in Hnd.
  pose proof (chunk_bytes_nonneg dims Hnn) as Hcb.
  assert (Hec : toc_endian (sg_toc gc) = e) by (unfold e; rewrite Htoc; reflexivity).
  assert (Hcommon : forall o q s, In o dobjs -> so_daqmx o = Some q -> In s (dq_scalers q) ->
             exists dt sz w,
               daqmx_type (sc_type s) = Some dt /\ tds_size dt = Some (Some sz) /\
               0 <= sc_off s /\ 0 <= sc_buf s /\ 0 < w /\ 0 <= so_nvals o /\
               nth_error dims (Z.to_nat (sc_buf s)) = Some (so_nvals o, w) /\
               (if dq_kind q =? DIGITAL_LINE_SCALER then sc_off s / 8 else sc_off s) + sz <= w).
  { intros o q s Ho Hq Hs.
    destruct (daqmx_seg_ok_obj g data o Hok Ho) as (q' & Hq' & _ & _ & _ & Hsc).
    rewrite Hq in Hq'. injection Hq' as <-. rewrite Forall_forall in Hsc.
    destruct (Hsc s Hs) as (dt & sz & w & Hty & Hsz & Hoff & Hbuf & Hnth & Hfit).
    fold dobjs dims in Hnth.
    pose proof (ReadCorrectDaqmx.tds_size_pos dt sz Hsz) as Hszp.
    assert (Hoff8 : 0 <= sc_off s / 8) by (apply Z.div_pos; lia).
    assert (Hw : 0 < w) by (destruct (dq_kind q =? DIGITAL_LINE_SCALER); lia).
    assert (Hnv : 0 <= so_nvals o).
    { rewrite Forall_forall in Hnn. apply (Hnn (so_nvals o, w)). eapply nth_error_In. exact Hnth. }
    exists dt, sz, w. repeat split; assumption. }
  (* from the decoder's value list to the specification's *)
  assert (Hvals : forall o q s dt sz w vs,
             In o dobjs -> so_daqmx o = Some q -> In s (dq_scalers q) ->
             daqmx_type (sc_type s) = Some dt -> tds_size dt = Some (Some sz) ->
             0 <= sc_off s -> 0 <= sc_buf s -> 0 < w -> 0 <= so_nvals o ->
             nth_error dims (Z.to_nat (sc_buf s)) = Some (so_nvals o, w) ->
             (if dq_kind q =? DIGITAL_LINE_SCALER then sc_off s / 8 else sc_off s) + sz <= w ->
             let base := Z.of_nat i * chunk_bytes dims + buffer_base dims (Z.to_nat (sc_buf s)) in
             length vs = length (items w (read_at base (w * so_nvals o) (take j data))) ->
             (forall i', (i' < length vs)%nat ->
                         nth_error vs i' = Some (scaler_value_at e (dq_kind q) s dt sz base w (take j data) i')) ->
             vs = direct_scaler_rows e (dq_kind q) dims lens data i s).
  { intros o q s dt sz w vs Ho Hq Hs Hty Hsz Hoff Hbuf Hw Hnv Hnth Hfit base Hl Hv.
    pose proof (buffer_base_nonneg dims (Z.to_nat (sc_buf s)) Hnn) as Hbb.
    assert (Hb0 : 0 <= base) by (unfold base; nia).
    pose proof (rows_count_cut w (so_nvals o) base j data Hw Hnv Hb0 Hj) as Hrc.
    rewrite <- Hl in Hrc.
    pose proof (rows_within_le (so_nvals o) w base j Hw Hnv) as Hrle.
    unfold direct_scaler_rows. rewrite Hnth, Hty, Hsz. fold base.
    rewrite (Hlens _ _ _ Hnth Hw). fold base.
    apply list_eq_map_seq; [lia|]. intros i' Hi'. rewrite (Hv i') by lia. f_equal.
    pose proof (ReadCorrectDaqmx.tds_size_pos dt sz Hsz) as Hszp.
    rewrite <- (take_drop_id j data) at 2.
    symmetry. apply scaler_value_at_app; try lia.
    rewrite DaqmxProofs.blen_take by lia.
    assert (Hrows : Z.of_nat i' + 1 <= rows_within (so_nvals o) w base j) by lia.
    unfold rows_within in Hrows.
    assert (Hq' : (Z.of_nat i' + 1) * w <= Z.min (w * so_nvals o) (Z.max 0 (j - base))).
    { pose proof (Z.mul_div_le (Z.min (w * so_nvals o) (Z.max 0 (j - base))) w Hw). nia. }
    lia. }
  split.
  - intros o q s Ho Hq Hdt Hs.
    destruct (Hcommon o q s Ho Hq Hs) as (dt & sz & w & Hty & Hsz & Hoff & Hbuf & Hw & Hnv & Hnth & Hfit).
    destruct (daqmx_seg_ok_obj g data o Hok Ho) as (q' & Hq' & _ & Hids & _).
    rewrite Hq in Hq'. injection Hq' as <-.
    assert (Hoc : In o (data_objs (sg_objs gc))) by (rewrite Hobjs; exact Ho).
    assert (Hndc : NoDup (map so_path (data_objs (sg_objs gc)))) by (rewrite Hobjs; exact Hnd).
    assert (Hbdc : buffer_dims (data_objs (sg_objs gc)) = Ok dims) by (rewrite Hobjs; exact Hbd).
    destruct (daqmx_segment_addressing gc (take j data) cs cur' dims o q s (Z.to_nat (sc_buf s))
                (so_nvals o) w dt sz i c Hlayc Hread Hbdc Hnn Hoc Hndc Hq Hdt Hs Hids Hnth
                ltac:(lia) Hw Hoff Hty Hsz Hi) as (vs & Hh & Hl & Hv).
    cbv zeta in Hl, Hv. rewrite Hec in Hv.
    rewrite <- (Hvals o q s dt sz w vs Ho Hq Hs Hty Hsz Hoff Hbuf Hw Hnv Hnth Hfit Hl Hv). exact Hh.
  - intros o q s dto Ho Hq Hdt Hne Hs1.
    assert (Hs : In s (dq_scalers q)) by (rewrite Hs1; left; reflexivity).
    destruct (Hcommon o q s Ho Hq Hs) as (dt & sz & w & Hty & Hsz & Hoff & Hbuf & Hw & Hnv & Hnth & Hfit).
    assert (Hoc : In o (data_objs (sg_objs gc))) by (rewrite Hobjs; exact Ho).
    assert (Hndc : NoDup (map so_path (data_objs (sg_objs gc)))) by (rewrite Hobjs; exact Hnd).
    assert (Hbdc : buffer_dims (data_objs (sg_objs gc)) = Ok dims) by (rewrite Hobjs; exact Hbd).
    destruct (daqmx_segment_addressing_typed gc (take j data) cs cur' dims o q s dto (Z.to_nat (sc_buf s))
                (so_nvals o) w dt sz i c Hlayc Hread Hbdc Hnn Hoc Hndc Hq Hdt Hne Hs1 Hnth
                ltac:(lia) Hw Hoff Hty Hsz Hi) as (vs & Hh & Hl & Hv).
    cbv zeta in Hl, Hv. rewrite Hec in Hv.
    rewrite <- (Hvals o q s dt sz w vs Ho Hq Hs Hty Hsz Hoff Hbuf Hw Hnv Hnth Hfit Hl Hv). exact Hh.
Qed.

Lemma nchunks_nonneg j csize : 0 <= j -> 0 < csize -> 0 <= nchunks_of j csize.
Proof.
  intros Hj Hc. unfold nchunks_of. assert (0 <= j / csize) by (apply Z.div_pos; lia).
  destruct (j mod csize =? 0); lia.
Qed.

Lemma cut_direct_chunks_length g data j :
  0 <= j -> 0 < chunk_bytes (dims_spec (data_objs (sg_objs g))) ->
  length (cut_direct_chunks g data j)
  = Z.to_nat (nchunks_of j (chunk_bytes (dims_spec (data_objs (sg_objs g))))).
Proof.
  intros Hj Hcb. unfold cut_direct_chunks, nchunks_of. cbv zeta.
  rewrite app_length, map_length, seq_length.
  set (cb := chunk_bytes _) in *. assert (0 <= j / cb) by (apply Z.div_pos; lia).
  destruct (j mod cb =? 0); cbn [length]; lia.
Qed.

Theorem daqmx_truncation_complete_rows g gc data j :
  daqmx_seg_ok g data ->
  0 <= j < blen data ->
  sg_toc gc = sg_toc g -> sg_objs gc = sg_objs g ->
  calculate_chunks (sg_toc g) true (sg_objs g) j = Ok (sg_nchunks gc, sg_final gc) ->
  exists cs cur',
    read_segment_chunks gc (take j data) = Ok (cs, cur') /\
    Forall2 chunk_ext cs (cut_direct_chunks g data j) /\
    Forall (chunk_shape (data_objs (sg_objs g))) cs /\
    sg_nchunks gc = Z.of_nat (length cs).
Proof.
  intros Hok Hj Htoc Hobjs Hcc.
  pose proof (daqmx_seg_ok_layout g data Hok) as Hlay.
  assert (Hlayc : seg_layout gc = Ok LDaqmx) by (rewrite (seg_layout_ext gc g Htoc Hobjs); exact Hlay).
  destruct (daqmx_seg_ok_dims g data Hok) as [Hbd Hnn].
  pose proof Hok as (Hne & Hnd & _ & _ & m & Hm & Hlen & _).
  pose proof (chunk_size_daqmx (sg_objs g) Hne (daqmx_seg_ok_consistent g data Hok)) as Hcs.
  set (e := toc_endian (sg_toc g)) in *. set (dobjs := data_objs (sg_objs g)) in *.
  set (dims := dims_spec dobjs) in *.
  pose proof (chunk_bytes_nonneg dims Hnn) as Hcb0.
  set (cb := chunk_bytes dims) in *.
  assert (Hcb : 0 < cb) by nia.
  destruct (calculate_chunks_count _ _ _ _ _ _ _ Hcs Hcb (proj1 Hj) Hcc) as (Hn & _ & _).
  assert (Hq0 : 0 <= j / cb) by (apply Z.div_pos; lia).
  pose proof (Z.mod_pos_bound j cb Hcb) as Hrb.
  pose proof (Z.div_mod j cb ltac:(lia)) as Hdm.
  assert (Hn0 : 0 <= sg_nchunks gc) by (rewrite Hn; apply nchunks_nonneg; lia).
  assert (Hnle : sg_nchunks gc <= j + 1).
  { rewrite Hn. unfold nchunks_of. destruct (j mod cb =? 0); nia. }
  (* every chunk read succeeds, whatever the cursor *)
  assert (Hrd_ok : forall (ci : Z) (cur : bytes),
             exists c cur', (fun (_ : Z) (c0 : bytes) => read_daqmx_chunk e dobjs c0) ci cur = Ok (c, cur')).
  { intros ci cur. cbv beta. apply (read_daqmx_chunk_succeeds e dobjs dims cur Hbd).
    intros o Ho. destruct (daqmx_seg_ok_obj g data o Hok Ho) as (q & Hq & _ & _ & _ & Hsc).
    exists q. split; [exact Hq|]. intros s k n w Hs Hk Hb. rewrite Forall_forall in Hsc.
    destruct (Hsc s Hs) as (dt & sz & w' & Hty & Hsz & _ & _ & Hnth & Hfit).
    fold dobjs dims in Hnth. replace (Z.to_nat (sc_buf s)) with k in Hnth by lia.
    rewrite Hk in Hnth. injection Hnth as _ <-. exists dt, sz. repeat split; assumption. }
  destruct (read_chunks_loop_succeeds _ Hrd_ok (S (S (length (take j data)))) 0 (sg_nchunks gc) (take j data))
    as (cs & cur' & Hloop & Hlcs).
  { pose proof (DaqmxProofs.blen_take j data (proj1 Hj)) as Hb.
    assert (Hb' : blen (take j data) = j) by lia. unfold blen in Hb'. lia. }
  replace (sg_nchunks gc - 0) with (sg_nchunks gc) in Hlcs by lia.
  assert (Hread : read_segment_chunks gc (take j data) = Ok (cs, cur')).
  { unfold read_segment_chunks. rewrite Hlayc. cbn [bind]. rewrite Htoc, Hobjs. exact Hloop. }
  exists cs, cur'. split; [exact Hread|].
  assert (Hrd : forall (ci : Z) (c0 : bytes) (ch : chunk) (c' : bytes),
             (fun (_ : Z) (c1 : bytes) => read_daqmx_chunk e dobjs c1) ci c0 = Ok (ch, c') ->
             c' = drop cb c0).
  { intros ci c0 ch c' Hr. exact (read_daqmx_chunk_rest e dobjs c0 ch c' dims Hr Hbd Hnn). }
  assert (Hshape : forall i c, nth_error cs i = Some c -> chunk_shape dobjs c).
  { intros i c Hi.
    destruct (read_chunks_loop_nth _ _ Hrd Hcb0 _ _ _ _ _ _ Hloop i c Hi) as [c' Hc'].
    cbv beta in Hc'. exact (read_daqmx_chunk_shape e dobjs _ c c' Hc'). }
  pose proof (daqmx_seg_ok_kinds g data Hok) as Hkinds. fold dobjs in Hkinds.
  split; [|split].
  - apply Forall2_nth_error.
    + rewrite (cut_direct_chunks_length g data j (proj1 Hj) Hcb). fold dobjs dims cb. rewrite <- Hn. exact Hlcs.
    + intros i c c' Hi Hi'.
      assert (Hil : (i < Z.to_nat (sg_nchunks gc))%nat).
      { rewrite <- Hlcs. apply nth_error_Some. rewrite Hi. discriminate. }
      unfold cut_direct_chunks in Hi'. cbv zeta in Hi'. fold e dobjs dims cb in Hi'.
      destruct (lt_dec i (Z.to_nat (j / cb))) as [Hlt|Hge].
      * (* a complete chunk *)
        rewrite nth_error_app1 in Hi' by (rewrite map_length, seq_length; exact Hlt).
        rewrite nth_error_map, (nth_error_seq _ 0 i Hlt) in Hi'. cbn [option_map Nat.add] in Hi'.
        injection Hi' as <-. rewrite <- direct_chunk_rows_full.
        destruct (daqmx_cut_chunk_values g gc data j cs cur' i c Hok ltac:(lia) Htoc Hobjs Hread Hi
                                         (map fst dims)) as [Hraw Htyped].
        { intros k n w Hk Hw. fold dobjs dims in Hk |- *. rewrite (nth_map_fst dims k n w Hk).
          fold cb. symmetry.
          assert (Hnk : 0 <= n).
          { rewrite Forall_forall in Hnn. apply (Hnn (n, w)). eapply nth_error_In. exact Hk. }
          apply rows_within_full; [exact Hw|exact Hnk|].
          pose proof (buffer_base_le dims Hnn _ _ _ Hk) as Hbl. fold cb in Hbl.
          assert ((Z.of_nat i + 1) * cb <= (j / cb) * cb) by (apply Z.mul_le_mono_nonneg_r; lia).
          lia. }
        apply chunk_ext_gen; [exact Hnd|exact Hkinds|exact (Hshape i c Hi)|exact Hraw|exact Htyped].
      * (* the partial chunk *)
        rewrite nth_error_app2 in Hi' by (rewrite map_length, seq_length; lia).
        rewrite map_length, seq_length in Hi'.
        destruct (j mod cb =? 0) eqn:Erem.
        { destruct (i - Z.to_nat (j / cb))%nat; discriminate Hi'. }
        assert (Hiq : i = Z.to_nat (j / cb)).
        { rewrite Hn in Hil. unfold nchunks_of in Hil. rewrite Erem in Hil. lia. }
        replace (i - Z.to_nat (j / cb))%nat with 0%nat in Hi' by lia. cbn [nth_error] in Hi'.
        injection Hi' as <-. rewrite <- Hiq.
        destruct (daqmx_cut_chunk_values g gc data j cs cur' i c Hok ltac:(lia) Htoc Hobjs Hread Hi
                                         (daqmx_buffer_lengths dims (j mod cb))) as [Hraw Htyped].
        { intros k n w Hk Hw. fold dobjs dims in Hk |- *. fold cb.
          rewrite (buffer_lengths_nth dims (j mod cb) k n w Hnn ltac:(lia) Hk Hw).
          unfold rows_within. f_equal. f_equal. f_equal. rewrite Hiq, Z2Nat.id by lia. lia. }
        apply chunk_ext_gen; [exact Hnd|exact Hkinds|exact (Hshape i c Hi)|exact Hraw|exact Htyped].
  - apply Forall_forall. intros c Hc. apply In_nth_error in Hc. destruct Hc as [i Hi].
    exact (Hshape i c Hi).
  - lia.
Qed.

(* ======================================================================== *)
(* What is returned is a prefix of the complete segment's values              *)
(* ======================================================================== *)

(* the partial chunk against the complete chunk, per path and per (path, id) *)
Lemma cut_chunk_prefix g data rem j :
  daqmx_seg_ok g data -> 0 <= rem ->
  let e := toc_endian (sg_toc g) in
  let dobjs := data_objs (sg_objs g) in
  let dims := dims_spec dobjs in
  forall p,
    is_prefix (chunk_values p (direct_chunk_rows e dobjs dims (daqmx_buffer_lengths dims rem) data j))
              (chunk_values p (direct_chunk e dobjs dims data j)) /\
    forall id,
      is_prefix (chunk_scaler_values p id (direct_chunk_rows e dobjs dims (daqmx_buffer_lengths dims rem) data j))
                (chunk_scaler_values p id (direct_chunk e dobjs dims data j)).
Proof.
  intros Hok Hrem e dobjs dims p.
  pose proof Hok as (_ & Hnd & _). fold dobjs in Hnd.
  destruct (daqmx_seg_ok_dims g data Hok) as [_ Hnn]. fold dobjs dims in Hnn.
  pose proof (daqmx_seg_ok_kinds g data Hok) as Hkinds. fold dobjs in Hkinds.
  set (lens := daqmx_buffer_lengths dims rem).
  set (vc := fun kind s => direct_scaler_rows e kind dims lens data j s).
  set (vf := fun kind s => direct_scaler_chunk e kind dims data j s).
  change (direct_chunk_rows e dobjs dims lens data j) with (gen_chunk vc dobjs).
  rewrite direct_chunk_gen. fold vf.
  (* per scaler *)
  assert (Hsc : forall o q s, In o dobjs -> so_daqmx o = Some q -> In s (dq_scalers q) ->
                              is_prefix (vc (dq_kind q) s) (vf (dq_kind q) s)).
  { intros o q s Ho Hq Hs. unfold vc, vf. rewrite cut_rows_prefix; [apply is_prefix_firstn|].
    intros n w Hnth.
    destruct (obj_nvals_nonneg g data o q s Hok Ho Hq Hs) as [(dt & sz & w' & Hty & Hsz & Hoff & _ & Hnth' & Hfit) Hnv].
    fold dobjs dims in Hnth'. rewrite Hnth in Hnth'. injection Hnth' as -> <-.
    pose proof (ReadCorrectDaqmx.tds_size_pos dt sz Hsz) as Hszp.
    assert (Hoff8 : 0 <= sc_off s / 8) by (apply Z.div_pos; lia).
    assert (Hw : 0 < w) by (destruct (dq_kind q =? DIGITAL_LINE_SCALER); lia).
    unfold lens. rewrite (buffer_lengths_nth dims rem _ _ _ Hnn Hrem Hnth Hw).
    apply rows_within_le; assumption. }
  destruct (path_in_dec p dobjs) as [(o & Ho & Hp)|Habs].
  - subst p. rewrite Forall_forall in Hkinds. destruct (Hkinds o Ho) as (q & Hq & Hids & Hkind).
    destruct (gen_chunk_at vc dobjs o Hnd Ho) as [Hcv Hcs].
    destruct (gen_chunk_at vf dobjs o Hnd Ho) as [Hfv Hfs].
    destruct Hkind as [Hdt | (s & dt & Hs & Hdt & Hne)].
    + destruct (gen_entries_raw vc o q Hq Hdt) as [Hv1 Hs1].
      destruct (gen_entries_raw vf o q Hq Hdt) as [Hv2 Hs2].
      split; [rewrite Hcv, Hfv, Hv1, Hv2; apply is_prefix_refl|].
      intros id. rewrite Hcs, Hfs, Hs1, Hs2.
      destruct (in_dec Z.eq_dec id (map sc_id (dq_scalers q))) as [Hin|Hnin].
      * apply in_map_iff in Hin. destruct Hin as (s & Hsid & Hs).
        rewrite !(flat_map_unique sc_id _ _ s Hids Hs);
          try (intros y _ Hy; replace (sc_id y =? id) with false by lia; reflexivity).
        replace (sc_id s =? id) with true by lia. exact (Hsc o q s Ho Hq Hs).
      * rewrite !(flat_map_all_nil _ (dq_scalers q)); [apply is_prefix_refl| |].
        -- intros s Hs. destruct (sc_id s =? id) eqn:E; [|reflexivity].
           exfalso. apply Hnin. replace id with (sc_id s) by lia. apply in_map. exact Hs.
        -- intros s Hs. destruct (sc_id s =? id) eqn:E; [|reflexivity].
           exfalso. apply Hnin. replace id with (sc_id s) by lia. apply in_map. exact Hs.
    + destruct (gen_entries_typed vc o q s dt Hq Hdt Hne Hs) as [Hv1 Hs1].
      destruct (gen_entries_typed vf o q s dt Hq Hdt Hne Hs) as [Hv2 Hs2].
      split.
      * rewrite Hcv, Hfv, Hv1, Hv2. apply (Hsc o q s Ho Hq). rewrite Hs. left. reflexivity.
      * intros id. rewrite Hcs, Hfs, Hs1, Hs2. apply is_prefix_refl.
  - destruct (gen_chunk_absent vc dobjs p Habs) as [Hv1 Hs1].
    destruct (gen_chunk_absent vf dobjs p Habs) as [Hv2 Hs2].
    split; [rewrite Hv1, Hv2; apply is_prefix_refl|].
    intros id. rewrite Hs1, Hs2. apply is_prefix_refl.
Qed.

Lemma seq_split a n : (a <= n)%nat -> seq 0 n = seq 0 a ++ seq a (n - a).
Proof. intros H. replace n with (a + (n - a))%nat at 1 by lia. apply seq_app. Qed.

(* the values of the cut block are, per path and per (path, scale id), a prefix
   of the complete segment's values, and contain those of the complete chunks *)
Theorem daqmx_cut_prefix g data j :
  daqmx_seg_ok g data -> 0 <= j < blen data ->
  let cb := chunk_bytes (dims_spec (data_objs (sg_objs g))) in
  let whole := map (direct_chunk (toc_endian (sg_toc g)) (data_objs (sg_objs g))
                                 (dims_spec (data_objs (sg_objs g))) data) (seq 0 (Z.to_nat (j / cb))) in
  forall p,
    (is_prefix (chan_values p (cut_direct_chunks g data j)) (chan_values p (direct_chunks g data)) /\
     is_prefix (chan_values p whole) (chan_values p (cut_direct_chunks g data j))) /\
    forall id,
      is_prefix (chan_scaler_values p id (cut_direct_chunks g data j))
                (chan_scaler_values p id (direct_chunks g data)) /\
      is_prefix (chan_scaler_values p id whole) (chan_scaler_values p id (cut_direct_chunks g data j)).
Proof.
  intros Hok Hj cb whole p.
  pose proof Hok as (_ & _ & _ & _ & m & Hm & Hlen & _).
  destruct (daqmx_seg_ok_dims g data Hok) as [_ Hnn].
  pose proof (chunk_bytes_nonneg _ Hnn) as Hcb0. fold cb in Hcb0, Hlen.
  assert (Hcb : 0 < cb) by nia.
  pose proof (Z.mod_pos_bound j cb Hcb) as Hrb.
  assert (Hq0 : 0 <= j / cb) by (apply Z.div_pos; lia).
  assert (Hqm : j / cb < m) by (apply Z.div_lt_upper_bound; nia).
  unfold direct_chunks, direct_nchunks. fold cb. replace (cb =? 0) with false by lia.
  rewrite Hlen, Z.div_mul by lia.
  set (e := toc_endian (sg_toc g)) in *. set (dobjs := data_objs (sg_objs g)) in *.
  set (dims := dims_spec dobjs) in *.
  set (qn := Z.to_nat (j / cb)) in *.
  rewrite (seq_split (S qn) (Z.to_nat m)) by lia.
  replace (seq 0 (S qn)) with (seq 0 qn ++ [qn]) by (rewrite seq_S; reflexivity).
  rewrite !map_app. cbn [map]. fold whole.
  unfold cut_direct_chunks. cbv zeta. fold e dobjs dims cb qn whole.
  destruct (cut_chunk_prefix g data (j mod cb) qn Hok ltac:(lia) p) as [Hpv Hps].
  fold e dobjs dims in Hpv, Hps.
  split; [split|intros id; split].
  - rewrite <- !app_assoc, !chan_values_app. apply is_prefix_app_l.
    destruct (j mod cb =? 0); [apply is_prefix_nil|].
    rewrite !chan_values_cons. cbn [chan_values flat_map]. rewrite app_nil_r.
    apply is_prefix_app_r. cbn [app]. apply is_prefix_app_r. exact Hpv.
  - rewrite chan_values_app. apply is_prefix_self_app.
  - rewrite <- !app_assoc, !chan_scaler_values_app. apply is_prefix_app_l.
    destruct (j mod cb =? 0); [apply is_prefix_nil|].
    rewrite !chan_scaler_values_cons. cbn [chan_scaler_values flat_map]. rewrite app_nil_r.
    apply is_prefix_app_r. cbn [app]. apply is_prefix_app_r. exact (Hps id).
  - rewrite chan_scaler_values_app. apply is_prefix_self_app.
Qed.

(* ======================================================================== *)
(* What the metadata pass credits for the partial chunk (len(channel))        *)
(* ======================================================================== *)

Lemma in_dedup_z x : forall l, In x l -> In x (dedup_z l).
Proof.
  induction l as [|a r IH]; intros H; [contradiction|]. cbn [dedup_z].
  destruct (existsb (Z.eqb a) r) eqn:E.
  - destruct H as [<-|H]; [|exact (IH H)].
    apply existsb_exists in E. destruct E as (y & Hy & Hay). apply IH. replace a with y by lia. exact Hy.
  - destruct H as [<-|H]; [left; reflexivity|right; exact (IH H)].
Qed.

Lemma dedup_z_single l b : dedup_z l = [b] -> forall x, In x l -> x = b.
Proof.
  intros H x Hx. apply in_dedup_z in Hx. rewrite H in Hx. destruct Hx as [<-|[]]. reflexivity.
Qed.

(* the loop of get_daqmx_final_chunk_lengths *)
Definition dq_final_step (lens : list Z) (acc : alist Z) (o : sobj) : alist Z :=
  if negb (so_has_data o) then acc
  else match so_daqmx o with
       | None => acc
       | Some q =>
         match dedup_z (map sc_buf (dq_scalers q)) with
         | [b] => aset (so_path o) (nth (Z.to_nat b) lens 0) acc
         | _ => acc
         end
       end.

Lemma daqmx_final_fold objs rem dims :
  buffer_dims objs = Ok dims ->
  daqmx_final objs rem = Ok (fold_left (dq_final_step (daqmx_buffer_lengths dims rem)) objs []).
Proof. intros H. unfold daqmx_final. rewrite H. reflexivity. Qed.

Lemma dq_fold_other lens objs : forall acc p,
    ~ In p (map so_path (data_objs objs)) ->
    alookup p (fold_left (dq_final_step lens) objs acc) = alookup p acc.
Proof.
  induction objs as [|x r IH]; intros acc p Hp; [reflexivity|].
  cbn [fold_left]. rewrite TruncProofs.data_objs_cons in Hp. unfold dq_final_step at 2.
  destruct (so_has_data x) eqn:Ex; cbn [negb].
  - cbn [map In] in Hp.
    assert (Hr : ~ In p (map so_path (data_objs r))) by (intros H; apply Hp; right; exact H).
    destruct (so_daqmx x) as [q|]; [|exact (IH _ _ Hr)].
    destruct (dedup_z (map sc_buf (dq_scalers q))) as [|b [|b' t]]; try exact (IH _ _ Hr).
    rewrite (IH _ _ Hr), alookup_aset.
    destruct (bytes_eqb p (so_path x)) eqn:Ep; [|reflexivity].
    apply bytes_eqb_eq in Ep. exfalso. apply Hp. left. symmetry. exact Ep.
  - apply IH. exact Hp.
Qed.

Lemma dq_fold_lookup lens objs : forall acc o q,
    NoDup (map so_path (data_objs objs)) -> In o (data_objs objs) -> so_daqmx o = Some q ->
    alookup (so_path o) (fold_left (dq_final_step lens) objs acc)
    = match dedup_z (map sc_buf (dq_scalers q)) with
      | [b] => Some (nth (Z.to_nat b) lens 0)
      | _ => alookup (so_path o) acc
      end.
Proof.
  induction objs as [|x r IH]; intros acc o q Hnd Ho Hq; [destruct Ho|].
  cbn [fold_left]. rewrite TruncProofs.data_objs_cons in *. unfold dq_final_step at 2.
  destruct (so_has_data x) eqn:Ex; cbn [negb].
  - cbn [map] in Hnd. apply NoDup_cons_iff in Hnd. destruct Hnd as [Hnotin Hnd].
    destruct Ho as [Ho|Ho].
    + subst x. rewrite Hq. rewrite dq_fold_other by exact Hnotin.
      destruct (dedup_z (map sc_buf (dq_scalers q))) as [|b [|b' t]]; try reflexivity.
      rewrite alookup_aset, bytes_eqb_refl. reflexivity.
    + rewrite (IH _ o q Hnd Ho Hq).
      destruct (dedup_z (map sc_buf (dq_scalers q))) as [|b [|b' t]] eqn:Ed; try reflexivity;
        (destruct (so_daqmx x) as [qx|]; [|reflexivity];
         destruct (dedup_z (map sc_buf (dq_scalers qx))) as [|bx [|bx' tx]]; try reflexivity;
         rewrite alookup_aset;
         destruct (bytes_eqb (so_path o) (so_path x)) eqn:Ep; [|reflexivity];
         apply bytes_eqb_eq in Ep; exfalso; apply Hnotin; rewrite <- Ep; apply in_map; exact Ho).
  - apply IH; assumption.
Qed.

Lemma direct_scaler_rows_length e kind nv dims lens data j s :
  scaler_ok kind nv dims s -> 0 <= nth (Z.to_nat (sc_buf s)) lens 0 ->
  Z.of_nat (length (direct_scaler_rows e kind dims lens data j s)) = nth (Z.to_nat (sc_buf s)) lens 0.
Proof.
  intros (dt & sz & w & Hty & Hsz & _ & _ & Hnth & _) H0.
  unfold direct_scaler_rows. rewrite Hnth, Hty, Hsz, map_length, seq_length. lia.
Qed.

(* an object all of whose scalers live in raw buffer b: the metadata pass credits it,
   for the cut block, with (complete chunks) * number_values + (complete rows of
   buffer b in the partial chunk) -- the number of values each of its scalers gets
   (cut_direct_chunks: number_values values per complete chunk, r_b in the partial one) *)
Theorem daqmx_cut_credit g gc data j o q b :
  daqmx_seg_ok g data ->
  0 <= j < blen data ->
  sg_toc gc = sg_toc g -> sg_objs gc = sg_objs g ->
  calculate_chunks (sg_toc g) true (sg_objs g) j = Ok (sg_nchunks gc, sg_final gc) ->
  In o (data_objs (sg_objs g)) -> so_daqmx o = Some q ->
  dedup_z (map sc_buf (dq_scalers q)) = [b] ->
  let dims := dims_spec (data_objs (sg_objs g)) in
  let cb := chunk_bytes dims in
  let lens := daqmx_buffer_lengths dims (j mod cb) in
  seg_values o (sg_nchunks gc) (sg_final gc)
  = (j / cb) * so_nvals o + (if j mod cb =? 0 then 0 else nth (Z.to_nat b) lens 0) /\
  (forall s, In s (dq_scalers q) -> sc_buf s = b) /\
  (forall e s i, In s (dq_scalers q) ->
     Z.of_nat (length (direct_scaler_chunk e (dq_kind q) dims data i s)) = so_nvals o /\
     Z.of_nat (length (direct_scaler_rows e (dq_kind q) dims lens data i s)) = nth (Z.to_nat b) lens 0).
Proof.
  intros Hok Hj Htoc Hobjs Hcc Ho Hq Hded dims cb lens.
  destruct (daqmx_seg_ok_dims g data Hok) as [Hbd Hnn]. fold dims in Hbd, Hnn.
  pose proof Hok as (Hne & Hnd & _ & _ & m & Hm & Hlen & _). fold dims cb in Hlen.
  pose proof (chunk_size_daqmx (sg_objs g) Hne (daqmx_seg_ok_consistent g data Hok)) as Hcs. fold dims cb in Hcs.
  pose proof (chunk_bytes_nonneg dims Hnn) as Hcb0. fold cb in Hcb0.
  assert (Hcb : 0 < cb) by nia.
  destruct (calculate_chunks_count _ _ _ _ _ _ _ Hcs Hcb (proj1 Hj) Hcc) as (Hn & Hnone & Hsome).
  pose proof (Z.mod_pos_bound j cb Hcb) as Hrb.
  assert (Hbufs : forall s, In s (dq_scalers q) -> sc_buf s = b).
  { intros s Hs. apply (dedup_z_single _ b Hded). apply in_map. exact Hs. }
  assert (Hhd : so_has_data o = true).
  { pose proof (data_objs_have_data (sg_objs g)) as H. rewrite Forall_forall in H. exact (H o Ho). }
  split; [|split; [exact Hbufs|]].
  - unfold seg_values. rewrite Hhd. cbn [negb]. rewrite Hn. unfold nchunks_of.
    destruct (j mod cb =? 0) eqn:E.
    + rewrite (Hnone ltac:(lia)). lia.
    + destruct (Hsome ltac:(lia)) as (f & Hfin & Hf). rewrite Hfin.
      unfold final_chunk_lengths in Hf.
      pose proof (daqmx_seg_ok_layout g data Hok) as Hlay. unfold seg_layout in Hlay.
      destruct (have_daqmx (sg_objs g)) as [[|]|] eqn:Ehd; cbn [bind] in Hlay, Hf; try discriminate.
      2:{ destruct (have_interleaved _ _) as [[|]|]; cbn [bind] in Hlay; discriminate. }
      pose proof Hbd as Hbd'. rewrite <- (buffer_dims_data_objs (sg_objs g)) in Hbd'.
      rewrite (daqmx_final_fold (sg_objs g) (j mod cb) dims Hbd') in Hf. injection Hf as <-.
      rewrite (dq_fold_lookup _ (sg_objs g) [] o q Hnd Ho Hq), Hded. fold lens. lia.
  - intros e s i Hs.
    destruct (obj_nvals_nonneg g data o q s Hok Ho Hq Hs) as [Hso Hnv]. fold dims in Hso.
    split; [rewrite (direct_scaler_chunk_length _ _ _ _ _ _ _ Hso); lia|].
    rewrite <- (Hbufs s Hs).
    apply (direct_scaler_rows_length e (dq_kind q) (so_nvals o) dims lens data i s Hso).
    destruct Hso as (dt & sz & w & Hty & Hsz & Hoff & _ & Hnth & Hfit).
    pose proof (ReadCorrectDaqmx.tds_size_pos dt sz Hsz) as Hszp.
    assert (Hoff8 : 0 <= sc_off s / 8) by (apply Z.div_pos; lia).
    assert (Hw : 0 < w) by (destruct (dq_kind q =? DIGITAL_LINE_SCALER); lia).
    unfold lens. rewrite (buffer_lengths_nth dims (j mod cb) _ _ _ Hnn ltac:(lia) Hnth Hw).
    apply rows_within_le; assumption.
Qed.
