(* C11 / C01, composed: DAQmx segments inside the whole-file read theorem.

   Part A  (get_buffer_dimensions / get_daqmx_chunk_size, nptdms/daqmx.py):
     [dims_spec]  buffer k of a segment has width = the k-th raw data width the
                  objects agree on and rows = the largest chunk length among the
                  objects with a scaler in it (0 when nobody uses it), defined
                  WITHOUT the reader's running-maximum loop;
     [buffer_dims_consistent]      consistent indexes -> buffer_dims = Ok dims_spec
     [buffer_dims_ok_consistent]   buffer_dims = Ok _ -> the indexes are consistent
     [buffer_dims_widths_mismatch] an object whose width list differs from the
                  first data object's makes buffer_dims raise ValueError
     [chunk_size_daqmx]            the chunk size is chunk_bytes dims_spec
   Part B  the whole-file theorem [read_correct_daqmx] (statement and glossary in
           Props/C11_read.v).
   Nothing of Proofs/ReadCorrect.v is copied: R1 (sm_run_trace), R2
   (read_segment_ser), R3 (seg_encodes_read), the hierarchy lemmas and the
   counting lemmas are used as they are; generalisations needed for chunks that
   carry scaler data are proved here. *)
From Coq Require Import List ZArith Bool Lia ZifyBool.
From Coq Require Import Init.Byte.
Import ListNotations.
From NpTdms Require Import Base.Bytes Base.Res Model.Tokens Model.TokensWf Model.SegState
     Model.Layout Model.Reader Model.FileSyn Proofs.TokensRoundtrip Proofs.SegStateProofs
     Proofs.LayoutProofs Proofs.FileSynProofs Proofs.SegStateInherit Proofs.DaqmxProofs
     Proofs.ReadCorrect.
Local Open Scope Z_scope.
Ltac Zify.zify_post_hook ::= Z.to_euclidean_division_equations.

(* ======================================================================== *)
(* Part A: buffer dimensions                                                *)
(* ======================================================================== *)

(* object [o] has a scaler in raw buffer [k] *)
Definition uses_buffer (o : sobj) (k : Z) : bool :=
  match so_daqmx o with
  | Some q => existsb (fun s => sc_buf s =? k) (dq_scalers q)
  | None => false
  end.

(* rows of raw buffer [k]: the largest number of values per chunk among the
   objects that have a scaler in it; 0 when no object uses it *)
Definition buffer_rows (objs : list sobj) (k : Z) : Z :=
  fold_right (fun o acc => if uses_buffer o k then Z.max (so_nvals o) acc else acc) 0 objs.

Fixpoint dims_spec_from (k : Z) (objs : list sobj) (widths : list Z) : list (Z * Z) :=
  match widths with
  | [] => []
  | w :: r => (buffer_rows objs k, w) :: dims_spec_from (k + 1) objs r
  end.

(* the raw data widths of the first object *)
Definition common_widths (objs : list sobj) : list Z :=
  match objs with
  | o :: _ => match so_daqmx o with Some q => dq_widths q | None => [] end
  | [] => []
  end.

(* (rows, width) per raw buffer, for a list of data objects *)
Definition dims_spec (dobjs : list sobj) : list (Z * Z) :=
  dims_spec_from 0 dobjs (common_widths dobjs).

(* The DAQmx raw-data indexes of the data objects of a segment are CONSISTENT:
   every object is a DAQmx object, all declare the same list of raw data
   widths, and every scaler names a buffer that exists. *)
Definition dq_obj_consistent (widths : list Z) (o : sobj) : Prop :=
  so_has_data o = true /\
  exists q, so_daqmx o = Some q /\ dq_widths q = widths /\
            Forall (fun s => 0 <= sc_buf s < Z.of_nat (length widths)) (dq_scalers q).

Definition dq_indexes_consistent (dobjs : list sobj) : Prop :=
  Forall (dq_obj_consistent (common_widths dobjs)) dobjs.

Lemma buffer_rows_nonneg objs k : 0 <= buffer_rows objs k.
Proof.
  unfold buffer_rows. induction objs as [|o objs IH]; cbn [fold_right]; [lia|].
  destruct (uses_buffer o k); lia.
Qed.

Lemma buffer_rows_cons o objs k :
  buffer_rows (o :: objs) k =
  if uses_buffer o k then Z.max (so_nvals o) (buffer_rows objs k) else buffer_rows objs k.
Proof. reflexivity. Qed.

Lemma nth_error_ext {A} : forall (a b : list A),
    (forall k, nth_error a k = nth_error b k) -> a = b.
Proof.
  induction a as [|x a IH]; intros b H.
  - destruct b as [|y b]; [reflexivity|]. specialize (H 0%nat). discriminate.
  - destruct b as [|y b]; [specialize (H 0%nat); discriminate|].
    pose proof (H 0%nat) as H0. cbn in H0. injection H0 as ->. f_equal.
    apply IH. intros k. exact (H (S k)).
Qed.

Lemma nth_error_replace_nth {A} (l : list A) : forall i k x,
    nth_error (replace_nth i x l) k =
    if Nat.eqb k i then (if Nat.ltb i (length l) then Some x else None) else nth_error l k.
Proof.
  induction l as [|y l IH]; intros i k x.
  - destruct i; destruct k; cbn [replace_nth nth_error length]; try reflexivity;
      destruct (Nat.eqb _ _); reflexivity.
  - destruct i as [|i]; destruct k as [|k]; cbn [replace_nth nth_error Nat.eqb length]; try reflexivity.
    rewrite IH. change (Nat.ltb (S i) (S (length l))) with (Nat.ltb i (length l)). reflexivity.
Qed.

Lemma replace_nth_length {A} (l : list A) : forall i x, length (replace_nth i x l) = length l.
Proof.
  induction l as [|y l IH]; intros i x; [destruct i; reflexivity|].
  destruct i; cbn [replace_nth length]; [reflexivity|]. rewrite IH. reflexivity.
Qed.

(* one object's scalers: buffer k grows to max(rows, nvals) iff a scaler lives in it *)
Definition bump_one (nv : Z) (scalers : list scaler) (k : nat) (nw : Z * Z) : Z * Z :=
  (if existsb (fun s => sc_buf s =? Z.of_nat k) scalers then Z.max (fst nw) nv else fst nw, snd nw).

Lemma bump_dims_spec nv : forall scalers dims,
    Forall (fun s => 0 <= sc_buf s < Z.of_nat (length dims)) scalers ->
    exists dims', bump_dims dims nv scalers = Ok dims' /\
                  length dims' = length dims /\
                  forall k, nth_error dims' k = option_map (bump_one nv scalers k) (nth_error dims k).
Proof.
  induction scalers as [|s r IH]; intros dims Hr.
  - exists dims. split; [reflexivity|]. split; [reflexivity|]. intros k.
    destruct (nth_error dims k) as [[n w]|]; reflexivity.
  - inversion Hr as [|x l Hs Hr']; subst x l. cbn [bump_dims].
    replace ((sc_buf s <? 0) || (Z.of_nat (length dims) <=? sc_buf s)) with false by lia.
    destruct (nth (Z.to_nat (sc_buf s)) dims (0, 0)) as [cur w] eqn:Enth.
    destruct (IH (replace_nth (Z.to_nat (sc_buf s)) (Z.max cur nv, w) dims)) as (d' & Hd' & Hlen & Hnth).
    { rewrite replace_nth_length. exact Hr'. }
    exists d'. split; [exact Hd'|]. split; [rewrite Hlen; apply replace_nth_length|].
    intros k. rewrite Hnth, nth_error_replace_nth.
    assert (Hlt : Nat.ltb (Z.to_nat (sc_buf s)) (length dims) = true) by (apply Nat.ltb_lt; lia).
    rewrite Hlt. unfold bump_one. cbn [existsb].
    destruct (Nat.eqb k (Z.to_nat (sc_buf s))) eqn:Ek.
    + apply Nat.eqb_eq in Ek. subst k.
      assert (Hn : nth_error dims (Z.to_nat (sc_buf s)) = Some (cur, w)).
      { rewrite <- Enth. apply nth_error_nth'. lia. }
      rewrite Hn. cbn [option_map fst snd].
      replace (sc_buf s =? Z.of_nat (Z.to_nat (sc_buf s))) with true by lia. cbn [orb].
      f_equal. f_equal. destruct (existsb _ r); lia.
    + apply Nat.eqb_neq in Ek. replace (sc_buf s =? Z.of_nat k) with false by lia. reflexivity.
Qed.

Lemma bump_dims_ok_range nv : forall scalers dims dims',
    bump_dims dims nv scalers = Ok dims' ->
    length dims' = length dims /\
    Forall (fun s => 0 <= sc_buf s < Z.of_nat (length dims)) scalers.
Proof.
  induction scalers as [|s r IH]; intros dims dims' H; cbn [bump_dims] in H.
  - injection H as <-. split; [reflexivity|constructor].
  - destruct ((sc_buf s <? 0) || (Z.of_nat (length dims) <=? sc_buf s)) eqn:E; [discriminate|].
    destruct (nth (Z.to_nat (sc_buf s)) dims (0, 0)) as [cur w].
    apply IH in H. rewrite replace_nth_length in H. destruct H as [Hl Hr].
    split; [exact Hl|]. constructor; [lia|exact Hr].
Qed.

Lemma zlist_eqb_eq a : forall b, zlist_eqb a b = true <-> a = b.
Proof.
  induction a as [|x a IH]; intros [|y b]; cbn [zlist_eqb]; split; intros H;
    try reflexivity; try discriminate.
  - apply andb_prop in H. destruct H as [H1 H2]. apply IH in H2. f_equal; [lia|exact H2].
  - injection H as -> ->. rewrite Z.eqb_refl. apply IH. reflexivity.
Qed.

(* the running maximum of the loop, started at [n] *)
Definition rows_acc (objs : list sobj) (k : Z) (n : Z) : Z :=
  fold_left (fun acc o => if uses_buffer o k then Z.max acc (so_nvals o) else acc) objs n.

Lemma rows_acc_spec k : forall objs n, 0 <= n -> rows_acc objs k n = Z.max n (buffer_rows objs k).
Proof.
  unfold rows_acc. induction objs as [|o objs IH]; intros n Hn.
  - cbn [fold_left buffer_rows fold_right]. lia.
  - cbn [fold_left]. rewrite buffer_rows_cons. destruct (uses_buffer o k).
    + rewrite IH by lia. lia.
    + apply IH. exact Hn.
Qed.

(* the loop of get_buffer_dimensions once [dimensions] is set *)
Lemma buffer_dims_from_spec widths : forall objs dims,
    length dims = length widths ->
    Forall (dq_obj_consistent widths) objs ->
    exists dims', buffer_dims_from objs (Some dims) widths = Ok dims' /\
                  length dims' = length dims /\
                  forall k, nth_error dims' k =
                            option_map (fun nw => (rows_acc objs (Z.of_nat k) (fst nw), snd nw))
                                       (nth_error dims k).
Proof.
  induction objs as [|o objs IH]; intros dims Hlen Hc.
  - exists dims. split; [reflexivity|]. split; [reflexivity|]. intros k.
    destruct (nth_error dims k) as [[n w]|] eqn:E; reflexivity.
  - inversion Hc as [|x l (Hd & q & Hq & Hw & Hr) Hc']; subst x l.
    cbn [buffer_dims_from]. rewrite Hd, Hq. cbn [negb].
    rewrite Hw. replace (zlist_eqb widths widths) with true by (symmetry; apply zlist_eqb_eq; reflexivity).
    cbn [negb].
    destruct (bump_dims_spec (so_nvals o) (dq_scalers q) dims) as (d1 & Hd1 & Hl1 & Hn1).
    { rewrite Hlen. exact Hr. }
    rewrite Hd1. cbn [bind].
    destruct (IH d1) as (d' & Hd' & Hl' & Hn'); [congruence|exact Hc'|].
    exists d'. split; [exact Hd'|]. split; [congruence|].
    intros k. rewrite Hn', Hn1. destruct (nth_error dims k) as [[n w]|]; [|reflexivity].
    cbn [option_map bump_one fst snd]. unfold rows_acc at 2. cbn [fold_left].
    unfold uses_buffer at 2. rewrite Hq. reflexivity.
Qed.

Lemma dims_spec_from_nth objs : forall widths k0 k,
    nth_error (dims_spec_from k0 objs widths) k =
    option_map (fun w => (buffer_rows objs (k0 + Z.of_nat k), w)) (nth_error widths k).
Proof.
  induction widths as [|w r IH]; intros k0 k; [destruct k; reflexivity|].
  destruct k as [|k]; cbn [dims_spec_from nth_error option_map].
  - do 3 f_equal. lia.
  - rewrite IH. destruct (nth_error r k); [|reflexivity]. cbn [option_map]. do 3 f_equal. lia.
Qed.

Lemma dims_spec_from_length objs : forall widths k0, length (dims_spec_from k0 objs widths) = length widths.
Proof. induction widths as [|w r IH]; intros k0; cbn [dims_spec_from length]; [reflexivity|]. rewrite IH. reflexivity. Qed.

Lemma data_objs_cons o r :
  data_objs (o :: r) = if so_has_data o then o :: data_objs r else data_objs r.
Proof. reflexivity. Qed.

(* objects without data are skipped *)
Lemma buffer_dims_from_data_objs : forall objs st widths,
    buffer_dims_from objs st widths = buffer_dims_from (data_objs objs) st widths.
Proof.
  induction objs as [|o objs IH]; intros st widths; [reflexivity|].
  rewrite data_objs_cons. cbn [buffer_dims_from].
  destruct (so_has_data o) eqn:Ed; cbn [negb]; [|apply IH].
  cbn [buffer_dims_from]. rewrite Ed. cbn [negb].
  destruct (so_daqmx o) as [q|]; [|reflexivity].
  destruct st as [d0|].
  - destruct (negb (zlist_eqb (dq_widths q) widths)); [reflexivity|].
    destruct (bump_dims d0 (so_nvals o) (dq_scalers q)) as [d|e]; cbn [bind]; [apply IH|reflexivity].
  - destruct (bump_dims _ (so_nvals o) (dq_scalers q)) as [d|e]; cbn [bind]; [apply IH|reflexivity].
Qed.

Lemma buffer_dims_data_objs objs : buffer_dims objs = buffer_dims (data_objs objs).
Proof. apply buffer_dims_from_data_objs. Qed.

(* the first data object sets the widths; from then on the loop runs in the
   [Some] state *)
Lemma buffer_dims_first o q r :
  so_has_data o = true -> so_daqmx o = Some q ->
  buffer_dims (o :: r) =
  buffer_dims_from (o :: r) (Some (map (fun w => (0, w)) (dq_widths q))) (dq_widths q).
Proof.
  intros Hd Hq. unfold buffer_dims. cbn [buffer_dims_from]. rewrite Hd, Hq. cbn [negb].
  replace (zlist_eqb (dq_widths q) (dq_widths q)) with true by (symmetry; apply zlist_eqb_eq; reflexivity).
  reflexivity.
Qed.

(* (A) get_buffer_dimensions on consistent indexes: rows = largest chunk length
   among the users of the buffer, width = the agreed width *)
Theorem buffer_dims_consistent dobjs :
  dq_indexes_consistent dobjs -> buffer_dims dobjs = Ok (dims_spec dobjs).
Proof.
  intros Hc. destruct dobjs as [|o r]; [reflexivity|].
  pose proof Hc as Hc0. unfold dq_indexes_consistent in Hc0.
  inversion Hc0 as [|x l (Hd & q & Hq & Hw & Hr) _]; subst x l.
  rewrite (buffer_dims_first o q r Hd Hq). rewrite Hw.
  destruct (buffer_dims_from_spec (common_widths (o :: r)) (o :: r)
                                  (map (fun w => (0, w)) (common_widths (o :: r))))
    as (d' & Hd' & Hl' & Hn'); [apply map_length|exact Hc|].
  rewrite Hd'. f_equal. apply nth_error_ext. intros k.
  rewrite Hn', nth_error_map. unfold dims_spec. rewrite dims_spec_from_nth.
  destruct (nth_error (common_widths (o :: r)) k) as [w|]; [|reflexivity].
  cbn [option_map fst snd]. rewrite rows_acc_spec by lia.
  pose proof (buffer_rows_nonneg (o :: r) (Z.of_nat k)) as Hnn.
  replace (0 + Z.of_nat k) with (Z.of_nat k) by lia. rewrite Z.max_r by exact Hnn. reflexivity.
Qed.

(* conversely: when get_buffer_dimensions returns, the indexes were consistent *)
Lemma buffer_dims_from_ok_consistent widths : forall objs dims dims',
    length dims = length widths ->
    Forall (fun o => so_has_data o = true) objs ->
    buffer_dims_from objs (Some dims) widths = Ok dims' ->
    Forall (dq_obj_consistent widths) objs.
Proof.
  induction objs as [|o objs IH]; intros dims dims' Hlen Hdata H; [constructor|].
  inversion Hdata as [|x l Hd Hdata']; subst x l.
  cbn [buffer_dims_from] in H. rewrite Hd in H. cbn [negb] in H.
  destruct (so_daqmx o) as [q|] eqn:Hq; [|discriminate].
  destruct (zlist_eqb (dq_widths q) widths) eqn:Ew; cbn [negb] in H; [|discriminate].
  apply zlist_eqb_eq in Ew.
  destruct (bump_dims dims (so_nvals o) (dq_scalers q)) as [d1|e] eqn:Eb; cbn [bind] in H; [|discriminate].
  destruct (bump_dims_ok_range _ _ _ _ Eb) as [Hl1 Hr1].
  constructor.
  - split; [exact Hd|]. exists q. split; [exact Hq|]. split; [exact Ew|]. rewrite <- Hlen. exact Hr1.
  - apply (IH d1 dims'); [congruence|exact Hdata'|exact H].
Qed.

Theorem buffer_dims_ok_consistent dobjs dims :
  Forall (fun o => so_has_data o = true) dobjs ->
  buffer_dims dobjs = Ok dims -> dq_indexes_consistent dobjs.
Proof.
  intros Hdata H. destruct dobjs as [|o r]; [constructor|].
  inversion Hdata as [|x l Hd _]; subst x l.
  destruct (so_daqmx o) as [q|] eqn:Hq.
  - rewrite (buffer_dims_first o q r Hd Hq) in H.
    unfold dq_indexes_consistent, common_widths. rewrite Hq.
    apply (buffer_dims_from_ok_consistent _ _ _ dims (map_length _ _) Hdata H).
  - unfold buffer_dims in H. cbn [buffer_dims_from] in H. rewrite Hd, Hq in H. discriminate.
Qed.

(* what daqmx.py does when two objects disagree on the raw data widths: it
   raises ValueError ("Raw data widths ... do not match previous widths") *)
Lemma buffer_dims_from_app widths rest : forall pre dims,
    buffer_dims_from (pre ++ rest) (Some dims) widths =
    (do d' <- buffer_dims_from pre (Some dims) widths; buffer_dims_from rest (Some d') widths).
Proof.
  induction pre as [|o pre IH]; intros dims; [reflexivity|].
  cbn [app buffer_dims_from]. destruct (negb (so_has_data o)); [apply IH|].
  destruct (so_daqmx o) as [q|]; [|reflexivity].
  destruct (negb (zlist_eqb (dq_widths q) widths)); [reflexivity|].
  destruct (bump_dims dims (so_nvals o) (dq_scalers q)) as [d|e]; cbn [bind]; [apply IH|reflexivity].
Qed.

Theorem buffer_dims_widths_mismatch pre o q post :
  pre <> [] -> dq_indexes_consistent pre ->
  so_has_data o = true -> so_daqmx o = Some q -> dq_widths q <> common_widths pre ->
  buffer_dims (pre ++ o :: post) = Err EValue.
Proof.
  intros Hne Hc Hd Hq Hw. destruct pre as [|o0 pre]; [contradiction|].
  pose proof Hc as Hc0. unfold dq_indexes_consistent in Hc0.
  inversion Hc0 as [|x l (Hd0 & q0 & Hq0 & Hw0 & Hr0) _]; subst x l.
  cbn [app]. rewrite (buffer_dims_first o0 q0 _ Hd0 Hq0). rewrite Hw0.
  change (o0 :: pre ++ o :: post) with ((o0 :: pre) ++ o :: post).
  rewrite buffer_dims_from_app.
  destruct (buffer_dims_from_spec (common_widths (o0 :: pre)) (o0 :: pre)
                                  (map (fun w => (0, w)) (common_widths (o0 :: pre))))
    as (d' & Hd' & _); [apply map_length|exact Hc|].
  rewrite Hd'. cbn [bind buffer_dims_from]. rewrite Hd, Hq. cbn [negb].
  destruct (zlist_eqb (dq_widths q) (common_widths (o0 :: pre))) eqn:E; [|reflexivity].
  apply zlist_eqb_eq in E. contradiction.
Qed.

(* a scaler that names a buffer which does not exist: IndexError *)
Theorem buffer_dims_bad_buffer_index o q r s :
  so_has_data o = true -> so_daqmx o = Some q -> dq_scalers q = [s] ->
  (sc_buf s < 0 \/ Z.of_nat (length (dq_widths q)) <= sc_buf s) ->
  buffer_dims (o :: r) = Err EIndex.
Proof.
  intros Hd Hq Hs Hb. unfold buffer_dims. cbn [buffer_dims_from]. rewrite Hd, Hq, Hs. cbn [negb bump_dims].
  rewrite map_length.
  replace ((sc_buf s <? 0) || (Z.of_nat (length (dq_widths q)) <=? sc_buf s)) with true by lia.
  reflexivity.
Qed.

(* ---- get_daqmx_chunk_size ---- *)

Lemma filter_all {A} (f : A -> bool) (l : list A) : Forall (fun x => f x = true) l -> filter f l = l.
Proof.
  induction 1 as [|x l Hx _ IH]; [reflexivity|]. cbn [filter]. rewrite Hx, IH. reflexivity.
Qed.

Lemma have_daqmx_true objs :
  data_objs objs <> [] ->
  Forall (fun o => so_daqmx o <> None) (data_objs objs) ->
  have_daqmx objs = Ok true.
Proof.
  intros Hne Hall. unfold have_daqmx. cbv zeta.
  rewrite filter_all.
  - destruct (data_objs objs) as [|o r]; [contradiction|]. cbn [length Nat.eqb].
    rewrite Nat.eqb_refl. reflexivity.
  - eapply Forall_impl; [|exact Hall]. intros o Ho. cbn beta in Ho |- *. destruct (so_daqmx o); [reflexivity|congruence].
Qed.

Lemma consistent_all_daqmx dobjs :
  dq_indexes_consistent dobjs -> Forall (fun o => so_daqmx o <> None) dobjs.
Proof.
  intros H. eapply Forall_impl; [|exact H]. intros o (_ & q & Hq & _). cbn beta. rewrite Hq. discriminate.
Qed.

Lemma chunk_bytes_comm dims : zsum (map (fun d => fst d * snd d) dims) = chunk_bytes dims.
Proof.
  unfold chunk_bytes. induction dims as [|[n w] r IH]; [reflexivity|].
  cbn [map zsum fold_right fst snd]. unfold zsum in IH. rewrite IH. lia.
Qed.

(* (A) the chunk size of a DAQmx segment: the sum over the buffers of rows * width *)
Theorem chunk_size_daqmx objs :
  data_objs objs <> [] -> dq_indexes_consistent (data_objs objs) ->
  chunk_size objs = Ok (chunk_bytes (dims_spec (data_objs objs))).
Proof.
  intros Hne Hc. unfold chunk_size.
  rewrite (have_daqmx_true objs Hne (consistent_all_daqmx _ Hc)). cbn [bind].
  rewrite buffer_dims_data_objs, (buffer_dims_consistent _ Hc). cbn [bind].
  rewrite chunk_bytes_comm. reflexivity.
Qed.

Lemma seg_layout_daqmx g :
  data_objs (sg_objs g) <> [] ->
  Forall (fun o => so_daqmx o <> None) (data_objs (sg_objs g)) ->
  seg_layout g = Ok LDaqmx.
Proof. intros Hne Hall. unfold seg_layout. rewrite (have_daqmx_true _ Hne Hall). reflexivity. Qed.

(* rows and widths of the specification are never negative (rows: by definition) *)
Lemma dims_spec_from_nonneg objs : forall widths k0,
    Forall (fun w => 0 <= w) widths ->
    Forall (fun d => 0 <= fst d /\ 0 <= snd d) (dims_spec_from k0 objs widths).
Proof.
  induction widths as [|w r IH]; intros k0 H; cbn [dims_spec_from]; [constructor|].
  inversion H as [|x l Hw H']; subst x l. constructor; [|apply IH; exact H'].
  cbn [fst snd]. split; [apply buffer_rows_nonneg|exact Hw].
Qed.

Lemma dims_spec_nonneg dobjs :
  Forall (fun w => 0 <= w) (common_widths dobjs) ->
  Forall (fun d => 0 <= fst d /\ 0 <= snd d) (dims_spec dobjs).
Proof. apply dims_spec_from_nonneg. Qed.

(* ======================================================================== *)
(* Part B.0: the direct-addressing meaning of a DAQmx raw data block        *)
(* ======================================================================== *)

(* Values of scaler [s] in chunk [j] of a raw data block [data] whose chunks
   consist of the buffers [dims] = [(rows, width); ...] one after another:
   for i = 0 .. rows-1 the typed value at
     j * chunk_bytes + buffer_base(buffer of s) + i * width + byte offset
   (digital lines: the addressed bit) -- [scaler_value_at], DaqmxProofs.v.
   No decoder is involved: only [read_at] on [data]. *)
Definition direct_scaler_chunk (e : endian) (kind : Z) (dims : list (Z * Z)) (data : bytes)
           (j : nat) (s : scaler) : list bytes :=
  match nth_error dims (Z.to_nat (sc_buf s)), daqmx_type (sc_type s) with
  | Some (n, w), Some dt =>
    match tds_size dt with
    | Some (Some sz) =>
      map (scaler_value_at e kind s dt sz
             (Z.of_nat j * chunk_bytes dims + buffer_base dims (Z.to_nat (sc_buf s))) w data)
          (seq 0 (Z.to_nat n))
    | _ => []
    end
  | _, _ => []
  end.

(* what chunk [j] holds for one object: scaler data keyed by scale id for a
   DaqMxRawData channel, plain data for a channel typed by its single scaler *)
Definition direct_obj_entries (e : endian) (dims : list (Z * Z)) (data : bytes) (j : nat) (o : sobj)
  : chunk :=
  match so_daqmx o with
  | None => []
  | Some q =>
    if oz_eqb (so_dtype o) (Some T_DAQMX)
    then [(so_path o,
           CScalers (map (fun s => (sc_id s, direct_scaler_chunk e (dq_kind q) dims data j s))
                         (dq_scalers q)))]
    else map (fun s => (so_path o, CData (direct_scaler_chunk e (dq_kind q) dims data j s)))
             (dq_scalers q)
  end.

Definition direct_chunk (e : endian) (dobjs : list sobj) (dims : list (Z * Z)) (data : bytes) (j : nat)
  : chunk :=
  flat_map (direct_obj_entries e dims data j) dobjs.

Definition direct_nchunks (dims : list (Z * Z)) (data : bytes) : nat :=
  if chunk_bytes dims =? 0 then 0%nat else Z.to_nat (blen data / chunk_bytes dims).

(* all chunks of a DAQmx segment, from its object list and its raw data block *)
Definition direct_chunks (g : segment) (data : bytes) : list chunk :=
  let dobjs := data_objs (sg_objs g) in
  let dims := dims_spec dobjs in
  map (direct_chunk (toc_endian (sg_toc g)) dobjs dims data) (seq 0 (direct_nchunks dims data)).

(* ---- when a segment is a readable DAQmx segment ---- *)

(* scaler [s] of an object with [nvals] values per chunk: known sized type, its
   buffer exists and has exactly [nvals] rows, and its bytes fit in a row *)
Definition scaler_ok (kind nvals : Z) (dims : list (Z * Z)) (s : scaler) : Prop :=
  exists dt sz w,
    daqmx_type (sc_type s) = Some dt /\ tds_size dt = Some (Some sz) /\
    0 <= sc_off s /\ 0 <= sc_buf s /\
    nth_error dims (Z.to_nat (sc_buf s)) = Some (nvals, w) /\
    (if kind =? DIGITAL_LINE_SCALER then sc_off s / 8 else sc_off s) + sz <= w.

Definition daqmx_obj_ok (dobjs : list sobj) (o : sobj) : Prop :=
  exists q,
    so_daqmx o = Some q /\
    dq_widths q = common_widths dobjs /\
    NoDup (map sc_id (dq_scalers q)) /\
    (so_dtype o = Some T_DAQMX \/
     exists s dt, dq_scalers q = [s] /\ so_dtype o = Some dt /\ dt <> T_DAQMX) /\
    Forall (scaler_ok (dq_kind q) (so_nvals o) (dims_spec dobjs)) (dq_scalers q).

Definition daqmx_seg_ok (g : segment) (data : bytes) : Prop :=
  let dobjs := data_objs (sg_objs g) in
  dobjs <> [] /\
  NoDup (map so_path dobjs) /\
  Forall (fun w => 0 <= w) (common_widths dobjs) /\
  Forall (daqmx_obj_ok dobjs) dobjs /\
  exists m, 0 <= m /\ blen data = m * chunk_bytes (dims_spec dobjs) /\
            (chunk_bytes (dims_spec dobjs) = 0 -> m = 0).

Lemma dims_spec_length dobjs : length (dims_spec dobjs) = length (common_widths dobjs).
Proof. apply dims_spec_from_length. Qed.

Lemma daqmx_obj_ok_consistent dobjs o :
  so_has_data o = true -> daqmx_obj_ok dobjs o -> dq_obj_consistent (common_widths dobjs) o.
Proof.
  intros Hd (q & Hq & Hw & _ & _ & Hs). split; [exact Hd|]. exists q. split; [exact Hq|]. split; [exact Hw|].
  eapply Forall_impl; [|exact Hs]. intros s (dt & sz & w & _ & _ & _ & Hb & Hn & _). cbn beta.
  assert (Hlt : (Z.to_nat (sc_buf s) < length (dims_spec dobjs))%nat).
  { apply nth_error_Some. rewrite Hn. discriminate. }
  rewrite dims_spec_length in Hlt. lia.
Qed.

Lemma daqmx_seg_ok_consistent g data :
  daqmx_seg_ok g data -> dq_indexes_consistent (data_objs (sg_objs g)).
Proof.
  intros (_ & _ & _ & Hobjs & _). unfold dq_indexes_consistent.
  apply Forall_forall. intros o Ho. apply daqmx_obj_ok_consistent.
  - pose proof (data_objs_have_data (sg_objs g)) as H. rewrite Forall_forall in H. exact (H o Ho).
  - rewrite Forall_forall in Hobjs. exact (Hobjs o Ho).
Qed.

Lemma daqmx_seg_ok_all_daqmx g data :
  daqmx_seg_ok g data -> Forall (fun o => so_daqmx o <> None) (data_objs (sg_objs g)).
Proof. intros H. apply consistent_all_daqmx. exact (daqmx_seg_ok_consistent g data H). Qed.

Lemma daqmx_seg_ok_layout g data : daqmx_seg_ok g data -> seg_layout g = Ok LDaqmx.
Proof.
  intros H. apply seg_layout_daqmx; [exact (proj1 H)|exact (daqmx_seg_ok_all_daqmx g data H)].
Qed.

Lemma daqmx_seg_ok_dims g data :
  daqmx_seg_ok g data ->
  buffer_dims (data_objs (sg_objs g)) = Ok (dims_spec (data_objs (sg_objs g))) /\
  Forall (fun d => 0 <= fst d /\ 0 <= snd d) (dims_spec (data_objs (sg_objs g))).
Proof.
  intros H. split.
  - apply buffer_dims_consistent. exact (daqmx_seg_ok_consistent g data H).
  - apply dims_spec_nonneg. destruct H as (_ & _ & Hw & _). exact Hw.
Qed.

(* the chunk count the metadata pass computes for such a segment *)
Lemma daqmx_seg_ok_nchunks g data :
  daqmx_seg_ok g data ->
  calculate_chunks (sg_toc g) (sg_incomplete g) (sg_objs g) (blen data) = Ok (sg_nchunks g, sg_final g) ->
  sg_final g = None /\ 0 <= sg_nchunks g /\
  blen data = sg_nchunks g * chunk_bytes (dims_spec (data_objs (sg_objs g))) /\
  direct_nchunks (dims_spec (data_objs (sg_objs g))) data = Z.to_nat (sg_nchunks g).
Proof.
  intros Hok Hcc. pose proof Hok as (Hne & _ & _ & _ & m & Hm & Hlen & Hz).
  pose proof (chunk_size_daqmx (sg_objs g) Hne (daqmx_seg_ok_consistent g data Hok)) as Hcs.
  destruct (daqmx_seg_ok_dims g data Hok) as [_ Hnn].
  pose proof (chunk_bytes_nonneg _ Hnn) as Hcb.
  set (cb := chunk_bytes (dims_spec (data_objs (sg_objs g)))) in *.
  unfold direct_nchunks. fold cb.
  destruct (cb =? 0) eqn:E0.
  - assert (Hm0 : m = 0) by (apply Hz; lia). subst m.
    unfold calculate_chunks in Hcc. rewrite Hcs in Hcc. cbn [bind] in Hcc.
    replace ((cb <? 0) || (blen data <? 0)) with false in Hcc by lia.
    rewrite E0 in Hcc. replace (blen data =? 0) with true in Hcc by lia. cbn [negb] in Hcc.
    injection Hcc as <- <-. repeat split; try reflexivity; lia.
  - rewrite Hlen in Hcc. rewrite (calculate_chunks_exact _ _ _ _ _ Hcs) in Hcc by lia.
    injection Hcc as <- <-. repeat split; try lia.
    rewrite Hlen, Z.div_mul by lia. reflexivity.
Qed.

(* ======================================================================== *)
(* Part B.1: the decoder on a readable DAQmx segment                        *)
(* ======================================================================== *)

Lemma tds_size_pos dt sz : tds_size dt = Some (Some sz) -> 0 < sz.
Proof.
  unfold tds_size.
  repeat match goal with
         | |- (if ?c then _ else _) = _ -> _ => destruct c
         end; intros H; try discriminate; injection H as <-; lia.
Qed.

(* ---- success ---- *)

Definition fits_width (kind : Z) (s : scaler) (w : Z) : Prop :=
  exists dt sz, daqmx_type (sc_type s) = Some dt /\ tds_size dt = Some (Some sz) /\
                (if kind =? DIGITAL_LINE_SCALER then sc_off s / 8 else sc_off s) + sz <= w.

Lemma scaler_values_fits e kind s rows w :
  fits_width kind s w -> exists vs, scaler_values e kind s rows w = Ok vs.
Proof.
  intros (dt & sz & Hdt & Hsz & Hf). apply (scaler_values_ok_iff e kind s rows w dt sz Hdt Hsz). exact Hf.
Qed.

Lemma obj_scalers_succeeds e o q bi rows w : forall scalers data sd,
    (forall s, In s scalers -> sc_buf s = bi -> fits_width (dq_kind q) s w) ->
    exists d' s', daqmx_obj_scalers e o q bi rows w scalers data sd = Ok (d', s').
Proof.
  induction scalers as [|s r IH]; intros data sd Hf; cbn [daqmx_obj_scalers].
  - eexists. eexists. reflexivity.
  - assert (Hf' : forall s0, In s0 r -> sc_buf s0 = bi -> fits_width (dq_kind q) s0 w).
    { intros s0 Hin. apply Hf. right. exact Hin. }
    destruct (sc_buf s =? bi) eqn:Eb; cbn [negb]; [|apply IH; exact Hf'].
    destruct (scaler_values_fits e (dq_kind q) s rows w) as [vs Hvs].
    { apply Hf; [left; reflexivity|lia]. }
    rewrite Hvs. cbn [bind]. destruct (oz_eqb (so_dtype o) (Some T_DAQMX)); apply IH; exact Hf'.
Qed.

Lemma buffer_objs_succeeds e bi rows w : forall objs data sd,
    (forall o, In o objs -> exists q, so_daqmx o = Some q /\
               forall s, In s (dq_scalers q) -> sc_buf s = bi -> fits_width (dq_kind q) s w) ->
    exists d' s', daqmx_buffer_objs e objs bi rows w data sd = Ok (d', s').
Proof.
  induction objs as [|o r IH]; intros data sd Hf; cbn [daqmx_buffer_objs].
  - eexists. eexists. reflexivity.
  - destruct (Hf o (or_introl eq_refl)) as (q & Hq & Hs). rewrite Hq.
    destruct (obj_scalers_succeeds e o q bi rows w (dq_scalers q) data sd Hs) as (d1 & s1 & H1).
    rewrite H1. cbn [bind]. apply IH. intros o' Hin. apply Hf. right. exact Hin.
Qed.

Lemma buffers_succeeds e objs : forall dims bi cur data sd,
    (forall o, In o objs -> exists q, so_daqmx o = Some q /\
               forall s k n w, In s (dq_scalers q) -> nth_error dims k = Some (n, w) ->
                               sc_buf s = bi + Z.of_nat k -> fits_width (dq_kind q) s w) ->
    exists d' s' cur', daqmx_buffers e objs dims bi cur data sd = Ok (d', s', cur').
Proof.
  induction dims as [|[n w] r IH]; intros bi cur data sd Hf; cbn [daqmx_buffers].
  - eexists. eexists. eexists. reflexivity.
  - destruct (read_rows w n cur) as [rows cur1].
    destruct (buffer_objs_succeeds e bi rows w objs data sd) as (d1 & s1 & H1).
    { intros o Ho. destruct (Hf o Ho) as (q & Hq & Hs). exists q. split; [exact Hq|].
      intros s Hin Hb. apply (Hs s 0%nat n w Hin); [reflexivity|lia]. }
    rewrite H1. cbn [bind]. apply IH.
    intros o Ho. destruct (Hf o Ho) as (q & Hq & Hs). exists q. split; [exact Hq|].
    intros s k n0 w0 Hin Hk Hb. apply (Hs s (S k) n0 w0 Hin); [exact Hk|lia].
Qed.

Lemma read_chunks_loop_succeeds (rd : Z -> bytes -> res (chunk * bytes)) :
  (forall ci cur, exists c cur', rd ci cur = Ok (c, cur')) ->
  forall fuel ci n cur,
    (Z.to_nat (n - ci) <= fuel)%nat ->
    exists cs cur', read_chunks_loop fuel rd ci n cur = Ok (cs, cur') /\ length cs = Z.to_nat (n - ci).
Proof.
  intros Hrd. induction fuel as [|f IH]; intros ci n cur Hfuel; cbn [read_chunks_loop].
  - destruct (n <=? ci) eqn:E; [|lia]. exists [], cur. split; [reflexivity|]. cbn [length]. lia.
  - destruct (n <=? ci) eqn:E.
    + exists [], cur. split; [reflexivity|]. cbn [length]. lia.
    + destruct (Hrd ci cur) as (c & cur1 & Hc). rewrite Hc. cbn [bind].
      destruct (IH (ci + 1) n cur1) as (cs & cur2 & Hcs & Hlen); [lia|].
      rewrite Hcs. cbn [bind]. exists (c :: cs), cur2. split; [reflexivity|]. cbn [length]. lia.
Qed.

(* ---- shape of a decoded chunk ---- *)

(* (k, id): some object with path k has a scaler with scale id [id] *)
Definition sid_ok (objs : list sobj) (k : bytes) (id : Z) : Prop :=
  exists o q s, In o objs /\ so_path o = k /\ so_daqmx o = Some q /\ In s (dq_scalers q) /\ sc_id s = id.

Definition sentry_ok (objs : list sobj) (kd : bytes * cdata) : Prop :=
  exists l o, snd kd = CScalers l /\ In o objs /\ so_path o = fst kd /\ so_dtype o = Some T_DAQMX /\
              NoDup (map fst l) /\ forall iv, In iv l -> sid_ok objs (fst kd) (fst iv).

Definition dentry_ok (objs : list sobj) (kd : bytes * cdata) : Prop :=
  exists vs o, snd kd = CData vs /\ In o objs /\ so_path o = fst kd /\ so_dtype o <> Some T_DAQMX.

Lemma Forall_aset {V} (P : bytes * V -> Prop) k v (l : alist V) :
  Forall P l -> P (k, v) -> Forall P (aset k v l).
Proof.
  induction 1 as [|[k' v'] r Hx Hr IH]; intros Hp; cbn [aset].
  - constructor; [exact Hp|constructor].
  - destruct (bytes_eqb k k') eqn:E.
    + apply bytes_eqb_eq in E. subst k'. constructor; assumption.
    + constructor; [exact Hx|apply IH; exact Hp].
Qed.

Lemma zupd_in id vs l iv : In iv (zupd id vs l) -> fst iv = id \/ In iv l.
Proof.
  induction l as [|[k v] r IH]; cbn [zupd].
  - intros [<-|[]]. left. reflexivity.
  - destruct (k =? id) eqn:E.
    + intros [<-|H]; [left; cbn [fst]; lia|right; right; exact H].
    + intros [<-|H]; [right; left; reflexivity|]. destruct (IH H); [left|right; right]; assumption.
Qed.

Lemma zupd_nodup id vs l : NoDup (map fst l) -> NoDup (map fst (zupd id vs l)).
Proof.
  induction l as [|[k v] r IH]; cbn [zupd map fst]; intros H.
  - constructor; [intros []|constructor].
  - inversion H as [|x y Hnin Hnd]; subst x y. destruct (k =? id) eqn:E; cbn [map fst].
    + constructor; assumption.
    + constructor; [|apply IH; exact Hnd]. intros Hin. apply in_map_iff in Hin.
      destruct Hin as (iv & Hk & Hin). apply zupd_in in Hin. destruct Hin as [Hid|Hin]; [lia|].
      apply Hnin. rewrite <- Hk. apply in_map. exact Hin.
Qed.

Definition shape_ok (all : list sobj) (data sd : chunk) : Prop :=
  Forall (sentry_ok all) sd /\ Forall (dentry_ok all) data /\
  NoDup (map fst sd) /\ NoDup (map fst data).

Lemma obj_scalers_shape all e o q bi rows w : forall scalers data sd d' s',
    daqmx_obj_scalers e o q bi rows w scalers data sd = Ok (d', s') ->
    In o all -> so_daqmx o = Some q -> incl scalers (dq_scalers q) ->
    shape_ok all data sd -> shape_ok all d' s'.
Proof.
  induction scalers as [|s r IH]; intros data sd d' s' H Hin Hq Hincl Hsh; cbn [daqmx_obj_scalers] in H.
  - injection H as <- <-. exact Hsh.
  - assert (Hincl' : incl r (dq_scalers q)) by (intros x Hx; apply Hincl; right; exact Hx).
    destruct (negb (sc_buf s =? bi)); [exact (IH _ _ _ _ H Hin Hq Hincl' Hsh)|].
    destruct (scaler_values e (dq_kind q) s rows w) as [vs|]; cbn [bind] in H; [|discriminate].
    destruct Hsh as (Hs & Hd & Hns & Hnd).
    destruct (oz_eqb (so_dtype o) (Some T_DAQMX)) eqn:Ed.
    + apply oz_eqb_true in Ed. refine (IH _ _ _ _ H Hin Hq Hincl' _).
      split; [|split; [exact Hd|split; [apply aset_NoDup; exact Hns|exact Hnd]]].
      apply Forall_aset; [exact Hs|]. rewrite cdata_set_scaler_eq.
      assert (Hnew : sid_ok all (so_path o) (sc_id s)).
      { exists o, q, s. repeat split; try assumption. apply Hincl. left. reflexivity. }
      destruct (alookup (so_path o) sd) as [[vals|l]|] eqn:El.
      * eexists. exists o. cbn [fst snd]. repeat split; try assumption; try reflexivity.
        -- cbn [map fst]. constructor; [intros []|constructor].
        -- intros iv [<-|[]]. exact Hnew.
      * apply alookup_In in El. rewrite Forall_forall in Hs.
        destruct (Hs _ El) as (l0 & o0 & Hl0 & _ & _ & _ & Hnd0 & Hids0). cbn [fst snd] in *.
        injection Hl0 as <-.
        eexists. exists o. cbn [fst snd]. repeat split; try assumption; try reflexivity.
        -- apply zupd_nodup. exact Hnd0.
        -- intros iv Hiv. apply zupd_in in Hiv. destruct Hiv as [->|Hiv]; [exact Hnew|exact (Hids0 iv Hiv)].
      * eexists. exists o. cbn [fst snd]. repeat split; try assumption; try reflexivity.
        -- cbn [map fst]. constructor; [intros []|constructor].
        -- intros iv [<-|[]]. exact Hnew.
    + refine (IH _ _ _ _ H Hin Hq Hincl' _).
      split; [exact Hs|split; [|split; [exact Hns|apply aset_NoDup; exact Hnd]]].
      apply Forall_aset; [exact Hd|]. exists vs, o. cbn [fst snd]. repeat split; try assumption; try reflexivity.
      intros E. rewrite E in Ed. cbn [oz_eqb] in Ed. rewrite Z.eqb_refl in Ed. discriminate.
Qed.

Lemma buffer_objs_shape all e bi rows w : forall objs data sd d' s',
    daqmx_buffer_objs e objs bi rows w data sd = Ok (d', s') ->
    incl objs all -> shape_ok all data sd -> shape_ok all d' s'.
Proof.
  induction objs as [|o r IH]; intros data sd d' s' H Hincl Hsh; cbn [daqmx_buffer_objs] in H.
  - injection H as <- <-. exact Hsh.
  - destruct (so_daqmx o) as [q|] eqn:Hq; [|discriminate].
    destruct (daqmx_obj_scalers e o q bi rows w (dq_scalers q) data sd) as [[d1 s1]|] eqn:E1;
      cbn [bind] in H; [|discriminate].
    refine (IH _ _ _ _ H _ _).
    + intros x Hx. apply Hincl. right. exact Hx.
    + apply (obj_scalers_shape all e o q bi rows w _ _ _ _ _ E1); try assumption.
      * apply Hincl. left. reflexivity.
      * apply incl_refl.
Qed.

Lemma buffers_shape e objs : forall dims bi cur data sd d' s' cur',
    daqmx_buffers e objs dims bi cur data sd = Ok (d', s', cur') ->
    shape_ok objs data sd -> shape_ok objs d' s'.
Proof.
  induction dims as [|[n w] r IH]; intros bi cur data sd d' s' cur' H Hsh; cbn [daqmx_buffers] in H.
  - injection H as <- <- <-. exact Hsh.
  - destruct (read_rows w n cur) as [rows cur1].
    destruct (daqmx_buffer_objs e objs bi rows w data sd) as [[d1 s1]|] eqn:E1;
      cbn [bind] in H; [|discriminate].
    apply (IH _ _ _ _ _ _ _ H).
    apply (buffer_objs_shape objs e bi rows w objs _ _ _ _ E1); [apply incl_refl|exact Hsh].
Qed.

Definition chunk_shape (objs : list sobj) (c : chunk) : Prop :=
  NoDup (map fst c) /\ Forall (fun kd => sentry_ok objs kd \/ dentry_ok objs kd) c.

Lemma merge_forall (P : bytes * cdata -> Prop) : forall (s d : chunk),
    Forall P s -> Forall P d -> Forall P (fold_left (fun acc kv => aset (fst kv) (snd kv) acc) s d).
Proof.
  induction s as [|[k v] r IH]; intros d Hs Hd; [exact Hd|].
  inversion Hs as [|x l Hx Hr]; subst x l. cbn [fold_left fst snd].
  apply IH; [exact Hr|]. apply Forall_aset; assumption.
Qed.

Lemma merge_nodup : forall (s d : chunk),
    NoDup (map fst d) -> NoDup (map fst (fold_left (fun acc kv => aset (fst kv) (snd kv) acc) s d)).
Proof.
  induction s as [|[k v] r IH]; intros d Hd; [exact Hd|].
  cbn [fold_left fst snd]. apply IH. apply aset_NoDup. exact Hd.
Qed.

Lemma read_daqmx_chunk_shape e objs cur c cur1 :
  read_daqmx_chunk e objs cur = Ok (c, cur1) -> chunk_shape objs c.
Proof.
  unfold read_daqmx_chunk. intros H.
  destruct (buffer_dims objs) as [dims|]; cbn [bind] in H; [|discriminate].
  destruct (daqmx_buffers e objs dims 0 cur [] []) as [[[d1 s1] cur1']|] eqn:E1;
    cbn [bind] in H; [|discriminate].
  injection H as <- <-.
  destruct (buffers_shape e objs dims 0 cur [] [] d1 s1 cur1' E1) as (Hs & Hd & Hns & Hnd).
  { repeat split; constructor. }
  split; [apply merge_nodup; exact Hnd|].
  apply merge_forall.
  - eapply Forall_impl; [|exact Hs]. intros kd Hkd. left. exact Hkd.
  - eapply Forall_impl; [|exact Hd]. intros kd Hkd. right. exact Hkd.
Qed.

Lemma read_daqmx_chunk_succeeds e objs dims cur :
  buffer_dims objs = Ok dims ->
  (forall o, In o objs -> exists q, so_daqmx o = Some q /\
             forall s k n w, In s (dq_scalers q) -> nth_error dims k = Some (n, w) ->
                             sc_buf s = Z.of_nat k -> fits_width (dq_kind q) s w) ->
  exists c cur', read_daqmx_chunk e objs cur = Ok (c, cur').
Proof.
  intros Hd Hf. unfold read_daqmx_chunk. rewrite Hd. cbn [bind].
  destruct (buffers_succeeds e objs dims 0 cur [] []) as (d1 & s1 & cur1 & H1).
  { intros o Ho. destruct (Hf o Ho) as (q & Hq & Hs). exists q. split; [exact Hq|].
    intros s k n w Hin Hk Hb. apply (Hs s k n w Hin Hk). lia. }
  rewrite H1. cbn [bind]. eexists. eexists. reflexivity.
Qed.

(* ---- values a chunk holds, by path and by (path, scale id) ---- *)

Definition sc_entry_values (id : Z) (iv : Z * list bytes) : list bytes :=
  if fst iv =? id then snd iv else [].

Definition entry_scaler_values (path : bytes) (id : Z) (kv : bytes * cdata) : list bytes :=
  if bytes_eqb path (fst kv)
  then match snd kv with CScalers l => flat_map (sc_entry_values id) l | CData _ => [] end
  else [].

(* the values chunk [c] holds under [path] for scale id [id] *)
Definition chunk_scaler_values (path : bytes) (id : Z) (c : chunk) : list bytes :=
  flat_map (entry_scaler_values path id) c.

(* file-order concatenation over a list of chunks *)
Definition chan_scaler_values (path : bytes) (id : Z) (chunks : list chunk) : list bytes :=
  flat_map (chunk_scaler_values path id) chunks.

Lemma flat_map_all_nil {A B} (f : A -> list B) (l : list A) :
  (forall x, In x l -> f x = []) -> flat_map f l = [].
Proof.
  induction l as [|a l IH]; intros H; [reflexivity|]. cbn [flat_map].
  rewrite (H a (or_introl eq_refl)), IH; [reflexivity|]. intros x Hx. apply H. right. exact Hx.
Qed.

Lemma flat_map_unique {A K B} (key : A -> K) (f : A -> list B) (l : list A) (x : A) :
  NoDup (map key l) -> In x l ->
  (forall y, In y l -> key y <> key x -> f y = []) -> flat_map f l = f x.
Proof.
  induction l as [|a l IH]; intros Hnd Hin Hf; [contradiction|].
  cbn [map] in Hnd. inversion Hnd as [|k ks Hnin Hnd']; subst k ks. cbn [flat_map].
  destruct Hin as [->|Hin].
  - rewrite flat_map_all_nil; [apply app_nil_r|]. intros y Hy. apply Hf; [right; exact Hy|].
    intros E. apply Hnin. rewrite <- E. apply in_map. exact Hy.
  - rewrite (Hf a (or_introl eq_refl)).
    + cbn [app]. apply IH; [exact Hnd'|exact Hin|]. intros y Hy. apply Hf. right. exact Hy.
    + intros E. apply Hnin. rewrite E. apply in_map. exact Hin.
Qed.

Lemma flat_map_flat_map {A B C} (f : A -> list B) (g : B -> list C) (l : list A) :
  flat_map g (flat_map f l) = flat_map (fun x => flat_map g (f x)) l.
Proof.
  induction l as [|a l IH]; [reflexivity|]. cbn [flat_map]. rewrite flat_map_app, IH. reflexivity.
Qed.

Lemma flat_map_map {A B C} (g : A -> B) (f : B -> list C) (l : list A) :
  flat_map f (map g l) = flat_map (fun x => f (g x)) l.
Proof. induction l as [|a l IH]; [reflexivity|]. cbn [map flat_map]. rewrite IH. reflexivity. Qed.

Lemma zfind_In id l vs : zfind id l = Some vs -> In (id, vs) l.
Proof.
  induction l as [|[k v] r IH]; cbn [zfind]; [discriminate|].
  destruct (k =? id) eqn:E.
  - intros H. injection H as <-. left. f_equal. lia.
  - intros H. right. apply IH. exact H.
Qed.

Lemma sc_values_notin id l : ~ In id (map fst l) -> flat_map (sc_entry_values id) l = [].
Proof.
  intros H. apply flat_map_all_nil. intros [k v] Hin. unfold sc_entry_values. cbn [fst snd].
  destruct (k =? id) eqn:E; [|reflexivity]. exfalso. apply H.
  replace id with k by lia. apply (in_map fst l (k, v)). exact Hin.
Qed.

Lemma sc_values_zfind id l :
  NoDup (map fst l) ->
  flat_map (sc_entry_values id) l = match zfind id l with Some vs => vs | None => [] end.
Proof.
  induction l as [|[k v] r IH]; intros Hnd; [reflexivity|].
  cbn [map fst] in Hnd. inversion Hnd as [|x y Hnin Hnd']; subst x y.
  cbn [flat_map zfind]. unfold sc_entry_values at 1. cbn [fst snd].
  destruct (k =? id) eqn:E.
  - rewrite sc_values_notin; [apply app_nil_r|]. replace id with k by lia. exact Hnin.
  - cbn [app]. apply IH. exact Hnd'.
Qed.

Lemma chunk_scaler_values_cons p id k d c :
  chunk_scaler_values p id ((k, d) :: c) = entry_scaler_values p id (k, d) ++ chunk_scaler_values p id c.
Proof. reflexivity. Qed.

Lemma chunk_scaler_values_not_in p id (c : chunk) :
  ~ In p (map fst c) -> chunk_scaler_values p id c = [].
Proof.
  intros H. apply flat_map_all_nil. intros [k d] Hin. unfold entry_scaler_values. cbn [fst snd].
  destruct (bytes_eqb p k) eqn:E; [|reflexivity]. apply bytes_eqb_eq in E. subst k.
  exfalso. apply H. apply (in_map fst c (p, d)). exact Hin.
Qed.

Lemma chunk_scaler_values_lookup p id (c : chunk) :
  NoDup (map fst c) ->
  chunk_scaler_values p id c =
  match alookup p c with Some (CScalers l) => flat_map (sc_entry_values id) l | _ => [] end.
Proof.
  induction c as [|[k d] c IH]; intros Hnd; [reflexivity|].
  cbn [map fst] in Hnd. inversion Hnd as [|x y Hnin Hnd']; subst x y.
  rewrite chunk_scaler_values_cons. unfold entry_scaler_values. cbn [fst snd alookup].
  destruct (bytes_eqb p k) eqn:E.
  - apply bytes_eqb_eq in E. subst k. rewrite (chunk_scaler_values_not_in p id c Hnin), app_nil_r.
    destruct d; reflexivity.
  - cbn [app]. apply IH. exact Hnd'.
Qed.

(* two chunks hold the same values under every path and every (path, scale id) *)
Definition chunk_ext (c c' : chunk) : Prop :=
  forall p, chunk_values p c = chunk_values p c' /\
            forall id, chunk_scaler_values p id c = chunk_scaler_values p id c'.

Lemma path_in_dec (p : bytes) (objs : list sobj) :
  (exists o, In o objs /\ so_path o = p) \/ (forall o, In o objs -> so_path o <> p).
Proof.
  induction objs as [|o objs IH].
  - right. intros o [].
  - destruct (bytes_eqb (so_path o) p) eqn:E.
    + apply bytes_eqb_eq in E. left. exists o. split; [left; reflexivity|exact E].
    + apply bytes_eqb_neq in E. destruct IH as [(o' & Ho' & Hp)|Habs].
      * left. exists o'. split; [right; exact Ho'|exact Hp].
      * right. intros o' [<-|Ho']; [exact E|exact (Habs o' Ho')].
Qed.

(* ---- the specification chunk, evaluated ---- *)

Lemma direct_entries_other e dims data j o p :
  so_path o <> p ->
  chunk_values p (direct_obj_entries e dims data j o) = [] /\
  forall id, chunk_scaler_values p id (direct_obj_entries e dims data j o) = [].
Proof.
  intros Hne. assert (E : bytes_eqb p (so_path o) = false).
  { apply bytes_eqb_neq. intros H. apply Hne. symmetry. exact H. }
  unfold direct_obj_entries. destruct (so_daqmx o) as [q|]; [|split; reflexivity].
  destruct (oz_eqb (so_dtype o) (Some T_DAQMX)).
  - split; [|intros id]; cbn [chunk_values chunk_scaler_values flat_map];
      unfold entry_values, entry_scaler_values; cbn [fst snd]; rewrite E; reflexivity.
  - split; [|intros id].
    + unfold chunk_values. rewrite flat_map_map. apply flat_map_all_nil. intros s _.
      unfold entry_values. cbn [fst snd]. rewrite E. reflexivity.
    + unfold chunk_scaler_values. rewrite flat_map_map. apply flat_map_all_nil. intros s _.
      unfold entry_scaler_values. cbn [fst snd]. rewrite E. reflexivity.
Qed.

Lemma direct_entries_raw e dims data j o q :
  so_daqmx o = Some q -> so_dtype o = Some T_DAQMX ->
  chunk_values (so_path o) (direct_obj_entries e dims data j o) = [] /\
  forall id, chunk_scaler_values (so_path o) id (direct_obj_entries e dims data j o) =
             flat_map (fun s => if sc_id s =? id
                                then direct_scaler_chunk e (dq_kind q) dims data j s else [])
                      (dq_scalers q).
Proof.
  intros Hq Hdt. unfold direct_obj_entries. rewrite Hq, Hdt.
  change (oz_eqb (Some T_DAQMX) (Some T_DAQMX)) with true. cbv iota.
  split; [|intros id]; cbn [chunk_values chunk_scaler_values flat_map];
    unfold entry_values, entry_scaler_values; cbn [fst snd]; rewrite bytes_eqb_refl.
  - reflexivity.
  - rewrite app_nil_r, flat_map_map. reflexivity.
Qed.

Lemma direct_entries_typed e dims data j o q s dt :
  so_daqmx o = Some q -> so_dtype o = Some dt -> dt <> T_DAQMX -> dq_scalers q = [s] ->
  chunk_values (so_path o) (direct_obj_entries e dims data j o)
  = direct_scaler_chunk e (dq_kind q) dims data j s /\
  forall id, chunk_scaler_values (so_path o) id (direct_obj_entries e dims data j o) = [].
Proof.
  intros Hq Hdt Hne Hs. unfold direct_obj_entries. rewrite Hq, Hdt, Hs. cbn [oz_eqb].
  replace (dt =? T_DAQMX) with false by lia. cbn [map].
  split; [|intros id]; cbn [chunk_values chunk_scaler_values flat_map];
    unfold entry_values, entry_scaler_values; cbn [fst snd]; rewrite bytes_eqb_refl.
  - apply app_nil_r.
  - reflexivity.
Qed.

Lemma chunk_values_direct_chunk e dobjs dims data j p :
  chunk_values p (direct_chunk e dobjs dims data j)
  = flat_map (fun o => chunk_values p (direct_obj_entries e dims data j o)) dobjs.
Proof. unfold direct_chunk, chunk_values. apply flat_map_flat_map. Qed.

Lemma chunk_scaler_values_direct_chunk e dobjs dims data j p id :
  chunk_scaler_values p id (direct_chunk e dobjs dims data j)
  = flat_map (fun o => chunk_scaler_values p id (direct_obj_entries e dims data j o)) dobjs.
Proof. unfold direct_chunk, chunk_scaler_values. apply flat_map_flat_map. Qed.

Definition obj_kind_ok (o : sobj) : Prop :=
  exists q, so_daqmx o = Some q /\ NoDup (map sc_id (dq_scalers q)) /\
            (so_dtype o = Some T_DAQMX \/
             exists s dt, dq_scalers q = [s] /\ so_dtype o = Some dt /\ dt <> T_DAQMX).

(* a decoded chunk that files the specified values under every (object, scaler)
   and has nothing else holds the same values as the specification chunk *)
Lemma chunk_ext_direct e dobjs dims data j c :
  NoDup (map so_path dobjs) ->
  Forall obj_kind_ok dobjs ->
  chunk_shape dobjs c ->
  (forall o q s, In o dobjs -> so_daqmx o = Some q -> so_dtype o = Some T_DAQMX ->
                 In s (dq_scalers q) ->
                 holds (so_path o) (sc_id s) (direct_scaler_chunk e (dq_kind q) dims data j s) c) ->
  (forall o q s dt, In o dobjs -> so_daqmx o = Some q -> so_dtype o = Some dt -> dt <> T_DAQMX ->
                    dq_scalers q = [s] ->
                    alookup (so_path o) c
                    = Some (CData (direct_scaler_chunk e (dq_kind q) dims data j s))) ->
  chunk_ext c (direct_chunk e dobjs dims data j).
Proof.
  intros Hnd Hkinds [Hcnd Hcent] Hraw Htyped p.
  rewrite Forall_forall in Hcent.
  destruct (path_in_dec p dobjs) as [(o & Ho & Hp)|Habs].
  - subst p. rewrite Forall_forall in Hkinds. destruct (Hkinds o Ho) as (q & Hq & Hids & Hkind).
    assert (Hspec_v : chunk_values (so_path o) (direct_chunk e dobjs dims data j)
                      = chunk_values (so_path o) (direct_obj_entries e dims data j o)).
    { rewrite chunk_values_direct_chunk.
      apply (flat_map_unique so_path
               (fun o0 => chunk_values (so_path o) (direct_obj_entries e dims data j o0)) dobjs o);
        [exact Hnd|exact Ho|].
      intros y _ Hne. exact (proj1 (direct_entries_other e dims data j y (so_path o) Hne)). }
    assert (Hspec_s : forall id, chunk_scaler_values (so_path o) id (direct_chunk e dobjs dims data j)
                                 = chunk_scaler_values (so_path o) id (direct_obj_entries e dims data j o)).
    { intros id. rewrite chunk_scaler_values_direct_chunk.
      apply (flat_map_unique so_path
               (fun o0 => chunk_scaler_values (so_path o) id (direct_obj_entries e dims data j o0)) dobjs o);
        [exact Hnd|exact Ho|].
      intros y _ Hne. exact (proj2 (direct_entries_other e dims data j y (so_path o) Hne) id). }
    destruct Hkind as [Hdt | (s & dt & Hs & Hdt & Hne)].
    + (* DaqMxRawData channel *)
      destruct (direct_entries_raw e dims data j o q Hq Hdt) as [Hv Hsv].
      split.
      * rewrite Hspec_v, Hv, (chunk_values_lookup _ _ Hcnd).
        destruct (alookup (so_path o) c) as [[vs|l]|] eqn:El; try reflexivity.
        exfalso. apply alookup_In in El.
        destruct (Hcent _ El) as [(l0 & o0 & Hl0 & _)|(vs0 & o0 & _ & Ho0 & Hp0 & Hdt0)];
          cbn [fst snd] in *; [discriminate|].
        assert (o0 = o) by (eapply (NoDup_map_inj so_path); eassumption). subst o0. contradiction.
      * intros id. rewrite Hspec_s, Hsv, (chunk_scaler_values_lookup _ _ _ Hcnd).
        destruct (in_dec Z.eq_dec id (map sc_id (dq_scalers q))) as [Hin|Hnin].
        -- apply in_map_iff in Hin. destruct Hin as (s & Hsid & Hs).
           destruct (Hraw o q s Ho Hq Hdt Hs) as (l & Hl & Hf). rewrite Hl.
           assert (Hndl : NoDup (map fst l)).
           { apply alookup_In in Hl.
             destruct (Hcent _ Hl) as [(l0 & o0 & Hl0 & _ & _ & _ & Hnd0 & _)|(vs0 & o0 & Hv0 & _)];
               cbn [fst snd] in *; [|discriminate]. injection Hl0 as <-. exact Hnd0. }
           rewrite (sc_values_zfind _ _ Hndl). rewrite <- Hsid, Hf.
           symmetry. rewrite (flat_map_unique sc_id _ _ s Hids Hs).
           ++ rewrite Z.eqb_refl. reflexivity.
           ++ intros y _ Hy. replace (sc_id y =? sc_id s) with false by lia. reflexivity.
        -- rewrite (flat_map_all_nil _ (dq_scalers q)).
           2:{ intros s Hs. destruct (sc_id s =? id) eqn:E; [|reflexivity].
               exfalso. apply Hnin. replace id with (sc_id s) by lia. apply in_map. exact Hs. }
           destruct (alookup (so_path o) c) as [[vs|l]|] eqn:El; try reflexivity.
           apply alookup_In in El.
           destruct (Hcent _ El) as [(l0 & o0 & Hl0 & _ & _ & _ & Hnd0 & Hids0)|(vs0 & o0 & Hv0 & _)];
             cbn [fst snd] in *; [|discriminate]. injection Hl0 as <-.
           rewrite (sc_values_zfind _ _ Hnd0). destruct (zfind id l) as [vs|] eqn:Ez; [|reflexivity].
           exfalso. apply zfind_In in Ez. destruct (Hids0 _ Ez) as (o' & q' & s' & Ho' & Hp' & Hq' & Hs' & Hid').
           cbn [fst] in Hid'.
           assert (o' = o) by (eapply (NoDup_map_inj so_path); eassumption). subst o'.
           rewrite Hq in Hq'. injection Hq' as <-. apply Hnin. rewrite <- Hid'. apply in_map. exact Hs'.
    + (* channel typed by its single scaler *)
      destruct (direct_entries_typed e dims data j o q s dt Hq Hdt Hne Hs) as [Hv Hsv].
      pose proof (Htyped o q s dt Ho Hq Hdt Hne Hs) as Hl.
      split.
      * rewrite Hspec_v, Hv, (chunk_values_lookup _ _ Hcnd), Hl. reflexivity.
      * intros id. rewrite Hspec_s, Hsv, (chunk_scaler_values_lookup _ _ _ Hcnd), Hl. reflexivity.
  - (* no object under this path *)
    assert (Hnone : alookup p c = None).
    { destruct (alookup p c) as [d|] eqn:El; [|reflexivity]. exfalso. apply alookup_In in El.
      destruct (Hcent _ El) as [(l0 & o0 & _ & Ho0 & Hp0 & _)|(vs0 & o0 & _ & Ho0 & Hp0 & _)];
        cbn [fst snd] in *; exact (Habs o0 Ho0 Hp0). }
    split.
    + rewrite (chunk_values_lookup _ _ Hcnd), Hnone, chunk_values_direct_chunk. symmetry.
      apply flat_map_all_nil. intros y Hy.
      exact (proj1 (direct_entries_other e dims data j y p (Habs y Hy))).
    + intros id. rewrite (chunk_scaler_values_lookup _ _ _ Hcnd), Hnone, chunk_scaler_values_direct_chunk.
      symmetry. apply flat_map_all_nil. intros y Hy.
      exact (proj2 (direct_entries_other e dims data j y p (Habs y Hy)) id).
Qed.

(* ---- the decoded chunks of a readable DAQmx segment ---- *)

Lemma read_at_app_fit pos n (a b : bytes) :
  0 <= pos -> 0 <= n -> pos + n <= blen a -> read_at pos n (a ++ b) = read_at pos n a.
Proof.
  intros Hp Hn Hfit. unfold read_at. rewrite !take_firstn, !drop_skipn. unfold blen in Hfit.
  rewrite skipn_app. replace (Z.to_nat pos - length a)%nat with 0%nat by lia. cbn [skipn].
  rewrite firstn_app.
  replace (Z.to_nat n - length (skipn (Z.to_nat pos) a))%nat with 0%nat by (rewrite skipn_length; lia).
  cbn [firstn]. apply app_nil_r.
Qed.

Lemma scaler_value_at_app e kind s dt sz base w (data rest : bytes) i :
  0 <= base -> 0 <= w -> 0 <= sc_off s -> 0 <= sz ->
  (if kind =? DIGITAL_LINE_SCALER then sc_off s / 8 else sc_off s) + sz <= w ->
  base + (Z.of_nat i + 1) * w <= blen data ->
  scaler_value_at e kind s dt sz base w (data ++ rest) i = scaler_value_at e kind s dt sz base w data i.
Proof.
  intros Hb Hw Hoff Hsz Hfit Hrow. unfold scaler_value_at.
  assert (Hoff8 : 0 <= sc_off s / 8) by (apply Z.div_pos; lia).
  destruct (kind =? DIGITAL_LINE_SCALER).
  - rewrite read_at_app_fit by nia. reflexivity.
  - rewrite read_at_app_fit by nia. reflexivity.
Qed.

Lemma nth_error_seq : forall n s k, (k < n)%nat -> nth_error (seq s n) k = Some (s + k)%nat.
Proof.
  induction n as [|n IH]; intros s k Hk; [lia|]. destruct k as [|k]; cbn [seq nth_error].
  - f_equal. lia.
  - rewrite IH by lia. f_equal. lia.
Qed.

Lemma list_eq_map_seq {A} (f : nat -> A) (vs : list A) (n : nat) :
  length vs = n -> (forall i, (i < n)%nat -> nth_error vs i = Some (f i)) -> vs = map f (seq 0 n).
Proof.
  intros Hl Hnth. apply nth_error_ext. intros k. rewrite nth_error_map.
  destruct (lt_dec k n) as [Hk|Hk].
  - rewrite (Hnth k Hk), (nth_error_seq n 0 k Hk). reflexivity.
  - replace (nth_error vs k) with (@None A) by (symmetry; apply nth_error_None; lia).
    replace (nth_error (seq 0 n) k) with (@None nat)
      by (symmetry; apply nth_error_None; rewrite seq_length; lia).
    reflexivity.
Qed.

Lemma Forall2_nth_error {A B} (R : A -> B -> Prop) : forall (a : list A) (b : list B),
    length a = length b ->
    (forall j x y, nth_error a j = Some x -> nth_error b j = Some y -> R x y) ->
    Forall2 R a b.
Proof.
  induction a as [|x a IH]; intros [|y b] Hl H; try discriminate; constructor.
  - exact (H 0%nat x y eq_refl eq_refl).
  - apply IH; [cbn [length] in Hl; lia|]. intros j x' y' Hx Hy. exact (H (S j) x' y' Hx Hy).
Qed.

Lemma chunk_bytes_cons n w r : chunk_bytes ((n, w) :: r) = w * n + chunk_bytes r.
Proof. reflexivity. Qed.

Lemma buffer_base_le dims :
  Forall (fun d => 0 <= fst d /\ 0 <= snd d) dims ->
  forall k n w, nth_error dims k = Some (n, w) -> buffer_base dims k + w * n <= chunk_bytes dims.
Proof.
  induction 1 as [|[n0 w0] r [Hn0 Hw0] Hr IH]; intros k n w Hk; [destruct k; discriminate|].
  cbn [fst snd] in Hn0, Hw0. rewrite chunk_bytes_cons.
  pose proof (chunk_bytes_nonneg r Hr) as Hcb.
  destruct k as [|k].
  - cbn [nth_error] in Hk. injection Hk as -> ->. change (buffer_base ((n, w) :: r) 0) with 0. lia.
  - cbn [nth_error] in Hk. rewrite buffer_base_S. specialize (IH k n w Hk). lia.
Qed.

(* the chunk count also bounds the fuel of the chunk loop *)
Lemma daqmx_seg_ok_nchunks_le g data :
  daqmx_seg_ok g data ->
  calculate_chunks (sg_toc g) (sg_incomplete g) (sg_objs g) (blen data) = Ok (sg_nchunks g, sg_final g) ->
  sg_nchunks g <= blen data.
Proof.
  intros Hok Hcc. destruct (daqmx_seg_ok_nchunks g data Hok Hcc) as (_ & Hn & Hlen & Hdn).
  destruct (daqmx_seg_ok_dims g data Hok) as [_ Hnn].
  pose proof (chunk_bytes_nonneg _ Hnn) as Hcb.
  unfold direct_nchunks in Hdn.
  destruct (chunk_bytes (dims_spec (data_objs (sg_objs g))) =? 0) eqn:E; [lia|nia].
Qed.

Lemma daqmx_seg_ok_obj g data o :
  daqmx_seg_ok g data -> In o (data_objs (sg_objs g)) -> daqmx_obj_ok (data_objs (sg_objs g)) o.
Proof. intros (_ & _ & _ & H & _) Ho. rewrite Forall_forall in H. exact (H o Ho). Qed.

Lemma daqmx_seg_ok_kinds g data :
  daqmx_seg_ok g data -> Forall obj_kind_ok (data_objs (sg_objs g)).
Proof.
  intros (_ & _ & _ & H & _). eapply Forall_impl; [|exact H].
  intros o (q & Hq & _ & Hids & Hkind & _). exists q. repeat split; assumption.
Qed.

(* the values the decoder files for scaler [s] in chunk [j] are the directly
   addressed ones (raw channels: under (path, scale id); typed channels: as data) *)
Lemma daqmx_seg_chunk_values g data rest cs cur' j c :
  daqmx_seg_ok g data ->
  0 <= sg_nchunks g ->
  blen data = sg_nchunks g * chunk_bytes (dims_spec (data_objs (sg_objs g))) ->
  read_segment_chunks g (data ++ rest) = Ok (cs, cur') ->
  nth_error cs j = Some c -> Z.of_nat j < sg_nchunks g ->
  let e := toc_endian (sg_toc g) in
  let dobjs := data_objs (sg_objs g) in
  let dims := dims_spec dobjs in
  (forall o q s, In o dobjs -> so_daqmx o = Some q -> so_dtype o = Some T_DAQMX ->
                 In s (dq_scalers q) ->
                 holds (so_path o) (sc_id s) (direct_scaler_chunk e (dq_kind q) dims data j s) c) /\
  (forall o q s dt, In o dobjs -> so_daqmx o = Some q -> so_dtype o = Some dt -> dt <> T_DAQMX ->
                    dq_scalers q = [s] ->
                    alookup (so_path o) c
                    = Some (CData (direct_scaler_chunk e (dq_kind q) dims data j s))).
Proof.
  intros Hok Hn0 Hlen Hread Hj Hjn e dobjs dims.
  pose proof (daqmx_seg_ok_layout g data Hok) as Hlay.
  destruct (daqmx_seg_ok_dims g data Hok) as [Hbd Hnn]. fold dobjs dims in Hbd, Hnn.
  pose proof Hok as (_ & Hnd & _). fold dobjs in Hnd.
  pose proof (chunk_bytes_nonneg dims Hnn) as Hcb.
  (* common part: the scaler's buffer, and that the rows of chunk j lie in [data] *)
  assert (Hcommon : forall o q s, In o dobjs -> so_daqmx o = Some q -> In s (dq_scalers q) ->
             exists dt sz w,
               daqmx_type (sc_type s) = Some dt /\ tds_size dt = Some (Some sz) /\
               0 <= sc_off s /\ 0 <= sc_buf s /\ 0 < w /\ 0 <= so_nvals o /\
               nth_error dims (Z.to_nat (sc_buf s)) = Some (so_nvals o, w) /\
               (if dq_kind q =? DIGITAL_LINE_SCALER then sc_off s / 8 else sc_off s) + sz <= w /\
               Z.of_nat j * chunk_bytes dims + buffer_base dims (Z.to_nat (sc_buf s)) + w * so_nvals o
               <= blen data).
  { intros o q s Ho Hq Hs.
    destruct (daqmx_seg_ok_obj g data o Hok Ho) as (q' & Hq' & _ & _ & _ & Hsc).
    rewrite Hq in Hq'. injection Hq' as <-. rewrite Forall_forall in Hsc.
    destruct (Hsc s Hs) as (dt & sz & w & Hty & Hsz & Hoff & Hbuf & Hnth & Hfit).
    fold dobjs dims in Hnth.
    pose proof (tds_size_pos dt sz Hsz) as Hszp.
    assert (Hoff8 : 0 <= sc_off s / 8) by (apply Z.div_pos; lia).
    assert (Hw : 0 < w) by (destruct (dq_kind q =? DIGITAL_LINE_SCALER); lia).
    assert (Hnv : 0 <= so_nvals o).
    { rewrite Forall_forall in Hnn. apply (Hnn (so_nvals o, w)). eapply nth_error_In. exact Hnth. }
    pose proof (buffer_base_le dims Hnn _ _ _ Hnth) as Hbl.
    assert (Hm : (Z.of_nat j + 1) * chunk_bytes dims <= sg_nchunks g * chunk_bytes dims)
      by (apply Z.mul_le_mono_nonneg_r; lia).
    exists dt, sz, w. repeat split; try assumption. rewrite Hlen. fold dobjs dims. lia. }
  split.
  - intros o q s Ho Hq Hdt Hs.
    destruct (Hcommon o q s Ho Hq Hs) as (dt & sz & w & Hty & Hsz & Hoff & Hbuf & Hw & Hnv & Hnth & Hfit & Hin).
    destruct (daqmx_seg_ok_obj g data o Hok Ho) as (q' & Hq' & _ & Hids & _).
    rewrite Hq in Hq'. injection Hq' as <-.
    destruct (daqmx_segment_addressing g (data ++ rest) cs cur' dims o q s (Z.to_nat (sc_buf s))
                (so_nvals o) w dt sz j c Hlay Hread Hbd Hnn Ho Hnd Hq Hdt Hs Hids Hnth
                ltac:(lia) Hw Hoff Hty Hsz Hj) as (vs & Hh & Hl & Hv).
    cbv zeta in Hl, Hv.
    pose proof (buffer_base_nonneg dims (Z.to_nat (sc_buf s)) Hnn) as Hbb.
    set (base := Z.of_nat j * chunk_bytes dims + buffer_base dims (Z.to_nat (sc_buf s))) in *.
    assert (Hrows : Z.of_nat (length vs) = so_nvals o).
    { rewrite Hl. apply rows_count_full; try lia. rewrite blen_app. pose proof (blen_nonneg rest). lia. }
    replace (direct_scaler_chunk e (dq_kind q) dims data j s) with vs; [exact Hh|].
    unfold direct_scaler_chunk. rewrite Hnth, Hty, Hsz. fold base.
    apply list_eq_map_seq; [lia|]. intros i Hi. rewrite (Hv i) by lia. f_equal.
    pose proof (tds_size_pos dt sz Hsz).
    apply scaler_value_at_app; try lia. nia.
  - intros o q s dto Ho Hq Hdt Hne Hs1.
    assert (Hs : In s (dq_scalers q)) by (rewrite Hs1; left; reflexivity).
    destruct (Hcommon o q s Ho Hq Hs) as (dt & sz & w & Hty & Hsz & Hoff & Hbuf & Hw & Hnv & Hnth & Hfit & Hin).
    destruct (daqmx_segment_addressing_typed g (data ++ rest) cs cur' dims o q s dto (Z.to_nat (sc_buf s))
                (so_nvals o) w dt sz j c Hlay Hread Hbd Hnn Ho Hnd Hq Hdt Hne Hs1 Hnth
                ltac:(lia) Hw Hoff Hty Hsz Hj) as (vs & Hh & Hl & Hv).
    cbv zeta in Hl, Hv.
    pose proof (buffer_base_nonneg dims (Z.to_nat (sc_buf s)) Hnn) as Hbb.
    set (base := Z.of_nat j * chunk_bytes dims + buffer_base dims (Z.to_nat (sc_buf s))) in *.
    assert (Hrows : Z.of_nat (length vs) = so_nvals o).
    { rewrite Hl. apply rows_count_full; try lia. rewrite blen_app. pose proof (blen_nonneg rest). lia. }
    replace (direct_scaler_chunk e (dq_kind q) dims data j s) with vs; [exact Hh|].
    unfold direct_scaler_chunk. rewrite Hnth, Hty, Hsz. fold base.
    apply list_eq_map_seq; [lia|]. intros i Hi. rewrite (Hv i) by lia. f_equal.
    pose proof (tds_size_pos dt sz Hsz).
    apply scaler_value_at_app; try lia. nia.
Qed.

(* R3 for DAQmx: the decoder succeeds on a readable DAQmx segment, and what it
   returns holds exactly the directly addressed values *)
Theorem daqmx_seg_decodes g data rest :
  daqmx_seg_ok g data ->
  calculate_chunks (sg_toc g) (sg_incomplete g) (sg_objs g) (blen data) = Ok (sg_nchunks g, sg_final g) ->
  exists cs cur',
    read_segment_chunks g (data ++ rest) = Ok (cs, cur') /\
    Forall2 chunk_ext cs (direct_chunks g data) /\
    Forall (chunk_shape (data_objs (sg_objs g))) cs.
Proof.
  intros Hok Hcc.
  pose proof (daqmx_seg_ok_layout g data Hok) as Hlay.
  destruct (daqmx_seg_ok_dims g data Hok) as [Hbd Hnn].
  destruct (daqmx_seg_ok_nchunks g data Hok Hcc) as (_ & Hn0 & Hlen & Hdn).
  pose proof (daqmx_seg_ok_nchunks_le g data Hok Hcc) as Hnle.
  set (e := toc_endian (sg_toc g)) in *. set (dobjs := data_objs (sg_objs g)) in *.
  set (dims := dims_spec dobjs) in *.
  pose proof (chunk_bytes_nonneg dims Hnn) as Hcb.
  (* every chunk read succeeds, whatever the cursor *)
  assert (Hrd_ok : forall (ci : Z) (cur : bytes),
             exists c cur', (fun (_ : Z) (c0 : bytes) => read_daqmx_chunk e dobjs c0) ci cur = Ok (c, cur')).
  { intros ci cur. cbv beta. apply (read_daqmx_chunk_succeeds e dobjs dims cur Hbd).
    intros o Ho. destruct (daqmx_seg_ok_obj g data o Hok Ho) as (q & Hq & _ & _ & _ & Hsc).
    exists q. split; [exact Hq|]. intros s k n w Hs Hk Hb. rewrite Forall_forall in Hsc.
    destruct (Hsc s Hs) as (dt & sz & w' & Hty & Hsz & _ & _ & Hnth & Hfit).
    fold dobjs dims in Hnth. replace (Z.to_nat (sc_buf s)) with k in Hnth by lia.
    rewrite Hk in Hnth. injection Hnth as _ <-. exists dt, sz. repeat split; assumption. }
  destruct (read_chunks_loop_succeeds _ Hrd_ok (S (S (length (data ++ rest)))) 0 (sg_nchunks g) (data ++ rest))
    as (cs & cur' & Hloop & Hlcs).
  { pose proof (blen_app data rest). pose proof (blen_nonneg rest). unfold blen in *. lia. }
  assert (Hread : read_segment_chunks g (data ++ rest) = Ok (cs, cur')).
  { unfold read_segment_chunks. rewrite Hlay. cbn [bind]. exact Hloop. }
  exists cs, cur'. split; [exact Hread|].
  (* each chunk comes from one call of the chunk reader *)
  assert (Hrd : forall (ci : Z) (c0 : bytes) (ch : chunk) (c' : bytes),
             (fun (_ : Z) (c1 : bytes) => read_daqmx_chunk e dobjs c1) ci c0 = Ok (ch, c') ->
             c' = drop (chunk_bytes dims) c0).
  { intros ci c0 ch c' Hr. exact (read_daqmx_chunk_rest e dobjs c0 ch c' dims Hr Hbd Hnn). }
  assert (Hshape : forall j c, nth_error cs j = Some c -> chunk_shape dobjs c).
  { intros j c Hj.
    destruct (read_chunks_loop_nth _ _ Hrd Hcb _ _ _ _ _ _ Hloop j c Hj) as [c' Hc'].
    cbv beta in Hc'. exact (read_daqmx_chunk_shape e dobjs _ c c' Hc'). }
  split.
  - apply Forall2_nth_error.
    + unfold direct_chunks. fold dobjs dims. rewrite map_length, seq_length, Hdn. lia.
    + intros j c c' Hj Hj'.
      assert (Hjlt : (j < Z.to_nat (sg_nchunks g))%nat).
      { assert (Hjl : (j < length cs)%nat) by (apply nth_error_Some; rewrite Hj; discriminate).
        rewrite Hlcs in Hjl. replace (sg_nchunks g - 0) with (sg_nchunks g) in Hjl by lia. exact Hjl. }
      unfold direct_chunks in Hj'. fold dobjs dims e in Hj'. rewrite nth_error_map, Hdn in Hj'.
      rewrite (nth_error_seq _ 0 j Hjlt) in Hj'. cbn [option_map Nat.add] in Hj'. injection Hj' as <-.
      destruct (daqmx_seg_chunk_values g data rest cs cur' j c Hok Hn0 Hlen Hread Hj ltac:(lia))
        as [Hraw Htyped].
      apply chunk_ext_direct.
      * destruct Hok as (_ & Hnd & _). exact Hnd.
      * exact (daqmx_seg_ok_kinds g data Hok).
      * exact (Hshape j c Hj).
      * exact Hraw.
      * exact Htyped.
  - apply Forall_forall. intros c Hc. apply In_nth_error in Hc. destruct Hc as [j Hj].
    exact (Hshape j c Hj).
Qed.

(* ======================================================================== *)
(* Part B.2: receivers (generalises R4 of ReadCorrect.v to scaler data)     *)
(* ======================================================================== *)

(* appending to a receiver: plain data [vs]; per scale id the values [f id] *)
Definition radd2 (vs : list bytes) (f : Z -> list bytes) (r : option cdata) : option cdata :=
  match r with
  | Some (CData acc) => Some (CData (acc ++ vs))
  | Some (CScalers acc) => Some (CScalers (map (fun kv => (fst kv, snd kv ++ f (fst kv))) acc))
  | None => None
  end.

Lemma map_snd_id {A} (g : Z * list A -> list A) (acc : list (Z * list A)) :
  (forall kv, In kv acc -> g kv = snd kv) -> map (fun kv => (fst kv, g kv)) acc = acc.
Proof.
  induction acc as [|[k v] r IH]; intros H; [reflexivity|]. cbn [map fst].
  rewrite (H (k, v) (or_introl eq_refl)), IH; [reflexivity|]. intros kv Hkv. apply H. right. exact Hkv.
Qed.

Lemma map_keys_same {K A B} (g : K * A -> B) (acc : list (K * A)) :
  map fst (map (fun kv => (fst kv, g kv)) acc) = map fst acc.
Proof. rewrite map_map. apply map_ext. reflexivity. Qed.

Lemma radd2_nil r : radd2 [] (fun _ => []) r = r.
Proof.
  destruct r as [[acc|sc]|]; cbn [radd2]; [rewrite app_nil_r; reflexivity| |reflexivity].
  rewrite map_snd_id; [reflexivity|]. intros kv _. apply app_nil_r.
Qed.

Lemma radd2_ext vs ws (f g : Z -> list bytes) r :
  vs = ws -> (forall id, f id = g id) -> radd2 vs f r = radd2 ws g r.
Proof.
  intros -> H. destruct r as [[acc|sc]|]; cbn [radd2]; try reflexivity.
  do 2 f_equal. apply map_ext. intros kv. rewrite H. reflexivity.
Qed.

Lemma radd2_radd2 a b (f g : Z -> list bytes) r :
  radd2 b g (radd2 a f r) = radd2 (a ++ b) (fun id => f id ++ g id) r.
Proof.
  destruct r as [[acc|sc]|]; cbn [radd2]; [rewrite app_assoc; reflexivity| |reflexivity].
  do 2 f_equal. rewrite map_map. apply map_ext. intros kv. cbn [fst snd]. rewrite app_assoc. reflexivity.
Qed.

(* a chunk entry can be received by what is stored under its path *)
Definition entry_fits (kv : bytes * cdata) (r : option (option cdata)) : Prop :=
  match snd kv with
  | CData _ => exists acc, r = Some (Some (CData acc))
  | CScalers l => exists acc, r = Some (Some (CScalers acc)) /\ NoDup (map fst acc) /\
                              forall iv, In iv l -> In (fst iv) (map fst acc)
  end.

Lemma entry_fits_radd2 kv vs f r : entry_fits kv r -> entry_fits kv (option_map (radd2 vs f) r).
Proof.
  unfold entry_fits. destruct (snd kv) as [vals|l].
  - intros [acc ->]. cbn [option_map radd2]. eexists. reflexivity.
  - intros (acc & -> & Hnd & Hin). cbn [option_map radd2]. eexists. split; [reflexivity|].
    rewrite map_keys_same. split; assumption.
Qed.

Lemma scaler_append_spec id vs : forall acc,
    NoDup (map fst acc) -> In id (map fst acc) ->
    scaler_append id vs acc
    = Ok (map (fun kv => (fst kv, snd kv ++ (if fst kv =? id then vs else []))) acc).
Proof.
  induction acc as [|[k v] r IH]; intros Hnd Hin; [contradiction|].
  cbn [map fst] in Hnd, Hin. inversion Hnd as [|x y Hnin Hnd']; subst x y.
  cbn [scaler_append map fst snd]. destruct (k =? id) eqn:E.
  - f_equal. f_equal. symmetry. apply map_snd_id. intros [k' v'] Hkv. cbn [fst snd].
    destruct (k' =? id) eqn:E'; [|apply app_nil_r]. exfalso. apply Hnin.
    replace k with k' by lia. apply (in_map fst r (k', v')). exact Hkv.
  - destruct Hin as [Hin|Hin]; [lia|]. rewrite (IH Hnd' Hin). cbn [bind]. rewrite app_nil_r. reflexivity.
Qed.

Lemma scalers_receive : forall (sc acc : list (Z * list bytes)),
    NoDup (map fst acc) -> (forall iv, In iv sc -> In (fst iv) (map fst acc)) ->
    fold_left (fun a kv => do a0 <- a; scaler_append (fst kv) (snd kv) a0) sc (Ok acc)
    = Ok (map (fun kv => (fst kv, snd kv ++ flat_map (sc_entry_values (fst kv)) sc)) acc).
Proof.
  induction sc as [|[id vs] sc IH]; intros acc Hnd Hin.
  - cbn [fold_left flat_map]. f_equal. symmetry. apply map_snd_id. intros kv _. apply app_nil_r.
  - cbn [fold_left bind fst snd].
    rewrite (scaler_append_spec id vs acc Hnd (Hin (id, vs) (or_introl eq_refl))).
    rewrite IH.
    + f_equal. rewrite map_map. apply map_ext. intros [k v]. cbn [fst snd flat_map].
      unfold sc_entry_values at 2. cbn [fst snd]. rewrite (Z.eqb_sym id k), app_assoc. reflexivity.
    + rewrite map_keys_same. exact Hnd.
    + intros iv Hiv. rewrite map_keys_same. apply Hin. right. exact Hiv.
Qed.

Definition entry_data (d : cdata) : list bytes := match d with CData vs => vs | CScalers _ => [] end.
Definition entry_sdata (d : cdata) (id : Z) : list bytes :=
  match d with CScalers l => flat_map (sc_entry_values id) l | CData _ => [] end.

Lemma receive_fits k d rc :
  entry_fits (k, d) (Some rc) -> receive rc d = Ok (radd2 (entry_data d) (entry_sdata d) rc).
Proof.
  unfold entry_fits. cbn [snd]. destruct d as [vs|l].
  - intros [acc H]. injection H as ->. reflexivity.
  - intros (acc & H & Hnd & Hin). injection H as ->. cbn [receive radd2 entry_sdata].
    rewrite (scalers_receive l acc Hnd Hin). reflexivity.
Qed.

Lemma receive_entries_gen : forall (c : chunk) recv,
    (forall kv, In kv c -> entry_fits kv (alookup (fst kv) recv)) ->
    exists recv', fold_left rc_step c (Ok recv) = Ok recv' /\
                  forall p, alookup p recv' =
                            option_map (radd2 (chunk_values p c) (fun id => chunk_scaler_values p id c))
                                       (alookup p recv).
Proof.
  induction c as [|[k d] c IH]; intros recv Hfit.
  - exists recv. split; [reflexivity|]. intros p.
    destruct (alookup p recv) as [r|]; cbn [option_map]; [|reflexivity].
    f_equal. symmetry. exact (radd2_nil r).
  - pose proof (Hfit (k, d) (or_introl eq_refl)) as Hk. cbn [fst] in Hk.
    destruct (alookup k recv) as [rc|] eqn:Erc.
    2:{ unfold entry_fits in Hk. cbn [snd] in Hk. destruct d; [destruct Hk as [? Hk]|destruct Hk as (? & Hk & _)]; discriminate. }
    cbn [fold_left]. unfold rc_step at 2. cbn [bind fst snd]. rewrite Erc.
    rewrite (receive_fits k d rc Hk). cbn [bind].
    destruct (IH (aset k (radd2 (entry_data d) (entry_sdata d) rc) recv)) as (recv' & Hfold & Hlk).
    { intros kv Hin. rewrite alookup_aset.
      destruct (bytes_eqb (fst kv) k) eqn:E.
      - apply bytes_eqb_eq in E. pose proof (Hfit kv (or_intror Hin)) as Hf. rewrite E, Erc in Hf.
        exact (entry_fits_radd2 kv _ _ (Some rc) Hf).
      - apply Hfit. right. exact Hin. }
    exists recv'. split; [exact Hfold|]. intros p. rewrite Hlk, alookup_aset.
    rewrite chunk_values_cons.
    destruct (bytes_eqb p k) eqn:E.
    + apply bytes_eqb_eq in E. subst p. rewrite Erc. cbn [option_map]. f_equal.
      rewrite radd2_radd2. apply radd2_ext.
      * unfold entry_values. cbn [fst snd]. rewrite bytes_eqb_refl. destruct d; reflexivity.
      * intros id. rewrite chunk_scaler_values_cons. unfold entry_scaler_values. cbn [fst snd].
        rewrite bytes_eqb_refl. destruct d; reflexivity.
    + destruct (alookup p recv) as [r|]; cbn [option_map]; [|reflexivity]. f_equal.
      apply radd2_ext.
      * unfold entry_values. cbn [fst snd]. rewrite E. reflexivity.
      * intros id. rewrite chunk_scaler_values_cons. unfold entry_scaler_values. cbn [fst snd].
        rewrite E. reflexivity.
Qed.

Lemma chan_scaler_values_cons p id c r :
  chan_scaler_values p id (c :: r) = chunk_scaler_values p id c ++ chan_scaler_values p id r.
Proof. reflexivity. Qed.

Lemma chan_scaler_values_app p id a b :
  chan_scaler_values p id (a ++ b) = chan_scaler_values p id a ++ chan_scaler_values p id b.
Proof. unfold chan_scaler_values. apply flat_map_app. Qed.

(* R4, generalised: chunks may carry scaler data *)
Theorem receive_chunks_gen : forall (chunks : list chunk) recv,
    (forall c kv, In c chunks -> In kv c -> entry_fits kv (alookup (fst kv) recv)) ->
    exists recv', fold_left rcs_step chunks (Ok recv) = Ok recv' /\
                  forall p, alookup p recv' =
                            option_map (radd2 (chan_values p chunks)
                                              (fun id => chan_scaler_values p id chunks))
                                       (alookup p recv).
Proof.
  induction chunks as [|c chunks IH]; intros recv Hfit.
  - exists recv. split; [reflexivity|]. intros p.
    destruct (alookup p recv) as [r|]; cbn [option_map]; [|reflexivity].
    f_equal. symmetry. exact (radd2_nil r).
  - destruct (receive_entries_gen c recv) as (recv1 & H1 & Hlk1).
    { intros kv Hin. apply (Hfit c kv); [left; reflexivity|exact Hin]. }
    cbn [fold_left]. unfold rcs_step at 2. cbn [bind]. rewrite receive_chunk_fold, H1.
    destruct (IH recv1) as (recv' & H2 & Hlk2).
    { intros c' kv Hc' Hin. rewrite Hlk1. apply entry_fits_radd2.
      apply (Hfit c' kv); [right; exact Hc'|exact Hin]. }
    exists recv'. split; [exact H2|]. intros p. rewrite Hlk2, Hlk1.
    destruct (alookup p recv) as [r|]; cbn [option_map]; [|reflexivity]. f_equal.
    rewrite radd2_radd2. apply radd2_ext; [reflexivity|]. intros id. reflexivity.
Qed.

(* ======================================================================== *)
(* Part B.4: what the metadata pass records about types and scalers         *)
(* ======================================================================== *)

(* two scale_id -> type dictionaries with the same bindings *)
Definition st_equiv (a b : list (Z * Z)) : Prop := forall kv, In kv a <-> In kv b.

Lemma zassoc_sub_incl a b : zassoc_sub a b = true <-> (forall kv, In kv a -> In kv b).
Proof.
  unfold zassoc_sub. rewrite forallb_forall. split.
  - intros H kv Hkv. specialize (H kv Hkv). apply existsb_exists in H.
    destruct H as ([k' v'] & Hin & Heq). destruct kv as [k v]. cbn [fst snd] in Heq.
    replace k with k' by lia. replace v with v' by lia. exact Hin.
  - intros H kv Hkv. apply existsb_exists. exists kv. split; [exact (H kv Hkv)|].
    rewrite !Z.eqb_refl. reflexivity.
Qed.

Lemma scaler_types_eqb_equiv a b : scaler_types_eqb a b = true <-> st_equiv a b.
Proof.
  unfold scaler_types_eqb, st_equiv. rewrite andb_true_iff, !zassoc_sub_incl. split.
  - intros [H1 H2] kv. split; [apply H1|apply H2].
  - intros H. split; intros kv; apply H.
Qed.

Lemma zassoc_set_keys k v : forall l x, In x (map fst (zassoc_set k v l)) <-> x = k \/ In x (map fst l).
Proof.
  induction l as [|[k' v'] r IH]; intros x; cbn [zassoc_set map fst In].
  - split; [intros [H|[]]; left; symmetry; exact H|intros [H|[]]; left; symmetry; exact H].
  - destruct (k =? k') eqn:E; cbn [map fst In].
    + split; [intros [H|H]; [right; left; exact H|right; right; exact H]|].
      intros [H|[H|H]]; [left; lia|left; exact H|right; exact H].
    + rewrite IH. tauto.
Qed.

Lemma zassoc_set_nodup k v : forall l, NoDup (map fst l) -> NoDup (map fst (zassoc_set k v l)).
Proof.
  induction l as [|[k' v'] r IH]; intros H; cbn [zassoc_set map fst].
  - constructor; [intros []|constructor].
  - cbn [map fst] in H. inversion H as [|x y Hnin Hnd]; subst x y.
    destruct (k =? k') eqn:E; cbn [map fst].
    + constructor; assumption.
    + constructor; [|apply IH; exact Hnd]. rewrite zassoc_set_keys. intros [Hk|Hin]; [lia|contradiction].
Qed.

Lemma scaler_types_gen : forall scalers acc,
    NoDup (map fst acc) ->
    let r := fold_left (fun acc s => zassoc_set (sc_id s)
                                       (match daqmx_type (sc_type s) with Some t => t | None => -1 end) acc)
                       scalers acc in
    NoDup (map fst r) /\ forall x, In x (map fst r) <-> In x (map fst acc) \/ In x (map sc_id scalers).
Proof.
  induction scalers as [|s r IH]; intros acc Hnd; cbn zeta.
  - split; [exact Hnd|]. intros x. cbn [map In]. tauto.
  - cbn [fold_left]. destruct (IH (zassoc_set (sc_id s) (match daqmx_type (sc_type s) with
                                                          | Some t => t | None => -1 end) acc)) as [H1 H2].
    { apply zassoc_set_nodup. exact Hnd. }
    cbn zeta in H1, H2. split; [exact H1|]. intros x. rewrite H2, zassoc_set_keys. cbn [map In].
    split; [intros [[H|H]|H]|intros [H|[H|H]]]; auto.
Qed.

Lemma scaler_types_nodup q : NoDup (map fst (scaler_types q)).
Proof. unfold scaler_types. apply (scaler_types_gen (dq_scalers q) []). constructor. Qed.

Lemma scaler_types_keys q x : In x (map fst (scaler_types q)) <-> In x (map sc_id (dq_scalers q)).
Proof.
  unfold scaler_types. destruct (scaler_types_gen (dq_scalers q) [] (NoDup_nil _)) as [_ H].
  cbn zeta in H. rewrite H. cbn [map In]. tauto.
Qed.

Lemma st_equiv_keys a b x : st_equiv a b -> (In x (map fst a) <-> In x (map fst b)).
Proof.
  intros H. split; intros Hx; apply in_map_iff in Hx; destruct Hx as (kv & <- & Hkv);
    apply in_map; apply H; exact Hkv.
Qed.

(* [m] (the metadata stored under o's path) agrees with segment object [o] *)
Definition mtracks (m : ometa) (o : sobj) : Prop :=
  (forall dt, so_dtype o = Some dt -> om_dtype m = Some dt) /\
  (forall q, so_daqmx o = Some q ->
             exists sts, om_scalers m = Some sts /\ NoDup (map fst sts) /\
                         st_equiv sts (scaler_types q)).

Lemma update_ometa_scalers m o n f m' :
  update_ometa m o n f = Ok m' ->
  match so_daqmx o with
  | Some q => om_scalers m' = Some (scaler_types q) /\
              forall st0, om_scalers m = Some st0 -> scaler_types_eqb st0 (scaler_types q) = true
  | None => om_scalers m' = om_scalers m
  end.
Proof.
  unfold update_ometa. cbv zeta. destruct (_ && _); [discriminate|].
  destruct (so_daqmx o) as [q|].
  - destruct (om_scalers m) as [st0|].
    + destruct (scaler_types_eqb st0 (scaler_types q)) eqn:E; [|discriminate].
      intros H. injection H as <-. cbn [om_scalers]. split; [reflexivity|].
      intros st1 H1. injection H1 as <-. exact E.
    + intros H. injection H as <-. cbn [om_scalers]. split; [reflexivity|]. intros st1 H1. discriminate.
  - intros H. injection H as <-. reflexivity.
Qed.

Lemma update_ometa_tracks m o n f m' :
  update_ometa m o n f = Ok m' ->
  mtracks m' o /\ (forall o0, mtracks m o0 -> mtracks m' o0).
Proof.
  intros H. destruct (update_ometa_dtype _ _ _ _ _ H) as [Hd1 Hd2].
  pose proof (update_ometa_scalers _ _ _ _ _ H) as Hs.
  split.
  - split.
    + intros dt Hdt. rewrite Hd1. exact Hdt.
    + intros q Hq. rewrite Hq in Hs. destruct Hs as [Hs _]. exists (scaler_types q).
      split; [exact Hs|]. split; [apply scaler_types_nodup|]. intros kv. reflexivity.
  - intros o0 [H1 H2]. split.
    + intros dt Hdt. specialize (H1 dt Hdt). rewrite Hd2; rewrite H1; [reflexivity|discriminate].
    + intros q0 Hq0. destruct (H2 q0 Hq0) as (sts & Hsts & Hnd & Heq).
      destruct (so_daqmx o) as [q|].
      * destruct Hs as [Hs Hcmp]. exists (scaler_types q). split; [exact Hs|].
        split; [apply scaler_types_nodup|].
        pose proof (proj1 (scaler_types_eqb_equiv _ _) (Hcmp sts Hsts)) as He.
        intros kv. rewrite <- (He kv). apply Heq.
      * exists sts. rewrite Hs. split; [exact Hsts|]. split; assumption.
Qed.

Definition om_tracks (om : alist ometa) (o : sobj) : Prop :=
  exists m, alookup (so_path o) om = Some m /\ mtracks m o.

Lemma update_object_metadata_tracks : forall objs n f prev om prev' om',
    update_object_metadata objs n f prev om = Ok (prev', om') ->
    forall o0, (om_tracks om o0 \/ In o0 objs) -> om_tracks om' o0.
Proof.
  induction objs as [|o objs IH]; intros n f prev om prev' om' H o0 Ho0.
  - cbn [update_object_metadata] in H. injection H as _ <-. destruct Ho0 as [Ho0|[]]. exact Ho0.
  - cbn [update_object_metadata] in H.
    destruct (update_ometa (get_ometa (so_path o) om) o n f) as [m'|e] eqn:Em; cbn [bind] in H; [|discriminate].
    destruct (update_ometa_tracks _ _ _ _ _ Em) as [Hself Hkeep].
    apply (IH _ _ _ _ _ _ H o0).
    destruct Ho0 as [(m0 & Hm0 & Ht0)|[<-|Hin]].
    + left. unfold om_tracks. rewrite alookup_aset. destruct (bytes_eqb (so_path o0) (so_path o)) eqn:E.
      * apply bytes_eqb_eq in E. exists m'. split; [reflexivity|]. apply Hkeep.
        unfold get_ometa. rewrite <- E, Hm0. exact Ht0.
      * exists m0. split; assumption.
    + left. exists m'. rewrite alookup_aset, bytes_eqb_refl. split; [reflexivity|exact Hself].
    + right. exact Hin.
Qed.

Lemma update_object_properties_tracks props : forall om o,
    om_tracks om o -> om_tracks (update_object_properties props om) o.
Proof.
  unfold update_object_properties.
  induction props as [|[k ps] props IH]; intros om o Ho; [exact Ho|].
  cbn [fold_left fst snd]. apply IH. destruct Ho as (m & Hm & Ht).
  unfold om_tracks. rewrite alookup_aset. destruct (bytes_eqb (so_path o) k) eqn:E.
  - apply bytes_eqb_eq in E. subst k. unfold get_ometa. rewrite Hm.
    eexists. split; [reflexivity|]. exact Ht.
  - exists m. split; assumption.
Qed.

Lemma sm_loop_tracks : forall segs w pos ps pi st stf,
    sm_loop segs w pos ps pi st = Ok stf ->
    (forall g o, In g (rs_segments st) -> In o (sg_objs g) -> om_tracks (rs_om st) o) ->
    forall g o, In g (rs_segments stf) -> In o (sg_objs g) -> om_tracks (rs_om stf) o.
Proof.
  induction segs as [|s r IH]; intros w pos ps pi st stf H Hinv.
  - rewrite sm_loop_nil in H. injection H as <-. exact Hinv.
  - apply sm_loop_cons_inv in H.
    destruct H as (objs & props & idx & cache & nch & fin & po & om & Hro & Hcc & Hum & Hloop).
    apply (IH _ _ _ _ _ _ Hloop). cbn [rs_segments rs_om]. intros g o Hg Ho.
    apply update_object_properties_tracks.
    apply (update_object_metadata_tracks _ _ _ _ _ _ _ Hum).
    apply in_app_or in Hg. destruct Hg as [Hg|[<-|[]]].
    + left. exact (Hinv g o Hg Ho).
    + right. exact Ho.
Qed.

Theorem sm_run_tracks segs w st :
  sm_run segs w = Ok st ->
  forall g o, In g (rs_segments st) -> In o (sg_objs g) -> om_tracks (rs_om st) o.
Proof.
  unfold sm_run. intros H. apply (sm_loop_tracks _ _ _ _ _ _ _ H). intros g o [].
Qed.

(* a data type stored in the metadata is the type of some segment object UNDER THAT PATH *)
Lemma update_object_metadata_dtype_origin_p : forall objs n f prev om prev' om',
    update_object_metadata objs n f prev om = Ok (prev', om') ->
    forall p m, alookup p om' = Some m ->
                (exists m0, alookup p om = Some m0 /\ om_dtype m0 = om_dtype m) \/
                (exists o, In o objs /\ so_path o = p /\ so_dtype o = om_dtype m).
Proof.
  induction objs as [|o objs IH]; intros n f prev om prev' om' H p m Hm.
  - cbn [update_object_metadata] in H. injection H as _ <-. left. exists m. split; [exact Hm|reflexivity].
  - cbn [update_object_metadata] in H.
    destruct (update_ometa (get_ometa (so_path o) om) o n f) as [m1|e] eqn:Em; cbn [bind] in H; [|discriminate].
    destruct (update_ometa_dtype _ _ _ _ _ Em) as [Hd1 _].
    destruct (IH _ _ _ _ _ _ H p m Hm) as [(m0 & Hm0 & Hdt)|(o' & Ho' & Hp' & Hdt)].
    + rewrite alookup_aset in Hm0. destruct (bytes_eqb p (so_path o)) eqn:E.
      * apply bytes_eqb_eq in E. injection Hm0 as <-. right. exists o.
        split; [left; reflexivity|]. split; [symmetry; exact E|]. rewrite <- Hdt. symmetry. exact Hd1.
      * left. exists m0. split; assumption.
    + right. exists o'. split; [right; exact Ho'|]. split; assumption.
Qed.

Definition om_dtype_has_origin_p (st : rstate) : Prop :=
  forall p m, alookup p (rs_om st) = Some m -> om_dtype m <> None ->
              exists g o, In g (rs_segments st) /\ In o (sg_objs g) /\ so_path o = p /\
                          so_dtype o = om_dtype m.

Lemma sm_loop_om_dtype_origin_p : forall segs w pos ps pi st stf,
    sm_loop segs w pos ps pi st = Ok stf -> om_dtype_has_origin_p st -> om_dtype_has_origin_p stf.
Proof.
  induction segs as [|s r IH]; intros w pos ps pi st stf H Hinv.
  - rewrite sm_loop_nil in H. injection H as <-. exact Hinv.
  - apply sm_loop_cons_inv in H.
    destruct H as (objs & props & idx & cache & nch & fin & po & om & Hro & Hcc & Hum & Hloop).
    apply (IH _ _ _ _ _ _ Hloop). intros p m Hm Hty. cbn [rs_om rs_segments] in *.
    destruct (update_object_properties_dtype_origin props om p m Hm Hty) as (m1 & Hm1 & Hdt1).
    destruct (update_object_metadata_dtype_origin_p _ _ _ _ _ _ _ Hum p m1 Hm1)
      as [(m0 & Hm0 & Hdt0)|(o & Ho & Hp & Hdt0)].
    + destruct (Hinv p m0 Hm0) as (g & o & Hg & Ho & Hp & Hdt); [rewrite Hdt0, Hdt1; exact Hty|].
      exists g, o. split; [apply in_or_app; left; exact Hg|]. split; [exact Ho|]. split; [exact Hp|]. congruence.
    + eexists. exists o. split; [apply in_or_app; right; left; reflexivity|].
      cbn [sg_objs]. split; [exact Ho|]. split; [exact Hp|]. congruence.
Qed.

Theorem sm_run_om_dtype_origin_p segs w st : sm_run segs w = Ok st -> om_dtype_has_origin_p st.
Proof.
  unfold sm_run. intros H. apply (sm_loop_om_dtype_origin_p _ _ _ _ _ _ _ H). intros p m Hm. discriminate.
Qed.

(* a channel of type DaqMxRawData has scaler types *)
Lemma daqmx_typed_has_scalers segs w st p m :
  sm_run segs w = Ok st ->
  alookup p (rs_om st) = Some m -> om_dtype m = Some T_DAQMX ->
  exists sts, om_scalers m = Some sts /\ NoDup (map fst sts).
Proof.
  intros Hrun Hm Hdt.
  destruct (sm_run_om_dtype_origin_p segs w st Hrun p m Hm) as (g & o & Hg & Ho & Hp & Hso);
    [rewrite Hdt; discriminate|].
  destruct (sm_run_dq segs w st Hrun g o Hg Ho) as [Hdq _].
  destruct (so_daqmx o) as [q|] eqn:Hq; [|exfalso; apply Hdq; [congruence|reflexivity]].
  destruct (sm_run_tracks segs w st Hrun g o Hg Ho) as (m' & Hm' & _ & Hsc).
  rewrite Hp, Hm in Hm'. injection Hm' as <-.
  destruct (Hsc q Hq) as (sts & Hsts & Hnd & _). exists sts. split; assumption.
Qed.

(* ======================================================================== *)
(* Part B.5: files whose segments are ordinary or DAQmx                     *)
(* ======================================================================== *)

(* what specifies the content of segment [g] whose syntax is [s]: either the
   chunks its raw data block encodes (contiguous / interleaved / no data, as in
   read_correct), or -- for a readable DAQmx segment -- the chunks obtained from
   the raw data block by direct addressing *)
Inductive seg_content (g : segment) (s : fseg) : list chunk -> Prop :=
| sct_plain cs : seg_encodes g (fs_data s) cs -> seg_content g s cs
| sct_daqmx : daqmx_seg_ok g (fs_data s) -> seg_content g s (direct_chunks g (fs_data s)).

Inductive segs_content : list segment -> list fseg -> list (list chunk) -> Prop :=
| scn_nil : segs_content [] [] []
| scn_cons g gs s r cs css :
    seg_content g s cs -> segs_content gs r css -> segs_content (g :: gs) (s :: r) (cs :: css).

(* where a chunk entry comes from: a typed data object of the segment *)
Definition entry_origin (g : segment) (kv : bytes * cdata) : Prop :=
  (exists vs o dt, snd kv = CData vs /\ In o (data_objs (sg_objs g)) /\ so_path o = fst kv /\
                   so_dtype o = Some dt /\ (so_daqmx o = None \/ dt <> T_DAQMX)) \/
  (exists l o q, snd kv = CScalers l /\ In o (data_objs (sg_objs g)) /\ so_path o = fst kv /\
                 so_dtype o = Some T_DAQMX /\ so_daqmx o = Some q /\
                 forall iv, In iv l -> In (fst iv) (map sc_id (dq_scalers q))).

Lemma seg_encodes_keys_data g data chunks :
  seg_encodes g data chunks ->
  forall c kv, In c chunks -> In kv c ->
               exists o, In o (data_objs (sg_objs g)) /\ so_path o = fst kv /\ so_dtype o <> None.
Proof.
  intros Henc c kv Hc Hkv.
  destruct Henc as [Hd Hdata | css Hlay Hpos Hnd Hok Hds Hdata
                    | nv m rows Hlay Hne Hnv Hm Hobjs Hsz Hnd Hrows Hlen Hdata].
  - contradiction.
  - apply in_map_iff in Hc. destruct Hc as (vss & <- & Hvss).
    rewrite Forall_forall in Hok. exact (chunk_of_keys _ vss kv (Hok vss Hvss) Hkv).
  - destruct Hc as [<-|[]]. destruct (cols_of_keys _ _ _ Hkv) as (o & Ho & Hp).
    exists o. split; [exact Ho|]. split; [exact Hp|].
    rewrite Forall_forall in Hsz. exact (sized_dtype o (Hsz o Ho)).
Qed.

Lemma chunk_ext_refl c : chunk_ext c c.
Proof. intros p. split; [reflexivity|intros id; reflexivity]. Qed.

Lemma Forall2_refl {A} (R : A -> A -> Prop) (l : list A) : (forall x, R x x) -> Forall2 R l l.
Proof. intros H. induction l; constructor; [apply H|assumption]. Qed.

Lemma chunks_ext_values : forall (a b : list chunk),
    Forall2 chunk_ext a b ->
    forall p, chan_values p a = chan_values p b /\
              forall id, chan_scaler_values p id a = chan_scaler_values p id b.
Proof.
  induction 1 as [|c c' a b Hc _ IH]; intros p; [split; [reflexivity|intros id; reflexivity]|].
  destruct (Hc p) as [Hv Hs]. destruct (IH p) as [IHv IHs]. split.
  - rewrite !chan_values_cons, Hv, IHv. reflexivity.
  - intros id. rewrite !chan_scaler_values_cons, Hs, IHs. reflexivity.
Qed.

(* R3 for a segment of either kind: it decodes (whatever follows the block), to
   chunks that hold the specified values and whose entries come from typed data
   objects of the segment *)
Lemma seg_content_decodes g s cs pos rest :
  seg_at pos s g -> seg_content g s cs ->
  exists cs_dec cur', read_segment_chunks g (fs_data s ++ rest) = Ok (cs_dec, cur') /\
                      Forall2 chunk_ext cs_dec cs /\
                      forall c kv, In c cs_dec -> In kv c -> entry_origin g kv.
Proof.
  intros (_ & _ & _ & _ & _ & Hcc) [cs0 Henc|Hok].
  - exists cs0, rest. split; [|split].
    + exact (seg_encodes_read g (fs_data s) cs0 rest Henc Hcc).
    + apply Forall2_refl. exact chunk_ext_refl.
    + intros c kv Hc Hkv. left.
      destruct (seg_encodes_keys_data g _ cs0 Henc c kv Hc Hkv) as (o & Ho & Hp & Hty).
      pose proof (seg_encodes_only_cdata g _ cs0 Henc) as Hcd. rewrite Forall_forall in Hcd.
      specialize (Hcd c Hc). unfold only_cdata in Hcd. rewrite Forall_forall in Hcd.
      destruct (Hcd kv Hkv) as [vs Hvs].
      destruct (so_dtype o) as [dt|] eqn:Edt; [|contradiction].
      exists vs, o, dt. repeat split; try assumption. left.
      exact (seg_encodes_no_daqmx g _ cs0 Henc o Ho).
  - destruct (daqmx_seg_decodes g (fs_data s) rest Hok Hcc) as (cs_dec & cur' & Hr & Hext & Hshape).
    exists cs_dec, cur'. split; [exact Hr|]. split; [exact Hext|].
    intros c kv Hc Hkv. rewrite Forall_forall in Hshape. destruct (Hshape c Hc) as [_ Hent].
    rewrite Forall_forall in Hent. pose proof Hok as (_ & Hnd & _).
    pose proof (daqmx_seg_ok_kinds g _ Hok) as Hkinds. rewrite Forall_forall in Hkinds.
    destruct (Hent kv Hkv) as [(l & o & Hl & Ho & Hp & Hdt & _ & Hids)|(vs & o & Hv & Ho & Hp & Hdt)].
    + right. destruct (Hkinds o Ho) as (q & Hq & _).
      exists l, o, q. repeat split; try assumption.
      intros iv Hiv. destruct (Hids iv Hiv) as (o' & q' & s' & Ho' & Hp' & Hq' & Hs' & Hid').
      assert (o' = o) by (eapply (NoDup_map_inj so_path); [exact Hnd| | |congruence]; assumption).
      subst o'. rewrite Hq in Hq'. injection Hq' as <-. rewrite <- Hid'. apply in_map. exact Hs'.
    + left. destruct (Hkinds o Ho) as (q & Hq & _ & [Hraw|(s0 & dt & _ & Hdt' & Hne)]); [contradiction|].
      exists vs, o, dt. repeat split; try assumption. right. exact Hne.
Qed.

(* R5: the eager loop over segments of both kinds *)
Lemma eager_loop_content data : forall segs gs chunkss pre recv,
    wf_file segs ->
    data = pre ++ ser_file segs ->
    segs_at (blen pre) segs gs ->
    segs_content gs segs chunkss ->
    (forall g kv, In g gs -> entry_origin g kv -> entry_fits kv (alookup (fst kv) recv)) ->
    exists recv', fold_left (eager_step data) gs (Ok recv) = Ok recv' /\
                  forall p, alookup p recv' =
                            option_map (radd2 (chan_values p (concat chunkss))
                                              (fun id => chan_scaler_values p id (concat chunkss)))
                                       (alookup p recv).
Proof.
  induction segs as [|s r IH]; intros gs chunkss pre recv Hwf Hdata Hat Hcon Hfit.
  - inversion Hat; subst. inversion Hcon; subst. exists recv. split; [reflexivity|].
    intros p. cbn [concat]. destruct (alookup p recv) as [x|]; cbn [option_map]; [|reflexivity].
    f_equal. symmetry. exact (radd2_nil x).
  - inversion Hat as [|pos s' r' g gs' Hg Hat']; subst.
    inversion Hcon as [|g' gs'' s' r' cs css Hcs Hcon']; subst.
    unfold wf_file in Hwf. cbn [forallb] in Hwf. apply andb_prop in Hwf. destruct Hwf as [Hs Hr].
    cbn [fold_left]. unfold eager_step at 2. cbn [bind].
    rewrite ser_file_cons.
    destruct (seg_content_decodes g s cs (blen pre) (ser_file r) Hg Hcs) as (cs_dec & cur' & Hread & Hext & Horig).
    rewrite (read_segment_ser pre s (ser_file r) g Hs Hg), Hread. cbn [bind].
    destruct (receive_chunks_gen cs_dec recv) as (recv1 & H1 & Hlk1).
    { intros c kv Hc Hin. apply (Hfit g kv); [left; reflexivity|exact (Horig c kv Hc Hin)]. }
    rewrite H1.
    destruct (IH gs' css (pre ++ ser_seg TAG_DATA true s) recv1 Hr) as (recv' & H2 & Hlk2).
    + rewrite <- app_assoc. reflexivity.
    + rewrite blen_app. change TAG_DATA with (tag_of false). change true with (negb false).
      rewrite (blen_ser_seg false s Hs). unfold fseg_len in Hat'. exact Hat'.
    + exact Hcon'.
    + intros g0 kv Hg0 Hkv. rewrite Hlk1. apply entry_fits_radd2.
      apply (Hfit g0 kv); [right; exact Hg0|exact Hkv].
    + rewrite ser_file_cons in H2. exists recv'. split; [exact H2|].
      intros p. rewrite Hlk2, Hlk1. cbn [concat].
      destruct (alookup p recv) as [x|]; cbn [option_map]; [|reflexivity]. f_equal.
      rewrite radd2_radd2. destruct (chunks_ext_values _ _ Hext p) as [Hv Hsv].
      apply radd2_ext.
      * rewrite chan_values_app, Hv. reflexivity.
      * intros id. rewrite chan_scaler_values_app, Hsv. reflexivity.
Qed.

(* ---- the receivers get_data_receiver creates (DaqmxDataReceiver included) ---- *)

Definition recv_init2 (c : channel) : option cdata :=
  match ch_dtype c with
  | None => None
  | Some dt =>
    if dt =? T_DAQMX then
      match ch_scalers c with
      | Some st => Some (CScalers (map (fun kv => (fst kv, [])) st))
      | None => None
      end
    else Some (CData [])
  end.

Lemma receiver0_gen c :
  (ch_dtype c = Some T_DAQMX -> ch_scalers c <> None) -> receiver0 c = Ok (recv_init2 c).
Proof.
  unfold receiver0, recv_init2. destruct (ch_dtype c) as [dt|]; [|reflexivity].
  intros H. destruct (dt =? T_DAQMX) eqn:E; [|reflexivity].
  destruct (ch_scalers c) as [st|]; [reflexivity|].
  exfalso. apply H; [f_equal; lia|reflexivity].
Qed.

Lemma recv0_fold_gen : forall chans acc,
    (forall c, In c chans -> ch_dtype c = Some T_DAQMX -> ch_scalers c <> None) ->
    NoDup (map ch_path chans) ->
    exists recv0, fold_left recv0_step chans (Ok acc) = Ok recv0 /\
                  (forall c, In c chans -> alookup (ch_path c) recv0 = Some (recv_init2 c)) /\
                  (forall p, ~ In p (map ch_path chans) -> alookup p recv0 = alookup p acc).
Proof.
  induction chans as [|c chans IH]; intros acc Hsc Hnodup.
  - exists acc. split; [reflexivity|]. split; [intros c []|reflexivity].
  - cbn [map] in Hnodup. inversion Hnodup as [|x l Hnin Hnodup']; subst x l.
    cbn [fold_left]. unfold recv0_step at 2. cbn [bind].
    rewrite (receiver0_gen c) by (apply Hsc; left; reflexivity). cbn [bind].
    destruct (IH (aset (ch_path c) (recv_init2 c) acc)) as (recv0 & Hfold & Hin & Hout).
    { intros c' Hc'. apply Hsc. right. exact Hc'. }
    { exact Hnodup'. }
    exists recv0. split; [exact Hfold|]. split.
    + intros c' [<-|Hc'].
      * rewrite (Hout _ Hnin), alookup_aset, bytes_eqb_refl. reflexivity.
      * apply Hin. exact Hc'.
    + intros p Hp. rewrite Hout by (intros H; apply Hp; right; exact H).
      rewrite alookup_aset. destruct (bytes_eqb p (ch_path c)) eqn:E; [|reflexivity].
      apply bytes_eqb_eq in E. exfalso. apply Hp. left. symmetry. exact E.
Qed.

(* the channel the hierarchy builds for a typed segment object *)
Lemma typed_object_channel segs w st h g o dt :
  sm_run segs w = Ok st ->
  build_hierarchy (rs_om st) = Ok h ->
  om_paths_canonical (rs_om st) ->
  typed_objects_are_channels (rs_om st) ->
  In g (rs_segments st) -> In o (sg_objs g) -> so_dtype o = Some dt ->
  exists m ch, alookup (so_path o) (rs_om st) = Some m /\ mtracks m o /\
               In ch (all_channels h) /\ ch_path ch = so_path o /\
               ch_dtype ch = Some dt /\ ch_scalers ch = om_scalers m /\ ch_len ch = om_len m.
Proof.
  intros Hrun Hh Hcanon Hshape Hg Ho Hdt.
  destruct (sm_run_tracks segs w st Hrun g o Hg Ho) as (m & Hm & Ht).
  destruct (sm_run_trace segs w st Hrun) as (_ & _ & Hnd & _).
  pose proof (alookup_In _ _ _ Hm) as Hin.
  assert (Hmdt : om_dtype m = Some dt) by (apply (proj1 Ht); exact Hdt).
  destruct (Hshape _ m Hin) as (gn & cn & Hparse); [rewrite Hmdt; discriminate|].
  exists m, (chan_of_om gn cn m). split; [exact Hm|]. split; [exact Ht|].
  split; [exact (build_hierarchy_complete _ h _ m gn cn Hh Hnd Hcanon Hin Hparse)|].
  split; [exact (Hcanon _ m gn cn Hin Hparse)|]. split; [exact Hmdt|]. split; reflexivity.
Qed.

(* F1: every entry of every decoded chunk can be received *)
Lemma entry_origin_fits segs st h recv0 g kv :
  sm_run segs false = Ok st ->
  build_hierarchy (rs_om st) = Ok h ->
  om_paths_canonical (rs_om st) ->
  typed_objects_are_channels (rs_om st) ->
  (forall c, In c (all_channels h) -> alookup (ch_path c) recv0 = Some (recv_init2 c)) ->
  In g (rs_segments st) -> entry_origin g kv ->
  entry_fits kv (alookup (fst kv) recv0).
Proof.
  intros Hrun Hh Hcanon Hshape Hrecv Hg Horig.
  assert (Hsub : forall o, In o (data_objs (sg_objs g)) -> In o (sg_objs g)).
  { intros o Ho. unfold data_objs in Ho. apply filter_In in Ho. tauto. }
  destruct Horig as [(vs & o & dt & Hv & Ho & Hp & Hdt & Hnq)|(l & o & q & Hl & Ho & Hp & Hdt & Hq & Hids)].
  - destruct (typed_object_channel segs false st h g o dt Hrun Hh Hcanon Hshape Hg (Hsub o Ho) Hdt)
      as (m & ch & Hm & Ht & Hch & Hcp & Hcd & Hcs & _).
    assert (Hne : dt <> T_DAQMX).
    { destruct Hnq as [Hnone|Hne]; [|exact Hne]. intros ->.
      destruct (sm_run_dq segs false st Hrun g o Hg (Hsub o Ho)) as [Hdq _].
      apply (Hdq Hdt). exact Hnone. }
    unfold entry_fits. rewrite Hv, <- Hp, <- Hcp, (Hrecv ch Hch). unfold recv_init2. rewrite Hcd.
    replace (dt =? T_DAQMX) with false by lia. eexists. reflexivity.
  - destruct (typed_object_channel segs false st h g o T_DAQMX Hrun Hh Hcanon Hshape Hg (Hsub o Ho) Hdt)
      as (m & ch & Hm & Ht & Hch & Hcp & Hcd & Hcs & _).
    destruct (proj2 Ht q Hq) as (sts & Hsts & Hnd & Heq).
    unfold entry_fits. rewrite Hl, <- Hp, <- Hcp, (Hrecv ch Hch). unfold recv_init2.
    rewrite Hcd, Z.eqb_refl, Hcs, Hsts. eexists. split; [reflexivity|].
    rewrite map_keys_same. split; [exact Hnd|].
    intros iv Hiv. apply (st_equiv_keys _ _ _ Heq). apply scaler_types_keys. exact (Hids iv Hiv).
Qed.

(* every DaqMxRawData channel of the hierarchy has scaler types *)
Lemma daqmx_channels_have_scalers segs w st h :
  sm_run segs w = Ok st -> build_hierarchy (rs_om st) = Ok h ->
  forall c, In c (all_channels h) -> ch_dtype c = Some T_DAQMX -> ch_scalers c <> None.
Proof.
  intros Hrun Hh c Hc Hdt.
  destruct (build_hierarchy_channels _ _ Hh c Hc) as (pstr & m & Hin & _ & Heq).
  destruct (sm_run_trace segs w st Hrun) as (_ & _ & Hnd & _).
  pose proof (alookup_in_nodup pstr m (rs_om st) Hnd Hin) as Hlk.
  assert (Hm : om_dtype m = Some T_DAQMX) by (rewrite <- Hdt, Heq; reflexivity).
  destruct (daqmx_typed_has_scalers segs w st pstr m Hrun Hlk Hm) as (sts & Hsts & _).
  rewrite Heq. cbn [chan_of_om ch_scalers]. rewrite Hsts. discriminate.
Qed.

(* ---- what a channel's receiver holds after the data pass ---- *)

Definition expected_data_dq (chunks : list chunk) (c : channel) : option cdata :=
  match ch_dtype c with
  | None => None
  | Some dt =>
    if dt =? T_DAQMX then
      match ch_scalers c with
      | Some sts =>
        Some (CScalers (map (fun kv => (fst kv, chan_scaler_values (ch_path c) (fst kv) chunks)) sts))
      | None => None
      end
    else Some (CData (chan_values (ch_path c) chunks))
  end.

Lemma radd2_recv_init2 chunks c :
  radd2 (chan_values (ch_path c) chunks) (fun id => chan_scaler_values (ch_path c) id chunks)
        (recv_init2 c)
  = expected_data_dq chunks c.
Proof.
  unfold recv_init2, expected_data_dq. destruct (ch_dtype c) as [dt|]; [|reflexivity].
  destruct (dt =? T_DAQMX); [|reflexivity].
  destruct (ch_scalers c) as [sts|]; [|reflexivity].
  cbn [radd2]. rewrite map_map. reflexivity.
Qed.

Theorem rd_eager_content segs st h chunkss :
  wf_file segs ->
  sm_run segs false = Ok st ->
  build_hierarchy (rs_om st) = Ok h ->
  segs_content (rs_segments st) segs chunkss ->
  om_paths_canonical (rs_om st) ->
  typed_objects_are_channels (rs_om st) ->
  exists recv, rd_eager st h (ser_file segs) = Ok recv /\
               forall c, In c (all_channels h) ->
                         alookup (ch_path c) recv = Some (expected_data_dq (concat chunkss) c).
Proof.
  intros Hwf Hrun Hh Hcon Hcanon Hshape.
  rewrite rd_eager_fold.
  destruct (recv0_fold_gen (all_channels h) []
              (daqmx_channels_have_scalers segs false st h Hrun Hh)
              (channel_paths_distinct_ser _ h Hh Hcanon)) as (recv0 & H0 & Hin0 & _).
  rewrite H0. cbn [bind].
  pose proof (sm_segment_positions segs false st Hrun) as Hat.
  destruct (eager_loop_content (ser_file segs) segs (rs_segments st) chunkss [] recv0 Hwf eq_refl Hat Hcon)
    as (recv & Hfold & Hlk).
  - intros g kv Hg Hkv.
    exact (entry_origin_fits segs st h recv0 g kv Hrun Hh Hcanon Hshape Hin0 Hg Hkv).
  - exists recv. split; [exact Hfold|]. intros c Hc.
    rewrite Hlk, (Hin0 c Hc). cbn [option_map]. rewrite radd2_recv_init2. reflexivity.
Qed.

(* ======================================================================== *)
(* Part B.6: len(channel) is the number of values read                      *)
(* ======================================================================== *)

Lemma path_count_absent p w objs :
  (forall o, In o objs -> so_path o <> p) -> path_count p w objs = 0.
Proof.
  induction objs as [|o objs IH]; intros H; [reflexivity|]. rewrite path_count_cons.
  rewrite IH by (intros o' Ho'; apply H; right; exact Ho').
  destruct (bytes_eqb p (so_path o)) eqn:E; [|reflexivity].
  apply bytes_eqb_eq in E. exfalso. apply (H o (or_introl eq_refl)). symmetry. exact E.
Qed.

Lemma path_count_unique p w objs o :
  NoDup (map so_path objs) -> In o objs -> so_path o = p -> path_count p w objs = w o.
Proof.
  induction objs as [|a objs IH]; intros Hnd Hin Hp; [contradiction|].
  cbn [map] in Hnd. inversion Hnd as [|x l Hnin Hnd']; subst x l. rewrite path_count_cons.
  destruct Hin as [->|Hin].
  - rewrite <- Hp, bytes_eqb_refl. rewrite path_count_absent; [lia|].
    intros o' Ho' E. apply Hnin. rewrite <- E. apply in_map. exact Ho'.
  - rewrite (IH Hnd' Hin Hp). destruct (bytes_eqb p (so_path a)) eqn:E; [|lia].
    apply bytes_eqb_eq in E. exfalso. apply Hnin. rewrite <- E, <- Hp. apply in_map. exact Hin.
Qed.

Lemma direct_scaler_chunk_length e kind nv dims data j s :
  scaler_ok kind nv dims s ->
  length (direct_scaler_chunk e kind dims data j s) = Z.to_nat nv.
Proof.
  intros (dt & sz & w & Hty & Hsz & _ & _ & Hnth & _). unfold direct_scaler_chunk.
  rewrite Hnth, Hty, Hsz, map_length, seq_length. reflexivity.
Qed.

Lemma chan_scaler_values_length_const p id (k : Z) : forall chunks : list chunk,
    Forall (fun c => Z.of_nat (length (chunk_scaler_values p id c)) = k) chunks ->
    Z.of_nat (length (chan_scaler_values p id chunks)) = Z.of_nat (length chunks) * k.
Proof.
  induction 1 as [|c chunks Hc _ IH]; [reflexivity|].
  rewrite chan_scaler_values_cons, app_length, Nat2Z.inj_add, IH, Hc. cbn [length]. lia.
Qed.

Definition typed_view (p : bytes) (g : segment) : Prop :=
  forall o, In o (data_objs (sg_objs g)) -> so_path o = p -> so_dtype o <> Some T_DAQMX.

Definition raw_view (p : bytes) (id : Z) (g : segment) : Prop :=
  forall o, In o (data_objs (sg_objs g)) -> so_path o = p -> so_dtype o <> None ->
            so_dtype o = Some T_DAQMX /\
            exists q, so_daqmx o = Some q /\ In id (map sc_id (dq_scalers q)).

Lemma daqmx_seg_total g data p :
  daqmx_seg_ok g data ->
  calculate_chunks (sg_toc g) (sg_incomplete g) (sg_objs g) (blen data) = Ok (sg_nchunks g, sg_final g) ->
  seg_total p g = sg_nchunks g * path_count p so_nvals (data_objs (sg_objs g)) /\
  0 <= sg_nchunks g /\
  length (direct_chunks g data) = Z.to_nat (sg_nchunks g).
Proof.
  intros Hok Hcc. destruct (daqmx_seg_ok_nchunks g data Hok Hcc) as (Hf & Hn & _ & Hdn).
  split; [|split; [exact Hn|]].
  - unfold seg_total. rewrite Hf, obj_total_data_objs.
    apply (obj_total_no_final p _ _ (data_objs_have_data _)).
  - unfold direct_chunks. rewrite map_length, seq_length. exact Hdn.
Qed.

Lemma obj_nvals_nonneg g data o q s :
  daqmx_seg_ok g data -> In o (data_objs (sg_objs g)) -> so_daqmx o = Some q -> In s (dq_scalers q) ->
  scaler_ok (dq_kind q) (so_nvals o) (dims_spec (data_objs (sg_objs g))) s /\ 0 <= so_nvals o.
Proof.
  intros Hok Ho Hq Hs. destruct (daqmx_seg_ok_obj g data o Hok Ho) as (q' & Hq' & _ & _ & _ & Hsc).
  rewrite Hq in Hq'. injection Hq' as <-. rewrite Forall_forall in Hsc. pose proof (Hsc s Hs) as Hso.
  split; [exact Hso|]. destruct Hso as (dt & sz & w & _ & _ & _ & _ & Hnth & _).
  destruct (daqmx_seg_ok_dims g data Hok) as [_ Hnn]. rewrite Forall_forall in Hnn.
  apply (Hnn (so_nvals o, w)). eapply nth_error_In. exact Hnth.
Qed.

Lemma daqmx_seg_count_typed g data p :
  daqmx_seg_ok g data ->
  calculate_chunks (sg_toc g) (sg_incomplete g) (sg_objs g) (blen data) = Ok (sg_nchunks g, sg_final g) ->
  typed_view p g ->
  Z.of_nat (length (chan_values p (direct_chunks g data))) = seg_total p g.
Proof.
  intros Hok Hcc Hview. destruct (daqmx_seg_total g data p Hok Hcc) as (Htot & Hn & Hlen).
  rewrite Htot.
  rewrite (chan_values_length_const p (path_count p so_nvals (data_objs (sg_objs g)))).
  - rewrite Hlen, Z2Nat.id by exact Hn. reflexivity.
  - unfold direct_chunks. apply Forall_map. apply Forall_forall. intros j _. cbn beta.
    rewrite chunk_values_direct_chunk. pose proof Hok as (_ & Hnd & _).
    destruct (path_in_dec p (data_objs (sg_objs g))) as [(o & Ho & Hp)|Habs].
    + rewrite (path_count_unique p so_nvals _ o Hnd Ho Hp). subst p.
      rewrite (flat_map_unique so_path
                 (fun o0 => chunk_values (so_path o)
                              (direct_obj_entries (toc_endian (sg_toc g))
                                 (dims_spec (data_objs (sg_objs g))) data j o0)) _ o Hnd Ho).
      2:{ intros y _ Hne. exact (proj1 (direct_entries_other _ _ _ _ y (so_path o) Hne)). }
      pose proof (daqmx_seg_ok_kinds g data Hok) as Hk. rewrite Forall_forall in Hk.
      destruct (Hk o Ho) as (q & Hq & _ & [Hraw|(s & dt & Hs & Hdt & Hne)]).
      * exfalso. exact (Hview o Ho eq_refl Hraw).
      * rewrite (proj1 (direct_entries_typed _ _ _ _ o q s dt Hq Hdt Hne Hs)).
        destruct (obj_nvals_nonneg g data o q s Hok Ho Hq) as [Hso Hnv]; [rewrite Hs; left; reflexivity|].
        rewrite (direct_scaler_chunk_length _ _ _ _ _ _ _ Hso). lia.
    + rewrite (path_count_absent p so_nvals _ Habs).
      rewrite flat_map_all_nil; [reflexivity|]. intros y Hy.
      exact (proj1 (direct_entries_other _ _ _ _ y p (Habs y Hy))).
Qed.

Lemma daqmx_seg_count_raw g data p id :
  daqmx_seg_ok g data ->
  calculate_chunks (sg_toc g) (sg_incomplete g) (sg_objs g) (blen data) = Ok (sg_nchunks g, sg_final g) ->
  raw_view p id g ->
  Z.of_nat (length (chan_scaler_values p id (direct_chunks g data))) = seg_total p g.
Proof.
  intros Hok Hcc Hview. destruct (daqmx_seg_total g data p Hok Hcc) as (Htot & Hn & Hlen).
  rewrite Htot.
  rewrite (chan_scaler_values_length_const p id (path_count p so_nvals (data_objs (sg_objs g)))).
  - rewrite Hlen, Z2Nat.id by exact Hn. reflexivity.
  - unfold direct_chunks. apply Forall_map. apply Forall_forall. intros j _. cbn beta.
    rewrite chunk_scaler_values_direct_chunk. pose proof Hok as (_ & Hnd & _).
    destruct (path_in_dec p (data_objs (sg_objs g))) as [(o & Ho & Hp)|Habs].
    + rewrite (path_count_unique p so_nvals _ o Hnd Ho Hp). subst p.
      rewrite (flat_map_unique so_path
                 (fun o0 => chunk_scaler_values (so_path o) id
                              (direct_obj_entries (toc_endian (sg_toc g))
                                 (dims_spec (data_objs (sg_objs g))) data j o0)) _ o Hnd Ho).
      2:{ intros y _ Hne. exact (proj2 (direct_entries_other _ _ _ _ y (so_path o) Hne) id). }
      pose proof (daqmx_seg_ok_kinds g data Hok) as Hk. rewrite Forall_forall in Hk.
      destruct (Hk o Ho) as (q & Hq & Hids & Hkind).
      assert (Hty : so_dtype o <> None) by (destruct Hkind as [H|(s & dt & _ & H & _)]; rewrite H; discriminate).
      destruct (Hview o Ho eq_refl Hty) as (Hraw & q' & Hq' & Hin).
      rewrite Hq in Hq'. injection Hq' as <-.
      rewrite (proj2 (direct_entries_raw _ _ _ _ o q Hq Hraw) id).
      apply in_map_iff in Hin. destruct Hin as (s & Hsid & Hs).
      rewrite (flat_map_unique sc_id _ _ s Hids Hs).
      * replace (sc_id s =? id) with true by lia.
        destruct (obj_nvals_nonneg g data o q s Hok Ho Hq Hs) as [Hso Hnv].
        rewrite (direct_scaler_chunk_length _ _ _ _ _ _ _ Hso). lia.
      * intros y _ Hy. replace (sc_id y =? id) with false by lia. reflexivity.
    + rewrite (path_count_absent p so_nvals _ Habs).
      rewrite flat_map_all_nil; [reflexivity|]. intros y Hy.
      exact (proj2 (direct_entries_other _ _ _ _ y p (Habs y Hy)) id).
Qed.

Lemma only_cdata_scaler_values p id (c : chunk) : only_cdata c -> chunk_scaler_values p id c = [].
Proof.
  intros H. apply flat_map_all_nil. intros kv Hkv. unfold only_cdata in H. rewrite Forall_forall in H.
  destruct (H kv Hkv) as [vs Hvs]. unfold entry_scaler_values. rewrite Hvs.
  destruct (bytes_eqb p (fst kv)); reflexivity.
Qed.

Lemma seg_content_count_typed g s cs pos p :
  seg_at pos s g -> seg_content g s cs -> typed_view p g ->
  Z.of_nat (length (chan_values p cs)) = seg_total p g.
Proof.
  intros (_ & _ & _ & _ & _ & Hcc) [cs0 Henc|Hok] Hview.
  - exact (seg_encodes_count g (fs_data s) cs0 p Henc Hcc).
  - exact (daqmx_seg_count_typed g (fs_data s) p Hok Hcc Hview).
Qed.

Lemma seg_content_count_raw g s cs pos p id :
  seg_at pos s g -> seg_content g s cs -> raw_view p id g ->
  Z.of_nat (length (chan_scaler_values p id cs)) = seg_total p g.
Proof.
  intros (_ & _ & _ & _ & _ & Hcc) [cs0 Henc|Hok] Hview.
  - (* an ordinary segment holds no scaler data, and nothing under this path *)
    rewrite <- (seg_encodes_count g (fs_data s) cs0 p Henc Hcc).
    pose proof (seg_encodes_only_cdata g _ cs0 Henc) as Hcd.
    pose proof (seg_encodes_nodup_keys g _ cs0 Henc) as Hnd.
    rewrite Forall_forall in Hcd, Hnd.
    unfold chan_scaler_values, chan_values.
    rewrite (flat_map_all_nil (chunk_scaler_values p id)) by (intros c Hc; apply only_cdata_scaler_values; exact (Hcd c Hc)).
    rewrite (flat_map_all_nil (chunk_values p)); [reflexivity|].
    intros c Hc. apply chunk_values_not_in. intros Hin. apply in_map_iff in Hin.
    destruct Hin as (kv & Hk & Hkv).
    destruct (seg_encodes_keys_data g _ cs0 Henc c kv Hc Hkv) as (o & Ho & Hp & Hty).
    destruct (Hview o Ho (eq_trans Hp Hk) Hty) as (_ & q & Hq & _).
    rewrite (seg_encodes_no_daqmx g _ cs0 Henc o Ho) in Hq. discriminate.
  - exact (daqmx_seg_count_raw g (fs_data s) p id Hok Hcc Hview).
Qed.

Lemma segs_content_total_typed p : forall gs segs chunkss pos,
    segs_at pos segs gs -> segs_content gs segs chunkss ->
    (forall g, In g gs -> typed_view p g) ->
    zsum (map (seg_total p) gs) = Z.of_nat (length (chan_values p (concat chunkss))).
Proof.
  induction gs as [|g gs IH]; intros segs chunkss pos Hat Hcon Hview.
  - inversion Hcon; subst. reflexivity.
  - inversion Hcon as [|g' gs' s r cs css Hcs Hcon']; subst.
    inversion Hat as [|pos' s' r' g' gs' Hg Hat']; subst.
    cbn [map zsum fold_right concat]. rewrite chan_values_app, app_length, Nat2Z.inj_add.
    fold (zsum (map (seg_total p) gs)).
    rewrite (IH r css _ Hat' Hcon') by (intros g0 Hg0; apply Hview; right; exact Hg0).
    rewrite (seg_content_count_typed g s cs pos p Hg Hcs (Hview g (or_introl eq_refl))). reflexivity.
Qed.

Lemma segs_content_total_raw p id : forall gs segs chunkss pos,
    segs_at pos segs gs -> segs_content gs segs chunkss ->
    (forall g, In g gs -> raw_view p id g) ->
    zsum (map (seg_total p) gs) = Z.of_nat (length (chan_scaler_values p id (concat chunkss))).
Proof.
  induction gs as [|g gs IH]; intros segs chunkss pos Hat Hcon Hview.
  - inversion Hcon; subst. reflexivity.
  - inversion Hcon as [|g' gs' s r cs css Hcs Hcon']; subst.
    inversion Hat as [|pos' s' r' g' gs' Hg Hat']; subst.
    cbn [map zsum fold_right concat]. rewrite chan_scaler_values_app, app_length, Nat2Z.inj_add.
    fold (zsum (map (seg_total p) gs)).
    rewrite (IH r css _ Hat' Hcon') by (intros g0 Hg0; apply Hview; right; exact Hg0).
    rewrite (seg_content_count_raw g s cs pos p id Hg Hcs (Hview g (or_introl eq_refl))). reflexivity.
Qed.

Lemma chan_from_om_canonical2 om ch :
  om_paths_canonical om -> chan_from_om om ch ->
  exists m, In (ch_path ch, m) om /\ ch_dtype ch = om_dtype m /\ ch_len ch = om_len m /\
            ch_scalers ch = om_scalers m.
Proof.
  intros Hcanon (pstr & m & Hin & Hp & Heq).
  assert (Hpath : ch_path ch = pstr).
  { rewrite Heq. cbn [chan_of_om ch_path]. exact (Hcanon pstr m _ _ Hin Hp). }
  exists m. rewrite Hpath. split; [exact Hin|]. repeat split; rewrite Heq; reflexivity.
Qed.

(* every receiver ends up with exactly len(channel) values (per scale id for
   DaqMxRawData channels) *)
Theorem lengths_consistent_content segs w st h chunkss :
  sm_run segs w = Ok st ->
  build_hierarchy (rs_om st) = Ok h ->
  segs_content (rs_segments st) segs chunkss ->
  om_paths_canonical (rs_om st) ->
  forall c, In c (all_channels h) ->
            cdata_consistent (ch_len c) (expected_data_dq (concat chunkss) c) = true.
Proof.
  intros Hrun Hh Hcon Hcanon c Hc.
  destruct (chan_from_om_canonical2 _ c Hcanon (build_hierarchy_channels _ _ Hh c Hc))
    as (m & Hin & Hdt & Hlen & Hsc).
  destruct (sm_run_trace segs w st Hrun) as (Hat & Hlens & Hnd & _).
  pose proof (alookup_in_nodup _ m (rs_om st) Hnd Hin) as Hlk.
  assert (Hlen' : ch_len c = zsum (map (seg_total (ch_path c)) (rs_segments st))).
  { rewrite Hlen, <- Hlens. unfold get_ometa. rewrite Hlk. reflexivity. }
  assert (Hsub : forall g o, In o (data_objs (sg_objs g)) -> In o (sg_objs g)).
  { intros g o Ho. unfold data_objs in Ho. apply filter_In in Ho. tauto. }
  (* what the metadata says about any segment object under this channel's path *)
  assert (Htr : forall g o, In g (rs_segments st) -> In o (data_objs (sg_objs g)) ->
                            so_path o = ch_path c -> mtracks m o).
  { intros g o Hg Ho Hp. destruct (sm_run_tracks segs w st Hrun g o Hg (Hsub g o Ho)) as (m' & Hm' & Ht).
    rewrite Hp, Hlk in Hm'. injection Hm' as <-. exact Ht. }
  unfold expected_data_dq. destruct (ch_dtype c) as [dt|] eqn:Edt; [|reflexivity].
  destruct (dt =? T_DAQMX) eqn:Edq.
  - assert (dt = T_DAQMX) by lia. subst dt.
    destruct (ch_scalers c) as [sts|] eqn:Est; [|reflexivity].
    cbn [cdata_consistent]. apply forallb_forall. intros iv Hiv. apply in_map_iff in Hiv.
    destruct Hiv as (kv & <- & Hkv). cbn [snd fst]. apply Z.eqb_eq. rewrite Hlen'. symmetry.
    apply (segs_content_total_raw (ch_path c) (fst kv) _ segs chunkss 0 Hat Hcon).
    intros g Hg o Ho Hp Hty. pose proof (Htr g o Hg Ho Hp) as [Ht1 Ht2].
    destruct (so_dtype o) as [dt'|] eqn:Eo; [|contradiction].
    pose proof (Ht1 dt' eq_refl) as Hm. rewrite <- Hdt in Hm. injection Hm as <-.
    split; [reflexivity|].
    destruct (sm_run_dq segs w st Hrun g o Hg (Hsub g o Ho)) as [Hdq _].
    destruct (so_daqmx o) as [q|] eqn:Hq; [|exfalso; apply (Hdq Eo); reflexivity].
    exists q. split; [reflexivity|].
    destruct (Ht2 q eq_refl) as (sts' & Hsts' & _ & Heq).
    rewrite <- Hsc in Hsts'. injection Hsts' as <-.
    apply scaler_types_keys. apply (st_equiv_keys _ _ _ Heq). apply (in_map fst sts kv). exact Hkv.
  - cbn [cdata_consistent]. apply Z.eqb_eq. rewrite Hlen'. symmetry.
    apply (segs_content_total_typed (ch_path c) _ segs chunkss 0 Hat Hcon).
    intros g Hg o Ho Hp Eo. pose proof (Htr g o Hg Ho Hp) as [Ht1 _].
    pose proof (Ht1 _ Eo) as Hm. rewrite <- Hdt in Hm. injection Hm as ->. lia.
Qed.

(* ======================================================================== *)
(* Part B.7: the whole read                                                 *)
(* ======================================================================== *)

Definition expected_tokens_dq (st : rstate) (h : hierarchy) (chunks : list chunk) : list tok :=
  TZ (match rs_version st with Some v => v | None => 0 end) ::
  obs_hierarchy h (fun c => obs_cdata (expected_data_dq chunks c)) ++ obs_status st.

Theorem read_correct_daqmx segs st h chunkss :
  wf_file segs ->
  sm_run segs false = Ok st ->
  build_hierarchy (rs_om st) = Ok h ->
  segs_content (rs_segments st) segs chunkss ->
  om_paths_canonical (rs_om st) ->
  typed_objects_are_channels (rs_om st) ->
  rd_all (ser_file segs) = Ok (expected_tokens_dq st h (concat chunkss), true).
Proof.
  intros Hwf Hrun Hh Hcon Hcanon Hshape.
  unfold rd_all, rd_all_from.
  rewrite (rd_metadata_ser segs false Hwf), Hrun. cbn [bind]. rewrite Hh. cbn [bind].
  destruct (rd_eager_content segs st h chunkss Hwf Hrun Hh Hcon Hcanon Hshape) as (recv & Heager & Hlk).
  rewrite Heager. cbn [bind]. unfold expected_tokens_dq. f_equal. f_equal.
  - f_equal. f_equal. apply obs_hierarchy_ext. intros c Hc. rewrite (Hlk c Hc). reflexivity.
  - apply forallb_forall. intros c Hc. rewrite (Hlk c Hc).
    exact (lengths_consistent_content segs false st h chunkss Hrun Hh Hcon Hcanon c Hc).
Qed.

(* read_correct (ordinary files) is the special case without DAQmx segments *)
Lemma segs_encode_content : forall gs segs chunkss,
    segs_encode gs segs chunkss -> segs_content gs segs chunkss.
Proof.
  induction 1 as [|g gs s r cs css Hcs _ IH]; constructor; [apply sct_plain; exact Hcs|exact IH].
Qed.

Lemma expected_data_dq_plain chunks c :
  ch_dtype c <> Some T_DAQMX -> expected_data_dq chunks c = expected_data chunks c.
Proof.
  unfold expected_data_dq, expected_data. destruct (ch_dtype c) as [dt|]; [|reflexivity].
  intros H. destruct (dt =? T_DAQMX) eqn:E; [|reflexivity]. exfalso. apply H. f_equal. lia.
Qed.

(* (A) used: the addressing theorems of Proofs/DaqmxProofs.v with the buffer
   dimensions COMPUTED from the object list instead of assumed *)
Theorem daqmx_segment_addressing_consistent sg cur cs cur' o q s k n w dt sz j c :
  let dobjs := data_objs (sg_objs sg) in
  let dims := dims_spec dobjs in
  dobjs <> [] -> dq_indexes_consistent dobjs -> Forall (fun w => 0 <= w) (common_widths dobjs) ->
  read_segment_chunks sg cur = Ok (cs, cur') ->
  In o dobjs -> NoDup (map so_path dobjs) ->
  so_daqmx o = Some q -> so_dtype o = Some T_DAQMX ->
  In s (dq_scalers q) -> NoDup (map sc_id (dq_scalers q)) ->
  nth_error dims k = Some (n, w) -> sc_buf s = Z.of_nat k ->
  0 < w -> 0 <= sc_off s ->
  daqmx_type (sc_type s) = Some dt -> tds_size dt = Some (Some sz) ->
  nth_error cs j = Some c ->
  let base := Z.of_nat j * chunk_bytes dims + buffer_base dims k in
  exists vs,
    holds (so_path o) (sc_id s) vs c /\
    length vs = length (items w (read_at base (w * n) cur)) /\
    forall i, (i < length vs)%nat ->
              nth_error vs i
              = Some (scaler_value_at (toc_endian (sg_toc sg)) (dq_kind q) s dt sz base w cur i).
Proof.
  intros dobjs dims Hne Hc Hw Hread Ho Hnd Hq Hdt Hs Hids Hk Hb Hwp Hoff Hty Hsz Hj.
  apply (daqmx_segment_addressing sg cur cs cur' dims o q s k n w dt sz j c); try assumption.
  - apply seg_layout_daqmx; [exact Hne|exact (consistent_all_daqmx _ Hc)].
  - exact (buffer_dims_consistent _ Hc).
  - exact (dims_spec_nonneg _ Hw).
Qed.

Theorem daqmx_segment_addressing_typed_consistent sg cur cs cur' o q s dto k n w dt sz j c :
  let dobjs := data_objs (sg_objs sg) in
  let dims := dims_spec dobjs in
  dobjs <> [] -> dq_indexes_consistent dobjs -> Forall (fun w => 0 <= w) (common_widths dobjs) ->
  read_segment_chunks sg cur = Ok (cs, cur') ->
  In o dobjs -> NoDup (map so_path dobjs) ->
  so_daqmx o = Some q -> so_dtype o = Some dto -> dto <> T_DAQMX -> dq_scalers q = [s] ->
  nth_error dims k = Some (n, w) -> sc_buf s = Z.of_nat k ->
  0 < w -> 0 <= sc_off s ->
  daqmx_type (sc_type s) = Some dt -> tds_size dt = Some (Some sz) ->
  nth_error cs j = Some c ->
  let base := Z.of_nat j * chunk_bytes dims + buffer_base dims k in
  exists vs,
    alookup (so_path o) c = Some (CData vs) /\
    length vs = length (items w (read_at base (w * n) cur)) /\
    forall i, (i < length vs)%nat ->
              nth_error vs i
              = Some (scaler_value_at (toc_endian (sg_toc sg)) (dq_kind q) s dt sz base w cur i).
Proof.
  intros dobjs dims Hne Hc Hw Hread Ho Hnd Hq Hdt Hnedt Hs Hk Hb Hwp Hoff Hty Hsz Hj.
  apply (daqmx_segment_addressing_typed sg cur cs cur' dims o q s dto k n w dt sz j c); try assumption.
  - apply seg_layout_daqmx; [exact Hne|exact (consistent_all_daqmx _ Hc)].
  - exact (buffer_dims_consistent _ Hc).
  - exact (dims_spec_nonneg _ Hw).
Qed.

(* ---- a sound boolean check of [daqmx_seg_ok] ---- *)

Fixpoint nodup_z_b (l : list Z) : bool :=
  match l with
  | [] => true
  | x :: r => negb (existsb (Z.eqb x) r) && nodup_z_b r
  end.

Lemma nodup_z_b_sound l : nodup_z_b l = true -> NoDup l.
Proof.
  induction l as [|x r IH]; intros H; [constructor|].
  cbn [nodup_z_b] in H. apply andb_prop in H. destruct H as [Hx Hr].
  constructor; [|apply IH; exact Hr].
  intros Hin. apply negb_true_iff in Hx.
  assert (Hex : existsb (Z.eqb x) r = true).
  { apply existsb_exists. exists x. split; [exact Hin|apply Z.eqb_refl]. }
  rewrite Hex in Hx. discriminate.
Qed.

Definition scaler_ok_b (kind nvals : Z) (dims : list (Z * Z)) (s : scaler) : bool :=
  match daqmx_type (sc_type s) with
  | Some dt =>
    match tds_size dt with
    | Some (Some sz) =>
      (0 <=? sc_off s) && (0 <=? sc_buf s) &&
      match nth_error dims (Z.to_nat (sc_buf s)) with
      | Some (n, w) =>
        (n =? nvals) &&
        ((if kind =? DIGITAL_LINE_SCALER then sc_off s / 8 else sc_off s) + sz <=? w)
      | None => false
      end
    | _ => false
    end
  | None => false
  end.

Lemma scaler_ok_b_sound kind nvals dims s :
  scaler_ok_b kind nvals dims s = true -> scaler_ok kind nvals dims s.
Proof.
  unfold scaler_ok_b, scaler_ok.
  destruct (daqmx_type (sc_type s)) as [dt|] eqn:Edt; [|discriminate].
  destruct (tds_size dt) as [[sz|]|] eqn:Esz; try discriminate.
  destruct (nth_error dims (Z.to_nat (sc_buf s))) as [[n w]|] eqn:En; intros H.
  - exists dt, sz, w. split; [reflexivity|]. split; [exact Esz|].
    split; [lia|]. split; [lia|]. split; [|lia].
    replace nvals with n by lia. reflexivity.
  - rewrite andb_false_r in H. discriminate.
Qed.

Definition daqmx_obj_ok_b (dobjs : list sobj) (o : sobj) : bool :=
  match so_daqmx o with
  | None => false
  | Some q =>
    zlist_eqb (dq_widths q) (common_widths dobjs) &&
    nodup_z_b (map sc_id (dq_scalers q)) &&
    (oz_eqb (so_dtype o) (Some T_DAQMX) ||
     match dq_scalers q, so_dtype o with
     | [_], Some dt => negb (dt =? T_DAQMX)
     | _, _ => false
     end) &&
    forallb (scaler_ok_b (dq_kind q) (so_nvals o) (dims_spec dobjs)) (dq_scalers q)
  end.

Lemma daqmx_obj_ok_b_sound dobjs o : daqmx_obj_ok_b dobjs o = true -> daqmx_obj_ok dobjs o.
Proof.
  unfold daqmx_obj_ok_b, daqmx_obj_ok. destruct (so_daqmx o) as [q|]; [|discriminate].
  intros H. apply andb_prop in H. destruct H as [H Hsc]. apply andb_prop in H. destruct H as [H Hkind].
  apply andb_prop in H. destruct H as [Hw Hids].
  exists q. split; [reflexivity|]. split; [apply zlist_eqb_eq; exact Hw|].
  split; [apply nodup_z_b_sound; exact Hids|]. split.
  - apply orb_prop in Hkind. destruct Hkind as [Hk|Hk].
    + left. apply oz_eqb_true. exact Hk.
    + right. destruct (dq_scalers q) as [|s [|s' r]]; try discriminate.
      destruct (so_dtype o) as [dt|]; [|discriminate].
      exists s, dt. repeat split. lia.
  - apply Forall_forall. intros s Hs. rewrite forallb_forall in Hsc.
    apply scaler_ok_b_sound. exact (Hsc s Hs).
Qed.

Definition daqmx_seg_ok_b (g : segment) (data : bytes) : bool :=
  let dobjs := data_objs (sg_objs g) in
  let cb := chunk_bytes (dims_spec dobjs) in
  negb (Nat.eqb (length dobjs) 0) &&
  nodup_paths_b (map so_path dobjs) &&
  forallb (fun w => 0 <=? w) (common_widths dobjs) &&
  forallb (daqmx_obj_ok_b dobjs) dobjs &&
  (if cb =? 0 then blen data =? 0 else (0 <? cb) && (blen data mod cb =? 0)).

Lemma daqmx_seg_ok_b_sound g data : daqmx_seg_ok_b g data = true -> daqmx_seg_ok g data.
Proof.
  unfold daqmx_seg_ok_b, daqmx_seg_ok. cbv zeta. intros H.
  apply andb_prop in H. destruct H as [H Hlen]. apply andb_prop in H. destruct H as [H Hobjs].
  apply andb_prop in H. destruct H as [H Hw]. apply andb_prop in H. destruct H as [Hne Hnd].
  split; [|split; [|split; [|split]]].
  - intros E. rewrite E in Hne. discriminate.
  - apply nodup_paths_b_sound. exact Hnd.
  - apply Forall_forall. intros w Hin. rewrite forallb_forall in Hw. specialize (Hw w Hin). lia.
  - apply Forall_forall. intros o Ho. rewrite forallb_forall in Hobjs.
    apply daqmx_obj_ok_b_sound. exact (Hobjs o Ho).
  - pose proof (blen_nonneg data) as Hb.
    destruct (chunk_bytes (dims_spec (data_objs (sg_objs g))) =? 0) eqn:E.
    + exists 0. split; [lia|]. split; [lia|reflexivity].
    + exists (blen data / chunk_bytes (dims_spec (data_objs (sg_objs g)))).
      apply andb_prop in Hlen. destruct Hlen as [Hpos Hmod].
      split; [apply Z.div_pos; lia|]. split; [|lia].
      set (cb := chunk_bytes (dims_spec (data_objs (sg_objs g)))) in *.
      pose proof (Z.div_mod (blen data) cb ltac:(lia)). lia.
Qed.

(* ======================================================================== *)
(* A concrete file (built with harness/daqmxgen.py + tdmsgen.py, read with   *)
(* npTDMS; script and observation in the header of Props/C11_read.v)        *)
(* ======================================================================== *)
(* Big-endian DAQmx segment: two raw buffers (2 rows x 4 bytes, 3 rows x 3 bytes;
   17 bytes per chunk), TWO chunks; channel c0 (DaqMxRawData): int16 scaler at
   byte 0 (scale id 0) and uint8 scaler at byte 3 (scale id 5) of buffer 0;
   channel c1 (DaqMxRawData, digital-line scalers): bit 10 = byte 1, bit 2 of
   buffer 1; channel c2 (typed int32): its single scaler at byte 0 of buffer 0.
   Then a segment WITHOUT metadata (same object list), one chunk.  Then an
   ordinary little-endian segment with a new object list: int32 channel x. *)
Section DxExample.
Import String.
Local Open Scope string_scope.

Definition dx_p0 : bytes := hex "2f276471272f27633027".   (* /'dq'/'c0' *)
Definition dx_p1 : bytes := hex "2f276471272f27633127".   (* /'dq'/'c1' *)
Definition dx_p2 : bytes := hex "2f276471272f27633227".   (* /'dq'/'c2' *)
Definition dx_px : bytes := hex "2f2767272f277827".       (* /'g'/'x' *)

Definition dx_file : list fseg :=
  [ mkFseg 206 4713
      (Some [ mkEntry dx_p0 (IDaqmx FORMAT_CHANGING_SCALER T_DAQMX 1 2
                                    [mkScaler 3 0 0 0 0; mkScaler 0 0 3 0 5] [4; 3]) [];
              mkEntry dx_p1 (IDaqmx DIGITAL_LINE_SCALER T_DAQMX 1 3 [mkScaler 0 1 10 0 0] [4; 3]) [];
              mkEntry dx_p2 (IDaqmx FORMAT_CHANGING_SCALER 3 1 2 [mkScaler 5 0 0 0 0] [4; 3]) [] ])
      (hex "0102030411121314a0a1a2b0b5b2c0c1c221222324313233340004000fff0a000100");
    mkFseg 200 4713 None (hex "41424344515253540006000a0b000c0d0e");
    mkFseg 14 4713 (Some [ mkEntry dx_px (IFull 20 3 1 2 None) [] ]) (hex "0700000008000000") ].

(* the bytes are exactly the file the harness's encoder wrote *)
Example dx_bytes :
  ser_file dx_file =
  hex "5444536dce00000000001269000000000000011500000000000000f3000000030000000a2f276471272f2763302700001269ffffffff0000000100000000000000020000000200000003000000000000000000000000000000000000000000000000000000030000000000000005000000020000000400000003000000000000000a2f276471272f276331270000126affffffff0000000100000000000000030000000100000000000000010000000a0000000000000000020000000400000003000000000000000a2f276471272f276332270000126900000003000000010000000000000002000000010000000500000000000000000000000000000000000000020000000400000003000000000102030411121314a0a1a2b0b5b2c0c1c221222324313233340004000fff0a0001005444536dc8000000000012690000000000000011000000000000000041424344515253540006000a0b000c0d0e5444536d0e000000691200003000000000000000280000000000000001000000080000002f2767272f2778271400000003000000010000000200000000000000000000000700000008000000".
Proof. vm_compute. reflexivity. Qed.

Definition dx_st : rstate := match sm_run dx_file false with Ok st => st | Err _ => rstate0 end.
Definition dx_h : hierarchy :=
  match build_hierarchy (rs_om dx_st) with Ok h => h | Err _ => mkHier [] [] end.

Definition dx_seg (i : nat) : segment := nth i (rs_segments dx_st) (mkSeg 0 0 0 0 false [] [] 0 None).
Definition dx_data (i : nat) : bytes := fs_data (nth i dx_file (mkFseg 0 0 None [])).

(* the specification chunks: direct addressing for the two DAQmx segments, the
   encoded values for the ordinary one *)
Definition dx_chunks : list (list chunk) :=
  [ direct_chunks (dx_seg 0) (dx_data 0);
    direct_chunks (dx_seg 1) (dx_data 1);
    [ [(dx_px, CData [hex "07000000"; hex "08000000"])] ] ].

(* the buffer dimensions the reader computes for segment 0, and (A)'s specification *)
Example dx_dims :
  buffer_dims (data_objs (sg_objs (dx_seg 0))) = Ok [(2, 4); (3, 3)] /\
  dims_spec (data_objs (sg_objs (dx_seg 0))) = [(2, 4); (3, 3)] /\
  chunk_size (sg_objs (dx_seg 0)) = Ok 17.
Proof. vm_compute. repeat split. Qed.

(* direct addressing, evaluated: chunk by chunk, object by object, scaler by scaler *)
Example dx_direct_chunks :
  direct_chunks (dx_seg 0) (dx_data 0) =
  [ [(dx_p0, CScalers [(0, [hex "0201"; hex "1211"]); (5, [hex "04"; hex "14"])]);
     (dx_p1, CScalers [(0, [hex "00"; hex "01"; hex "00"])]);
     (dx_p2, CData [hex "04030201"; hex "14131211"])];
    [(dx_p0, CScalers [(0, [hex "2221"; hex "3231"]); (5, [hex "24"; hex "34"])]);
     (dx_p1, CScalers [(0, [hex "01"; hex "01"; hex "00"])]);
     (dx_p2, CData [hex "24232221"; hex "34333231"])] ] /\
  direct_chunks (dx_seg 1) (dx_data 1) =
  [ [(dx_p0, CScalers [(0, [hex "4241"; hex "5251"]); (5, [hex "44"; hex "54"])]);
     (dx_p1, CScalers [(0, [hex "01"; hex "00"; hex "01"])]);
     (dx_p2, CData [hex "44434241"; hex "54535251"])] ].
Proof. vm_compute. split; reflexivity. Qed.

Example dx_wf : wf_file dx_file.
Proof. unfold wf_file. vm_compute. reflexivity. Qed.

Example dx_run : sm_run dx_file false = Ok dx_st.
Proof. vm_compute. reflexivity. Qed.

Example dx_hier : build_hierarchy (rs_om dx_st) = Ok dx_h.
Proof. vm_compute. reflexivity. Qed.

Definition dx_obj_x : sobj := mkSobj dx_px true 2 8 (Some 3) None.

Example dx_content : segs_content (rs_segments dx_st) dx_file dx_chunks.
Proof.
  assert (Hsegs : rs_segments dx_st = [dx_seg 0; dx_seg 1; dx_seg 2]) by (vm_compute; reflexivity).
  rewrite Hsegs. clear Hsegs. unfold dx_file, dx_chunks.
  constructor; [|constructor; [|constructor; [|constructor]]].
  - apply (sct_daqmx (dx_seg 0) _). apply daqmx_seg_ok_b_sound. vm_compute. reflexivity.
  - apply (sct_daqmx (dx_seg 1) _). apply daqmx_seg_ok_b_sound. vm_compute. reflexivity.
  - apply sct_plain. cbn [fs_data].
    eapply (rc_seg_contig _ _ [dx_obj_x] [ [ [hex "07000000"; hex "08000000"] ] ]).
    + vm_compute. reflexivity.
    + vm_compute. reflexivity.
    + vm_compute. reflexivity.
    + vm_compute. reflexivity.
    + repeat constructor.
    + repeat constructor.
    + vm_compute. reflexivity.
    + vm_compute. reflexivity.
Qed.

Example dx_canonical : om_paths_canonical (rs_om dx_st).
Proof. apply om_paths_canonical_b_sound. vm_compute. reflexivity. Qed.

Example dx_typed_channels : typed_objects_are_channels (rs_om dx_st).
Proof. apply typed_objects_are_channels_b_sound. vm_compute. reflexivity. Qed.

(* the theorem applies ... *)
Example dx_read_correct :
  rd_all (ser_file dx_file) = Ok (expected_tokens_dq dx_st dx_h (List.concat dx_chunks), true).
Proof.
  exact (read_correct_daqmx dx_file dx_st dx_h dx_chunks dx_wf dx_run dx_hier dx_content
                            dx_canonical dx_typed_channels).
Qed.

(* ... and both sides compute to the observation npTDMS itself gives for these
   bytes (TdmsFile.read, flattened by harness/tdmsgen.observe_file): c0 has
   scaler 0 = 0201 1211 2221 3231 4241 5251 and scaler 5 = 04 14 24 34 44 54,
   c1 (digital line) = 0 1 0 1 1 0 1 0 1, c2 = the six int32, x = 7, 8 *)
Example dx_read_tokens :
  rd_all (ser_file dx_file) =
  Ok ([TZ 4713; TZ 0; TZ 2; TB (hex "6471"); TZ 0; TZ 3;
       TB (hex "6330"); TB (hex "6471"); TB dx_p0; TZ 4294967295; TZ 6; TZ 0;
       TZ 1; TZ 2; TZ 0; TZ 6; TB (hex "0201"); TB (hex "1211"); TB (hex "2221"); TB (hex "3231");
       TB (hex "4241"); TB (hex "5251");
       TZ 5; TZ 6; TB (hex "04"); TB (hex "14"); TB (hex "24"); TB (hex "34"); TB (hex "44"); TB (hex "54");
       TB (hex "6331"); TB (hex "6471"); TB dx_p1; TZ 4294967295; TZ 9; TZ 0;
       TZ 1; TZ 1; TZ 0; TZ 9; TB (hex "00"); TB (hex "01"); TB (hex "00"); TB (hex "01"); TB (hex "01");
       TB (hex "00"); TB (hex "01"); TB (hex "00"); TB (hex "01");
       TB (hex "6332"); TB (hex "6471"); TB dx_p2; TZ 3; TZ 6; TZ 0;
       TZ 0; TZ 6; TB (hex "04030201"); TB (hex "14131211"); TB (hex "24232221"); TB (hex "34333231");
       TB (hex "44434241"); TB (hex "54535251");
       TB (hex "67"); TZ 0; TZ 1;
       TB (hex "78"); TB (hex "67"); TB dx_px; TZ 3; TZ 2; TZ 0;
       TZ 0; TZ 2; TB (hex "07000000"); TB (hex "08000000");
       TZ 0; TZ 0], true) /\
  rd_all (ser_file dx_file) = Ok (expected_tokens_dq dx_st dx_h (List.concat dx_chunks), true).
Proof. vm_compute. split; reflexivity. Qed.

End DxExample.

(* ======================================================================== *)
(* Part A': what every object list produced by the metadata pass satisfies   *)
(* (so that only the genuine consistency conditions remain as hypotheses)    *)
(* ======================================================================== *)

Definition scaler_wf (s : scaler) : Prop :=
  0 <= sc_buf s /\ 0 <= sc_off s /\
  exists dt sz, daqmx_type (sc_type s) = Some dt /\ tds_size dt = Some (Some sz).

(* a DAQmx segment object as read_raw_data_index builds it from well-formed
   syntax: non-negative widths, buffer indexes and offsets; known sized scaler
   types; DaqMxRawData, or exactly one scaler and another data type *)
Definition obj_wf (o : sobj) : Prop :=
  match so_daqmx o with
  | None => True
  | Some q =>
    Forall (fun w => 0 <= w) (dq_widths q) /\ Forall scaler_wf (dq_scalers q) /\
    (so_dtype o = Some T_DAQMX \/
     exists s dt, dq_scalers q = [s] /\ so_dtype o = Some dt /\ dt <> T_DAQMX)
  end.

Lemma daqmx_type_sized c dt : daqmx_type c = Some dt -> exists sz, tds_size dt = Some (Some sz).
Proof.
  unfold daqmx_type.
  repeat match goal with
         | |- (if ?b then _ else _) = _ -> _ => destruct b
         end; intros H; try discriminate; injection H as <-; eexists; vm_compute; reflexivity.
Qed.

Lemma obj_wf_set_has_data o b : obj_wf o -> obj_wf (set_has_data o b).
Proof. unfold obj_wf, set_has_data. cbn [so_daqmx so_dtype]. tauto. Qed.

Lemma new_object_wf p i o : wf_idx i = true -> new_object p i = Ok o -> obj_wf o.
Proof.
  unfold new_object, obj_wf. intros Hwf H.
  destruct i as [| |lf dt dim n total|kind dt dim n scalers widths].
  - injection H as <-. exact I.
  - injection H as <-. exact I.
  - destruct (tds_size dt) as [sz|]; [|discriminate].
    destruct (_ && _); [discriminate|]. destruct (negb (dim =? 1)); [discriminate|].
    injection H as <-. exact I.
  - cbn [wf_idx] in Hwf.
    apply andb_prop in Hwf. destruct Hwf as [Hwf Hw]. apply andb_prop in Hwf. destruct Hwf as [Hwf _].
    apply andb_prop in Hwf. destruct Hwf as [Hwf Hsc].
    destruct (tds_size dt) as [sz|]; [|discriminate].
    destruct (negb (dim =? 1)); [discriminate|].
    destruct (forallb (fun s => match daqmx_type (sc_type s) with Some _ => true | None => false end) scalers)
      eqn:Ety; cbn [negb] in H; [|discriminate].
    destruct (negb (dt =? T_DAQMX) && _) eqn:Ek; [discriminate|].
    injection H as <-. cbn [so_daqmx so_dtype dq_widths dq_scalers]. split; [|split].
    + apply Forall_forall. intros w Hin. rewrite forallb_forall in Hw. specialize (Hw w Hin).
      unfold is_u32 in Hw. lia.
    + apply Forall_forall. intros s Hin. rewrite forallb_forall in Hsc, Ety.
      specialize (Hsc s Hin). specialize (Ety s Hin). unfold wf_scaler, is_u32 in Hsc.
      split; [lia|]. split; [lia|].
      destruct (daqmx_type (sc_type s)) as [t|] eqn:Et; [|discriminate].
      destruct (daqmx_type_sized _ _ Et) as [sz' Hsz']. exists t, sz'. split; [reflexivity|exact Hsz'].
    + destruct (dt =? T_DAQMX) eqn:Edq; [left; f_equal; lia|]. right.
      cbn [negb andb] in Ek. apply negb_false_iff in Ek.
      destruct scalers as [|s [|s' r]]; try discriminate.
      exists s, dt. split; [reflexivity|]. split; [reflexivity|lia].
Qed.

Lemma update_existing_wf o i o' :
  wf_idx i = true -> update_existing o i = Ok o' -> obj_wf o -> obj_wf o'.
Proof.
  intros Hwf H Ho. unfold update_existing in H.
  destruct i as [| |lf dt dim n total|kind dt dim n scalers widths].
  - injection H as <-. destruct (so_has_data o); [apply obj_wf_set_has_data|]; exact Ho.
  - injection H as <-. destruct (so_has_data o); [|apply obj_wf_set_has_data]; exact Ho.
  - exact (new_object_wf _ _ _ Hwf H).
  - exact (new_object_wf _ _ _ Hwf H).
Qed.

Lemma step_entry_wf base prev ordered x ordered' :
  wf_idx (e_idx x) = true ->
  (forall b, base = Some b -> Forall obj_wf b) ->
  (forall p po, alookup p prev = Some po -> obj_wf po) ->
  step_entry base prev ordered x = Ok ordered' ->
  Forall obj_wf ordered -> Forall obj_wf ordered'.
Proof.
  intros Hwf Hbase Hprev H HF. unfold step_entry in H.
  destruct (match base with Some b => existing_lookup (e_path x) 0 b None | None => None end)
    as [[i o]|] eqn:E.
  - destruct base as [b|]; [|discriminate].
    apply existing_lookup_some in E. destruct E as (_ & Hnth & _).
    apply nth_error_In in Hnth.
    pose proof (Hbase b eq_refl) as Hb. rewrite Forall_forall in Hb.
    destruct (update_existing o (e_idx x)) as [o'|e] eqn:Eu; cbn [bind] in H; [|discriminate].
    injection H as <-. apply Forall_replace_nth; [exact HF|].
    exact (update_existing_wf o _ o' Hwf Eu (Hb o Hnth)).
  - destruct (alookup (e_path x) prev) as [po|] eqn:Ep.
    + destruct (reuse_previous po (e_idx x)) as [o'|e] eqn:Eu; cbn [bind] in H; [|discriminate].
      injection H as <-. apply Forall_app. split; [exact HF|]. constructor; [|constructor].
      exact (update_existing_wf po _ o' Hwf Eu (Hprev _ _ Ep)).
    + destruct (e_idx x) as [| |lf dt dim n total|kind dt dim n scalers widths] eqn:Ei.
      * destruct (new_object (e_path x) INoData) as [o'|e] eqn:En; cbn [bind] in H; [|discriminate].
        injection H as <-. apply Forall_app. split; [exact HF|]. constructor; [|constructor].
        exact (new_object_wf _ _ _ Hwf En).
      * discriminate.
      * destruct (new_object (e_path x) (IFull lf dt dim n total)) as [o'|e] eqn:En;
          cbn [bind] in H; [|discriminate].
        injection H as <-. apply Forall_app. split; [exact HF|]. constructor; [|constructor].
        exact (new_object_wf _ _ _ Hwf En).
      * destruct (new_object (e_path x) (IDaqmx kind dt dim n scalers widths)) as [o'|e] eqn:En;
          cbn [bind] in H; [|discriminate].
        injection H as <-. apply Forall_app. split; [exact HF|]. constructor; [|constructor].
        exact (new_object_wf _ _ _ Hwf En).
Qed.

Lemma fold_entries_wf base prev :
  (forall b, base = Some b -> Forall obj_wf b) ->
  (forall p po, alookup p prev = Some po -> obj_wf po) ->
  forall es ordered r,
    Forall (fun x => wf_idx (e_idx x) = true) es ->
    fold_entries base prev ordered es = Ok r -> Forall obj_wf ordered -> Forall obj_wf r.
Proof.
  intros Hbase Hprev. induction es as [|x es IH]; intros ordered r Hes H HF.
  - cbn [fold_entries] in H. injection H as <-. exact HF.
  - inversion Hes as [|y l Hx Hes']; subst y l. cbn [fold_entries] in H.
    destruct (step_entry base prev ordered x) as [o'|e] eqn:Es; cbn [bind] in H; [|discriminate].
    apply (IH o' r Hes' H).
    exact (step_entry_wf base prev ordered x o' Hx Hbase Hprev Es HF).
Qed.

Lemma read_segment_objects_wf toc md prev ps objs props :
  match md with Some es => Forall (fun x => wf_idx (e_idx x) = true) es | None => True end ->
  (forall l, ps = Some l -> Forall obj_wf l) ->
  (forall p po, alookup p prev = Some po -> obj_wf po) ->
  read_segment_objects toc md prev ps = Ok (objs, props) ->
  Forall obj_wf objs.
Proof.
  intros Hmd Hps Hprev H. unfold read_segment_objects in H.
  destruct md as [es|].
  - cbv zeta in H.
    destruct (fold_entries _ prev _ es) as [ordered|e] eqn:Ef; cbn [bind] in H; [|discriminate].
    injection H as <- _.
    refine (fold_entries_wf _ prev _ Hprev es _ ordered Hmd Ef _).
    + intros b Hb. destruct (toc_has toc TOC_NEWLIST); [discriminate|]. exact (Hps b Hb).
    + destruct (toc_has toc TOC_NEWLIST); [constructor|].
      destruct ps as [l|]; [|constructor]. exact (Hps l eq_refl).
  - destruct ps as [l|]; [|discriminate]. injection H as <- _. exact (Hps l eq_refl).
Qed.

Lemma wf_fseg_entries s :
  wf_fseg s = true ->
  match fs_meta s with Some es => Forall (fun x => wf_idx (e_idx x) = true) es | None => True end.
Proof.
  intros H. apply wf_fseg_spec in H. destruct H as (_ & _ & _ & H).
  destruct (fs_meta s) as [es|]; [|exact I]. destruct H as [_ H].
  unfold wf_metadata in H. apply andb_prop in H. destruct H as [_ H].
  apply Forall_forall. intros x Hx. rewrite forallb_forall in H. specialize (H x Hx).
  unfold wf_entry in H. apply andb_prop in H. destruct H as [H _]. apply andb_prop in H. destruct H as [H _].
  apply andb_prop in H. destruct H as [_ H]. exact H.
Qed.

Lemma sm_loop_wf : forall segs w pos ps pi st stf,
    wf_file segs ->
    sm_loop segs w pos ps pi st = Ok stf ->
    (forall p po, alookup p (rs_prev_objs st) = Some po -> obj_wf po) ->
    (forall l, ps = Some l -> Forall obj_wf l) ->
    (forall g, In g (rs_segments st) -> Forall obj_wf (sg_objs g)) ->
    forall g, In g (rs_segments stf) -> Forall obj_wf (sg_objs g).
Proof.
  induction segs as [|s r IH]; intros w pos ps pi st stf Hwf H Hprev Hps Hsegs.
  - rewrite sm_loop_nil in H. injection H as <-. exact Hsegs.
  - unfold wf_file in Hwf. cbn [forallb] in Hwf. apply andb_prop in Hwf. destruct Hwf as [Hs Hr].
    apply sm_loop_cons_inv in H.
    destruct H as (objs & props & idx & cache & nch & fin & po & om & Hro & Hcc & Hum & Hloop).
    assert (Hobjs : Forall obj_wf objs).
    { exact (read_segment_objects_wf _ _ _ _ _ _ (wf_fseg_entries s Hs) Hps Hprev Hro). }
    apply (IH _ _ _ _ _ _ Hr Hloop); cbn [rs_prev_objs rs_segments].
    + exact (update_object_metadata_values obj_wf _ _ _ _ _ _ _ Hum Hprev Hobjs).
    + intros l Hl. injection Hl as <-. exact Hobjs.
    + intros g Hg. apply in_app_or in Hg. destruct Hg as [Hg|[<-|[]]]; [exact (Hsegs g Hg)|exact Hobjs].
Qed.

(* every object the metadata pass records for a well-formed file *)
Theorem sm_run_obj_wf segs w st :
  wf_file segs -> sm_run segs w = Ok st ->
  forall g o, In g (rs_segments st) -> In o (sg_objs g) -> obj_wf o.
Proof.
  unfold sm_run. intros Hwf H g o Hg Ho.
  pose proof (sm_loop_wf segs w 0 None [] rstate0 st Hwf H) as Hall.
  cbn [rstate0 rs_prev_objs rs_segments alookup] in Hall.
  assert (HF : Forall obj_wf (sg_objs g)).
  { apply Hall; try assumption.
    - intros p po Hp. discriminate.
    - intros l Hl. discriminate.
    - intros g0 []. }
  rewrite Forall_forall in HF. exact (HF o Ho).
Qed.

(* ---- the consistency condition proper ---- *)

Definition scaler_size (s : scaler) : Z :=
  match daqmx_type (sc_type s) with
  | Some dt => match tds_size dt with Some (Some sz) => sz | _ => 0 end
  | None => 0
  end.

(* What must be ASSUMED of a DAQmx segment (everything else about its objects
   follows from the file being well formed and the metadata pass accepting it):
   data objects exist, have distinct paths and are all DAQmx objects with the
   same raw data widths; scale ids are distinct within a channel; every scaler's
   buffer exists, has as many rows as the channel has values per chunk, and the
   scaler's bytes lie inside a row; the raw data block is a whole number of chunks. *)
Definition daqmx_seg_consistent (g : segment) (data : bytes) : Prop :=
  let dobjs := data_objs (sg_objs g) in
  dobjs <> [] /\
  NoDup (map so_path dobjs) /\
  Forall (fun o => exists q,
              so_daqmx o = Some q /\ dq_widths q = common_widths dobjs /\
              NoDup (map sc_id (dq_scalers q)) /\
              Forall (fun s => exists w,
                          nth_error (dims_spec dobjs) (Z.to_nat (sc_buf s)) = Some (so_nvals o, w) /\
                          (if dq_kind q =? DIGITAL_LINE_SCALER then sc_off s / 8 else sc_off s)
                          + scaler_size s <= w) (dq_scalers q)) dobjs /\
  exists m, 0 <= m /\ blen data = m * chunk_bytes (dims_spec dobjs) /\
            (chunk_bytes (dims_spec dobjs) = 0 -> m = 0).

Theorem daqmx_seg_consistent_ok segs w st g data :
  wf_file segs -> sm_run segs w = Ok st -> In g (rs_segments st) ->
  daqmx_seg_consistent g data -> daqmx_seg_ok g data.
Proof.
  intros Hwf Hrun Hg (Hne & Hnd & Hobjs & Hlen).
  assert (Hsub : forall o, In o (data_objs (sg_objs g)) -> In o (sg_objs g)).
  { intros o Ho. unfold data_objs in Ho. apply filter_In in Ho. tauto. }
  split; [exact Hne|]. split; [exact Hnd|]. split; [|split; [|exact Hlen]].
  - destruct (data_objs (sg_objs g)) as [|o0 r] eqn:Ed; [contradiction|].
    pose proof (sm_run_obj_wf segs w st Hwf Hrun g o0 Hg (Hsub o0 (or_introl eq_refl))) as Hwf0.
    unfold obj_wf in Hwf0. unfold common_widths.
    destruct (so_daqmx o0) as [q0|]; [exact (proj1 Hwf0)|constructor].
  - apply Forall_forall. intros o Ho. rewrite Forall_forall in Hobjs.
    destruct (Hobjs o Ho) as (q & Hq & Hw & Hids & Hsc).
    pose proof (sm_run_obj_wf segs w st Hwf Hrun g o Hg (Hsub o Ho)) as Hwfo.
    unfold obj_wf in Hwfo. rewrite Hq in Hwfo. destruct Hwfo as (_ & Hswf & Hkind).
    exists q. split; [exact Hq|]. split; [exact Hw|]. split; [exact Hids|]. split; [exact Hkind|].
    apply Forall_forall. intros s Hs. rewrite Forall_forall in Hsc, Hswf.
    destruct (Hsc s Hs) as (w0 & Hnth & Hfit). destruct (Hswf s Hs) as (Hb & Hoff & dt & sz & Hty & Hsz).
    exists dt, sz, w0. unfold scaler_size in Hfit. rewrite Hty, Hsz in Hfit.
    repeat split; assumption.
Qed.

(* the file-level hypothesis with only the consistency condition for DAQmx segments *)
Inductive seg_content_c (g : segment) (s : fseg) : list chunk -> Prop :=
| scc_plain cs : seg_encodes g (fs_data s) cs -> seg_content_c g s cs
| scc_daqmx : daqmx_seg_consistent g (fs_data s) -> seg_content_c g s (direct_chunks g (fs_data s)).

Inductive segs_content_c : list segment -> list fseg -> list (list chunk) -> Prop :=
| sccn_nil : segs_content_c [] [] []
| sccn_cons g gs s r cs css :
    seg_content_c g s cs -> segs_content_c gs r css -> segs_content_c (g :: gs) (s :: r) (cs :: css).

Lemma segs_content_c_content segs0 w st : forall gs segs chunkss,
    wf_file segs0 -> sm_run segs0 w = Ok st -> incl gs (rs_segments st) ->
    segs_content_c gs segs chunkss -> segs_content gs segs chunkss.
Proof.
  intros gs segs chunkss Hwf Hrun Hincl H. induction H as [|g gs s r cs css Hcs _ IH]; [constructor|].
  constructor.
  - destruct Hcs as [cs0 Henc|Hc]; [apply sct_plain; exact Henc|apply sct_daqmx].
    apply (daqmx_seg_consistent_ok segs0 w st g _ Hwf Hrun); [apply Hincl; left; reflexivity|exact Hc].
  - apply IH. intros x Hx. apply Hincl. right. exact Hx.
Qed.

(* the whole-file theorem with the slimmer hypothesis *)
Theorem read_correct_daqmx_consistent segs st h chunkss :
  wf_file segs ->
  sm_run segs false = Ok st ->
  build_hierarchy (rs_om st) = Ok h ->
  segs_content_c (rs_segments st) segs chunkss ->
  om_paths_canonical (rs_om st) ->
  typed_objects_are_channels (rs_om st) ->
  rd_all (ser_file segs) = Ok (expected_tokens_dq st h (concat chunkss), true).
Proof.
  intros Hwf Hrun Hh Hcon Hcanon Hshape.
  apply read_correct_daqmx; try assumption.
  exact (segs_content_c_content segs false st _ segs chunkss Hwf Hrun (incl_refl _) Hcon).
Qed.

(* conversely [daqmx_seg_ok] contains the consistency condition, so on the object
   lists of a well-formed run the two are equivalent *)
Lemma daqmx_seg_ok_seg_consistent g data : daqmx_seg_ok g data -> daqmx_seg_consistent g data.
Proof.
  intros (Hne & Hnd & _ & Hobjs & Hlen). split; [exact Hne|]. split; [exact Hnd|]. split; [|exact Hlen].
  eapply Forall_impl; [|exact Hobjs]. intros o (q & Hq & Hw & Hids & _ & Hsc).
  exists q. split; [exact Hq|]. split; [exact Hw|]. split; [exact Hids|].
  eapply Forall_impl; [|exact Hsc]. intros s (dt & sz & w & Hty & Hsz & _ & _ & Hnth & Hfit).
  exists w. split; [exact Hnth|]. unfold scaler_size. rewrite Hty, Hsz. exact Hfit.
Qed.

Lemma segs_content_content_c : forall gs segs chunkss,
    segs_content gs segs chunkss -> segs_content_c gs segs chunkss.
Proof.
  induction 1 as [|g gs s r cs css Hcs _ IH]; constructor; [|exact IH].
  destruct Hcs as [cs0 Henc|Hok]; [apply scc_plain; exact Henc|apply scc_daqmx].
  exact (daqmx_seg_ok_seg_consistent g _ Hok).
Qed.

Example dx_content_c : segs_content_c (rs_segments dx_st) dx_file dx_chunks.
Proof. exact (segs_content_content_c _ _ _ dx_content). Qed.

(* ---- forms used by Props/C11_read.v ---- *)

Lemma dims_spec_nth dobjs k :
  nth_error (dims_spec dobjs) k =
  option_map (fun w => (buffer_rows dobjs (Z.of_nat k), w)) (nth_error (common_widths dobjs) k).
Proof. unfold dims_spec. rewrite dims_spec_from_nth. reflexivity. Qed.

Lemma daqmx_seg_ok_summary g data :
  daqmx_seg_ok g data ->
  seg_layout g = Ok LDaqmx /\
  dq_indexes_consistent (data_objs (sg_objs g)) /\
  buffer_dims (data_objs (sg_objs g)) = Ok (dims_spec (data_objs (sg_objs g))).
Proof.
  intros H. split; [exact (daqmx_seg_ok_layout g data H)|].
  split; [exact (daqmx_seg_ok_consistent g data H)|exact (proj1 (daqmx_seg_ok_dims g data H))].
Qed.

(* the single-segment form: reading one DAQmx segment of the serialised file *)
Theorem read_segment_daqmx pre s rest g :
  wf_fseg s = true ->
  seg_at (blen pre) s g ->
  daqmx_seg_ok g (fs_data s) ->
  exists cs, read_segment (pre ++ ser_seg TAG_DATA true s ++ rest) g = Ok cs /\
             Forall2 chunk_ext cs (direct_chunks g (fs_data s)).
Proof.
  intros Hwf Hat Hok. pose proof Hat as (_ & _ & _ & _ & _ & Hcc).
  destruct (daqmx_seg_decodes g (fs_data s) rest Hok Hcc) as (cs & cur' & Hr & Hext & _).
  exists cs. split; [|exact Hext].
  rewrite (read_segment_ser pre s rest g Hwf Hat), Hr. reflexivity.
Qed.

Corollary read_correct_daqmx_tokens segs st h chunkss :
  wf_file segs ->
  sm_run segs false = Ok st ->
  build_hierarchy (rs_om st) = Ok h ->
  segs_content_c (rs_segments st) segs chunkss ->
  om_paths_canonical (rs_om st) ->
  typed_objects_are_channels (rs_om st) ->
  rd_all (ser_file segs) =
  Ok (TZ (match segs with s :: _ => fs_version s | [] => 0 end) ::
      obs_hierarchy h
        (fun c => obs_cdata
                    (match ch_dtype c with
                     | None => None
                     | Some dt =>
                       if dt =? T_DAQMX then
                         match ch_scalers c with
                         | Some sts =>
                           Some (CScalers (map (fun kv => (fst kv,
                                                           chan_scaler_values (ch_path c) (fst kv)
                                                                              (concat chunkss))) sts))
                         | None => None
                         end
                       else Some (CData (chan_values (ch_path c) (concat chunkss)))
                     end))
      ++ obs_status st, true).
Proof.
  intros Hwf Hrun Hh Hcon Hcanon Hshape.
  rewrite (read_correct_daqmx_consistent segs st h chunkss Hwf Hrun Hh Hcon Hcanon Hshape).
  unfold expected_tokens_dq. rewrite (sm_run_version segs false st Hrun). reflexivity.
Qed.
