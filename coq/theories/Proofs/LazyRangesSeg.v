(* C19, byte level: what the reads of ONE segment touch (Model/LazyRanges.v seg_reads).
   Every read of the chunks [co, co + nc) of a segment lies in the byte window of one of
   these chunks -- contiguous layout: the channel's own bytes; interleaved / DAQmx: the
   chunk -- and the bytes returned are bounded by the sum of these windows.
   The loop over segments and the top-level theorems are in Proofs/LazyRangesTop.v. *)
From Coq Require Import List ZArith Bool Lia ZifyBool.
From Coq Require Import Init.Byte.
Import ListNotations.
From NpTdms Require Import Base.Bytes Base.Res Base.PySlice Model.Tokens Model.SegState Model.Layout
     Model.Reader Model.LazyRead Model.LazyBytes Model.LazyRanges Proofs.SegStateProofs
     Proofs.LazyReadLemmas.
Local Open Scope Z_scope.
Ltac Zify.zify_post_hook ::= Z.to_euclidean_division_equations.

(* ---- sums and read lists ------------------------------------------------------------ *)

Lemma szsum_cons x l : SegState.zsum (x :: l) = x + SegState.zsum l.
Proof. reflexivity. Qed.

Lemma szsum_app a b : SegState.zsum (a ++ b) = SegState.zsum a + SegState.zsum b.
Proof. induction a as [|x a IH]; [reflexivity|]. cbn [app]. rewrite !szsum_cons, IH. lia. Qed.

Lemma szsum_map_const {A} (x : Z) (l : list A) : SegState.zsum (map (fun _ => x) l) = x * zlen l.
Proof.
  induction l as [|y l IH]; [cbn; lia|]. cbn [map]. rewrite szsum_cons, IH, zlen_cons. lia.
Qed.

Lemma szsum_nonneg l : (forall x, In x l -> 0 <= x) -> 0 <= SegState.zsum l.
Proof.
  induction l as [|y l IH]; intros H; [cbn; lia|]. rewrite szsum_cons.
  pose proof (H y (or_introl eq_refl)). assert (0 <= SegState.zsum l) by (apply IH; intros; apply H; right; assumption).
  lia.
Qed.

Lemma total_bytes_nil : total_bytes (@nil rd) = 0.
Proof. reflexivity. Qed.

Lemma total_bytes_nil' : total_bytes (@nil (Z * Z)) = 0.
Proof. reflexivity. Qed.

Lemma total_bytes_cons p n l : total_bytes ((p, n) :: l) = n + total_bytes l.
Proof. reflexivity. Qed.

Lemma total_bytes_app a b : total_bytes (a ++ b) = total_bytes a + total_bytes b.
Proof. unfold total_bytes. rewrite map_app, szsum_app. reflexivity. Qed.

(* every read of [l] returns a non-negative number of bytes and lies in [lo, hi] *)
Definition within (l : list rd) (lo hi : Z) : Prop :=
  forall p n, In (p, n) l -> 0 <= n /\ lo <= p /\ p + n <= hi.

Lemma within_nil lo hi : within [] lo hi.
Proof. intros p n []. Qed.

Lemma within_app a b lo hi : within a lo hi -> within b lo hi -> within (a ++ b) lo hi.
Proof. intros Ha Hb p n H. apply in_app_or in H. destruct H; [apply Ha|apply Hb]; assumption. Qed.

Lemma within_weaken l lo hi lo' hi' : within l lo hi -> lo' <= lo -> hi <= hi' -> within l lo' hi'.
Proof. intros H H1 H2 p n Hin. specialize (H p n Hin). lia. Qed.

(* ---- fromfile ------------------------------------------------------------------------ *)

Lemma fromfile_reads_spec fsz p n l p' :
  fromfile_reads fsz p n = Ok (l, p') ->
  0 <= n /\ within l p (p + n) /\ 0 <= total_bytes l <= n /\ p <= p' <= p + n.
Proof.
  unfold fromfile_reads, avail. destruct (n <? 0) eqn:En; [discriminate|].
  destruct (Z.max 0 (Z.min n (fsz - p)) =? 0) eqn:Ek; intros H; injection H as <- <-.
  - split; [lia|]. split; [|split; [cbn; lia|lia]].
    intros q k [Hq|[]]. injection Hq as <- <-. lia.
  - split; [lia|]. split; [|split; [|lia]].
    + intros q k [Hq|[Hq|[]]]; injection Hq as <- <-; lia.
    + unfold total_bytes, SegState.zsum. cbn [map snd fold_right]. lia.
Qed.

Lemma fromfile_reads_ok fsz p n : 0 <= n -> exists l p', fromfile_reads fsz p n = Ok (l, p').
Proof.
  intros H. unfold fromfile_reads. replace (n <? 0) with false by lia.
  destruct (avail fsz p n =? 0); eauto.
Qed.

(* ---- one object ------------------------------------------------------------------------ *)

Lemma chunk_nvals_cases o ci n f :
  chunk_nvals o ci n f = so_nvals o \/ chunk_nvals o ci n f = final_value f o.
Proof.
  unfold chunk_nvals, final_value. destruct f as [f|]; [|left; reflexivity].
  destruct (ci =? n - 1); [right|left]; reflexivity.
Qed.

Lemma sized_of_dtype o dt sz : so_dtype o = Some dt -> tds_size dt = Some (Some sz) -> sized o = Some sz.
Proof. intros H1 H2. unfold sized. rewrite H1, H2. reflexivity. Qed.

Lemma sized_of_unsized o dt : so_dtype o = Some dt -> tds_size dt = Some None -> sized o = None.
Proof. intros H1 H2. unfold sized. rewrite H1, H2. reflexivity. Qed.

(* bytes of [o] in a chunk in which it holds [nv] values *)
Definition obj_bytes (o : sobj) (nv : Z) : Z :=
  if nv =? so_nvals o then so_dsize o else match sized o with Some sz => sz * nv | None => 0 end.

Lemma obj_chunk_bytes_eq o ci n f : obj_chunk_bytes o ci n f = obj_bytes o (chunk_nvals o ci n f).
Proof. reflexivity. Qed.

Lemma read_values_reads_spec fsz o nv p l fin :
  read_values_reads fsz o nv p = Ok l -> obj_inv fin o = true ->
  within l p (p + obj_bytes o nv) /\ 0 <= total_bytes l <= obj_bytes o nv.
Proof.
  unfold read_values_reads, obj_inv, obj_bytes. intros Hr Hinv.
  destruct (so_dtype o) as [dt|] eqn:Edt; [|discriminate].
  apply andb_prop in Hinv. destruct Hinv as [Hnn Hinv]. apply andb_prop in Hnn. destruct Hnn as [Hnv Hds].
  destruct (tds_size dt) as [[sz|]|] eqn:Ets; [| |discriminate].
  - rewrite (sized_of_dtype o dt sz Edt Ets).
    destruct (fromfile_reads fsz p (nv * sz)) as [[l1 p1]|e] eqn:Eff; cbn [bind] in Hr; [|discriminate].
    injection Hr as <-. destruct (fromfile_reads_spec _ _ _ _ _ Eff) as (Hn & Hw & Ht & _).
    assert (Hb : (if nv =? so_nvals o then so_dsize o else sz * nv) = nv * sz).
    { destruct (nv =? so_nvals o) eqn:E; lia. }
    rewrite Hb. split; [exact Hw|exact Ht].
  - rewrite (sized_of_unsized o dt Edt Ets).
    destruct (negb (dt =? T_STRING)); [discriminate|].
    destruct (nv =? 0) eqn:E0.
    + injection Hr as <-. split; [apply within_nil|]. rewrite ?total_bytes_nil, ?total_bytes_nil'.
      destruct (nv =? so_nvals o); lia.
    + destruct (nv =? so_nvals o) eqn:En; [|discriminate]. injection Hr as <-.
      unfold avail. split.
      * intros q k [Hq|[]]. injection Hq as <- <-. lia.
      * unfold total_bytes, SegState.zsum. cbn [map snd fold_right]. lia.
Qed.

Lemma read_values_reads_ok fsz o nv p fin :
  obj_inv fin o = true -> (nv = so_nvals o \/ nv = final_value fin o) ->
  exists l, read_values_reads fsz o nv p = Ok l.
Proof.
  unfold read_values_reads, obj_inv. intros Hinv Hnv.
  apply andb_prop in Hinv. destruct Hinv as [Hnn Hinv]. apply andb_prop in Hnn. destruct Hnn as [Hnv0 Hds].
  destruct (so_dtype o) as [dt|] eqn:Edt; [|discriminate].
  destruct (tds_size dt) as [[sz|]|] eqn:Ets; [| |discriminate].
  - destruct (fromfile_reads_ok fsz p (nv * sz)) as (l & p' & H).
    + destruct Hnv; nia.
    + rewrite H. cbn [bind]. eauto.
  - apply andb_prop in Hinv. destruct Hinv as [Hstr Hfv]. rewrite Hstr. cbn [negb].
    destruct (nv =? 0) eqn:E0; [eauto|].
    replace (nv =? so_nvals o) with true by (destruct Hnv; lia). eauto.
Qed.

(* ---- the walk over the data objects of a contiguous chunk ------------------------------ *)

Lemma contig_seek_spec path ci n f : forall objs cur b r,
  contig_seek path objs ci n f cur = Ok r ->
  match r with
  | Some (o, nv, cur') =>
    In o objs /\ nv = chunk_nvals o ci n f /\
    chan_extent path objs ci n f b = Some (b + (cur' - cur), obj_chunk_bytes o ci n f)
  | None => chan_extent path objs ci n f b = None
  end.
Proof.
  induction objs as [|o objs IH]; intros cur b r H.
  - cbn [contig_seek] in H. injection H as <-. reflexivity.
  - cbn [contig_seek chan_extent] in *.
    destruct (bytes_eqb (so_path o) path) eqn:Ep.
    + injection H as <-. split; [left; reflexivity|]. split; [reflexivity|]. f_equal. f_equal. lia.
    + assert (Hgo : forall cur1, contig_seek path objs ci n f cur1 = Ok r ->
                                 cur1 - cur = obj_chunk_bytes o ci n f ->
                                 match r with
                                 | Some (o0, nv, cur') =>
                                   In o0 (o :: objs) /\ nv = chunk_nvals o0 ci n f /\
                                   chan_extent path objs ci n f (b + obj_chunk_bytes o ci n f)
                                   = Some (b + (cur' - cur), obj_chunk_bytes o0 ci n f)
                                 | None => chan_extent path objs ci n f (b + obj_chunk_bytes o ci n f) = None
                                 end).
      { intros cur1 H1 Hd. specialize (IH cur1 (b + obj_chunk_bytes o ci n f) r H1).
        destruct r as [[[o0 nv] cur']|]; [|exact IH].
        destruct IH as (Hin & Hnv & Hext). split; [right; exact Hin|]. split; [exact Hnv|].
        rewrite Hext. f_equal. f_equal. lia. }
      rewrite obj_chunk_bytes_eq in *. unfold obj_bytes in *.
      destruct (chunk_nvals o ci n f =? so_nvals o) eqn:En.
      * apply (Hgo _ H). lia.
      * destruct (so_dtype o) as [dt|] eqn:Edt; [|discriminate].
        destruct (tds_size dt) as [[sz|]|] eqn:Ets; [| |discriminate].
        -- rewrite (sized_of_dtype o dt sz Edt Ets) in *. apply (Hgo _ H). lia.
        -- rewrite (sized_of_unsized o dt Edt Ets) in *.
           destruct (chunk_nvals o ci n f =? 0); [|discriminate]. apply (Hgo _ H). lia.
Qed.

Lemma contig_seek_ok path ci n f : forall objs cur,
  forallb (obj_inv f) objs = true -> exists r, contig_seek path objs ci n f cur = Ok r.
Proof.
  induction objs as [|o objs IH]; intros cur Hall; [eexists; reflexivity|].
  cbn [forallb] in Hall. apply andb_prop in Hall. destruct Hall as [Ho Hall].
  cbn [contig_seek]. destruct (bytes_eqb (so_path o) path); [eauto|].
  destruct (chunk_nvals o ci n f =? so_nvals o) eqn:En; [apply IH; exact Hall|].
  unfold obj_inv in Ho. destruct (so_dtype o) as [dt|]; [|rewrite andb_false_r in Ho; discriminate].
  apply andb_prop in Ho. destruct Ho as [_ Ho].
  destruct (tds_size dt) as [[sz|]|]; [apply IH; exact Hall| |discriminate].
  apply andb_prop in Ho. destruct Ho as [_ Hfv].
  destruct (chunk_nvals_cases o ci n f) as [H|H]; [lia|].
  replace (chunk_nvals o ci n f =? 0) with true by lia. apply IH. exact Hall.
Qed.

Lemma forallb_In {A} (p : A -> bool) l x : forallb p l = true -> In x l -> p x = true.
Proof. intros H Hin. rewrite forallb_forall in H. apply H. exact Hin. Qed.

(* offsets, inside its chunk, of the window of chunk [ci] in contiguous layout *)
Definition contig_lo_hi (path : bytes) (dobjs : list sobj) (n : Z) (f : option (alist Z)) (ci : Z) : Z * Z :=
  match chan_extent path dobjs ci n f 0 with
  | Some (b, sz) => (b, b + sz)
  | None => (0, 0)
  end.

Lemma contig_chunk_reads_spec fsz path dobjs n f ci p l :
  contig_chunk_reads fsz path dobjs n f ci p = Ok l -> forallb (obj_inv f) dobjs = true ->
  let '(lo, hi) := contig_lo_hi path dobjs n f ci in
  within l (p + lo) (p + hi) /\ 0 <= total_bytes l <= hi - lo /\
  (chan_extent path dobjs ci n f 0 = None -> l = []).
Proof.
  unfold contig_chunk_reads, contig_lo_hi. intros H Hall.
  destruct (contig_seek path dobjs ci n f p) as [r|e] eqn:Es; cbn [bind] in H; [|discriminate].
  pose proof (contig_seek_spec path ci n f dobjs p 0 r Es) as Hs.
  destruct r as [[[o nv] cur']|].
  - destruct Hs as (Hin & Hnv & Hext). rewrite Hext.
    pose proof (forallb_In _ _ _ Hall Hin) as Hoi.
    destruct (read_values_reads_spec _ _ _ _ _ _ H Hoi) as [Hw Ht].
    rewrite obj_chunk_bytes_eq, <- Hnv.
    split; [|split; [lia|discriminate]].
    eapply within_weaken; [exact Hw| |]; lia.
  - rewrite Hs. injection H as <-. split; [apply within_nil|]. split; [rewrite ?total_bytes_nil, ?total_bytes_nil'; lia|reflexivity].
Qed.

Lemma contig_chunk_reads_ok fsz path dobjs n f ci p :
  forallb (obj_inv f) dobjs = true -> exists l, contig_chunk_reads fsz path dobjs n f ci p = Ok l.
Proof.
  intros Hall. unfold contig_chunk_reads.
  destruct (contig_seek_ok path ci n f dobjs p Hall) as [r Hr]. rewrite Hr. cbn [bind].
  pose proof (contig_seek_spec path ci n f dobjs p 0 r Hr) as Hs.
  destruct r as [[[o nv] cur']|]; [|eauto].
  destruct Hs as (Hin & Hnv & _).
  apply (read_values_reads_ok fsz o nv cur' f (forallb_In _ _ _ Hall Hin)).
  rewrite Hnv. apply chunk_nvals_cases.
Qed.

(* ---- one DAQmx chunk ------------------------------------------------------------------- *)

Definition dims_bytes (dims : list (Z * Z)) : Z := SegState.zsum (map (fun d => fst d * snd d) dims).

Lemma daqmx_chunk_reads_spec fsz : forall dims cur l,
  daqmx_chunk_reads fsz dims cur = Ok l ->
  within l cur (cur + dims_bytes dims) /\ 0 <= total_bytes l <= dims_bytes dims.
Proof.
  induction dims as [|[n w] dims IH]; intros cur l H.
  - cbn [daqmx_chunk_reads] in H. injection H as <-. split; [apply within_nil|].
    rewrite ?total_bytes_nil, ?total_bytes_nil'. unfold dims_bytes. cbn. lia.
  - cbn [daqmx_chunk_reads] in H.
    destruct (fromfile_reads fsz cur (w * n)) as [[l1 cur1]|e] eqn:Eff; cbn [bind] in H; [|discriminate].
    destruct (daqmx_chunk_reads fsz dims cur1) as [l2|e] eqn:Er; cbn [bind] in H; [|discriminate].
    injection H as <-.
    destruct (fromfile_reads_spec _ _ _ _ _ Eff) as (Hn & Hw1 & Ht1 & Hp).
    destruct (IH _ _ Er) as [Hw2 Ht2].
    unfold dims_bytes in *. cbn [map fst snd]. rewrite szsum_cons.
    split.
    + apply within_app; (eapply within_weaken; [eassumption| |]); lia.
    + rewrite total_bytes_app. lia.
Qed.

Lemma daqmx_chunk_reads_ok fsz : forall dims cur,
  forallb (fun d => 0 <=? snd d * fst d) dims = true -> exists l, daqmx_chunk_reads fsz dims cur = Ok l.
Proof.
  induction dims as [|[n w] dims IH]; intros cur Hall; [eexists; reflexivity|].
  cbn [forallb fst snd] in Hall. apply andb_prop in Hall. destruct Hall as [H0 Hall].
  cbn [daqmx_chunk_reads].
  destruct (fromfile_reads_ok fsz cur (w * n) ltac:(lia)) as (l1 & cur1 & H1). rewrite H1. cbn [bind].
  destruct (IH cur1 Hall) as [l2 H2]. rewrite H2. cbn [bind]. eauto.
Qed.

(* ---- the loop over the chunks of a segment ------------------------------------------- *)

Lemma chunks_reads_spec (read1 : Z -> Z -> res (list rd)) (lohi : Z -> Z * Z) (csize : Z) :
  (forall ci p l, read1 ci p = Ok l ->
                  within l (p + fst (lohi ci)) (p + snd (lohi ci)) /\
                  0 <= total_bytes l <= snd (lohi ci) - fst (lohi ci)) ->
  forall cis p l, chunks_reads read1 cis p csize = Ok l ->
    (forall q n, In (q, n) l ->
       0 <= n /\ exists k ci, nth_error cis k = Some ci /\
                              p + Z.of_nat k * csize + fst (lohi ci) <= q /\
                              q + n <= p + Z.of_nat k * csize + snd (lohi ci)) /\
    0 <= total_bytes l <= SegState.zsum (map (fun ci => snd (lohi ci) - fst (lohi ci)) cis).
Proof.
  intros Hone. induction cis as [|ci cis IH]; intros p l H.
  - cbn [chunks_reads] in H. injection H as <-. split; [intros q n []|]. cbn. lia.
  - cbn [chunks_reads] in H.
    destruct (read1 ci p) as [l1|e] eqn:E1; cbn [bind] in H; [|discriminate].
    destruct (chunks_reads read1 cis (p + csize) csize) as [l2|e] eqn:E2; cbn [bind] in H; [|discriminate].
    injection H as <-.
    destruct (Hone _ _ _ E1) as [Hw1 Ht1]. destruct (IH _ _ E2) as [Hw2 Ht2].
    split.
    + intros q n Hin. apply in_app_or in Hin. destruct Hin as [Hin|Hin].
      * destruct (Hw1 q n Hin) as (Hn & Hlo & Hhi). split; [exact Hn|].
        exists O, ci. split; [reflexivity|]. cbn [Z.of_nat]. lia.
      * destruct (Hw2 q n Hin) as (Hn & k & ci' & Hk & Hlo & Hhi). split; [exact Hn|].
        exists (S k), ci'. split; [exact Hk|]. rewrite Nat2Z.inj_succ. lia.
    + rewrite total_bytes_app. cbn [map]. rewrite szsum_cons. lia.
Qed.

Lemma chunks_reads_ok (read1 : Z -> Z -> res (list rd)) (csize : Z) :
  (forall ci p, exists l, read1 ci p = Ok l) ->
  forall cis p, exists l, chunks_reads read1 cis p csize = Ok l.
Proof.
  intros Hone. induction cis as [|ci cis IH]; intros p; [eexists; reflexivity|].
  cbn [chunks_reads]. destruct (Hone ci p) as [l1 H1]. rewrite H1. cbn [bind].
  destruct (IH (p + csize)) as [l2 H2]. rewrite H2. cbn [bind]. eauto.
Qed.

Lemma nth_error_zrange a b k ci : nth_error (zrange a b) k = Some ci -> ci = a + Z.of_nat k /\ a + Z.of_nat k < b.
Proof.
  unfold zrange. intros H. rewrite nth_error_map in H.
  destruct (nth_error (seq 0 (Z.to_nat (b - a))) k) as [m|] eqn:E; [|discriminate].
  cbn [option_map] in H. injection H as <-.
  assert (Hlt : (k < length (seq 0 (Z.to_nat (b - a))))%nat) by (apply nth_error_Some; congruence).
  rewrite seq_length in Hlt.
  rewrite (nth_error_nth' _ O) in E by (rewrite seq_length; exact Hlt).
  rewrite seq_nth in E by exact Hlt. injection E as <-. lia.
Qed.

(* ---- DAQmx: the dimensions of the data objects are those of all objects ------------- *)

Lemma buffer_dims_from_data_objs : forall objs dims widths,
  buffer_dims_from (data_objs objs) dims widths = buffer_dims_from objs dims widths.
Proof.
  induction objs as [|o objs IH]; intros dims widths; [reflexivity|].
  unfold data_objs in *. cbn [filter]. destruct (so_has_data o) eqn:Eh.
  - cbn [buffer_dims_from]. rewrite Eh. cbn [negb].
    destruct (so_daqmx o) as [q|]; [|reflexivity].
    destruct dims as [d0|].
    + destruct (negb (zlist_eqb (dq_widths q) widths)); [reflexivity|].
      destruct (bump_dims d0 (so_nvals o) (dq_scalers q)); cbn [bind]; [apply IH|reflexivity].
    + destruct (bump_dims _ (so_nvals o) (dq_scalers q)); cbn [bind]; [apply IH|reflexivity].
  - cbn [buffer_dims_from]. rewrite Eh. cbn [negb]. apply IH.
Qed.

Lemma buffer_dims_data_objs objs : buffer_dims (data_objs objs) = buffer_dims objs.
Proof. apply buffer_dims_from_data_objs. Qed.

(* ---- chunk_size per layout ---------------------------------------------------------------- *)

Lemma seg_layout_daqmx g : seg_layout g = Ok LDaqmx -> have_daqmx (sg_objs g) = Ok true.
Proof.
  unfold seg_layout. destruct (have_daqmx (sg_objs g)) as [[|]|e]; cbn [bind]; [reflexivity| |discriminate].
  destruct (have_interleaved _ _) as [[|]|e]; cbn [bind]; discriminate.
Qed.

Lemma seg_layout_plain g lay : seg_layout g = Ok lay -> lay <> LDaqmx -> have_daqmx (sg_objs g) = Ok false.
Proof.
  unfold seg_layout. destruct (have_daqmx (sg_objs g)) as [[|]|e]; cbn [bind]; [|reflexivity|discriminate].
  intros H. injection H as <-. congruence.
Qed.

Lemma chunk_size_daqmx g csize dims :
  seg_layout g = Ok LDaqmx -> chunk_size (sg_objs g) = Ok csize ->
  buffer_dims (data_objs (sg_objs g)) = Ok dims -> csize = dims_bytes dims.
Proof.
  intros Hl Hc Hd. unfold chunk_size in Hc. rewrite (seg_layout_daqmx g Hl) in Hc. cbn [bind] in Hc.
  rewrite buffer_dims_data_objs in Hd. rewrite Hd in Hc. cbn [bind] in Hc. injection Hc as <-. reflexivity.
Qed.

Lemma chunk_size_plain g lay csize :
  seg_layout g = Ok lay -> lay <> LDaqmx -> chunk_size (sg_objs g) = Ok csize ->
  csize = SegState.zsum (map so_dsize (data_objs (sg_objs g))).
Proof.
  intros Hl Hn Hc. unfold chunk_size in Hc. rewrite (seg_layout_plain g lay Hl Hn) in Hc. cbn [bind] in Hc.
  injection Hc as <-. reflexivity.
Qed.

(* interleaved: all objects sized with data_size = number_values * size and the same
   number of values, so a chunk is number_values rows of the summed width *)
Lemma interleaved_chunk_bytes (n0 : Z) : forall dobjs,
  forallb (fun o => obj_inv None o && is_sized o) dobjs = true ->
  forallb (fun o => so_nvals o =? n0) dobjs = true ->
  SegState.zsum (map so_dsize dobjs) =
  SegState.zsum (map (fun o => match sized o with Some s => s | None => 0 end) dobjs) * n0 /\
  0 <= SegState.zsum (map (fun o => match sized o with Some s => s | None => 0 end) dobjs).
Proof.
  induction dobjs as [|o dobjs IH]; intros H1 H2; [cbn; lia|].
  cbn [forallb] in H1, H2. apply andb_prop in H1. destruct H1 as [Ho H1].
  apply andb_prop in H2. destruct H2 as [Hn H2]. destruct (IH H1 H2) as [IHa IHb].
  cbn [map]. rewrite !szsum_cons. apply andb_prop in Ho. destruct Ho as [Hoi Hsz].
  unfold is_sized in Hsz. unfold obj_inv in Hoi.
  destruct (so_dtype o) as [dt|] eqn:Edt; [|rewrite andb_false_r in Hoi; discriminate].
  destruct (tds_size dt) as [[sz|]|] eqn:Ets.
  - rewrite (sized_of_dtype o dt sz Edt Ets) in *.
    assert (so_dsize o = so_nvals o * sz /\ 0 <= sz) by lia. nia.
  - rewrite (sized_of_unsized o dt Edt Ets) in Hsz. discriminate.
  - rewrite andb_false_r in Hoi. discriminate.
Qed.

(* ---- the reads of one segment -------------------------------------------------------------- *)

Definition seg_cost (path : bytes) (g : segment) (c : Z) : Z :=
  match chunk_window path g c with Some (lo, hi) => hi - lo | None => 0 end.

Lemma zrange_nth_in a b k ci : nth_error (zrange a b) k = Some ci -> a <= ci < b.
Proof. intros H. apply nth_error_zrange in H. lia. Qed.

Theorem seg_reads_spec fsz path g co nc l :
  seg_reads fsz path g co nc = Ok l -> layout_inv g = true -> (0 < nc -> 0 <= co) ->
  (forall p n, In (p, n) l ->
     0 <= n /\ forall b, p <= b < p + n ->
                 exists c lo hi, co <= c < co + nc /\ chunk_window path g c = Some (lo, hi) /\ lo <= b < hi) /\
  0 <= total_bytes l <= SegState.zsum (map (seg_cost path g) (zrange co (co + nc))).
Proof.
  unfold seg_reads, layout_inv. intros H Hinv Hco.
  destruct (chunk_size (sg_objs g)) as [csize|e] eqn:Ecs; cbn [bind] in H; [|discriminate].
  destruct (seg_layout g) as [lay|e] eqn:Elay; cbn [bind] in H; [|discriminate].
  assert (Hp0 : 0 < nc -> sg_data g + (if 0 <? co then csize * co else 0) = sg_data g + co * csize).
  { intros Hnc. specialize (Hco Hnc). destruct (0 <? co) eqn:E; [lia|]. replace co with 0 by lia. lia. }
  replace (nc + co) with (co + nc) in H by lia.
  destruct lay.
  - (* contiguous *)
    set (dobjs := data_objs (sg_objs g)) in *.
    set (lohi := contig_lo_hi path dobjs (sg_nchunks g) (sg_final g)).
    assert (Hone : forall ci p l0, contig_chunk_reads fsz path dobjs (sg_nchunks g) (sg_final g) ci p = Ok l0 ->
                                   within l0 (p + fst (lohi ci)) (p + snd (lohi ci)) /\
                                   0 <= total_bytes l0 <= snd (lohi ci) - fst (lohi ci)).
    { intros ci p l0 H0. pose proof (contig_chunk_reads_spec _ _ _ _ _ _ _ _ H0 Hinv) as Hs.
      unfold lohi. destruct (contig_lo_hi path dobjs (sg_nchunks g) (sg_final g) ci) as [lo hi].
      cbn [fst snd]. tauto. }
    destruct (chunks_reads_spec _ lohi csize Hone _ _ _ H) as [Hw Ht].
    assert (Hcost : forall ci, seg_cost path g ci = snd (lohi ci) - fst (lohi ci)).
    { intros ci. unfold seg_cost, chunk_window, lohi, contig_lo_hi. rewrite Ecs, Elay. fold dobjs.
      destruct (chan_extent path dobjs ci (sg_nchunks g) (sg_final g) 0) as [[b sz]|]; cbn [fst snd]; lia. }
    split.
    + intros p n Hin. destruct (Hw p n Hin) as (Hn & k & ci & Hk & Hlo & Hhi). split; [exact Hn|].
      intros b Hb. apply nth_error_zrange in Hk. destruct Hk as [Hci Hlt].
      assert (Hnc : 0 < nc) by lia. rewrite (Hp0 Hnc) in Hlo, Hhi.
      unfold lohi, contig_lo_hi in Hlo, Hhi.
      destruct (chan_extent path dobjs ci (sg_nchunks g) (sg_final g) 0) as [[b0 sz]|] eqn:Eext;
        cbn [fst snd] in Hlo, Hhi; [|lia].
      exists ci, (sg_data g + ci * csize + b0), (sg_data g + ci * csize + b0 + sz).
      split; [lia|]. split.
      * unfold chunk_window. rewrite Ecs, Elay. fold dobjs. rewrite Eext. reflexivity.
      * nia.
    + rewrite (map_ext _ _ Hcost). exact Ht.
  - (* interleaved: one read for all the chunks *)
    apply andb_prop in Hinv. destruct Hinv as [Hobjs Hsame].
    assert (Hcost : forall ci, seg_cost path g ci = csize).
    { intros ci. unfold seg_cost, chunk_window. rewrite Ecs, Elay. lia. }
    rewrite (map_ext _ _ Hcost), szsum_map_const, zrange_length.
    unfold interleaved_reads in H.
    destruct (data_objs (sg_objs g)) as [|o0 dobjs'] eqn:Edo.
    { injection H as <-. split; [intros p n []|]. rewrite ?total_bytes_nil, ?total_bytes_nil'.
      pose proof (chunk_size_plain g LInterleaved csize Elay ltac:(discriminate) Ecs) as Hc.
      rewrite Edo in Hc. cbn in Hc. nia. }
    rewrite Hsame in H. cbn [negb] in H.
    destruct (interleaved_chunk_bytes (so_nvals o0) _ Hobjs Hsame) as [Hsum Hwidth].
    pose proof (chunk_size_plain g LInterleaved csize Elay ltac:(discriminate) Ecs) as Hc.
    rewrite Edo in Hc. rewrite <- Hc in Hsum.
    set (width := SegState.zsum (map (fun o => match sized o with Some s => s | None => 0 end) (o0 :: dobjs'))) in *.
    destruct (fromfile_reads fsz _ (width * (so_nvals o0 * (co + nc - co)))) as [[l1 p1]|e] eqn:Eff;
      cbn [bind] in H; [|discriminate].
    injection H as <-. destruct (fromfile_reads_spec _ _ _ _ _ Eff) as (HN & Hw & Ht & _).
    assert (Hn0 : 0 <= so_nvals o0).
    { cbn [forallb] in Hobjs. apply andb_prop in Hobjs. destruct Hobjs as [Ho _].
      apply andb_prop in Ho. destruct Ho as [Ho _]. unfold obj_inv in Ho.
      apply andb_prop in Ho. destruct Ho as [Ho _]. apply andb_prop in Ho. lia. }
    assert (Hcs0 : 0 <= csize) by (rewrite Hsum; apply Z.mul_nonneg_nonneg; lia).
    assert (HNeq : width * (so_nvals o0 * (co + nc - co)) = csize * nc).
    { rewrite Hsum. replace (co + nc - co) with nc by lia. ring. }
    rewrite HNeq in *.
    split.
    + intros p n Hin. destruct (Hw p n Hin) as (Hn & Hlo & Hhi). split; [exact Hn|].
      intros b Hb.
      assert (Hcspos : 0 < csize /\ 0 < nc).
      { assert (0 < csize * nc) by (clear - Hlo Hhi Hb; lia). clear - H Hcs0.
        assert (0 < csize) by (destruct (Z.eq_dec csize 0) as [->|]; lia).
        split; [assumption|]. destruct (Z_lt_le_dec 0 nc); [assumption|]. exfalso.
        assert (csize * nc <= 0) by (apply Z.mul_nonneg_nonpos; lia). lia. }
      rewrite (Hp0 ltac:(lia)) in Hlo, Hhi.
      exists (co + (b - (sg_data g + co * csize)) / csize),
             (sg_data g + (co + (b - (sg_data g + co * csize)) / csize) * csize),
             (sg_data g + (co + (b - (sg_data g + co * csize)) / csize) * csize + csize).
      split; [|split].
      * assert (0 <= (b - (sg_data g + co * csize)) / csize < nc); [|lia].
        split; [apply Z.div_pos; lia|apply Z.div_lt_upper_bound; nia].
      * unfold chunk_window. rewrite Ecs, Elay. reflexivity.
      * pose proof (Z.mul_div_le (b - (sg_data g + co * csize)) csize ltac:(lia)).
        pose proof (Z.mul_succ_div_gt (b - (sg_data g + co * csize)) csize ltac:(lia)). nia.
    + assert (0 <= csize * Z.max 0 nc) by nia. nia.
  - (* DAQmx: every chunk is read whole, buffer after buffer *)
    destruct (buffer_dims (data_objs (sg_objs g))) as [dims|e] eqn:Edims; cbn [bind] in H; [|discriminate].
    pose proof (chunk_size_daqmx g csize dims Elay Ecs Edims) as Hcs.
    assert (Hone : forall (ci p : Z) l0, daqmx_chunk_reads fsz dims p = Ok l0 ->
                                   within l0 (p + fst (0, csize)) (p + snd (0, csize)) /\
                                   0 <= total_bytes l0 <= snd (0, csize) - fst (0, csize)).
    { intros ci p l0 H0. destruct (daqmx_chunk_reads_spec _ _ _ _ H0) as [Hw Ht]. cbn [fst snd].
      rewrite Hcs. split; [eapply within_weaken; [exact Hw| |]; lia|lia]. }
    destruct (chunks_reads_spec (fun _ p => daqmx_chunk_reads fsz dims p) (fun _ => (0, csize)) csize Hone _ _ _ H)
      as [Hw Ht].
    assert (Hcost : forall ci, seg_cost path g ci = snd (0, csize) - fst (0, csize)).
    { intros ci. unfold seg_cost, chunk_window. rewrite Ecs, Elay. cbn [fst snd]. lia. }
    split.
    + intros p n Hin. destruct (Hw p n Hin) as (Hn & k & ci & Hk & Hlo & Hhi). split; [exact Hn|].
      intros b Hb. apply nth_error_zrange in Hk. destruct Hk as [Hci Hlt].
      assert (Hnc : 0 < nc) by lia. rewrite (Hp0 Hnc) in Hlo, Hhi. cbn [fst snd] in Hlo, Hhi.
      exists ci, (sg_data g + ci * csize), (sg_data g + ci * csize + csize).
      split; [lia|]. split; [unfold chunk_window; rewrite Ecs, Elay; reflexivity|nia].
    + rewrite (map_ext _ _ Hcost). exact Ht.
Qed.

Theorem seg_reads_ok fsz path g co nc :
  layout_inv g = true -> (seg_layout g = Ok LInterleaved -> 0 <= nc) ->
  exists l, seg_reads fsz path g co nc = Ok l.
Proof.
  unfold seg_reads, layout_inv. intros Hinv Hnc.
  destruct (chunk_size (sg_objs g)) as [csize|e] eqn:Ecs; [|discriminate]. cbn [bind].
  destruct (seg_layout g) as [lay|e] eqn:Elay; [|discriminate]. cbn [bind].
  destruct lay.
  - apply chunks_reads_ok. intros ci p. apply contig_chunk_reads_ok. exact Hinv.
  - apply andb_prop in Hinv. destruct Hinv as [Hobjs Hsame]. unfold interleaved_reads.
    destruct (data_objs (sg_objs g)) as [|o0 dobjs'] eqn:Edo; [eauto|].
    rewrite Hsame. cbn [negb].
    destruct (interleaved_chunk_bytes (so_nvals o0) _ Hobjs Hsame) as [_ Hwidth].
    assert (Hn0 : 0 <= so_nvals o0).
    { cbn [forallb] in Hobjs. apply andb_prop in Hobjs. destruct Hobjs as [Ho _].
      apply andb_prop in Ho. destruct Ho as [Ho _]. unfold obj_inv in Ho.
      apply andb_prop in Ho. destruct Ho as [Ho _]. apply andb_prop in Ho. lia. }
    specialize (Hnc eq_refl).
    match goal with |- context [fromfile_reads ?a ?b ?c] =>
      destruct (fromfile_reads_ok a b c) as (l1 & p1 & H1) end.
    + apply Z.mul_nonneg_nonneg; [exact Hwidth|]. apply Z.mul_nonneg_nonneg; lia.
    + rewrite H1. cbn [bind]. eauto.
  - destruct (buffer_dims (data_objs (sg_objs g))) as [dims|e]; [|discriminate]. cbn [bind].
    apply chunks_reads_ok. intros ci p. apply daqmx_chunk_reads_ok. exact Hinv.
Qed.
