(* TdmsFile._read_file's hierarchy construction as TRANSLATED FROM THE SOURCE on every run (Gen/PyFuncsHier.v, written
   by harness/gen/gen_pyfuncs_hier.py from nptdms/tdms.py) equals Model/Reader.v build_hierarchy, for every
   object_metadata dictionary (an association list with distinct keys); and every channel is handed the property
   dictionaries of its group object (looked up by the canonical group path among ALL objects of the file) and of the
   root object. *)
From Coq Require Import String.
From Coq Require Import ZArith List Bool Lia.
From Coq Require Import Init.Byte.
Import ListNotations.
From NpTdms Require Import Base.Bytes Base.Res Base.PySlice Model.Path Model.Tokens Model.SegState Model.Layout Model.Reader
     Gen.PyFuncsHier Proofs.SegStateProofs.
Local Open Scope Z_scope.

Definition res_map {A B} (f : A -> B) (r : res A) : res B :=
  match r with Ok a => Ok (f a) | Err e => Err e end.

(* ---- views of the translated objects in the model's records --------------------------------------------------- *)

Definition chan_view (c : gchan) : channel :=
  mkChan (gchan_group_name c) (gchan_name c) (gchan_path c) (gc_dtype c) (gc_scalers c) (gc_length c) (gc_props c).
Definition chans_view (d : alist gchan) : alist channel := map (fun kv => (fst kv, chan_view (snd kv))) d.
Definition group_view (g : ggroup) : group := mkGroup (ggroup_name g) (gg_props g) (chans_view (gg_chans g)).
Definition groups_view (d : alist ggroup) : alist group := map (fun kv => (fst kv, group_view (snd kv))) d.
Definition hier_view (r : alist prop * alist ggroup) : hierarchy := mkHier (fst r) (groups_view (snd r)).

(* tdms.py _read_file: object_properties[path.group_path()] (else {}), object_properties['/'] (else {})
   -- the same definitions as Proofs/ScaleFile.v group_props_of / root_props_of *)
Definition group_props_of (om : alist ometa) (g : bytes) : alist prop :=
  match alookup (path_to_string (Some g) None) om with Some m => om_props m | None => [] end.
Definition root_props_of (om : alist ometa) : alist prop :=
  match alookup [SB] om with Some m => om_props m | None => [] end.

(* ---- association lists ------------------------------------------------------------------------------------------ *)

Lemma alookup_map_values {V W} (f : V -> W) k (l : alist V) :
  alookup k (map (fun kv => (fst kv, f (snd kv))) l) = option_map f (alookup k l).
Proof. induction l as [|[k' v] r IH]; [reflexivity|]. cbn. destruct (bytes_eqb k k'); [reflexivity|exact IH]. Qed.

Lemma aset_map_values {V W} (f : V -> W) k v (l : alist V) :
  map (fun kv => (fst kv, f (snd kv))) (aset k v l) = aset k (f v) (map (fun kv => (fst kv, f (snd kv))) l).
Proof.
  induction l as [|[k' v'] r IH]; [reflexivity|]. cbn [aset map fst snd].
  destruct (bytes_eqb k k'); cbn [map fst snd]; [reflexivity|]. f_equal. exact IH.
Qed.

Lemma alookup_none_notin {V} k (l : alist V) : alookup k l = None -> ~ In k (map fst l).
Proof.
  induction l as [|[k' v] r IH]; cbn; [intros _ []|].
  destruct (bytes_eqb k k') eqn:E; [discriminate|]. intros H [Hk|Hin]; [|exact (IH H Hin)].
  subst k'. rewrite bytes_eqb_refl in E. discriminate.
Qed.

Lemma aset_fresh' {V} (k : bytes) (v : V) (l : alist V) : alookup k l = None -> aset k v l = l ++ [(k, v)].
Proof.
  induction l as [|[k' v'] r IH]; cbn; intros H; [reflexivity|].
  destruct (bytes_eqb k k'); [discriminate|]. f_equal. apply IH. exact H.
Qed.

Lemma alookup_notin {V} k (l : alist V) : ~ In k (map fst l) -> alookup k l = None.
Proof.
  induction l as [|[k' v] r IH]; cbn; intros H; [reflexivity|].
  destruct (bytes_eqb k k') eqn:E.
  - apply bytes_eqb_eq in E. subst k'. exfalso. apply H. left. reflexivity.
  - apply IH. intros Hin. apply H. right. exact Hin.
Qed.

(* a dictionary built from distinct keys is the list itself *)
Lemma fold_aset_nodup {V} : forall (l acc : alist V),
  NoDup (map fst acc ++ map fst l) ->
  fold_left (fun d kv => aset (fst kv) (snd kv) d) l acc = acc ++ l.
Proof.
  induction l as [|[k v] r IH]; intros acc Hnd; cbn [fold_left]; [rewrite app_nil_r; reflexivity|].
  cbn [map fst snd] in *.
  assert (Hk : alookup k acc = None).
  { apply alookup_notin. intros Hin. apply NoDup_remove_2 in Hnd. apply Hnd. apply in_or_app. left. exact Hin. }
  rewrite (aset_fresh' k v acc Hk). rewrite IH; [rewrite <- app_assoc; reflexivity|].
  rewrite map_app. cbn [map fst]. rewrite <- app_assoc. exact Hnd.
Qed.

Lemma dict_of_pairs_nodup {V} (l : alist V) : NoDup (map fst l) -> dict_of_pairs l = l.
Proof. intros Hnd. unfold dict_of_pairs. rewrite fold_aset_nodup; [reflexivity|exact Hnd]. Qed.

Lemma NoDup_app_single {A} (l : list A) x : NoDup l -> ~ In x l -> NoDup (l ++ [x]).
Proof.
  induction l as [|y r IH]; intros Hnd Hx; cbn; [constructor; [intros []|constructor]|].
  inversion Hnd as [|? ? Hy Hr]; subst. constructor.
  - intros Hin. apply in_app_or in Hin. destruct Hin as [Hin|[<-|[]]]; [exact (Hy Hin)|]. apply Hx. left. reflexivity.
  - apply IH; [exact Hr|]. intros Hin. apply Hx. right. exact Hin.
Qed.

Lemma aset_keys_nodup {V} k (v : V) (l : alist V) : NoDup (map fst l) -> NoDup (map fst (aset k v l)).
Proof.
  intros Hnd. destruct (alookup k l) as [x|] eqn:E.
  - rewrite aset_keys_in; [exact Hnd|]. rewrite E. discriminate.
  - rewrite (aset_keys_new k v l E). apply NoDup_app_single; [exact Hnd|]. apply alookup_none_notin. exact E.
Qed.

Lemma alookup_In_nodup {V} k (v : V) (l : alist V) : NoDup (map fst l) -> (alookup k l = Some v <-> In (k, v) l).
Proof.
  induction l as [|[k' v'] r IH]; cbn [map fst alookup In]; intros Hnd; [split; [discriminate|intros []]|].
  inversion Hnd as [|? ? Hk Hr]; subst. destruct (bytes_eqb k k') eqn:E.
  - apply bytes_eqb_eq in E. subst k'. split.
    + intros [= <-]. left. reflexivity.
    + intros [[= <-]|Hin]; [reflexivity|]. exfalso. apply Hk. apply (in_map fst) in Hin. exact Hin.
  - split.
    + intros H. right. apply (IH Hr). exact H.
    + intros [[= <- <-]|Hin]; [rewrite bytes_eqb_refl in E; discriminate|]. apply (IH Hr). exact Hin.
Qed.

(* ---- ObjectPath ----------------------------------------------------------------------------------------------------- *)

Lemma opath_from_string_eq s :
  opath_from_string s = match path_from_string s with inr p => Ok p | inl _ => Err EValue end.
Proof. reflexivity. Qed.

(* ---- the loop over object_metadata ---------------------------------------------------------------------------------- *)

Definition gchans_view (d : alist (list gchan)) : alist (list channel) := map (fun kv => (fst kv, map chan_view (snd kv))) d.

Lemma gchans_view_aset g l gc : gchans_view (aset g l gc) = aset g (map chan_view l) (gchans_view gc).
Proof. unfold gchans_view. apply (aset_map_values (map chan_view)). Qed.

Lemma gchans_view_lookup g gc : alookup g (gchans_view gc) = option_map (map chan_view) (alookup g gc).
Proof. unfold gchans_view. apply (alookup_map_values (map chan_view)). Qed.

Lemma tdms_channel_new_eq p dt sc n ps gps fps :
  tdms_channel_new p dt sc n ps gps fps tt tt tt = Ok (mkGchan p ps n dt sc gps fps).
Proof. reflexivity. Qed.

(* every channel collected so far carries the group / file dictionaries of the whole file *)
Definition chan_wired (om : alist ometa) (c : gchan) : Prop :=
  gc_group_props c = group_props_of om (gchan_group_name c) /\ gc_file_props c = root_props_of om.
Definition gchans_wired (om : alist ometa) (d : alist (list gchan)) : Prop :=
  Forall (fun kv => Forall (chan_wired om) (snd kv)) d.

Lemma aset_Forall_values {V} (P : V -> Prop) k v (d : alist V) :
  P v -> Forall (fun kv => P (snd kv)) d -> Forall (fun kv => P (snd kv)) (aset k v d).
Proof.
  intros Hv. induction 1 as [|[k' v'] r Hk Hr IH]; cbn [aset]; [constructor; [exact Hv|constructor]|].
  destruct (bytes_eqb k k'); constructor; auto.
Qed.

Lemma alookup_Forall {V} (P : V -> Prop) k v (d : alist V) :
  Forall (fun kv => P (snd kv)) d -> alookup k d = Some v -> P v.
Proof.
  induction 1 as [|[k' v'] r Hk Hr IH]; cbn; [discriminate|].
  destruct (bytes_eqb k k'); [intros [= <-]; exact Hk|exact IH].
Qed.

Section Loop.
Variable om : alist ometa.
Hypothesis Hnd : NoDup (map fst om).

Let object_properties := dict_of_pairs (map (fun '(path_string, obj) => (path_string, om_props obj)) om).

Lemma object_properties_lookup k : alookup k object_properties = option_map om_props (alookup k om).
Proof.
  unfold object_properties. rewrite dict_of_pairs_nodup.
  - rewrite <- (alookup_map_values om_props k om). f_equal. apply map_ext. intros [a b]. reflexivity.
  - rewrite map_map. erewrite map_ext; [exact Hnd|]. intros [a b]. reflexivity.
Qed.

Lemma root_eq :
  match alookup (hex "2f"%string) object_properties with Some v => v | None => [] end = root_props_of om.
Proof.
  unfold root_props_of. rewrite object_properties_lookup. change (hex "2f"%string) with [SB].
  destruct (alookup [SB] om); reflexivity.
Qed.

Lemma group_props_eq g c :
  match alookup (op_group_path (Some g, c)) object_properties with Some v => v | None => [] end = group_props_of om g.
Proof.
  unfold group_props_of. rewrite object_properties_lookup.
  change (op_group_path (Some g, c)) with (path_to_string (Some g) None).
  destruct (alookup (path_to_string (Some g) None) om); reflexivity.
Qed.

(* a suffix of object_metadata is scanned; its entries are entries of the whole dictionary *)
Lemma loop1_eq : forall (rest : alist ometa) gp gc,
  (forall p m, In (p, m) rest -> alookup p om = Some m) ->
  gchans_wired om gc ->
  match read_file_hierarchy_gen_loop1 object_properties (root_props_of om) tt tt tt rest gp gc with
  | Ok (gp', gc') =>
    hier_scan rest (root_props_of om) gp (gchans_view gc) = Ok (root_props_of om, gp', gchans_view gc') /\ gchans_wired om gc'
  | Err e => hier_scan rest (root_props_of om) gp (gchans_view gc) = Err e
  end.
Proof.
  induction rest as [|[pstr m] r IH]; intros gp gc Hin Hw.
  - cbn. split; [reflexivity|exact Hw].
  - cbn [read_file_hierarchy_gen_loop1 hier_scan].
    rewrite object_properties_lookup, (Hin pstr m (or_introl eq_refl)). cbn [option_map need bind].
    rewrite opath_from_string_eq.
    assert (Hin' : forall p m0, In (p, m0) r -> alookup p om = Some m0) by (intros; apply Hin; right; assumption).
    destruct (path_from_string pstr) as [e|[[g|] c]]; cbn [bind].
    + reflexivity.
    + destruct c as [c|].
      * (* a channel *)
        change (op_is_root (Some g, Some c)) with false. change (op_is_group (Some g, Some c)) with false. cbn iota.
        rewrite group_props_eq, tdms_channel_new_eq. cbn [bind].
        change (op_group_str (Some g, Some c)) with g.
        set (ch := mkGchan (Some g, Some c) (om_props m) (om_len m) (om_dtype m) (om_scalers m) (group_props_of om g) (root_props_of om)).
        assert (Hch : chan_wired om ch) by (split; reflexivity).
        assert (Hv : chan_view ch = mkChan g c (path_to_string (Some g) (Some c)) (om_dtype m) (om_scalers m) (om_len m) (om_props m))
          by reflexivity.
        rewrite gchans_view_lookup.
        destruct (alookup g gc) as [l|] eqn:El; cbn [is_none negb option_map need bind].
        -- specialize (IH gp (aset g (l ++ [ch]) gc) Hin').
           rewrite gchans_view_aset, map_app in IH. cbn [map] in IH. rewrite Hv in IH.
           apply IH. apply aset_Forall_values; [|exact Hw]. apply Forall_app. split; [|constructor; [exact Hch|constructor]].
           exact (alookup_Forall (Forall (chan_wired om)) g l gc Hw El).
        -- specialize (IH gp (aset g [ch] gc) Hin').
           rewrite gchans_view_aset in IH. cbn [map] in IH. rewrite Hv in IH.
           apply IH. apply aset_Forall_values; [|exact Hw]. constructor; [exact Hch|constructor].
      * (* a group *)
        change (op_is_root (Some g, None)) with false. change (op_is_group (Some g, None)) with true. cbn iota.
        change (op_group_str (Some g, None)) with g. apply IH; assumption.
    + (* the root *)
      change (op_is_root (None, c)) with true. cbn iota. apply IH; assumption.
Qed.
End Loop.

(* ---- the two loops that create the groups ----------------------------------------------------------------------------- *)

Lemma chans_dict_view (l : list gchan) :
  chans_view (dict_of_pairs (map (fun c => (gchan_name c, c)) l)) = chans_dict (map chan_view l).
Proof.
  unfold dict_of_pairs, chans_dict. change (@nil (bytes * channel)) with (chans_view []). generalize (@nil (bytes * gchan)).
  induction l as [|c r IH]; intros acc; [reflexivity|]. cbn [map fold_left fst snd].
  rewrite IH. f_equal. unfold chans_view. rewrite (aset_map_values chan_view). reflexivity.
Qed.

Lemma tdms_group_new_eq p ps cs :
  tdms_group_new p ps cs = Ok (mkGgroup p ps (dict_of_pairs (map (fun c => (gchan_name c, c)) cs))).
Proof. reflexivity. Qed.

Lemma loop2_eq gc : forall (gp : alist (alist prop)) acc,
  NoDup (map fst acc ++ map fst gp) ->
  exists groups,
    read_file_hierarchy_gen_loop2 gc gp acc = Ok groups /\
    groups_view groups
    = groups_view acc ++
      map (fun kv => (fst kv, mkGroup (fst kv) (snd kv)
                                      (chans_dict (match alookup (fst kv) (gchans_view gc) with Some l => l | None => [] end)))) gp.
Proof.
  induction gp as [|[g ps] r IH]; intros acc Hnd.
  - exists acc. split; [reflexivity|]. cbn [map]. rewrite app_nil_r. reflexivity.
  - cbn [read_file_hierarchy_gen_loop2]. rewrite tdms_group_new_eq. cbn [bind].
    cbn [map fst] in Hnd.
    assert (Hg : alookup g acc = None).
    { apply alookup_notin. intros Hin. apply NoDup_remove_2 in Hnd. apply Hnd. apply in_or_app. left. exact Hin. }
    rewrite (aset_fresh' g _ acc Hg).
    destruct (IH (acc ++ [(g, mkGgroup (opath_group g) ps
                                       (dict_of_pairs (map (fun c => (gchan_name c, c))
                                                           (match alookup g gc with Some v => v | None => [] end))))]))
      as (groups & Hr & Hv).
    { rewrite map_app. cbn [map fst]. rewrite <- app_assoc. exact Hnd. }
    exists groups. split; [exact Hr|]. rewrite Hv. unfold groups_view at 1. rewrite map_app, <- app_assoc. cbn [map app fst snd].
    f_equal. f_equal. unfold group_view. cbn [ggroup_name gg_path gg_props gg_chans opath_group op_group_str fst].
    f_equal. f_equal. rewrite chans_dict_view. f_equal.
    rewrite gchans_view_lookup. destruct (alookup g gc); reflexivity.
Qed.

Lemma loop3_eq : forall (gc : alist (list gchan)) acc,
  exists groups,
    read_file_hierarchy_gen_loop3 gc acc = Ok groups /\
    groups_view groups
    = fold_left (fun a kv => match alookup (fst kv) a with
                             | Some _ => a
                             | None => a ++ [(fst kv, mkGroup (fst kv) [] (chans_dict (snd kv)))]
                             end) (gchans_view gc) (groups_view acc).
Proof.
  induction gc as [|[g cs] r IH]; intros acc.
  - exists acc. split; reflexivity.
  - cbn [read_file_hierarchy_gen_loop3 gchans_view map fold_left fst snd].
    unfold groups_view at 2. rewrite (alookup_map_values group_view g acc).
    destruct (alookup g acc) as [x|] eqn:Eg; cbn [is_none negb option_map].
    + apply IH.
    + rewrite tdms_group_new_eq. cbn [bind]. rewrite (aset_fresh' g _ acc Eg).
      destruct (IH (acc ++ [(g, mkGgroup (opath_group g) [] (dict_of_pairs (map (fun c => (gchan_name c, c)) cs)))]))
        as (groups & Hr & Hv).
      exists groups. split; [exact Hr|]. rewrite Hv. f_equal.
      unfold groups_view. rewrite map_app. cbn [map fst snd]. f_equal. f_equal. f_equal.
      unfold group_view. cbn [ggroup_name gg_path gg_props gg_chans opath_group op_group_str fst]. f_equal.
      apply chans_dict_view.
Qed.

(* the group dictionary hier_scan builds has distinct keys *)
Lemma hier_scan_gprops_nodup : forall om root gp gc root' gp' gc',
  NoDup (map fst gp) -> hier_scan om root gp gc = Ok (root', gp', gc') -> NoDup (map fst gp').
Proof.
  induction om as [|[p m] r IH]; intros root gp gc root' gp' gc' Hnd; cbn [hier_scan]; [intros [= _ <- _]; exact Hnd|].
  destruct (path_from_string p) as [e|[[g|] [c|]]]; try discriminate; try (apply IH; exact Hnd).
  apply IH. apply aset_keys_nodup. exact Hnd.
Qed.

(* ---- the theorems --------------------------------------------------------------------------------------------------------- *)

Theorem read_file_hierarchy_gen_eq om :
  NoDup (map fst om) ->
  res_map hier_view (read_file_hierarchy_gen om tt tt tt) = build_hierarchy om.
Proof.
  intros Hnd. unfold read_file_hierarchy_gen, build_hierarchy.
  rewrite (root_eq om Hnd). fold (root_props_of om).
  pose proof (loop1_eq om Hnd om [] [] (fun p m Hin => proj2 (alookup_In_nodup p m om Hnd) Hin) (Forall_nil _)) as H1.
  change (gchans_view []) with (@nil (bytes * list channel)) in H1.
  destruct (read_file_hierarchy_gen_loop1 _ (root_props_of om) tt tt tt om [] []) as [[gp gc]|e]; cbn [bind].
  - destruct H1 as [H1 _]. rewrite H1. cbn [bind].
    destruct (loop2_eq gc gp []) as (g2 & Hr2 & Hv2).
    { cbn [map app]. refine (hier_scan_gprops_nodup om _ [] _ _ _ _ _ H1). constructor. }
    rewrite Hr2. cbn [bind]. destruct (loop3_eq gc g2) as (g3 & Hr3 & Hv3). rewrite Hr3. cbn [bind res_map].
    unfold hier_view. cbn [fst snd]. rewrite Hv3, Hv2. reflexivity.
  - rewrite H1. reflexivity.
Qed.

(* ---- which dictionaries a channel is given (what scaling.get_scaling will look at) ---------------------------------- *)

Definition group_wired (om : alist ometa) (g : ggroup) : Prop :=
  Forall (fun kc => chan_wired om (snd kc)) (gg_chans g).

Lemma dict_of_pairs_Forall {V} (P : V -> Prop) (l : alist V) :
  Forall (fun kv => P (snd kv)) l -> Forall (fun kv => P (snd kv)) (dict_of_pairs l).
Proof.
  unfold dict_of_pairs. assert (Ha : Forall (fun kv : bytes * V => P (snd kv)) []) by constructor. revert Ha.
  generalize (@nil (bytes * V)). induction l as [|[k v] r IH]; intros acc Ha Hl; [exact Ha|].
  inversion Hl as [|? ? Hk Hr]; subst. cbn [fold_left fst snd]. apply IH; [|exact Hr].
  apply aset_Forall_values; [exact Hk|exact Ha].
Qed.

Lemma chans_group_wired om p ps cs :
  Forall (chan_wired om) cs -> group_wired om (mkGgroup p ps (dict_of_pairs (map (fun c => (gchan_name c, c)) cs))).
Proof.
  intros H. unfold group_wired. cbn [gg_chans]. apply dict_of_pairs_Forall.
  apply Forall_forall. intros kv Hin. apply in_map_iff in Hin. destruct Hin as (c & <- & Hc).
  rewrite Forall_forall in H. exact (H c Hc).
Qed.

Lemma loop2_wired om gc : gchans_wired om gc -> forall gp acc groups,
  Forall (fun kv => group_wired om (snd kv)) acc ->
  read_file_hierarchy_gen_loop2 gc gp acc = Ok groups -> Forall (fun kv => group_wired om (snd kv)) groups.
Proof.
  intros Hw. induction gp as [|[g ps] r IH]; intros acc groups Ha; cbn [read_file_hierarchy_gen_loop2]; [intros [= <-]; exact Ha|].
  rewrite tdms_group_new_eq. cbn [bind]. apply IH. apply (aset_Forall_values (group_wired om)); [|exact Ha].
  apply chans_group_wired. destruct (alookup g gc) as [l|] eqn:El; [|constructor].
  exact (alookup_Forall (Forall (chan_wired om)) g l gc Hw El).
Qed.

Lemma loop3_wired om : forall gc acc groups,
  gchans_wired om gc -> Forall (fun kv => group_wired om (snd kv)) acc ->
  read_file_hierarchy_gen_loop3 gc acc = Ok groups -> Forall (fun kv => group_wired om (snd kv)) groups.
Proof.
  induction gc as [|[g cs] r IH]; intros acc groups Hw Ha; cbn [read_file_hierarchy_gen_loop3]; [intros [= <-]; exact Ha|].
  inversion Hw as [|? ? Hg Hr]; subst. cbn [snd] in Hg.
  destruct (negb (negb (is_none (alookup g acc)))); [|apply IH; assumption].
  rewrite tdms_group_new_eq. cbn [bind]. apply IH; [exact Hr|].
  apply (aset_Forall_values (group_wired om)); [|exact Ha]. apply chans_group_wired. exact Hg.
Qed.

Theorem channels_wired om root groups :
  NoDup (map fst om) ->
  read_file_hierarchy_gen om tt tt tt = Ok (root, groups) ->
  root = root_props_of om /\ Forall (fun kv => group_wired om (snd kv)) groups.
Proof.
  intros Hnd. unfold read_file_hierarchy_gen. rewrite (root_eq om Hnd).
  pose proof (loop1_eq om Hnd om [] [] (fun p m Hin => proj2 (alookup_In_nodup p m om Hnd) Hin) (Forall_nil _)) as H1.
  destruct (read_file_hierarchy_gen_loop1 _ (root_props_of om) tt tt tt om [] []) as [[gp gc]|e]; cbn [bind]; [|discriminate].
  destruct H1 as [_ Hw].
  destruct (read_file_hierarchy_gen_loop2 gc gp []) as [g2|] eqn:E2; cbn [bind]; [|discriminate].
  destruct (read_file_hierarchy_gen_loop3 gc g2) as [g3|] eqn:E3; cbn [bind]; [|discriminate].
  intros [= <- <-]. split; [reflexivity|].
  apply (loop3_wired om gc g2 g3 Hw); [|exact E3]. apply (loop2_wired om gc Hw gp [] g2); [constructor|exact E2].
Qed.

(* ---- lookups: TdmsFile.groups / __getitem__, TdmsGroup.channels / __getitem__ ----------------------------------------- *)

Theorem tdms_file_groups_eq groups : tdms_file_groups_gen groups = Ok (map snd groups).
Proof. reflexivity. Qed.

Theorem tdms_file_getitem_eq groups name :
  tdms_file_getitem_gen groups name = match alookup name groups with Some g => Ok g | None => Err EKey end.
Proof. unfold tdms_file_getitem_gen. destruct (alookup name groups); reflexivity. Qed.

Theorem tdms_group_channels_eq g : tdms_group_channels_gen g = Ok (map snd (gg_chans g)).
Proof. reflexivity. Qed.

Theorem tdms_group_getitem_eq g name :
  tdms_group_getitem_gen g name = match alookup name (gg_chans g) with Some c => Ok c | None => Err EKey end.
Proof. unfold tdms_group_getitem_gen. destruct (alookup name (gg_chans g)); reflexivity. Qed.

(* ... and in the model's hierarchy: the group found under a name is the view of the one the code finds *)
Corollary getitem_view groups name :
  alookup name (groups_view groups) = option_map group_view (alookup name groups).
Proof. unfold groups_view. apply alookup_map_values. Qed.

Corollary channel_getitem_view g name :
  alookup name (g_chans (group_view g)) = option_map chan_view (alookup name (gg_chans g)).
Proof. cbn [group_view g_chans]. unfold chans_view. apply alookup_map_values. Qed.

(* ---- names: dictionary keys, `name`, `path`, `group_name` ------------------------------------------------------------ *)

Lemma aset_Forall_kv {V} (P : bytes * V -> Prop) k v (d : alist V) :
  P (k, v) -> Forall P d -> Forall P (aset k v d).
Proof.
  intros Hv. induction 1 as [|[k' v'] r Hk Hr IH]; cbn [aset]; [constructor; [exact Hv|constructor]|].
  destruct (bytes_eqb k k') eqn:E; [|constructor; auto].
  apply bytes_eqb_eq in E. subst k'. constructor; assumption.
Qed.

Lemma dict_of_pairs_Forall_kv {V} (P : bytes * V -> Prop) (l : alist V) : Forall P l -> Forall P (dict_of_pairs l).
Proof.
  unfold dict_of_pairs. assert (Ha : Forall P []) by constructor. revert Ha.
  generalize (@nil (bytes * V)). induction l as [|[k v] r IH]; intros acc Ha Hl; [exact Ha|].
  inversion Hl as [|? ? Hk Hr]; subst. cbn [fold_left fst snd]. apply IH; [|exact Hr].
  apply aset_Forall_kv; assumption.
Qed.

Lemma dict_of_pairs_keys_nodup {V} (l : alist V) : NoDup (map fst (dict_of_pairs l)).
Proof.
  unfold dict_of_pairs. assert (Ha : NoDup (map fst (@nil (bytes * V)))) by constructor. revert Ha.
  generalize (@nil (bytes * V)). induction l as [|[k v] r IH]; intros acc Ha; [exact Ha|].
  cbn [fold_left fst snd]. apply IH. apply aset_keys_nodup. exact Ha.
Qed.

(* a channel of group g *)
Definition chan_of (g : bytes) (c : gchan) : Prop := exists n, gc_path c = (Some g, Some n).
(* a group stored under its name, holding its channels under their names *)
Definition group_named (kv : bytes * ggroup) : Prop :=
  gg_path (snd kv) = (Some (fst kv), None) /\
  NoDup (map fst (gg_chans (snd kv))) /\
  Forall (fun kc => gc_path (snd kc) = (Some (fst kv), Some (fst kc))) (gg_chans (snd kv)).

Lemma group_new_named g ps cs :
  Forall (chan_of g) cs -> group_named (g, mkGgroup (opath_group g) ps (dict_of_pairs (map (fun c => (gchan_name c, c)) cs))).
Proof.
  intros H. split; [reflexivity|]. split; [apply dict_of_pairs_keys_nodup|]. cbn [snd fst gg_chans].
  apply dict_of_pairs_Forall_kv. apply Forall_forall. intros kc Hin. apply in_map_iff in Hin. destruct Hin as (c & <- & Hc).
  rewrite Forall_forall in H. destruct (H c Hc) as [n Hn]. cbn [fst snd]. unfold gchan_name. rewrite Hn. reflexivity.
Qed.

Lemma loop1_named object_properties root : forall (rest : alist ometa) gp gc gp' gc',
  Forall (fun kv => Forall (chan_of (fst kv)) (snd kv)) gc ->
  read_file_hierarchy_gen_loop1 object_properties root tt tt tt rest gp gc = Ok (gp', gc') ->
  Forall (fun kv => Forall (chan_of (fst kv)) (snd kv)) gc'.
Proof.
  induction rest as [|[pstr m] r IH]; intros gp gc gp' gc' Hc; cbn [read_file_hierarchy_gen_loop1]; [intros [= _ <-]; exact Hc|].
  destruct (need EKey (alookup pstr object_properties)) as [ps|]; cbn [bind]; [|discriminate].
  destruct (opath_from_string pstr) as [[[g|] c]|]; cbn [bind]; try discriminate.
  - destruct c as [c|].
    + change (op_is_root (Some g, Some c)) with false. change (op_is_group (Some g, Some c)) with false. cbn iota.
      rewrite tdms_channel_new_eq. cbn [bind]. change (op_group_str (Some g, Some c)) with g.
      destruct (alookup g gc) as [l|] eqn:El; cbn [is_none negb need bind]; apply IH;
        (apply (aset_Forall_kv (fun kv => Forall (chan_of (fst kv)) (snd kv))); [|exact Hc]); cbn [fst snd].
      * apply Forall_app. split; [|constructor; [exists c; reflexivity|constructor]].
        clear IH. induction Hc as [|[k' v'] r' Hk Hr IHc]; cbn in El; [discriminate|].
        destruct (bytes_eqb g k') eqn:E; [|exact (IHc El)]. apply bytes_eqb_eq in E. subst k'. injection El as <-. exact Hk.
      * constructor; [exists c; reflexivity|constructor].
    + change (op_is_root (Some g, None)) with false. change (op_is_group (Some g, None)) with true. cbn iota. apply IH. exact Hc.
  - change (op_is_root (None, c)) with true. cbn iota. apply IH. exact Hc.
Qed.

Lemma alookup_Forall_kv {V} (P : bytes * V -> Prop) k v (d : alist V) : Forall P d -> alookup k d = Some v -> P (k, v).
Proof.
  induction 1 as [|[k' v'] r Hk Hr IH]; cbn; [discriminate|].
  destruct (bytes_eqb k k') eqn:E; [|exact IH]. apply bytes_eqb_eq in E. subst k'. intros [= <-]. exact Hk.
Qed.

Lemma loop2_named gc : Forall (fun kv => Forall (chan_of (fst kv)) (snd kv)) gc -> forall gp acc groups,
  Forall group_named acc -> read_file_hierarchy_gen_loop2 gc gp acc = Ok groups -> Forall group_named groups.
Proof.
  intros Hc. induction gp as [|[g ps] r IH]; intros acc groups Ha; cbn [read_file_hierarchy_gen_loop2]; [intros [= <-]; exact Ha|].
  rewrite tdms_group_new_eq. cbn [bind]. apply IH. apply aset_Forall_kv; [|exact Ha]. apply group_new_named.
  destruct (alookup g gc) as [l|] eqn:El; [|constructor].
  exact (alookup_Forall_kv (fun kv => Forall (chan_of (fst kv)) (snd kv)) g l gc Hc El).
Qed.

Lemma loop3_named : forall gc acc groups,
  Forall (fun kv => Forall (chan_of (fst kv)) (snd kv)) gc -> Forall group_named acc ->
  read_file_hierarchy_gen_loop3 gc acc = Ok groups -> Forall group_named groups.
Proof.
  induction gc as [|[g cs] r IH]; intros acc groups Hc Ha; cbn [read_file_hierarchy_gen_loop3]; [intros [= <-]; exact Ha|].
  inversion Hc as [|? ? Hg Hr]; subst. cbn [fst snd] in Hg.
  destruct (negb (negb (is_none (alookup g acc)))); [|apply IH; assumption].
  rewrite tdms_group_new_eq. cbn [bind]. apply IH; [exact Hr|]. apply aset_Forall_kv; [|exact Ha]. apply group_new_named. exact Hg.
Qed.

Lemma loop23_keys_nodup gc gp : forall g2 g3,
  read_file_hierarchy_gen_loop2 gc gp [] = Ok g2 -> read_file_hierarchy_gen_loop3 gc g2 = Ok g3 -> NoDup (map fst g3).
Proof.
  assert (H2 : forall gp acc g2, NoDup (map fst acc) -> read_file_hierarchy_gen_loop2 gc gp acc = Ok g2 -> NoDup (map fst g2)).
  { induction gp0 as [|[g ps] r IH]; intros acc g2 Ha; cbn [read_file_hierarchy_gen_loop2]; [intros [= <-]; exact Ha|].
    rewrite tdms_group_new_eq. cbn [bind]. apply IH. apply aset_keys_nodup. exact Ha. }
  assert (H3 : forall gc0 acc g3, NoDup (map fst acc) -> read_file_hierarchy_gen_loop3 gc0 acc = Ok g3 -> NoDup (map fst g3)).
  { induction gc0 as [|[g cs] r IH]; intros acc g3 Ha; cbn [read_file_hierarchy_gen_loop3]; [intros [= <-]; exact Ha|].
    destruct (negb (negb (is_none (alookup g acc)))); [|apply IH; exact Ha].
    rewrite tdms_group_new_eq. cbn [bind]. apply IH. apply aset_keys_nodup. exact Ha. }
  intros g2 g3 E2 E3. apply (H3 gc g2 g3); [|exact E3]. apply (H2 gp [] g2); [constructor|exact E2].
Qed.

(* every group is stored under its name with the canonical path of that name; every channel under its name, with
   its group's name and the canonical path of (group, name); no two groups, and no two channels of a group, share a key *)
Theorem hierarchy_names om root groups :
  read_file_hierarchy_gen om tt tt tt = Ok (root, groups) ->
  NoDup (map fst groups) /\ Forall group_named groups.
Proof.
  unfold read_file_hierarchy_gen.
  destruct (read_file_hierarchy_gen_loop1 _ _ tt tt tt om [] []) as [[gp gc]|e] eqn:E1; cbn [bind]; [|discriminate].
  destruct (read_file_hierarchy_gen_loop2 gc gp []) as [g2|] eqn:E2; cbn [bind]; [|discriminate].
  destruct (read_file_hierarchy_gen_loop3 gc g2) as [g3|] eqn:E3; cbn [bind]; [|discriminate].
  intros [= _ <-]. split; [exact (loop23_keys_nodup gc gp g2 g3 E2 E3)|].
  pose proof (loop1_named _ _ om [] [] gp gc (Forall_nil _) E1) as Hc.
  apply (loop3_named gc g2 g3 Hc); [|exact E3]. apply (loop2_named gc Hc gp [] g2); [constructor|exact E2].
Qed.

Corollary group_named_observed kv : group_named kv ->
  ggroup_name (snd kv) = fst kv /\ ggroup_path (snd kv) = path_to_string (Some (fst kv)) None /\
  Forall (fun kc => gchan_name (snd kc) = fst kc /\ gchan_group_name (snd kc) = fst kv /\
                    gchan_path (snd kc) = path_to_string (Some (fst kv)) (Some (fst kc))) (gg_chans (snd kv)).
Proof.
  intros (Hp & _ & Hc). unfold ggroup_name, ggroup_path. rewrite Hp. split; [reflexivity|]. split; [reflexivity|].
  apply Forall_forall. intros kc Hin. rewrite Forall_forall in Hc. specialize (Hc kc Hin).
  unfold gchan_name, gchan_group_name, gchan_path. rewrite Hc. repeat split; reflexivity.
Qed.
