(* C13 composed with the whole-file read theorems (C01 read_correct, C03
   lazy_is_window_of_eager, C11 read_correct_daqmx): the SCALED data of a channel as a
   function of the FILE BYTES.

   The scaling model (Model/ScaleGraph.v) works on typed arrays (ints in Z, floats in
   PrimFloat) and on property dictionaries (string -> PStr / PFloat / PInt); the reader
   models (Model/Reader.v, Model/LazyBytes.v) deliver canonical little-endian value
   BYTES and properties as (name bytes, TDMS type code, value bytes).  This file is the
   bridge and the composition.

   THE BRIDGE
     f64_of_bits u        the binary64 with bit pattern u, through the standard library's
                          specification-level floats: SF2Prim (sf64_of_bits u), where
                          sf64_of_bits is the IEEE 754 field decoding (sign, biased
                          exponent, fraction; subnormals, infinities; ONE NaN - the
                          scaling model identifies all NaNs, ScaleGraph.feqb)
     f32_of_bits u        = f64_of_bits (f32_to_f64_bits u): the exact widening that the
                          reader model's observation already uses (Model/Reader.v), so
                          the float32 route is the one C01's correspondence compares
                          with struct.unpack on every run
     decode_values ty vs  TDMS type code + canonical LE value bytes -> ScaleGraph.value:
                          1..4 -> VI I8..I64 (s_dec LE), 5..8 -> VI U8..U64 (u_dec LE),
                          9 / 0x19 -> VS, 10 / 0x1A -> VD, 0x21 -> VB (byte <> 0);
                          None for string, timestamp, complex, extended float, void,
                          DAQmx raw (no numeric scaling model: ScaleGraph's header).
                          This is what harness/c13_lib.cvalue prints for the NumPy array
                          the implementation hands to scaling (dtype by dtype).
     pval_of_obs          the OBSERVATION of a property value (Reader.obs_prop_value:
                          [0; int] / [1; 8 bytes of the double] / [3; utf-8 bytes]; what
                          the C01 check compares with TdmsFile's `properties` dict on
                          every run) -> PInt / PFloat / PStr; None for bool [2; _],
                          timestamp [4; _; _] and unknown [9]: Python bool and
                          TdmsTimestamp are outside the model's three value kinds
                          (c13_lib.cpval refuses them as well)
     pval_of_prop ty v    = pval_of_obs (obs_prop_value ty v)
     str                  name / string-value bytes -> Coq string, byte for byte (the
                          UTF-8 bytes; key comparison with the ASCII keys get_scaling
                          uses is exact because UTF-8 is injective; the model's stated
                          restriction "\d = ASCII digits" is inherited)
     props_of_props ps    the (string -> pval) dictionary of one object.  A property
                          whose value has no pval (bool, timestamp) is
                            - DROPPED when its key can not matter to scaling
                              (relevant_key k = false: k is not NI_Number_Of_Scales, not
                              NI_Scaling_Status and does not start with "NI_Scale[") -
                              justified by [get_channel_scaling_fill]: whatever value one
                              puts back for such keys, get_channel_scaling is the same;
                            - otherwise the whole dictionary is None and the scaled read
                              is Err EUnmodelled (the model's own convention for
                              property types outside its scope).
     props_of_tokens      the same dictionary parsed back from the token block
                          Reader.obs_props emits ([props_of_tokens_obs_props]).

   THE READS  (results: outer Base.Res = the reader raised; inner ScaleGraph.res = what
   scaling returned, Err EUnmodelled = outside the numeric model's stated scope)
     scaled_read_eager data path
        TdmsFile.read(data)[group][channel][:] : metadata pass, hierarchy, eager data
        pass (rd_eager), then TdmsChannel._scale_data on the receiver's content:
        channel_data (channel props) (props of the object stored under the channel's
        group path, else {}) (props of "/", else {}) raw      - exactly the three
        dictionaries tdms.py hands to scaling.get_scaling; DAQmx receivers give
        rdata = None, rscalers = [(scale id, decoded values)].
     scaled_read_lazy data path offs len
        TdmsFile.open(data)[group][channel].read_data(offs, len): metadata pass WITH
        segment indexes, hierarchy, lz_read_bytes (the byte-level lazy reader of
        C03/C04), then the same _scale_data on the decoded window.

   THEOREMS (statements in Props/C13_file.v)
     scaled_read_eager_content   eager scaled data = scaling of the decoded file content
                                 (expected_data_dq: plain channels AND DAQmx scalers)
     scaled_lazy_is_window_of_scaled_eager, scaled_lazy_full_eq_eager
     no_scaling_file, scaled_status_unscaled_file
     scaled_read_eager_daqmx, daqmx_scaler_wire, file_raw_uniform, scaled_window_eager_is_window
     get_channel_scaling_fill    (justification of dropping irrelevant properties) *)
From Coq Require Import String Ascii.
From Coq Require Import List ZArith Bool Lia ZifyBool PrimFloat Uint63 FloatOps SpecFloat.
From Coq Require Import Init.Byte.
Import ListNotations.
From NpTdms Require Import Base.Bytes Base.Res Base.PySlice Model.Tokens Model.TokensWf Model.SegState
     Model.Layout Model.Reader Model.FileSyn Model.LazyRead Model.LazyBytes
     Proofs.SegStateProofs Proofs.LayoutProofs Proofs.FileSynProofs Proofs.ReadCorrect
     Proofs.ReadCorrectDaqmx Proofs.LazyEagerIndex Proofs.LazyEagerView Proofs.LazyEagerTop.
From NpTdms Require Gen.NumpyPromote Model.ScaleGraph Proofs.ScaleProofs.
Module SG := ScaleGraph.
Local Open Scope Z_scope.

(* ================================================================================= *)
(* 1. values: canonical little-endian bytes -> typed arrays                           *)

(* IEEE 754 binary64 fields of the 64-bit pattern u (0 <= u < 2^64) *)
Definition sf64_of_bits (u : Z) : spec_float :=
  let sign := negb (Z.shiftr u 63 =? 0) in
  let ex := Z.land (Z.shiftr u 52) 0x7FF in
  let man := Z.land u 0xFFFFFFFFFFFFF in
  if ex =? 0x7FF then (if man =? 0 then S754_infinity sign else S754_nan)
  else
    let m := if ex =? 0 then man else man + 0x10000000000000 in
    let e := if ex =? 0 then -1074 else ex - 1075 in
    match m with
    | Zpos p => S754_finite sign p e
    | _ => S754_zero sign
    end.

Definition f64_of_bits (u : Z) : float := SF2Prim (sf64_of_bits u).
Definition f32_of_bits (u : Z) : float := f64_of_bits (f32_to_f64_bits u).

Inductive vkind := KB | KI (k : SG.ikind) | KS | KD.

Definition kind_of_type (ty : Z) : option vkind :=
  if ty =? 1 then Some (KI SG.I8)
  else if ty =? 2 then Some (KI SG.I16)
  else if ty =? 3 then Some (KI SG.I32)
  else if ty =? 4 then Some (KI SG.I64)
  else if ty =? 5 then Some (KI SG.U8)
  else if ty =? 6 then Some (KI SG.U16)
  else if ty =? 7 then Some (KI SG.U32)
  else if ty =? 8 then Some (KI SG.U64)
  else if (ty =? 9) || (ty =? 0x19) then Some KS
  else if (ty =? 10) || (ty =? 0x1A) then Some KD
  else if ty =? T_BOOL then Some KB
  else None.

Definition decode_kind (k : vkind) (vs : list bytes) : SG.value :=
  match k with
  | KB => SG.VB (map (fun v => negb (u_dec LE v =? 0)) vs)
  | KI ik => SG.VI ik (map (if SG.isigned ik then s_dec LE else u_dec LE) vs)
  | KS => SG.VS (map (fun v => f32_of_bits (u_dec LE v)) vs)
  | KD => SG.VD (map (fun v => f64_of_bits (u_dec LE v)) vs)
  end.

Definition decode_values (ty : Z) (vs : list bytes) : option SG.value :=
  option_map (fun k => decode_kind k vs) (kind_of_type ty).

Lemma decode_kind_vlen k vs : SG.vlen (decode_kind k vs) = length vs.
Proof. destruct k; cbn [decode_kind SG.vlen]; apply map_length. Qed.

Lemma decode_values_vlen ty vs v : decode_values ty vs = Some v -> SG.vlen v = length vs.
Proof.
  unfold decode_values. destruct (kind_of_type ty) as [k|]; cbn [option_map]; [|discriminate].
  intros H. injection H as <-. apply decode_kind_vlen.
Qed.

Lemma decode_kind_win k o l vs :
  decode_kind k (SG.win o l vs) = SG.window o l (decode_kind k vs).
Proof.
  destruct k; cbn [decode_kind SG.window]; rewrite ScaleProofs.win_map; reflexivity.
Qed.

(* the window notation of the lazy theorems (Z offset, optional Z length) on typed arrays:
   v[offs : offs+len], v[offs:] *)
Definition zwindow (offs : Z) (len : option Z) (v : SG.value) : SG.value :=
  SG.window (Z.to_nat offs) (match len with Some l => Z.to_nat l | None => SG.vlen v end) v.

Lemma window_of_win {A} offs len (vs : list A) :
  window_of offs len vs =
  SG.win (Z.to_nat offs) (match len with Some l => Z.to_nat l | None => length vs end) vs.
Proof.
  unfold window_of, SG.win, zfirstn, zskipn. destruct len as [l|]; [reflexivity|].
  symmetry. apply firstn_all2. rewrite skipn_length. lia.
Qed.

Lemma decode_kind_window_of k offs len vs :
  decode_kind k (window_of offs len vs) = zwindow offs len (decode_kind k vs).
Proof.
  rewrite window_of_win, decode_kind_win. unfold zwindow. rewrite decode_kind_vlen. reflexivity.
Qed.

Lemma decode_values_window_of ty offs len vs :
  decode_values ty (window_of offs len vs) = option_map (zwindow offs len) (decode_values ty vs).
Proof.
  unfold decode_values. destruct (kind_of_type ty) as [k|]; cbn [option_map]; [|reflexivity].
  rewrite decode_kind_window_of. reflexivity.
Qed.

Lemma win_full {A} (xs : list A) : SG.win 0 (length xs) xs = xs.
Proof. unfold SG.win. cbn [skipn]. apply firstn_all. Qed.

Lemma zwindow_full v : zwindow 0 None v = v.
Proof.
  unfold zwindow. change (Z.to_nat 0) with 0%nat.
  destruct v; cbn [SG.window SG.vlen]; rewrite win_full; reflexivity.
Qed.

(* ================================================================================= *)
(* 2. properties: (name bytes, type code, value bytes) -> the model's dictionaries      *)

Definition str (b : bytes) : string := string_of_list_byte b.

Lemma str_inj a b : str a = str b -> a = b.
Proof.
  unfold str. intros H.
  rewrite <- (list_byte_of_string_of_list_byte a), <- (list_byte_of_string_of_list_byte b), H.
  reflexivity.
Qed.

(* from the observation of a property value (Reader.obs_prop_value) *)
Definition pval_of_obs (t : list tok) : option SG.pval :=
  match t with
  | [TZ tag; TZ v] => if tag =? 0 then Some (SG.PInt v) else None
  | [TZ tag; TB b] =>
      if tag =? 1 then Some (SG.PFloat (f64_of_bits (u_dec LE b)))
      else if tag =? 3 then Some (SG.PStr (str b))
      else None
  | _ => None
  end.

Definition pval_of_prop (ty : Z) (v : bytes) : option SG.pval := pval_of_obs (obs_prop_value ty v).

(* spelled out by type code *)
Lemma pval_of_prop_cases ty v :
  pval_of_prop ty v =
  if (1 <=? ty) && (ty <=? 4) then Some (SG.PInt (s_dec LE v))
  else if (5 <=? ty) && (ty <=? 8) then Some (SG.PInt (u_dec LE v))
  else if (ty =? 9) || (ty =? 0x19) then Some (SG.PFloat (f64_of_bits (u_dec LE (le_enc 8 (f32_to_f64_bits (u_dec LE v))))))
  else if (ty =? 10) || (ty =? 0x1A) then Some (SG.PFloat (f64_of_bits (u_dec LE v)))
  else if ty =? T_STRING then Some (SG.PStr (str v))
  else None.
Proof.
  unfold pval_of_prop, obs_prop_value.
  destruct ((1 <=? ty) && (ty <=? 4)); [reflexivity|].
  destruct ((5 <=? ty) && (ty <=? 8)); [reflexivity|].
  destruct ((ty =? 9) || (ty =? 0x19)); [reflexivity|].
  destruct ((ty =? 10) || (ty =? 0x1A)); [reflexivity|].
  destruct (ty =? T_BOOL) eqn:Eb; [apply Z.eqb_eq in Eb; subst ty; reflexivity|].
  destruct (ty =? T_STRING); [reflexivity|].
  destruct (ty =? T_TIME); reflexivity.
Qed.

(* the keys scaling.py can look at *)
Definition relevant_key (k : string) : bool :=
  match SG.strip_prefix "NI_Scale[" k with
  | Some _ => true
  | None => String.eqb k "NI_Number_Of_Scales" || String.eqb k "NI_Scaling_Status"
  end.

Definition pentry := (string * option SG.pval)%type.

Definition pentries_of_props (ps : alist prop) : list pentry :=
  map (fun kv => (str (fst kv), pval_of_prop (p_type (snd kv)) (p_val (snd kv)))) ps.

Fixpoint props_of_entries (es : list pentry) : option SG.props :=
  match es with
  | [] => Some []
  | (k, Some v) :: r => option_map (cons (k, v)) (props_of_entries r)
  | (k, None) :: r => if relevant_key k then None else props_of_entries r
  end.

Definition props_of_props (ps : alist prop) : option SG.props :=
  props_of_entries (pentries_of_props ps).

(* ---- the same from the token block obs_props emits ------------------------------- *)

Definition pentry_of_tokens (t : list tok) : option (pentry * list tok) :=
  match t with
  | TB name :: TZ tag :: r =>
      if tag =? 9 then Some ((str name, None), r)
      else match r with
           | x :: r' =>
               if tag =? 4 then match r' with _ :: r'' => Some ((str name, None), r'') | [] => None end
               else Some ((str name, pval_of_obs [TZ tag; x]), r')
           | [] => None
           end
  | _ => None
  end.

Fixpoint pentries_of_tokens (n : nat) (t : list tok) : option (list pentry * list tok) :=
  match n with
  | O => Some ([], t)
  | S k =>
      match pentry_of_tokens t with
      | None => None
      | Some (e, r) =>
          match pentries_of_tokens k r with
          | None => None
          | Some (es, r') => Some (e :: es, r')
          end
      end
  end.

(* outer None: not a property block; inner None: a relevant property outside the model *)
Definition props_of_tokens (t : list tok) : option (option SG.props * list tok) :=
  match t with
  | TZ n :: r =>
      match pentries_of_tokens (Z.to_nat n) r with
      | Some (es, r') => Some (props_of_entries es, r')
      | None => None
      end
  | _ => None
  end.

Lemma pentry_of_tokens_obs name ty v rest :
  pentry_of_tokens (TB name :: obs_prop_value ty v ++ rest) = Some ((str name, pval_of_prop ty v), rest).
Proof.
  unfold pval_of_prop, obs_prop_value.
  destruct ((1 <=? ty) && (ty <=? 4)); [reflexivity|].
  destruct ((5 <=? ty) && (ty <=? 8)); [reflexivity|].
  destruct ((ty =? 9) || (ty =? 0x19)); [reflexivity|].
  destruct ((ty =? 10) || (ty =? 0x1A)); [reflexivity|].
  destruct (ty =? T_BOOL); [reflexivity|].
  destruct (ty =? T_STRING); [reflexivity|].
  destruct (ty =? T_TIME); reflexivity.
Qed.

Lemma pentries_of_tokens_obs ps rest :
  pentries_of_tokens (length ps)
    (flat_map (fun kv : bytes * prop => TB (fst kv) :: obs_prop_value (p_type (snd kv)) (p_val (snd kv))) ps ++ rest)
  = Some (pentries_of_props ps, rest).
Proof.
  induction ps as [|[name p] ps IH]; [reflexivity|].
  cbn [length flat_map pentries_of_tokens pentries_of_props map fst snd].
  rewrite <- app_assoc. rewrite <- app_comm_cons, pentry_of_tokens_obs.
  rewrite IH. reflexivity.
Qed.

Theorem props_of_tokens_obs_props ps rest :
  props_of_tokens (obs_props ps ++ rest) = Some (props_of_props ps, rest).
Proof.
  unfold props_of_tokens, obs_props. rewrite <- app_comm_cons. rewrite Nat2Z.id.
  rewrite pentries_of_tokens_obs. reflexivity.
Qed.

(* ---- lookups through the bridge --------------------------------------------------- *)

(* a modelled property is found under its name *)
Lemma pget_props_of_entries es p k v :
  props_of_entries es = Some p ->
  (exists es1 es2, es = es1 ++ (k, Some v) :: es2 /\ Forall (fun e : pentry => fst e <> k) es1) ->
  SG.pget k p = Some v.
Proof.
  intros Hp (es1 & es2 & -> & Hne). revert p Hp.
  induction es1 as [|[k1 ov1] es1 IH]; intros p Hp.
  - cbn [app props_of_entries] in Hp. destruct (props_of_entries es2) as [p2|]; [|discriminate].
    cbn [option_map] in Hp. injection Hp as <-. cbn [SG.pget]. rewrite String.eqb_refl. reflexivity.
  - inversion Hne as [|? ? Hk1 Hne']; subst. cbn [fst] in Hk1.
    cbn [app props_of_entries] in Hp. destruct ov1 as [v1|].
    + destruct (props_of_entries (es1 ++ (k, Some v) :: es2)) as [p'|] eqn:E; [|discriminate].
      cbn [option_map] in Hp. injection Hp as <-. cbn [SG.pget].
      destruct (String.eqb k k1) eqn:Ek; [apply String.eqb_eq in Ek; congruence|].
      exact (IH Hne' p' eq_refl).
    + destruct (relevant_key k1); [discriminate|]. exact (IH Hne' p Hp).
Qed.

Lemma alookup_split {V} (k : bytes) (v : V) (l : alist V) :
  alookup k l = Some v ->
  exists l1 l2, l = l1 ++ (k, v) :: l2 /\ Forall (fun e => fst e <> k) l1.
Proof.
  induction l as [|[k1 v1] l IH]; intros H; [discriminate|].
  cbn [alookup] in H. destruct (bytes_eqb k k1) eqn:E.
  - apply bytes_eqb_eq in E. injection H as ->. subst k1. exists [], l. split; [reflexivity|constructor].
  - destruct (IH H) as (l1 & l2 & -> & Hne). exists ((k1, v1) :: l1), l2. split; [reflexivity|].
    constructor; [|exact Hne]. cbn [fst]. intros ->. rewrite bytes_eqb_refl in E. discriminate.
Qed.

Theorem pget_props_of_props ps p name pr v :
  props_of_props ps = Some p ->
  alookup name ps = Some pr ->
  pval_of_prop (p_type pr) (p_val pr) = Some v ->
  SG.pget (str name) p = Some v.
Proof.
  intros Hp Hl Hv. apply (pget_props_of_entries _ _ _ _ Hp).
  destruct (alookup_split name pr ps Hl) as (l1 & l2 & -> & Hne).
  exists (pentries_of_props l1), (pentries_of_props l2). split.
  - unfold pentries_of_props. rewrite map_app. cbn [map fst snd]. rewrite Hv. reflexivity.
  - unfold pentries_of_props. apply Forall_map. apply Forall_forall. intros e He.
    rewrite Forall_forall in Hne. cbn [fst]. intros Heq. apply (Hne e He). exact (str_inj _ _ Heq).
Qed.

(* ================================================================================= *)
(* 3. properties whose key scaling.py never looks at do not matter                    *)

Module PropsExt.
Import ScaleGraph.

(* p and q agree on every key scaling.py can look up and on the keys the scale-type regex
   matches *)
Definition same_relevant (p q : props) : Prop :=
  (forall k, relevant_key k = true -> pget k p = pget k q) /\
  filter_map (fun kv : string * pval => scale_regex_match (fst kv)) p =
  filter_map (fun kv : string * pval => scale_regex_match (fst kv)) q.

Lemma skey_relevant i s : relevant_key (skey i s) = true.
Proof. reflexivity. Qed.

Lemma irrelevant_no_regex k : relevant_key k = false -> scale_regex_match k = None.
Proof.
  unfold relevant_key, scale_regex_match.
  destruct (strip_prefix "NI_Scale[" k); [discriminate|reflexivity].
Qed.

Section Ext.
  Variables p q : props.
  Hypothesis H : forall k, relevant_key k = true -> pget k p = pget k q.

  Lemma get_floats_ext key idxs :
    (forall j, relevant_key (key j) = true) -> get_floats p key idxs = get_floats q key idxs.
  Proof.
    intros Hk. induction idxs as [|i r IH]; [reflexivity|].
    cbn [get_floats]. unfold get_float. rewrite (H _ (Hk i)), IH. reflexivity.
  Qed.

  Lemma require_all_ext keys :
    Forall (fun k => relevant_key k = true) keys -> require_all p keys = require_all q keys.
  Proof.
    induction 1 as [|k r Hk _ IH]; [reflexivity|].
    cbn [require_all]. rewrite (H _ Hk), IH. reflexivity.
  Qed.

  Lemma skeys_relevant i (f : string -> string) l :
    Forall (fun k => relevant_key k = true) (map (fun x => skey i (f x)) l).
  Proof.
    apply Forall_forall. intros k Hk. apply in_map_iff in Hk. destruct Hk as (x & <- & _).
    apply skey_relevant.
  Qed.

  Lemma scaling_at_ext i : scaling_at p i = scaling_at q i.
  Proof.
    unfold scaling_at, get_source_default, get_source, get_int, get_float.
    repeat (rewrite H by apply skey_relevant).
    repeat match goal with
           | |- context [require_all p (map (fun x => skey i (@?f x)) ?l)] =>
               rewrite (require_all_ext _ (skeys_relevant i f l))
           end.
    repeat first
      [ reflexivity
      | match goal with
        | |- context [get_floats p ?key ?idxs] =>
            rewrite (get_floats_ext key idxs) by (intros; apply skey_relevant)
        end
      | match goal with
        | |- bind ?r _ = bind ?r _ => destruct r; cbn [bind]
        | |- (if ?c then _ else _) = (if ?c then _ else _) => destruct c
        | |- match ?r with _ => _ end = match ?r with _ => _ end => destruct r
        end ].
  Qed.

  Lemma build_scalings_ext idxs : build_scalings p idxs = build_scalings q idxs.
  Proof.
    induction idxs as [|i r IH]; [reflexivity|].
    cbn [build_scalings]. rewrite scaling_at_ext, IH. reflexivity.
  Qed.
End Ext.

Lemma get_channel_scaling_ext p q :
  same_relevant p q -> get_channel_scaling p = get_channel_scaling q.
Proof.
  intros [H1 H2]. unfold get_channel_scaling, number_of_scalings.
  rewrite (H1 "NI_Number_Of_Scales"%string eq_refl), H2, (H1 "NI_Scaling_Status"%string eq_refl).
  destruct (match pget "NI_Number_Of_Scales" q with
            | Some (PInt z) => Ok (Some z)
            | Some _ => Err EUnmodelled
            | None => match filter_map (fun kv : string * pval => scale_regex_match (fst kv)) q with
                      | [] => Ok None
                      | z :: zs => Ok (Some (fold_left Z.max zs z + 1))
                      end
            end) as [[n|]|e]; try reflexivity.
  destruct (n =? 0); [reflexivity|].
  rewrite (build_scalings_ext p q H1). reflexivity.
Qed.

(* put ANY value back for the dropped properties *)
Definition fill_entries (fill : string -> pval) (es : list pentry) : props :=
  map (fun e : pentry => (fst e, match snd e with Some v => v | None => fill (fst e) end)) es.

Lemma same_relevant_fill fill es : forall p,
  props_of_entries es = Some p -> same_relevant (fill_entries fill es) p.
Proof.
  induction es as [|[k [v|]] es IH]; intros p Hp.
  - injection Hp as <-. split; [intros; reflexivity|reflexivity].
  - cbn [props_of_entries] in Hp. destruct (props_of_entries es) as [p'|]; [|discriminate].
    cbn [option_map] in Hp. injection Hp as <-. destruct (IH p' eq_refl) as [H1 H2]. split.
    + intros k' Hk'. cbn [fill_entries map pget fst snd].
      destruct (String.eqb k' k); [reflexivity|]. exact (H1 k' Hk').
    + cbn [fill_entries map filter_map fst snd]. fold (fill_entries fill es).
      rewrite H2. reflexivity.
  - cbn [props_of_entries] in Hp. destruct (relevant_key k) eqn:Er; [discriminate|].
    destruct (IH p Hp) as [H1 H2]. split.
    + intros k' Hk'. cbn [fill_entries map pget fst snd].
      destruct (String.eqb k' k) eqn:E; [apply String.eqb_eq in E; congruence|]. exact (H1 k' Hk').
    + cbn [fill_entries map filter_map fst snd]. fold (fill_entries fill es).
      rewrite (irrelevant_no_regex k Er). exact H2.
Qed.

(* JUSTIFICATION of props_of_entries: whatever the dropped (bool / timestamp valued,
   scaling-irrelevant) properties are replaced by, the scaling read from the level is
   the one read from the bridge's dictionary *)
Theorem get_channel_scaling_fill fill es p :
  props_of_entries es = Some p ->
  get_channel_scaling (fill_entries fill es) = get_channel_scaling p.
Proof. intros Hp. apply get_channel_scaling_ext. exact (same_relevant_fill fill es p Hp). Qed.

Theorem get_scaling_fill fc fg ff ec eg ef c g f :
  props_of_entries ec = Some c -> props_of_entries eg = Some g -> props_of_entries ef = Some f ->
  get_scaling (fill_entries fc ec) (fill_entries fg eg) (fill_entries ff ef) = get_scaling c g f.
Proof.
  intros Hc Hg Hf. unfold get_scaling, first_scaling.
  rewrite (get_channel_scaling_fill fc ec c Hc), (get_channel_scaling_fill fg eg g Hg),
          (get_channel_scaling_fill ff ef f Hf).
  reflexivity.
Qed.

(* the value of every array of the channel has the channel's length *)
Lemma channel_data_vlen ch gr fi raw n v :
  uniform n raw -> channel_data ch gr fi raw = Ok v -> vlen v = n.
Proof.
  intros Hu. unfold channel_data.
  destruct (get_scaling ch gr fi) as [[g|]|e]; cbn [bind scale_data]; [| |discriminate].
  - unfold eval. apply (ScaleProofs.eval_src_vlen g raw n Hu).
  - destruct Hu as [Hu1 _]. destruct (rscalers raw); [|discriminate].
    destruct (rdata raw) as [w|] eqn:Er; [|discriminate]. intros E. injection E as <-. exact (Hu1 w eq_refl).
Qed.

End PropsExt.

(* ================================================================================= *)
(* 4. the scaled reads                                                                *)

Definition plain_raw (v : SG.value) : SG.rawdata := SG.Build_rawdata (Some v) [].
Definition scaler_raw (l : list (nat * SG.value)) : SG.rawdata := SG.Build_rawdata None l.

Fixpoint assocZ (k : Z) (l : list (Z * Z)) : option Z :=
  match l with
  | [] => None
  | (k', v) :: r => if k =? k' then Some v else assocZ k r
  end.

(* DAQmx receiver content (scale id -> value bytes) with the channel's scaler types
   (scale id -> TDMS type) -> raw_channel_data.scaler_data *)
Fixpoint decode_scalers (sts : list (Z * Z)) (sc : list (Z * list bytes)) : option (list (nat * SG.value)) :=
  match sc with
  | [] => Some []
  | (id, vs) :: r =>
      match assocZ id sts with
      | None => None
      | Some ty =>
          match decode_values ty vs, decode_scalers sts r with
          | Some v, Some l => Some ((Z.to_nat id, v) :: l)
          | _, _ => None
          end
      end
  end.

(* what a channel's receiver holds -> the scaling model's raw_channel_data;
   None: no numeric model for the channel's type (or no data type at all) *)
Definition raw_of_cdata (c : channel) (d : option cdata) : option SG.rawdata :=
  match d, ch_dtype c with
  | Some (CData vs), Some dt => option_map plain_raw (decode_values dt vs)
  | Some (CScalers sc), Some _ =>
      match ch_scalers c with
      | Some sts => option_map scaler_raw (decode_scalers sts sc)
      | None => None
      end
  | _, _ => None
  end.

(* tdms.py _read_file: object_properties[path.group_path()] (else {}), object_properties['/'] *)
Definition group_props_of (om : alist ometa) (g : bytes) : alist prop :=
  match alookup (path_to_string (Some g) None) om with Some m => om_props m | None => [] end.
Definition root_props_of (om : alist ometa) : alist prop :=
  match alookup [SB] om with Some m => om_props m | None => [] end.

(* TdmsChannel._scale_data with scaling.get_scaling(channel.properties, group properties,
   file properties) *)
Definition scale_with (om : alist ometa) (c : channel) (raw : option SG.rawdata) : SG.res SG.value :=
  match raw, props_of_props (ch_props c), props_of_props (group_props_of om (ch_group c)),
        props_of_props (root_props_of om) with
  | Some r, Some cp, Some gp, Some fp => SG.channel_data cp gp fp r
  | _, _, _, _ => SG.Err SG.EUnmodelled
  end.

Definition find_channel (h : hierarchy) (path : bytes) : res channel :=
  match find (fun c => bytes_eqb (ch_path c) path) (all_channels h) with
  | Some c => Ok c
  | None => Err EKey
  end.

(* TdmsFile.read(data): channel[:] / channel.data, scaled *)
Definition scaled_read_eager (data path : bytes) : res (SG.res SG.value) :=
  do st <- rd_metadata data false (Some (blen data)) false;
  do h <- build_hierarchy (rs_om st);
  do recv <- rd_eager st h data;
  do c <- find_channel h path;
  let d := match alookup (ch_path c) recv with Some d => d | None => None end in
  Ok (scale_with (rs_om st) c (raw_of_cdata c d)).

(* the receiver content of a plain channel holding the values vs *)
Definition cdata_of_values (c : channel) (vs : list bytes) : option cdata :=
  match ch_dtype c with Some _ => Some (CData vs) | None => None end.

(* TdmsFile.open(data): channel.read_data(offs, len), scaled *)
Definition scaled_read_lazy (data path : bytes) (offs : Z) (len : option Z) : res (SG.res SG.value) :=
  do st <- rd_metadata data false (Some (blen data)) true;
  do h <- build_hierarchy (rs_om st);
  do c <- find_channel h path;
  do vs <- lz_read_bytes data (ch_path c) offs len;
  Ok (scale_with (rs_om st) c (raw_of_cdata c (cdata_of_values c vs))).

(* read_data(offs, len) on an eagerly read file: slice_raw_data, then _scale_data *)
Definition scaled_window_eager (data path : bytes) (o l : nat) : res (SG.res SG.value) :=
  do st <- rd_metadata data false (Some (blen data)) false;
  do h <- build_hierarchy (rs_om st);
  do recv <- rd_eager st h data;
  do c <- find_channel h path;
  let d := match alookup (ch_path c) recv with Some d => d | None => None end in
  Ok (scale_with (rs_om st) c (option_map (SG.window_raw o l) (raw_of_cdata c d))).

(* ---- agreement with observations of the implementation (harness/c13.py, file tie) ---- *)

Definition agrees_file (m : res (SG.res SG.value)) (o : option SG.value) : bool :=
  match m with
  | Ok r => SG.agrees r o
  | Err _ => match o with None => true | Some _ => false end
  end.

(* case: file bytes, canonical channel path, observed channel[:] on TdmsFile.read (None =
   raised), window offset and length, observed read_data(o, l) on TdmsFile.read, whether the
   lazy read is compared (not for DAQmx channels: LazyBytes has plain data only), observed
   read_data(o, l) on TdmsFile.open *)
Definition check_file_scaled
  (c : bytes * bytes * option SG.value * nat * nat * option SG.value * bool * option SG.value) : bool :=
  let '(data, path, obs, o, l, ewin, with_lazy, lwin) := c in
  agrees_file (scaled_read_eager data path) obs &&
  agrees_file (scaled_window_eager data path o l) ewin &&
  (if with_lazy
   then agrees_file (scaled_read_lazy data path (Z.of_nat o) (Some (Z.of_nat l))) lwin
   else true).

(* ================================================================================= *)
(* 5. composition                                                                     *)

Lemma find_unique {A} (f : A -> bytes) (l : list A) (x : A) :
  NoDup (map f l) -> In x l -> find (fun y => bytes_eqb (f y) (f x)) l = Some x.
Proof.
  induction l as [|a l IH]; intros Hnd Hin; [contradiction|].
  cbn [map] in Hnd. inversion Hnd as [|? ? Hna Hnd']; subst. cbn [find].
  destruct Hin as [->|Hin].
  - rewrite bytes_eqb_refl. reflexivity.
  - destruct (bytes_eqb (f a) (f x)) eqn:E.
    + apply bytes_eqb_eq in E. exfalso. apply Hna. rewrite E. apply in_map. exact Hin.
    + exact (IH Hnd' Hin).
Qed.

Lemma find_channel_in h c :
  channel_paths_distinct h -> In c (all_channels h) -> find_channel h (ch_path c) = Ok c.
Proof.
  intros Hd Hc. unfold find_channel. rewrite (find_unique ch_path _ c Hd Hc). reflexivity.
Qed.

Lemma uniform_plain v : SG.uniform (SG.vlen v) (plain_raw v).
Proof.
  split; cbn [plain_raw SG.rdata SG.rscalers].
  - intros w Hw. injection Hw as <-. reflexivity.
  - intros id w Hw. discriminate.
Qed.

Lemma rmap_window_zwindow n offs len r :
  (forall v, r = SG.Ok v -> SG.vlen v = n) ->
  SG.rmap (SG.window (Z.to_nat offs) (match len with Some l => Z.to_nat l | None => n end)) r =
  SG.rmap (zwindow offs len) r.
Proof.
  intros Hn. destruct r as [v|e]; [|reflexivity]. cbn [SG.rmap]. unfold zwindow.
  destruct len as [l|]; [reflexivity|]. rewrite (Hn v eq_refl). reflexivity.
Qed.

(* scaling the decoded window = window of the scaled decoded data *)
Lemma scale_with_window om c vs offs len :
  scale_with om c (raw_of_cdata c (cdata_of_values c (window_of offs len vs))) =
  SG.rmap (zwindow offs len) (scale_with om c (raw_of_cdata c (cdata_of_values c vs))).
Proof.
  unfold cdata_of_values, raw_of_cdata.
  destruct (ch_dtype c) as [dt|]; [|reflexivity].
  rewrite decode_values_window_of.
  destruct (decode_values dt vs) as [v|]; cbn [option_map]; [|reflexivity].
  unfold scale_with.
  destruct (props_of_props (ch_props c)) as [cp|]; [|reflexivity].
  destruct (props_of_props (group_props_of om (ch_group c))) as [gp|]; [|reflexivity].
  destruct (props_of_props (root_props_of om)) as [fp|]; [|reflexivity].
  rewrite <- (rmap_window_zwindow (SG.vlen v)).
  - rewrite <- (ScaleProofs.channel_elementwise_proof cp gp fp (plain_raw v) (SG.vlen v) _ _ (uniform_plain v)).
    reflexivity.
  - intros w Hw. exact (PropsExt.channel_data_vlen cp gp fp (plain_raw v) (SG.vlen v) w (uniform_plain v) Hw).
Qed.

Lemma rmap_zwindow_full r : SG.rmap (zwindow 0 None) r = r.
Proof. destruct r as [v|e]; [|reflexivity]. cbn [SG.rmap]. rewrite zwindow_full. reflexivity. Qed.

(* ---- the eager read: plain and DAQmx channels ------------------------------------- *)

Section Content.
  Variables (segs : list fseg) (st : rstate) (h : hierarchy) (chunkss : list (list chunk)).
  Hypothesis Hwf : wf_file segs.
  Hypothesis Hrun : sm_run segs false = Ok st.
  Hypothesis Hh : build_hierarchy (rs_om st) = Ok h.
  Hypothesis Hcon : segs_content (rs_segments st) segs chunkss.
  Hypothesis Hcanon : om_paths_canonical (rs_om st).
  Hypothesis Hshape : typed_objects_are_channels (rs_om st).

  Theorem scaled_read_eager_content c :
    In c (all_channels h) ->
    scaled_read_eager (ser_file segs) (ch_path c) =
    Ok (scale_with (rs_om st) c (raw_of_cdata c (expected_data_dq (concat chunkss) c))).
  Proof.
    intros Hc. unfold scaled_read_eager.
    rewrite (rd_metadata_ser segs false Hwf), Hrun. cbn [bind]. rewrite Hh. cbn [bind].
    destruct (rd_eager_content segs st h chunkss Hwf Hrun Hh Hcon Hcanon Hshape) as (recv & He & Hlk).
    rewrite He. cbn [bind].
    rewrite (find_channel_in h c (channel_paths_distinct_ser _ h Hh Hcanon) Hc). cbn [bind].
    rewrite (Hlk c Hc). reflexivity.
  Qed.

  Theorem scaled_window_eager_content c o l :
    In c (all_channels h) ->
    scaled_window_eager (ser_file segs) (ch_path c) o l =
    Ok (scale_with (rs_om st) c
          (option_map (SG.window_raw o l) (raw_of_cdata c (expected_data_dq (concat chunkss) c)))).
  Proof.
    intros Hc. unfold scaled_window_eager.
    rewrite (rd_metadata_ser segs false Hwf), Hrun. cbn [bind]. rewrite Hh. cbn [bind].
    destruct (rd_eager_content segs st h chunkss Hwf Hrun Hh Hcon Hcanon Hshape) as (recv & He & Hlk).
    rewrite He. cbn [bind].
    rewrite (find_channel_in h c (channel_paths_distinct_ser _ h Hh Hcanon) Hc). cbn [bind].
    rewrite (Hlk c Hc). reflexivity.
  Qed.

  (* every array the scaling model receives for a channel has len(channel) elements:
     the [uniform] side condition of C13's elementwise, discharged from the file *)
  Lemma decode_scalers_uniform sts n : forall sc l,
    Forall (fun kv : Z * list bytes => length (snd kv) = n) sc ->
    decode_scalers sts sc = Some l ->
    forall id v, SG.assoc_nat id l = Some v -> SG.vlen v = n.
  Proof.
    induction sc as [|[id0 vs0] sc IH]; intros l Hall Hd id v Ha.
    - injection Hd as <-. discriminate.
    - pose proof (Forall_inv Hall) as H0. pose proof (Forall_inv_tail Hall) as Hall'.
      cbn [snd] in H0. cbn [decode_scalers] in Hd.
      destruct (assocZ id0 sts) as [ty|]; [|discriminate].
      destruct (decode_values ty vs0) as [v0|] eqn:Ev; [|discriminate].
      destruct (decode_scalers sts sc) as [l'|] eqn:El; [|discriminate].
      injection Hd as <-. cbn [SG.assoc_nat] in Ha.
      destruct (Nat.eqb id (Z.to_nat id0)).
      + injection Ha as <-. rewrite (decode_values_vlen ty vs0 v0 Ev). exact H0.
      + exact (IH l' Hall' eq_refl id v Ha).
  Qed.

  Theorem file_raw_uniform c raw :
    In c (all_channels h) ->
    raw_of_cdata c (expected_data_dq (concat chunkss) c) = Some raw ->
    SG.uniform (Z.to_nat (ch_len c)) raw.
  Proof.
    intros Hc Hraw.
    pose proof (lengths_consistent_content segs false st h chunkss Hrun Hh Hcon Hcanon c Hc) as Hlen.
    unfold raw_of_cdata in Hraw.
    destruct (expected_data_dq (concat chunkss) c) as [[vs|sc]|]; [| |discriminate].
    - cbn [cdata_consistent] in Hlen.
      destruct (ch_dtype c) as [dt|]; [|discriminate].
      destruct (decode_values dt vs) as [v|] eqn:Ev; [|discriminate].
      cbn [option_map] in Hraw. injection Hraw as <-.
      replace (Z.to_nat (ch_len c)) with (SG.vlen v); [apply uniform_plain|].
      rewrite (decode_values_vlen dt vs v Ev). lia.
    - cbn [cdata_consistent] in Hlen.
      destruct (ch_dtype c) as [dt|]; [|discriminate].
      destruct (ch_scalers c) as [sts|]; [|discriminate].
      destruct (decode_scalers sts sc) as [l|] eqn:El; [|discriminate].
      cbn [option_map] in Hraw. injection Hraw as <-.
      split; cbn [scaler_raw SG.rdata SG.rscalers]; [intros v Hv; discriminate|].
      apply (decode_scalers_uniform sts (Z.to_nat (ch_len c)) sc l); [|exact El].
      apply Forall_forall. intros kv Hkv. rewrite forallb_forall in Hlen.
      specialize (Hlen kv Hkv). lia.
  Qed.

  (* read_data(o, l) on the eagerly read file = window of the scaled channel; plain
     channels and DAQmx channels (every scaler cut to the same window) *)
  Theorem scaled_window_eager_is_window c o l :
    In c (all_channels h) ->
    exists r, scaled_read_eager (ser_file segs) (ch_path c) = Ok r /\
              scaled_window_eager (ser_file segs) (ch_path c) o l = Ok (SG.rmap (SG.window o l) r).
  Proof.
    intros Hc. rewrite (scaled_read_eager_content c Hc), (scaled_window_eager_content c o l Hc).
    eexists. split; [reflexivity|]. f_equal.
    destruct (raw_of_cdata c (expected_data_dq (concat chunkss) c)) as [raw|] eqn:Eraw;
      cbn [option_map]; [|reflexivity].
    pose proof (file_raw_uniform c raw Hc Eraw) as Hu.
    unfold scale_with.
    destruct (props_of_props (ch_props c)) as [cp|]; [|reflexivity].
    destruct (props_of_props (group_props_of (rs_om st) (ch_group c))) as [gp|]; [|reflexivity].
    destruct (props_of_props (root_props_of (rs_om st))) as [fp|]; [|reflexivity].
    exact (ScaleProofs.channel_elementwise_proof cp gp fp raw _ o l Hu).
  Qed.

  (* a DaqMxRawData channel: the scaling model receives, per scale id, the decoded
     file-order concatenation of the directly addressed values *)
  Theorem scaled_read_eager_daqmx c sts :
    In c (all_channels h) ->
    ch_dtype c = Some T_DAQMX -> ch_scalers c = Some sts ->
    scaled_read_eager (ser_file segs) (ch_path c) =
    Ok (scale_with (rs_om st) c
          (option_map scaler_raw
             (decode_scalers sts
                (map (fun kv => (fst kv, chan_scaler_values (ch_path c) (fst kv) (concat chunkss))) sts)))).
  Proof.
    intros Hc Hdt Hsc. rewrite (scaled_read_eager_content c Hc).
    unfold expected_data_dq, raw_of_cdata. rewrite Hdt, Hsc, Z.eqb_refl. reflexivity.
  Qed.

  (* the scaler types of a DaqMxRawData channel form a dictionary *)
  Lemma daqmx_channel_scalers c :
    In c (all_channels h) -> ch_dtype c = Some T_DAQMX ->
    exists sts, ch_scalers c = Some sts /\ NoDup (map fst sts).
  Proof.
    intros Hc Hdt.
    destruct (chan_from_om_canonical2 _ c Hcanon (build_hierarchy_channels _ _ Hh c Hc))
      as (m & Hin & Hd & _ & Hs).
    destruct (sm_run_trace segs false st Hrun) as (_ & _ & Hnd & _).
    pose proof (alookup_in_nodup _ m (rs_om st) Hnd Hin) as Hlk.
    destruct (daqmx_typed_has_scalers segs false st (ch_path c) m Hrun Hlk) as (sts & Hsts & Hn);
      [rewrite <- Hd; exact Hdt|].
    exists sts. split; [rewrite Hs; exact Hsts|exact Hn].
  Qed.
End Content.

(* ---- a DaqmxScaler node consumes the per-scaler values of the file ------------------ *)

Lemma assocZ_in_nodup sts id ty : NoDup (map fst sts) -> In (id, ty) sts -> assocZ id sts = Some ty.
Proof.
  induction sts as [|[k v] sts IH]; intros Hnd Hin; [contradiction|].
  cbn [map fst] in Hnd. inversion Hnd as [|? ? Hna Hnd']; subst. cbn [assocZ].
  destruct Hin as [E|Hin].
  - injection E as -> ->. rewrite Z.eqb_refl. reflexivity.
  - destruct (id =? k) eqn:E.
    + apply Z.eqb_eq in E. subst k. exfalso. apply Hna.
      change id with (fst (id, ty)). apply in_map. exact Hin.
    + exact (IH Hnd' Hin).
Qed.

Lemma decode_scalers_lookup sts (f : Z -> list bytes) : forall sub l id ty v,
  NoDup (map fst sts) -> incl sub sts -> NoDup (map fst sub) ->
  Forall (fun kv : Z * Z => 0 <= fst kv) sub ->
  decode_scalers sts (map (fun kv => (fst kv, f (fst kv))) sub) = Some l ->
  In (id, ty) sub -> decode_values ty (f id) = Some v ->
  SG.assoc_nat (Z.to_nat id) l = Some v.
Proof.
  induction sub as [|[id0 ty0] sub IH]; intros l id ty v Hnd Hincl Hnds Hpos Hd Hin Hv; [contradiction|].
  cbn [map fst snd decode_scalers] in Hd.
  rewrite (assocZ_in_nodup sts id0 ty0 Hnd (Hincl _ (or_introl eq_refl))) in Hd.
  destruct (decode_values ty0 (f id0)) as [v0|] eqn:Ev0; [|discriminate].
  destruct (decode_scalers sts (map (fun kv : Z * Z => (fst kv, f (fst kv))) sub)) as [l'|] eqn:El; [|discriminate].
  injection Hd as <-. cbn [SG.assoc_nat].
  cbn [map fst] in Hnds. inversion Hnds as [|? ? Hna Hnds']; subst.
  inversion Hpos as [|? ? Hp0 Hpos']; subst. cbn [fst] in Hp0.
  destruct Hin as [E|Hin].
  - injection E as -> ->. rewrite Nat.eqb_refl. congruence.
  - assert (Hp : 0 <= id).
    { rewrite Forall_forall in Hpos'. exact (Hpos' _ Hin). }
    assert (Hne : id <> id0).
    { intros ->. apply Hna. change id0 with (fst (id0, ty)). apply in_map. exact Hin. }
    destruct (Nat.eqb (Z.to_nat id) (Z.to_nat id0)) eqn:E; [apply Nat.eqb_eq in E; lia|].
    apply (IH l' id ty v Hnd); try assumption.
    + intros x Hx. apply Hincl. right. exact Hx.
    + reflexivity.
Qed.

(* the wire of a DaqmxScaler node carries the decoded values the file holds for that
   scale id (C11's direct addressing, concatenated in file order) *)
Theorem daqmx_scaler_wire sts (f : Z -> list bytes) l g i id ty v :
  NoDup (map fst sts) -> Forall (fun kv : Z * Z => 0 <= fst kv) sts ->
  decode_scalers sts (map (fun kv => (fst kv, f (fst kv))) sts) = Some l ->
  In (id, ty) sts -> decode_values ty (f id) = Some v ->
  nth_error g i = Some (SG.DaqmxScaler (Z.to_nat id)) ->
  SG.flows g (scaler_raw l) (SG.Idx (Z.of_nat i)) v.
Proof.
  intros Hnd Hpos Hd Hin Hv Hg.
  apply (SG.F_daqmx g (scaler_raw l) i (Z.to_nat id) v Hg). cbn [scaler_raw SG.rscalers].
  exact (decode_scalers_lookup sts f sts l id ty v Hnd (fun x Hx => Hx) Hnd Hpos Hd Hin Hv).
Qed.

(* ---- lazy = window of eager, scaled ------------------------------------------------ *)

Section Plain.
  Variables (segs : list fseg) (st : rstate) (h : hierarchy) (chunkss : list (list chunk)).
  Hypothesis Hwf : wf_file segs.
  Hypothesis Hrun : sm_run segs false = Ok st.
  Hypothesis Hh : build_hierarchy (rs_om st) = Ok h.
  Hypothesis Henc : segs_encode (rs_segments st) segs chunkss.
  Hypothesis Hcanon : om_paths_canonical (rs_om st).
  Hypothesis Hshape : typed_objects_are_channels (rs_om st).

  Local Notation eager c := (chan_values (ch_path c) (concat chunkss)).

  (* the eager scaled data of an ordinary channel, from the file content *)
  Theorem scaled_read_eager_plain c :
    In c (all_channels h) ->
    scaled_read_eager (ser_file segs) (ch_path c) =
    Ok (scale_with (rs_om st) c (raw_of_cdata c (cdata_of_values c (eager c)))).
  Proof.
    intros Hc.
    rewrite (scaled_read_eager_content segs st h chunkss Hwf Hrun Hh
               (segs_encode_content _ _ _ Henc) Hcanon Hshape c Hc).
    rewrite (expected_data_dq_plain _ c (no_daqmx_channels_ser segs false st h chunkss Hrun Hh Henc c Hc)).
    reflexivity.
  Qed.

  Hypothesis Hdist : seg_paths_distinct st.

  Theorem scaled_read_lazy_plain c offs len :
    In c (all_channels h) -> 0 <= offs -> len_nonneg len ->
    scaled_read_lazy (ser_file segs) (ch_path c) offs len =
    Ok (scale_with (rs_om st) c (raw_of_cdata c (cdata_of_values c (window_of offs len (eager c))))).
  Proof.
    intros Hc Ho Hl. unfold scaled_read_lazy.
    destruct (rd_metadata_with_index segs st Hwf Hrun) as (st' & Hm & _ & Hom).
    rewrite Hm. cbn [bind]. rewrite Hom, Hh. cbn [bind].
    rewrite (find_channel_in h c (channel_paths_distinct_ser _ h Hh Hcanon) Hc). cbn [bind].
    rewrite (lazy_is_window_of_eager segs st h chunkss Hwf Hrun Hh Henc Hcanon Hdist c offs len Hc Ho Hl).
    reflexivity.
  Qed.

  (* THE PROPERTY: read_data(offs, len) on the lazily opened file, scaled, is the window
     of the scaled channel of the eagerly read file - same values, same errors *)
  Theorem scaled_lazy_is_window_of_scaled_eager c offs len :
    In c (all_channels h) -> 0 <= offs -> len_nonneg len ->
    exists r, scaled_read_eager (ser_file segs) (ch_path c) = Ok r /\
              scaled_read_lazy (ser_file segs) (ch_path c) offs len = Ok (SG.rmap (zwindow offs len) r).
  Proof.
    intros Hc Ho Hl. rewrite (scaled_read_eager_plain c Hc), (scaled_read_lazy_plain c offs len Hc Ho Hl).
    eexists. split; [reflexivity|]. rewrite scale_with_window. reflexivity.
  Qed.

  Corollary scaled_lazy_full_eq_eager c :
    In c (all_channels h) ->
    scaled_read_lazy (ser_file segs) (ch_path c) 0 None = scaled_read_eager (ser_file segs) (ch_path c).
  Proof.
    intros Hc.
    destruct (scaled_lazy_is_window_of_scaled_eager c 0 None Hc (Z.le_refl 0) I) as (r & He & Hl).
    rewrite He, Hl, rmap_zwindow_full. reflexivity.
  Qed.

  (* no scaling in scope (channel, group, file): the scaled read is the decoded raw data *)
  Theorem no_scaling_file c dt v cp gp fp :
    In c (all_channels h) ->
    ch_dtype c = Some dt -> decode_values dt (eager c) = Some v ->
    props_of_props (ch_props c) = Some cp ->
    props_of_props (group_props_of (rs_om st) (ch_group c)) = Some gp ->
    props_of_props (root_props_of (rs_om st)) = Some fp ->
    SG.get_channel_scaling cp = SG.Ok None ->
    SG.get_channel_scaling gp = SG.Ok None ->
    SG.get_channel_scaling fp = SG.Ok None ->
    scaled_read_eager (ser_file segs) (ch_path c) = Ok (SG.Ok v) /\
    forall offs len, 0 <= offs -> len_nonneg len ->
      scaled_read_lazy (ser_file segs) (ch_path c) offs len = Ok (SG.Ok (zwindow offs len v)).
  Proof.
    intros Hc Hdt Hv Hcp Hgp Hfp Sc Sg Sf.
    assert (He : scaled_read_eager (ser_file segs) (ch_path c) = Ok (SG.Ok v)).
    { rewrite (scaled_read_eager_plain c Hc). f_equal.
      unfold cdata_of_values, raw_of_cdata, scale_with. rewrite Hdt, Hv. cbn [option_map].
      rewrite Hcp, Hgp, Hfp.
      exact (ScaleProofs.no_scaling_is_raw_proof cp gp fp (plain_raw v) v Sc Sg Sf eq_refl eq_refl). }
    split; [exact He|]. intros offs len Ho Hl.
    destruct (scaled_lazy_is_window_of_scaled_eager c offs len Hc Ho Hl) as (r & He' & Hlz).
    rewrite He in He'. injection He' as <-. exact Hlz.
  Qed.
  (* NI_Scaling_Status = 'scaled' on the channel (a string property of the FILE) switches
     the channel's own definitions off; with no other scaling in scope (group, file) the
     channel reads unscaled, eagerly and lazily *)
  Theorem scaled_status_unscaled_file c dt v pr cp gp fp :
    In c (all_channels h) ->
    ch_dtype c = Some dt -> decode_values dt (eager c) = Some v ->
    alookup (list_byte_of_string "NI_Scaling_Status") (ch_props c) = Some pr ->
    p_type pr = T_STRING -> p_val pr = list_byte_of_string "scaled" ->
    props_of_props (ch_props c) = Some cp ->
    (exists n, SG.number_of_scalings cp = SG.Ok n) ->
    props_of_props (group_props_of (rs_om st) (ch_group c)) = Some gp ->
    props_of_props (root_props_of (rs_om st)) = Some fp ->
    SG.get_channel_scaling gp = SG.Ok None ->
    SG.get_channel_scaling fp = SG.Ok None ->
    scaled_read_eager (ser_file segs) (ch_path c) = Ok (SG.Ok v) /\
    forall offs len, 0 <= offs -> len_nonneg len ->
      scaled_read_lazy (ser_file segs) (ch_path c) offs len = Ok (SG.Ok (zwindow offs len v)).
  Proof.
    intros Hc Hdt Hv Hlk Hty Hval Hcp Hn Hgp Hfp Sg Sf.
    apply (no_scaling_file c dt v cp gp fp Hc Hdt Hv Hcp Hgp Hfp); [|exact Sg|exact Sf].
    apply ScaleProofs.scaled_status_proof; [|exact Hn].
    pose proof (pget_props_of_props (ch_props c) cp _ pr (SG.PStr "scaled") Hcp Hlk) as Hg.
    unfold str in Hg. rewrite string_of_list_byte_of_string in Hg. apply Hg.
    rewrite pval_of_prop_cases, Hty, Hval. reflexivity.
  Qed.
End Plain.

(* ---- "no scaling at all": no property of the level has a key scaling.py looks at ------ *)

Module PropsFacts.
Import ScaleGraph.

Lemma pget_absent p k : (forall v, ~ In (k, v) p) -> pget k p = None.
Proof.
  induction p as [|[k' v'] p IH]; intros Hn; [reflexivity|].
  cbn [pget]. destruct (String.eqb k k') eqn:E.
  - apply String.eqb_eq in E. subst k'. exfalso. apply (Hn v'). left. reflexivity.
  - apply IH. intros v Hv. apply (Hn v). right. exact Hv.
Qed.

Lemma no_relevant_keys_no_scaling p :
  (forall k v, In (k, v) p -> relevant_key k = false) -> get_channel_scaling p = Ok None.
Proof.
  intros Hirr. unfold get_channel_scaling, number_of_scalings.
  rewrite pget_absent.
  - assert (E : filter_map (fun kv : string * pval => scale_regex_match (fst kv)) p = []).
    { induction p as [|[k v] p IH]; [reflexivity|]. cbn [filter_map fst].
      rewrite (PropsExt.irrelevant_no_regex k (Hirr k v (or_introl eq_refl))).
      apply IH. intros k' v' H'. apply (Hirr k' v'). right. exact H'. }
    rewrite E. reflexivity.
  - intros v Hv. pose proof (Hirr _ _ Hv) as H. discriminate H.
Qed.

Lemma props_of_entries_keys es : forall p,
  props_of_entries es = Some p -> forall k v, In (k, v) p -> In k (map fst es).
Proof.
  induction es as [|[k0 [v0|]] es IH]; intros p Hp k v Hin.
  - injection Hp as <-. contradiction.
  - cbn [props_of_entries] in Hp. destruct (props_of_entries es) as [p'|]; [|discriminate].
    cbn [option_map] in Hp. injection Hp as <-. cbn [map fst]. destruct Hin as [E|Hin].
    + injection E as -> _. left. reflexivity.
    + right. exact (IH p' eq_refl k v Hin).
  - cbn [props_of_entries] in Hp. destruct (relevant_key k0); [discriminate|].
    cbn [map fst]. right. exact (IH p Hp k v Hin).
Qed.

Lemma props_of_entries_irrelevant es :
  Forall (fun e : pentry => relevant_key (fst e) = false) es -> exists p, props_of_entries es = Some p.
Proof.
  induction 1 as [|[k [v|]] es Hk _ [p IH]]; [exists []; reflexivity| |].
  - exists ((k, v) :: p). cbn [props_of_entries]. rewrite IH. reflexivity.
  - exists p. cbn [props_of_entries]. cbn [fst] in Hk. rewrite Hk. exact IH.
Qed.

(* an object none of whose property NAMES is NI_Number_Of_Scales, NI_Scaling_Status or
   starts with NI_Scale[ contributes no scaling, whatever the property types *)
Theorem no_scaling_keys_file ps :
  Forall (fun kv : bytes * prop => relevant_key (str (fst kv)) = false) ps ->
  exists p, props_of_props ps = Some p /\ get_channel_scaling p = Ok None.
Proof.
  intros Hall.
  assert (Hes : Forall (fun e : pentry => relevant_key (fst e) = false) (pentries_of_props ps)).
  { unfold pentries_of_props. apply Forall_map. exact Hall. }
  destruct (props_of_entries_irrelevant _ Hes) as [p Hp]. exists p. split; [exact Hp|].
  apply no_relevant_keys_no_scaling. intros k v Hin.
  pose proof (props_of_entries_keys _ p Hp k v Hin) as Hk.
  apply in_map_iff in Hk. destruct Hk as (e & <- & He). rewrite Forall_forall in Hes. exact (Hes e He).
Qed.
End PropsFacts.

(* ================================================================================= *)
(* 6. a concrete file: every hypothesis holds and both reads compute                   *)

(* sx_file (little-endian, two segments; built by the harness's independent encoder and
   read by npTDMS, script in Props/C13_file.v):
     /            title = "demo" (string), created = a TIMESTAMP (no pval; its key is
                  irrelevant to scaling, so it is dropped from the dictionary)
     /'g'         NI_Number_Of_Scales = 1 (uint32), NI_Scale[0] = Linear(slope 0.5,
                  intercept 10.0)                              GROUP-LEVEL scaling
     /'g'/'a'     int16; NI_Scale[0] = Linear(2.0, 1.5) on the raw data (no input source
                  property), NI_Scale[1] = Polynomial [1.0; 0.0; 0.25] on scale 0 (uint32
                  input source); no NI_Number_Of_Scales (2 inferred); flag = true (BOOL,
                  dropped)
     /'g'/'b'     int16; no properties: inherits the group's Linear(0.5, 10.0)
     /'h'         no properties
     /'h'/'c'     int16; NI_Scaling_Status = "scaled", NI_Number_Of_Scales = 1,
                  NI_Scale[0] = Linear(3.0, 3.0): switched off, nothing else in scope
   segment 1: metadata + TWO contiguous chunks of 3 values per channel; segment 2: no
   metadata block, one more chunk.  9 values per channel. *)
Section SxExample.

Definition sx_file : list fseg :=
  [(mkFseg (14)%Z (4713)%Z (Some [(mkEntry (hex "2f") INoData [(mkProp (hex "7469746c65") (32)%Z (hex "64656d6f")); (mkProp (hex "63726561746564") (68)%Z (hex "0000000000000080008589dc00000000"))]); (mkEntry (hex "2f276727") INoData [(mkProp (hex "4e495f4e756d6265725f4f665f5363616c6573") (7)%Z (hex "01000000")); (mkProp (hex "4e495f5363616c655b305d5f5363616c655f54797065") (32)%Z (hex "4c696e656172")); (mkProp (hex "4e495f5363616c655b305d5f4c696e6561725f536c6f7065") (10)%Z (hex "000000000000e03f")); (mkProp (hex "4e495f5363616c655b305d5f4c696e6561725f595f496e74657263657074") (10)%Z (hex "0000000000002440"))]); (mkEntry (hex "2f2767272f276127") (IFull (20)%Z (2)%Z (1)%Z (3)%Z None) [(mkProp (hex "4e495f5363616c655b305d5f5363616c655f54797065") (32)%Z (hex "4c696e656172")); (mkProp (hex "4e495f5363616c655b305d5f4c696e6561725f536c6f7065") (10)%Z (hex "0000000000000040")); (mkProp (hex "4e495f5363616c655b305d5f4c696e6561725f595f496e74657263657074") (10)%Z (hex "000000000000f83f")); (mkProp (hex "4e495f5363616c655b315d5f5363616c655f54797065") (32)%Z (hex "506f6c796e6f6d69616c")); (mkProp (hex "4e495f5363616c655b315d5f506f6c796e6f6d69616c5f436f656666696369656e74735f53697a65") (7)%Z (hex "03000000")); (mkProp (hex "4e495f5363616c655b315d5f506f6c796e6f6d69616c5f436f656666696369656e74735b305d") (10)%Z (hex "000000000000f03f")); (mkProp (hex "4e495f5363616c655b315d5f506f6c796e6f6d69616c5f436f656666696369656e74735b315d") (10)%Z (hex "0000000000000000")); (mkProp (hex "4e495f5363616c655b315d5f506f6c796e6f6d69616c5f436f656666696369656e74735b325d") (10)%Z (hex "000000000000d03f")); (mkProp (hex "4e495f5363616c655b315d5f506f6c796e6f6d69616c5f496e7075745f536f75726365") (7)%Z (hex "00000000")); (mkProp (hex "666c6167") (33)%Z (hex "01"))]); (mkEntry (hex "2f2767272f276227") (IFull (20)%Z (2)%Z (1)%Z (3)%Z None) []); (mkEntry (hex "2f276827") INoData []); (mkEntry (hex "2f2768272f276327") (IFull (20)%Z (2)%Z (1)%Z (3)%Z None) [(mkProp (hex "4e495f5363616c696e675f537461747573") (32)%Z (hex "7363616c6564")); (mkProp (hex "4e495f4e756d6265725f4f665f5363616c6573") (7)%Z (hex "01000000")); (mkProp (hex "4e495f5363616c655b305d5f5363616c655f54797065") (32)%Z (hex "4c696e656172")); (mkProp (hex "4e495f5363616c655b305d5f4c696e6561725f536c6f7065") (10)%Z (hex "0000000000000840")); (mkProp (hex "4e495f5363616c655b305d5f4c696e6561725f595f496e74657263657074") (10)%Z (hex "0000000000000840"))])]) (hex "0100feff2c010a0014001e00fffffefffdff04000500faff280032003c006400c8002c01")); (mkFseg (8)%Z (4713)%Z None (hex "07000080ff7f460050005a00000001000200"))].

Definition sx_st : rstate := match sm_run sx_file false with Ok st => st | Err _ => rstate0 end.
Definition sx_h : hierarchy :=
  match build_hierarchy (rs_om sx_st) with Ok h => h | Err _ => mkHier [] [] end.

Definition sx_path_a : bytes := hex "2f2767272f276127".
Definition sx_path_b : bytes := hex "2f2767272f276227".
Definition sx_path_c : bytes := hex "2f2768272f276327".

(* per segment, per chunk, per data object (a, b, c): the int16 values, little-endian *)
Definition sx_values : list (list (list (list bytes))) :=
  [ [ [ [hex "0100"; hex "feff"; hex "2c01"]; [hex "0a00"; hex "1400"; hex "1e00"];
        [hex "ffff"; hex "feff"; hex "fdff"] ];
      [ [hex "0400"; hex "0500"; hex "faff"]; [hex "2800"; hex "3200"; hex "3c00"];
        [hex "6400"; hex "c800"; hex "2c01"] ] ];
    [ [ [hex "0700"; hex "0080"; hex "ff7f"]; [hex "4600"; hex "5000"; hex "5a00"];
        [hex "0000"; hex "0100"; hex "0200"] ] ] ].

Definition sx_chunks : list (list chunk) :=
  map (map (fun vss => [(sx_path_a, CData (nth 0 vss [])); (sx_path_b, CData (nth 1 vss []));
                        (sx_path_c, CData (nth 2 vss []))]))
      sx_values.

Definition sx_obj (p : bytes) : sobj := mkSobj p true 3 6 (Some 2) None.     (* int16 x 3 *)

Example sx_wf : wf_file sx_file.
Proof. unfold wf_file. vm_compute. reflexivity. Qed.

Example sx_run : sm_run sx_file false = Ok sx_st.
Proof. vm_compute. reflexivity. Qed.

Example sx_hier : build_hierarchy (rs_om sx_st) = Ok sx_h.
Proof. vm_compute. reflexivity. Qed.

Example sx_encodes : segs_encode (rs_segments sx_st) sx_file sx_chunks.
Proof.
  assert (Hsegs : rs_segments sx_st = [nth 0 (rs_segments sx_st) (mkSeg 0 0 0 0 false [] [] 0 None);
                                        nth 1 (rs_segments sx_st) (mkSeg 0 0 0 0 false [] [] 0 None)])
    by (vm_compute; reflexivity).
  rewrite Hsegs. clear Hsegs.
  unfold sx_file, sx_chunks, sx_values. cbn [map].
  constructor; [|constructor; [|constructor]].
  - eapply (rc_seg_contig _ _ [sx_obj sx_path_a; sx_obj sx_path_b; sx_obj sx_path_c] (nth 0 sx_values [])).
    + vm_compute. reflexivity.
    + vm_compute. reflexivity.
    + vm_compute. reflexivity.
    + vm_compute. reflexivity.
    + unfold sx_values. cbn [nth]. repeat constructor.
    + unfold sx_values. cbn [nth]. repeat constructor.
    + vm_compute. reflexivity.
    + vm_compute. reflexivity.
  - eapply (rc_seg_contig _ _ [sx_obj sx_path_a; sx_obj sx_path_b; sx_obj sx_path_c] (nth 1 sx_values [])).
    + vm_compute. reflexivity.
    + vm_compute. reflexivity.
    + vm_compute. reflexivity.
    + vm_compute. reflexivity.
    + unfold sx_values. cbn [nth]. repeat constructor.
    + unfold sx_values. cbn [nth]. repeat constructor.
    + vm_compute. reflexivity.
    + vm_compute. reflexivity.
Qed.

Example sx_canonical : om_paths_canonical (rs_om sx_st).
Proof. apply om_paths_canonical_b_sound. vm_compute. reflexivity. Qed.

Example sx_typed_channels : typed_objects_are_channels (rs_om sx_st).
Proof. apply typed_objects_are_channels_b_sound. vm_compute. reflexivity. Qed.

Example sx_distinct : seg_paths_distinct sx_st.
Proof. apply seg_paths_distinct_b_sound. vm_compute. reflexivity. Qed.

Definition sx_chan (p : bytes) : channel :=
  match find_channel sx_h p with Ok c => c | Err _ => mkChan [] [] [] None None 0 [] end.

Example sx_channels :
  In (sx_chan sx_path_a) (all_channels sx_h) /\ ch_path (sx_chan sx_path_a) = sx_path_a /\
  In (sx_chan sx_path_b) (all_channels sx_h) /\ ch_path (sx_chan sx_path_b) = sx_path_b /\
  In (sx_chan sx_path_c) (all_channels sx_h) /\ ch_path (sx_chan sx_path_c) = sx_path_c.
Proof.
  assert (E : all_channels sx_h = [sx_chan sx_path_a; sx_chan sx_path_b; sx_chan sx_path_c])
    by (vm_compute; reflexivity).
  rewrite E. cbn [In]. repeat split; auto; vm_compute; reflexivity.
Qed.

(* the dictionaries the bridge hands to the scaling model, and the graphs it reads *)
Example sx_props_a :
  props_of_props (ch_props (sx_chan sx_path_a)) =
  Some [("NI_Scale[0]_Scale_Type", SG.PStr "Linear");
        ("NI_Scale[0]_Linear_Slope", SG.PFloat 2); ("NI_Scale[0]_Linear_Y_Intercept", SG.PFloat 1.5);
        ("NI_Scale[1]_Scale_Type", SG.PStr "Polynomial");
        ("NI_Scale[1]_Polynomial_Coefficients_Size", SG.PInt 3);
        ("NI_Scale[1]_Polynomial_Coefficients[0]", SG.PFloat 1);
        ("NI_Scale[1]_Polynomial_Coefficients[1]", SG.PFloat 0);
        ("NI_Scale[1]_Polynomial_Coefficients[2]", SG.PFloat 0.25);
        ("NI_Scale[1]_Polynomial_Input_Source", SG.PInt 0)]%string%float.
Proof. vm_compute. reflexivity. Qed.

Example sx_props_root :
  props_of_props (root_props_of (rs_om sx_st)) = Some [("title", SG.PStr "demo")]%string.
Proof. vm_compute. reflexivity. Qed.

Example sx_graphs :
  (exists cp gp fp,
     props_of_props (ch_props (sx_chan sx_path_a)) = Some cp /\
     props_of_props (group_props_of (rs_om sx_st) (ch_group (sx_chan sx_path_a))) = Some gp /\
     props_of_props (root_props_of (rs_om sx_st)) = Some fp /\
     SG.get_scaling cp gp fp =
     SG.Ok (Some [SG.Linear 2 1.5 SG.Raw; SG.Polynomial [1; 0; 0.25] (SG.Idx 0)]%float)) /\
  (exists cp gp fp,
     props_of_props (ch_props (sx_chan sx_path_b)) = Some cp /\
     props_of_props (group_props_of (rs_om sx_st) (ch_group (sx_chan sx_path_b))) = Some gp /\
     props_of_props (root_props_of (rs_om sx_st)) = Some fp /\
     SG.get_channel_scaling cp = SG.Ok None /\
     SG.get_scaling cp gp fp = SG.Ok (Some [SG.Linear 0.5 10 SG.Raw]%float)) /\
  (exists cp gp fp,
     props_of_props (ch_props (sx_chan sx_path_c)) = Some cp /\
     props_of_props (group_props_of (rs_om sx_st) (ch_group (sx_chan sx_path_c))) = Some gp /\
     props_of_props (root_props_of (rs_om sx_st)) = Some fp /\
     SG.pget "NI_Scaling_Status" cp = Some (SG.PStr "scaled") /\
     SG.get_scaling cp gp fp = SG.Ok None).
Proof.
  split; [|split]; eexists; eexists; eexists.
  - split; [vm_compute; reflexivity|]. split; [vm_compute; reflexivity|].
    split; [vm_compute; reflexivity|]. vm_compute. reflexivity.
  - split; [vm_compute; reflexivity|]. split; [vm_compute; reflexivity|].
    split; [vm_compute; reflexivity|]. split; vm_compute; reflexivity.
  - split; [vm_compute; reflexivity|]. split; [vm_compute; reflexivity|].
    split; [vm_compute; reflexivity|]. split; vm_compute; reflexivity.
Qed.

(* by the theorem: every window of every channel *)
Example sx_all_windows : forall p, In p [sx_path_a; sx_path_b; sx_path_c] ->
  forall offs len, 0 <= offs -> len_nonneg len ->
  exists r, scaled_read_eager (ser_file sx_file) p = Ok r /\
            scaled_read_lazy (ser_file sx_file) p offs len = Ok (SG.rmap (zwindow offs len) r).
Proof.
  intros p Hp offs len Ho Hl.
  destruct sx_channels as (Ha & Pa & Hb & Pb & Hc & Pc).
  assert (Hch : exists c, In c (all_channels sx_h) /\ ch_path c = p).
  { cbn [In] in Hp. destruct Hp as [<-|[<-|[<-|[]]]];
      [exists (sx_chan sx_path_a)|exists (sx_chan sx_path_b)|exists (sx_chan sx_path_c)]; split; assumption. }
  destruct Hch as (c & Hc' & <-).
  exact (scaled_lazy_is_window_of_scaled_eager sx_file sx_st sx_h sx_chunks sx_wf sx_run sx_hier sx_encodes
           sx_canonical sx_typed_channels sx_distinct c offs len Hc' Ho Hl).
Qed.

(* by evaluation of the byte-level models on the file's bytes: the eager reads ... *)
Example sx_eager_a :
  scaled_read_eager (ser_file sx_file) sx_path_a =
  Ok (SG.Ok (SG.VD [0x1.04p+2; 0x1.48p+1; 0x1.61539p+16; 0x1.79p+4; 0x1.108p+5; 0x1.c9p+4; 0x1.e88p+5;
                    0x1.fffa000c8p+29; 0x1.fffe00088p+29]%float)).
Proof. vm_compute. reflexivity. Qed.

Example sx_eager_b :
  scaled_read_eager (ser_file sx_file) sx_path_b =
  Ok (SG.Ok (SG.VD [15; 20; 25; 30; 35; 40; 45; 50; 55]%float)).
Proof. vm_compute. reflexivity. Qed.

Example sx_eager_c :
  scaled_read_eager (ser_file sx_file) sx_path_c =
  Ok (SG.Ok (SG.VI SG.I16 [-1; -2; -3; 100; 200; 300; 0; 1; 2])).
Proof. vm_compute. reflexivity. Qed.

(* ... and lazy windows crossing the chunk and the segment boundary *)
Example sx_lazy_a_2_5 :
  scaled_read_lazy (ser_file sx_file) sx_path_a 2 (Some 5) =
  Ok (SG.Ok (SG.VD [0x1.61539p+16; 0x1.79p+4; 0x1.108p+5; 0x1.c9p+4; 0x1.e88p+5]%float)).
Proof. vm_compute. reflexivity. Qed.

Example sx_lazy_b_2_5 :
  scaled_read_lazy (ser_file sx_file) sx_path_b 2 (Some 5) =
  Ok (SG.Ok (SG.VD [25; 30; 35; 40; 45]%float)).
Proof. vm_compute. reflexivity. Qed.

Example sx_lazy_c_4_end :
  scaled_read_lazy (ser_file sx_file) sx_path_c 4 None =
  Ok (SG.Ok (SG.VI SG.I16 [200; 300; 0; 1; 2])).
Proof. vm_compute. reflexivity. Qed.

Definition sx_dict (ps : alist prop) : SG.props :=
  match props_of_props ps with Some p => p | None => [] end.

(* the 'scaled' channel through the theorem *)
Example sx_status_c :
  scaled_read_eager (ser_file sx_file) sx_path_c = Ok (SG.Ok (SG.VI SG.I16 [-1; -2; -3; 100; 200; 300; 0; 1; 2])) /\
  forall offs len, 0 <= offs -> len_nonneg len ->
    scaled_read_lazy (ser_file sx_file) sx_path_c offs len =
    Ok (SG.Ok (zwindow offs len (SG.VI SG.I16 [-1; -2; -3; 100; 200; 300; 0; 1; 2]))).
Proof.
  destruct sx_channels as (_ & _ & _ & _ & Hc & Pc). rewrite <- Pc.
  apply (scaled_status_unscaled_file sx_file sx_st sx_h sx_chunks sx_wf sx_run sx_hier sx_encodes
           sx_canonical sx_typed_channels sx_distinct (sx_chan sx_path_c) 2 _
           (mkProp (list_byte_of_string "NI_Scaling_Status") T_STRING (list_byte_of_string "scaled"))
           (sx_dict (ch_props (sx_chan sx_path_c)))
           (sx_dict (group_props_of (rs_om sx_st) (ch_group (sx_chan sx_path_c))))
           (sx_dict (root_props_of (rs_om sx_st)))).
  - exact Hc.
  - vm_compute. reflexivity.
  - vm_compute. reflexivity.
  - vm_compute. reflexivity.
  - reflexivity.
  - reflexivity.
  - vm_compute. reflexivity.
  - eexists. vm_compute. reflexivity.
  - vm_compute. reflexivity.
  - vm_compute. reflexivity.
  - vm_compute. reflexivity.
  - vm_compute. reflexivity.
Qed.

End SxExample.

(* ---- a DAQmx file with scaling --------------------------------------------------- *)

(* dqs_file: DaqMxRawData channel /'dq'/'c0', one raw buffer of width 4 with 2 rows per
   chunk, scaler id 0 = int16 at byte 0, scaler id 1 = uint8 at byte 3; a segment of TWO
   chunks and a metadata-less segment of one.  NI_Number_Of_Scales = 4: scales 0 and 1
   have no properties (the DAQmx scalers), NI_Scale[2] = Add(0, 1) (int16 + uint8 wraps
   in int16), NI_Scale[3] = Linear(0.5, 1.0) on scale 2. *)
Section DqsExample.

Definition dqs_file : list fseg :=
  [(mkFseg (142)%Z (4713)%Z (Some [(mkEntry (hex "2f276471272f27633027") (IDaqmx (4713)%Z (4294967295)%Z (1)%Z (2)%Z [(mkScaler (3)%Z (0)%Z (0)%Z (0)%Z (0)%Z); (mkScaler (0)%Z (0)%Z (3)%Z (0)%Z (1)%Z)] [(4)%Z]) [(mkProp (hex "4e495f4e756d6265725f4f665f5363616c6573") (7)%Z (hex "04000000")); (mkProp (hex "4e495f5363616c655b325d5f5363616c655f54797065") (32)%Z (hex "416464")); (mkProp (hex "4e495f5363616c655b325d5f4164645f4c6566745f4f706572616e645f496e7075745f536f75726365") (7)%Z (hex "00000000")); (mkProp (hex "4e495f5363616c655b325d5f4164645f52696768745f4f706572616e645f496e7075745f536f75726365") (7)%Z (hex "01000000")); (mkProp (hex "4e495f5363616c655b335d5f5363616c655f54797065") (32)%Z (hex "4c696e656172")); (mkProp (hex "4e495f5363616c655b335d5f4c696e6561725f536c6f7065") (10)%Z (hex "000000000000e03f")); (mkProp (hex "4e495f5363616c655b335d5f4c696e6561725f595f496e74657263657074") (10)%Z (hex "000000000000f03f")); (mkProp (hex "4e495f5363616c655b335d5f4c696e6561725f496e7075745f536f75726365") (7)%Z (hex "02000000"))])]) (hex "6400ee0138ffee02ff7feeff0080ee00")); (mkFseg (136)%Z (4713)%Z None (hex "0700ee09f8ffee0a"))].

Definition dqs_st : rstate := match sm_run dqs_file false with Ok st => st | Err _ => rstate0 end.
Definition dqs_h : hierarchy :=
  match build_hierarchy (rs_om dqs_st) with Ok h => h | Err _ => mkHier [] [] end.
Definition dqs_path : bytes := hex "2f276471272f27633027".
Definition dqs_seg (i : nat) : segment := nth i (rs_segments dqs_st) (mkSeg 0 0 0 0 false [] [] 0 None).
Definition dqs_data (i : nat) : bytes := fs_data (nth i dqs_file (mkFseg 0 0 None [])).
Definition dqs_chunks : list (list chunk) :=
  [ direct_chunks (dqs_seg 0) (dqs_data 0); direct_chunks (dqs_seg 1) (dqs_data 1) ].
Definition dqs_chan : channel :=
  match find_channel dqs_h dqs_path with Ok c => c | Err _ => mkChan [] [] [] None None 0 [] end.

Example dqs_hyps :
  wf_file dqs_file /\ sm_run dqs_file false = Ok dqs_st /\ build_hierarchy (rs_om dqs_st) = Ok dqs_h /\
  segs_content (rs_segments dqs_st) dqs_file dqs_chunks /\
  om_paths_canonical (rs_om dqs_st) /\ typed_objects_are_channels (rs_om dqs_st) /\
  In dqs_chan (all_channels dqs_h) /\ ch_path dqs_chan = dqs_path /\
  ch_dtype dqs_chan = Some T_DAQMX /\ ch_scalers dqs_chan = Some [(0, 2); (1, 5)].
Proof.
  split; [unfold wf_file; vm_compute; reflexivity|].
  split; [vm_compute; reflexivity|]. split; [vm_compute; reflexivity|].
  split.
  { assert (Hsegs : rs_segments dqs_st = [dqs_seg 0; dqs_seg 1]) by (vm_compute; reflexivity).
    rewrite Hsegs. clear Hsegs. unfold dqs_file, dqs_chunks.
    constructor; [|constructor; [|constructor]].
    - apply (sct_daqmx (dqs_seg 0) _). apply daqmx_seg_ok_b_sound. vm_compute. reflexivity.
    - apply (sct_daqmx (dqs_seg 1) _). apply daqmx_seg_ok_b_sound. vm_compute. reflexivity. }
  split; [apply om_paths_canonical_b_sound; vm_compute; reflexivity|].
  split; [apply typed_objects_are_channels_b_sound; vm_compute; reflexivity|].
  assert (E : all_channels dqs_h = [dqs_chan]) by (vm_compute; reflexivity).
  split; [rewrite E; left; reflexivity|].
  repeat split; vm_compute; reflexivity.
Qed.

(* the per-scaler values the file holds (C11's direct addressing, file order) *)
Example dqs_scaler_values :
  chan_scaler_values dqs_path 0 (List.concat dqs_chunks) =
    [hex "6400"; hex "38ff"; hex "ff7f"; hex "0080"; hex "0700"; hex "f8ff"] /\
  chan_scaler_values dqs_path 1 (List.concat dqs_chunks) =
    [hex "01"; hex "02"; hex "ff"; hex "00"; hex "09"; hex "0a"].
Proof. vm_compute. split; reflexivity. Qed.

(* by the theorem: the scaling model is fed exactly those, decoded by scaler type *)
Example dqs_eager_by_theorem :
  scaled_read_eager (ser_file dqs_file) dqs_path =
  Ok (scale_with (rs_om dqs_st) dqs_chan
        (option_map scaler_raw
           (decode_scalers [(0, 2); (1, 5)]
              [(0, chan_scaler_values dqs_path 0 (List.concat dqs_chunks));
               (1, chan_scaler_values dqs_path 1 (List.concat dqs_chunks))]))).
Proof.
  destruct dqs_hyps as (H1 & H2 & H3 & H4 & H5 & H6 & Hc & Hp & Hd & Hs).
  rewrite <- Hp.
  exact (scaled_read_eager_daqmx dqs_file dqs_st dqs_h dqs_chunks H1 H2 H3 H4 H5 H6 dqs_chan _ Hc Hd Hs).
Qed.

(* both sides evaluated: (int16 + uint8, wrapping in int16) * 0.5 + 1.0 *)
Example dqs_eager_eval :
  decode_scalers [(0, 2); (1, 5)]
     [(0, chan_scaler_values dqs_path 0 (List.concat dqs_chunks));
      (1, chan_scaler_values dqs_path 1 (List.concat dqs_chunks))] =
  Some [(0%nat, SG.VI SG.I16 [100; -200; 32767; -32768; 7; -8]);
        (1%nat, SG.VI SG.U8 [1; 2; 255; 0; 9; 10])] /\
  (exists cp, props_of_props (ch_props dqs_chan) = Some cp /\
     SG.get_channel_scaling cp =
     SG.Ok (Some [SG.DaqmxScaler 0; SG.DaqmxScaler 1; SG.Add (SG.Idx 0) (SG.Idx 1);
                  SG.Linear 0.5 1 (SG.Idx 2)]%float)) /\
  scaled_read_eager (ser_file dqs_file) dqs_path =
  Ok (SG.Ok (SG.VD [51.5; -98; -16256; -16383; 9; 2]%float)).
Proof.
  split; [vm_compute; reflexivity|]. split; [|vm_compute; reflexivity].
  eexists. split; vm_compute; reflexivity.
Qed.

(* read_data(1, 3) on the eagerly read file: every scaler cut to the window *)
Example dqs_window :
  scaled_window_eager (ser_file dqs_file) dqs_path 1 3 = Ok (SG.Ok (SG.VD [-98; -16256; -16383]%float)) /\
  forall o l, exists r, scaled_read_eager (ser_file dqs_file) dqs_path = Ok r /\
                        scaled_window_eager (ser_file dqs_file) dqs_path o l = Ok (SG.rmap (SG.window o l) r).
Proof.
  split; [vm_compute; reflexivity|]. intros o l.
  destruct dqs_hyps as (H1 & H2 & H3 & H4 & H5 & H6 & Hc & Hp & _).
  rewrite <- Hp.
  exact (scaled_window_eager_is_window dqs_file dqs_st dqs_h dqs_chunks H1 H2 H3 H4 H5 H6 dqs_chan o l Hc).
Qed.

End DqsExample.

(* ---- group properties are found by the canonical group path ------------------------- *)

(* nc_file: the group object is stored under the spelling "/'g'/" (ObjectPath.from_string
   accepts it as group g), with Linear(0.5, 10.0); channel /'g'/'c' int16 [10; 20; 30].
   tdms.py gives the TdmsGroup these properties but looks the channel's group properties up
   under "/'g'": none, so the channel is NOT scaled.  npTDMS: f["g"].properties has the four
   NI_ entries, f["g"]["c"][:] = [10 20 30]; with the canonical spelling it is [15. 20. 25.]. *)
Section NcExample.

Definition nc_file : list fseg :=
  [(mkFseg (14)%Z (4713)%Z (Some [(mkEntry (hex "2f2767272f") INoData [(mkProp (hex "4e495f4e756d6265725f4f665f5363616c6573") (7)%Z (hex "01000000")); (mkProp (hex "4e495f5363616c655b305d5f5363616c655f54797065") (32)%Z (hex "4c696e656172")); (mkProp (hex "4e495f5363616c655b305d5f4c696e6561725f536c6f7065") (10)%Z (hex "000000000000e03f")); (mkProp (hex "4e495f5363616c655b305d5f4c696e6561725f595f496e74657263657074") (10)%Z (hex "0000000000002440"))]); (mkEntry (hex "2f2767272f276327") (IFull (20)%Z (2)%Z (1)%Z (3)%Z None) [])]) (hex "0a0014001e00"))].

Example nc_group_not_inherited :
  (exists st h gr, sm_run nc_file false = Ok st /\ build_hierarchy (rs_om st) = Ok h /\
                   alookup (hex "67") (h_groups h) = Some gr /\ length (g_props gr) = 4%nat /\
                   group_props_of (rs_om st) (hex "67") = []) /\
  scaled_read_eager (ser_file nc_file) (hex "2f2767272f276327") = Ok (SG.Ok (SG.VI SG.I16 [10; 20; 30])).
Proof.
  split; [|vm_compute; reflexivity].
  eexists. eexists. eexists. split; [vm_compute; reflexivity|]. split; [vm_compute; reflexivity|].
  split; [vm_compute; reflexivity|]. split; vm_compute; reflexivity.
Qed.

End NcExample.
