(* Lazy = eager, layer 2: the per-channel view that Model/LazyBytes.v COMPUTES
   from the bytes of a serialised file is the abstract view of the encoded
   chunks, it satisfies LazyRead.wf, and its concatenation is the eager data.

   For a segment record [g] of the metadata pass (with object_index, distinct
   object paths, number_values >= 0) whose raw data block encodes the chunks
   [cs] (ReadCorrect.seg_encodes):

     seg_encodes_chunks   no final-chunk override; the channel's chunk size K is
                          the number_values of its data object (0 when absent or
                          without data); the per-chunk value lists LazyBytes
                          builds -- [map (chunk_vals p) cs] for a contiguous
                          segment, [split_chunks] of the column for an interleaved
                          one -- are sg_nchunks lists of exactly K values whose
                          concatenation is [chan_values p cs]
     split_chunks_exact   cutting a column of m*n values into pieces of n gives
                          the m pieces
     segv_of_encoded      [segv_of] on the file bytes succeeds, its result is
                          well-formed (LazyRead.wf_seg) and holds [chan_values p cs]
     view_loop_ser        the same for all segments of the file
     channel_view_ser     [channel_view (ser_file segs) p] succeeds with a
                          well-formed view whose [full] is
                          [chan_values p (concat chunkss)] -- the eager data of
                          ReadCorrect.read_correct -- and whose total_values is
                          the metadata's om_len. *)
From Coq Require Import List ZArith Bool Lia ZifyBool.
From Coq Require Import Init.Byte.
Import ListNotations.
From NpTdms Require Import Base.Bytes Base.Res Base.PySlice Model.Tokens Model.TokensWf Model.SegState
     Model.Layout Model.Reader Model.FileSyn Model.LazyRead Model.LazyBytes
     Proofs.SegStateProofs Proofs.LayoutProofs Proofs.FileSynProofs Proofs.ReadCorrect
     Proofs.LazyReadLemmas Proofs.LazyReadProofs Proofs.LazyEagerIndex.
Local Open Scope Z_scope.

(* ---- small list facts ---------------------------------------------------------- *)

Lemma fit_chunks_exact : forall (l : list (list bytes)), fit_chunks (length l) l = l.
Proof. induction l as [|x r IH]; [reflexivity|]. cbn [length fit_chunks]. rewrite IH. reflexivity. Qed.

Lemma fit_chunks_nil_length : forall n, length (fit_chunks n []) = n.
Proof. induction n as [|n IH]; [reflexivity|]. cbn [fit_chunks length]. rewrite IH. reflexivity. Qed.

Lemma fit_chunks_nil_concat : forall n, concat (fit_chunks n []) = [].
Proof. induction n as [|n IH]; [reflexivity|]. cbn [fit_chunks concat app]. exact IH. Qed.

Lemma fit_chunks_nil_all : forall n, Forall (fun c : list bytes => zlen c = 0) (fit_chunks n []).
Proof. induction n as [|n IH]; [constructor|]. cbn [fit_chunks]. constructor; [reflexivity|exact IH]. Qed.

Lemma chunks_ok_const (k : Z) : forall vals : list (list bytes),
    Forall (fun c => zlen c = k) vals -> chunks_ok bytes k k vals = true.
Proof.
  induction vals as [|c r IH]; intros H; [reflexivity|].
  inversion H as [|x y Hc Hr]; subst x y.
  destruct r as [|c' r'].
  - cbn [chunks_ok]. apply Z.eqb_eq. exact Hc.
  - change (chunks_ok bytes k k (c :: c' :: r')) with ((zlen c =? k) && chunks_ok bytes k k (c' :: r')).
    rewrite (IH Hr). apply andb_true_intro. split; [apply Z.eqb_eq; exact Hc|reflexivity].
Qed.

(* a column of m chunks of n values, cut into pieces of n: the m pieces *)
Lemma split_chunks_exact (n : Z) : 0 < n -> forall (m : nat) (vs : list bytes) (fuel : nat),
    length vs = (Z.to_nat n * m)%nat -> (m <= fuel)%nat ->
    concat (split_chunks fuel n vs) = vs /\
    length (split_chunks fuel n vs) = m /\
    Forall (fun c => zlen c = n) (split_chunks fuel n vs).
Proof.
  intros Hn. induction m as [|m IH]; intros vs fuel Hlen Hfuel.
  - rewrite Nat.mul_0_r in Hlen. destruct vs; [|discriminate].
    destruct fuel; cbn [split_chunks concat length]; repeat split; constructor.
  - destruct fuel as [|f]; [lia|].
    destruct vs as [|v vs'] eqn:Evs; [exfalso; cbn [length] in Hlen; nia|]. rewrite <- Evs in *.
    assert (Hsplit : split_chunks (S f) n vs =
                     firstn (Z.to_nat n) vs :: split_chunks f n (skipn (Z.to_nat n) vs)).
    { rewrite Evs. reflexivity. }
    rewrite Hsplit. clear Hsplit.
    destruct (IH (skipn (Z.to_nat n) vs) f) as (Hc & Hl & Ha).
    { rewrite skipn_length, Hlen. nia. }
    { lia. }
    cbn [concat length]. rewrite Hc, Hl, firstn_skipn. split; [reflexivity|]. split; [reflexivity|].
    constructor; [|exact Ha]. unfold zlen. rewrite firstn_length. nia.
Qed.

Lemma length_zero_nil {A} (l : list A) : Z.of_nat (length l) = 0 -> l = [].
Proof. destruct l; [reflexivity|]. cbn [length]. lia. Qed.

(* ---- the chunk size of a channel in a segment ---------------------------------- *)

Lemma path_count_nonneg p (w : sobj -> Z) objs :
  Forall (fun o => 0 <= w o) objs -> 0 <= path_count p w objs.
Proof.
  induction 1 as [|o objs Ho _ IH]; [unfold path_count; cbn; lia|].
  rewrite path_count_cons. destruct (bytes_eqb p (so_path o)); lia.
Qed.

Lemma path_count_absent p (w : sobj -> Z) objs :
  ~ In p (map so_path objs) -> path_count p w objs = 0.
Proof.
  induction objs as [|o objs IH]; intros H; [reflexivity|].
  rewrite path_count_cons. cbn [map In] in H.
  replace (bytes_eqb p (so_path o)) with false.
  - rewrite IH; [reflexivity|]. intros Hin. apply H. right. exact Hin.
  - symmetry. apply bytes_eqb_neq. intros ->. apply H. left. reflexivity.
Qed.

Lemma path_count_nodup p (w : sobj -> Z) objs :
  NoDup (map so_path objs) ->
  path_count p w objs = match obj_for p objs with Some o => w o | None => 0 end.
Proof.
  induction objs as [|o objs IH]; intros Hnd; [reflexivity|].
  cbn [map] in Hnd. inversion Hnd as [|x y Hnin Hnd']; subst x y.
  rewrite path_count_cons. unfold obj_for in *. cbn [find].
  destruct (bytes_eqb p (so_path o)) eqn:E.
  - apply bytes_eqb_eq in E. subst p. rewrite (path_count_absent _ w objs Hnin). lia.
  - rewrite (IH Hnd'). lia.
Qed.

Lemma data_objs_paths_incl objs p : In p (map so_path (data_objs objs)) -> In p (map so_path objs).
Proof.
  intros H. apply in_map_iff in H. destruct H as (o & <- & Ho).
  unfold data_objs in Ho. apply filter_In in Ho. apply in_map. tauto.
Qed.

Lemma obj_for_data_objs p : forall objs,
    NoDup (map so_path objs) ->
    obj_for p (data_objs objs) =
    match obj_for p objs with
    | Some o => if so_has_data o then Some o else None
    | None => None
    end.
Proof.
  induction objs as [|o objs IH]; intros Hnd; [reflexivity|].
  cbn [map] in Hnd. inversion Hnd as [|x y Hnin Hnd']; subst x y.
  unfold obj_for, data_objs in *. cbn [filter find].
  destruct (bytes_eqb p (so_path o)) eqn:E.
  - destruct (so_has_data o) eqn:Ed.
    + cbn [find]. rewrite E. reflexivity.
    + apply bytes_eqb_eq in E. subst p.
      apply (proj2 (obj_for_none (so_path o) (filter so_has_data objs))).
      intros Hin. apply Hnin. apply (data_objs_paths_incl objs). exact Hin.
  - destruct (so_has_data o); [cbn [find]; rewrite E|]; apply IH; exact Hnd'.
Qed.

Lemma data_objs_nodup objs : NoDup (map so_path objs) -> NoDup (map so_path (data_objs objs)).
Proof.
  induction objs as [|o objs IH]; intros Hnd; [constructor|].
  cbn [map] in Hnd. inversion Hnd as [|x y Hnin Hnd']; subst x y.
  unfold data_objs in *. cbn [filter]. destruct (so_has_data o); [|apply IH; exact Hnd'].
  cbn [map]. constructor; [|apply IH; exact Hnd'].
  intros Hin. apply Hnin. apply (data_objs_paths_incl objs). exact Hin.
Qed.

(* what segv_of computes as the channel's chunk size *)
Definition chunk_of_view (g : segment) (p : bytes) : Z :=
  match segment_object g p with
  | Some o => if so_has_data o then so_nvals o else 0
  | None => 0
  end.

Lemma chunk_of_view_count g p :
  sg_index g = fresh_index (map so_path (sg_objs g)) ->
  NoDup (map so_path (sg_objs g)) ->
  chunk_of_view g p = path_count p so_nvals (data_objs (sg_objs g)).
Proof.
  intros Hidx Hnd. unfold chunk_of_view. rewrite (segment_object_find g p Hidx Hnd).
  rewrite (path_count_nodup p so_nvals _ (data_objs_nodup _ Hnd)), (obj_for_data_objs p _ Hnd).
  destruct (obj_for p (sg_objs g)) as [o|]; [|reflexivity]. destruct (so_has_data o); reflexivity.
Qed.

(* ---- the chunks a segment encodes, seen through one path ------------------------ *)

Lemma chunk_vals_values p (c : chunk) : NoDup (map fst c) -> chunk_vals p c = chunk_values p c.
Proof. intros H. rewrite (chunk_values_lookup p c H). reflexivity. Qed.

Lemma map_chunk_vals_values p : forall cs : list chunk,
    Forall (fun c : chunk => NoDup (map fst c)) cs ->
    map (chunk_vals p) cs = map (chunk_values p) cs.
Proof.
  induction 1 as [|c cs Hc _ IH]; [reflexivity|]. cbn [map]. rewrite IH, (chunk_vals_values p c Hc). reflexivity.
Qed.

Lemma flat_map_chunk_vals_values p : forall cs : list chunk,
    Forall (fun c : chunk => NoDup (map fst c)) cs ->
    flat_map (chunk_vals p) cs = chan_values p cs.
Proof.
  intros cs H. unfold chan_values. rewrite !flat_map_concat_map, (map_chunk_vals_values p cs H). reflexivity.
Qed.

Definition il_of (lay : layout) : bool := match lay with LContig => false | _ => true end.

(* the per-chunk lists LazyBytes.segv_of builds *)
Definition per_chunk_of (p : bytes) (k : Z) (il : bool) (cs : list chunk) : list (list bytes) :=
  if il then split_chunks (S (length (flat_map (chunk_vals p) cs))) k (flat_map (chunk_vals p) cs)
  else map (chunk_vals p) cs.

Theorem seg_encodes_chunks g data cs p :
  seg_encodes g data cs ->
  calculate_chunks (sg_toc g) (sg_incomplete g) (sg_objs g) (blen data) = Ok (sg_nchunks g, sg_final g) ->
  Forall nvals_ok (sg_objs g) ->
  let k := path_count p so_nvals (data_objs (sg_objs g)) in
  sg_final g = None /\ 0 <= sg_nchunks g /\ 0 <= k /\
  (k = 0 -> chan_values p cs = []) /\
  (k <> 0 -> exists lay, seg_layout g = Ok lay /\
                         length (per_chunk_of p k (il_of lay) cs) = Z.to_nat (sg_nchunks g) /\
                         Forall (fun c => zlen c = k) (per_chunk_of p k (il_of lay) cs) /\
                         concat (per_chunk_of p k (il_of lay) cs) = chan_values p cs).
Proof.
  intros Henc Hcc Hnv k.
  assert (Hk0 : 0 <= k).
  { apply path_count_nonneg. apply Forall_forall. intros o Ho. unfold data_objs in Ho.
    apply filter_In in Ho. rewrite Forall_forall in Hnv. apply (Hnv o). tauto. }
  pose proof (seg_encodes_nodup_keys g data cs Henc) as Hkeys.
  destruct Henc as [Hd Hdata | css Hlay Hpos Hnd Hok Hds Hdata
                    | nv m rows Hlay Hne Hnv0 Hm Hobjs Hsz Hnd Hrows Hlen Hdata].
  - (* no data objects *)
    assert (Hk : k = 0) by (unfold k; rewrite Hd; reflexivity).
    unfold calculate_chunks, chunk_size, have_daqmx in Hcc. rewrite Hd in Hcc.
    subst data. cbn in Hcc. injection Hcc as Hn Hf.
    split; [symmetry; exact Hf|]. split; [lia|]. split; [exact Hk0|]. split; [reflexivity|].
    intros Hne. contradiction.
  - (* contiguous *)
    subst data.
    pose proof (seg_layout_contig_chunk_size g Hlay) as Hcs.
    rewrite (enc_chunks_blen _ _ css Hds) in Hcc.
    rewrite (calculate_chunks_exact _ _ _ _ _ Hcs Hpos) in Hcc by lia.
    injection Hcc as Hn Hf.
    set (cs := map (fun vss => chunk_of (combine (data_objs (sg_objs g)) vss)) css) in *.
    assert (Hper : Forall (fun c : chunk => Z.of_nat (length (chunk_values p c)) = k) cs).
    { unfold cs. apply Forall_map. eapply Forall_impl; [|exact Hok]. intros vss Hvss. cbn beta.
      apply chunk_of_count. exact Hvss. }
    split; [symmetry; exact Hf|]. split; [lia|]. split; [exact Hk0|]. split.
    + intros Hk. apply length_zero_nil. rewrite (chan_values_length_const p k cs Hper). lia.
    + intros _. exists LContig. split; [exact Hlay|]. unfold per_chunk_of, il_of.
      split; [|split].
      * unfold cs. rewrite !map_length. lia.
      * rewrite (map_chunk_vals_values p cs Hkeys). apply Forall_map.
        eapply Forall_impl; [|exact Hper]. intros c Hc. exact Hc.
      * rewrite <- flat_map_concat_map. apply flat_map_chunk_vals_values. exact Hkeys.
  - (* interleaved *)
    subst data.
    pose proof (seg_layout_interleaved_chunk_size g Hlay) as Hcs.
    pose proof (width_pos _ Hne Hsz) as Hw.
    pose proof (interleaved_chunk_bytes nv _ Hobjs) as Hcb.
    rewrite (enc_rows_blen _ _ rows Hrows), Hlen in Hcc.
    replace (nv * m * zsum (map size_or0 (data_objs (sg_objs g))))
      with (m * zsum (map so_dsize (data_objs (sg_objs g)))) in Hcc by nia.
    rewrite (calculate_chunks_exact _ _ _ _ _ Hcs) in Hcc by nia.
    injection Hcc as Hn Hf.
    set (c := cols_of (data_objs (sg_objs g)) rows) in *.
    assert (Hcol : Z.of_nat (length (chunk_values p c)) = m * k).
    { unfold c, k. rewrite cols_of_count, Hlen.
      rewrite (path_count_ext p (fun _ => nv * m) (fun o => m * so_nvals o)).
      - apply path_count_scale.
      - eapply Forall_impl; [|exact Hobjs]. intros o [Ho _]. cbn beta. rewrite Ho. lia. }
    assert (Hflat : flat_map (chunk_vals p) [c] = chunk_values p c).
    { cbn [flat_map]. rewrite app_nil_r. apply chunk_vals_values.
      inversion Hkeys; assumption. }
    assert (Hchan : chan_values p [c] = chunk_values p c).
    { unfold chan_values. cbn [flat_map]. apply app_nil_r. }
    split; [symmetry; exact Hf|]. split; [lia|]. split; [exact Hk0|]. split.
    + intros Hk. rewrite Hchan. apply length_zero_nil. rewrite Hcol, Hk. lia.
    + intros Hk. exists LInterleaved. split; [exact Hlay|]. unfold per_chunk_of, il_of.
      rewrite Hflat, Hchan.
      destruct (split_chunks_exact k ltac:(lia) (Z.to_nat m) (chunk_values p c)
                                   (S (length (chunk_values p c)))) as (H1 & H2 & H3).
      * nia.
      * nia.
      * split; [rewrite H2; lia|]. split; [exact H3|exact H1].
Qed.

(* ---- one segment: segv_of on the bytes ------------------------------------------ *)

Lemma Forall_zlen_concat_nil (l : list (list bytes)) :
  Forall (fun c => zlen c = 0) l -> concat l = [].
Proof.
  induction 1 as [|c l Hc _ IH]; [reflexivity|]. cbn [concat]. rewrite IH, app_nil_r.
  apply length_zero_nil. exact Hc.
Qed.

Theorem segv_of_encoded pre s rest g cs p :
  wf_fseg s = true ->
  seg_at (blen pre) s g ->
  seg_encodes g (fs_data s) cs ->
  NoDup (map so_path (sg_objs g)) ->
  sg_index g = fresh_index (map so_path (sg_objs g)) ->
  Forall nvals_ok (sg_objs g) ->
  exists sv, segv_of (pre ++ ser_seg TAG_DATA true s ++ rest) p g = Ok sv /\
             wf_seg bytes sv = true /\
             seg_vals bytes sv = chan_values p cs /\
             number_of_segment_values bytes sv = seg_total p g.
Proof.
  intros Hwf Hat Henc Hnd Hidx Hnv.
  pose proof Hat as (_ & _ & _ & _ & _ & Hcc).
  destruct (seg_encodes_chunks g (fs_data s) cs p Henc Hcc Hnv) as (Hfin & Hn0 & Hk0 & Hzero & Hpos).
  pose proof (seg_encodes_count g (fs_data s) cs p Henc Hcc) as Hcount.
  unfold segv_of. fold (chunk_of_view g p). rewrite (chunk_of_view_count g p Hidx Hnd).
  set (k := path_count p so_nvals (data_objs (sg_objs g))) in *.
  rewrite Hfin.
  destruct (k =? 0) eqn:Ek.
  - apply Z.eqb_eq in Ek. eexists. split; [reflexivity|].
    unfold wf_seg, seg_vals, number_of_segment_values.
    cbn [sv_chunk sv_nchunks sv_final sv_vals sv_interleaved].
    split; [|split].
    + unfold zlen. rewrite fit_chunks_nil_length.
      rewrite (chunks_ok_const 0 _ (fit_chunks_nil_all _)).
      apply andb_true_intro. split; [|reflexivity]. lia.
    + rewrite fit_chunks_nil_concat. symmetry. apply Hzero. exact Ek.
    + cbn [Z.eqb]. rewrite <- Hcount, (Hzero Ek). reflexivity.
  - apply Z.eqb_neq in Ek. destruct (Hpos Ek) as (lay & Hlay & Hlen & Hall & Hcat).
    rewrite Hlay. cbn [bind]. rewrite (read_segment_encoded pre s rest g cs Hwf Hat Henc). cbn [bind].
    fold (il_of lay). fold (per_chunk_of p k (il_of lay) cs).
    rewrite <- Hlen, fit_chunks_exact.
    eexists. split; [reflexivity|].
    unfold wf_seg, seg_vals, number_of_segment_values.
    cbn [sv_chunk sv_nchunks sv_final sv_vals sv_interleaved].
    split; [|split].
    + rewrite (chunks_ok_const k _ Hall). unfold zlen. rewrite Hlen.
      apply andb_true_intro. split; [|reflexivity]. lia.
    + exact Hcat.
    + replace (k =? 0) with false by lia.
      rewrite <- Hcount, <- Hcat.
      clear - Hall Hlen Hn0. set (l := per_chunk_of p k (il_of lay) cs) in *.
      assert (Hgen : Z.of_nat (length (concat l)) = k * Z.of_nat (length l)).
      { clear Hlen. induction Hall as [|c l Hc _ IH]; [cbn; lia|].
        cbn [concat length]. rewrite app_length. unfold zlen in Hc. lia. }
      rewrite Hgen, Hlen, Z2Nat.id by lia. reflexivity.
Qed.

(* ---- all segments ------------------------------------------------------------------ *)

Definition seg_ready (g : segment) : Prop :=
  NoDup (map so_path (sg_objs g)) /\
  sg_index g = fresh_index (map so_path (sg_objs g)) /\
  Forall nvals_ok (sg_objs g).

Lemma view_loop_ser data p : forall segs gs chunkss pre,
    wf_file segs ->
    data = pre ++ ser_file segs ->
    segs_at (blen pre) segs gs ->
    segs_encode gs segs chunkss ->
    Forall seg_ready gs ->
    exists svs, mapM (segv_of data p) gs = Ok svs /\
                wf bytes svs = true /\
                full bytes svs = chan_values p (concat chunkss) /\
                total_values bytes svs = zsum (map (seg_total p) gs).
Proof.
  induction segs as [|s r IH]; intros gs chunkss pre Hwf Hdata Hat Henc Hready.
  - inversion Hat; subst. inversion Henc; subst. exists []. repeat split; reflexivity.
  - inversion Hat as [|pos s' r' g gs' Hg Hat']; subst.
    inversion Henc as [|g' gs'' s' r' cs css Hcs Henc']; subst.
    inversion Hready as [|x y (Hnd & Hidx & Hnv) Hready']; subst x y.
    unfold wf_file in Hwf. cbn [forallb] in Hwf. apply andb_prop in Hwf. destruct Hwf as [Hs Hr].
    cbn [mapM]. rewrite ser_file_cons.
    destruct (segv_of_encoded pre s (ser_file r) g cs p Hs Hg Hcs Hnd Hidx Hnv)
      as (sv & Hsv & Hwfsv & Hvals & Htot).
    rewrite Hsv. cbn [bind].
    destruct (IH gs' css (pre ++ ser_seg TAG_DATA true s) Hr) as (svs & Hsvs & Hwfs & Hfull & Htots).
    + rewrite <- app_assoc. reflexivity.
    + rewrite blen_app. change TAG_DATA with (tag_of false). change true with (negb false).
      rewrite (blen_ser_seg false s Hs). unfold fseg_len in Hat'. exact Hat'.
    + exact Henc'.
    + exact Hready'.
    + rewrite ser_file_cons in Hsvs. rewrite Hsvs. cbn [bind].
      exists (sv :: svs). split; [reflexivity|]. split; [|split].
      * unfold wf. cbn [forallb]. rewrite Hwfsv. exact Hwfs.
      * unfold full in *. cbn [map concat]. rewrite Hfull, Hvals, chan_values_app. reflexivity.
      * cbn [total_values map zsum fold_right]. rewrite Htot, Htots. reflexivity.
Qed.

(* ---- with_index keeps what the data layer looks at -------------------------------- *)

Lemma seg_encodes_with_index g data cs : seg_encodes g data cs -> seg_encodes (with_index g) data cs.
Proof.
  intros [Hd Hdata | css Hlay Hpos Hnd Hok Hds Hdata
          | nv m rows Hlay Hne Hnv0 Hm Hobjs Hsz Hnd Hrows Hlen Hdata].
  - apply se_empty; assumption.
  - exact (se_contig (with_index g) data css Hlay Hpos Hnd Hok Hds Hdata).
  - exact (se_interleaved (with_index g) data nv m rows Hlay Hne Hnv0 Hm Hobjs Hsz Hnd Hrows Hlen Hdata).
Qed.

Lemma segs_encode_with_index gs segs chunkss :
  segs_encode gs segs chunkss -> segs_encode (map with_index gs) segs chunkss.
Proof.
  induction 1 as [|g gs s r cs css Hcs _ IH]; cbn [map]; constructor.
  - apply seg_encodes_with_index. exact Hcs.
  - exact IH.
Qed.

(* ---- the whole view ------------------------------------------------------------------ *)

Definition seg_paths_distinct (st : rstate) : Prop :=
  Forall (fun g => NoDup (map so_path (sg_objs g))) (rs_segments st).

Theorem channel_view_ser segs st chunkss p :
  wf_file segs ->
  sm_run segs false = Ok st ->
  segs_encode (rs_segments st) segs chunkss ->
  seg_paths_distinct st ->
  exists svs,
    channel_view (ser_file segs) p =
    Ok (svs, match alookup p (rs_om st) with Some m => om_dtype m | None => None end) /\
    wf bytes svs = true /\
    full bytes svs = chan_values p (concat chunkss) /\
    total_values bytes svs = om_len (get_ometa p (rs_om st)).
Proof.
  intros Hwf Hrun Henc Hdist.
  destruct (sm_run_with_index segs st Hrun) as (st' & Hrun' & Hsegs & _ & Hom & _).
  pose proof (sm_segment_positions segs true st' Hrun') as Hat.
  pose proof (sm_run_nvals_nonneg segs true st' Hwf Hrun') as Hnv.
  destruct (view_loop_ser (ser_file segs) p segs (rs_segments st') chunkss [] Hwf eq_refl Hat)
    as (svs & Hsvs & Hwfs & Hfull & Htot).
  - rewrite Hsegs. apply segs_encode_with_index. exact Henc.
  - apply Forall_forall. intros g' Hg'. pose proof (Hnv g' Hg') as Hnvg.
    rewrite Hsegs in Hg'. apply in_map_iff in Hg'. destruct Hg' as (g & <- & Hg).
    unfold seg_paths_distinct in Hdist. rewrite Forall_forall in Hdist.
    split; [exact (Hdist g Hg)|]. split; [reflexivity|exact Hnvg].
  - exists svs. unfold channel_view.
    rewrite (rd_metadata_ser segs true Hwf), Hrun'. cbn [bind]. rewrite Hsvs. cbn [bind]. rewrite Hom.
    split; [reflexivity|]. split; [exact Hwfs|]. split; [exact Hfull|].
    rewrite Htot. destruct (sm_run_trace segs true st' Hrun') as (_ & Hlen & _).
    rewrite <- Hom. symmetry. apply Hlen.
Qed.
