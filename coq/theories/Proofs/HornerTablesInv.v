(* Proofs/HornerTablesInv.v -- inverse tables: the per-type results of HornerTablesInvA.v and
   HornerTablesInvB.v (built in parallel) collected over the eight types. *)
From Coq Require Import Reals List.
Import ListNotations.
From NpTdms Require Import Gen.ThermoTables.
From NpTdms Require Import Model.ThermoR.
From NpTdms Require Import Proofs.HornerTables.
From NpTdms Require Export Proofs.HornerTablesInvA.
From NpTdms Require Import Proofs.HornerTablesInvB.
Open Scope R_scope.

Lemma inv_pieces_ok : forall T,
  all2 (piece_ok (fst (inv_range T)) (snd (inv_range T))) (code_invR T) (inv_Xe T).
Proof.
  intros T; destruct T;
    [exact inv_pieces_ok_B|exact inv_pieces_ok_E|exact inv_pieces_ok_J|exact inv_pieces_ok_K
    |exact inv_pieces_ok_N|exact inv_pieces_ok_R|exact inv_pieces_ok_S|exact inv_pieces_ok_T].
Qed.
