(* C04 (ii): the TRANSLATED TdmsChannel._read_slice (Gen/PySlice_gen.v) turns a
   slice request into a plan whose execution is Python's slice of the full data. *)
From Coq Require Import ZArith List Bool Lia ZifyBool.
From NpTdms Require Import Base.Res Base.PySlice Gen.PySlice_gen.
Import ListNotations.
Open Scope Z_scope.

(* read_data(o, l) on a channel whose data is [full] (what window_correct
   establishes for the lazy reader): ValueError for negative arguments *)
Definition read_ideal {A} (full : list A) (o l : Z) : res (list A) :=
  if o <? 0 then Err EValue
  else if l <? 0 then Err EValue
  else Ok (zfirstn l (zskipn o full)).

Definition run_slice {A} (read : Z -> Z -> res (list A)) (n : Z) (start stop step : option Z)
  : res (list A) :=
  do p <- read_slice_gen n start stop step; interp_plan read p.

(* case split on every test, innermost first, pruning impossible branches *)
Ltac split_ifs :=
  repeat match goal with
         | |- context [if ?b then _ else _] =>
           lazymatch b with
           | context [if _ then _ else _] => fail
           | _ => let E := fresh "E" in destruct b eqn:E; try lia
           end
         end.

Ltac plan_eq :=
  match goal with
  | |- PRead _ _ ?z = PRead _ _ ?z => f_equal; lia
  end.

(* positive step: nothing to read when the adjusted bounds cross, else one read of [a, b) *)
Lemma gen_pos : forall n start stop k, 0 <= n -> 0 < k ->
  let a := adjust_start n start k in
  let b := adjust_stop n stop k in
  exists p, read_slice_gen n start stop (Some k) = Ok p /\
            ((p = PEmpty /\ b <= a) \/
             (p = PRead a (b - a) (if k >? 1 then Some k else None) /\ a <= b)).
Proof.
  intros n start stop k Hn Hk a b. subst a b.
  unfold read_slice_gen, oeqb, adjust_start, adjust_stop, adjust_index. cbv zeta.
  destruct start as [s|]; destruct stop as [t|]; split_ifs;
    eexists; (split; [reflexivity|]);
    first [ left; split; [reflexivity|lia] | right; split; [plan_eq|lia] ].
Qed.

(* negative step: nothing to read unless stop < start (adjusted), else one read of (b, a] *)
Lemma gen_neg : forall n start stop k, 0 <= n -> k < 0 ->
  let a := adjust_start n start k in
  let b := adjust_stop n stop k in
  exists p, read_slice_gen n start stop (Some k) = Ok p /\
            ((p = PEmpty /\ a <= b) \/
             (p = PRead (b + 1) (a - b) (Some k) /\ b <= a)).
Proof.
  intros n start stop k Hn Hk a b. subst a b.
  unfold read_slice_gen, oeqb, adjust_start, adjust_stop, adjust_index. cbv zeta.
  destruct start as [s|]; destruct stop as [t|]; split_ifs;
    eexists; (split; [reflexivity|]);
    first [ left; split; [reflexivity|lia] | right; split; [plan_eq|lia] ].
Qed.

Lemma gen_none : forall n start stop,
  read_slice_gen n start stop None = read_slice_gen n start stop (Some 1).
Proof. intros. reflexivity. Qed.

Lemma gen_zero : forall n start stop, read_slice_gen n start stop (Some 0) = Err EValue.
Proof. intros. reflexivity. Qed.

Section Slice.
  Context {A : Type}.

  Lemma every_nil : forall k, every k (@nil A) = [].
  Proof. intros. reflexivity. Qed.

  Lemma adjust_start_range_pos : forall n start k, 0 <= n -> 0 < k -> 0 <= adjust_start n start k <= n.
  Proof.
    intros n start k Hn Hk. unfold adjust_start, adjust_index. destruct start; split_ifs; lia.
  Qed.

  Lemma adjust_stop_range_pos : forall n stop k, 0 <= n -> 0 < k -> 0 <= adjust_stop n stop k <= n.
  Proof.
    intros n stop k Hn Hk. unfold adjust_stop, adjust_index. destruct stop; split_ifs; lia.
  Qed.

  Lemma adjust_start_range_neg : forall n start k, 0 <= n -> k < 0 -> -1 <= adjust_start n start k <= n - 1.
  Proof.
    intros n start k Hn Hk. unfold adjust_start, adjust_index. destruct start; split_ifs; lia.
  Qed.

  Lemma adjust_stop_range_neg : forall n stop k, 0 <= n -> k < 0 -> -1 <= adjust_stop n stop k <= n - 1.
  Proof.
    intros n stop k Hn Hk. unfold adjust_stop, adjust_index. destruct stop; split_ifs; lia.
  Qed.

  (* d[::k] *)
  Lemma stride_pos : forall (d : list A) k, 0 < k -> py_slice3 d None None (Some k) = Ok (every k d).
  Proof.
    intros d k Hk. unfold py_slice3, adjust_start, adjust_stop.
    replace (k =? 0) with false by lia. replace (k >? 0) with true by lia.
    replace (k <? 0) with false by lia. rewrite sl_all. reflexivity.
  Qed.

  Lemma stride_neg : forall (d : list A) k, k < 0 -> py_slice3 d None None (Some k) = Ok (every (- k) (rev d)).
  Proof.
    intros d k Hk. unfold py_slice3, adjust_start, adjust_stop.
    replace (k =? 0) with false by lia. replace (k >? 0) with false by lia.
    replace (k <? 0) with true by lia.
    replace (-1 + 1) with 0 by lia. replace (zlen d - 1 + 1) with (zlen d) by lia.
    rewrite sl_all. reflexivity.
  Qed.

  Lemma slice_step : forall (full : list A) start stop k, k <> 0 ->
    run_slice (read_ideal full) (zlen full) start stop (Some k) = py_slice3 full start stop (Some k).
  Proof.
    intros full start stop k Hk. pose proof (zlen_nonneg full) as Hn.
    unfold run_slice. destruct (Z_lt_le_dec 0 k) as [Hpos|Hneg].
    - destruct (gen_pos (zlen full) start stop k Hn Hpos) as (p & Hgen & Hp). rewrite Hgen. cbn [bind].
      pose proof (adjust_start_range_pos (zlen full) start k Hn Hpos) as Ha.
      pose proof (adjust_stop_range_pos (zlen full) stop k Hn Hpos) as Hb.
      unfold py_slice3. replace (k =? 0) with false by lia. replace (k >? 0) with true by lia.
      set (a := adjust_start (zlen full) start k) in *. set (b := adjust_stop (zlen full) stop k) in *.
      destruct Hp as [[-> Hba]|[-> Hab]].
      + cbn [interp_plan]. rewrite sl_nil_ge by lia. reflexivity.
      + assert (Hread : read_ideal full a (b - a) = Ok (sl a b full)).
        { unfold read_ideal. replace (a <? 0) with false by lia. replace (b - a <? 0) with false by lia. reflexivity. }
        destruct (k >? 1) eqn:E1; cbn [interp_plan]; rewrite Hread; cbn [bind].
        * apply stride_pos. lia.
        * assert (k = 1) by lia. subst k. rewrite every_one. reflexivity.
    - assert (Hlt : k < 0) by lia.
      destruct (gen_neg (zlen full) start stop k Hn Hlt) as (p & Hgen & Hp). rewrite Hgen. cbn [bind].
      pose proof (adjust_start_range_neg (zlen full) start k Hn Hlt) as Ha.
      pose proof (adjust_stop_range_neg (zlen full) stop k Hn Hlt) as Hb.
      unfold py_slice3. replace (k =? 0) with false by lia. replace (k >? 0) with false by lia.
      set (a := adjust_start (zlen full) start k) in *. set (b := adjust_stop (zlen full) stop k) in *.
      destruct Hp as [[-> Hab]|[-> Hba]].
      + cbn [interp_plan]. rewrite sl_nil_ge by lia. reflexivity.
      + assert (Hread : read_ideal full (b + 1) (a - b) = Ok (sl (b + 1) (a + 1) full)).
        { unfold read_ideal. replace (b + 1 <? 0) with false by lia. replace (a - b <? 0) with false by lia.
          unfold sl. replace (a + 1 - (b + 1)) with (a - b) by lia. reflexivity. }
        cbn [interp_plan]. rewrite Hread. cbn [bind]. apply stride_neg. lia.
  Qed.

  (* C04 (ii) *)
  Theorem slice_plan_correct_ideal : forall (full : list A) start stop step,
    run_slice (read_ideal full) (zlen full) start stop step = py_slice3 full start stop step.
  Proof.
    intros full start stop step. destruct step as [k|].
    - destruct (Z.eq_dec k 0) as [->|Hk].
      + unfold run_slice. rewrite gen_zero. reflexivity.
      + apply slice_step. exact Hk.
    - unfold run_slice. rewrite gen_none. fold (run_slice (read_ideal full) (zlen full) start stop (Some 1)).
      rewrite slice_step by lia. reflexivity.
  Qed.

  (* any reader that behaves like read_ideal *)
  Lemma interp_plan_ext : forall (r1 r2 : Z -> Z -> res (list A)) p,
    (forall a b, r1 a b = r2 a b) -> interp_plan r1 p = interp_plan r2 p.
  Proof.
    intros r1 r2 p H. destruct p as [|a b [k|]]; cbn [interp_plan]; [reflexivity | |]; rewrite H; reflexivity.
  Qed.

End Slice.
