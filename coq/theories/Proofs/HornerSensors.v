(* Proofs/HornerSensors.v -- the generic rounding theorem (Proofs/HornerRound.v) for
   PolynomialScaling.scale of nptdms/scaling.py: the binary64 evaluation
   (HornerRound.polynomial_scale_F: np.polynomial.polynomial.polyval, i.e. ThermoF.horner)
   against the real-number model SensorsR.polynomial_scale = sum of c_i x^i. *)
From Coq Require Import Reals ZArith List Lra.
From Coq Require Import PrimFloat.
Import ListNotations.
From NpTdms Require Import Model.ThermoF.
From NpTdms Require Import Model.ThermoR.
From NpTdms Require Model.SensorsR.
From NpTdms Require Proofs.SensorsProofs.
From NpTdms Require Import Proofs.HornerRound.
Open Scope R_scope.

(* bounds for a coefficient list that may be empty (the code returns zeros then) *)
Definition he_list (cs : list R) (X : R) : R :=
  match cs with [] => 0 | c :: r => he c r X end.
Definition hsafe_list (cs : list R) (X : R) : Prop :=
  match cs with [] => True | c :: r => hsafe c r X end.

Lemma hornerR_polyval : forall c cs x, hornerR c cs x = SensorsR.polyval x (c :: cs).
Proof. intros c cs x. unfold SensorsR.polyval. apply hornerR_fold. Qed.

Lemma polynomial_scaling_rounding_all : forall (coefficients : list float) (x : float) (X : R),
  Ffin x -> Forall Ffin coefficients ->
  Rabs (FR x) <= X ->
  hsafe_list (map FR coefficients) X ->
  Ffin (polynomial_scale_F coefficients x) /\
  Rabs (FR (polynomial_scale_F coefficients x)
        - SensorsR.polynomial_scale (map FR coefficients) (FR x))
    <= he_list (map FR coefficients) X.
Proof.
  intros cs x X Hx Hcs HX Hs. destruct cs as [|c r].
  - cbn [polynomial_scale_F map SensorsR.polynomial_scale he_list].
    split; [exact Ffin_zero|]. rewrite FR_zero. replace (0 - 0) with 0 by ring.
    rewrite Rabs_R0. apply Rle_refl.
  - cbn [polynomial_scale_F map he_list hsafe_list] in *.
    inversion Hcs as [|? ? Hc Hr]; subst.
    destruct (horner_rounding_gen r c x X Hx Hc Hr HX Hs) as [Hf [_ He]].
    split; [exact Hf|].
    unfold SensorsR.polynomial_scale. rewrite <- hornerR_polyval. exact He.
Qed.

Lemma polynomial_scaling_rounding_sum : forall (coefficients : list float) (x : float) (X : R),
  Ffin x -> Forall Ffin coefficients ->
  Rabs (FR x) <= X ->
  hsafe_list (map FR coefficients) X ->
  Ffin (polynomial_scale_F coefficients x) /\
  Rabs (FR (polynomial_scale_F coefficients x)
        - SensorsR.sum_powers (map FR coefficients) (FR x))
    <= he_list (map FR coefficients) X.
Proof.
  intros cs x X Hx Hcs HX Hs.
  rewrite <- SensorsProofs.polynomial_scale_sum_powers.
  apply polynomial_scaling_rounding_all; assumption.
Qed.
