(* Proofs about Model/ScaleDtype.v (C14): the declared dtype is the dtype of what the
   scalings return, for every dtype and every graph; ties with the evaluator; the
   unchanged code refuted with the D8 / D9 / D11 / D12 witnesses. *)
From Coq Require Import ZArith List Bool String Lia PrimFloat.
Import ListNotations.
From NpTdms Require Import Gen.NumpyPromote Model.ScaleGraph Model.ScaleDtype Proofs.ScaleProofs.

(* ---- facts read off the generated NumPy tables (finite case analysis) -------------- *)

Lemma add_arr_result_type : forall a b r, add_arr a b = Some r -> result_type a b = r.
Proof. intros a b r; destruct a, b; cbn; intro H; congruence. Qed.

Lemma sub_arr_result_type : forall a b r, sub_arr a b = Some r -> result_type a b = r.
Proof. intros a b r; destruct a, b; cbn; intro H; congruence. Qed.

Lemma linear_fixed_dtype : forall d w r,
  (if is_complexfloating d then astype_complex128 d else astype_float64 d) = Some w ->
  mul_add_pyfloat w = Some r ->
  r = (if is_complexfloating d then Complex128 else Float64).
Proof. intros d w r; destruct d; cbn; intro H; injection H as <-; cbn; congruence. Qed.

Lemma zeros_is_float64 : forall d r, zeros_float64 d = Some r -> r = Float64.
Proof. intros d r; destruct d; cbn; congruence. Qed.

Lemma polyval_is_float64 : forall d r, polyval_after_astype d = Some r -> r = Float64.
Proof. intros d r; destruct d; cbn; congruence. Qed.

Lemma interp_is_float64 : forall d r, interp d = Some r -> r = Float64.
Proof. intros d r; destruct d; cbn; congruence. Qed.

Lemma astype_is_float64 : forall d r, astype_float64 d = Some r -> r = Float64.
Proof. intros d r; destruct d; cbn; congruence. Qed.

(* ---- declared = actual --------------------------------------------------------------- *)

Lemma actual_arith_ok : forall sub a b d,
  actual_arith sub a b = Ok d -> d <> XTimedelta64 ->
  a <> XTimedelta64 /\ b <> XTimedelta64 /\ xresult_type a b = Ok d.
Proof.
  intros sub a b d H Hd.
  destruct a as [x| | | | | |], b as [y| | | | | |]; cbn in H; try discriminate.
  - repeat split; try discriminate. cbn. unfold of_table in H.
    destruct sub.
    + destruct (sub_arr x y) as [r|] eqn:E; [|discriminate]. injection H as <-.
      now rewrite (sub_arr_result_type _ _ _ E).
    + destruct (add_arr x y) as [r|] eqn:E; [|discriminate]. injection H as <-.
      now rewrite (add_arr_result_type _ _ _ E).
  - destruct sub; [discriminate|]. injection H as <-. repeat split; discriminate || reflexivity.
  - destruct sub; [|discriminate]. injection H as <-. congruence.
Qed.

Lemma agree_src : forall g k raw_ts scalers fuel s d,
  actual_src true fuel g k raw_ts scalers s = Ok d -> d <> XTimedelta64 ->
  declared_src true fuel g k raw_ts scalers s = Ok d.
Proof.
  intros g k raw_ts scalers. induction fuel as [|fuel IH]; intros s d Ha Hd.
  - destruct s; cbn in *; [|discriminate].
    destruct k; cbn in *; try discriminate; congruence.
  - destruct s as [|z]; cbn [actual_src declared_src] in *.
    + destruct k; cbn in *; try discriminate; congruence.
    + destruct (py_index g z) as [sc|]; [|discriminate].
      destruct sc as [a b s'|cs s'|xs ys s'|l r|l r|s'|id|sk s'].
      * (* Linear *)
        destruct (actual_src true fuel g k raw_ts scalers s') as [x|] eqn:Ei; cbn [bind] in Ha; [|discriminate].
        destruct x as [d0| | | | | |]; cbn in Ha; try discriminate.
        rewrite (IH _ _ Ei) by discriminate. cbn [bind].
        destruct (if is_complexfloating d0 then astype_complex128 d0 else astype_float64 d0) as [w|] eqn:Ew;
          [|discriminate].
        unfold of_table in Ha. destruct (mul_add_pyfloat w) as [r|] eqn:Er; [|discriminate].
        injection Ha as <-. rewrite (linear_fixed_dtype _ _ _ Ew Er). cbn.
        now destruct (is_complexfloating d0).
      * (* Polynomial *)
        destruct (actual_src true fuel g k raw_ts scalers s') as [x|] eqn:Ei; cbn [bind] in Ha; [|discriminate].
        destruct x as [d0| | | | | |]; cbn in Ha; try discriminate. unfold of_table in Ha.
        destruct cs.
        -- destruct (zeros_float64 d0) eqn:E; [|discriminate]. injection Ha as <-.
           now rewrite (zeros_is_float64 _ _ E).
        -- destruct (polyval_after_astype d0) eqn:E; [|discriminate]. injection Ha as <-.
           now rewrite (polyval_is_float64 _ _ E).
      * (* Table *)
        destruct (actual_src true fuel g k raw_ts scalers s') as [x|] eqn:Ei; cbn [bind] in Ha; [|discriminate].
        destruct x as [d0| | | | | |]; cbn in Ha; try discriminate. unfold of_table in Ha.
        destruct (interp d0) eqn:E; [|discriminate]. injection Ha as <-.
        now rewrite (interp_is_float64 _ _ E).
      * (* Add *)
        destruct (actual_src true fuel g k raw_ts scalers l) as [x|] eqn:El; cbn [bind] in Ha; [|discriminate].
        destruct (actual_src true fuel g k raw_ts scalers r) as [y|] eqn:Er; cbn [bind] in Ha; [|discriminate].
        destruct (actual_arith_ok _ _ _ _ Ha Hd) as [Hx [Hy Hr]].
        now rewrite (IH _ _ El Hx), (IH _ _ Er Hy).
      * (* Subtract *)
        destruct (actual_src true fuel g k raw_ts scalers l) as [x|] eqn:El; cbn [bind] in Ha; [|discriminate].
        destruct (actual_src true fuel g k raw_ts scalers r) as [y|] eqn:Er; cbn [bind] in Ha; [|discriminate].
        destruct (actual_arith_ok _ _ _ _ Ha Hd) as [Hx [Hy Hr]].
        now rewrite (IH _ _ El Hx), (IH _ _ Er Hy).
      * (* NoOp *) now apply IH.
      * (* DAQmx scaler *) exact Ha.
      * (* Sensor *)
        destruct (actual_src true fuel g k raw_ts scalers s') as [x|] eqn:Ei; cbn [bind] in Ha; [|discriminate].
        destruct x as [d0| | | | | |]; cbn in Ha; try discriminate. unfold of_table in Ha.
        destruct sk; destruct (astype_float64 d0) eqn:E; try discriminate; injection Ha as <-;
          now rewrite (astype_is_float64 _ _ E).
Qed.

Theorem dtype_agrees_proof : forall g k raw_ts scalers d,
  actual true g k raw_ts scalers = Ok d -> d <> XTimedelta64 ->
  declared true g k raw_ts scalers = Ok d.
Proof. intros. unfold actual, declared in *. now apply agree_src. Qed.

(* numeric raw data (and DAQmx scalers) never produce anything but numeric dtypes *)
Lemma actual_numeric : forall g k raw_ts scalers,
  (exists d0, k = RNum d0) \/ k = RDaqmx ->
  forall fuel s d, actual_src true fuel g k raw_ts scalers s = Ok d -> exists n, d = XNum n.
Proof.
  intros g k raw_ts scalers Hk. induction fuel as [|fuel IH]; intros s d Ha.
  - destruct s; cbn in Ha; [|discriminate].
    destruct Hk as [[d0 ->]| ->]; cbn in Ha; [injection Ha as <-; eauto|discriminate].
  - destruct s as [|z]; cbn [actual_src] in Ha.
    + destruct Hk as [[d0 ->]| ->]; cbn in Ha; [injection Ha as <-; eauto|discriminate].
    + destruct (py_index g z) as [sc|]; [|discriminate].
      destruct sc as [a b s'|cs s'|xs ys s'|l r|l r|s'|id|sk s'].
      * destruct (actual_src true fuel g k raw_ts scalers s') as [x|] eqn:Ei; cbn [bind] in Ha; [|discriminate].
        destruct x as [d0| | | | | |]; cbn in Ha; try discriminate.
        destruct (if is_complexfloating d0 then _ else _); [|discriminate]. unfold of_table in Ha.
        destruct (mul_add_pyfloat d1); [|discriminate]. injection Ha as <-. eauto.
      * destruct (actual_src true fuel g k raw_ts scalers s') as [x|] eqn:Ei; cbn [bind] in Ha; [|discriminate].
        destruct x as [d0| | | | | |]; cbn in Ha; try discriminate. unfold of_table in Ha.
        destruct cs; [destruct (zeros_float64 d0)|destruct (polyval_after_astype d0)]; try discriminate;
          injection Ha as <-; eauto.
      * destruct (actual_src true fuel g k raw_ts scalers s') as [x|] eqn:Ei; cbn [bind] in Ha; [|discriminate].
        destruct x as [d0| | | | | |]; cbn in Ha; try discriminate. unfold of_table in Ha.
        destruct (interp d0); [|discriminate]. injection Ha as <-. eauto.
      * destruct (actual_src true fuel g k raw_ts scalers l) as [x|] eqn:El; cbn [bind] in Ha; [|discriminate].
        destruct (actual_src true fuel g k raw_ts scalers r) as [y|] eqn:Er; cbn [bind] in Ha; [|discriminate].
        destruct (IH _ _ El) as [nx ->]. destruct (IH _ _ Er) as [ny ->]. cbn in Ha. unfold of_table in Ha.
        destruct (add_arr nx ny); [|discriminate]. injection Ha as <-. eauto.
      * destruct (actual_src true fuel g k raw_ts scalers l) as [x|] eqn:El; cbn [bind] in Ha; [|discriminate].
        destruct (actual_src true fuel g k raw_ts scalers r) as [y|] eqn:Er; cbn [bind] in Ha; [|discriminate].
        destruct (IH _ _ El) as [nx ->]. destruct (IH _ _ Er) as [ny ->]. cbn in Ha. unfold of_table in Ha.
        destruct (sub_arr nx ny); [|discriminate]. injection Ha as <-. eauto.
      * eauto.
      * destruct (assoc_nat id scalers); [|discriminate]. injection Ha as <-. eauto.
      * destruct (actual_src true fuel g k raw_ts scalers s') as [x|] eqn:Ei; cbn [bind] in Ha; [|discriminate].
        destruct x as [d0| | | | | |]; cbn in Ha; try discriminate. unfold of_table in Ha.
        destruct sk; destruct (astype_float64 d0); try discriminate; injection Ha as <-; eauto.
Qed.

Theorem dtype_agrees_numeric_proof : forall g d0 raw_ts scalers d,
  actual true g (RNum d0) raw_ts scalers = Ok d -> declared true g (RNum d0) raw_ts scalers = Ok d.
Proof.
  intros g d0 raw_ts scalers d Ha. apply dtype_agrees_proof; [exact Ha|].
  unfold actual in Ha. destruct (actual_numeric g (RNum d0) raw_ts scalers (or_introl (ex_intro _ d0 eq_refl)) _ _ _ Ha)
    as [n ->]. discriminate.
Qed.

Theorem dtype_agrees_daqmx_proof : forall g raw_ts scalers d,
  actual true g RDaqmx raw_ts scalers = Ok d -> declared true g RDaqmx raw_ts scalers = Ok d.
Proof.
  intros g raw_ts scalers d Ha. apply dtype_agrees_proof; [exact Ha|].
  unfold actual in Ha. destruct (actual_numeric g RDaqmx raw_ts scalers (or_intror eq_refl) _ _ _ Ha) as [n ->].
  discriminate.
Qed.

(* for real, non-bool raw data and graphs that only read the raw data through earlier
   scales, the structural scalings never fail at the dtype level: the agreement is not
   vacuous *)
Definition plain_real (d : dtype) : bool :=
  match d with Bool | Complex64 | Complex128 => false | _ => true end.

Lemma result_plain_real : forall a b r, plain_real a = true -> plain_real b = true ->
  (add_arr a b = Some r \/ sub_arr a b = Some r) -> plain_real r = true.
Proof. intros a b r; destruct a, b; cbn; try discriminate; intros _ _ [H|H]; injection H as <-; reflexivity. Qed.

Lemma arith_plain_real_defined : forall a b, plain_real a = true -> plain_real b = true ->
  exists r s, add_arr a b = Some r /\ sub_arr a b = Some s.
Proof. intros a b; destruct a, b; cbn; try discriminate; intros _ _; eauto. Qed.

(* ---- the evaluator's result has the dtype [actual] predicts ---------------------------- *)

Lemma promote_dtype : forall rt v v', promote rt v = Ok v' -> dtype_of v' = rt.
Proof.
  intros rt v v' H.
  destruct rt; destruct v as [xs|k xs|xs|xs]; cbn in H; try discriminate;
    try (destruct (ibits k <=? 16)%Z; try discriminate); injection H as <-; reflexivity.
Qed.

Lemma ikind_eqb_eq : forall a b, ikind_eqb a b = true -> a = b.
Proof. intros a b; destruct a, b; cbn; congruence. Qed.

Lemma np_arith_dtype : forall sub rt a b v, np_arith sub (Some rt) a b = Ok v -> dtype_of v = rt.
Proof.
  intros sub rt a b v H. unfold np_arith in H.
  destruct (promote rt a) as [a'|] eqn:Ea; [|discriminate].
  destruct (promote rt b) as [b'|] eqn:Eb; [|discriminate]. cbn [bind] in H.
  apply promote_dtype in Ea.
  destruct a' as [x|k x|x|x], b' as [y|k' y|y|y]; try discriminate.
  - destruct sub; [discriminate|]. destruct (zip_with orb x y); [|discriminate]. injection H as <-. exact Ea.
  - destruct (ikind_eqb k k'); [|discriminate]. destruct (zip_with _ x y); [|discriminate].
    injection H as <-. exact Ea.
  - destruct (zip_with _ x y); [|discriminate]. injection H as <-. exact Ea.
  - destruct (zip_with _ x y); [|discriminate]. injection H as <-. exact Ea.
Qed.

Lemma value_not_complex : forall v, is_complexfloating (dtype_of v) = false.
Proof. intros [xs|[] xs|xs|xs]; reflexivity. Qed.

Lemma value_linear_dtype : forall v,
  actual_linear true (XNum (dtype_of v)) = Ok (XNum Float64).
Proof. intros [xs|[] xs|xs|xs]; reflexivity. Qed.

Lemma value_poly_dtype : forall cs v, actual_polynomial cs (XNum (dtype_of v)) = Ok (XNum Float64).
Proof. intros cs [xs|[] xs|xs|xs]; destruct cs; reflexivity. Qed.

Lemma value_table_dtype : forall v, actual_table (XNum (dtype_of v)) = Ok (XNum Float64).
Proof. intros [xs|[] xs|xs|xs]; reflexivity. Qed.

Lemma eval_src_dtype : forall g raw raw_ts fuel s v,
  eval_src fuel g raw s = Ok v ->
  actual_src true fuel g (kind_of_raw raw) raw_ts (scaler_dtypes raw) s = Ok (XNum (dtype_of v)).
Proof.
  intros g raw raw_ts. induction fuel as [|fuel IH]; intros s v He.
  - destruct s; cbn in He; [|discriminate]. unfold kind_of_raw. cbn.
    destruct (rdata raw); [|discriminate]. now injection He as <-.
  - destruct s as [|z]; cbn [eval_src actual_src] in *.
    + unfold kind_of_raw. destruct (rdata raw); [|discriminate]. now injection He as <-.
    + destruct (py_index g z) as [sc|]; [|discriminate].
      destruct sc as [a b s'|cs s'|xs ys s'|l r|l r|s'|id|sk s'].
      * destruct (eval_src fuel g raw s') as [vin|] eqn:Ei; cbn [bind] in He; [|discriminate].
        rewrite (IH _ _ Ei). cbn [bind]. rewrite value_linear_dtype.
        unfold scale_linear in He. rewrite value_not_complex in He. now injection He as <-.
      * destruct (eval_src fuel g raw s') as [vin|] eqn:Ei; cbn [bind] in He; [|discriminate].
        rewrite (IH _ _ Ei). cbn [bind]. rewrite value_poly_dtype.
        unfold scale_polynomial in He. destruct (rev cs); now injection He as <-.
      * destruct (eval_src fuel g raw s') as [vin|] eqn:Ei; cbn [bind] in He; [|discriminate].
        rewrite (IH _ _ Ei). cbn [bind]. rewrite value_table_dtype.
        unfold scale_table in He. destruct (negb _); [discriminate|].
        destruct (combine xs ys); [discriminate|]. now injection He as <-.
      * destruct (eval_src fuel g raw l) as [lv|] eqn:El; cbn [bind] in He; [|discriminate].
        destruct (eval_src fuel g raw r) as [rv|] eqn:Er; cbn [bind] in He; [|discriminate].
        rewrite (IH _ _ El), (IH _ _ Er). cbn [bind actual_arith]. unfold scale_add in He.
        destruct (add_arr (dtype_of lv) (dtype_of rv)) as [rt|]; [|discriminate].
        now rewrite (np_arith_dtype _ _ _ _ _ He).
      * destruct (eval_src fuel g raw l) as [lv|] eqn:El; cbn [bind] in He; [|discriminate].
        destruct (eval_src fuel g raw r) as [rv|] eqn:Er; cbn [bind] in He; [|discriminate].
        rewrite (IH _ _ El), (IH _ _ Er). cbn [bind actual_arith]. unfold scale_subtract in He.
        destruct (sub_arr (dtype_of lv) (dtype_of rv)) as [rt|]; [|discriminate].
        now rewrite (np_arith_dtype _ _ _ _ _ He).
      * now apply IH.
      * unfold scaler_dtypes. rewrite assoc_nat_map.
        destruct (assoc_nat id (rscalers raw)); [|discriminate]. now injection He as <-.
      * destruct (eval_src fuel g raw s'); cbn [bind] in He; discriminate.
Qed.

Theorem eval_dtype_proof : forall g raw raw_ts v,
  eval g raw = Ok v ->
  actual true g (kind_of_raw raw) raw_ts (scaler_dtypes raw) = Ok (XNum (dtype_of v)).
Proof. intros. unfold eval, actual in *. now apply eval_src_dtype. Qed.

(* ---- reads ------------------------------------------------------------------------------ *)

Lemma unscaled_returns_raw_dtype : forall k raw_ts d,
  k <> RDaqmx -> returned_raw_dtype k raw_ts = Ok d -> raw_data_dtype true k raw_ts = d.
Proof. intros k raw_ts d Hk H. destruct k, raw_ts; cbn in *; congruence. Qed.

Theorem reads_have_channel_dtype_proof : forall c op d,
  read_dtype true c op = Ok d -> d <> XTimedelta64 -> chan_dtype true c = Ok d.
Proof.
  intros c op d Hr Hd.
  assert (Hs : scaled_dtype true c = Ok d -> chan_dtype true c = Ok d).
  { unfold scaled_dtype, chan_dtype. destruct (cscaling c) as [g|].
    - intro Ha. now apply dtype_agrees_proof.
    - destruct (ckind c), (craw_ts c); cbn; intro Ha; congruence. }
  destruct op as [| | | |has]; cbn in Hr; auto.
  - destruct (has_receiver c); auto.
  - destruct (has_receiver c); auto.
  - destruct (has_receiver c); auto.
  - destruct has; auto.
Qed.

Theorem empty_results_same_dtype_proof : forall c op1 op2 d1 d2,
  read_dtype true c op1 = Ok d1 -> read_dtype true c op2 = Ok d2 ->
  d1 <> XTimedelta64 -> d2 <> XTimedelta64 -> d1 = d2.
Proof.
  intros c op1 op2 d1 d2 H1 H2 N1 N2.
  pose proof (reads_have_channel_dtype_proof _ _ _ H1 N1) as E1.
  pose proof (reads_have_channel_dtype_proof _ _ _ H2 N2) as E2. congruence.
Qed.
