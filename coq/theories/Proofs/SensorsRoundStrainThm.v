(* Proofs/SensorsRoundStrainThm.v -- the rounding theorems of StrainScaling.scale per bridge
   configuration (from the chains of Proofs/SensorsRoundStrain.v) and their composition with the
   inversion theorems of Props/C17.v (Proofs/SensorsProofs.v).

   For a configuration cfg whose real formula is  strain_scale cfg .. V = Some (F (V - init))
   and whose float chain is within eps of F vo whenever voltage_out approximates vo to within
   2.5e-16 vex and |vo| <= kappa vex:
     rounding   vo = FR v - FR init                        (any finite voltage in range)
     inverts    vo = Vm - FR init, Vm = the real measured voltage of strain e, FR v = rnd Vm;
                F vo = e by Props/C17.v, so |float - e| <= eps. *)
From Coq Require Import Reals ZArith List Bool Lra Lia Psatz.
From Coq Require Import PrimFloat.
From Flocq Require Import Core.
From Interval Require Import Tactic.
From NpTdms Require Import Model.SensorsR Model.SensorsF.
From NpTdms Require Import Proofs.SensorsProofs Proofs.HornerRound Proofs.SensorsRoundBase
     Proofs.SensorsRoundScaled Proofs.SensorsRoundStrain.
Open Scope R_scope.
Unset Lia Cache. Unset Nia Cache. Unset Nra Cache.

(* bridge voltage allowed per configuration, as a fraction of the excitation voltage *)
Definition strain_kappa (cfg : Z) : R :=
  if ((cfg =? FULL_BRIDGE_1) || (cfg =? FULL_BRIDGE_2) || (cfg =? FULL_BRIDGE_3))%Z%bool then 0.7
  else if ((cfg =? HALF_BRIDGE_1) || (cfg =? HALF_BRIDGE_2))%Z%bool then 0.35
  else 0.23.

(* the proved bound of |float strain - real formula| per configuration *)
Definition strain_eps (cfg : Z) : R :=
  if (cfg =? FULL_BRIDGE_1)%Z then 7e-16
  else if (cfg =? FULL_BRIDGE_2)%Z then 2.5e-15
  else if (cfg =? FULL_BRIDGE_3)%Z then 4e-14
  else if (cfg =? HALF_BRIDGE_1)%Z then 2.5e-13
  else if (cfg =? HALF_BRIDGE_2)%Z then 5e-15
  else 2.5e-14.

Definition strain_supported (cfg : Z) : Prop :=
  cfg = FULL_BRIDGE_1 \/ cfg = FULL_BRIDGE_2 \/ cfg = FULL_BRIDGE_3 \/ cfg = HALF_BRIDGE_1 \/
  cfg = HALF_BRIDGE_2 \/ cfg = QUARTER_BRIDGE_1 \/ cfg = QUARTER_BRIDGE_2.

Lemma scaled_bound : forall c vex k, Rabs c <= k -> 0 <= vex -> Rabs (c * vex) <= k * vex.
Proof.
  intros c vex k Hc Hv. rewrite Rabs_mult, (Rabs_pos_eq vex) by exact Hv.
  apply Rmult_le_compat_r; assumption.
Qed.

(* ---- generic part --------------------------------------------------------------------------------- *)

Section Generic.
  Variables nu r0 rl init g gain vex : float.
  Variable cfg : Z.
  Variable F : R -> R.
  Variables kappa eps M : R.
  Hypothesis Hfinit : Ffin init.
  Hypothesis Hinit : -0.1 <= FR init <= 0.1.
  Hypothesis Hvex : 1 <= FR vex <= 10.
  Hypothesis Hkappa : 0 <= kappa <= 0.7.
  Hypothesis Hreal : forall V,
    strain_scale cfg (FR nu) (FR r0) (FR rl) (FR init) (FR g) (FR gain) (FR vex) V = Some (F (V - FR init)).
  Hypothesis Hcore : forall v vo,
    snear (strain_voltage_out_F init v) vo (FR vex) 2.5e-16 kappa ->
    exists y, strain_scale_F cfg nu r0 rl init g gain vex v = Some y /\ fnear y (F vo) eps M.

  Lemma strain_generic_rounding : forall v,
    Ffin v -> Rabs (FR v - FR init) <= kappa * FR vex ->
    exists y x,
      strain_scale_F cfg nu r0 rl init g gain vex v = Some y /\
      strain_scale cfg (FR nu) (FR r0) (FR rl) (FR init) (FR g) (FR gain) (FR vex) (FR v) = Some x /\
      Ffin y /\ Rabs (FR y - x) <= eps.
  Proof.
    intros v Hfv Hvo.
    assert (Hvn : snear (strain_voltage_out_F init v) (FR v - FR init) (FR vex) 2.5e-16 kappa).
    { eapply snear_weaken; [apply (strain_vo_near init v (FR vex) kappa); try assumption; lra|lra|lra|lra]. }
    destruct (Hcore v _ Hvn) as [y [Hy [Hf [He _]]]].
    exists y, (F (FR v - FR init)). repeat split; try assumption. apply Hreal.
  Qed.

  Lemma strain_generic_inverts : forall v e Vm,
    Ffin v -> FR v = rnd Vm ->
    Rabs (Vm - FR init) <= kappa * FR vex ->
    strain_scale cfg (FR nu) (FR r0) (FR rl) (FR init) (FR g) (FR gain) (FR vex) Vm = Some e ->
    exists y, strain_scale_F cfg nu r0 rl init g gain vex v = Some y /\ Ffin y /\ Rabs (FR y - e) <= eps.
  Proof.
    intros v e Vm Hfv Hv Hvo Hinv.
    assert (Hvn : snear (strain_voltage_out_F init v) (Vm - FR init) (FR vex) 2.5e-16 kappa)
      by (apply strain_vo_near_rounded; assumption).
    destruct (Hcore v _ Hvn) as [y [Hy [Hf [He _]]]].
    rewrite Hreal in Hinv. injection Hinv as Hinv. rewrite Hinv in He.
    exists y. repeat split; assumption.
  Qed.
End Generic.

(* ---- the configurations ---------------------------------------------------------------------------- *)

Section Configs.
  Variables nu r0 rl init g gain vex : float.
  Hypothesis Hfnu : Ffin nu.
  Hypothesis Hfr0 : Ffin r0.
  Hypothesis Hfrl : Ffin rl.
  Hypothesis Hfinit : Ffin init.
  Hypothesis Hfg : Ffin g.
  Hypothesis Hfgain : Ffin gain.
  Hypothesis Hfvex : Ffin vex.
  Hypothesis Hrg : strain_ranges (FR nu) (FR r0) (FR rl) (FR init) (FR g) (FR gain) (FR vex).

  Let LA := lead_adjustment (FR rl) (FR r0).

  (* real formulas as functions of the bridge voltage *)
  Definition F_fb1 (vo : R) : R := vo * (- FR gain / (FR vex * FR g)).
  Definition F_fb2 (vo : R) : R := vo * (- FR gain * 2 / (FR vex * FR g * (1 + FR nu))).
  Definition F_fb3 (vo : R) : R :=
    vo / (vo * (- (1 / 2) / FR gain * (1 - FR nu) * FR g)
          + - (1 / 2) / FR gain * FR vex * FR g * (1 + FR nu)).
  Definition F_hb1 (vo : R) : R :=
    vo / (vo * (- FR g * FR vex * LA / (4 * FR gain) * 2 * (1 - FR nu) / FR vex)
          + - FR g * FR vex * LA / (4 * FR gain) * (1 + FR nu)).
  Definition F_hb2 (vo : R) : R := vo * (-2 * FR gain / (FR g * FR vex * LA)).
  Definition F_qb (vo : R) : R :=
    (/ (vo * (2 / FR vex) + 1) - 1) * (2 * FR gain / (FR g * LA)).

  Ltac real_formula :=
    intro V; unfold strain_scale; bridge_cbn; rewrite strain_voltage_out_eq; reflexivity.

  Lemma real_fb1 : forall V, strain_scale FULL_BRIDGE_1 (FR nu) (FR r0) (FR rl) (FR init) (FR g) (FR gain) (FR vex) V
                             = Some (F_fb1 (V - FR init)).
  Proof. real_formula. Qed.
  Lemma real_fb2 : forall V, strain_scale FULL_BRIDGE_2 (FR nu) (FR r0) (FR rl) (FR init) (FR g) (FR gain) (FR vex) V
                             = Some (F_fb2 (V - FR init)).
  Proof. real_formula. Qed.
  Lemma real_fb3 : forall V, strain_scale FULL_BRIDGE_3 (FR nu) (FR r0) (FR rl) (FR init) (FR g) (FR gain) (FR vex) V
                             = Some (F_fb3 (V - FR init)).
  Proof. real_formula. Qed.
  Lemma real_hb1 : forall V, strain_scale HALF_BRIDGE_1 (FR nu) (FR r0) (FR rl) (FR init) (FR g) (FR gain) (FR vex) V
                             = Some (F_hb1 (V - FR init)).
  Proof. real_formula. Qed.
  Lemma real_hb2 : forall V, strain_scale HALF_BRIDGE_2 (FR nu) (FR r0) (FR rl) (FR init) (FR g) (FR gain) (FR vex) V
                             = Some (F_hb2 (V - FR init)).
  Proof. real_formula. Qed.
  Lemma real_qb1 : forall V, strain_scale QUARTER_BRIDGE_1 (FR nu) (FR r0) (FR rl) (FR init) (FR g) (FR gain) (FR vex) V
                             = Some (F_qb (V - FR init)).
  Proof. real_formula. Qed.
  Lemma real_qb2 : forall V, strain_scale QUARTER_BRIDGE_2 (FR nu) (FR r0) (FR rl) (FR init) (FR g) (FR gain) (FR vex) V
                             = Some (F_qb (V - FR init)).
  Proof. real_formula. Qed.

  Ltac float_formula :=
    unfold strain_scale_F; bridge_cbn; eexists; split; [reflexivity|].

  Lemma core_fb1 : forall v vo,
    snear (strain_voltage_out_F init v) vo (FR vex) 2.5e-16 0.7 ->
    exists y, strain_scale_F FULL_BRIDGE_1 nu r0 rl init g gain vex v = Some y /\ fnear y (F_fb1 vo) 7e-16 0.875.
  Proof.
    intros v vo Hvn. destruct Hrg as [Hnu [Hr0 [Hrl [Hinit [Hg [Hgain Hvex]]]]]].
    float_formula. apply (strain_fb1_near g gain vex); assumption.
  Qed.
  Lemma core_fb2 : forall v vo,
    snear (strain_voltage_out_F init v) vo (FR vex) 2.5e-16 0.7 ->
    exists y, strain_scale_F FULL_BRIDGE_2 nu r0 rl init g gain vex v = Some y /\ fnear y (F_fb2 vo) 2.5e-15 1.75.
  Proof.
    intros v vo Hvn. destruct Hrg as [Hnu [Hr0 [Hrl [Hinit [Hg [Hgain Hvex]]]]]].
    float_formula. apply (strain_fb2_near nu g gain vex); assumption.
  Qed.
  Lemma core_fb3 : forall v vo,
    snear (strain_voltage_out_F init v) vo (FR vex) 2.5e-16 0.7 ->
    exists y, strain_scale_F FULL_BRIDGE_3 nu r0 rl init g gain vex v = Some y /\ fnear y (F_fb3 vo) 4e-14 5.84.
  Proof.
    intros v vo Hvn. destruct Hrg as [Hnu [Hr0 [Hrl [Hinit [Hg [Hgain Hvex]]]]]].
    float_formula. apply (strain_fb3_near nu r0 rl g gain vex); assumption.
  Qed.
  Lemma core_hb1 : forall v vo,
    snear (strain_voltage_out_F init v) vo (FR vex) 2.5e-16 0.35 ->
    exists y, strain_scale_F HALF_BRIDGE_1 nu r0 rl init g gain vex v = Some y /\ fnear y (F_hb1 vo) 2.5e-13 11.7.
  Proof.
    intros v vo Hvn. destruct Hrg as [Hnu [Hr0 [Hrl [Hinit [Hg [Hgain Hvex]]]]]].
    float_formula. apply (strain_hb1_near nu r0 rl g gain vex); assumption.
  Qed.
  Lemma core_hb2 : forall v vo,
    snear (strain_voltage_out_F init v) vo (FR vex) 2.5e-16 0.35 ->
    exists y, strain_scale_F HALF_BRIDGE_2 nu r0 rl init g gain vex v = Some y /\ fnear y (F_hb2 vo) 5e-15 1.75.
  Proof.
    intros v vo Hvn. destruct Hrg as [Hnu [Hr0 [Hrl [Hinit [Hg [Hgain Hvex]]]]]].
    float_formula. apply (strain_hb2_near r0 rl g gain vex); assumption.
  Qed.
  Lemma core_qb1 : forall v vo,
    snear (strain_voltage_out_F init v) vo (FR vex) 2.5e-16 0.23 ->
    exists y, strain_scale_F QUARTER_BRIDGE_1 nu r0 rl init g gain vex v = Some y /\ fnear y (F_qb vo) 2.5e-14 4.3.
  Proof.
    intros v vo Hvn. destruct Hrg as [Hnu [Hr0 [Hrl [Hinit [Hg [Hgain Hvex]]]]]].
    float_formula. apply (strain_qb_near r0 rl g gain vex); assumption.
  Qed.
  Lemma core_qb2 : forall v vo,
    snear (strain_voltage_out_F init v) vo (FR vex) 2.5e-16 0.23 ->
    exists y, strain_scale_F QUARTER_BRIDGE_2 nu r0 rl init g gain vex v = Some y /\ fnear y (F_qb vo) 2.5e-14 4.3.
  Proof.
    intros v vo Hvn. destruct Hrg as [Hnu [Hr0 [Hrl [Hinit [Hg [Hgain Hvex]]]]]].
    float_formula. apply (strain_qb_near r0 rl g gain vex); assumption.
  Qed.
End Configs.

(* ---- rounding, all configurations ------------------------------------------------------------------- *)

Ltac kappa_eps := unfold strain_kappa, strain_eps; bridge_cbn.

Theorem strain_rounding_all : forall (cfg : Z) (nu r0 rl init g gain vex v : float),
  strain_supported cfg ->
  Ffin nu -> Ffin r0 -> Ffin rl -> Ffin init -> Ffin g -> Ffin gain -> Ffin vex -> Ffin v ->
  strain_ranges (FR nu) (FR r0) (FR rl) (FR init) (FR g) (FR gain) (FR vex) ->
  Rabs (FR v - FR init) <= strain_kappa cfg * FR vex ->
  exists y x,
    strain_scale_F cfg nu r0 rl init g gain vex v = Some y /\
    strain_scale cfg (FR nu) (FR r0) (FR rl) (FR init) (FR g) (FR gain) (FR vex) (FR v) = Some x /\
    Ffin y /\ Rabs (FR y - x) <= strain_eps cfg.
Proof.
  intros cfg nu r0 rl init g gain vex v Hsup Hfnu Hfr0 Hfrl Hfinit Hfg Hfgain Hfvex Hfv Hrg.
  pose proof Hrg as [Hnu [Hr0 [Hrl [Hinit [Hg [Hgain Hvex]]]]]].
  destruct Hsup as [->|[->|[->|[->|[->|[->| ->]]]]]]; kappa_eps; intros Hvo.
  - eapply (strain_generic_rounding nu r0 rl init g gain vex _ _ 0.7 7e-16 0.875); try eassumption; try lra.
    + apply real_fb1.
    + apply core_fb1; assumption.
  - eapply (strain_generic_rounding nu r0 rl init g gain vex _ _ 0.7 2.5e-15 1.75); try eassumption; try lra.
    + apply real_fb2.
    + apply core_fb2; assumption.
  - eapply (strain_generic_rounding nu r0 rl init g gain vex _ _ 0.7 4e-14 5.84); try eassumption; try lra.
    + apply real_fb3.
    + apply core_fb3; assumption.
  - eapply (strain_generic_rounding nu r0 rl init g gain vex _ _ 0.35 2.5e-13 11.7); try eassumption; try lra.
    + apply real_hb1.
    + apply core_hb1; assumption.
  - eapply (strain_generic_rounding nu r0 rl init g gain vex _ _ 0.35 5e-15 1.75); try eassumption; try lra.
    + apply real_hb2.
    + apply core_hb2; assumption.
  - eapply (strain_generic_rounding nu r0 rl init g gain vex _ _ 0.23 2.5e-14 4.3); try eassumption; try lra.
    + apply real_qb1.
    + apply core_qb1; assumption.
  - eapply (strain_generic_rounding nu r0 rl init g gain vex _ _ 0.23 2.5e-14 4.3); try eassumption; try lra.
    + apply real_qb2.
    + apply core_qb2; assumption.
Qed.

(* ---- the bridge voltage of a strain |e| <= 0.1 is within kappa vex ----------------------------------- *)

Section BridgeVoltage.
  Variables nu r0 rl init g gain vex e : R.
  Hypothesis Hrg : strain_ranges nu r0 rl init g gain vex.
  Hypothesis He : -0.1 <= e <= 0.1.

  Let x := e / gain.
  Let la := r0 / (r0 + rl).
  Let z := x * (g * la).

  Lemma bridge_facts :
    -0.125 <= x <= 0.125 /\ 0 < la <= 1 /\ -0.625 <= x * g <= 0.625 /\ -0.625 <= z <= 0.625.
  Proof.
    destruct Hrg as [Hnu [Hr0 [Hrl [Hinit [Hg [Hgain Hvex]]]]]].
    assert (Hx : -0.125 <= x <= 0.125) by (unfold x; apply Rdiv_between; lra).
    assert (Hla : 0 < la <= 1).
    { unfold la. split; [apply Rdiv_lt_0_compat; lra|].
      apply (Rdiv_between r0 (r0 + rl) 0 1); lra. }
    assert (Hla' : 0 <= la <= 1) by lra.
    assert (Hxg : Rabs (x * g) <= 0.125 * 5) by (apply Rabs_mul_le; apply Rabs_le; lra).
    assert (Hgl : Rabs (g * la) <= 5 * 1) by (apply Rabs_mul_le; apply Rabs_le; lra).
    assert (Hz : Rabs (x * (g * la)) <= 0.125 * (5 * 1)) by (apply Rabs_mul_le; [apply Rabs_le; lra|exact Hgl]).
    apply Rabs_le_inv in Hxg. apply Rabs_le_inv in Hz.
    split; [exact Hx|]. split; [exact Hla|]. unfold z. split; lra.
  Qed.

  Ltac start Hm :=
    unfold strain_measured_voltage, bridge_output in Hm; bridge_cbn_in Hm;
    injection Hm as Hm; fold x in Hm.

  Lemma bridge_voltage_fb1 : forall Vm,
    strain_measured_voltage FULL_BRIDGE_1 nu r0 rl init g gain vex e = Some Vm ->
    Rabs (Vm - init) <= 0.7 * vex.
  Proof.
    intros Vm Hm. pose proof bridge_facts as [Hx [Hla [Hxg Hz]]].
    destruct Hrg as [Hnu [Hr0 [Hrl [Hinit [Hg [Hgain Hvex]]]]]].
    start Hm. rewrite wheatstone_full_bridge_1 in Hm by lra. subst Vm.
    replace (init + - x * g * vex - init) with ((- (x * g)) * vex) by ring.
    apply scaled_bound; [apply Rabs_le; lra|lra].
  Qed.

  Lemma bridge_voltage_fb2 : forall Vm,
    strain_measured_voltage FULL_BRIDGE_2 nu r0 rl init g gain vex e = Some Vm ->
    Rabs (Vm - init) <= 0.7 * vex.
  Proof.
    intros Vm Hm. pose proof bridge_facts as [Hx [Hla [Hxg Hz]]].
    destruct Hrg as [Hnu [Hr0 [Hrl [Hinit [Hg [Hgain Hvex]]]]]].
    start Hm. rewrite wheatstone_full_bridge_2 in Hm by lra. subst Vm.
    replace (init + - (1 / 2) * x * g * vex * (1 + nu) - init)
      with ((- (1 / 2) * (x * g) * (1 + nu)) * vex) by ring.
    apply scaled_bound; [|lra]. set (xg := x * g) in *. interval.
  Qed.

  Lemma bridge_voltage_fb3 : forall Vm,
    strain_measured_voltage FULL_BRIDGE_3 nu r0 rl init g gain vex e = Some Vm ->
    Rabs (Vm - init) <= 0.7 * vex.
  Proof.
    intros Vm Hm. pose proof bridge_facts as [Hx [Hla [Hxg Hz]]].
    destruct Hrg as [Hnu [Hr0 [Hrl [Hinit [Hg [Hgain Hvex]]]]]].
    start Hm.
    assert (HD : 1.37 <= 2 + x * g * (1 - nu)) by (set (xg := x * g) in *; interval).
    rewrite wheatstone_full_bridge_3 in Hm by lra. subst Vm.
    replace (init + - x * g * (1 + nu) * vex / (2 + x * g * (1 - nu)) - init)
      with ((- (x * g) * (1 + nu) / (2 + x * g * (1 - nu))) * vex) by (field; lra).
    apply scaled_bound; [|lra]. set (xg := x * g) in *. interval.
  Qed.

  Lemma bridge_voltage_hb1 : forall Vm,
    strain_measured_voltage HALF_BRIDGE_1 nu r0 rl init g gain vex e = Some Vm ->
    Rabs (Vm - init) <= 0.35 * vex.
  Proof.
    intros Vm Hm. pose proof bridge_facts as [Hx [Hla [Hxg Hz]]].
    destruct Hrg as [Hnu [Hr0 [Hrl [Hinit [Hg [Hgain Hvex]]]]]].
    start Hm. fold la in Hm.
    assert (HD : 1.37 <= 2 + z * (1 - nu)) by interval.
    rewrite wheatstone_half_bridge_1 in Hm; [|lra|lra|fold la; fold z; lra]. subst Vm.
    fold la. fold z.
    replace (x * nu * (g * la)) with (z * nu) by (unfold z; ring).
    replace (init + ((1 - z * nu) / (2 + z - z * nu) - 1 / 2) * vex - init)
      with ((- z * (1 + nu) / (2 * (2 + z * (1 - nu)))) * vex) by (field; lra).
    apply scaled_bound; [|lra]. interval.
  Qed.

  Lemma bridge_voltage_hb2 : forall Vm,
    strain_measured_voltage HALF_BRIDGE_2 nu r0 rl init g gain vex e = Some Vm ->
    Rabs (Vm - init) <= 0.35 * vex.
  Proof.
    intros Vm Hm. pose proof bridge_facts as [Hx [Hla [Hxg Hz]]].
    destruct Hrg as [Hnu [Hr0 [Hrl [Hinit [Hg [Hgain Hvex]]]]]].
    start Hm. rewrite wheatstone_half_bridge_2 in Hm by lra. subst Vm. fold la.
    replace (init + - x * (g * la) * vex / 2 - init) with ((- z / 2) * vex) by (unfold z; field).
    apply scaled_bound; [|lra]. interval.
  Qed.

  Lemma bridge_voltage_qb : forall cfg Vm,
    cfg = QUARTER_BRIDGE_1 \/ cfg = QUARTER_BRIDGE_2 ->
    strain_measured_voltage cfg nu r0 rl init g gain vex e = Some Vm ->
    Rabs (Vm - init) <= 0.23 * vex.
  Proof.
    intros cfg Vm Hc Hm. pose proof bridge_facts as [Hx [Hla [Hxg Hz]]].
    destruct Hrg as [Hnu [Hr0 [Hrl [Hinit [Hg [Hgain Hvex]]]]]].
    assert (HD : 1.375 <= 2 + z) by lra.
    destruct Hc as [-> | ->]; start Hm;
      (rewrite wheatstone_quarter_bridge in Hm; [|lra|lra|fold la; fold z; lra]); subst Vm;
      fold la; fold z;
      (replace (init + (1 / (2 + z) - 1 / 2) * vex - init) with ((1 / (2 + z) - 1 / 2) * vex) by ring);
      (apply scaled_bound; [|lra]); interval.
  Qed.

  (* the non-degeneracy conditions of the inversion theorems of Props/C17.v *)
  Lemma bridge_nondeg :
    0 < 2 + e / gain * g * (1 - nu) /\
    0 < 2 + e / gain * (g * (r0 / (r0 + rl))) * (1 - nu) /\
    0 < 2 + e / gain * (g * (r0 / (r0 + rl))).
  Proof.
    pose proof bridge_facts as [Hx [Hla [Hxg Hz]]].
    destruct Hrg as [Hnu [Hr0 [Hrl [Hinit [Hg [Hgain Hvex]]]]]].
    fold x. fold la. fold z.
    assert (H1 : 1.37 <= 2 + x * g * (1 - nu)) by (set (xg := x * g) in *; interval).
    assert (H2 : 1.37 <= 2 + z * (1 - nu)) by interval.
    repeat split; lra.
  Qed.
End BridgeVoltage.

(* ---- composition with Props/C17.v, all configurations ------------------------------------------------- *)

Theorem strain_float_inverts_sharp_all :
  forall (cfg : Z) (nu r0 rl init g gain vex v : float) (e Vm : R),
  strain_supported cfg ->
  Ffin nu -> Ffin r0 -> Ffin rl -> Ffin init -> Ffin g -> Ffin gain -> Ffin vex -> Ffin v ->
  strain_ranges (FR nu) (FR r0) (FR rl) (FR init) (FR g) (FR gain) (FR vex) ->
  -0.1 <= e <= 0.1 ->
  strain_measured_voltage cfg (FR nu) (FR r0) (FR rl) (FR init) (FR g) (FR gain) (FR vex) e = Some Vm ->
  FR v = rnd Vm ->
  exists y, strain_scale_F cfg nu r0 rl init g gain vex v = Some y /\ Ffin y /\
            Rabs (FR y - e) <= strain_eps cfg.
Proof.
  intros cfg nu r0 rl init g gain vex v e Vm Hsup Hfnu Hfr0 Hfrl Hfinit Hfg Hfgain Hfvex Hfv Hrg He Hm Hv.
  pose proof Hrg as [Hnu [Hr0 [Hrl [Hinit [Hg [Hgain Hvex]]]]]].
  pose proof (bridge_nondeg _ _ _ _ _ _ _ e Hrg He) as [Hn1 [Hn2 Hn3]].
  destruct Hsup as [->|[->|[->|[->|[->|[->| ->]]]]]]; kappa_eps.
  - eapply (strain_generic_inverts nu r0 rl init g gain vex _ _ 0.7 7e-16 0.875); try eassumption; try lra.
    + apply real_fb1.
    + apply core_fb1; assumption.
    + exact (bridge_voltage_fb1 _ _ _ _ _ _ _ e Hrg He Vm Hm).
    + apply strain_full_bridge_1_inverts; try lra. exact Hm.
  - eapply (strain_generic_inverts nu r0 rl init g gain vex _ _ 0.7 2.5e-15 1.75); try eassumption; try lra.
    + apply real_fb2.
    + apply core_fb2; assumption.
    + exact (bridge_voltage_fb2 _ _ _ _ _ _ _ e Hrg He Vm Hm).
    + apply strain_full_bridge_2_inverts; try lra. exact Hm.
  - eapply (strain_generic_inverts nu r0 rl init g gain vex _ _ 0.7 4e-14 5.84); try eassumption; try lra.
    + apply real_fb3.
    + apply core_fb3; assumption.
    + exact (bridge_voltage_fb3 _ _ _ _ _ _ _ e Hrg He Vm Hm).
    + apply strain_full_bridge_3_inverts; try lra. exact Hm.
  - eapply (strain_generic_inverts nu r0 rl init g gain vex _ _ 0.35 2.5e-13 11.7); try eassumption; try lra.
    + apply real_hb1.
    + apply core_hb1; assumption.
    + exact (bridge_voltage_hb1 _ _ _ _ _ _ _ e Hrg He Vm Hm).
    + apply strain_half_bridge_1_inverts; try lra. exact Hm.
  - eapply (strain_generic_inverts nu r0 rl init g gain vex _ _ 0.35 5e-15 1.75); try eassumption; try lra.
    + apply real_hb2.
    + apply core_hb2; assumption.
    + exact (bridge_voltage_hb2 _ _ _ _ _ _ _ e Hrg He Vm Hm).
    + apply strain_half_bridge_2_inverts; try lra. exact Hm.
  - eapply (strain_generic_inverts nu r0 rl init g gain vex _ _ 0.23 2.5e-14 4.3); try eassumption; try lra.
    + apply real_qb1.
    + apply core_qb1; assumption.
    + exact (bridge_voltage_qb _ _ _ _ _ _ _ e Hrg He _ Vm (or_introl eq_refl) Hm).
    + apply strain_quarter_bridge_1_inverts; try lra. exact Hm.
  - eapply (strain_generic_inverts nu r0 rl init g gain vex _ _ 0.23 2.5e-14 4.3); try eassumption; try lra.
    + apply real_qb2.
    + apply core_qb2; assumption.
    + exact (bridge_voltage_qb _ _ _ _ _ _ _ e Hrg He _ Vm (or_intror eq_refl) Hm).
    + apply strain_quarter_bridge_2_inverts; try lra. exact Hm.
Qed.

Lemma strain_eps_small : forall cfg, strain_eps cfg <= 2.5e-13.
Proof.
  intros cfg. unfold strain_eps.
  repeat match goal with |- context [if ?b then _ else _] => destruct b end; lra.
Qed.

(* the property's tolerance *)
Theorem strain_float_inverts_all :
  forall (cfg : Z) (nu r0 rl init g gain vex v : float) (e Vm : R),
  strain_supported cfg ->
  Ffin nu -> Ffin r0 -> Ffin rl -> Ffin init -> Ffin g -> Ffin gain -> Ffin vex -> Ffin v ->
  strain_ranges (FR nu) (FR r0) (FR rl) (FR init) (FR g) (FR gain) (FR vex) ->
  -0.1 <= e <= 0.1 ->
  strain_measured_voltage cfg (FR nu) (FR r0) (FR rl) (FR init) (FR g) (FR gain) (FR vex) e = Some Vm ->
  FR v = rnd Vm ->
  exists y, strain_scale_F cfg nu r0 rl init g gain vex v = Some y /\ Ffin y /\
            Rabs (FR y - e) <= 1e-6 * Rabs e + 1e-12.
Proof.
  intros cfg nu r0 rl init g gain vex v e Vm Hsup Hfnu Hfr0 Hfrl Hfinit Hfg Hfgain Hfvex Hfv Hrg He Hm Hv.
  destruct (strain_float_inverts_sharp_all cfg nu r0 rl init g gain vex v e Vm Hsup Hfnu Hfr0 Hfrl Hfinit
              Hfg Hfgain Hfvex Hfv Hrg He Hm Hv) as [y [Hy [Hf Hb]]].
  exists y. repeat split; try assumption.
  pose proof (strain_eps_small cfg). pose proof (Rabs_pos e). lra.
Qed.

(* the constants, spelled out *)
Lemma strain_constants :
  (strain_kappa FULL_BRIDGE_1 = 0.7 /\ strain_kappa FULL_BRIDGE_2 = 0.7 /\ strain_kappa FULL_BRIDGE_3 = 0.7 /\
   strain_kappa HALF_BRIDGE_1 = 0.35 /\ strain_kappa HALF_BRIDGE_2 = 0.35 /\
   strain_kappa QUARTER_BRIDGE_1 = 0.23 /\ strain_kappa QUARTER_BRIDGE_2 = 0.23) /\
  (strain_eps FULL_BRIDGE_1 = 7e-16 /\ strain_eps FULL_BRIDGE_2 = 2.5e-15 /\ strain_eps FULL_BRIDGE_3 = 4e-14 /\
   strain_eps HALF_BRIDGE_1 = 2.5e-13 /\ strain_eps HALF_BRIDGE_2 = 5e-15 /\
   strain_eps QUARTER_BRIDGE_1 = 2.5e-14 /\ strain_eps QUARTER_BRIDGE_2 = 2.5e-14).
Proof. repeat split; reflexivity. Qed.
