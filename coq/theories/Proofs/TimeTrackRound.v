(* Proofs/TimeTrackRound.v -- rounding error of TdmsChannel.time_track() in binary64
   (Model/TimeTrackF.v: NumPy's linspace on two float64 scalars, the caller's stop, the
   truncating cast of the absolute form), against offset + i * increment over the reals.

   Vocabulary and per-operation error model are those of Proofs/HornerRound.v:
   FR x = B2R (Prim2B x), Ffin, u64 = 2^-53, eta64 = 2^-1075, ovf64 = 2^1024,
   |rnd z - z| <= u64 |z| + eta64 (Flocq, error_N_FLT), overflow excluded through
   Bplus_correct / Bminus_correct / Bmult_correct / Bdiv_correct.

   With o = offset, c = increment, m = n - 1 (exact in binary64 for n <= 2^53), 0 <= i <= m,
   the six roundings of a point are
       p = fl(m c)   s = fl(o + p)   d = fl(s - o)   st = fl(d / m)   q = fl(i st)   y = fl(q + o)
   (when st == 0, NumPy computes q = fl(fl(i / m) d) instead), with rounding errors r1..r6:
       y - (o + i c) = r6 + r5 + i r4 + (i/m) (r1 + r2 + r3),
   linear in the r's; i/m <= 1 keeps n out of the relative part.  Bounding |r_k| by u64 times
   the magnitude of the rounded quantity gives, with A = |o|, B = m |c|,
       |y - (o + i c)| <= (1 + 3 u64) (u64 (2 A + 6 B) + (i + 6) eta64)          (tt_eps)
   and for the last point, which NumPy overwrites with the caller's stop s,
       |s - (o + m c)| <= (1 + u64) (u64 (A + 2 B) + 2 eta64)                    (tt_eps_stop).
   No-overflow hypothesis: A + B <= 2^1023. *)
From Coq Require Import Reals ZArith List Bool Lra Lia.
From Coq Require Import PrimFloat Uint63.
From Flocq Require Import Core BinarySingleNaN Relative.
From Flocq Require IEEE754.PrimFloat.
From Interval Require Import Tactic.
From NpTdms Require Import Model.Timestamp Model.TimeTrackF Proofs.TimestampProofs Proofs.HornerRound.
Import ListNotations.
Open Scope R_scope.

(* ---- float operations not in HornerRound.v: subtraction, division, int -> float, == 0 ------------ *)

Lemma sub_ok : forall a b, Ffin a -> Ffin b ->
  Rabs (rnd (FR a - FR b)) < ovf64 ->
  Ffin (a - b)%float /\ FR (a - b)%float = rnd (FR a - FR b).
Proof.
  intros a b Ha Hb Hov. unfold Ffin, FR in *. rewrite FP.sub_equiv.
  pose proof (Bminus_correct _ _ FP.Hprec FP.Hmax mode_NE (FP.Prim2B a) (FP.Prim2B b) Ha Hb) as H.
  rewrite ovf64_bpow in Hov. unfold rnd in Hov. change 1024%Z with FloatOps.emax in Hov.
  rewrite (Rlt_bool_true _ _ Hov) in H. destruct H as [H1 [H2 _]].
  split; [exact H2|exact H1].
Qed.

Lemma div_ok : forall a b, Ffin a -> Ffin b -> FR b <> 0 ->
  Rabs (rnd (FR a / FR b)) < ovf64 ->
  Ffin (a / b)%float /\ FR (a / b)%float = rnd (FR a / FR b).
Proof.
  intros a b Ha Hb Hnz Hov. unfold Ffin, FR in *. rewrite FP.div_equiv.
  pose proof (Bdiv_correct _ _ FP.Hprec FP.Hmax mode_NE (FP.Prim2B a) (FP.Prim2B b) Hnz) as H.
  rewrite ovf64_bpow in Hov. unfold rnd in Hov. change 1024%Z with FloatOps.emax in Hov.
  rewrite (Rlt_bool_true _ _ Hov) in H. destruct H as [H1 [H2 _]].
  split; [rewrite H2; exact Ha|exact H1].
Qed.

Lemma rnd_IZR : forall z, (Z.abs z < 2 ^ 53)%Z -> rnd (IZR z) = IZR z.
Proof.
  intros z Hz. unfold rnd. apply round_generic; [apply valid_rnd_round_mode|].
  change (SpecFloat.fexp FloatOps.prec FloatOps.emax) with (FLT_exp (-1074) 53).
  apply generic_format_FLT. apply (FLT_spec _ _ _ _ (Float radix2 z 0)).
  - unfold F2R. simpl. ring.
  - simpl. exact Hz.
  - simpl. lia.
Qed.

Lemma Z2f_ok : forall z, (0 <= z < 2 ^ 53)%Z -> Ffin (Z2f z) /\ FR (Z2f z) = IZR z.
Proof.
  intros z Hz. unfold Z2f, Ffin, FR.
  rewrite FP.of_int63_equiv.
  assert (Hto : Uint63.to_Z (Uint63.of_Z z) = z).
  { rewrite Uint63.of_Z_spec. apply Z.mod_small. change wB with (2 ^ 63)%Z. lia. }
  rewrite Hto.
  pose proof (binary_normalize_correct _ _ FP.Hprec FP.Hmax mode_NE z 0 false) as H.
  cbv zeta in H.
  assert (Hx : F2R (Float radix2 z 0) = IZR z) by (unfold F2R; simpl; ring).
  rewrite Hx in H.
  assert (Hr : round radix2 (SpecFloat.fexp FloatOps.prec FloatOps.emax) (round_mode mode_NE) (IZR z) = IZR z).
  { apply (rnd_IZR z). lia. }
  rewrite Hr in H.
  rewrite Rlt_bool_true in H.
  - destruct H as [H1 [H2 _]]. split; assumption.
  - rewrite <- abs_IZR. change (bpow radix2 FloatOps.emax) with (IZR (2 ^ 1024)).
    apply IZR_lt. assert (2 ^ 53 < 2 ^ 1024)%Z by (apply Z.pow_lt_mono_r; lia). lia.
Qed.

Lemma eqb_zero_true : forall x, Ffin x -> (x =? 0)%float = true -> FR x = 0.
Proof.
  intros x Hx H. rewrite FP.eqb_equiv in H.
  rewrite (Beqb_correct _ _ _ _ Hx Ffin_zero) in H. fold (FR x) in H. fold (FR 0%float) in H.
  rewrite FR_zero in H. destruct (Req_bool_spec (FR x) 0); [assumption|discriminate].
Qed.
Lemma eqb_zero_false : forall x, Ffin x -> (x =? 0)%float = false -> FR x <> 0.
Proof.
  intros x Hx H. rewrite FP.eqb_equiv in H.
  rewrite (Beqb_correct _ _ _ _ Hx Ffin_zero) in H. fold (FR x) in H. fold (FR 0%float) in H.
  rewrite FR_zero in H. destruct (Req_bool_spec (FR x) 0); [discriminate|assumption].
Qed.
(* ---- the error bounds and the chain of six roundings over R ---------------------------------- *)

(* A = |offset|, B = (n-1) |increment|, ii = index *)
Definition tt_eps (A B ii : R) : R :=
  (1 + 3 * u64) * (u64 * (2 * A + 6 * B) + (ii + 6) * eta64).
Definition tt_eps_stop (A B : R) : R :=
  (1 + u64) * (u64 * (A + 2 * B) + 2 * eta64).

Lemma u64_val : u64 = / 9007199254740992.
Proof. unfold u64, Q2R. simpl. lra. Qed.

Lemma scale_le : forall k x X, 0 <= k <= 1 -> - X <= x <= X -> - X <= k * x <= X.
Proof. intros k x X Hk Hx. split; nra. Qed.

Lemma rnd_err_le : forall z Z, Rabs z <= Z -> - (u64 * Z + eta64) <= rnd z - z <= u64 * Z + eta64.
Proof.
  intros z Z Hz. apply Rabs_le_inv. apply Rle_trans with (1 := rnd_error z).
  pose proof u64_pos. apply Rplus_le_compat_r. apply Rmult_le_compat_l; lra.
Qed.

(* the chain of six roundings *)
Lemma tt_chain : forall o c m ii p s d z5 q y V,
  1 <= m -> 0 <= ii <= m ->
  p = rnd (m * c) -> s = rnd (o + p) -> d = rnd (s - o) ->
  Rabs (z5 - ii / m * d) <= u64 * Rabs d + ii * eta64 + eta64 ->
  q = rnd z5 -> y = rnd (q + o) ->
  ii * eta64 <= 1 -> eta64 <= 1 ->
  Rabs o + m * Rabs c <= V / 2 -> 64 <= V ->
  Rabs (y - (o + ii * c)) <= tt_eps (Rabs o) (m * Rabs c) ii /\
  Rabs (s - (o + m * c)) <= tt_eps_stop (Rabs o) (m * Rabs c) /\
  Rabs p < V /\ Rabs s < V /\ Rabs d < V /\ Rabs d * (1 + u64) + eta64 < V /\
  Rabs z5 * (1 + u64) + eta64 < V /\ Rabs y < V.
Proof.
  intros o c m ii p s d z5 q y V Hm Hii Hp Hs Hd Hz5 Hq Hy HIE HE HV HV64.
  set (A := Rabs o) in *. set (B := m * Rabs c) in *.
  pose proof eta64_pos as HE0.
  assert (HA0 : 0 <= A) by apply Rabs_pos.
  assert (HB0 : 0 <= B) by (apply Rmult_le_pos; [lra|apply Rabs_pos]).
  assert (Ho : - A <= o <= A) by (apply Rabs_le_inv; apply Rle_refl).
  assert (Hmc : Rabs (m * c) <= B).
  { rewrite Rabs_mult, (Rabs_pos_eq m) by lra. apply Rle_refl. }
  assert (Hmc' : - B <= m * c <= B) by (apply Rabs_le_inv; exact Hmc).
  pose proof (rnd_err_le _ _ Hmc) as H1. rewrite <- Hp in H1.
  set (X1 := u64 * B + eta64) in *.
  assert (Hz2 : Rabs (o + p) <= A + B + X1) by (apply Rabs_le; lra).
  pose proof (rnd_err_le _ _ Hz2) as H2. rewrite <- Hs in H2.
  set (X2 := u64 * (A + B + X1) + eta64) in *.
  assert (Hz3 : Rabs (s - o) <= B + X1 + X2) by (apply Rabs_le; lra).
  pose proof (rnd_err_le _ _ Hz3) as H3. rewrite <- Hd in H3.
  set (X3 := u64 * (B + X1 + X2) + eta64) in *.
  set (D := B + X1 + X2 + X3).
  assert (HdD : Rabs d <= D) by (apply Rabs_le; unfold D; lra).
  assert (HdD' : - D <= d <= D) by (apply Rabs_le_inv; exact HdD).
  assert (Hk : 0 <= ii / m <= 1).
  { split; [apply Rmult_le_pos; [lra|apply Rlt_le, Rinv_0_lt_compat; lra]|].
    apply Rmult_le_reg_r with m; [lra|]. unfold Rdiv. rewrite Rmult_assoc, Rinv_l by lra. lra. }
  pose proof u64_pos as Hu0.
  set (X4 := u64 * D + ii * eta64 + eta64).
  assert (H4 : - X4 <= z5 - ii / m * d <= X4).
  { apply Rabs_le_inv. apply Rle_trans with (1 := Hz5). unfold X4.
    assert (u64 * Rabs d <= u64 * D) by (apply Rmult_le_compat_l; lra). lra. }
  pose proof (scale_le _ _ _ Hk HdD') as Hkd.
  assert (Hz5' : Rabs z5 <= D + X4) by (apply Rabs_le; lra).
  pose proof (rnd_err_le _ _ Hz5') as H5. rewrite <- Hq in H5.
  set (X5 := u64 * (D + X4) + eta64) in *.
  assert (Hz6 : Rabs (q + o) <= A + (D + X4) + X5).
  { apply Rabs_le_inv in Hz5'. apply Rabs_le; lra. }
  pose proof (rnd_err_le _ _ Hz6) as H6. rewrite <- Hy in H6.
  set (X6 := u64 * (A + (D + X4) + X5) + eta64) in *.
  (* the error *)
  assert (Hr123 : - (X1 + X2 + X3) <= (p - m * c) + (s - (o + p)) + (d - (s - o)) <= X1 + X2 + X3) by lra.
  pose proof (scale_le _ _ _ Hk Hr123) as Hk123.
  assert (Hid : y - (o + ii * c)
                = (y - (q + o)) + (q - z5) + (z5 - ii / m * d)
                  + ii / m * ((p - m * c) + (s - (o + p)) + (d - (s - o)))).
  { field. lra. }
  assert (Hpos : 0 <= ii * eta64) by (apply Rmult_le_pos; lra).
  unfold tt_eps, tt_eps_stop.
  subst X6 X5 X4 D X3 X2 X1.
  rewrite u64_val in *.
  pose proof Hz5' as Hz5a. apply Rabs_le_inv in Hz5'.
  repeat split.
  - apply Rabs_le. rewrite Hid. lra.
  - apply Rabs_le. lra.
  - apply Rabs_lt. lra.
  - apply Rabs_lt. lra.
  - apply Rabs_lt. lra.
  - lra.
  - lra.
  - apply Rabs_lt. lra.
Qed.

Lemma eta64_le : eta64 <= / 1024.
Proof. unfold eta64. interval. Qed.
Lemma ovf64_ge : 64 <= ovf64.
Proof. unfold ovf64. interval. Qed.
Lemma m_eta : forall M, 0 <= M <= 9007199254740992 -> M * eta64 <= / 4.
Proof.
  intros M HM. apply Rle_trans with (9007199254740992 * eta64).
  - apply Rmult_le_compat_r; [apply Rlt_le, eta64_pos|lra].
  - unfold eta64. interval.
Qed.

(* ---- the computation over R: rnd after every operation --------------------------------------- *)

Definition ttR_stop (O C M : R) : R := rnd (O + rnd (M * C)).
Definition ttR_delta (O C M : R) : R := rnd (ttR_stop O C M - O).
Definition ttR_step (O C M : R) : R := rnd (ttR_delta O C M / M).
Definition ttR_prod (O C M II : R) : R :=
  if Req_bool (ttR_step O C M) 0 then rnd (II / M) * ttR_delta O C M
  else II * ttR_step O C M.
Definition ttR (O C M II : R) (last : bool) : R :=
  if last then ttR_stop O C M else rnd (rnd (ttR_prod O C M II) + O).

Lemma ttR_facts : forall O C M II,
  1 <= M <= 9007199254740992 -> 0 <= II <= M ->
  Rabs O + M * Rabs C <= ovf64 / 2 ->
  let d := ttR_delta O C M in
  let z5 := ttR_prod O C M II in
  Rabs (ttR O C M II false - (O + II * C)) <= tt_eps (Rabs O) (M * Rabs C) II /\
  Rabs (ttR_stop O C M - (O + M * C)) <= tt_eps_stop (Rabs O) (M * Rabs C) /\
  Rabs (rnd (M * C)) < ovf64 /\ Rabs (ttR_stop O C M) < ovf64 /\ Rabs d < ovf64 /\
  Rabs d * (1 + u64) + eta64 < ovf64 /\
  Rabs z5 * (1 + u64) + eta64 < ovf64 /\ Rabs (ttR O C M II false) < ovf64.
Proof.
  intros O C M II HM HII HV d z5.
  pose proof eta64_pos as HE0. pose proof eta64_le as HE1. pose proof u64_pos as Hu0.
  assert (HME : M * eta64 <= / 4) by (apply m_eta; lra).
  assert (Hk : 0 <= II / M <= 1).
  { split; [apply Rmult_le_pos; [lra|apply Rlt_le, Rinv_0_lt_compat; lra]|].
    apply Rmult_le_reg_r with M; [lra|]. unfold Rdiv. rewrite Rmult_assoc, Rinv_l by lra. lra. }
  assert (HdM : Rabs (d / M) = Rabs d / M).
  { unfold Rdiv. rewrite Rabs_mult, (Rabs_pos_eq (/ M)); [reflexivity|].
    apply Rlt_le, Rinv_0_lt_compat; lra. }
  pose proof (Rabs_pos d) as Hd0.
  assert (Hud : 0 <= u64 * Rabs d) by (apply Rmult_le_pos; lra).
  assert (HIIE : 0 <= II * eta64) by (apply Rmult_le_pos; lra).
  apply (tt_chain O C M II (rnd (M * C)) (ttR_stop O C M) d z5 (rnd z5) (ttR O C M II false) ovf64);
    try reflexivity; try assumption; try lra.
  - (* the product *)
    unfold z5, ttR_prod. fold d. destruct (Req_bool_spec (ttR_step O C M) 0) as [Hst|Hst].
    + (* step = 0: delta is at most 2 M eta *)
      assert (Hd1 : Rabs d <= 1).
      { pose proof (rnd_error (d / M)) as He. fold d in Hst. unfold ttR_step in Hst. fold d in Hst.
        rewrite Hst in He. replace (0 - d / M) with (- (d / M)) in He by ring.
        rewrite Rabs_Ropp, HdM in He.
        set (x := Rabs d / M) in *.
        assert (Hx0 : 0 <= x) by (apply Rmult_le_pos; [lra|apply Rlt_le, Rinv_0_lt_compat; lra]).
        assert (Hux : u64 * x <= / 2 * x).
        { apply Rmult_le_compat_r; [exact Hx0|]. rewrite u64_val. lra. }
        assert (Hx : x <= 2 * eta64) by lra.
        replace (Rabs d) with (x * M) by (unfold x; field; lra).
        apply Rle_trans with (2 * eta64 * M); [apply Rmult_le_compat_r; lra|lra]. }
      replace (rnd (II / M) * d - II / M * d) with ((rnd (II / M) - II / M) * d) by ring.
      rewrite Rabs_mult.
      assert (Hk1 : Rabs (II / M) <= 1) by (apply Rabs_le; lra).
      pose proof (rnd_err_le _ _ Hk1) as Ht. apply Rabs_le in Ht.
      apply Rle_trans with ((u64 * 1 + eta64) * Rabs d); [apply Rmult_le_compat_r; lra|].
      assert (eta64 * Rabs d <= eta64 * 1) by (apply Rmult_le_compat_l; lra).
      lra.
    + assert (Hdm : Rabs (d / M) <= Rabs d / M) by (rewrite HdM; apply Rle_refl).
      pose proof (rnd_err_le _ _ Hdm) as Ht. apply Rabs_le in Ht.
      replace (II * ttR_step O C M - II / M * d) with (II * (rnd (d / M) - d / M))
        by (unfold ttR_step; fold d; field; lra).
      rewrite Rabs_mult, (Rabs_pos_eq II) by lra.
      apply Rle_trans with (II * (u64 * (Rabs d / M) + eta64)); [apply Rmult_le_compat_l; lra|].
      replace (II * (u64 * (Rabs d / M) + eta64)) with (II / M * (u64 * Rabs d) + II * eta64)
        by (field; lra).
      assert (II / M * (u64 * Rabs d) <= 1 * (u64 * Rabs d)) by (apply Rmult_le_compat_r; lra).
      lra.
  - apply Rle_trans with (M * eta64); [apply Rmult_le_compat_r; lra|lra].
  - pose proof ovf64_ge. lra.
Qed.

(* ---- the float computation is the real computation ------------------------------------------ *)

Lemma rnd_0 : rnd 0 = 0.
Proof. unfold rnd. apply round_0. apply valid_rnd_round_mode. Qed.

Lemma IZR_pow53 : IZR (2 ^ 53) = 9007199254740992.
Proof. reflexivity. Qed.

Lemma time_track_f_real : forall o c n i,
  Ffin o -> Ffin c -> (2 <= n <= 2 ^ 53)%Z -> (0 <= i < n)%Z ->
  Rabs (FR o) + IZR (n - 1) * Rabs (FR c) <= ovf64 / 2 ->
  Ffin (time_track_f o c n i) /\
  FR (time_track_f o c n i) = ttR (FR o) (FR c) (IZR (n - 1)) (IZR i) (i =? n - 1)%Z.
Proof.
  intros o c n i Ho Hc Hn Hi HV.
  assert (HM : 1 <= IZR (n - 1) <= 9007199254740992).
  { rewrite <- IZR_pow53. split; apply IZR_le; lia. }
  assert (HII : 0 <= IZR i <= IZR (n - 1)) by (split; apply IZR_le; lia).
  destruct (Z2f_ok (n - 1)) as [Hmf Hmv]; [lia|].
  destruct (Z2f_ok i) as [Hif Hiv]; [lia|].
  destruct (ttR_facts (FR o) (FR c) (IZR (n - 1)) (IZR i) HM HII HV)
    as [_ [_ [Hp [Hs [Hd [Hst [Hz5 Hy]]]]]]].
  set (O := FR o) in *. set (C := FR c) in *. set (M := IZR (n - 1)) in *. set (II := IZR i) in *.
  unfold time_track_f, linspace_f, time_track_stop.
  replace (n =? 1)%Z with false by (symmetry; apply Z.eqb_neq; lia).
  (* (n-1) * increment *)
  destruct (mul_ok (Z2f (n - 1)) c Hmf Hc) as [Hf1 Hv1]; [rewrite Hmv; exact Hp|].
  rewrite Hmv in Hv1. fold C in Hv1.
  (* offset + .. *)
  destruct (add_ok o (Z2f (n - 1) * c)%float Ho Hf1) as [Hf2 Hv2]; [rewrite Hv1; exact Hs|].
  rewrite Hv1 in Hv2. fold O in Hv2. change (rnd (O + rnd (M * C))) with (ttR_stop O C M) in Hv2.
  set (stop := (o + Z2f (n - 1) * c)%float) in *.
  destruct (Z.eqb_spec i (n - 1)) as [Hlast|Hlast].
  { split; [exact Hf2|]. cbn [ttR]. exact Hv2. }
  (* delta *)
  destruct (sub_ok stop o Hf2 Ho) as [Hf3 Hv3]; [rewrite Hv2; exact Hd|].
  rewrite Hv2 in Hv3. fold O in Hv3. change (rnd (ttR_stop O C M - O)) with (ttR_delta O C M) in Hv3.
  set (delta := (stop - o)%float) in *.
  (* step *)
  assert (HdM : Rabs (ttR_delta O C M / M) <= Rabs (ttR_delta O C M)).
  { unfold Rdiv. rewrite Rabs_mult. rewrite <- (Rmult_1_r (Rabs (ttR_delta O C M))) at 2.
    apply Rmult_le_compat_l; [apply Rabs_pos|].
    rewrite Rabs_pos_eq by (apply Rlt_le, Rinv_0_lt_compat; lra).
    rewrite <- Rinv_1. apply Rinv_le_contravar; lra. }
  pose proof u64_pos as Hu0.
  destruct (div_ok delta (Z2f (n - 1)) Hf3 Hmf) as [Hf4 Hv4].
  { rewrite Hmv. fold M. lra. }
  { rewrite Hv3, Hmv. fold M. apply Rle_lt_trans with (1 := rnd_abs _).
    apply Rle_lt_trans with (2 := Hst). apply Rplus_le_compat_r. apply Rmult_le_compat_r; lra. }
  rewrite Hv3, Hmv in Hv4. fold M in Hv4. change (rnd (ttR_delta O C M / M)) with (ttR_step O C M) in Hv4.
  set (step := (delta / Z2f (n - 1))%float) in *.
  assert (Hz5' : Rabs (rnd (ttR_prod O C M II)) < ovf64).
  { apply Rle_lt_trans with (1 := rnd_abs _). exact Hz5. }
  cbn [ttR] in Hy |- *.
  destruct (step =? 0)%float eqn:Hz.
  - (* step == 0 *)
    pose proof (eqb_zero_true step Hf4 Hz) as Hst0. rewrite Hv4 in Hst0.
    assert (Hpr : ttR_prod O C M II = rnd (II / M) * ttR_delta O C M).
    { unfold ttR_prod. rewrite Hst0. destruct (Req_bool_spec 0 0) as [_|Hne]; [reflexivity|contradiction]. }
    rewrite Hpr in Hz5', Hy |- *.
    destruct (div_ok (Z2f i) (Z2f (n - 1)) Hif Hmf) as [Hf5 Hv5].
    { rewrite Hmv. fold M. lra. }
    { rewrite Hiv, Hmv. fold M II. apply Rle_lt_trans with (1 := rnd_abs _).
      assert (Hk1 : Rabs (II / M) <= 1).
      { apply Rabs_le. split.
        - apply Rle_trans with 0; [lra|]. apply Rmult_le_pos; [lra|apply Rlt_le, Rinv_0_lt_compat; lra].
        - apply Rmult_le_reg_r with M; [lra|]. unfold Rdiv. rewrite Rmult_assoc, Rinv_l by lra. lra. }
      pose proof eta64_le. pose proof ovf64_ge. rewrite u64_val in *.
      assert (Rabs (II / M) * (1 + / 9007199254740992) <= 1 * (1 + / 9007199254740992))
        by (apply Rmult_le_compat_r; lra).
      lra. }
    rewrite Hiv, Hmv in Hv5. fold M II in Hv5.
    destruct (mul_ok (Z2f i / Z2f (n - 1))%float delta Hf5 Hf3) as [Hf6 Hv6];
      [rewrite Hv5, Hv3; exact Hz5'|].
    rewrite Hv5, Hv3 in Hv6.
    destruct (add_ok (Z2f i / Z2f (n - 1) * delta)%float o Hf6 Ho) as [Hf7 Hv7];
      [rewrite Hv6; exact Hy|].
    rewrite Hv6 in Hv7. split; [exact Hf7|exact Hv7].
  - pose proof (eqb_zero_false step Hf4 Hz) as Hst0. rewrite Hv4 in Hst0.
    assert (Hpr : ttR_prod O C M II = II * ttR_step O C M).
    { unfold ttR_prod. destruct (Req_bool_spec (ttR_step O C M) 0) as [He|_]; [contradiction|reflexivity]. }
    rewrite Hpr in Hz5', Hy |- *.
    destruct (mul_ok (Z2f i) step Hif Hf4) as [Hf6 Hv6]; [rewrite Hiv, Hv4; exact Hz5'|].
    rewrite Hiv, Hv4 in Hv6. fold II in Hv6.
    destruct (add_ok (Z2f i * step)%float o Hf6 Ho) as [Hf7 Hv7]; [rewrite Hv6; exact Hy|].
    rewrite Hv6 in Hv7. split; [exact Hf7|exact Hv7].
Qed.

(* ---- the theorems ---------------------------------------------------------------------------- *)

Lemma tt_eps_stop_le : forall A B ii, 0 <= A -> 0 <= B -> 0 <= ii ->
  tt_eps_stop A B <= tt_eps A B ii.
Proof.
  intros A B ii HA HB Hii. unfold tt_eps_stop, tt_eps. pose proof eta64_pos as HE.
  assert (0 <= ii * eta64) by (apply Rmult_le_pos; lra).
  rewrite u64_val. nra.
Qed.

Theorem time_track_rounding_proof : forall o c n i,
  Ffin o -> Ffin c -> (2 <= n <= 2 ^ 53)%Z -> (0 <= i < n)%Z ->
  Rabs (FR o) + IZR (n - 1) * Rabs (FR c) <= ovf64 / 2 ->
  Ffin (time_track_f o c n i) /\
  Rabs (FR (time_track_f o c n i) - (FR o + IZR i * FR c))
    <= tt_eps (Rabs (FR o)) (IZR (n - 1) * Rabs (FR c)) (IZR i).
Proof.
  intros o c n i Ho Hc Hn Hi HV.
  destruct (time_track_f_real o c n i Ho Hc Hn Hi HV) as [Hf Hv].
  split; [exact Hf|]. rewrite Hv.
  assert (HM : 1 <= IZR (n - 1) <= 9007199254740992).
  { rewrite <- IZR_pow53. split; apply IZR_le; lia. }
  assert (HII : 0 <= IZR i <= IZR (n - 1)) by (split; apply IZR_le; lia).
  destruct (ttR_facts (FR o) (FR c) (IZR (n - 1)) (IZR i) HM HII HV) as [He [Hs _]].
  destruct (Z.eqb_spec i (n - 1)) as [Hlast|Hlast].
  - cbn [ttR]. rewrite Hlast.
    apply Rle_trans with (1 := Hs). apply tt_eps_stop_le.
    + apply Rabs_pos.
    + apply Rmult_le_pos; [lra|apply Rabs_pos].
    + lra.
  - exact He.
Qed.

(* the last point is the caller's stop, fl(offset + fl((n-1) * increment)) *)
Theorem time_track_last_proof : forall o c n,
  Ffin o -> Ffin c -> (2 <= n <= 2 ^ 53)%Z ->
  Rabs (FR o) + IZR (n - 1) * Rabs (FR c) <= ovf64 / 2 ->
  time_track_f o c n (n - 1) = time_track_stop o c n /\
  Ffin (time_track_stop o c n) /\
  FR (time_track_stop o c n) = rnd (FR o + rnd (IZR (n - 1) * FR c)) /\
  Rabs (FR (time_track_stop o c n) - (FR o + IZR (n - 1) * FR c))
    <= tt_eps_stop (Rabs (FR o)) (IZR (n - 1) * Rabs (FR c)).
Proof.
  intros o c n Ho Hc Hn HV.
  assert (Hi : (0 <= n - 1 < n)%Z) by lia.
  destruct (time_track_f_real o c n (n - 1) Ho Hc Hn Hi HV) as [Hf Hv].
  assert (Heq : time_track_f o c n (n - 1) = time_track_stop o c n).
  { unfold time_track_f, linspace_f.
    replace (n =? 1)%Z with false by (symmetry; apply Z.eqb_neq; lia).
    rewrite Z.eqb_refl. reflexivity. }
  rewrite Heq in Hf, Hv. rewrite Z.eqb_refl in Hv. cbn [ttR] in Hv.
  split; [exact Heq|]. split; [exact Hf|]. split; [exact Hv|].
  assert (HM : 1 <= IZR (n - 1) <= 9007199254740992).
  { rewrite <- IZR_pow53. split; apply IZR_le; lia. }
  assert (HII : 0 <= IZR (n - 1) <= IZR (n - 1)) by lra.
  destruct (ttR_facts (FR o) (FR c) (IZR (n - 1)) (IZR (n - 1)) HM HII HV) as [_ [Hs _]].
  rewrite Hv. exact Hs.
Qed.

(* the first point is the offset: 0 * step is a zero whenever step is finite *)
Theorem time_track_first_proof : forall o c n,
  Ffin o -> Ffin c -> (2 <= n <= 2 ^ 53)%Z ->
  Rabs (FR o) + IZR (n - 1) * Rabs (FR c) <= ovf64 / 2 ->
  Ffin (time_track_f o c n 0) /\ FR (time_track_f o c n 0) = FR o.
Proof.
  intros o c n Ho Hc Hn HV.
  assert (Hi : (0 <= 0 < n)%Z) by lia.
  destruct (time_track_f_real o c n 0 Ho Hc Hn Hi HV) as [Hf Hv].
  split; [exact Hf|]. rewrite Hv.
  replace (0 =? n - 1)%Z with false by (symmetry; apply Z.eqb_neq; lia).
  cbn [ttR]. unfold ttR_prod.
  destruct (Req_bool (ttR_step (FR o) (FR c) (IZR (n - 1))) 0).
  - unfold Rdiv. rewrite Rmult_0_l, rnd_0, Rmult_0_l, rnd_0, Rplus_0_l. apply rnd_FR.
  - rewrite Rmult_0_l, rnd_0, Rplus_0_l. apply rnd_FR.
Qed.

(* n = 1: linspace returns [0 * delta + start]; for finite offset and increment this is offset *)
Theorem time_track_one_proof : forall o c,
  Ffin o -> Ffin c ->
  Ffin (time_track_f o c 1 0) /\ FR (time_track_f o c 1 0) = FR o.
Proof.
  intros o c Ho Hc. unfold time_track_f, linspace_f, time_track_stop.
  change (1 =? 1)%Z with true. cbv iota. change (1 - 1)%Z with 0%Z.
  destruct (Z2f_ok 0) as [H0f H0v]; [lia|].
  assert (Hov0 : Rabs (rnd 0) < ovf64).
  { rewrite rnd_0, Rabs_R0. pose proof ovf64_ge. lra. }
  destruct (mul_ok (Z2f 0) c H0f Hc) as [Hf1 Hv1]; [rewrite H0v, Rmult_0_l; exact Hov0|].
  rewrite H0v, Rmult_0_l, rnd_0 in Hv1.
  destruct (add_ok o (Z2f 0 * c)%float Ho Hf1) as [Hf2 Hv2];
    [rewrite Hv1, Rplus_0_r, rnd_FR; apply FR_lt_ovf|].
  rewrite Hv1, Rplus_0_r, rnd_FR in Hv2.
  destruct (sub_ok (o + Z2f 0 * c)%float o Hf2 Ho) as [Hf3 Hv3].
  { rewrite Hv2. replace (FR o - FR o) with 0 by ring. exact Hov0. }
  rewrite Hv2 in Hv3. replace (FR o - FR o) with 0 in Hv3 by ring. rewrite rnd_0 in Hv3.
  destruct (mul_ok (Z2f 0) (o + Z2f 0 * c - o)%float H0f Hf3) as [Hf4 Hv4];
    [rewrite H0v, Rmult_0_l; exact Hov0|].
  rewrite H0v, Rmult_0_l, rnd_0 in Hv4.
  destruct (add_ok (Z2f 0 * (o + Z2f 0 * c - o))%float o Hf4 Ho) as [Hf5 Hv5];
    [rewrite Hv4, Rplus_0_l, rnd_FR; apply FR_lt_ovf|].
  rewrite Hv4, Rplus_0_l, rnd_FR in Hv5.
  split; assumption.
Qed.

(* the array *)
Lemma zrange_length : forall n, length (zrange n) = Z.to_nat n.
Proof. intros n. unfold zrange. rewrite map_length, seq_length. reflexivity. Qed.

Lemma zrange_nth : forall n i, (0 <= i < n)%Z -> nth_error (zrange n) (Z.to_nat i) = Some i.
Proof.
  intros n i Hi. unfold zrange.
  rewrite (map_nth_error Z.of_nat (Z.to_nat i) (seq 0 (Z.to_nat n)) (d := Z.to_nat i)).
  - rewrite Z2Nat.id by lia. reflexivity.
  - assert (Hlt : (Z.to_nat i < Z.to_nat n)%nat) by lia.
    rewrite <- (seq_length (Z.to_nat n) 0) in Hlt.
    destruct (nth_error_Some (seq 0 (Z.to_nat n)) (Z.to_nat i)) as [_ Hs].
    specialize (Hs Hlt).
    destruct (nth_error (seq 0 (Z.to_nat n)) (Z.to_nat i)) as [v|] eqn:Hv; [|contradiction].
    pose proof (nth_error_nth _ _ 0%nat Hv) as Hn. rewrite seq_nth in Hn by (rewrite seq_length in Hlt; exact Hlt).
    simpl in Hn. subst v. reflexivity.
Qed.

Lemma time_track_fl_length_proof : forall o c n, length (time_track_fl o c n) = Z.to_nat n.
Proof. intros. unfold time_track_fl. rewrite map_length. apply zrange_length. Qed.

Lemma time_track_fl_nth_proof : forall o c n i, (0 <= i < n)%Z ->
  nth_error (time_track_fl o c n) (Z.to_nat i) = Some (time_track_f o c n i).
Proof.
  intros o c n i Hi. unfold time_track_fl.
  apply map_nth_error. apply zrange_nth. exact Hi.
Qed.

Lemma time_track_fl_empty_proof : forall o c n, (n <= 0)%Z -> time_track_fl o c n = [].
Proof.
  intros o c n Hn. unfold time_track_fl, zrange.
  replace (Z.to_nat n) with 0%nat by lia. reflexivity.
Qed.

(* ---- the truncating cast --------------------------------------------------------------------- *)

Lemma Ztrunc_abs_le : forall y, IZR (Z.abs (Ztrunc y)) <= Rabs y.
Proof.
  intros y. rewrite <- Ztrunc_abs. rewrite Ztrunc_floor by apply Rabs_pos. apply Zfloor_lb.
Qed.

Lemma trunc_f_spec : forall x, Ffin x -> Rabs (FR x) < 9223372036854775808 ->
  trunc_f x = Some (Ztrunc (FR x)).
Proof.
  intros x Hx Hr.
  assert (Hrange : ((- 2 ^ 63 <? Ztrunc (FR x))%Z && (Ztrunc (FR x) <? 2 ^ 63)%Z)%bool = true).
  { pose proof (Ztrunc_abs_le (FR x)) as Hk.
    assert (Hlt : (Z.abs (Ztrunc (FR x)) < 2 ^ 63)%Z).
    { apply lt_IZR. change (IZR (2 ^ 63)) with 9223372036854775808. lra. }
    apply andb_true_intro. split; apply Z.ltb_lt; lia. }
  revert Hrange. rewrite FR_SF. unfold trunc_f.
  pose proof (FP.B2SF_Prim2B x) as HB. unfold Ffin in Hx.
  destruct (FP.Prim2B x) as [s|s| |s m e He]; try discriminate; simpl in HB; rewrite <- HB.
  - intros _. cbn [SF2R]. rewrite (Ztrunc_IZR 0). reflexivity.
  - cbn [SF2R]. 
    set (a := (if (0 <=? e)%Z then Z.pos m * 2 ^ e else Z.pos m / 2 ^ (- e))%Z).
    assert (Ha : Ztrunc (F2R (Float radix2 (Z.pos m) e)) = a).
    { rewrite Ztrunc_floor by (apply F2R_ge_0; simpl; lia).
      unfold a, F2R. cbn [Fnum Fexp]. destruct (Z.leb_spec 0 e) as [He0|He0].
      - rewrite <- IZR_Zpower by exact He0. rewrite <- mult_IZR. apply Zfloor_IZR.
      - replace e with (- (- e))%Z at 1 by lia. rewrite bpow_opp.
        rewrite <- IZR_Zpower by lia. fold (Rdiv (IZR (Z.pos m)) (IZR (radix2 ^ (- e)))).
        rewrite Zfloor_div; [reflexivity|].
        change (Z.pow_pos radix2) with (Z.pow_pos 2).
        assert (0 < 2 ^ (- e))%Z by (apply Z.pow_pos_nonneg; lia). 
        change (radix2 ^ (- e))%Z with (2 ^ (- e))%Z. lia. }
    assert (Hk : Ztrunc (F2R (Float radix2 (cond_Zopp s (Z.pos m)) e)) = if s then (- a)%Z else a).
    { rewrite F2R_cond_Zopp. destruct s; cbn [cond_Ropp]; [rewrite Ztrunc_opp|]; rewrite Ha; reflexivity. }
    rewrite Hk. intros Hrange. rewrite Hrange. reflexivity.
Qed.

(* truncation is towards zero *)
Lemma Ztrunc_toward_zero : forall y,
  (0 <= y -> IZR (Ztrunc y) <= y < IZR (Ztrunc y) + 1) /\
  (y <= 0 -> IZR (Ztrunc y) - 1 < y <= IZR (Ztrunc y)).
Proof.
  intros y. split; intros Hy.
  - rewrite Ztrunc_floor by exact Hy. split; [apply Zfloor_lb|apply Zfloor_ub].
  - rewrite Ztrunc_ceil by exact Hy. split; [|apply Zceil_ub].
    pose proof (Zceil_lb y). lra.
Qed.

Lemma Ztrunc_within_1 : forall y, Rabs (IZR (Ztrunc y) - y) < 1.
Proof.
  intros y. destruct (Ztrunc_toward_zero y) as [Hp Hn].
  destruct (Rle_dec 0 y) as [H|H].
  - specialize (Hp H). apply Rabs_lt. lra.
  - assert (H' : y <= 0) by lra. specialize (Hn H'). apply Rabs_lt. lra.
Qed.

(* ---- the absolute form ----------------------------------------------------------------------- *)

Lemma uc_f_ok : forall r, Ffin (uc_f r) /\ FR (uc_f r) = unit_correction r.
Proof.
  intros r. split.
  - apply Ffin_prim. destruct r; reflexivity.
  - unfold unit_correction. destruct r; cbn [uc_f steps_per_second]; fr_lit.
Qed.

Lemma unit_correction_range : forall r, 1 <= unit_correction r <= 1000000000.
Proof. intros r. unfold unit_correction. destruct r; cbn [steps_per_second]; lra. Qed.

(* bound of |fl(time_track_f * unit) - (offset + i increment) unit|, in units *)
Definition tt_eps_abs (A B ii U : R) : R :=
  U * ((1 + u64) * tt_eps A B ii + u64 * (A + B)) + eta64.

Lemma eta64_tiny : 9007199254740998 * (eta64 * 1000000000) <= 1.
Proof. unfold eta64. interval. Qed.
Lemma two63_ovf : 9223372036854775808 * 2 <= ovf64 / 2.
Proof. unfold ovf64. interval. Qed.

Lemma tt_eps_abs_small : forall A B ii U,
  0 <= A -> 0 <= B -> 0 <= ii <= 9007199254740992 -> 1 <= U <= 1000000000 ->
  (A + B) * U <= 9223372036854775808 ->
  0 <= tt_eps_abs A B ii U <= 8000.
Proof.
  intros A B ii U HA HB Hii HU HX. unfold tt_eps_abs, tt_eps.
  pose proof eta64_pos as HE0. pose proof eta64_tiny as HEt. pose proof eta64_le as HE1.
  set (AU := A * U). set (BU := B * U). set (EU := eta64 * U). set (IEU := ii * EU).
  assert (HAU : 0 <= AU) by (apply Rmult_le_pos; lra).
  assert (HBU : 0 <= BU) by (apply Rmult_le_pos; lra).
  assert (HEU0 : 0 <= EU) by (apply Rmult_le_pos; lra).
  assert (HEU1 : EU <= eta64 * 1000000000) by (apply Rmult_le_compat_l; lra).
  assert (HIEU0 : 0 <= IEU) by (apply Rmult_le_pos; lra).
  assert (HIEU1 : IEU <= 9007199254740992 * (eta64 * 1000000000)).
  { unfold IEU. apply Rmult_le_compat; lra. }
  assert (HXX : AU + BU <= 9223372036854775808) by (unfold AU, BU; lra).
  replace (U * ((1 + u64) * ((1 + 3 * u64) * (u64 * (2 * A + 6 * B) + (ii + 6) * eta64)) + u64 * (A + B)) + eta64)
    with ((1 + u64) * ((1 + 3 * u64) * (u64 * (2 * AU + 6 * BU) + IEU + 6 * EU)) + u64 * (AU + BU) + eta64)
    by (unfold AU, BU, IEU, EU; ring).
  rewrite u64_val. split; lra.
Qed.

Theorem time_track_absolute_proof : forall start r o c n i,
  Ffin o -> Ffin c -> (2 <= n <= 2 ^ 53)%Z -> (0 <= i < n)%Z ->
  IZR (Z.abs start) + (Rabs (FR o) + IZR (n - 1) * Rabs (FR c)) * unit_correction r
    <= 9223372036854775808 - 16384 ->
  let P := FR (time_track_f o c n i * uc_f r)%float in
  let T := (FR o + IZR i * FR c) * unit_correction r in
  let E := tt_eps_abs (Rabs (FR o)) (IZR (n - 1) * Rabs (FR c)) (IZR i) (unit_correction r) in
  Ffin (time_track_f o c n i * uc_f r)%float /\
  Rabs (P - T) <= E /\
  time_track_abs_f start r o c n i = Some (start + Ztrunc P)%Z /\
  Rabs (IZR (start + Ztrunc P) - (IZR start + T)) < 1 + E.
Proof.
  intros start r o c n i Ho Hc Hn Hi Hrange P T E.
  set (A := Rabs (FR o)) in *. set (B := IZR (n - 1) * Rabs (FR c)) in *.
  set (U := unit_correction r) in *.
  pose proof (unit_correction_range r) as HU. fold U in HU.
  assert (HM : 1 <= IZR (n - 1) <= 9007199254740992).
  { rewrite <- IZR_pow53. split; apply IZR_le; lia. }
  assert (HII : 0 <= IZR i <= IZR (n - 1)) by (split; apply IZR_le; lia).
  assert (HA0 : 0 <= A) by apply Rabs_pos.
  assert (HB0 : 0 <= B) by (apply Rmult_le_pos; [lra|apply Rabs_pos]).
  assert (Hst0 : 0 <= IZR (Z.abs start)) by (apply IZR_le; lia).
  assert (HX : (A + B) * U <= 9223372036854775808 - 16384) by lra.
  assert (HAB : A + B <= (A + B) * U).
  { rewrite <- (Rmult_1_r (A + B)) at 1. apply Rmult_le_compat_l; lra. }
  assert (HV : A + B <= ovf64 / 2) by (pose proof two63_ovf; lra).
  destruct (time_track_rounding_proof o c n i Ho Hc Hn Hi HV) as [Hyf Hye].
  fold A B in Hye. set (y := time_track_f o c n i) in *.
  set (eps := tt_eps A B (IZR i)) in *.
  destruct (uc_f_ok r) as [Huf Huv]. fold U in Huv.
  assert (Hsmall : 0 <= E <= 8000).
  { apply tt_eps_abs_small; try assumption; lra. }
  pose proof u64_pos as Hu0. pose proof eta64_pos as HE0.
  (* |offset + i increment| <= A + B *)
  assert (HT0 : Rabs (FR o + IZR i * FR c) <= A + B).
  { apply Rle_trans with (1 := Rabs_triang _ _). fold A. apply Rplus_le_compat_l.
    rewrite Rabs_mult, (Rabs_pos_eq (IZR i)) by lra. unfold B.
    apply Rmult_le_compat_r; [apply Rabs_pos|lra]. }
  assert (Heps0 : 0 <= eps) by (apply Rle_trans with (2 := Hye); apply Rabs_pos).
  assert (HY : Rabs (FR y) <= A + B + eps).
  { replace (FR y) with ((FR y - (FR o + IZR i * FR c)) + (FR o + IZR i * FR c)) by ring.
    apply Rle_trans with (1 := Rabs_triang _ _). lra. }
  assert (HYU : Rabs (FR y * U) <= (A + B + eps) * U).
  { rewrite Rabs_mult, (Rabs_pos_eq U) by lra. apply Rmult_le_compat_r; lra. }
  assert (HYT : Rabs (FR y * U - T) <= eps * U).
  { unfold T. replace (FR y * U - (FR o + IZR i * FR c) * U) with ((FR y - (FR o + IZR i * FR c)) * U) by ring.
    rewrite Rabs_mult, (Rabs_pos_eq U) by lra. apply Rmult_le_compat_r; lra. }
  assert (HPe : Rabs (rnd (FR y * U) - T) <= E).
  { replace (rnd (FR y * U) - T) with ((rnd (FR y * U) - FR y * U) + (FR y * U - T)) by ring.
    apply Rle_trans with (1 := Rabs_triang _ _).
    pose proof (rnd_err_le _ _ HYU) as Hr. apply Rabs_le in Hr.
    unfold E, tt_eps_abs. fold eps. nra. }
  assert (HTU : Rabs T <= (A + B) * U).
  { unfold T. rewrite Rabs_mult, (Rabs_pos_eq U) by lra. apply Rmult_le_compat_r; lra. }
  assert (HPabs : Rabs (rnd (FR y * U)) <= (A + B) * U + E).
  { replace (rnd (FR y * U)) with ((rnd (FR y * U) - T) + T) by ring.
    apply Rle_trans with (1 := Rabs_triang _ _). lra. }
  destruct (mul_ok y (uc_f r) Hyf Huf) as [Hpf Hpv].
  { rewrite Huv. pose proof two63_ovf. lra. }
  rewrite Huv in Hpv. fold P in Hpv.
  split; [exact Hpf|]. rewrite Hpv. split; [exact HPe|].
  assert (HP63 : Rabs (FR (y * uc_f r)%float) < 9223372036854775808).
  { fold P. rewrite Hpv. lra. }
  split.
  - unfold time_track_abs_f. fold y. rewrite (trunc_f_spec _ Hpf HP63). fold P. rewrite Hpv.
    assert (Hz : (Z.abs (start + Ztrunc (rnd (FR y * U))) < 2 ^ 63)%Z).
    { apply lt_IZR. change (IZR (2 ^ 63)) with 9223372036854775808.
      apply Rle_lt_trans with (IZR (Z.abs start) + IZR (Z.abs (Ztrunc (rnd (FR y * U))))).
      - rewrite <- plus_IZR. apply IZR_le. lia.
      - pose proof (Ztrunc_abs_le (rnd (FR y * U))). lra. }
    replace ((- 2 ^ 63 <? start + Ztrunc (rnd (FR y * U)))%Z && (start + Ztrunc (rnd (FR y * U)) <? 2 ^ 63)%Z)%bool
      with true; [reflexivity|].
    symmetry. apply andb_true_intro. split; apply Z.ltb_lt; lia.
  - rewrite plus_IZR.
    replace (IZR start + IZR (Ztrunc (rnd (FR y * U))) - (IZR start + T))
      with ((IZR (Ztrunc (rnd (FR y * U))) - rnd (FR y * U)) + (rnd (FR y * U) - T)) by ring.
    apply Rle_lt_trans with (1 := Rabs_triang _ _).
    pose proof (Ztrunc_within_1 (rnd (FR y * U))). lra.
Qed.

(* ---- the bound in the coarse form  c u (|offset| + n |increment|) + small --------------------- *)

Lemma tt_eps_coarse : forall A C n ii,
  0 <= A -> 0 <= C -> 1 <= n -> 0 <= ii <= n - 1 ->
  tt_eps A ((n - 1) * C) ii <= 6.01 * u64 * (A + n * C) + 1.01 * (n + 5) * eta64.
Proof.
  intros A C n ii HA HC Hn Hii. unfold tt_eps. pose proof eta64_pos as HE.
  assert (HnC : 0 <= n * C) by (apply Rmult_le_pos; lra).
  assert (HB : (n - 1) * C <= n * C) by (apply Rmult_le_compat_r; lra).
  assert (HB0 : 0 <= (n - 1) * C) by (apply Rmult_le_pos; lra).
  assert (HiE : ii * eta64 <= (n - 1) * eta64) by (apply Rmult_le_compat_r; lra).
  assert (Hi0 : 0 <= ii * eta64) by (apply Rmult_le_pos; lra).
  assert (HnE : 0 <= n * eta64) by (apply Rmult_le_pos; lra).
  rewrite u64_val. lra.
Qed.

(* ---- examples ---------------------------------------------------------------------------------- *)

Lemma FR_1_5 : FR 0x1.8p+0%float = 1.5. Proof. fr_lit. Qed.
Lemma FR_0_25 : FR 0x1p-2%float = 0.25. Proof. fr_lit. Qed.

(* offset 1.5, increment 0.25, n = 10 *)
Lemma ex_quarter_list :
  time_track_fl 0x1.8p+0 0x1p-2 10
  = [0x1.8p+0; 0x1.cp+0; 0x1p+1; 0x1.2p+1; 0x1.4p+1; 0x1.6p+1; 0x1.8p+1; 0x1.ap+1; 0x1.cp+1; 0x1.ep+1]%float.
Proof. vm_compute. reflexivity. Qed.

Lemma ex_quarter_bound : forall i, (0 <= i < 10)%Z ->
  Ffin (time_track_f 0x1.8p+0 0x1p-2 10 i) /\
  Rabs (FR (time_track_f 0x1.8p+0 0x1p-2 10 i) - (1.5 + IZR i * 0.25)) <= 2e-15.
Proof.
  intros i Hi.
  assert (Ho : Ffin 0x1.8p+0%float) by (apply Ffin_prim; reflexivity).
  assert (Hc : Ffin 0x1p-2%float) by (apply Ffin_prim; reflexivity).
  assert (Hn : (2 <= 10 <= 2 ^ 53)%Z) by (split; [lia|discriminate]).
  destruct (time_track_rounding_proof _ _ 10 i Ho Hc Hn Hi) as [Hf He].
  { rewrite FR_1_5, FR_0_25. change (10 - 1)%Z with 9%Z. unfold ovf64. interval. }
  split; [exact Hf|]. rewrite FR_1_5, FR_0_25 in He. change (10 - 1)%Z with 9%Z in He.
  apply Rle_trans with (1 := He).
  assert (Hi' : 0 <= IZR i <= 9) by (split; apply IZR_le; lia).
  unfold tt_eps, u64, eta64. interval.
Qed.

(* the same channel in absolute form at 'ns', start_time 2020-01-01T00:00:00 (ns since 1970) *)
Lemma ex_quarter_abs :
  time_track_abs_f 1577836800000000000 Rns 0x1.8p+0 0x1p-2 10 3 = Some 1577836802250000000%Z.
Proof. vm_compute. reflexivity. Qed.

Lemma ex_quarter_abs_bound : forall i, (0 <= i < 10)%Z ->
  exists z, time_track_abs_f 1577836800000000000 Rns 0x1.8p+0 0x1p-2 10 i = Some z /\
    Rabs (IZR z - (1577836800000000000 + (1.5 + IZR i * 0.25) * 1000000000)) < 1 + 3e-6.
Proof.
  intros i Hi.
  assert (Ho : Ffin 0x1.8p+0%float) by (apply Ffin_prim; reflexivity).
  assert (Hc : Ffin 0x1p-2%float) by (apply Ffin_prim; reflexivity).
  assert (Hn : (2 <= 10 <= 2 ^ 53)%Z) by (split; [lia|discriminate]).
  destruct (time_track_absolute_proof 1577836800000000000 Rns _ _ 10 i Ho Hc Hn Hi) as [_ [_ [Hz Hb]]].
  { rewrite FR_1_5, FR_0_25. change (10 - 1)%Z with 9%Z.
    change (Z.abs 1577836800000000000) with 1577836800000000000%Z.
    unfold unit_correction. cbn [steps_per_second]. interval. }
  eexists. split; [exact Hz|].
  rewrite FR_1_5, FR_0_25 in Hb. change (10 - 1)%Z with 9%Z in Hb.
  unfold unit_correction in Hb. cbn [steps_per_second] in Hb.
  apply Rlt_le_trans with (1 := Hb). apply Rplus_le_compat_l.
  assert (Hi' : 0 <= IZR i <= 9) by (split; apply IZR_le; lia).
  unfold tt_eps_abs, tt_eps, u64, eta64. interval.
Qed.

(* increment 1e-6 (the binary64 number nearest to it), offset 0, n = 10^6 *)
Definition c_1em6 : float := 0x1.0c6f7a0b5ed8dp-20%float.
Lemma FR_1em6 : FR c_1em6 = 4722366482869645 / 4722366482869645213696.
Proof. unfold c_1em6. fr_lit. Qed.
Lemma FR_1em6_near : Rabs (FR c_1em6 - 1e-6) <= 4.6e-23.
Proof. rewrite FR_1em6. interval with (i_prec 120). Qed.

Lemma ex_micro_point : time_track_f 0 c_1em6 1000000 123456 = 0x1.f9acffa7eb6bfp-4%float.
Proof. vm_compute. reflexivity. Qed.

Lemma ex_micro_bound : forall i, (0 <= i < 1000000)%Z ->
  Ffin (time_track_f 0 c_1em6 1000000 i) /\
  Rabs (FR (time_track_f 0 c_1em6 1000000 i) - IZR i * FR c_1em6) <= 6.7e-16 /\
  Rabs (FR (time_track_f 0 c_1em6 1000000 i) - IZR i * 1e-6) <= 7.2e-16.
Proof.
  intros i Hi.
  assert (Hc : Ffin c_1em6) by (apply Ffin_prim; reflexivity).
  assert (Hn : (2 <= 1000000 <= 2 ^ 53)%Z) by (split; [lia|discriminate]).
  destruct (time_track_rounding_proof _ _ 1000000 i Ffin_zero Hc Hn Hi) as [Hf He].
  { rewrite FR_zero, FR_1em6. change (1000000 - 1)%Z with 999999%Z. unfold ovf64. interval. }
  rewrite FR_zero, Rplus_0_l in He. change (1000000 - 1)%Z with 999999%Z in He.
  assert (Hi' : 0 <= IZR i <= 999999) by (split; apply IZR_le; lia).
  assert (Hb : tt_eps (Rabs 0) (999999 * Rabs (FR c_1em6)) (IZR i) <= 6.7e-16).
  { rewrite FR_1em6. unfold tt_eps, u64, eta64. interval. }
  split; [exact Hf|]. split; [lra|].
  replace (FR (time_track_f 0 c_1em6 1000000 i) - IZR i * 1e-6)
    with ((FR (time_track_f 0 c_1em6 1000000 i) - IZR i * FR c_1em6) + IZR i * (FR c_1em6 - 1e-6)) by ring.
  apply Rle_trans with (1 := Rabs_triang _ _).
  pose proof FR_1em6_near as Hnear.
  assert (Rabs (IZR i * (FR c_1em6 - 1e-6)) <= 999999 * 4.6e-23).
  { rewrite Rabs_mult, (Rabs_pos_eq (IZR i)) by lra. apply Rmult_le_compat; try lra. apply Rabs_pos. }
  lra.
Qed.

(* outside the no-overflow hypothesis: (n-1) * increment overflows, step is infinite and the
   first point 0 * inf + offset is NaN, not the offset (np.linspace(0, inf, 3) = [nan, inf, inf]) *)
Lemma ex_first_point_overflow :
  PrimFloat.is_nan (time_track_f 0 0x1.1ccf385ebc8ap+1023 3 0) = true /\
  time_track_f 0 0x1.1ccf385ebc8ap+1023 3 1 = infinity.
Proof. split; vm_compute; reflexivity. Qed.

(* the first point equals the offset as a real number; as a bit pattern -0.0 becomes +0.0 *)
Lemma ex_first_point_negzero :
  time_track_f (-0)%float 1 3 0 = 0%float /\ (-0)%float <> 0%float.
Proof.
  split; [vm_compute; reflexivity|]. intros H.
  assert (Hc : classify (-0)%float = classify 0%float) by (rewrite H; reflexivity).
  vm_compute in Hc. discriminate.
Qed.

Theorem time_track_rounding_coarse_proof : forall o c n i,
  Ffin o -> Ffin c -> (2 <= n <= 2 ^ 53)%Z -> (0 <= i < n)%Z ->
  Rabs (FR o) + IZR (n - 1) * Rabs (FR c) <= ovf64 / 2 ->
  Rabs (FR (time_track_f o c n i) - (FR o + IZR i * FR c))
    <= 6.01 * u64 * (Rabs (FR o) + IZR n * Rabs (FR c)) + 1.01 * (IZR n + 5) * eta64.
Proof.
  intros o c n i Ho Hc Hn Hi HV.
  destruct (time_track_rounding_proof o c n i Ho Hc Hn Hi HV) as [_ He].
  apply Rle_trans with (1 := He). rewrite minus_IZR.
  apply tt_eps_coarse; try apply Rabs_pos.
  - apply IZR_le. lia.
  - split; [apply IZR_le; lia|]. rewrite <- minus_IZR. apply IZR_le. lia.
Qed.

(* composition with the exact-arithmetic model of Props/C12.v (time_track_point) *)
Theorem time_track_rounding_vs_R_proof : forall o c n i,
  Ffin o -> Ffin c -> (2 <= n <= 2 ^ 53)%Z -> (0 <= i < n)%Z ->
  Rabs (FR o) + IZR (n - 1) * Rabs (FR c) <= ovf64 / 2 ->
  exists y x,
    nth_error (time_track_fl o c n) (Z.to_nat i) = Some y /\
    nth_error (time_track_R (FR o) (FR c) (Z.to_nat n)) (Z.to_nat i) = Some x /\
    Ffin y /\
    Rabs (FR y - x) <= tt_eps (Rabs (FR o)) (IZR (n - 1) * Rabs (FR c)) (IZR i).
Proof.
  intros o c n i Ho Hc Hn Hi HV.
  destruct (time_track_rounding_proof o c n i Ho Hc Hn Hi HV) as [Hf He].
  exists (time_track_f o c n i), (FR o + IZR i * FR c).
  split; [apply time_track_fl_nth_proof; exact Hi|]. split.
  - rewrite (time_track_nth (FR o) (FR c) (Z.to_nat n) (Z.to_nat i)) by lia.
    rewrite INR_IZR_INZ, Z2Nat.id by lia. reflexivity.
  - split; assumption.
Qed.
