(* The strict parser inverts the canonical serialiser of the strict syntax
   (little-endian segments), and the positional strip computes the index twin. *)

From Coq Require Import List ZArith Bool Lia ZifyBool.
From Coq Require Import Init.Byte.
Import ListNotations.
From NpTdms Require Import Base.Bytes Base.Res Model.Tokens Model.TokensWf Model.ByteStr
  Model.StrictParse Proofs.TokensRoundtrip Proofs.ByteStrProofs.
Local Open Scope Z_scope.

(* ---- well-formed segment syntax --------------------------------------------------- *)

(* string data small enough for its u32 offsets *)
Definition strings_u32 (i : idx) (vals : list bytes) : bool :=
  match i with
  | IFull _ dt _ _ _ => if dt =? T_STRING then is_u32 (string_total vals) else true
  | _ => true
  end.

Fixpoint vals_wf (es : list entry) (vs : list (list bytes)) : bool :=
  match es, vs with
  | [], [] => true
  | x :: r, v :: vr => strings_u32 (e_idx x) v && vals_wf r vr
  | _, _ => false
  end.

Definition seg_wf (s : segsyn) : bool :=
  wf_leadin (sg_leadin s) && wf_metadata (sg_entries s) &&
  vals_wf (sg_entries s) (sg_values s) &&
  negb (toc_has (l_toc (sg_leadin s)) TOC_BIGENDIAN).

(* ---- fixed-size values -------------------------------------------------------------- *)

Lemma sized_type_pos dt k : sized_type dt = Some k -> 1 <= k.
Proof.
  unfold sized_type, tds_size. intros H.
  destruct (has_nptype dt || (dt =? T_TIME)); [|discriminate].
  repeat match type of H with
         | context [if ?c then _ else _] => destruct c
         end; try discriminate; injection H as <-; lia.
Qed.

Lemma get_value_ser dt k x r :
  blen x = k -> get_value LE dt k (store_value LE dt x ++ r) = Ok (x, r).
Proof.
  intros H. unfold get_value, store_value, canon_value.
  rewrite get_exact_app by exact H. reflexivity.
Qed.

Lemma parse_fixed_ser dt k vals rest :
  sized_type dt = Some k -> forallb (fun v => blen v =? k) vals = true ->
  parse_n (get_value LE dt k) (Z.of_nat (length vals)) (flat_map (store_value LE dt) vals ++ rest)
  = Ok (vals, rest).
Proof.
  intros Hk Hv. pose proof (sized_type_pos dt k Hk) as Hpos.
  apply parse_n_ser_ok with (ok := fun v => blen v =? k).
  - intros x r Hx. apply get_value_ser. lia.
  - intros x Hx. unfold store_value, canon_value. unfold blen in Hx. lia.
  - exact Hv.
Qed.

(* ---- strings -------------------------------------------------------------------------- *)

Fixpoint offsets_list (off : Z) (vals : list bytes) : list Z :=
  match vals with
  | [] => []
  | s :: r => (off + blen s) :: offsets_list (off + blen s) r
  end.

Lemma string_offsets_flat e off vals :
  string_offsets e off vals = flat_map (put_u32 e) (offsets_list off vals).
Proof.
  revert off. induction vals as [|s r IH]; intros off; cbn [string_offsets offsets_list flat_map].
  - reflexivity.
  - rewrite IH. reflexivity.
Qed.

Lemma offsets_list_length off vals : length (offsets_list off vals) = length vals.
Proof.
  revert off. induction vals as [|s r IH]; intros off; cbn [offsets_list length]; [reflexivity|].
  rewrite IH. reflexivity.
Qed.

Lemma string_total_nonneg vals : 0 <= string_total vals.
Proof.
  induction vals as [|s r IH]; cbn [string_total]; [lia|].
  pose proof (blen_nonneg s). lia.
Qed.

Lemma offsets_list_u32 off vals :
  0 <= off -> off + string_total vals < 4294967296 ->
  forallb is_u32 (offsets_list off vals) = true.
Proof.
  revert off. induction vals as [|s r IH]; intros off H0 H; cbn [offsets_list forallb]; [reflexivity|].
  cbn [string_total] in H. pose proof (blen_nonneg s) as Hs.
  pose proof (string_total_nonneg r) as Hr.
  apply andb_true_intro. split.
  - apply is_u32_spec. lia.
  - apply IH; lia.
Qed.

Lemma cut_strings_ser prev vals rest :
  cut_strings prev (offsets_list prev vals) (concat vals ++ rest) = Ok (vals, rest).
Proof.
  revert prev. induction vals as [|s r IH]; intros prev; cbn [offsets_list cut_strings concat].
  - reflexivity.
  - pose proof (blen_nonneg s) as Hs.
    replace (prev + blen s <? prev) with false by lia.
    rewrite <- app_assoc. rewrite get_exact_app by lia. cbn [bind].
    rewrite IH. reflexivity.
Qed.

Lemma blen_concat_total vals :
  blen (string_offsets LE 0 vals) + blen (concat vals) = string_total vals.
Proof.
  rewrite string_offsets_flat. generalize 0 at 1. induction vals as [|s r IH]; intros off.
  - reflexivity.
  - cbn [offsets_list flat_map concat string_total]. rewrite !blen_app.
    specialize (IH (off + blen s)). unfold put_u32 at 1. rewrite blen_u_enc. lia.
Qed.

Lemma parse_strings_ser lf dim vals rest :
  is_u32 (string_total vals) = true ->
  parse_obj_raw LE (IFull lf T_STRING dim (Z.of_nat (length vals)) (Some (string_total vals)))
    ((string_offsets LE 0 vals ++ concat vals) ++ rest) = Ok (vals, rest).
Proof.
  intros Hu. apply is_u32_spec in Hu.
  unfold parse_obj_raw. rewrite Z.eqb_refl.
  rewrite <- app_assoc. rewrite string_offsets_flat.
  rewrite <- (offsets_list_length 0 vals).
  rewrite (parse_n_ser (get_u32 LE) (put_u32 LE) is_u32).
  - cbn [bind]. rewrite cut_strings_ser. cbn [bind].
    rewrite <- string_offsets_flat. rewrite !blen_app.
    pose proof (blen_concat_total vals) as Ht.
    replace (string_total vals =?
             blen (string_offsets LE 0 vals) + (blen (concat vals) + blen rest) - blen rest)
      with true by lia.
    reflexivity.
  - intros x r Hx. apply get_u32_put. exact Hx.
  - apply put_u32_length_ge.
  - apply offsets_list_u32; lia.
Qed.

(* ---- one object, all objects ------------------------------------------------------------ *)

Lemma parse_obj_raw_ser i vals rest :
  idx_ok i vals = true -> strings_u32 i vals = true ->
  parse_obj_raw LE i (ser_obj_raw LE i vals ++ rest) = Ok (vals, rest).
Proof.
  intros Hok Hs. destruct i as [| |lf dt dim n total|]; cbn [idx_ok] in Hok; try discriminate.
  - destruct vals; [reflexivity|discriminate].
  - apply andb_prop in Hok. destruct Hok as [Hok Hty].
    apply andb_prop in Hok. destruct Hok as [Hdim Hn].
    assert (n = Z.of_nat (length vals)) by lia. subst n.
    cbn [strings_u32] in Hs. cbn [ser_obj_raw].
    destruct (dt =? T_STRING) eqn:Es.
    + assert (dt = T_STRING) by lia. subst dt.
      destruct total as [t|]; [|apply andb_prop in Hty; destruct Hty; discriminate].
      apply andb_prop in Hty. destruct Hty as [_ Ht].
      assert (t = string_total vals) by lia. subst t.
      apply parse_strings_ser. exact Hs.
    + apply andb_prop in Hty. destruct Hty as [Hty Hsz].
      destruct (sized_type dt) as [k|] eqn:Ek; [|discriminate].
      unfold parse_obj_raw. rewrite Es, Ek.
      apply parse_fixed_ser; assumption.
Qed.

Lemma parse_raw_ser es : forall vs rest,
  idxs_ok es vs = true -> vals_wf es vs = true ->
  parse_raw LE es (ser_raw LE es vs ++ rest) = Ok (vs, rest).
Proof.
  induction es as [|x r IH]; intros vs rest Hok Hwf; destruct vs as [|v vr];
    cbn [idxs_ok] in Hok; try discriminate.
  - reflexivity.
  - apply andb_prop in Hok. destruct Hok as [Hx Hr].
    cbn [vals_wf] in Hwf. apply andb_prop in Hwf. destruct Hwf as [Hsx Hsr].
    cbn [parse_raw ser_raw]. rewrite <- app_assoc.
    rewrite parse_obj_raw_ser by assumption. cbn [bind].
    rewrite IH by assumption. reflexivity.
Qed.

Lemma blen_flat_fixed dt k vals :
  forallb (fun v => blen v =? k) vals = true ->
  blen (flat_map (store_value LE dt) vals) = k * Z.of_nat (length vals).
Proof.
  induction vals as [|v r IH]; intros H; cbn [flat_map length forallb] in *.
  - unfold blen. cbn. lia.
  - apply andb_prop in H. destruct H as [Hv Hr]. rewrite blen_app, IH by exact Hr.
    unfold store_value, canon_value. lia.
Qed.

Lemma idx_raw_size_ser i vals :
  idx_ok i vals = true -> idx_raw_size i = blen (ser_obj_raw LE i vals).
Proof.
  intros Hok. destruct i as [| |lf dt dim n total|]; cbn [idx_ok] in Hok; try discriminate.
  - reflexivity.
  - apply andb_prop in Hok. destruct Hok as [Hok Hty].
    apply andb_prop in Hok. destruct Hok as [Hdim Hn].
    cbn [idx_raw_size ser_obj_raw]. destruct (dt =? T_STRING) eqn:Es.
    + destruct total as [t|]; [|apply andb_prop in Hty; destruct Hty; discriminate].
      apply andb_prop in Hty. destruct Hty as [_ Ht].
      rewrite blen_app. pose proof (blen_concat_total vals). lia.
    + apply andb_prop in Hty. destruct Hty as [Hty Hsz].
      destruct (sized_type dt) as [k|] eqn:Ek; [|discriminate].
      rewrite (blen_flat_fixed dt k) by exact Hsz. lia.
Qed.

Lemma raw_size_ser es : forall vs,
  idxs_ok es vs = true -> raw_size es = blen (ser_raw LE es vs).
Proof.
  induction es as [|x r IH]; intros vs Hok; destruct vs as [|v vr]; cbn [idxs_ok] in Hok;
    try discriminate.
  - reflexivity.
  - apply andb_prop in Hok. destruct Hok as [Hx Hr].
    cbn [raw_size ser_raw]. rewrite blen_app, <- IH by exact Hr.
    rewrite (idx_raw_size_ser _ v) by exact Hx. reflexivity.
Qed.

(* ---- one segment --------------------------------------------------------------------------- *)

Lemma drop_app_len a b n : n = blen a -> drop n (a ++ b) = b.
Proof. intros ->. apply drop_app_exact. Qed.

Lemma take_app_len a b n : n = blen a -> take n (a ++ b) = a.
Proof. intros ->. apply take_app_exact. Qed.

Lemma toc_endian_le toc : toc_has toc TOC_BIGENDIAN = false -> toc_endian toc = LE.
Proof. intros H. unfold toc_endian. rewrite H. reflexivity. Qed.

Theorem parse_segment_ser : forall s first declared rest,
  seg_wf s = true -> seg_ok first declared s = true ->
  parse_segment (ser_segment s ++ rest) = Ok (s, rest).
Proof.
  intros [l es vs] first declared rest Hwf Hok.
  unfold seg_wf in Hwf. cbn [sg_leadin sg_entries sg_values] in Hwf.
  apply andb_prop in Hwf. destruct Hwf as [Hwf Hle].
  apply andb_prop in Hwf. destruct Hwf as [Hwf Hvw].
  apply andb_prop in Hwf. destruct Hwf as [Hl Hm].
  apply negb_true_iff in Hle. pose proof (toc_endian_le _ Hle) as He.
  unfold seg_ok in Hok. cbn [sg_leadin sg_entries sg_values] in Hok. rewrite He in Hok.
  apply andb_prop in Hok. destruct Hok as [Hok _].
  apply andb_prop in Hok. destruct Hok as [Hok _].
  apply andb_prop in Hok. destruct Hok as [Hok _].
  apply andb_prop in Hok. destruct Hok as [Hok Hidx].
  apply andb_prop in Hok. destruct Hok as [Hok _].
  apply andb_prop in Hok. destruct Hok as [Hok Hnext].
  apply andb_prop in Hok. destruct Hok as [_ Hraw].
  pose proof (ser_leadin_length l Hl) as Hl28.
  pose proof (raw_size_ser es vs Hidx) as Hrs.
  unfold ser_segment. cbn [sg_leadin sg_entries sg_values]. rewrite He.
  set (meta := ser_metadata LE es) in *. set (raw := ser_raw LE es vs) in *.
  set (lead := ser_leadin l) in *.
  assert (Hraw' : l_raw l = blen meta) by lia.
  assert (Hnext' : l_next l = blen meta + blen raw) by lia.
  pose proof (blen_nonneg meta) as Hmn. pose proof (blen_nonneg raw) as Hrn.
  pose proof (blen_nonneg rest) as Hren.
  unfold parse_segment.
  rewrite <- !app_assoc.
  replace (blen (lead ++ meta ++ raw ++ rest) <? 28) with false by (rewrite !blen_app; lia).
  rewrite (take_app_len lead) by lia.
  unfold lead at 1. rewrite (parse_leadin_ser l Hl). cbn [bind]. cbv zeta. rewrite He.
  replace ((l_raw l <=? l_next l) && (28 + l_next l <=? blen (lead ++ meta ++ raw ++ rest)))
    with true by (rewrite !blen_app; lia).
  cbn [negb].
  rewrite (drop_app_len lead) by lia.
  rewrite (take_app_len meta) by lia.
  pose proof (parse_metadata_ser LE es [] Hm) as Hpm. rewrite app_nil_r in Hpm.
  fold meta in Hpm. rewrite Hpm. cbn [bind].
  rewrite bytes_eqb_refl. cbn [negb].
  replace (lead ++ meta ++ raw ++ rest) with ((lead ++ meta) ++ raw ++ rest)
    by (rewrite <- app_assoc; reflexivity).
  rewrite (drop_app_len (lead ++ meta)) by (rewrite blen_app; lia).
  rewrite (take_app_len raw) by lia.
  pose proof (parse_raw_ser es vs [] Hidx Hvw) as Hpr. rewrite app_nil_r in Hpr.
  fold raw in Hpr. rewrite Hpr. cbn [bind].
  replace ((lead ++ meta) ++ raw ++ rest) with (((lead ++ meta) ++ raw) ++ rest)
    by (rewrite <- !app_assoc; reflexivity).
  rewrite (drop_app_len ((lead ++ meta) ++ raw)) by (rewrite !blen_app; lia).
  reflexivity.
Qed.

(* ---- all segments --------------------------------------------------------------------------- *)

Lemma ser_segment_length_ge s : seg_wf s = true -> (1 <= length (ser_segment s))%nat.
Proof.
  intros Hwf. unfold seg_wf in Hwf.
  assert (Hl : wf_leadin (sg_leadin s) = true) by lia.
  pose proof (ser_leadin_length _ Hl) as H28. unfold ser_segment. rewrite app_length.
  unfold blen in H28. lia.
Qed.

Lemma parse_segments_ser : forall segs first declared fuel,
  forallb seg_wf segs = true -> segs_ok first declared segs = true ->
  (length segs <= fuel)%nat ->
  parse_segments fuel (flat_map ser_segment segs) = Ok segs.
Proof.
  induction segs as [|s r IH]; intros first declared fuel Hwf Hok Hfuel.
  - destruct fuel; reflexivity.
  - cbn [forallb] in Hwf. apply andb_prop in Hwf. destruct Hwf as [Hs Hr].
    cbn [segs_ok] in Hok. apply andb_prop in Hok. destruct Hok as [Hos Hor].
    cbn [length] in Hfuel. destruct fuel as [|f]; [lia|].
    cbn [flat_map].
    pose proof (ser_segment_length_ge s Hs) as Hlen.
    destruct (ser_segment s ++ flat_map ser_segment r) as [|b bs] eqn:E.
    + apply (f_equal (@length byte)) in E. rewrite app_length in E. cbn [length] in E. lia.
    + cbn [parse_segments]. rewrite <- E.
      rewrite (parse_segment_ser s first declared) by assumption. cbn [bind].
      rewrite (IH false (rev (map e_path (sg_entries s)) ++ declared) f) by (try assumption; lia).
      reflexivity.
Qed.

Theorem strict_parse_ser : forall segs,
  forallb seg_wf segs = true -> segs_ok true [] segs = true ->
  strict_parse (flat_map ser_segment segs) = Some segs.
Proof.
  intros segs Hwf Hok. unfold strict_parse.
  rewrite (parse_segments_ser segs true []); try assumption.
  - rewrite Hok. reflexivity.
  - apply flat_map_length_ge_ok with (ok := seg_wf); [|exact Hwf].
    intros x Hx. apply ser_segment_length_ge. exact Hx.
Qed.

(* ---- the index twin ----------------------------------------------------------------------------- *)

Lemma ser_leadin_split l :
  exists x, ser_leadin l = l_tag l ++ x /\ ser_leadin (retag l) = TAG_INDEX ++ x /\ blen x = 24.
Proof.
  unfold ser_leadin, retag. cbn [l_tag l_toc l_version l_next l_raw].
  eexists. split; [reflexivity|]. split; [reflexivity|].
  unfold s_enc, put_u64. rewrite !blen_app, !blen_u_enc. reflexivity.
Qed.

Lemma strip_segment_ser s first declared rest fuel out :
  seg_wf s = true -> seg_ok first declared s = true ->
  strip_fuel fuel rest = Ok out ->
  strip_fuel (S fuel) (ser_segment s ++ rest) = Ok (ser_index_segment s ++ out).
Proof.
  destruct s as [l es vs]. intros Hwf Hok Hrest.
  unfold seg_wf in Hwf. cbn [sg_leadin sg_entries sg_values] in Hwf.
  apply andb_prop in Hwf. destruct Hwf as [Hwf Hle].
  apply andb_prop in Hwf. destruct Hwf as [Hwf Hvw].
  apply andb_prop in Hwf. destruct Hwf as [Hl Hm].
  apply negb_true_iff in Hle. pose proof (toc_endian_le _ Hle) as He.
  unfold seg_ok in Hok. cbn [sg_leadin sg_entries sg_values] in Hok. rewrite He in Hok.
  apply andb_prop in Hok. destruct Hok as [Hok _].
  apply andb_prop in Hok. destruct Hok as [Hok _].
  apply andb_prop in Hok. destruct Hok as [Hok _].
  apply andb_prop in Hok. destruct Hok as [Hok Hidx].
  apply andb_prop in Hok. destruct Hok as [Hok _].
  apply andb_prop in Hok. destruct Hok as [Hok Hnext].
  apply andb_prop in Hok. destruct Hok as [_ Hraw].
  pose proof (ser_leadin_length l Hl) as Hl28.
  pose proof (raw_size_ser es vs Hidx) as Hrs.
  destruct (ser_leadin_split l) as [x [Hx1 [Hx2 Hx24]]].
  assert (Htag : blen (l_tag l) = 4).
  { clear - Hl. unfold wf_leadin in Hl. repeat (apply andb_prop in Hl; destruct Hl as [Hl _]).
    apply Z.eqb_eq in Hl. exact Hl. }
  unfold ser_segment, ser_index_segment. cbn [sg_leadin sg_entries sg_values]. rewrite He.
  set (meta := ser_metadata LE es) in *. set (raw := ser_raw LE es vs) in *.
  assert (Hraw' : l_raw l = blen meta) by lia.
  assert (Hnext' : l_next l = blen meta + blen raw) by lia.
  pose proof (blen_nonneg meta) as Hmn. pose proof (blen_nonneg raw) as Hrn.
  pose proof (blen_nonneg rest) as Hren.
  rewrite <- !app_assoc.
  destruct (ser_leadin l ++ meta ++ raw ++ rest) as [|b bs] eqn:E.
  { apply (f_equal (@length byte)) in E. rewrite app_length in E. cbn [length] in E.
    unfold blen in Hl28. lia. }
  cbn [strip_fuel]. rewrite <- E.
  replace (blen (ser_leadin l ++ meta ++ raw ++ rest) <? 28) with false by (rewrite !blen_app; lia).
  rewrite (take_app_len (ser_leadin l)) by lia.
  rewrite (parse_leadin_ser l Hl). cbn [bind].
  replace ((l_raw l <=? l_next l) &&
           (28 + l_next l <=? blen (ser_leadin l ++ meta ++ raw ++ rest)))
    with true by (rewrite !blen_app; lia).
  cbn [negb].
  replace (ser_leadin l ++ meta ++ raw ++ rest) with (((ser_leadin l ++ meta) ++ raw) ++ rest) at 1
    by (rewrite <- !app_assoc; reflexivity).
  rewrite (drop_app_len ((ser_leadin l ++ meta) ++ raw)) by (rewrite !blen_app; lia).
  rewrite Hrest. cbn [bind].
  rewrite (drop_app_len (ser_leadin l) _ 28) by lia.
  rewrite (take_app_len meta) by lia.
  rewrite Hx1 at 1. rewrite <- app_assoc.
  rewrite (drop_app_len (l_tag l) _ 4) by lia.
  rewrite (take_app_len x) by lia.
  rewrite Hx2. rewrite <- !app_assoc. reflexivity.
Qed.

Lemma strip_segments_ser : forall segs first declared fuel,
  forallb seg_wf segs = true -> segs_ok first declared segs = true ->
  (length segs <= fuel)%nat ->
  strip_fuel fuel (flat_map ser_segment segs) = Ok (flat_map ser_index_segment segs).
Proof.
  induction segs as [|s r IH]; intros first declared fuel Hwf Hok Hfuel.
  - destruct fuel; reflexivity.
  - cbn [forallb] in Hwf. apply andb_prop in Hwf. destruct Hwf as [Hs Hr].
    cbn [segs_ok] in Hok. apply andb_prop in Hok. destruct Hok as [Hos Hor].
    cbn [length] in Hfuel. destruct fuel as [|f]; [lia|].
    cbn [flat_map].
    apply (strip_segment_ser s first declared); try assumption.
    apply (IH false (rev (map e_path (sg_entries s)) ++ declared)); try assumption. lia.
Qed.

Theorem strip_ser : forall segs,
  forallb seg_wf segs = true -> segs_ok true [] segs = true ->
  strip_raw_and_retag (flat_map ser_segment segs) = Some (flat_map ser_index_segment segs).
Proof.
  intros segs Hwf Hok. unfold strip_raw_and_retag.
  rewrite (strip_segments_ser segs true []); try assumption; [reflexivity|].
  apply flat_map_length_ge_ok with (ok := seg_wf); [|exact Hwf].
  intros x Hx. apply ser_segment_length_ge. exact Hx.
Qed.
