(* Proofs/ThermoAll.v -- the per-type generated results (Gen/Thermo_<T>.v) collected over
   the eight types, and the bit-exact comparison of the code's forward tables with the
   vendored NIST tables. *)
From Coq Require Import Reals ZArith List PrimFloat.
Import ListNotations.
From NpTdms Require Import Gen.ThermoTables.
From NpTdms Require Import Gen.ThermoNist.
From NpTdms Require Import Model.ThermoR.
From NpTdms Require Gen.Thermo_b.
From NpTdms Require Gen.Thermo_e.
From NpTdms Require Gen.Thermo_j.
From NpTdms Require Gen.Thermo_k.
From NpTdms Require Gen.Thermo_n.
From NpTdms Require Gen.Thermo_r.
From NpTdms Require Gen.Thermo_s.
From NpTdms Require Gen.Thermo_t.

(* The NIST table of a type, written the way the code writes it: the first piece open to
   the left and the last open to the right (the code extrapolates beyond the NIST range),
   every interior boundary and every coefficient as NIST gives them. *)
Fixpoint open_ends (first : bool) (l : list (float * float * list float)) : list pieceF :=
  match l with
  | [] => []
  | (a, b, cs) :: r =>
    ((if first then None else Some a), (match r with [] => None | _ => Some b end), cs)
      :: open_ends false r
  end.

(* equality of binary64 values by computation: identical bit patterns *)
Lemma tables_are_nist_all : forall T,
  code_fwdF T = open_ends true (nist_fwd T) /\
  code_expF T = nist_exp T /\
  code_fwd_expon T = nist_expon T.
Proof. intros T; destruct T; repeat split; vm_compute; reflexivity. Qed.

Definition fwd_pm (T : tctype) : list (pieceR * bool) := combine (code_fwdR T) (code_fwd_expon T).

Lemma formulas_valid_all : forall T, Forall (formula_valid (code_expR T)) (fwd_pm T).
Proof.
  intros T; destruct T;
    [exact Thermo_b.formulas_valid_b | exact Thermo_e.formulas_valid_e | exact Thermo_j.formulas_valid_j
    |exact Thermo_k.formulas_valid_k | exact Thermo_n.formulas_valid_n | exact Thermo_r.formulas_valid_r
    |exact Thermo_s.formulas_valid_s | exact Thermo_t.formulas_valid_t].
Qed.

Lemma boundary_gaps_all : forall T, boundary_gaps (code_expR T) (fwd_pm T) 1e-6.
Proof.
  intros T; destruct T;
    [exact Thermo_b.boundary_gaps_b | exact Thermo_e.boundary_gaps_e | exact Thermo_j.boundary_gaps_j
    |exact Thermo_k.boundary_gaps_k | exact Thermo_n.boundary_gaps_n | exact Thermo_r.boundary_gaps_r
    |exact Thermo_s.boundary_gaps_s | exact Thermo_t.boundary_gaps_t].
Qed.

Lemma increasing_all : forall T, increasing_on_pieces (code_expR T) (fwd_pm T) (mono_range T).
Proof.
  intros T; destruct T;
    [exact Thermo_b.increasing_b | exact Thermo_e.increasing_e | exact Thermo_j.increasing_j
    |exact Thermo_k.increasing_k | exact Thermo_n.increasing_n | exact Thermo_r.increasing_r
    |exact Thermo_s.increasing_s | exact Thermo_t.increasing_t].
Qed.

Lemma inverse_accurate_all : forall T,
  inverse_accurate (code_expR T) (code_fwdR T) (code_invR T) (inv_spec T).
Proof.
  intros T; destruct T;
    [exact Thermo_b.inverse_accurate_b | exact Thermo_e.inverse_accurate_e | exact Thermo_j.inverse_accurate_j
    |exact Thermo_k.inverse_accurate_k | exact Thermo_n.inverse_accurate_n | exact Thermo_r.inverse_accurate_r
    |exact Thermo_s.inverse_accurate_s | exact Thermo_t.inverse_accurate_t].
Qed.

(* (d) through ThermocoupleScaling in both directions (microvolts): temperature -> uV -> temperature *)
Lemma scaling_roundtrip_all : forall T tl th lo hi, In (tl, th, lo, hi) (inv_spec T) ->
  forall t uv t', (tl <= t <= th)%R ->
    scale_value (code_expR T) (code_fwdR T) (code_invR T) 1 t uv ->
    scale_value (code_expR T) (code_fwdR T) (code_invR T) 0 uv t' ->
    (lo <= t' - t <= hi)%R.
Proof.
  intros T tl th lo hi Hspec t uv t' Ht H1 H0.
  unfold scale_value in H1, H0. simpl in H1, H0.
  destruct H1 as [mv [Hf Huv]]. subst uv.
  replace (1000 * mv / 1000)%R with mv in H0 by (field).
  exact (inverse_accurate_all T tl th lo hi Hspec t mv t' Ht Hf H0).
Qed.
