(* C06, lazy = eager on a cut file, layer 1: the per-channel view that
   Model/LazyBytes.v computes for a segment whose raw data block has been CUT.

   TruncValuesLayout.cut_segment_decodes says what the chunk decoders return for
   the cut block (values are per path a prefix, their number is what the
   metadata pass credits).  The lazy reader looks at more: LazyBytes.segv_of
   lists the values chunk by chunk, and LazyRead.lz_read is only known to return
   windows (Props/C04 window_correct) when that list is well formed
   (LazyRead.wf_seg): exactly sg_nchunks chunks, each but the last holding the
   channel's number_values, the last holding the channel's entry of the
   final-chunk override (0 when it has none).  Proved here:

     cut_contig_shape     the chunks the contiguous reader returns on the cut
                          block, chunk by chunk (TruncValuesLayout proves what they
                          hold per path; here the list structure is kept)
     final_lookup_other   the override has no entry for a path that is not the
                          path of a data object
     segv_contig_shape    contiguous: the view is well formed and holds the decoded
                          values
     split_fit            interleaved: the single column, cut into pieces of
                          number_values and padded to sg_nchunks entries, has the
                          chunk lengths the metadata says (a final chunk of 0
                          rows included)
     segv_of_cut          both layouts: on the bytes of a file that ends inside the
                          segment's raw data, read_segment and segv_of succeed;
                          the view is well formed, holds exactly the values the
                          eager decoder returns for the path, and counts what the
                          metadata pass credits. *)
From Coq Require Import List ZArith Bool Lia ZifyBool.
From Coq Require Import Init.Byte.
Import ListNotations.
From NpTdms Require Import Base.Bytes Base.Res Base.PySlice Model.Tokens Model.TokensWf Model.SegState
     Model.Layout Model.Reader Model.FileSyn Model.LazyRead Model.LazyBytes
     Proofs.TokensRoundtrip Proofs.SegStateProofs Proofs.LayoutProofs Proofs.FileSynProofs
     Proofs.SegStateInherit Proofs.TruncProofs Proofs.ReadCorrect Proofs.TruncValuesLayout
     Proofs.LazyReadLemmas Proofs.LazyReadProofs Proofs.LazyEagerIndex Proofs.LazyEagerView.
Local Open Scope Z_scope.
Ltac Zify.zify_post_hook ::= Z.to_euclidean_division_equations.

(* ---- the final-chunk override only names data objects ----------------------------- *)

Lemma final_lookup_other toc objs csize rem f p :
  have_daqmx objs = Ok false ->
  final_chunk_lengths toc true objs csize rem = Ok f ->
  NoDup (map so_path (data_objs objs)) ->
  (forall o, In o (data_objs objs) -> 0 <= so_nvals o) ->
  0 <= rem ->
  ~ In p (map so_path (data_objs objs)) -> lookup0 p f = 0.
Proof.
  intros Hd Hf Hnd Hnv Hrem Hp. rewrite (final_chunk_lengths_cases _ _ _ _ Hd) in Hf. injection Hf as <-.
  unfold lookup0. destruct (existsb unsized_b (data_objs objs)); [reflexivity|].
  destruct (toc_has toc TOC_INTERLEAVED).
  - unfold prop_final. rewrite prop_fold_other by exact Hp. reflexivity.
  - destruct (contig_final_gen objs rem [] Hnd Hnv Hrem) as (pre & rest & _ & _ & _ & Hout & _).
    rewrite (Hout p Hp). reflexivity.
Qed.

(* what the lazy side needs to know about the override of a cut segment *)
Definition final_ok (objs : list sobj) (nchunks : Z) (final : option (alist Z)) : Prop :=
  forall f, final = Some f ->
            1 <= nchunks /\
            (forall o, In o (data_objs objs) -> 0 <= lookup0 (so_path o) f <= so_nvals o) /\
            (forall q, ~ In q (map so_path (data_objs objs)) -> lookup0 q f = 0).

Lemma cut_final_ok g lay j csize n fin :
  seg_layout g = Ok lay -> lay <> LDaqmx ->
  chunk_size (sg_objs g) = Ok csize -> 0 < csize -> 0 <= j ->
  NoDup (map so_path (data_objs (sg_objs g))) ->
  (forall o, In o (data_objs (sg_objs g)) -> 0 <= so_nvals o) ->
  calculate_chunks (sg_toc g) true (sg_objs g) j = Ok (n, fin) ->
  final_ok (sg_objs g) n fin.
Proof.
  intros Hlay Hnd Hcs Hpos Hj Hnodup Hnv Hcc f Hf.
  destruct (calculate_chunks_count _ _ _ _ _ _ _ Hcs Hpos Hj Hcc) as (Hn & Hnone & Hsome).
  destruct (Z.eq_dec (j mod csize) 0) as [Hrem|Hrem].
  - rewrite (Hnone Hrem) in Hf. discriminate.
  - destruct (Hsome Hrem) as (f' & Hfin & Hf'). rewrite Hfin in Hf. injection Hf as ->.
    pose proof (seg_layout_no_daqmx g lay Hlay Hnd) as Hndq.
    pose proof (Z.mod_pos_bound j csize Hpos) as Hrb.
    split; [|split].
    + rewrite Hn. unfold nchunks_of. replace (j mod csize =? 0) with false by lia.
      assert (0 <= j / csize) by (apply Z.div_pos; lia). lia.
    + intros o Ho.
      apply (final_chunk_lengths_le (sg_toc g) true (sg_objs g) csize (j mod csize) f o); assumption.
    + intros q Hq.
      apply (final_lookup_other (sg_toc g) (sg_objs g) csize (j mod csize) f q); try assumption. lia.
Qed.

(* ---- contiguous: the chunks of the cut block, one by one --------------------------- *)

Theorem cut_contig_shape g gc css j :
  seg_layout g = Ok LContig ->
  0 < zsum (map so_dsize (data_objs (sg_objs g))) ->
  NoDup (map so_path (data_objs (sg_objs g))) ->
  Forall (fun vss => Forall2 (fun o vs => vals_ok (so_nvals o) o vs) (data_objs (sg_objs g)) vss) css ->
  Forall (Forall2 (dsize_ok (toc_endian (sg_toc g))) (data_objs (sg_objs g))) css ->
  0 <= j < blen (enc_chunks (toc_endian (sg_toc g)) (data_objs (sg_objs g)) css) ->
  sg_toc gc = sg_toc g -> sg_objs gc = sg_objs g ->
  calculate_chunks (sg_toc g) true (sg_objs g) j = Ok (sg_nchunks gc, sg_final gc) ->
  exists css' lo,
    read_segment_chunks gc (take j (enc_chunks (toc_endian (sg_toc g)) (data_objs (sg_objs g)) css))
    = Ok (map (fun vss => chunk_of (combine (data_objs (sg_objs g)) vss)) css', lo) /\
    sg_nchunks gc = Z.of_nat (length css') /\
    (forall k vss, nth_error css' k = Some vss ->
                   chunk_vals_ok (data_objs (sg_objs g)) (Z.of_nat (length css')) (sg_final gc) k vss).
Proof.
  intros Hlay Hpos Hnd Hok Hds Hj Htoc Hobjs Hcc.
  set (e := toc_endian (sg_toc g)) in *. set (dobjs := data_objs (sg_objs g)) in *.
  set (csize := zsum (map so_dsize dobjs)) in *.
  pose proof (seg_layout_contig_chunk_size g Hlay) as Hcs. fold dobjs csize in Hcs.
  pose proof (enc_chunks_blen e dobjs css Hds) as Hlen. fold csize in Hlen. rewrite Hlen in Hj.
  assert (Hblk : Forall (fun vss => blen (enc_chunk e (combine dobjs vss)) = csize) css).
  { eapply Forall_impl; [|exact Hds]. intros vss. apply enc_chunk_blen. }
  assert (Hj' : 0 <= j <= Z.of_nat (length css) * csize) by lia.
  pose proof (take_blocks (fun vss => enc_chunk e (combine dobjs vss)) csize Hpos css j Hblk Hj')
    as Htake.
  change (flat_map (fun vss => enc_chunk e (combine dobjs vss)) css)
    with (enc_chunks e dobjs css) in Htake.
  set (q := Z.to_nat (j / csize)) in *.
  assert (Hq0 : 0 <= j / csize) by (apply Z.div_pos; lia).
  assert (Hq : (q < length css)%nat).
  { assert (j / csize < Z.of_nat (length css)) by (apply Z.div_lt_upper_bound; lia). lia. }
  assert (Hqz : Z.of_nat q = j / csize) by lia.
  destruct (nth_error css q) as [vssq|] eqn:Enth; [|apply nth_error_None in Enth; lia].
  destruct (nth_error_split css q Enth) as (l1 & l2 & Hcss & Hl1).
  assert (Hfirst : firstn q css = l1) by (rewrite Hcss, <- Hl1; apply firstn_app_exact).
  rewrite Hfirst in Htake.
  change (flat_map (fun vss => enc_chunk e (combine dobjs vss)) l1) with (enc_chunks e dobjs l1) in Htake.
  assert (Hl1in : forall vss, In vss l1 -> In vss css).
  { intros vss H. rewrite Hcss. apply in_or_app. left. exact H. }
  assert (Hokq : Forall2 (fun o vs => vals_ok (so_nvals o) o vs) dobjs vssq).
  { rewrite Forall_forall in Hok. apply Hok. exact (nth_error_In _ _ Enth). }
  destruct (calculate_chunks_count _ _ _ _ _ _ _ Hcs Hpos (proj1 Hj) Hcc) as (Hn & Hnone & Hsome).
  assert (Hlayc : seg_layout gc = Ok LContig) by (rewrite (seg_layout_ext gc g Htoc Hobjs); exact Hlay).
  assert (Hne : (length l1 <= length (enc_chunks e dobjs l1))%nat).
  { apply enc_chunks_length_ge. apply Forall_forall. intros vss Hin Hnil.
    rewrite Forall_forall in Hblk. pose proof (Hblk vss (Hl1in vss Hin)) as Hb.
    rewrite Hnil in Hb. cbn in Hb. lia. }
  assert (Hokl1 : forall k vss, nth_error l1 k = Some vss ->
                                Forall2 (fun o vs => vals_ok (so_nvals o) o vs) dobjs vss).
  { intros k vss Hk. rewrite Forall_forall in Hok. apply Hok, Hl1in. exact (nth_error_In _ _ Hk). }
  destruct (Z.eq_dec (j mod csize) 0) as [Hrem|Hrem].
  - (* the cut falls between two chunks: fewer chunks, no override *)
    rewrite Hrem, take_0, app_nil_r in Htake.
    specialize (Hnone Hrem).
    assert (Hnq : sg_nchunks gc = Z.of_nat (length l1)).
    { rewrite Hn. unfold nchunks_of. rewrite Hrem. cbn [Z.eqb]. lia. }
    assert (Hvok : forall k vss, nth_error l1 k = Some vss ->
                                 chunk_vals_ok dobjs (Z.of_nat (length l1)) None k vss).
    { intros k vss Hk. exact (Hokl1 k vss Hk). }
    exists l1, []. split; [|split].
    + rewrite Htake. rewrite <- (app_nil_r (enc_chunks e dobjs l1)).
      pose proof (read_segment_chunks_contig_final gc l1 None []) as R.
      rewrite Htoc, Hobjs in R. fold e dobjs in R. apply R; try assumption. lia.
    + exact Hnq.
    + rewrite Hnone. exact Hvok.
  - (* the cut falls inside chunk q *)
    destruct (Hsome Hrem) as (f & Hfin & Hf).
    pose proof (seg_layout_no_daqmx g LContig Hlay ltac:(discriminate)) as Hndq.
    pose proof (Z.mod_pos_bound j csize Hpos) as Hrb.
    assert (Hbound : forall o, In o dobjs -> 0 <= lookup0 (so_path o) f <= so_nvals o).
    { intros o Ho.
      apply (final_chunk_lengths_le (sg_toc g) true (sg_objs g) csize (j mod csize) f o); try assumption.
      exact (vals_ok_nvals_nonneg _ _ Hokq). }
    assert (Hbytes : exists lo, take (j mod csize) (enc_chunk e (combine dobjs vssq))
                                = enc_chunk e (combine dobjs (cut_vss f dobjs vssq)) ++ lo).
    { rewrite (final_chunk_lengths_cases _ _ _ _ Hndq) in Hf. injection Hf as Hf.
      fold dobjs in Hf. destruct (existsb unsized_b dobjs) eqn:Eu.
      - subst f. rewrite (enc_chunk_all_nil e dobjs (cut_vss [] dobjs vssq)).
        + eexists. reflexivity.
        + apply cut_vss_none. intros o _. apply lookup0_nil.
      - pose proof (existsb_unsized_false _ Eu) as Hsz.
        rewrite (contig_sized_not_interleaved g Hlay Hsz) in Hf. subst f.
        apply take_enc_chunk_sized; try assumption. lia. }
    destruct Hbytes as [lo Hbytes].
    set (vss' := cut_vss f dobjs vssq) in *.
    rewrite Hbytes in Htake.
    assert (Hcur : take j (enc_chunks e dobjs css) = enc_chunks e dobjs (l1 ++ [vss']) ++ lo).
    { rewrite Htake, enc_chunks_app, enc_chunks_one, <- app_assoc. reflexivity. }
    assert (Hnq : sg_nchunks gc = Z.of_nat (length (l1 ++ [vss']))).
    { rewrite app_length. cbn [length]. rewrite Hn. unfold nchunks_of.
      replace (j mod csize =? 0) with false by lia. lia. }
    assert (Hok' : Forall2 (fun o vs => vals_ok (lookup0 (so_path o) f) o vs) dobjs vss').
    { apply cut_vss_vals_ok; assumption. }
    assert (Hvok : forall k vss, nth_error (l1 ++ [vss']) k = Some vss ->
                                 chunk_vals_ok dobjs (Z.of_nat (length (l1 ++ [vss']))) (Some f) k vss).
    { intros k vss Hk. unfold chunk_vals_ok.
      rewrite app_length. cbn [length].
      destruct (lt_dec k (length l1)) as [Hlt|Hge].
      - rewrite nth_error_app1 in Hk by exact Hlt.
        eapply Forall2_imp; [|exact (Hokl1 k vss Hk)]. intros o vs Hv. cbn beta.
        unfold chunk_nvals. replace (Z.of_nat k =? Z.of_nat (length l1 + 1) - 1) with false by lia.
        exact Hv.
      - rewrite nth_error_app2 in Hk by lia.
        destruct (k - length l1)%nat as [|d] eqn:Ed; cbn [nth_error] in Hk.
        + injection Hk as <-. eapply Forall2_imp; [|exact Hok']. intros o vs Hv. cbn beta.
          unfold chunk_nvals. replace (Z.of_nat k =? Z.of_nat (length l1 + 1) - 1) with true by lia.
          exact Hv.
        + destruct d; discriminate Hk. }
    exists (l1 ++ [vss']), lo. split; [|split].
    + rewrite Hcur.
      pose proof (read_segment_chunks_contig_final gc (l1 ++ [vss']) (Some f) lo) as R.
      rewrite Htoc, Hobjs in R. fold e dobjs in R. apply R; try assumption.
      rewrite enc_chunks_app, !app_length. cbn [length]. lia.
    + exact Hnq.
    + rewrite Hfin. exact Hvok.
Qed.

(* ---- list facts --------------------------------------------------------------------- *)

Lemma chunks_ok_nth (cs fl : Z) : forall (vals : list (list bytes)),
    (forall i c, nth_error vals i = Some c ->
                 zlen c = if Nat.eqb (S i) (length vals) then fl else cs) ->
    chunks_ok bytes cs fl vals = true.
Proof.
  induction vals as [|c r IH]; intros H; [reflexivity|].
  destruct r as [|c' r'].
  - cbn [chunks_ok]. apply Z.eqb_eq. exact (H 0%nat c eq_refl).
  - change (chunks_ok bytes cs fl (c :: c' :: r')) with ((zlen c =? cs) && chunks_ok bytes cs fl (c' :: r')).
    apply andb_true_intro. split.
    + apply Z.eqb_eq. exact (H 0%nat c eq_refl).
    + apply IH. intros i x Hi. exact (H (S i) x Hi).
Qed.

Lemma path_count_obj p (w : sobj -> Z) dobjs :
  NoDup (map so_path dobjs) ->
  path_count p w dobjs = match obj_for p dobjs with Some o => w o | None => 0 end.
Proof. apply path_count_nodup. Qed.

Lemma chunk_vals_ok_count p dobjs n final k vss :
  chunk_vals_ok dobjs n final k vss ->
  Z.of_nat (length (chunk_values p (chunk_of (combine dobjs vss))))
  = path_count p (fun o => chunk_nvals o (Z.of_nat k) n final) dobjs.
Proof. intros H. exact (chunk_of_count_w p (fun o => chunk_nvals o (Z.of_nat k) n final) dobjs vss H). Qed.

Lemma chunk_vals_ok_keys dobjs n final k vss :
  chunk_vals_ok dobjs n final k vss -> map fst (chunk_of (combine dobjs vss)) = map so_path dobjs.
Proof. intros H. apply chunk_of_key_list. exact (Forall2_length _ _ _ H). Qed.

Lemma chan_values_all_empty p (cs : list chunk) :
  Forall (fun c => chunk_values p c = []) cs -> chan_values p cs = [].
Proof.
  induction 1 as [|c cs Hc _ IH]; [reflexivity|]. rewrite chan_values_cons, Hc, IH. reflexivity.
Qed.

(* the override entry the lazy reader uses *)
Definition final_of (p : bytes) (final : option (alist Z)) : option Z :=
  match final with Some f => Some (lookup0 p f) | None => None end.

Lemma segv_of_unfold D p g :
  segv_of D p g =
  (if chunk_of_view g p =? 0
   then Ok (mk_segv 0 (sg_nchunks g) (final_of p (sg_final g)) false
                    (fit_chunks (Z.to_nat (sg_nchunks g)) []))
   else
     do lay <- seg_layout g;
     do cs <- read_segment D g;
     Ok (mk_segv (chunk_of_view g p) (sg_nchunks g) (final_of p (sg_final g)) (il_of lay)
                 (fit_chunks (Z.to_nat (sg_nchunks g)) (per_chunk_of p (chunk_of_view g p) (il_of lay) cs)))).
Proof.
  unfold segv_of, chunk_of_view, final_of, lookup0, per_chunk_of, il_of.
  destruct (_ =? 0); [reflexivity|].
  destruct (seg_layout g) as [lay|e]; cbn [bind]; [|reflexivity].
  destruct (read_segment D g) as [cs|e]; cbn [bind]; [|reflexivity].
  destruct lay; reflexivity.
Qed.

(* number of values the metadata pass credits, through the channel's data object *)
Lemma seg_total_obj p g :
  NoDup (map so_path (sg_objs g)) ->
  seg_total p g =
  match obj_for p (data_objs (sg_objs g)) with
  | Some o => match sg_final g with
              | None => so_nvals o * sg_nchunks g
              | Some f => so_nvals o * (sg_nchunks g - 1) + lookup0 p f
              end
  | None => 0
  end.
Proof.
  intros Hnd. unfold seg_total. rewrite obj_total_data_objs.
  pose proof (data_objs_nodup _ Hnd) as Hndd.
  destruct (sg_final g) as [f|].
  - rewrite (obj_total_final p _ f _ (data_objs_have_data _)).
    rewrite !(path_count_obj p _ _ Hndd).
    destruct (obj_for p (data_objs (sg_objs g))) as [o|] eqn:E; [|lia].
    apply obj_for_some in E. destruct E as [_ ->]. lia.
  - rewrite (obj_total_no_final p _ _ (data_objs_have_data _)).
    rewrite (path_count_obj p _ _ Hndd).
    destruct (obj_for p (data_objs (sg_objs g))) as [o|]; lia.
Qed.

(* the channel has nothing in this segment: view without decoding *)
Lemma segv_of_zero D p g :
  NoDup (map so_path (sg_objs g)) ->
  sg_index g = fresh_index (map so_path (sg_objs g)) ->
  0 <= sg_nchunks g ->
  final_ok (sg_objs g) (sg_nchunks g) (sg_final g) ->
  path_count p so_nvals (data_objs (sg_objs g)) = 0 ->
  exists sv, segv_of D p g = Ok sv /\ wf_seg bytes sv = true /\
             seg_vals bytes sv = [] /\ number_of_segment_values bytes sv = seg_total p g /\
             seg_total p g = 0.
Proof.
  intros Hnd Hidx Hn0 Hfok Hk.
  pose proof (data_objs_nodup _ Hnd) as Hndd.
  assert (Hf0 : forall f, sg_final g = Some f -> lookup0 p f = 0).
  { intros f Hf. destruct (Hfok f Hf) as (_ & Hb & Hother).
    rewrite (path_count_obj p _ _ Hndd) in Hk.
    destruct (obj_for p (data_objs (sg_objs g))) as [o|] eqn:E.
    - pose proof (obj_for_some _ _ _ E) as [Ho Hp]. specialize (Hb o Ho). rewrite Hp in Hb. lia.
    - apply Hother. apply obj_for_none. exact E. }
  assert (Htot : seg_total p g = 0).
  { rewrite (seg_total_obj p g Hnd). rewrite (path_count_obj p _ _ Hndd) in Hk.
    destruct (obj_for p (data_objs (sg_objs g))) as [o|]; [|reflexivity].
    destruct (sg_final g) as [f|] eqn:Ef; [rewrite (Hf0 f eq_refl)|]; lia. }
  rewrite segv_of_unfold, (chunk_of_view_count g p Hidx Hnd), Hk. cbn [Z.eqb].
  eexists. split; [reflexivity|].
  unfold wf_seg, seg_vals, number_of_segment_values.
  cbn [sv_chunk sv_nchunks sv_final sv_vals sv_interleaved Z.eqb].
  split; [|split; [apply fit_chunks_nil_concat|split; [symmetry; exact Htot|exact Htot]]].
  unfold zlen. rewrite fit_chunks_nil_length.
  unfold final_of. destruct (sg_final g) as [f|] eqn:Ef.
  - destruct (Hfok f eq_refl) as (H1 & _ & _). rewrite (Hf0 f eq_refl).
    assert (Hco : chunks_ok bytes 0 0 (fit_chunks (Z.to_nat (sg_nchunks g)) []) = true)
      by (apply chunks_ok_const; apply fit_chunks_nil_all).
    rewrite Hco. lia.
  - rewrite (chunks_ok_const 0 _ (fit_chunks_nil_all _)). lia.
Qed.

(* ---- contiguous ----------------------------------------------------------------------- *)

Theorem segv_contig_shape D p gc css' :
  seg_layout gc = Ok LContig ->
  NoDup (map so_path (sg_objs gc)) ->
  sg_index gc = fresh_index (map so_path (sg_objs gc)) ->
  Forall nvals_ok (sg_objs gc) ->
  read_segment D gc = Ok (map (fun vss => chunk_of (combine (data_objs (sg_objs gc)) vss)) css') ->
  sg_nchunks gc = Z.of_nat (length css') ->
  (forall k vss, nth_error css' k = Some vss ->
                 chunk_vals_ok (data_objs (sg_objs gc)) (Z.of_nat (length css')) (sg_final gc) k vss) ->
  final_ok (sg_objs gc) (sg_nchunks gc) (sg_final gc) ->
  exists sv, segv_of D p gc = Ok sv /\ wf_seg bytes sv = true /\
             seg_vals bytes sv
             = chan_values p (map (fun vss => chunk_of (combine (data_objs (sg_objs gc)) vss)) css') /\
             number_of_segment_values bytes sv = seg_total p gc.
Proof.
  intros Hlay Hnd Hidx Hnv Hread Hn Hvok Hfok.
  set (dobjs := data_objs (sg_objs gc)) in *.
  set (cs := map (fun vss => chunk_of (combine dobjs vss)) css') in *.
  pose proof (data_objs_nodup _ Hnd) as Hndd. fold dobjs in Hndd.
  set (K := path_count p so_nvals dobjs).
  (* per-chunk counts *)
  assert (Hcnt : forall i c, nth_error cs i = Some c ->
                             NoDup (map fst c) /\
                             zlen (chunk_values p c) =
                             match obj_for p dobjs with
                             | Some o => chunk_nvals o (Z.of_nat i) (sg_nchunks gc) (sg_final gc)
                             | None => 0
                             end).
  { intros i c Hi. unfold cs in Hi. rewrite nth_error_map in Hi.
    destruct (nth_error css' i) as [vss|] eqn:Ei; [|discriminate]. injection Hi as <-.
    specialize (Hvok i vss Ei). rewrite <- Hn in Hvok. split.
    - rewrite (chunk_vals_ok_keys _ _ _ _ _ Hvok). exact Hndd.
    - unfold zlen. rewrite (chunk_vals_ok_count p _ _ _ _ _ Hvok). apply path_count_obj. exact Hndd. }
  destruct (Z.eq_dec K 0) as [HK|HK].
  - (* nothing for this path *)
    destruct (segv_of_zero D p gc Hnd Hidx ltac:(lia) Hfok HK) as (sv & Hsv & Hwf & Hvals & Hnum & Htot).
    exists sv. split; [exact Hsv|]. split; [exact Hwf|]. split; [|exact Hnum].
    rewrite Hvals. symmetry. apply chan_values_all_empty. apply Forall_forall. intros c Hc.
    apply In_nth_error in Hc. destruct Hc as [i Hi]. destruct (Hcnt i c Hi) as [_ Hz].
    apply length_zero_nil. unfold zlen in Hz. rewrite Hz.
    unfold K in HK. rewrite (path_count_obj p _ _ Hndd) in HK.
    destruct (obj_for p dobjs) as [o|] eqn:E; [|reflexivity].
    unfold chunk_nvals. destruct (sg_final gc) as [f|] eqn:Ef; [|exact HK].
    destruct (_ =? _); [|exact HK].
    destruct (Hfok f eq_refl) as (_ & Hb & _).
    pose proof (obj_for_some _ _ _ E) as [Ho _]. specialize (Hb o Ho). unfold lookup0 in Hb. lia.
  - (* the channel's data object *)
    pose proof HK as HK'. unfold K in HK'. rewrite (path_count_obj p _ _ Hndd) in HK'.
    destruct (obj_for p dobjs) as [o|] eqn:Eo; [|contradiction].
    pose proof (obj_for_some _ _ _ Eo) as [Ho Hpo].
    assert (HKo : K = so_nvals o) by (unfold K; rewrite (path_count_obj p _ _ Hndd), Eo; reflexivity).
    assert (HKpos : 0 < K).
    { rewrite Forall_forall in Hnv. pose proof (Hnv o (data_objs_sub _ o Ho)) as H0.
      unfold nvals_ok in H0. lia. }
    rewrite segv_of_unfold, (chunk_of_view_count gc p Hidx Hnd). fold dobjs K.
    replace (K =? 0) with false by lia. rewrite Hlay, Hread. cbn [bind il_of per_chunk_of].
    assert (Hkeys : Forall (fun c : chunk => NoDup (map fst c)) cs).
    { apply Forall_forall. intros c Hc. apply In_nth_error in Hc. destruct Hc as [i Hi].
      exact (proj1 (Hcnt i c Hi)). }
    rewrite (map_chunk_vals_values p cs Hkeys).
    assert (Hlen : length (map (chunk_values p) cs) = Z.to_nat (sg_nchunks gc)).
    { unfold cs. rewrite !map_length. lia. }
    rewrite <- Hlen, fit_chunks_exact.
    eexists. split; [reflexivity|].
    unfold wf_seg, seg_vals, number_of_segment_values.
    cbn [sv_chunk sv_nchunks sv_final sv_vals sv_interleaved].
    assert (Hco : chunks_ok bytes K (match sg_final gc with Some f => lookup0 p f | None => K end)
                            (map (chunk_values p) cs) = true).
    { apply chunks_ok_nth. intros i c Hi. rewrite nth_error_map in Hi.
      destruct (nth_error cs i) as [c0|] eqn:Ei; [|discriminate]. injection Hi as <-.
      destruct (Hcnt i c0 Ei) as [_ Hz]. rewrite Hz. unfold chunk_nvals. rewrite Hlen.
      assert (Hi' : (i < length cs)%nat) by (apply nth_error_Some; rewrite Ei; discriminate).
      assert (Hcsl : length cs = Z.to_nat (sg_nchunks gc)) by (unfold cs; rewrite map_length; lia).
      destruct (sg_final gc) as [f|].
      - unfold lookup0. rewrite Hpo.
        destruct (Nat.eqb (S i) (Z.to_nat (sg_nchunks gc))) eqn:En.
        + apply Nat.eqb_eq in En. replace (Z.of_nat i =? sg_nchunks gc - 1) with true by lia. reflexivity.
        + apply Nat.eqb_neq in En. replace (Z.of_nat i =? sg_nchunks gc - 1) with false by lia.
          symmetry. exact HKo.
      - destruct (Nat.eqb _ _); symmetry; exact HKo. }
    split; [|split].
    + unfold zlen. rewrite Hlen. unfold final_of.
      destruct (sg_final gc) as [f|] eqn:Ef.
      * destruct (Hfok f eq_refl) as (H1 & Hb & _). specialize (Hb o Ho). rewrite Hpo in Hb.
        rewrite Hco. lia.
      * rewrite Hco. lia.
    + rewrite <- flat_map_concat_map. reflexivity.
    + replace (K =? 0) with false by lia. rewrite (seg_total_obj p gc Hnd). fold dobjs. rewrite Eo.
      unfold final_of. destruct (sg_final gc); lia.
Qed.

(* ---- interleaved ------------------------------------------------------------------------ *)

(* a column of m full chunks of K values and a final chunk of F <= K values
   (F = 0: no complete row of the last chunk survived), cut into pieces of K and
   padded to m + 1 entries *)
Lemma split_chunks_cons fuel K (v : bytes) col' :
  split_chunks (S fuel) K (v :: col')
  = firstn (Z.to_nat K) (v :: col') :: split_chunks fuel K (skipn (Z.to_nat K) (v :: col')).
Proof. reflexivity. Qed.

Lemma split_chunks_nil fuel K : split_chunks fuel K [] = [].
Proof. destruct fuel; reflexivity. Qed.

Lemma split_fit (K F : Z) : 0 < K -> 0 <= F <= K -> forall (m : nat) (col : list bytes) (fuel : nat),
    Z.of_nat (length col) = Z.of_nat m * K + F -> (S m <= fuel)%nat ->
    let l := fit_chunks (S m) (split_chunks fuel K col) in
    concat l = col /\ length l = S m /\ chunks_ok bytes K F l = true.
Proof.
  intros HK HF. induction m as [|m IH]; intros col fuel Hlen Hfuel l.
  - destruct fuel as [|f]; [lia|]. subst l.
    destruct col as [|v col'].
    + cbn [split_chunks fit_chunks concat app length chunks_ok]. repeat split.
      unfold zlen. cbn [length] in *. lia.
    + rewrite split_chunks_cons.
      rewrite (firstn_all2 (v :: col')) by lia. rewrite (skipn_all2 (v :: col')) by lia.
      rewrite split_chunks_nil. cbn [fit_chunks concat length chunks_ok]. rewrite app_nil_r.
      repeat split. unfold zlen. lia.
  - destruct fuel as [|f]; [lia|]. subst l.
    destruct col as [|v col']; [cbn [length] in Hlen; nia|].
    rewrite split_chunks_cons. set (col := v :: col') in *.
    change (fit_chunks (S (S m)) (firstn (Z.to_nat K) col :: split_chunks f K (skipn (Z.to_nat K) col)))
      with (firstn (Z.to_nat K) col :: fit_chunks (S m) (split_chunks f K (skipn (Z.to_nat K) col))).
    destruct (IH (skipn (Z.to_nat K) col) f) as (Hc & Hl & Ho).
    { rewrite skipn_length. nia. }
    { lia. }
    cbn [concat length]. rewrite Hc, Hl, firstn_skipn. split; [reflexivity|]. split; [reflexivity|].
    destruct (fit_chunks (S m) (split_chunks f K (skipn (Z.to_nat K) col))) as [|c' r'] eqn:El;
      [discriminate Hl|].
    change (chunks_ok bytes K F (firstn (Z.to_nat K) col :: c' :: r'))
      with ((zlen (firstn (Z.to_nat K) col) =? K) && chunks_ok bytes K F (c' :: r')).
    rewrite Ho. unfold zlen. rewrite firstn_length. apply andb_true_intro. split; [|reflexivity]. nia.
Qed.

(* the interleaved reader returns one chunk whose keys are distinct *)
Lemma interleaved_columns_keys e : forall objs rows pos acc c,
    NoDup (map fst acc) -> interleaved_columns e objs rows pos acc = Ok c -> NoDup (map fst c).
Proof.
  induction objs as [|o objs IH]; intros rows pos acc c Hnd H.
  - cbn [interleaved_columns] in H. injection H as <-. exact Hnd.
  - cbn [interleaved_columns] in H.
    destruct (so_dtype o) as [dt|]; [|discriminate]. destruct (sized o) as [sz|]; [|discriminate].
    apply (IH _ _ _ _ (aset_keys_nodup _ _ _ Hnd) H).
Qed.

Lemma read_interleaved_single e objs n cur cs rest :
  objs <> [] -> read_interleaved e objs n cur = Ok (cs, rest) ->
  exists c, cs = [c] /\ NoDup (map fst c).
Proof.
  intros Hne H. unfold read_interleaved in H. destruct objs as [|o0 objs']; [contradiction|].
  destruct (negb _); [discriminate|].
  destruct (read_rows _ _ cur) as [rows rest'].
  destruct (interleaved_columns e (o0 :: objs') rows 0 []) as [c|er] eqn:Ec; cbn [bind] in H; [|discriminate].
  injection H as <- _. exists c. split; [reflexivity|].
  apply (interleaved_columns_keys e _ _ _ [] _ (NoDup_nil _) Ec).
Qed.

Theorem segv_interleaved_shape D p gc chunks' nv :
  seg_layout gc = Ok LInterleaved ->
  data_objs (sg_objs gc) <> [] -> 0 < nv ->
  Forall (fun o => so_nvals o = nv) (data_objs (sg_objs gc)) ->
  NoDup (map so_path (sg_objs gc)) ->
  sg_index gc = fresh_index (map so_path (sg_objs gc)) ->
  0 <= sg_nchunks gc ->
  read_segment D gc = Ok chunks' ->
  (exists c, chunks' = [c] /\ NoDup (map fst c)) ->
  Z.of_nat (length (chan_values p chunks')) = seg_total p gc ->
  final_ok (sg_objs gc) (sg_nchunks gc) (sg_final gc) ->
  exists sv, segv_of D p gc = Ok sv /\ wf_seg bytes sv = true /\
             seg_vals bytes sv = chan_values p chunks' /\
             number_of_segment_values bytes sv = seg_total p gc.
Proof.
  intros Hlay Hne Hnvpos Hsame Hnd Hidx Hn0 Hread (c & Hc & Hckeys) Hcount Hfok.
  set (dobjs := data_objs (sg_objs gc)) in *.
  pose proof (data_objs_nodup _ Hnd) as Hndd. fold dobjs in Hndd.
  set (K := path_count p so_nvals dobjs).
  destruct (Z.eq_dec K 0) as [HK|HK].
  - destruct (segv_of_zero D p gc Hnd Hidx Hn0 Hfok HK) as (sv & Hsv & Hwf & Hvals & Hnum & Htot).
    exists sv. split; [exact Hsv|]. split; [exact Hwf|]. split; [|exact Hnum].
    rewrite Hvals. symmetry. apply length_zero_nil. rewrite Hcount. exact Htot.
  - pose proof HK as HK'. unfold K in HK'. rewrite (path_count_obj p _ _ Hndd) in HK'.
    destruct (obj_for p dobjs) as [o|] eqn:Eo; [|contradiction].
    pose proof (obj_for_some _ _ _ Eo) as [Ho Hpo].
    assert (HKnv : K = nv).
    { unfold K. rewrite (path_count_obj p _ _ Hndd), Eo. rewrite Forall_forall in Hsame. exact (Hsame o Ho). }
    rewrite segv_of_unfold, (chunk_of_view_count gc p Hidx Hnd). fold dobjs K.
    replace (K =? 0) with false by lia. rewrite Hlay, Hread. cbn [bind il_of per_chunk_of].
    assert (Hflat : flat_map (chunk_vals p) chunks' = chan_values p chunks').
    { apply flat_map_chunk_vals_values. subst chunks'. constructor; [exact Hckeys|constructor]. }
    rewrite Hflat. set (col := chan_values p chunks') in *.
    rewrite (seg_total_obj p gc Hnd) in Hcount. fold dobjs in Hcount. rewrite Eo in Hcount.
    assert (Hso : so_nvals o = K) by (rewrite HKnv; rewrite Forall_forall in Hsame; exact (Hsame o Ho)).
    rewrite Hso in Hcount.
    rewrite (seg_total_obj p gc Hnd). fold dobjs. rewrite Eo, Hso.
    destruct (sg_final gc) as [f|] eqn:Ef.
    + destruct (Hfok f eq_refl) as (H1 & Hb & _). specialize (Hb o Ho). rewrite Hpo, Hso in Hb.
      destruct (split_fit K (lookup0 p f) ltac:(lia) Hb (Z.to_nat (sg_nchunks gc - 1)) col (S (length col)))
        as (Hcat & Hlen & Hco).
      { rewrite Z2Nat.id by lia. lia. }
      { assert (Z.of_nat (Z.to_nat (sg_nchunks gc - 1)) * K <= Z.of_nat (length col)) by lia.
        assert (Z.of_nat (Z.to_nat (sg_nchunks gc - 1)) <= Z.of_nat (length col)) by nia. lia. }
      replace (S (Z.to_nat (sg_nchunks gc - 1))) with (Z.to_nat (sg_nchunks gc)) in Hcat, Hlen, Hco by lia.
      eexists. split; [reflexivity|].
      unfold wf_seg, seg_vals, number_of_segment_values, final_of.
      cbn [sv_chunk sv_nchunks sv_final sv_vals sv_interleaved].
      split; [|split; [exact Hcat|replace (K =? 0) with false by lia; reflexivity]].
      unfold zlen. rewrite Hlen, Hco. lia.
    + destruct (split_chunks_exact K ltac:(lia) (Z.to_nat (sg_nchunks gc)) col (S (length col)))
        as (Hcat & Hlen & Hall).
      { apply Nat2Z.inj. rewrite Nat2Z.inj_mul, !Z2Nat.id by lia. lia. }
      { assert (Z.of_nat (Z.to_nat (sg_nchunks gc)) <= Z.of_nat (length col)) by nia. lia. }
      assert (Hfit : fit_chunks (Z.to_nat (sg_nchunks gc)) (split_chunks (S (length col)) K col)
                     = split_chunks (S (length col)) K col).
      { rewrite <- Hlen. apply fit_chunks_exact. }
      rewrite Hfit.
      eexists. split; [reflexivity|].
      unfold wf_seg, seg_vals, number_of_segment_values, final_of.
      cbn [sv_chunk sv_nchunks sv_final sv_vals sv_interleaved].
      split; [|split; [exact Hcat|replace (K =? 0) with false by lia; reflexivity]].
      rewrite (chunks_ok_const K _ Hall). unfold zlen. rewrite Hlen. lia.
Qed.

(* ---- any layout: a segment whose raw data block is cut --------------------------------- *)

Lemma nchunks_of_nonneg j csize : 0 <= j -> 0 < csize -> 0 <= nchunks_of j csize.
Proof.
  intros Hj Hc. unfold nchunks_of. assert (0 <= j / csize) by (apply Z.div_pos; lia).
  destruct (j mod csize =? 0); lia.
Qed.

Theorem segv_of_cut D g gc data cs j :
  seg_encodes g data cs ->
  0 <= j < blen data ->
  sg_toc gc = sg_toc g -> sg_objs gc = sg_objs g ->
  calculate_chunks (sg_toc g) true (sg_objs g) j = Ok (sg_nchunks gc, sg_final gc) ->
  NoDup (map so_path (sg_objs g)) ->
  sg_index gc = fresh_index (map so_path (sg_objs gc)) ->
  Forall nvals_ok (sg_objs g) ->
  read_segment D gc = (do '(cs, _) <- read_segment_chunks gc (take j data); Ok cs) ->
  exists chunks',
    read_segment D gc = Ok chunks' /\
    Forall only_cdata chunks' /\
    (forall c kv, In c chunks' -> In kv c ->
                  exists o, In o (sg_objs g) /\ so_path o = fst kv /\ so_dtype o <> None) /\
    (forall p, is_prefix (chan_values p chunks') (chan_values p cs)) /\
    (forall p, Z.of_nat (length (chan_values p chunks')) = seg_total p gc) /\
    (forall p, exists sv, segv_of D p gc = Ok sv /\ wf_seg bytes sv = true /\
                          seg_vals bytes sv = chan_values p chunks' /\
                          number_of_segment_values bytes sv = seg_total p gc).
Proof.
  intros Henc Hj Htoc Hobjs Hcc Hnd Hidx Hnv HreadD.
  destruct (cut_segment_decodes g gc data cs j Henc Hj Htoc Hobjs Hcc)
    as (chunks' & lo & Hread & Hcd & Hkeys & Hpre & Hcount).
  rewrite Hread in HreadD. cbn [bind] in HreadD.
  exists chunks'. split; [exact HreadD|]. split; [exact Hcd|]. split; [exact Hkeys|].
  split; [exact Hpre|]. split; [exact Hcount|].
  assert (Hndc : NoDup (map so_path (sg_objs gc))) by (rewrite Hobjs; exact Hnd).
  assert (Hnvc : Forall nvals_ok (sg_objs gc)) by (rewrite Hobjs; exact Hnv).
  assert (Hnvd : forall o, In o (data_objs (sg_objs g)) -> 0 <= so_nvals o).
  { intros o Ho. rewrite Forall_forall in Hnv. exact (Hnv o (data_objs_sub _ o Ho)). }
  intros p.
  destruct Henc as [Hd Hdata | css Hlay Hpos Hndd Hok Hds Hdata
                    | nv m rows Hlay Hne Hnv0 Hm Hobjsok Hsz Hndd Hrows Hlen Hdata].
  - subst data. change (blen []) with 0 in Hj. lia.
  - subst data.
    destruct (cut_contig_shape g gc css j Hlay Hpos Hndd Hok Hds Hj Htoc Hobjs Hcc)
      as (css' & lo' & Hread' & Hn & Hvok).
    rewrite Hread in Hread'. injection Hread' as Hchunks _.
    pose proof (seg_layout_contig_chunk_size g Hlay) as Hcs.
    assert (Hfok : final_ok (sg_objs gc) (sg_nchunks gc) (sg_final gc)).
    { rewrite Hobjs.
      apply (cut_final_ok g LContig j _ _ _ Hlay ltac:(discriminate) Hcs Hpos (proj1 Hj) Hndd Hnvd Hcc). }
    assert (Hlayc : seg_layout gc = Ok LContig) by (rewrite (seg_layout_ext gc g Htoc Hobjs); exact Hlay).
    rewrite Hchunks in HreadD |- *. rewrite <- Hobjs in HreadD, Hvok |- *.
    exact (segv_contig_shape D p gc css' Hlayc Hndc Hidx Hnvc HreadD Hn Hvok Hfok).
  - subst data.
    pose proof (seg_layout_interleaved_chunk_size g Hlay) as Hcs.
    pose proof (width_pos _ Hne Hsz) as Hw.
    pose proof (interleaved_chunk_bytes nv _ Hobjsok) as Hcb.
    assert (Hcpos : 0 < zsum (map so_dsize (data_objs (sg_objs g)))) by nia.
    assert (Hfok : final_ok (sg_objs gc) (sg_nchunks gc) (sg_final gc)).
    { rewrite Hobjs.
      apply (cut_final_ok g LInterleaved j _ _ _ Hlay ltac:(discriminate) Hcs Hcpos (proj1 Hj) Hndd Hnvd Hcc). }
    assert (Hlayc : seg_layout gc = Ok LInterleaved)
      by (rewrite (seg_layout_ext gc g Htoc Hobjs); exact Hlay).
    destruct (calculate_chunks_count _ _ _ _ _ _ _ Hcs Hcpos (proj1 Hj) Hcc) as (Hn & _ & _).
    assert (Hn0 : 0 <= sg_nchunks gc) by (rewrite Hn; apply nchunks_of_nonneg; lia).
    assert (Hsingle : exists c, chunks' = [c] /\ NoDup (map fst c)).
    { unfold read_segment_chunks in Hread. rewrite Hlayc in Hread. cbn [bind] in Hread.
      assert (Hne' : data_objs (sg_objs gc) <> []) by (rewrite Hobjs; exact Hne).
      exact (read_interleaved_single _ _ _ _ _ _ Hne' Hread). }
    apply (segv_interleaved_shape D p gc chunks' nv Hlayc); try assumption.
    + rewrite Hobjs. exact Hne.
    + rewrite Hobjs. eapply Forall_impl; [|exact Hobjsok]. intros o [H _]. exact H.
    + apply Hcount.
Qed.
