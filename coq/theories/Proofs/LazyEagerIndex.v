(* Lazy = eager, layer 1: the metadata pass WITH segment indexes (what
   TdmsFile.open runs: want_index = true) against the pass WITHOUT (what
   TdmsFile.read runs), on file syntax.

   [sm_run_with_index]: if the pass without indexes succeeds with state [st],
   the pass with indexes succeeds with a state that has the same object lists,
   positions, chunk counts, final-chunk overrides, per-object metadata, global
   map and version, and in which every segment's object_index is the fresh
   dictionary {path: position} of its own object list ([with_index]) -- also for
   metadata-less segments (which share the previous segment's index) and for
   cache hits (SegmentIndexCache returns what a fresh computation gives:
   SegStateProofs.get_index_fresh).

   [sm_run_nvals_nonneg]: every object of every segment of a well-formed syntax
   has number_values >= 0 (it was parsed from an unsigned field).

   [segment_object_find]: looking a path up through such an index is a search
   of the object list (the LAST object with that path: dict semantics; under
   distinct paths, THE object with that path). *)
From Coq Require Import List ZArith Bool Lia.
From Coq Require Import Init.Byte.
Import ListNotations.
From NpTdms Require Import Base.Bytes Base.Res Model.Tokens Model.TokensWf Model.SegState Model.Layout
     Model.Reader Model.FileSyn Model.LazyRead Model.LazyBytes
     Proofs.SegStateProofs Proofs.SegStateInherit Proofs.SegStateExplicit Proofs.FileSynProofs.
Local Open Scope Z_scope.

(* ---- the record of a segment with its object_index filled in ---------------- *)

Definition with_index (g : segment) : segment :=
  mkSeg (sg_pos g) (sg_toc g) (sg_next g) (sg_data g) (sg_incomplete g) (sg_objs g)
        (fresh_index (map so_path (sg_objs g))) (sg_nchunks g) (sg_final g).

Definition same_but_index (st st' : rstate) : Prop :=
  rs_segments st' = map with_index (rs_segments st) /\
  rs_prev_objs st' = rs_prev_objs st /\
  rs_om st' = rs_om st /\
  rs_version st' = rs_version st.

Lemma sm_loop_index_sim : forall segs pos ps pi pi' st st' stf,
  sm_loop segs false pos ps pi st = Ok stf ->
  same_but_index st st' ->
  cache_ok (rs_cache st') -> idx_ok true ps pi' ->
  exists stf', sm_loop segs true pos ps pi' st' = Ok stf' /\ same_but_index stf stf'.
Proof.
  induction segs as [|s r IH]; intros pos ps pi pi' st st' stf H Hrel Hc Hi.
  - cbn in H. injection H as <-. exists st'. split; [reflexivity|exact Hrel].
  - destruct (sm_loop_cons_inv _ _ _ _ _ _ _ _ H) as (objs & props & nch & fn & po & om & H1 & H2 & H3).
    rewrite (sm_loop_cons_ok _ _ _ _ _ _ _ _ _ _ _ _ _ H1 H2 H3) in H.
    destruct Hrel as (Rs & Rpo & Rom & Rver).
    assert (H1' : read_segment_objects (fs_toc s) (fs_meta s) (rs_prev_objs st') ps = Ok (objs, props))
      by (rewrite Rpo; exact H1).
    assert (H3' : update_object_metadata objs nch fn (rs_prev_objs st') (rs_om st') = Ok (po, om))
      by (rewrite Rpo, Rom; exact H3).
    rewrite (sm_loop_cons_ok _ _ true _ _ pi' st' _ _ _ _ _ _ H1' H2 H3').
    destruct (seg_ic_index s true pi' (rs_cache st') objs ps props _ _ Hc Hi H1') as [Hidx Hc'].
    apply (IH _ _ _ _ _ _ _ H).
    + unfold same_but_index, next_state. cbv zeta. cbn [rs_segments rs_prev_objs rs_om rs_version].
      split; [|split; [reflexivity|split; [reflexivity|rewrite Rver; reflexivity]]].
      rewrite Rs, map_app. f_equal. cbn [map]. unfold with_index.
      cbn [sg_pos sg_toc sg_next sg_data sg_incomplete sg_objs sg_nchunks sg_final].
      rewrite Hidx. reflexivity.
    + unfold next_state. cbv zeta. cbn [rs_cache]. exact Hc'.
    + intros b Hb. injection Hb as <-. exact Hidx.
Qed.

Theorem sm_run_with_index segs st :
  sm_run segs false = Ok st ->
  exists st', sm_run segs true = Ok st' /\ same_but_index st st'.
Proof.
  unfold sm_run. intros H.
  apply (sm_loop_index_sim segs 0 None [] [] rstate0 rstate0 st H).
  - unfold same_but_index. repeat split; reflexivity.
  - exact cache_ok_nil.
  - intros b Hb. discriminate Hb.
Qed.

(* ---- number_values is never negative ---------------------------------------- *)

Definition nvals_ok (o : sobj) : Prop := 0 <= so_nvals o.

Lemma new_object_nvals p i o : wf_idx i = true -> new_object p i = Ok o -> nvals_ok o.
Proof.
  unfold new_object, nvals_ok. intros Hwf H.
  destruct i as [| |lf dt dim n total|kind dt dim n scalers widths].
  - injection H as <-. cbn [so_nvals]. lia.
  - injection H as <-. cbn [so_nvals]. lia.
  - assert (Hn : 0 <= n).
    { cbn [wf_idx] in Hwf. unfold is_u64 in Hwf.
      repeat (apply andb_prop in Hwf; destruct Hwf as [Hwf ?]).
      match goal with H : (0 <=? n) && _ = true |- _ => apply andb_prop in H; destruct H as [H _] end.
      apply Z.leb_le. assumption. }
    destruct (tds_size dt) as [sz|]; [|discriminate].
    destruct (_ && _); [discriminate|].
    destruct (negb (dim =? 1)); [discriminate|].
    injection H as <-. cbn [so_nvals]. exact Hn.
  - assert (Hn : 0 <= n).
    { cbn [wf_idx] in Hwf. unfold is_u64 in Hwf.
      repeat (apply andb_prop in Hwf; destruct Hwf as [Hwf ?]).
      match goal with H : (0 <=? n) && _ = true |- _ => apply andb_prop in H; destruct H as [H _] end.
      apply Z.leb_le. assumption. }
    destruct (tds_size dt) as [sz|]; [|discriminate].
    destruct (negb (dim =? 1)); [discriminate|].
    destruct (negb (forallb _ scalers)); [discriminate|].
    destruct (_ && _); [discriminate|].
    injection H as <-. cbn [so_nvals]. exact Hn.
Qed.

Lemma update_existing_nvals o i o' :
  wf_idx i = true -> nvals_ok o -> update_existing o i = Ok o' -> nvals_ok o'.
Proof.
  intros Hwf Ho H. unfold update_existing in H.
  destruct i as [| |lf dt dim n total|kind dt dim n scalers widths].
  - injection H as <-. destruct (so_has_data o); exact Ho.
  - injection H as <-. destruct (so_has_data o); exact Ho.
  - exact (new_object_nvals _ _ _ Hwf H).
  - exact (new_object_nvals _ _ _ Hwf H).
Qed.

Lemma step_entry_nvals base prev ordered x ordered' :
  wf_idx (e_idx x) = true ->
  (forall b, base = Some b -> Forall nvals_ok b) ->
  (forall p po, alookup p prev = Some po -> nvals_ok po) ->
  step_entry base prev ordered x = Ok ordered' ->
  Forall nvals_ok ordered -> Forall nvals_ok ordered'.
Proof.
  intros Hwf Hbase Hprev H HF. unfold step_entry in H.
  destruct (match base with Some b => existing_lookup (e_path x) 0 b None | None => None end)
    as [[i o]|] eqn:E.
  - destruct base as [b|]; [|discriminate].
    apply existing_lookup_some in E. destruct E as (_ & Hnth & _).
    apply nth_error_In in Hnth.
    pose proof (Hbase b eq_refl) as Hb. rewrite Forall_forall in Hb.
    destruct (update_existing o (e_idx x)) as [o'|e] eqn:Eu; cbn [bind] in H; [|discriminate].
    injection H as <-. apply Forall_replace_nth; [exact HF|].
    exact (update_existing_nvals o _ o' Hwf (Hb o Hnth) Eu).
  - destruct (alookup (e_path x) prev) as [po|] eqn:Ep.
    + destruct (reuse_previous po (e_idx x)) as [o'|e] eqn:Eu; cbn [bind] in H; [|discriminate].
      injection H as <-. apply Forall_app. split; [exact HF|]. constructor; [|constructor].
      exact (update_existing_nvals po _ o' Hwf (Hprev _ _ Ep) Eu).
    + destruct (e_idx x) as [| |lf dt dim n total|kind dt dim n scalers widths] eqn:Ei.
      * destruct (new_object (e_path x) INoData) as [o'|e] eqn:En; cbn [bind] in H; [|discriminate].
        injection H as <-. apply Forall_app. split; [exact HF|]. constructor; [|constructor].
        exact (new_object_nvals _ _ _ Hwf En).
      * discriminate.
      * destruct (new_object (e_path x) (IFull lf dt dim n total)) as [o'|e] eqn:En;
          cbn [bind] in H; [|discriminate].
        injection H as <-. apply Forall_app. split; [exact HF|]. constructor; [|constructor].
        exact (new_object_nvals _ _ _ Hwf En).
      * destruct (new_object (e_path x) (IDaqmx kind dt dim n scalers widths)) as [o'|e] eqn:En;
          cbn [bind] in H; [|discriminate].
        injection H as <-. apply Forall_app. split; [exact HF|]. constructor; [|constructor].
        exact (new_object_nvals _ _ _ Hwf En).
Qed.

Lemma fold_entries_nvals base prev :
  (forall b, base = Some b -> Forall nvals_ok b) ->
  (forall p po, alookup p prev = Some po -> nvals_ok po) ->
  forall es ordered r,
    forallb wf_entry es = true ->
    fold_entries base prev ordered es = Ok r -> Forall nvals_ok ordered -> Forall nvals_ok r.
Proof.
  intros Hbase Hprev. induction es as [|x es IH]; intros ordered r Hwf H HF.
  - cbn [fold_entries] in H. injection H as <-. exact HF.
  - cbn [fold_entries] in H. cbn [forallb] in Hwf. apply andb_prop in Hwf. destruct Hwf as [Hx Hes].
    destruct (step_entry base prev ordered x) as [o'|e] eqn:Es; cbn [bind] in H; [|discriminate].
    apply (IH o' r Hes H).
    refine (step_entry_nvals base prev ordered x o' _ Hbase Hprev Es HF).
    unfold wf_entry in Hx. repeat (apply andb_prop in Hx; destruct Hx as [Hx ?]). assumption.
Qed.

Lemma read_segment_objects_nvals toc md prev ps objs props :
  (match md with Some es => wf_metadata es = true | None => True end) ->
  (forall l, ps = Some l -> Forall nvals_ok l) ->
  (forall p po, alookup p prev = Some po -> nvals_ok po) ->
  read_segment_objects toc md prev ps = Ok (objs, props) ->
  Forall nvals_ok objs.
Proof.
  intros Hwf Hps Hprev H. unfold read_segment_objects in H.
  destruct md as [es|].
  - cbv zeta in H.
    destruct (fold_entries _ prev _ es) as [ordered|e] eqn:Ef; cbn [bind] in H; [|discriminate].
    injection H as <- _.
    unfold wf_metadata in Hwf. apply andb_prop in Hwf. destruct Hwf as [_ Hes].
    refine (fold_entries_nvals _ prev _ Hprev es _ ordered Hes Ef _).
    + intros b Hb. destruct (toc_has toc TOC_NEWLIST); [discriminate|]. exact (Hps b Hb).
    + destruct (toc_has toc TOC_NEWLIST); [constructor|].
      destruct ps as [l|]; [|constructor]. exact (Hps l eq_refl).
  - destruct ps as [l|]; [|discriminate]. injection H as <- _. exact (Hps l eq_refl).
Qed.

Lemma sm_loop_nvals : forall segs w pos ps pi st stf,
    wf_file segs ->
    sm_loop segs w pos ps pi st = Ok stf ->
    (forall p po, alookup p (rs_prev_objs st) = Some po -> nvals_ok po) ->
    (forall l, ps = Some l -> Forall nvals_ok l) ->
    (forall g, In g (rs_segments st) -> Forall nvals_ok (sg_objs g)) ->
    forall g, In g (rs_segments stf) -> Forall nvals_ok (sg_objs g).
Proof.
  induction segs as [|s r IH]; intros w pos ps pi st stf Hwf H Hprev Hps Hsegs.
  - cbn in H. injection H as <-. exact Hsegs.
  - destruct (sm_loop_cons_inv _ _ _ _ _ _ _ _ H) as (objs & props & nch & fn & po & om & H1 & H2 & H3).
    rewrite (sm_loop_cons_ok _ _ _ _ _ _ _ _ _ _ _ _ _ H1 H2 H3) in H.
    unfold wf_file in Hwf. cbn [forallb] in Hwf. apply andb_prop in Hwf. destruct Hwf as [Hs Hr].
    assert (Hobjs : Forall nvals_ok objs).
    { apply (read_segment_objects_nvals _ _ _ _ _ _) with (4 := H1); [|exact Hps|exact Hprev].
      apply wf_fseg_spec in Hs. destruct Hs as (_ & _ & _ & Hm).
      destruct (fs_meta s) as [es|]; [tauto|exact I]. }
    apply (IH _ _ _ _ _ _ Hr H); unfold next_state; cbv zeta; cbn [rs_prev_objs rs_segments].
    + apply (update_object_metadata_values nvals_ok _ _ _ _ _ _ _ H3); [exact Hprev|exact Hobjs].
    + intros l Hl. injection Hl as <-. exact Hobjs.
    + intros g Hg. apply in_app_or in Hg. destruct Hg as [Hg|[<-|[]]]; [exact (Hsegs g Hg)|exact Hobjs].
Qed.

Theorem sm_run_nvals_nonneg segs w st :
  wf_file segs -> sm_run segs w = Ok st ->
  forall g, In g (rs_segments st) -> Forall nvals_ok (sg_objs g).
Proof.
  unfold sm_run. intros Hwf H.
  apply (sm_loop_nvals segs w 0 None [] rstate0 st Hwf H); cbn [rstate0 rs_prev_objs rs_segments alookup].
  - intros p po Hp. discriminate.
  - intros l Hl. discriminate.
  - intros g [].
Qed.

(* ---- get_segment_object through a fresh index ------------------------------- *)

(* position of the LAST occurrence of [p], counting from [i] *)
Fixpoint last_pos (p : bytes) (paths : list bytes) (i : nat) : option nat :=
  match paths with
  | [] => None
  | q :: r => match last_pos p r (S i) with
              | Some k => Some k
              | None => if bytes_eqb p q then Some i else None
              end
  end.

Lemma fresh_index_from_lookup p : forall paths i acc,
    alookup p (fresh_index_from i paths acc) =
    match last_pos p paths i with Some k => Some k | None => alookup p acc end.
Proof.
  induction paths as [|q r IH]; intros i acc; [reflexivity|].
  cbn [fresh_index_from last_pos]. rewrite IH.
  destruct (last_pos p r (S i)) as [k|]; [reflexivity|].
  rewrite alookup_aset. destruct (bytes_eqb p q); reflexivity.
Qed.

Definition obj_for (p : bytes) (objs : list sobj) : option sobj :=
  find (fun o => bytes_eqb p (so_path o)) objs.

Lemma obj_for_none p objs : obj_for p objs = None <-> ~ In p (map so_path objs).
Proof.
  unfold obj_for. induction objs as [|o r IH]; cbn [find map In]; [tauto|].
  destruct (bytes_eqb p (so_path o)) eqn:E.
  - apply bytes_eqb_eq in E. split; [discriminate|]. intros H. exfalso. apply H. left. symmetry. exact E.
  - apply bytes_eqb_neq in E. rewrite IH. split.
    + intros H [H'|H']; [apply E; symmetry; exact H'|exact (H H')].
    + intros H H'. apply H. right. exact H'.
Qed.

Lemma obj_for_some p objs o : obj_for p objs = Some o -> In o objs /\ so_path o = p.
Proof.
  unfold obj_for. intros H. apply find_some in H. destruct H as [Hin Hp].
  apply bytes_eqb_eq in Hp. split; [exact Hin|symmetry; exact Hp].
Qed.

Lemma last_pos_nth p : forall (objs : list sobj) i,
    NoDup (map so_path objs) ->
    match last_pos p (map so_path objs) i with
    | Some k => (i <= k)%nat /\ nth_error objs (k - i) = obj_for p objs /\ obj_for p objs <> None
    | None => obj_for p objs = None
    end.
Proof.
  induction objs as [|o r IH]; intros i Hnd; [reflexivity|].
  cbn [map] in Hnd. inversion Hnd as [|x y Hnin Hnd']; subst x y.
  cbn [map last_pos]. specialize (IH (S i) Hnd').
  unfold obj_for in *. cbn [find].
  destruct (last_pos p (map so_path r) (S i)) as [k|].
  - destruct IH as (Hle & Hnth & Hsome).
    assert (Hne : bytes_eqb p (so_path o) = false).
    { apply bytes_eqb_neq. intros ->. apply Hsome. apply obj_for_none. exact Hnin. }
    rewrite Hne. split; [lia|]. split; [|exact Hsome].
    replace (k - i)%nat with (S (k - S i)) by lia. exact Hnth.
  - destruct (bytes_eqb p (so_path o)).
    + split; [lia|]. rewrite Nat.sub_diag. split; [reflexivity|discriminate].
    + exact IH.
Qed.

(* segment.get_segment_object(path) on a record whose index is the fresh index
   of its own object list with distinct paths *)
Theorem segment_object_find g p :
  sg_index g = fresh_index (map so_path (sg_objs g)) ->
  NoDup (map so_path (sg_objs g)) ->
  segment_object g p = obj_for p (sg_objs g).
Proof.
  intros Hidx Hnd. unfold segment_object. rewrite Hidx. unfold fresh_index.
  rewrite fresh_index_from_lookup. pose proof (last_pos_nth p (sg_objs g) 0 Hnd) as H.
  destruct (last_pos p (map so_path (sg_objs g)) 0) as [k|].
  - destruct H as (_ & Hnth & _). rewrite Nat.sub_0_r in Hnth. exact Hnth.
  - cbn [alookup]. symmetry. exact H.
Qed.
