(* The checks and the arithmetic of raw data index parsing TRANSLATED from the Python source on
   every run (Gen/PyFuncsIndex.v; harness/gen/gen_pyfuncs_index.py) are EQUAL to what the
   hand-written model does with a parsed index (Model/SegState.v new_object, Model/Layout.v
   scaler_values / digital_bit).

   The model parses the index from BYTES into syntax (Model/Tokens.v parse_idx) and then checks it
   (new_object); the Python code interleaves reading and checking.  The translation takes the values
   read as parameters, so the equalities are stated on the parsed fields; [parse_idx_full_shape]
   ties the optional total-size field of the syntax to the type, as the Python code reads it. *)
From Coq Require Import ZArith List Bool Lia ZifyBool.
Import ListNotations.
From NpTdms Require Import Base.Bytes Base.Res Base.PySlice Model.Tokens Model.SegState Model.Layout
     Gen.PyFuncsIndex.
Local Open Scope Z_scope.

(* ---- reflected tables -------------------------------------------------------------------- *)

Ltac chain_eq ty :=
  repeat match goal with
         | |- context [ty =? ?k] => destruct (Z.eqb_spec ty k); [subst ty; reflexivity|]
         end.

Lemma idx_tds_lookup_eq ty :
  idx_tds_lookup ty = match tds_size ty with Some _ => Some ty | None => None end.
Proof. unfold idx_tds_lookup, tds_size. chain_eq ty. reflexivity. Qed.

Lemma idx_cls_size_eq c :
  idx_cls_size c = match tds_size c with Some (Some k) => Some k | _ => None end.
Proof. unfold idx_cls_size, tds_size. chain_eq c. reflexivity. Qed.

Lemma idx_tables_eq ty :
  idx_tds_lookup ty = match tds_size ty with Some _ => Some ty | None => None end /\
  idx_cls_size ty = match tds_size ty with Some (Some k) => Some k | _ => None end.
Proof. split; [apply idx_tds_lookup_eq | apply idx_cls_size_eq]. Qed.

Lemma idx_daqmx_types_eq code : idx_daqmx_types code = daqmx_type code.
Proof. unfold idx_daqmx_types, daqmx_type, T_TIME. chain_eq code. reflexivity. Qed.

Lemma idx_constants_eq :
  idx_cls_String = T_STRING /\ idx_cls_DaqMxRawData = T_DAQMX /\ idx_DIGITAL_LINE_SCALER = DIGITAL_LINE_SCALER.
Proof. repeat split. Qed.

(* ---- TdmsSegmentObject.read_raw_data_index ------------------------------------------------- *)

(* (number_values, data_type, data_size) of the object the model builds *)
Definition view_obj (r : res sobj) : res (Z * Z * Z) :=
  match r with
  | Ok o => match so_dtype o with Some dt => Ok (so_nvals o, dt, so_dsize o) | None => Err EOther end
  | Err e => Err e
  end.

(* the index syntax the fields stand for: a total size is present exactly for strings *)
Definition full_idx (hdr dt dim n next_u64 : Z) : idx :=
  IFull hdr dt dim n (if dt =? T_STRING then Some next_u64 else None).

Theorem read_raw_data_index_eq path hdr dt dim n next_u64 :
  read_raw_data_index_gen dt dim n next_u64 = view_obj (new_object path (full_idx hdr dt dim n next_u64)).
Proof.
  unfold read_raw_data_index_gen, full_idx, new_object, view_obj. rewrite idx_tds_lookup_eq.
  destruct (tds_size dt) as [sz|] eqn:Et; [|reflexivity]. cbn [need bind].
  rewrite idx_cls_size_eq, Et. change idx_cls_String with T_STRING.
  destruct sz as [k|]; cbn [is_none andb].
  - assert (Hs : (dt =? T_STRING) = false).
    { destruct (Z.eqb_spec dt T_STRING) as [->|]; [discriminate Et|reflexivity]. }
    rewrite Hs. destruct (dim =? 1); reflexivity.
  - destruct (dt =? T_STRING) eqn:Es; cbn [negb]; [|reflexivity].
    destruct (dim =? 1); reflexivity.
Qed.

(* what the byte-level parser produces has that shape, with the 8 bytes after the count as the
   total for strings *)
Lemma parse_idx_full_shape e bs hdr dt dim n total rest :
  parse_idx e bs = Ok (IFull hdr dt dim n total, rest) ->
  exists next_u64, IFull hdr dt dim n total = full_idx hdr dt dim n next_u64.
Proof.
  unfold parse_idx, full_idx. destruct (get_u32 e bs) as [[h r0]|]; cbn [bind]; [|discriminate].
  destruct (h =? RAW_DATA_INDEX_NO_DATA); [discriminate|].
  destruct (h =? RAW_DATA_INDEX_MATCHES_PREVIOUS); [discriminate|].
  destruct ((h =? FORMAT_CHANGING_SCALER) || (h =? DIGITAL_LINE_SCALER)).
  - destruct (get_u32 e r0) as [[a r1]|]; cbn [bind]; [|discriminate].
    destruct (get_u32 e r1) as [[b r2]|]; cbn [bind]; [|discriminate].
    destruct (get_u64 e r2) as [[c r3]|]; cbn [bind]; [|discriminate].
    destruct (get_u32 e r3) as [[d r4]|]; cbn [bind]; [|discriminate].
    destruct (parse_n _ d r4) as [[s r5]|]; cbn [bind]; [|discriminate].
    destruct (get_u32 e r5) as [[f r6]|]; cbn [bind]; [|discriminate].
    destruct (parse_n _ f r6) as [[w r7]|]; cbn [bind]; discriminate.
  - destruct (get_u32 e r0) as [[a r1]|]; cbn [bind]; [|discriminate].
    destruct (get_u32 e r1) as [[b r2]|]; cbn [bind]; [|discriminate].
    destruct (get_u64 e r2) as [[c r3]|]; cbn [bind]; [|discriminate].
    destruct (a =? T_STRING) eqn:Es.
    + destruct (get_u64 e r3) as [[t r4]|]; cbn [bind]; [|discriminate].
      intros [= <- <- <- <- <- <-]. exists t. rewrite Es. reflexivity.
    + intros [= <- <- <- <- <- <-]. exists 0. rewrite Es. reflexivity.
Qed.

Theorem read_raw_data_index_parsed e bs path hdr dt dim n total rest :
  parse_idx e bs = Ok (IFull hdr dt dim n total, rest) ->
  exists next_u64,
    view_obj (new_object path (IFull hdr dt dim n total)) = read_raw_data_index_gen dt dim n next_u64 /\
    total = (if dt =? T_STRING then Some next_u64 else None).
Proof.
  intros H. destruct (parse_idx_full_shape _ _ _ _ _ _ _ _ H) as [t Ht]. exists t.
  rewrite Ht, (read_raw_data_index_eq path hdr). split; [reflexivity|].
  unfold full_idx in Ht. injection Ht as Ht. exact Ht.
Qed.

(* ---- scaler constructors and DaqMxMetadata.__init__ --------------------------------------------- *)

Lemma scaler_init_eq code :
  daqmx_scaler_init_gen code = need EKey (daqmx_type code) /\
  digital_scaler_init_gen code = need EKey (daqmx_type code).
Proof.
  unfold daqmx_scaler_init_gen, digital_scaler_init_gen. rewrite idx_daqmx_types_eq.
  destruct (daqmx_type code); split; reflexivity.
Qed.

Lemma scaler_construct_eq kind s :
  scaler_construct kind s
  = match daqmx_type (sc_type s) with Some dt => Ok (mkRscaler s dt) | None => Err EKey end.
Proof.
  unfold scaler_construct. destruct (scaler_init_eq (sc_type s)) as [-> ->].
  destruct (kind =? idx_DIGITAL_LINE_SCALER); destruct (daqmx_type (sc_type s)); reflexivity.
Qed.

Definition known_scaler (s : scaler) : bool :=
  match daqmx_type (sc_type s) with Some _ => true | None => false end.

(* the constructed scalers: the raw fields with their resolved types *)
Definition resolved (rs : list rscaler) (scalers : list scaler) : Prop :=
  map rs_raw rs = scalers /\ Forall (fun r => daqmx_type (sc_type (rs_raw r)) = Some (rs_dtype r)) rs.

Lemma mapM_construct kind scalers :
  if forallb known_scaler scalers
  then exists rs, mapM (scaler_construct kind) scalers = Ok rs /\ resolved rs scalers
  else mapM (scaler_construct kind) scalers = Err EKey.
Proof.
  induction scalers as [|s r IH].
  - exists []. split; [reflexivity|]. split; [reflexivity|constructor].
  - cbn [forallb mapM]. rewrite scaler_construct_eq. unfold known_scaler at 1.
    destruct (daqmx_type (sc_type s)) as [dt|] eqn:Ed; cbn [andb bind]; [|reflexivity].
    destruct (forallb known_scaler r).
    + destruct IH as (rs & -> & Hm & Hf). cbn [bind]. exists (mkRscaler s dt :: rs).
      split; [reflexivity|]. split; [cbn [map rs_raw]; rewrite Hm; reflexivity|].
      constructor; [exact Ed|exact Hf].
    + rewrite IH. reflexivity.
Qed.

Lemma firstn_length_all {A} (l : list A) : firstn (Z.to_nat (Z.of_nat (length l))) l = l.
Proof. rewrite Nat2Z.id. apply firstn_all. Qed.

(* DaqMxMetadata.__init__'s checks against the model's new_object on a DAQmx index, for a channel
   type the caller has already looked up ([tds_size dt] known), the scaler count being the
   number of scalers in the file *)
Theorem daqmx_metadata_init_eq path kind dt dim n scalers widths :
  tds_size dt <> None ->
  match daqmx_metadata_init_gen dim (Z.of_nat (length scalers)) kind scalers dt with
  | Ok rs =>
    resolved rs scalers /\
    new_object path (IDaqmx kind dt dim n scalers widths)
    = Ok (mkSobj path true n 0 (Some dt) (Some (mkDq kind scalers widths)))
  | Err e => new_object path (IDaqmx kind dt dim n scalers widths) = Err e
  end.
Proof.
  intros Hdt. unfold daqmx_metadata_init_gen, new_object.
  destruct (tds_size dt) as [sz|]; [clear Hdt|contradiction].
  destruct (dim =? 1); cbn [negb]; [|reflexivity].
  rewrite firstn_length_all. change idx_cls_DaqMxRawData with T_DAQMX.
  pose proof (mapM_construct kind scalers) as HM.
  replace (forallb (fun s => match daqmx_type (sc_type s) with Some _ => true | None => false end) scalers)
    with (forallb known_scaler scalers) by reflexivity.
  destruct (forallb known_scaler scalers); cbn [negb].
  - destruct HM as (rs & -> & Hres). cbn [bind].
    destruct (dt =? T_DAQMX); cbn [negb andb]; [split; [exact Hres|reflexivity]|].
    destruct Hres as [Hm Hf].
    destruct scalers as [|s [|s2 r]].
    + reflexivity.
    + destruct rs as [|r1 [|r2 rs]]; try discriminate Hm. injection Hm as Hm. subst s.
      cbn [length]. change (Z.of_nat 1 =? 1) with true. cbn [negb].
      change (py_index [r1] 0) with (Ok r1). cbn [bind].
      inversion Hf as [|? ? Hr1 _]; subst. rewrite Hr1.
      destruct (rs_dtype r1 =? dt); cbn [negb]; [|reflexivity].
      split; [split; [reflexivity|exact Hf]|reflexivity].
    + replace (Z.of_nat (length (s :: s2 :: r)) =? 1) with false
        by (cbn [length]; symmetry; apply Z.eqb_neq; lia).
      reflexivity.
  - rewrite HM. reflexivity.
Qed.

(* ---- byte offsets and the digital line bit --------------------------------------------------------- *)

(* the column a scaler is read from: Model/Layout.v scaler_values' [off] *)
Theorem byte_offset_eq kind s :
  (if kind =? DIGITAL_LINE_SCALER then digital_byte_offset_gen (sc_off s) else daqmx_byte_offset_gen (sc_off s))
  = Ok (if kind =? DIGITAL_LINE_SCALER then sc_off s / 8 else sc_off s).
Proof. destruct (kind =? DIGITAL_LINE_SCALER); reflexivity. Qed.

Lemma bit_bounds off : 0 <= off mod 8 < 8.
Proof. apply Z.mod_pos_bound. lia. Qed.

(* DigitalLineScaler.postprocess_data (after repair 4b9c684: shift, then mask with 1) on an element
   of ANY integer dtype of w >= 1 bytes, signed or unsigned: the Python ints bit_offset (< 8) and 1
   fit every such dtype, so NumPy never raises *)
Theorem digital_postprocess_all w sg off v :
  (0 < w)%nat ->
  digital_postprocess_gen w sg off v = Ok (Z.land (Z.shiftr v (off mod 8)) 1).
Proof.
  intros Hw. unfold digital_postprocess_gen, np_weak_int. cbv zeta.
  pose proof (bit_bounds off) as Hb.
  assert (Hp : 256 <= 256 ^ Z.of_nat w).
  { replace 256 with (256 ^ 1) at 1 by reflexivity. apply Z.pow_le_mono_r; lia. }
  remember (256 ^ Z.of_nat w) as m eqn:Em. clear Em.
  set (b := off mod 8) in *. clearbody b.
  assert (Hh : 128 <= m / 2) by (apply Z.div_le_lower_bound; lia).
  destruct sg.
  - replace ((- (m / 2) <=? b) && (b <? m / 2)) with true by lia. cbn [bind].
    replace ((- (m / 2) <=? 1) && (1 <? m / 2)) with true by lia. reflexivity.
  - replace ((0 <=? b) && (b <? m)) with true by lia. cbn [bind].
    replace ((0 <=? 1) && (1 <? m)) with true by lia. reflexivity.
Qed.

(* shift-then-mask is the addressed bit of the (two's complement) value *)
Lemma shift_mask_testbit v b : 0 <= b -> Z.land (Z.shiftr v b) 1 = Z.b2z (Z.testbit v b).
Proof.
  intros Hb. change 1 with (Z.ones 1). rewrite Z.land_ones by lia. change (2 ^ 1) with 2.
  rewrite <- Z.bit0_mod, Z.shiftr_spec by lia. reflexivity.
Qed.

(* the translated function returns the addressed bit for EVERY integer raw type, int8 bit 7 included *)
Theorem digital_postprocess_bit w sg off v :
  (0 < w)%nat ->
  digital_postprocess_gen w sg off v = Ok (Z.b2z (Z.testbit v (off mod 8))).
Proof.
  intros Hw. rewrite digital_postprocess_all by exact Hw.
  rewrite shift_mask_testbit by (apply bit_bounds). reflexivity.
Qed.

(* mask-then-shift (the model, the code before the repair) = shift-then-mask *)
Lemma mask_shift_eq x b : 0 <= b -> Z.shiftr (Z.land x (Z.shiftl 1 b)) b = Z.land (Z.shiftr x b) 1.
Proof.
  intros Hb. rewrite Z.shiftr_land. f_equal.
  rewrite Z.shiftr_shiftl_l by lia. rewrite Z.sub_diag. reflexivity.
Qed.

(* ... so it is the model's digital_bit on the value's little-endian bytes *)
Theorem digital_bit_translated off (v : bytes) sg :
  (0 < length v)%nat ->
  match digital_postprocess_gen (length v) sg off (le_dec v) with
  | Ok x => digital_bit (off mod 8) v = le_enc (length v) x
  | Err _ => False
  end.
Proof.
  intros Hv. rewrite digital_postprocess_all by exact Hv. unfold digital_bit.
  rewrite mask_shift_eq by (apply bit_bounds). reflexivity.
Qed.

(* int8, bit 7 (the case that raised OverflowError before the repair): -128 = 0x80 has the bit, 127 has not *)
Lemma digital_postprocess_int8_top_bit :
  digital_postprocess_gen 1 true 7 (-128) = Ok 1 /\ digital_postprocess_gen 1 true 7 (-1) = Ok 1 /\
  digital_postprocess_gen 1 true 7 127 = Ok 0.
Proof. repeat split. Qed.

(* format-changing scalers leave the value alone *)
Theorem daqmx_postprocess_eq v : daqmx_postprocess_gen v = Ok v.
Proof. reflexivity. Qed.

(* ---- examples ------------------------------------------------------------------------------------------ *)

Lemma ex_index_values :
  read_raw_data_index_gen 3 1 1000 0 = Ok (1000, 3, 4000) /\
  read_raw_data_index_gen T_STRING 1 3 16 = Ok (3, T_STRING, 16) /\
  read_raw_data_index_gen 3 2 1000 0 = Err EValue /\
  read_raw_data_index_gen 12 1 1000 0 = Err EKey /\
  read_raw_data_index_gen 0 1 1000 0 = Err EValue /\
  digital_byte_offset_gen 21 = Ok 2 /\
  digital_postprocess_gen 1 false 21 0x20 = Ok 1 /\ digital_postprocess_gen 1 false 21 0xDF = Ok 0.
Proof. repeat split. Qed.

Lemma ex_daqmx_init :
  (exists rs, daqmx_metadata_init_gen 1 2 FORMAT_CHANGING_SCALER [mkScaler 3 0 0 0 0; mkScaler 5 0 2 0 1] T_DAQMX = Ok rs /\
              map rs_dtype rs = [2; 3]) /\
  daqmx_metadata_init_gen 1 2 FORMAT_CHANGING_SCALER [mkScaler 3 0 0 0 0; mkScaler 5 0 2 0 1] 2 = Err EValue /\
  (exists rs, daqmx_metadata_init_gen 1 1 DIGITAL_LINE_SCALER [mkScaler 0 0 9 0 0] 5 = Ok rs) /\
  daqmx_metadata_init_gen 1 1 DIGITAL_LINE_SCALER [mkScaler 99 0 9 0 0] T_DAQMX = Err EKey /\
  daqmx_metadata_init_gen 2 1 DIGITAL_LINE_SCALER [mkScaler 0 0 9 0 0] T_DAQMX = Err EValue.
Proof.
  split; [eexists; split; reflexivity|]. split; [reflexivity|].
  split; [eexists; reflexivity|]. split; reflexivity.
Qed.
